/-
  Helper lemmas for Jmes/Properties/C15B.lean, part 4: expressions that DO enumerate object members.

  `Conc v v'`: the run's value `v'` is a *concretisation* of the model's value `v`: the same value, except that an
  array the model tagged `enum` (element order = Go map order) appears in the run as a plain array holding the
  (concretised) elements in SOME order. The run's values never carry the `enum` tag.

  `SimE r r'`: if the model's outcome is a value, the run's outcome is a value that concretises it.
-/
import Jmes.Proofs.C15BSimLemmas
import Jmes.Properties.C13B
namespace Jmes
open Invar

mutual
/-- `v'` is `v` with every map-ordered array replaced by a plain array of its (concretised) elements in some order -/
def Conc : Val → Val → Prop
  | .null, v' => v' = .null
  | .bool b, v' => v' = .bool b
  | .str s, v' => v' = .str s
  | .num n, v' => v' = .num n
  | .foreign k, v' => v' = .foreign k
  | .arr t xs, v' => ∃ ys', ConcL xs ys' ∧
      ((t = .enum ∧ ∃ xs', xs'.Perm ys' ∧ v' = .arr .plain xs') ∨ (t ≠ .enum ∧ v' = .arr t ys'))
  | .obj kvs, v' => ∃ kvs', ConcF kvs kvs' ∧ v' = .obj kvs'
/-- element by element, same order -/
def ConcL : List Val → List Val → Prop
  | [], l' => l' = []
  | x :: xs, l' => ∃ x' xs', Conc x x' ∧ ConcL xs xs' ∧ l' = x' :: xs'
/-- member by member, same keys, same order -/
def ConcF : List (Bytes × Val) → List (Bytes × Val) → Prop
  | [], l' => l' = []
  | (k, x) :: kvs, l' => ∃ x' kvs', Conc x x' ∧ ConcF kvs kvs' ∧ l' = (k, x') :: kvs'
end

/-- concretisation of the elements, in some order -/
def ConcP (xs xs' : List Val) : Prop := ∃ ys', ConcL xs ys' ∧ xs'.Perm ys'

/-! ### lists -/

theorem concL_nil : ConcL [] [] := by simp [ConcL]
theorem concL_cons {x x' : Val} {xs xs' : List Val} (h : Conc x x') (ht : ConcL xs xs') :
    ConcL (x :: xs) (x' :: xs') := by
  simp only [ConcL]; exact ⟨x', xs', h, ht, rfl⟩
theorem concF_nil : ConcF [] [] := by simp [ConcF]
theorem concF_cons {k : Bytes} {x x' : Val} {xs xs' : List (Bytes × Val)} (h : Conc x x') (ht : ConcF xs xs') :
    ConcF ((k, x) :: xs) ((k, x') :: xs') := by
  simp only [ConcF]; exact ⟨x', xs', h, ht, rfl⟩

theorem concL_iff : ∀ {xs xs' : List Val}, ConcL xs xs' ↔ All₂ Conc xs xs'
  | [], xs' => by
    simp only [ConcL]
    constructor
    · rintro rfl; exact .nil
    · intro h; cases h; rfl
  | x :: xs, xs' => by
    simp only [ConcL]
    constructor
    · rintro ⟨x', t', h, ht, rfl⟩; exact .cons h (concL_iff.mp ht)
    · intro h
      cases h with
      | cons h ht => exact ⟨_, _, h, concL_iff.mpr ht, rfl⟩

theorem concF_iff : ∀ {xs xs' : List (Bytes × Val)},
    ConcF xs xs' ↔ All₂ (fun a b : Bytes × Val => a.1 = b.1 ∧ Conc a.2 b.2) xs xs'
  | [], xs' => by
    simp only [ConcF]
    constructor
    · rintro rfl; exact .nil
    · intro h; cases h; rfl
  | (k, x) :: xs, xs' => by
    simp only [ConcF]
    constructor
    · rintro ⟨x', t', h, ht, rfl⟩; exact .cons ⟨rfl, h⟩ (concF_iff.mp ht)
    · intro h
      cases h with
      | @cons _ b _ _ h ht =>
        obtain ⟨k', x'⟩ := b
        obtain ⟨rfl, h⟩ := h
        exact ⟨_, _, h, concF_iff.mpr ht, rfl⟩

theorem concL_length {xs xs' : List Val} (h : ConcL xs xs') : xs.length = xs'.length :=
  (concL_iff.mp h).length_eq

theorem concL_append : ∀ {xs xs' ys ys' : List Val}, ConcL xs xs' → ConcL ys ys' → ConcL (xs ++ ys) (xs' ++ ys')
  | [], xs', ys, ys', h, h2 => by simp only [ConcL] at h; subst h; exact h2
  | x :: xs, xs', ys, ys', h, h2 => by
    simp only [ConcL] at h
    obtain ⟨x', t', hx, ht, rfl⟩ := h
    exact concL_cons hx (concL_append ht h2)

/-- a pointwise relation transports a permutation of the right list to the left list -/
theorem All₂.perm_right {α β} {R : α → β → Prop} {l : List α} {l' l'' : List β} (h : All₂ R l l')
    (hp : l''.Perm l') : ∃ m, m.Perm l ∧ All₂ R m l'' := by
  induction hp generalizing l with
  | nil => cases h; exact ⟨[], List.Perm.refl _, .nil⟩
  | cons x _ ih =>
    cases h with
    | cons hab ht =>
      obtain ⟨m, hm, hr⟩ := ih ht
      exact ⟨_ :: m, hm.cons _, .cons hab hr⟩
  | swap x y l₀ =>
    cases h with
    | cons h1 ht =>
      cases ht with
      | cons h2 ht => exact ⟨_, List.Perm.swap _ _ _, .cons h2 (.cons h1 ht)⟩
  | trans _ _ ih1 ih2 =>
    obtain ⟨m1, hm1, hr1⟩ := ih2 h
    obtain ⟨m2, hm2, hr2⟩ := ih1 hr1
    exact ⟨m2, hm2.trans hm1, hr2⟩

/-- … and of the left list to the right list -/
theorem All₂.perm_left {α β} {R : α → β → Prop} {l m : List α} {l' : List β} (h : All₂ R l l')
    (hp : m.Perm l) : ∃ m', m'.Perm l' ∧ All₂ R m m' := by
  induction hp generalizing l' with
  | nil => cases h; exact ⟨[], List.Perm.refl _, .nil⟩
  | cons x _ ih =>
    cases h with
    | cons hab ht =>
      obtain ⟨m, hm, hr⟩ := ih ht
      exact ⟨_ :: m, hm.cons _, .cons hab hr⟩
  | swap x y l₀ =>
    cases h with
    | cons h1 ht =>
      cases ht with
      | cons h2 ht => exact ⟨_, List.Perm.swap _ _ _, .cons h2 (.cons h1 ht)⟩
  | trans _ _ ih1 ih2 =>
    obtain ⟨m1, hm1, hr1⟩ := ih2 h
    obtain ⟨m2, hm2, hr2⟩ := ih1 hr1
    exact ⟨m2, hm2.trans hm1, hr2⟩

theorem All₂.filter {α β} {R : α → β → Prop} {p : α → Bool} {q : β → Bool} (hpq : ∀ a b, R a b → p a = q b) :
    ∀ {l : List α} {l' : List β}, All₂ R l l' → All₂ R (l.filter p) (l'.filter q)
  | _, _, .nil => .nil
  | _, _, .cons (a := a) (b := b) h t => by
    simp only [List.filter_cons, hpq a b h]
    split
    · exact .cons h (All₂.filter hpq t)
    · exact All₂.filter hpq t

theorem All₂.append {α β} {R : α → β → Prop} : ∀ {l₁ l₂ : List α} {l₁' l₂' : List β},
    All₂ R l₁ l₁' → All₂ R l₂ l₂' → All₂ R (l₁ ++ l₂) (l₁' ++ l₂')
  | _, _, _, _, .nil, h2 => h2
  | _, _, _, _, .cons h t, h2 => .cons h (All₂.append t h2)

theorem All₂.map {α β γ δ} {R : α → β → Prop} {S : γ → δ → Prop} {f : α → γ} {g : β → δ}
    (hfg : ∀ a b, R a b → S (f a) (g b)) : ∀ {l : List α} {l' : List β}, All₂ R l l' → All₂ S (l.map f) (l'.map g)
  | _, _, .nil => .nil
  | _, _, .cons h t => .cons (hfg _ _ h) (All₂.map hfg t)

theorem All₂.reverse {α β} {R : α → β → Prop} : ∀ {l : List α} {l' : List β},
    All₂ R l l' → All₂ R l.reverse l'.reverse
  | _, _, .nil => .nil
  | _, _, .cons h t => by
    simp only [List.reverse_cons]
    exact All₂.append (All₂.reverse t) (.cons h .nil)

theorem All₂.getD {α β} {R : α → β → Prop} {d : α} {d' : β} (hd : R d d') : ∀ {l : List α} {l' : List β},
    All₂ R l l' → ∀ i, R (l.getD i d) (l'.getD i d')
  | _, _, .nil, _ => by simpa using hd
  | _, _, .cons h t, 0 => by simpa using h
  | _, _, .cons h t, i + 1 => by simpa using All₂.getD hd t i

/-! `ConcP` in its two equivalent forms -/

theorem concP_iff {xs xs' : List Val} : ConcP xs xs' ↔ ∃ ys, ys.Perm xs ∧ ConcL ys xs' := by
  constructor
  · rintro ⟨ys', h, hp⟩
    obtain ⟨m, hm, hr⟩ := (concL_iff.mp h).perm_right hp
    exact ⟨m, hm, concL_iff.mpr hr⟩
  · rintro ⟨ys, hp, h⟩
    obtain ⟨m', hm', hr⟩ := (concL_iff.mp h).perm_left hp.symm
    exact ⟨m', concL_iff.mpr hr, hm'.symm⟩

theorem ConcL.concP {xs xs' : List Val} (h : ConcL xs xs') : ConcP xs xs' := ⟨xs', h, List.Perm.refl _⟩

theorem ConcP.length {xs xs' : List Val} (h : ConcP xs xs') : xs.length = xs'.length := by
  obtain ⟨ys', h1, h2⟩ := h
  rw [concL_length h1, h2.length_eq]

/-- with fewer than two elements there is only one order -/
theorem ConcP.concL_of_short {xs xs' : List Val} (h : ConcP xs xs') (hs : xs.length < 2) : ConcL xs xs' := by
  obtain ⟨ys', h1, h2⟩ := h
  have hl := concL_length h1
  match ys', h1, h2, hl with
  | [], h1, h2, _ => rw [List.Perm.eq_nil h2] at *; exact h1
  | [y], h1, h2, _ => rw [List.perm_singleton.mp h2]; exact h1
  | _ :: _ :: _, _, _, hl => simp at hl; omega

/-! ### what `Conc` says about each shape -/

theorem conc_arr {t : ATag} {xs : List Val} {v' : Val} (h : Conc (.arr t xs) v') :
    ∃ t' xs', v' = .arr t' xs' ∧ t' ≠ .enum ∧ ConcP xs xs' ∧ (t ≠ .enum → t' = t ∧ ConcL xs xs') ∧
      (t = .enum → t' = .plain) := by
  simp only [Conc] at h
  obtain ⟨ys', hl, h⟩ := h
  rcases h with ⟨rfl, xs', hp, rfl⟩ | ⟨hne, rfl⟩
  · exact ⟨.plain, xs', rfl, by decide, ⟨ys', hl, hp⟩, fun h => absurd rfl h, fun _ => rfl⟩
  · exact ⟨t, ys', rfl, hne, hl.concP, fun _ => ⟨rfl, hl⟩, fun h => absurd h hne⟩

/-- when the model's array is not a map-ordered array of two or more elements, the run's array has the
    concretised elements in the same order -/
theorem conc_arr_pos {t : ATag} {xs : List Val} {v' : Val} (h : Conc (.arr t xs) v') (he : enum2 t xs = false) :
    ∃ t' xs', v' = .arr t' xs' ∧ t' ≠ .enum ∧ ConcL xs xs' ∧ (t ≠ .enum → t' = t) ∧ (t = .enum → t' = .plain) := by
  obtain ⟨t', xs', rfl, hne, hp, h1, h2⟩ := conc_arr h
  refine ⟨t', xs', rfl, hne, ?_, fun h => (h1 h).1, h2⟩
  by_cases ht : t = .enum
  · subst ht
    apply hp.concL_of_short
    simp only [enum2, beq_self_eq_true, Bool.true_and, decide_eq_false_iff_not] at he
    omega
  · exact (h1 ht).2

theorem conc_obj {kvs : List (Bytes × Val)} {v' : Val} (h : Conc (.obj kvs) v') :
    ∃ kvs', v' = .obj kvs' ∧ ConcF kvs kvs' := by
  simp only [Conc] at h
  obtain ⟨kvs', h1, rfl⟩ := h
  exact ⟨kvs', rfl, h1⟩

theorem conc_plainArr {xs xs' : List Val} (h : ConcL xs xs') : Conc (.arr .plain xs) (.arr .plain xs') := by
  simp only [Conc]
  exact ⟨xs', h, .inr ⟨by decide, rfl⟩⟩

theorem conc_arr_of_ne {t : ATag} {xs xs' : List Val} (ht : t ≠ .enum) (h : ConcL xs xs') :
    Conc (.arr t xs) (.arr t xs') := by
  simp only [Conc]
  exact ⟨xs', h, .inr ⟨ht, rfl⟩⟩

theorem conc_enumArr {xs xs' : List Val} (h : ConcP xs xs') : Conc (.arr .enum xs) (.arr .plain xs') := by
  unfold Conc
  obtain ⟨ys', h1, h2⟩ := h
  exact ⟨ys', h1, .inl ⟨rfl, xs', h2, rfl⟩⟩

/-- the run's array for a model array with a *derived* tag -/
theorem conc_derived {t t' : ATag} {xs xs' : List Val} (h1 : t ≠ .enum → t' = t)
    (h2 : t = .enum → t' = .plain) (hp : ConcP xs xs') (hl : t ≠ .enum → ConcL xs xs') :
    Conc (.arr t.derived xs) (.arr t'.derived xs') := by
  cases t with
  | enum =>
    rw [h2 rfl]
    exact conc_enumArr hp
  | plain =>
    rw [h1 (by decide)]
    exact conc_plainArr (hl (by decide))
  | nil =>
    rw [h1 (by decide)]
    exact conc_plainArr (hl (by decide))

theorem conc_objOf {kvs kvs' : List (Bytes × Val)} (h : ConcF kvs kvs') : Conc (.obj kvs) (.obj kvs') := by
  simp only [Conc]; exact ⟨kvs', h, rfl⟩

/-- values without containers are concretised by themselves only -/
theorem conc_flat {v v' : Val} (h : Conc v v') : (∀ t xs, v ≠ .arr t xs) → (∀ kvs, v ≠ .obj kvs) → v' = v := by
  intro h1 h2
  cases v with
  | arr t xs => exact absurd rfl (h1 t xs)
  | obj kvs => exact absurd rfl (h2 kvs)
  | _ => simpa [Conc] using h

/-! ### values without map-ordered arrays are their own concretisation; concretisations have none -/

mutual
theorem conc_refl : ∀ v : Val, v.Good true = true → Conc v v
  | .null, _ | .bool _, _ | .str _, _ | .num _, _ | .foreign _, _ => by simp [Conc]
  | .arr t xs, h => by
    have ⟨ht, hx⟩ := good_arr.mp h
    have hne : t ≠ .enum := by cases t <;> simp_all [tagOk]
    exact conc_arr_of_ne hne (concL_refl xs hx)
  | .obj kvs, h => conc_objOf (concF_refl kvs (good_obj.mp h))
theorem concL_refl : ∀ xs : List Val, Val.GoodL true xs = true → ConcL xs xs
  | [], _ => concL_nil
  | x :: xs, h => by
    have ⟨hx, hr⟩ := goodL_cons.mp h
    exact concL_cons (conc_refl x hx) (concL_refl xs hr)
theorem concF_refl : ∀ kvs : List (Bytes × Val), Val.GoodF true kvs = true → ConcF kvs kvs
  | [], _ => concF_nil
  | (k, x) :: kvs, h => by
    have ⟨hx, hr⟩ := goodF_cons.mp h
    exact concF_cons (conc_refl x hx) (concF_refl kvs hr)
end

mutual
/-- a concretisation carries no `enum` tag (so the model's functions never consult an order on it) -/
theorem conc_good : ∀ (v v' : Val), Conc v v' → v'.Good true = true
  | .null, v', h | .bool _, v', h | .str _, v', h | .num _, v', h => by
    simp only [Conc] at h; subst h; rfl
  | .foreign _, v', h => by simp only [Conc] at h; subst h; rfl
  | .arr t xs, v', h => by
    simp only [Conc] at h
    obtain ⟨ys', hl, h⟩ := h
    have hg := concL_good xs ys' hl
    rcases h with ⟨_, xs', hp, rfl⟩ | ⟨hne, rfl⟩
    · exact good_plainArr (goodL_sub hg fun y hy => hp.mem_iff.mp hy)
    · refine good_arr.mpr ⟨?_, hg⟩
      cases t <;> simp_all [tagOk]
  | .obj kvs, v', h => by
    simp only [Conc] at h
    obtain ⟨kvs', hl, rfl⟩ := h
    exact good_obj.mpr (concF_good kvs kvs' hl)
theorem concL_good : ∀ (xs xs' : List Val), ConcL xs xs' → Val.GoodL true xs' = true
  | [], xs', h => by simp only [ConcL] at h; subst h; rfl
  | x :: xs, xs', h => by
    simp only [ConcL] at h
    obtain ⟨x', t', hx, ht, rfl⟩ := h
    exact goodL_cons.mpr ⟨conc_good x x' hx, concL_good xs t' ht⟩
theorem concF_good : ∀ (xs xs' : List (Bytes × Val)), ConcF xs xs' → Val.GoodF true xs' = true
  | [], xs', h => by simp only [ConcF] at h; subst h; rfl
  | (k, x) :: xs, xs', h => by
    simp only [ConcF] at h
    obtain ⟨x', t', hx, ht, rfl⟩ := h
    exact goodF_cons.mpr ⟨conc_good x x' hx, concF_good xs t' ht⟩
end

/-! ### observations that do not depend on the order -/

theorem conc_isNull {v v' : Val} (h : Conc v v') : v'.isNull = v.isNull := by
  cases v with
  | arr t xs => obtain ⟨t', xs', rfl, _⟩ := conc_arr h; rfl
  | obj kvs => obtain ⟨kvs', rfl, _⟩ := conc_obj h; rfl
  | _ => simp only [Conc] at h; subst h; rfl

theorem concF_length {kvs kvs' : List (Bytes × Val)} (h : ConcF kvs kvs') : kvs.length = kvs'.length :=
  (concF_iff.mp h).length_eq

theorem isEmpty_eq_of_length {α β} {l : List α} {l' : List β} (h : l.length = l'.length) : l'.isEmpty = l.isEmpty := by
  cases l <;> cases l' <;> simp_all

theorem conc_isTrue {v v' : Val} (h : Conc v v') : isTrue v' = isTrue v := by
  cases v with
  | arr t xs =>
    obtain ⟨t', xs', rfl, _, hp, _⟩ := conc_arr h
    simp only [isTrue, isEmpty_eq_of_length hp.length]
  | obj kvs =>
    obtain ⟨kvs', rfl, hf⟩ := conc_obj h
    simp only [isTrue, isEmpty_eq_of_length (concF_length hf)]
  | _ => simp only [Conc] at h; subst h; rfl

theorem conc_isNumber {v v' : Val} (h : Conc v v') : isNumber v' = isNumber v := by
  cases v with
  | arr t xs => obtain ⟨t', xs', rfl, _⟩ := conc_arr h; rfl
  | obj kvs => obtain ⟨kvs', rfl, _⟩ := conc_obj h; rfl
  | _ => simp only [Conc] at h; subst h; rfl

theorem conc_toDecimal {v v' : Val} (h : Conc v v') : toDecimal v' = toDecimal v := by
  cases v with
  | arr t xs => obtain ⟨t', xs', rfl, _⟩ := conc_arr h; rfl
  | obj kvs => obtain ⟨kvs', rfl, _⟩ := conc_obj h; rfl
  | _ => simp only [Conc] at h; subst h; rfl

theorem conc_toFloat {v v' : Val} (h : Conc v v') : toFloat v' = toFloat v := by
  cases v with
  | arr t xs => obtain ⟨t', xs', rfl, _⟩ := conc_arr h; rfl
  | obj kvs => obtain ⟨kvs', rfl, _⟩ := conc_obj h; rfl
  | _ => simp only [Conc] at h; subst h; rfl

theorem conc_toInt {v v' : Val} (h : Conc v v') : toInt v' = toInt v := by
  cases v with
  | arr t xs => obtain ⟨t', xs', rfl, _⟩ := conc_arr h; rfl
  | obj kvs => obtain ⟨kvs', rfl, _⟩ := conc_obj h; rfl
  | _ => simp only [Conc] at h; subst h; rfl

theorem conc_strArg {v v' : Val} (h : Conc v v') : strArg v' = strArg v := by
  cases v with
  | arr t xs => obtain ⟨t', xs', rfl, _⟩ := conc_arr h; rfl
  | obj kvs => obtain ⟨kvs', rfl, _⟩ := conc_obj h; rfl
  | _ => simp only [Conc] at h; subst h; rfl

theorem conc_intArg {v v' : Val} (h : Conc v v') : intArg v' = intArg v := by
  simp only [intArg, conc_toInt h, conc_toDecimal h]

theorem conc_typeName {v v' : Val} (h : Conc v v') : typeName v' = typeName v := by
  cases v with
  | arr t xs => obtain ⟨t', xs', rfl, _⟩ := conc_arr h; rfl
  | obj kvs => obtain ⟨kvs', rfl, _⟩ := conc_obj h; rfl
  | _ => simp only [Conc] at h; subst h; rfl

/-! ### outcomes -/

/-- if the model's outcome is a value, so is the run's, and the two are related by `C` -/
def SimG {α β} (C : α → β → Prop) (r : Res α) (r' : Res β) : Prop := ∀ a, r = .ok a → ∃ b, r' = .ok b ∧ C a b

abbrev SimE (r r' : Res Val) : Prop := SimG Conc r r'

namespace SimG
variable {α β γ δ : Type} {C : α → β → Prop} {D : γ → δ → Prop}

theorem ok {a : α} {b : β} (h : C a b) : SimG C (.ok a) (.ok b) := by
  intro a' e; cases e; exact ⟨b, rfl, h⟩
theorem pure {a : α} {b : β} (h : C a b) : SimG C (Pure.pure a) (Pure.pure b) := ok h
theorem of_not_ok {r : Res α} {r' : Res β} (h : ∀ a, r ≠ .ok a) : SimG C r r' := fun a e => absurd e (h a)
theorem err {cs : List Cat} {r' : Res β} : SimG C (.err cs : Res α) r' := of_not_ok (by intro a e; cases e)
theorem nondet {r' : Res β} : SimG C (.nondet : Res α) r' := of_not_ok (by intro a e; cases e)
theorem errType {r' : Res β} : SimG C (Jmes.errType : Res α) r' := err

theorem bind {r : Res α} {r' : Res β} {f : α → Res γ} {f' : β → Res δ} (h : SimG C r r')
    (hf : ∀ a b, C a b → SimG D (f a) (f' b)) : SimG D (r >>= f) (r' >>= f') := by
  cases r with
  | ok a =>
    obtain ⟨b, rfl, hab⟩ := h a rfl
    exact hf a b hab
  | _ => exact of_not_ok (by intro a e; cases e)

theorem mono {C' : α → β → Prop} {r : Res α} {r' : Res β} (h : SimG C r r') (hc : ∀ a b, C a b → C' a b) :
    SimG C' r r' := by
  intro a e
  obtain ⟨b, e', hab⟩ := h a e
  exact ⟨b, e', hc a b hab⟩
end SimG

/-- the same outcome on both sides, when values of that outcome are their own concretisation -/
theorem SimE.of_eq {r r' : Res Val} (e : r' = r) (h : ∀ v, r = .ok v → Conc v v) : SimE r r' := by
  intro v hv
  exact ⟨v, by rw [e, hv], h v hv⟩

/-! ### `field`, `index`, slices -/

theorem conc_objLookup (k : Bytes) : ∀ {kvs kvs' : List (Bytes × Val)}, ConcF kvs kvs' →
    (objLookup k kvs = none ∧ objLookup k kvs' = none) ∨
    ∃ v v', objLookup k kvs = some v ∧ objLookup k kvs' = some v' ∧ Conc v v'
  | [], kvs', h => by simp only [ConcF] at h; subst h; exact .inl ⟨rfl, rfl⟩
  | (k0, x) :: kvs, kvs', h => by
    simp only [ConcF] at h
    obtain ⟨x', t', hx, ht, rfl⟩ := h
    simp only [objLookup]
    by_cases e : k = k0
    · simp only [e, if_true]
      exact .inr ⟨x, x', rfl, rfl, hx⟩
    · simp only [e, if_false]
      exact conc_objLookup k ht

theorem conc_field (k : Bytes) {v v' : Val} (h : Conc v v') : Conc (field k v) (field k v') := by
  cases v with
  | obj kvs =>
    obtain ⟨kvs', rfl, hf⟩ := conc_obj h
    simp only [field]
    rcases conc_objLookup k hf with ⟨h1, h2⟩ | ⟨x, x', h1, h2, hx⟩
    · rw [h1, h2]; simp [Conc]
    · rw [h1, h2]; exact hx
  | arr t xs => obtain ⟨t', xs', rfl, _⟩ := conc_arr h; simp [field, Conc]
  | _ => simp only [Conc] at h; subst h; simp [field, Conc]

theorem enum2_of_ne {t : ATag} (xs : List Val) (h : t ≠ .enum) : enum2 t xs = false := by
  cases t <;> simp_all [enum2]

theorem conc_null : Conc .null .null := by simp [Conc]

theorem index_simE {v v' : Val} (h : Conc v v') (i : Int) : SimE (index v i) (index v' i) := by
  cases v with
  | arr t xs =>
    obtain ⟨t', xs', rfl, hne, hp, _, _⟩ := conc_arr h
    simp only [index, ← hp.length]
    generalize (if i < 0 then i + (xs.length : Int) else i) = j
    split
    · exact SimG.ok conc_null
    · cases he : enum2 t xs with
      | true => simp only [if_true]; exact SimG.nondet
      | false =>
        obtain ⟨t'', xs'', e, _, hl, _⟩ := conc_arr_pos h he
        cases e
        simp only [enum2_of_ne _ hne, Bool.false_eq_true, if_false]
        exact SimG.ok ((concL_iff.mp hl).getD conc_null _)
  | obj kvs => obtain ⟨kvs', rfl, _⟩ := conc_obj h; exact SimG.ok conc_null
  | _ => simp only [Conc] at h; subst h; exact SimG.ok conc_null

theorem All₂.take {α β} {R : α → β → Prop} : ∀ {l : List α} {l' : List β} (n : Nat),
    All₂ R l l' → All₂ R (l.take n) (l'.take n)
  | _, _, 0, _ => by simpa using All₂.nil
  | _, _, _ + 1, .nil => .nil
  | _, _, n + 1, .cons h t => by simpa using All₂.cons h (All₂.take n t)

theorem All₂.drop {α β} {R : α → β → Prop} : ∀ {l : List α} {l' : List β} (n : Nat),
    All₂ R l l' → All₂ R (l.drop n) (l'.drop n)
  | _, _, 0, h => by simpa using h
  | _, _, _ + 1, .nil => .nil
  | _, _, n + 1, .cons h t => by simpa using All₂.drop n t

theorem conc_pickStep {xs xs' : List Val} (h : ConcL xs xs') (step : Int) :
    ∀ (n : Nat) (start : Int), ConcL (pickStep xs start step n) (pickStep xs' start step n)
  | 0, _ => concL_nil
  | n + 1, start => by
    simp only [pickStep]
    exact concL_cons ((concL_iff.mp h).getD conc_null _) (conc_pickStep h step n _)

theorem slice_simE {v v' : Val} (h : Conc v v') (a b : Int) : SimE (slice v a b) (slice v' a b) := by
  cases v with
  | arr t xs =>
    obtain ⟨t', xs', rfl, hne, hp, _, _⟩ := conc_arr h
    simp only [slice, ← hp.length]
    cases clamp1 (xs.length : Int) a b with
    | none => exact SimG.ok (conc_plainArr concL_nil)
    | some ab =>
      obtain ⟨a', b'⟩ := ab
      simp only
      split
      · exact SimG.ok (conc_plainArr concL_nil)
      · cases he : enum2 t xs with
        | true => simp only [if_true]; exact SimG.nondet
        | false =>
          obtain ⟨t'', xs'', e, _, hl, _⟩ := conc_arr_pos h he
          cases e
          simp only [enum2_of_ne _ hne, Bool.false_eq_true, if_false]
          exact SimG.ok (conc_plainArr (concL_iff.mpr (((concL_iff.mp hl).drop _).take _)))
  | obj kvs => obtain ⟨kvs', rfl, _⟩ := conc_obj h; exact SimG.ok conc_null
  | str s =>
    simp only [Conc] at h; subst h
    exact SimE.of_eq rfl (by
      intro v hv
      simp only [slice] at hv
      split at hv <;> cases hv <;> simp [Conc])
  | _ => simp only [Conc] at h; subst h; exact SimG.ok conc_null

theorem sliceStep_simE {v v' : Val} (h : Conc v v') (a b c : Int) : SimE (sliceStep v a b c) (sliceStep v' a b c) := by
  cases v with
  | arr t xs =>
    obtain ⟨t', xs', rfl, hne, hp, _, _⟩ := conc_arr h
    simp only [sliceStep, ← hp.length]
    cases clampStep (xs.length : Int) a b c with
    | none => exact SimG.ok (conc_plainArr concL_nil)
    | some an =>
      obtain ⟨a', n⟩ := an
      simp only
      cases he : enum2 t xs with
      | true => simp only [if_true]; exact SimG.nondet
      | false =>
        obtain ⟨t'', xs'', e, _, hl, _⟩ := conc_arr_pos h he
        cases e
        simp only [enum2_of_ne _ hne, Bool.false_eq_true, if_false]
        exact SimG.ok (conc_plainArr (conc_pickStep hl _ _ _))
  | obj kvs => obtain ⟨kvs', rfl, _⟩ := conc_obj h; exact SimG.ok conc_null
  | str s =>
    simp only [Conc] at h; subst h
    exact SimE.of_eq rfl (by
      intro v hv
      simp only [sliceStep] at hv
      split at hv
      · cases hv; simp [Conc]
      · split at hv <;> cases hv <;> simp [Conc])
  | _ => simp only [Conc] at h; subst h; exact SimG.ok conc_null

/-! ### `ConcP` calculus -/

theorem ConcP.nil : ConcP [] [] := concL_nil.concP

theorem ConcP.of_perm_right {xs xs' xs'' : List Val} (h : ConcP xs xs') (hp : xs''.Perm xs') : ConcP xs xs'' := by
  obtain ⟨ys', h1, h2⟩ := h
  exact ⟨ys', h1, hp.trans h2⟩

theorem ConcP.of_perm_left {xs ys xs' : List Val} (h : ConcP xs xs') (hp : ys.Perm xs) : ConcP ys xs' := by
  obtain ⟨zs, h1, h2⟩ := concP_iff.mp h
  exact concP_iff.mpr ⟨zs, h1.trans hp.symm, h2⟩

theorem ConcP.append {xs xs' ys ys' : List Val} (h1 : ConcP xs xs') (h2 : ConcP ys ys') :
    ConcP (xs ++ ys) (xs' ++ ys') := by
  obtain ⟨a, ha, pa⟩ := h1
  obtain ⟨b, hb, pb⟩ := h2
  exact ⟨a ++ b, concL_append ha hb, pa.append pb⟩

theorem ConcP.cons {x x' : Val} {xs xs' : List Val} (h : Conc x x') (ht : ConcP xs xs') :
    ConcP (x :: xs) (x' :: xs') := by
  obtain ⟨a, ha, pa⟩ := ht
  exact ⟨x' :: a, concL_cons h ha, pa.cons _⟩

theorem concL_filter_nonnull {xs xs' : List Val} (h : ConcL xs xs') :
    ConcL (xs.filter (fun x => !x.isNull)) (xs'.filter (fun x => !x.isNull)) :=
  concL_iff.mpr ((concL_iff.mp h).filter (fun a b hab => by simp only [conc_isNull hab]))

theorem ConcP.filter_nonnull {xs xs' : List Val} (h : ConcP xs xs') :
    ConcP (xs.filter (fun x => !x.isNull)) (xs'.filter (fun x => !x.isNull)) := by
  obtain ⟨a, ha, pa⟩ := h
  exact ⟨_, concL_filter_nonnull ha, pa.filter _⟩

theorem ConcP.any_isNull {xs xs' : List Val} (h : ConcP xs xs') : xs'.any Val.isNull = xs.any Val.isNull := by
  obtain ⟨a, ha, pa⟩ := h
  have e1 : xs'.any Val.isNull = a.any Val.isNull := by
    apply Bool.eq_iff_iff.mpr
    simp only [List.any_eq_true]
    constructor
    · rintro ⟨x, hx, h⟩; exact ⟨x, pa.mem_iff.mp hx, h⟩
    · rintro ⟨x, hx, h⟩; exact ⟨x, pa.mem_iff.mpr hx, h⟩
  rw [e1]
  clear e1 pa
  have := concL_iff.mp ha
  clear ha
  induction this with
  | nil => rfl
  | cons hab _ ih => simp only [List.any_cons, ih, conc_isNull hab]

/-! ### `flatten`, `pruneArray` -/

/-- the contribution of one element to `flattenElems` -/
def flat1 : Val → List Val
  | .arr _ ys => ys.filter (fun y => !y.isNull)
  | .null => []
  | x => [x]

theorem flattenElems_eq : ∀ xs : List Val, flattenElems xs = xs.flatMap flat1
  | [] => rfl
  | x :: rest => by
    cases x <;> simp [flattenElems, flat1, flattenElems_eq rest]

theorem flat1_concP {x x' : Val} (h : Conc x x') : ConcP (flat1 x) (flat1 x') := by
  cases x with
  | arr t ys =>
    obtain ⟨t', ys', rfl, _, hp, _⟩ := conc_arr h
    exact hp.filter_nonnull
  | obj kvs => obtain ⟨kvs', rfl, _⟩ := conc_obj h; exact ConcP.cons h ConcP.nil
  | null => simp only [Conc] at h; subst h; exact ConcP.nil
  | _ => simp only [Conc] at h; subst h; exact ConcP.cons (by simp [Conc]) ConcP.nil

theorem flat1_concL {x x' : Val} (h : Conc x x') (hx : ∀ t ys, x = .arr t ys → enum2 t ys = false) :
    ConcL (flat1 x) (flat1 x') := by
  cases x with
  | arr t ys =>
    obtain ⟨t', ys', rfl, _, hl, _⟩ := conc_arr_pos h (hx t ys rfl)
    exact concL_filter_nonnull hl
  | obj kvs => obtain ⟨kvs', rfl, _⟩ := conc_obj h; exact concL_cons h concL_nil
  | null => simp only [Conc] at h; subst h; exact concL_nil
  | _ => simp only [Conc] at h; subst h; exact concL_cons (by simp [Conc]) concL_nil

theorem flatMap_flat1_concL : ∀ {xs xs' : List Val}, ConcL xs xs' →
    (∀ x ∈ xs, ∀ t ys, x = .arr t ys → enum2 t ys = false) → ConcL (xs.flatMap flat1) (xs'.flatMap flat1)
  | [], xs', h, _ => by simp only [ConcL] at h; subst h; exact concL_nil
  | x :: xs, xs', h, hx => by
    simp only [ConcL] at h
    obtain ⟨x', t', h1, ht, rfl⟩ := h
    simp only [List.flatMap_cons]
    exact concL_append (flat1_concL h1 (hx x (by simp)))
      (flatMap_flat1_concL ht fun y hy => hx y (List.mem_cons_of_mem _ hy))

theorem flatMap_flat1_concP_of_concL : ∀ {xs xs' : List Val}, ConcL xs xs' →
    ConcP (xs.flatMap flat1) (xs'.flatMap flat1)
  | [], xs', h => by simp only [ConcL] at h; subst h; exact ConcP.nil
  | x :: xs, xs', h => by
    simp only [ConcL] at h
    obtain ⟨x', t', h1, ht, rfl⟩ := h
    simp only [List.flatMap_cons]
    exact (flat1_concP h1).append (flatMap_flat1_concP_of_concL ht)

theorem flattenElems_concP {xs xs' : List Val} (h : ConcP xs xs') : ConcP (flattenElems xs) (flattenElems xs') := by
  obtain ⟨ys', h1, h2⟩ := h
  rw [flattenElems_eq, flattenElems_eq]
  exact (flatMap_flat1_concP_of_concL h1).of_perm_right (h2.flatMap_right flat1)

theorem flattenTag_cases (t : ATag) (xs : List Val) : flattenTag t xs = .enum ∨ flattenTag t xs = .plain := by
  unfold flattenTag; split <;> simp

theorem flattenTag_of_good {t : ATag} {xs : List Val} (ht : t ≠ .enum) (hx : Val.GoodL true xs = true) :
    flattenTag t xs = .plain := by
  have : tagOk true (flattenTag t xs) = true :=
    flattenTag_ok (s := true) (by cases t <;> simp_all [tagOk]) hx
  rcases flattenTag_cases t xs with h | h
  · rw [h] at this; exact absurd this (by decide)
  · exact h

theorem conc_flatten {v v' : Val} (h : Conc v v') : Conc (flatten v) (flatten v') := by
  cases v with
  | arr t xs =>
    obtain ⟨t', xs', rfl, hne, hp, _, _⟩ := conc_arr h
    have hg := good_arr.mp (conc_good _ _ h)
    simp only [flatten, flattenTag_of_good hne hg.2]
    rcases flattenTag_cases t xs with ht | ht
    · rw [ht]; exact conc_enumArr (flattenElems_concP hp)
    · rw [ht]
      -- no map-ordered array of two or more elements is involved: everything is positional
      have key : enum2 t xs = false ∧ ∀ x ∈ xs, ∀ t0 ys, x = .arr t0 ys → enum2 t0 ys = false := by
        unfold flattenTag at ht
        split at ht
        · cases ht
        · rename_i hc
          simp only [Bool.or_eq_true, not_or, Bool.not_eq_true] at hc
          refine ⟨hc.1, ?_⟩
          intro x hx t0 ys e
          subst e
          have := List.any_eq_false.mp hc.2 _ hx
          simpa using this
      obtain ⟨t'', xs'', e, _, hl, _⟩ := conc_arr_pos h key.1
      cases e
      rw [flattenElems_eq, flattenElems_eq]
      exact conc_plainArr (flatMap_flat1_concL hl key.2)
  | obj kvs => obtain ⟨kvs', rfl, _⟩ := conc_obj h; exact conc_null
  | _ => simp only [Conc] at h; subst h; exact conc_null

theorem conc_pruneArray {v v' : Val} (h : Conc v v') : Conc (pruneArray v) (pruneArray v') := by
  cases v with
  | arr t xs =>
    obtain ⟨t', xs', rfl, hne, hp, h1, h2⟩ := conc_arr h
    simp only [pruneArray, hp.any_isNull]
    split
    · exact conc_derived (fun ht => (h1 ht).1) h2 hp.filter_nonnull (fun ht => concL_filter_nonnull (h1 ht).2)
    · exact h
  | obj kvs => obtain ⟨kvs', rfl, _⟩ := conc_obj h; exact conc_null
  | _ => simp only [Conc] at h; subst h; exact conc_null

/-! ### the loops over array elements: one generic traversal -/

theorem bind_eq_ok' {α β} {r : Res α} {g : α → Res β} {b : β} (h : (r >>= g) = .ok b) :
    ∃ a, r = .ok a ∧ g a = .ok b := by
  cases r with
  | ok a => exact ⟨a, rfl, h⟩
  | _ => cases h

/-- every loop of the evaluator is of this shape: each element contributes a list of results -/
def collect {β} (h : Val → Res (List β)) : List Val → Res (List β)
  | [] => .ok []
  | x :: xs => do
    let r ← h x
    let rest ← collect h xs
    pure (r ++ rest)

def collectO {β} (h : Nat → Val → Res (List β)) : Nat → List Val → Res (List β)
  | _, [] => .ok []
  | i, x :: xs => do
    let r ← h i x
    let rest ← collectO h (i + 1) xs
    pure (r ++ rest)

/-- the model's loop visits the elements in the listed order, but a successful outcome only depends on it up to a
    permutation -/
theorem collect_perm {β} {h : Val → Res (List β)} {xs ys : List Val} (hp : ys.Perm xs) :
    ∀ {rs : List β}, collect h xs = .ok rs → ∃ rs2, collect h ys = .ok rs2 ∧ rs2.Perm rs := by
  induction hp with
  | nil => intro rs e; exact ⟨rs, e, List.Perm.refl _⟩
  | cons x _ ih =>
    intro rs e
    simp only [collect] at e
    obtain ⟨r, hr, e⟩ := bind_eq_ok' e
    obtain ⟨rest, hrest, e⟩ := bind_eq_ok' e
    cases e
    obtain ⟨rest2, h2, p2⟩ := ih hrest
    exact ⟨r ++ rest2, by simp only [collect, hr, h2]; rfl, p2.append_left r⟩
  | swap x y l =>
    intro rs e
    simp only [collect] at e
    obtain ⟨a, ha, e⟩ := bind_eq_ok' e
    obtain ⟨bc, hbc, e⟩ := bind_eq_ok' e
    cases e
    obtain ⟨b, hb, e⟩ := bind_eq_ok' hbc
    obtain ⟨c, hc, e⟩ := bind_eq_ok' e
    cases e
    refine ⟨b ++ (a ++ c), by simp only [collect, ha, hb, hc]; rfl, ?_⟩
    rw [← List.append_assoc, ← List.append_assoc]
    exact List.perm_append_comm.append_right c
  | trans _ _ ih1 ih2 =>
    intro rs e
    obtain ⟨r1, h1, p1⟩ := ih2 e
    obtain ⟨r2, h2, p2⟩ := ih1 h1
    exact ⟨r2, h2, p2.trans p1⟩

/-- positional simulation of the traversal -/
theorem collect_simL {β β'} {D : β → β' → Prop} {h : Val → Res (List β)} {h' : Nat → Val → Res (List β')}
    (hh : ∀ i x x', Conc x x' → SimG (All₂ D) (h x) (h' i x')) :
    ∀ (i : Nat) {xs xs' : List Val}, ConcL xs xs' → SimG (All₂ D) (collect h xs) (collectO h' i xs')
  | _, [], xs', hl => by
    simp only [ConcL] at hl; subst hl
    exact SimG.ok .nil
  | i, x :: xs, xs', hl => by
    simp only [ConcL] at hl
    obtain ⟨x', t', hx, ht, rfl⟩ := hl
    simp only [collect, collectO]
    exact SimG.bind (hh i x x' hx) fun r r' hr =>
      SimG.bind (collect_simL hh (i + 1) ht) fun rest rest' hrest => SimG.pure (hr.append hrest)

/-- simulation of the traversal over a map-ordered array: the run visits the elements in another order -/
theorem collect_simP {β β'} {D : β → β' → Prop} {h : Val → Res (List β)} {h' : Nat → Val → Res (List β')}
    (hh : ∀ i x x', Conc x x' → SimG (All₂ D) (h x) (h' i x')) (i : Nat) {xs xs' : List Val}
    (hp : ConcP xs xs') :
    SimG (fun rs rs' => ∃ qs, qs.Perm rs ∧ All₂ D qs rs') (collect h xs) (collectO h' i xs') := by
  intro rs e
  obtain ⟨ys, hys, hl⟩ := concP_iff.mp hp
  obtain ⟨rs2, e2, p2⟩ := collect_perm hys e
  obtain ⟨rs', e', hd⟩ := collect_simL hh i hl rs2 e2
  exact ⟨rs', e', rs2, p2, hd⟩

/-- the sub-expression of a projection in the model (`f`) and in the run (`g`) -/
abbrev SimFnE (f : Val → Res Val) (g : Nat → Val → Res Val) : Prop :=
  ∀ (i : Nat) (x x' : Val), Conc x x' → SimE (f x) (g i x')

theorem SimG.widen {α β} {C : α → β → Prop} {t : ATag} {xs : List Val} {fs : List (Val → Res Val)}
    {extra : List Cat} {r : Res α} {r' : Res β} (h : SimG C r r') : SimG C (widen t xs fs extra r) r' := by
  cases r with
  | ok a => exact h
  | err cs =>
    simp only [_root_.Jmes.widen]
    split <;> (try split) <;> first | exact SimG.err | exact SimG.of_not_ok (by intro a e; cases e)
  | _ => exact SimG.of_not_ok (by intro a e; cases e)

/-! the four loops as traversals -/

def mapPruneH (f : Val → Res Val) (x : Val) : Res (List Val) := do
  let p ← f x
  pure (if p.isNull then [] else [p])

theorem mapPrune_eq_collect (f : Val → Res Val) : ∀ xs, mapPrune f xs = collect (mapPruneH f) xs
  | [] => rfl
  | x :: xs => by
    simp only [mapPrune, collect, mapPruneH, mapPrune_eq_collect f xs]
    cases f x <;> simp only [Res.ok_bind, Res.err_bind, Res.panic_bind, Res.nondet_bind, Res.unmodelled_bind]
    rename_i p
    cases collect (mapPruneH f) xs <;>
      simp only [Res.ok_bind, Res.err_bind, Res.panic_bind, Res.nondet_bind, Res.unmodelled_bind, Res.pure_eq]
    cases p.isNull <;> simp

theorem mapPruneO_eq_collect (g : Nat → Val → Res Val) : ∀ i xs, mapPruneO g i xs = collectO (fun i => mapPruneH (g i)) i xs
  | _, [] => rfl
  | i, x :: xs => by
    simp only [mapPruneO, collectO, mapPruneH, mapPruneO_eq_collect g (i + 1) xs]
    cases g i x <;> simp only [Res.ok_bind, Res.err_bind, Res.panic_bind, Res.nondet_bind, Res.unmodelled_bind]
    rename_i p
    cases collectO (fun i => mapPruneH (g i)) (i + 1) xs <;>
      simp only [Res.ok_bind, Res.err_bind, Res.panic_bind, Res.nondet_bind, Res.unmodelled_bind, Res.pure_eq]
    cases p.isNull <;> simp

theorem mapPruneH_sim {f : Val → Res Val} {g : Nat → Val → Res Val} (hf : SimFnE f g) :
    ∀ i x x', Conc x x' → SimG (All₂ Conc) (mapPruneH f x) (mapPruneH (g i) x') := by
  intro i x x' hx
  refine SimG.bind (hf i x x' hx) fun p p' hp => ?_
  rw [conc_isNull hp]
  cases p.isNull
  · exact SimG.pure (.cons hp .nil)
  · exact SimG.pure .nil

def mapAllH (f : Val → Res Val) (x : Val) : Res (List Val) := do
  let p ← f x
  pure [p]

theorem mapAll_eq_collect (f : Val → Res Val) : ∀ xs, mapAll f xs = collect (mapAllH f) xs
  | [] => rfl
  | x :: xs => by
    simp only [mapAll, collect, mapAllH, mapAll_eq_collect f xs]
    cases f x <;> simp only [Res.ok_bind, Res.err_bind, Res.panic_bind, Res.nondet_bind, Res.unmodelled_bind]
    cases collect (mapAllH f) xs <;>
      simp only [Res.ok_bind, Res.err_bind, Res.panic_bind, Res.nondet_bind, Res.unmodelled_bind, Res.pure_eq]
    simp

theorem mapAllO_eq_collect (g : Nat → Val → Res Val) : ∀ i xs, mapAllO g i xs = collectO (fun i => mapAllH (g i)) i xs
  | _, [] => rfl
  | i, x :: xs => by
    simp only [mapAllO, collectO, mapAllH, mapAllO_eq_collect g (i + 1) xs]
    cases g i x <;> simp only [Res.ok_bind, Res.err_bind, Res.panic_bind, Res.nondet_bind, Res.unmodelled_bind]
    cases collectO (fun i => mapAllH (g i)) (i + 1) xs <;>
      simp only [Res.ok_bind, Res.err_bind, Res.panic_bind, Res.nondet_bind, Res.unmodelled_bind, Res.pure_eq]
    simp

theorem mapAllH_sim {f : Val → Res Val} {g : Nat → Val → Res Val} (hf : SimFnE f g) :
    ∀ i x x', Conc x x' → SimG (All₂ Conc) (mapAllH f x) (mapAllH (g i) x') := by
  intro i x x' hx
  exact SimG.bind (hf i x x' hx) fun p p' hp => SimG.pure (.cons hp .nil)

def filterH (c : Val → Res Val) (x : Val) : Res (List Val) := do
  let b ← c x
  pure (if isTrue b && !x.isNull then [x] else [])

theorem filterLoop_eq_collect (c : Val → Res Val) : ∀ xs, filterLoop c xs = collect (filterH c) xs
  | [] => rfl
  | x :: xs => by
    simp only [filterLoop, collect, filterH, filterLoop_eq_collect c xs]
    cases c x <;> simp only [Res.ok_bind, Res.err_bind, Res.panic_bind, Res.nondet_bind, Res.unmodelled_bind]
    rename_i b
    cases collect (filterH c) xs <;>
      simp only [Res.ok_bind, Res.err_bind, Res.panic_bind, Res.nondet_bind, Res.unmodelled_bind, Res.pure_eq]
    cases (isTrue b && !x.isNull) <;> simp

theorem filterLoopO_eq_collect (g : Nat → Val → Res Val) : ∀ i xs, filterLoopO g i xs = collectO (fun i => filterH (g i)) i xs
  | _, [] => rfl
  | i, x :: xs => by
    simp only [filterLoopO, collectO, filterH, filterLoopO_eq_collect g (i + 1) xs]
    cases g i x <;> simp only [Res.ok_bind, Res.err_bind, Res.panic_bind, Res.nondet_bind, Res.unmodelled_bind]
    rename_i b
    cases collectO (fun i => filterH (g i)) (i + 1) xs <;>
      simp only [Res.ok_bind, Res.err_bind, Res.panic_bind, Res.nondet_bind, Res.unmodelled_bind, Res.pure_eq]
    cases (isTrue b && !x.isNull) <;> simp

theorem filterH_sim {c : Val → Res Val} {g : Nat → Val → Res Val} (hc : SimFnE c g) :
    ∀ i x x', Conc x x' → SimG (All₂ Conc) (filterH c x) (filterH (g i) x') := by
  intro i x x' hx
  refine SimG.bind (hc i x x' hx) fun b b' hb => ?_
  rw [conc_isTrue hb, conc_isNull hx]
  cases (isTrue b && !x.isNull)
  · exact SimG.pure .nil
  · exact SimG.pure (.cons hx .nil)

def filterMapH (c f : Val → Res Val) (x : Val) : Res (List Val) := do
  let b ← c x
  if isTrue b then mapPruneH f x else pure []

theorem filterMapPrune_eq_collect (c f : Val → Res Val) : ∀ xs, filterMapPrune c f xs = collect (filterMapH c f) xs
  | [] => rfl
  | x :: xs => by
    simp only [filterMapPrune, collect, filterMapH, mapPruneH, filterMapPrune_eq_collect c f xs]
    cases c x <;> simp only [Res.ok_bind, Res.err_bind, Res.panic_bind, Res.nondet_bind, Res.unmodelled_bind]
    rename_i b
    cases isTrue b <;> simp only [if_true, Bool.false_eq_true, if_false]
    · simp
    · cases f x <;> simp only [Res.ok_bind, Res.err_bind, Res.panic_bind, Res.nondet_bind, Res.unmodelled_bind]
      rename_i p
      cases collect (filterMapH c f) xs <;>
        simp only [Res.ok_bind, Res.err_bind, Res.panic_bind, Res.nondet_bind, Res.unmodelled_bind, Res.pure_eq]
      cases p.isNull <;> simp

theorem filterMapPruneO_eq_collect (gc gf : Nat → Val → Res Val) : ∀ i xs,
    filterMapPruneO gc gf i xs = collectO (fun i => filterMapH (gc i) (gf i)) i xs
  | _, [] => rfl
  | i, x :: xs => by
    simp only [filterMapPruneO, collectO, filterMapH, mapPruneH, filterMapPruneO_eq_collect gc gf (i + 1) xs]
    cases gc i x <;> simp only [Res.ok_bind, Res.err_bind, Res.panic_bind, Res.nondet_bind, Res.unmodelled_bind]
    rename_i b
    cases isTrue b <;> simp only [if_true, Bool.false_eq_true, if_false]
    · simp
    · cases gf i x <;> simp only [Res.ok_bind, Res.err_bind, Res.panic_bind, Res.nondet_bind, Res.unmodelled_bind]
      rename_i p
      cases collectO (fun i => filterMapH (gc i) (gf i)) (i + 1) xs <;>
        simp only [Res.ok_bind, Res.err_bind, Res.panic_bind, Res.nondet_bind, Res.unmodelled_bind, Res.pure_eq]
      cases p.isNull <;> simp

theorem filterMapH_sim {c f : Val → Res Val} {gc gf : Nat → Val → Res Val} (hc : SimFnE c gc) (hf : SimFnE f gf) :
    ∀ i x x', Conc x x' → SimG (All₂ Conc) (filterMapH c f x) (filterMapH (gc i) (gf i) x') := by
  intro i x x' hx
  refine SimG.bind (hc i x x' hx) fun b b' hb => ?_
  rw [conc_isTrue hb]
  cases isTrue b <;> simp only [if_true, Bool.false_eq_true, if_false]
  · exact SimG.pure .nil
  · exact mapPruneH_sim hf i x x' hx

/-- result array of a loop over `.arr t xs` (model) / `.arr t' xs'` (run) with a derived tag -/
theorem loop_result_sim {t t' : ATag} {xs xs' : List Val} {h : Val → Res (List Val)} {h' : Nat → Val → Res (List Val)}
    (hv : Conc (.arr t xs) (.arr t' xs'))
    (hh : ∀ i x x', Conc x x' → SimG (All₂ Conc) (h x) (h' i x')) :
    SimE (collect h xs >>= fun r => pure (Val.arr t.derived r))
      (collectO h' 0 xs' >>= fun r => pure (Val.arr t'.derived r)) := by
  obtain ⟨t'', xs'', e, hne, hp, h1, h2⟩ := conc_arr hv
  cases e
  by_cases ht : t = .enum
  · subst ht
    rw [h2 rfl]
    refine SimG.bind (collect_simP hh 0 hp) fun rs rs' hr => SimG.pure ?_
    obtain ⟨qs, hq, hd⟩ := hr
    exact conc_enumArr (concP_iff.mpr ⟨qs, hq, concL_iff.mpr hd⟩)
  · have hl := (h1 ht).2
    rw [(h1 ht).1]
    refine SimG.bind (collect_simL hh 0 hl) fun rs rs' hr => SimG.pure ?_
    have : t.derived ≠ .enum := by cases t <;> simp_all [ATag.derived]
    exact conc_arr_of_ne this (concL_iff.mpr hr)

theorem projectArray_simE {f : Val → Res Val} {g : Nat → Val → Res Val} (hf : SimFnE f g) {v v' : Val}
    (h : Conc v v') : SimE (projectArray f v) (projectArrayO g v') := by
  cases v with
  | arr t xs =>
    obtain ⟨t', xs', rfl, _⟩ := conc_arr h
    simp only [projectArray, projectArrayO, mapPrune_eq_collect, mapPruneO_eq_collect]
    exact SimG.widen (loop_result_sim h (mapPruneH_sim hf))
  | obj kvs => obtain ⟨kvs', rfl, _⟩ := conc_obj h; exact SimG.ok conc_null
  | _ => simp only [Conc] at h; subst h; exact SimG.ok conc_null

theorem filterArray_simE {c : Val → Res Val} {g : Nat → Val → Res Val} (hc : SimFnE c g) {v v' : Val}
    (h : Conc v v') : SimE (filterArray c v) (filterArrayO g v') := by
  cases v with
  | arr t xs =>
    obtain ⟨t', xs', rfl, _⟩ := conc_arr h
    simp only [filterArray, filterArrayO, filterLoop_eq_collect, filterLoopO_eq_collect]
    exact SimG.widen (loop_result_sim h (filterH_sim hc))
  | obj kvs => obtain ⟨kvs', rfl, _⟩ := conc_obj h; exact SimG.ok conc_null
  | _ => simp only [Conc] at h; subst h; exact SimG.ok conc_null

theorem filterAndProjectArray_simE {c f : Val → Res Val} {gc gf : Nat → Val → Res Val} (hc : SimFnE c gc)
    (hf : SimFnE f gf) {v v' : Val} (h : Conc v v') :
    SimE (filterAndProjectArray c f v) (filterAndProjectArrayO gc gf v') := by
  cases v with
  | arr t xs =>
    obtain ⟨t', xs', rfl, _⟩ := conc_arr h
    simp only [filterAndProjectArray, filterAndProjectArrayO, filterMapPrune_eq_collect, filterMapPruneO_eq_collect]
    exact SimG.widen (loop_result_sim h (filterMapH_sim hc hf))
  | obj kvs => obtain ⟨kvs', rfl, _⟩ := conc_obj h; exact SimG.ok conc_null
  | _ => simp only [Conc] at h; subst h; exact SimG.ok conc_null

theorem mapArray_simE {f : Val → Res Val} {g : Nat → Val → Res Val} (hf : SimFnE f g) {v v' : Val}
    (h : Conc v v') : SimE (mapArray f v) (mapArrayO g v') := by
  cases v with
  | arr t xs =>
    obtain ⟨t', xs', rfl, _⟩ := conc_arr h
    simp only [mapArray, mapArrayO, mapAll_eq_collect, mapAllO_eq_collect]
    exact SimG.widen (loop_result_sim h (mapAllH_sim hf))
  | _ => exact SimG.of_not_ok (by intro a e; cases e)

/-! ### `flattenAndProjectArray` -/

def flatP1 : Val → List Val
  | .arr _ ys => ys
  | x => [x]

theorem flattenForProject_eq : ∀ xs : List Val, flattenForProject xs = xs.flatMap flatP1
  | [] => rfl
  | x :: rest => by
    cases x <;> simp [flattenForProject, flatP1, flattenForProject_eq rest]

theorem flatP1_concP {x x' : Val} (h : Conc x x') : ConcP (flatP1 x) (flatP1 x') := by
  cases x with
  | arr t ys =>
    obtain ⟨t', ys', rfl, _, hp, _⟩ := conc_arr h
    exact hp
  | obj kvs => obtain ⟨kvs', rfl, _⟩ := conc_obj h; exact ConcP.cons h ConcP.nil
  | _ => simp only [Conc] at h; subst h; exact ConcP.cons (by simp [Conc]) ConcP.nil

theorem flatP1_concL {x x' : Val} (h : Conc x x') (hx : ∀ t ys, x = .arr t ys → enum2 t ys = false) :
    ConcL (flatP1 x) (flatP1 x') := by
  cases x with
  | arr t ys =>
    obtain ⟨t', ys', rfl, _, hl, _⟩ := conc_arr_pos h (hx t ys rfl)
    exact hl
  | obj kvs => obtain ⟨kvs', rfl, _⟩ := conc_obj h; exact concL_cons h concL_nil
  | _ => simp only [Conc] at h; subst h; exact concL_cons (by simp [Conc]) concL_nil

theorem flatMap_flatP1_concL : ∀ {xs xs' : List Val}, ConcL xs xs' →
    (∀ x ∈ xs, ∀ t ys, x = .arr t ys → enum2 t ys = false) → ConcL (xs.flatMap flatP1) (xs'.flatMap flatP1)
  | [], xs', h, _ => by simp only [ConcL] at h; subst h; exact concL_nil
  | x :: xs, xs', h, hx => by
    simp only [ConcL] at h
    obtain ⟨x', t', h1, ht, rfl⟩ := h
    simp only [List.flatMap_cons]
    exact concL_append (flatP1_concL h1 (hx x (by simp)))
      (flatMap_flatP1_concL ht fun y hy => hx y (List.mem_cons_of_mem _ hy))

theorem flatMap_flatP1_concP_of_concL : ∀ {xs xs' : List Val}, ConcL xs xs' →
    ConcP (xs.flatMap flatP1) (xs'.flatMap flatP1)
  | [], xs', h => by simp only [ConcL] at h; subst h; exact ConcP.nil
  | x :: xs, xs', h => by
    simp only [ConcL] at h
    obtain ⟨x', t', h1, ht, rfl⟩ := h
    simp only [List.flatMap_cons]
    exact (flatP1_concP h1).append (flatMap_flatP1_concP_of_concL ht)

theorem flattenForProject_concP {xs xs' : List Val} (h : ConcP xs xs') :
    ConcP (flattenForProject xs) (flattenForProject xs') := by
  obtain ⟨ys', h1, h2⟩ := h
  rw [flattenForProject_eq, flattenForProject_eq]
  exact (flatMap_flatP1_concP_of_concL h1).of_perm_right (h2.flatMap_right flatP1)

/-- what `flattenTag … = plain` says -/
theorem flattenTag_plain {t : ATag} {xs : List Val} (ht : flattenTag t xs = .plain) :
    enum2 t xs = false ∧ ∀ x ∈ xs, ∀ t0 ys, x = .arr t0 ys → enum2 t0 ys = false := by
  unfold flattenTag at ht
  split at ht
  · cases ht
  · rename_i hc
    simp only [Bool.or_eq_true, not_or, Bool.not_eq_true] at hc
    refine ⟨hc.1, ?_⟩
    intro x hx t0 ys e
    subst e
    have := List.any_eq_false.mp hc.2 _ hx
    simpa using this

theorem flattenAndProjectArray_simE {f : Val → Res Val} {g : Nat → Val → Res Val} (hf : SimFnE f g) {v v' : Val}
    (h : Conc v v') : SimE (flattenAndProjectArray f v) (flattenAndProjectArrayO g v') := by
  cases v with
  | arr t xs =>
    obtain ⟨t', xs', rfl, hne, hp, _, _⟩ := conc_arr h
    have hg := good_arr.mp (conc_good _ _ h)
    simp only [flattenAndProjectArray, flattenAndProjectArrayO, mapPrune_eq_collect, mapPruneO_eq_collect,
      flattenTag_of_good hne hg.2]
    refine SimG.widen ?_
    rcases flattenTag_cases t xs with ht | ht
    · rw [ht]
      refine SimG.bind (collect_simP (mapPruneH_sim hf) 0 (flattenForProject_concP hp)) fun rs rs' hr => SimG.pure ?_
      obtain ⟨qs, hq, hd⟩ := hr
      exact conc_enumArr (concP_iff.mpr ⟨qs, hq, concL_iff.mpr hd⟩)
    · rw [ht]
      have key := flattenTag_plain ht
      obtain ⟨t'', xs'', e, _, hl, _⟩ := conc_arr_pos h key.1
      cases e
      have hl' : ConcL (flattenForProject xs) (flattenForProject xs') := by
        rw [flattenForProject_eq, flattenForProject_eq]
        exact flatMap_flatP1_concL hl key.2
      exact SimG.bind (collect_simL (mapPruneH_sim hf) 0 hl') fun rs rs' hr =>
        SimG.pure (conc_plainArr (concL_iff.mpr hr))
  | obj kvs => obtain ⟨kvs', rfl, _⟩ := conc_obj h; exact SimG.ok conc_null
  | _ => simp only [Conc] at h; subst h; exact SimG.ok conc_null

/-! ### the producers: enumerating the members of an object -/

theorem concF_values {kvs kvs' : List (Bytes × Val)} (h : ConcF kvs kvs') :
    ConcL (kvs.map Prod.snd) (kvs'.map Prod.snd) :=
  concL_iff.mpr ((concF_iff.mp h).map fun _ _ hab => hab.2)

theorem concF_keys {kvs kvs' : List (Bytes × Val)} (h : ConcF kvs kvs') :
    ConcL (kvs.map fun kv => Val.str kv.1) (kvs'.map fun kv => Val.str kv.1) :=
  concL_iff.mpr ((concF_iff.mp h).map fun a b hab => by rw [hab.1]; simp [Conc])

theorem concF_items {kvs kvs' : List (Bytes × Val)} (h : ConcF kvs kvs') :
    ConcL (kvs.map fun kv => Val.arr .plain [Val.str kv.1, kv.2])
      (kvs'.map fun kv => Val.arr .plain [Val.str kv.1, kv.2]) :=
  concL_iff.mpr ((concF_iff.mp h).map fun a b hab => by
    rw [hab.1]
    exact conc_plainArr (concL_cons (by simp [Conc]) (concL_cons hab.2 concL_nil)))

theorem conc_objectValues (π : Oracle) {v v' : Val} (h : Conc v v') : Conc (objectValues v) (objectValuesO π v') := by
  cases v with
  | obj kvs =>
    obtain ⟨kvs', rfl, hf⟩ := conc_obj h
    simp only [objectValues, objectValuesO]
    exact conc_enumArr (((concF_values hf).concP.of_perm_right ((π.members_perm kvs').map _)).filter_nonnull)
  | arr t xs => obtain ⟨t', xs', rfl, _⟩ := conc_arr h; exact conc_null
  | _ => simp only [Conc] at h; subst h; exact conc_null

theorem values_simE (π : Oracle) {v v' : Val} (h : Conc v v') : SimE (values v) (valuesO π v') := by
  cases v with
  | obj kvs =>
    obtain ⟨kvs', rfl, hf⟩ := conc_obj h
    exact SimG.ok (conc_enumArr ((concF_values hf).concP.of_perm_right ((π.members_perm kvs').map _)))
  | _ => exact SimG.of_not_ok (by intro a e; cases e)

theorem keys_simE (π : Oracle) {v v' : Val} (h : Conc v v') : SimE (keys v) (keysO π v') := by
  cases v with
  | obj kvs =>
    obtain ⟨kvs', rfl, hf⟩ := conc_obj h
    exact SimG.ok (conc_enumArr ((concF_keys hf).concP.of_perm_right ((π.members_perm kvs').map _)))
  | _ => exact SimG.of_not_ok (by intro a e; cases e)

theorem items_simE (π : Oracle) {v v' : Val} (h : Conc v v') : SimE (items v) (itemsO π v') := by
  cases v with
  | obj kvs =>
    obtain ⟨kvs', rfl, hf⟩ := conc_obj h
    exact SimG.ok (conc_enumArr ((concF_items hf).concP.of_perm_right ((π.members_perm kvs').map _)))
  | _ => exact SimG.of_not_ok (by intro a e; cases e)

theorem projectObject_simE (π : Oracle) {f : Val → Res Val} {g : Nat → Val → Res Val} (hf : SimFnE f g) {v v' : Val}
    (h : Conc v v') : SimE (projectObject f v) (projectObjectO π g v') := by
  cases v with
  | obj kvs =>
    obtain ⟨kvs', rfl, hkv⟩ := conc_obj h
    simp only [projectObject, projectObjectO, mapPrune_eq_collect, mapPruneO_eq_collect]
    refine SimG.widen ?_
    have hp : ConcP (kvs.map Prod.snd) ((π.members kvs').map Prod.snd) :=
      (concF_values hkv).concP.of_perm_right ((π.members_perm kvs').map _)
    refine SimG.bind (collect_simP (mapPruneH_sim hf) 0 hp) fun rs rs' hr => SimG.pure ?_
    obtain ⟨qs, hq, hd⟩ := hr
    exact conc_enumArr (concP_iff.mpr ⟨qs, hq, concL_iff.mpr hd⟩)
  | arr t xs => obtain ⟨t', xs', rfl, _⟩ := conc_arr h; exact SimG.ok conc_null
  | _ => simp only [Conc] at h; subst h; exact SimG.ok conc_null

/-! ### objects: `objInsert`, multi-select hashes, `let` -/

theorem concF_objInsert {k : Bytes} {v v' : Val} (hv : Conc v v') : ∀ {acc acc' : List (Bytes × Val)},
    ConcF acc acc' → ConcF (objInsert k v acc) (objInsert k v' acc')
  | [], acc', h => by
    simp only [ConcF] at h; subst h
    exact concF_cons hv concF_nil
  | (k0, x) :: acc, acc', h => by
    have h0 := h
    simp only [ConcF] at h
    obtain ⟨x', t', hx, ht, rfl⟩ := h
    simp only [objInsert]
    split
    · exact concF_cons hv ht
    · split
      · exact concF_cons hv h0
      · exact concF_cons hx (concF_objInsert hv ht)

theorem concF_foldInsert : ∀ {kvs kvs' acc acc' : List (Bytes × Val)}, ConcF kvs kvs' → ConcF acc acc' →
    ConcF (kvs.foldl (fun a kv => objInsert kv.1 kv.2 a) acc) (kvs'.foldl (fun a kv => objInsert kv.1 kv.2 a) acc')
  | [], kvs', _, _, h, ha => by simp only [ConcF] at h; subst h; exact ha
  | (k, x) :: kvs, kvs', _, _, h, ha => by
    simp only [ConcF] at h
    obtain ⟨x', t', hx, ht, rfl⟩ := h
    simp only [List.foldl_cons]
    exact concF_foldInsert ht (concF_objInsert hx ha)

theorem concF_insertAll : ∀ {kvs kvs' : List (Bytes × Val)}, ConcF kvs kvs' → ConcF (insertAll kvs) (insertAll kvs')
  | [], kvs', h => by simp only [ConcF] at h; subst h; exact concF_nil
  | (k, x) :: kvs, kvs', h => by
    simp only [ConcF] at h
    obtain ⟨x', t', hx, ht, rfl⟩ := h
    exact concF_objInsert hx (concF_insertAll ht)

theorem concF_append {a a' b b' : List (Bytes × Val)} (h1 : ConcF a a') (h2 : ConcF b b') : ConcF (a ++ b) (a' ++ b') :=
  concF_iff.mpr ((concF_iff.mp h1).append (concF_iff.mp h2))

/-- a member's outcome in the model and in the run -/
abbrev MemberSimE (o o' : Bytes × Res Val) : Prop := o.1 = o'.1 ∧ SimE o.2 o'.2

/-- the members of a hash / `let`: if the model's combined outcome is an object, every order of evaluation of the
    run builds a concretisation of it (keys pairwise distinct) -/
theorem members_simE {os os' os'' : List (Bytes × Res Val)} (hrel : All₂ MemberSimE os os')
    (hn : (os.map Prod.fst).Nodup) (hp : os''.Perm os') :
    SimG ConcF (combineAll os) (firstFailure os'' []) := by
  intro bs hc
  obtain ⟨kvs, rfl, rfl⟩ := (combineAll_ok_iff os bs).mp hc
  -- the run's outcomes are successes concretising the model's
  have : ∃ kvs', os' = okOutcomes kvs' ∧ ConcF kvs kvs' := by
    clear hc hn hp
    generalize he : okOutcomes kvs = os at hrel
    induction hrel generalizing kvs with
    | nil =>
      cases kvs with
      | nil => exact ⟨[], rfl, concF_nil⟩
      | cons a l => simp [okOutcomes] at he
    | @cons a b l l' hab _ ih =>
      cases kvs with
      | nil => simp [okOutcomes] at he
      | cons kv kvs =>
        simp only [okOutcomes, List.map_cons, List.cons.injEq] at he
        obtain ⟨rfl, he⟩ := he
        obtain ⟨kvs', rfl, hf⟩ := ih kvs he
        obtain ⟨k', r'⟩ := b
        obtain ⟨hk, hs⟩ := hab
        simp only at hk hs
        obtain ⟨v', rfl, hv⟩ := hs kv.2 rfl
        subst hk
        exact ⟨(kv.1, v') :: kvs', rfl, concF_cons hv hf⟩
  obtain ⟨kvs', rfl, hf⟩ := this
  obtain ⟨kvs'', rfl, hp'⟩ := okOutcomes_of_perm hp
  have hkeys : kvs'.map Prod.fst = kvs.map Prod.fst := by
    have := (concF_iff.mp hf).map (S := fun a b => a = b) (f := Prod.fst) (g := Prod.fst) (fun a b hab => hab.1)
    exact (All₂.eq_of_eq this).symm
  have hn' : (kvs'.map Prod.fst).Nodup := by
    rw [hkeys]
    have : (okOutcomes kvs).map Prod.fst = kvs.map Prod.fst := by
      unfold okOutcomes; rw [List.map_map]; rfl
    rwa [this] at hn
  refine ⟨_, firstFailure_all_ok kvs'' [], ?_⟩
  rw [foldInsert_perm hn' hp']
  exact concF_insertAll hf

/-! ### `==`: independent of the concretisation when no map-ordered array (≥ 2 elements) is involved -/

theorem hasEnum2_arr {t : ATag} {xs : List Val} (h : (Val.arr t xs).hasEnum2 = false) :
    enum2 t xs = false ∧ Val.hasEnum2L xs = false := by
  simp only [Val.hasEnum2, Bool.or_eq_false_iff] at h
  exact ⟨by simpa [enum2] using h.1, h.2⟩

theorem hasEnum2F_mem : ∀ {kvs : List (Bytes × Val)}, Val.hasEnum2F kvs = false → ∀ kv ∈ kvs, kv.2.hasEnum2 = false
  | [], _, _, h => by cases h
  | (k, v) :: kvs, h, kv, hm => by
    simp only [Val.hasEnum2F, Bool.or_eq_false_iff] at h
    rcases List.mem_cons.mp hm with rfl | hm
    · exact h.1
    · exact hasEnum2F_mem h.2 kv hm

/-- comparing a value that is not a container with a concretised value -/
theorem equal_flat_left {x y y' : Val} (hy : Conc y y') (h1 : ∀ t xs, x ≠ .arr t xs) (h2 : ∀ kvs, x ≠ .obj kvs) :
    equal x y' = equal x y := by
  cases y with
  | arr u ys =>
    obtain ⟨u', ys', rfl, _⟩ := conc_arr hy
    cases x with
    | arr t xs => exact absurd rfl (h1 t xs)
    | obj kvs => exact absurd rfl (h2 kvs)
    | num n => simp only [equal, toDecimal]
    | _ => rfl
  | obj kvs =>
    obtain ⟨kvs', rfl, _⟩ := conc_obj hy
    cases x with
    | arr t xs => exact absurd rfl (h1 t xs)
    | obj kvs => exact absurd rfl (h2 kvs)
    | num n => simp only [equal, toDecimal]
    | _ => rfl
  | _ => simp only [Conc] at hy; subst hy; rfl

mutual
theorem conc_equal : ∀ (x x' y y' : Val), Conc x x' → Conc y y' → x.hasEnum2 = false → y.hasEnum2 = false →
    equal x' y' = equal x y
  | .null, x', y, y', hx, hy, _, _ => by
    simp only [Conc] at hx; subst hx
    exact equal_flat_left hy (by intros; simp) (by intros; simp)
  | .bool b, x', y, y', hx, hy, _, _ => by
    simp only [Conc] at hx; subst hx
    exact equal_flat_left hy (by intros; simp) (by intros; simp)
  | .str s, x', y, y', hx, hy, _, _ => by
    simp only [Conc] at hx; subst hx
    exact equal_flat_left hy (by intros; simp) (by intros; simp)
  | .num n, x', y, y', hx, hy, _, _ => by
    simp only [Conc] at hx; subst hx
    exact equal_flat_left hy (by intros; simp) (by intros; simp)
  | .foreign k, x', y, y', hx, hy, _, _ => by
    simp only [Conc] at hx; subst hx
    exact equal_flat_left hy (by intros; simp) (by intros; simp)
  | .arr t xs, x', y, y', hx, hy, ex, ey => by
    have ⟨e1, e2⟩ := hasEnum2_arr ex
    obtain ⟨t', xs', rfl, _, hl, _⟩ := conc_arr_pos hx e1
    cases y with
    | arr u ys =>
      have ⟨f1, f2⟩ := hasEnum2_arr ey
      obtain ⟨u', ys', rfl, _, hl', _⟩ := conc_arr_pos hy f1
      simp only [equal]
      exact conc_equalL xs xs' ys ys' hl hl' e2 f2
    | obj kvs => obtain ⟨kvs', rfl, _⟩ := conc_obj hy; rfl
    | _ => simp only [Conc] at hy; subst hy; rfl
  | .obj xs, x', y, y', hx, hy, ex, ey => by
    obtain ⟨xs', rfl, hf⟩ := conc_obj hx
    cases y with
    | obj ys =>
      obtain ⟨ys', rfl, hf'⟩ := conc_obj hy
      simp only [equal, ← concF_length hf, ← concF_length hf']
      rw [conc_equalF xs xs' ys ys' hf hf' (by simpa [Val.hasEnum2] using ex) (by simpa [Val.hasEnum2] using ey)]
    | arr u ys => obtain ⟨u', ys', rfl, _⟩ := conc_arr hy; rfl
    | _ => simp only [Conc] at hy; subst hy; rfl
theorem conc_equalL : ∀ (xs xs' ys ys' : List Val), ConcL xs xs' → ConcL ys ys' → Val.hasEnum2L xs = false →
    Val.hasEnum2L ys = false → equalL xs' ys' = equalL xs ys
  | [], xs', ys, ys', hx, hy, _, _ => by
    simp only [ConcL] at hx; subst hx
    cases ys with
    | nil => simp only [ConcL] at hy; subst hy; rfl
    | cons y ys => simp only [ConcL] at hy; obtain ⟨y', t', _, _, rfl⟩ := hy; rfl
  | x :: xs, xs', ys, ys', hx, hy, ex, ey => by
    simp only [ConcL] at hx
    obtain ⟨x', tx, hx1, hx2, rfl⟩ := hx
    cases ys with
    | nil => simp only [ConcL] at hy; subst hy; rfl
    | cons y ys =>
      simp only [ConcL] at hy
      obtain ⟨y', ty, hy1, hy2, rfl⟩ := hy
      simp only [Val.hasEnum2L, Bool.or_eq_false_iff] at ex ey
      simp only [equalL]
      rw [conc_equal x x' y y' hx1 hy1 ex.1 ey.1, conc_equalL xs tx ys ty hx2 hy2 ex.2 ey.2]
theorem conc_equalF : ∀ (xs xs' ys ys' : List (Bytes × Val)), ConcF xs xs' → ConcF ys ys' →
    Val.hasEnum2F xs = false → Val.hasEnum2F ys = false → equalF xs' ys' = equalF xs ys
  | [], xs', ys, ys', hx, _, _, _ => by
    simp only [ConcF] at hx; subst hx; rfl
  | (k, x) :: xs, xs', ys, ys', hx, hy, ex, ey => by
    simp only [ConcF] at hx
    obtain ⟨x', tx, hx1, hx2, rfl⟩ := hx
    simp only [Val.hasEnum2F, Bool.or_eq_false_iff] at ex
    simp only [equalF]
    rw [conc_equalF xs tx ys ys' hx2 hy ex.2 ey]
    rcases conc_objLookup k hy with ⟨h1, h2⟩ | ⟨y, y', h1, h2, hyy⟩
    · rw [h1, h2]
    · rw [h1, h2]
      simp only
      rw [conc_equal x x' y y' hx1 hyy ex.1 (hasEnum2F_mem ey (k, y) (objLookup_mem h1))]
end

theorem equalR_simE {x x' y y' : Val} (hx : Conc x x') (hy : Conc y y') :
    SimG (fun a b : Bool => a = b) (equalR x y) (equalR x' y') := by
  intro b hb
  simp only [equalR] at hb ⊢
  split at hb
  · cases hb
  · rename_i hc
    simp only [Bool.or_eq_true, not_or, Bool.not_eq_true] at hc
    cases hb
    rw [hasEnum2_good _ (conc_good _ _ hx), hasEnum2_good _ (conc_good _ _ hy)]
    simp only [Bool.or_self, Bool.false_eq_true, if_false]
    exact ⟨_, rfl, (conc_equal x x' y y' hx hy hc.1 hc.2).symm⟩

theorem conc_bool (b : Bool) : Conc (.bool b) (.bool b) := by simp [Conc]
theorem conc_num (n : Num) : Conc (.num n) (.num n) := by simp [Conc]
theorem conc_str (s : Bytes) : Conc (.str s) (.str s) := by simp [Conc]

theorem checkD_conc (r : Dec) : ∀ v, checkD r = .ok v → Conc v v := by
  intro v h
  simp only [checkD] at h
  split at h
  · cases h
  · split at h
    · cases h
    · cases h; exact conc_num _

theorem checkF_conc (r : F64) : ∀ v, checkF r = .ok v → Conc v v := by
  intro v h
  simp only [checkF] at h
  split at h
  · cases h
  · split at h
    · cases h
    · cases h; exact conc_num _

theorem arith_simE (fop : F64 → F64 → F64) (dop : Dec → Dec → Dec) {x x' y y' : Val} (hx : Conc x x')
    (hy : Conc y y') : SimE (arith fop dop x y) (arith fop dop x' y') := by
  refine SimE.of_eq (by simp only [arith, toFloatPair, conc_toFloat hx, conc_toFloat hy, conc_toDecimal hx,
    conc_toDecimal hy]) ?_
  intro v h
  simp only [arith] at h
  split at h
  · exact checkF_conc _ v h
  · split at h
    · cases h
    · split at h
      · cases h
      · exact checkD_conc _ v h

theorem cmpOp_conc (f : Dec → Dec → Bool) {x x' y y' : Val} (hx : Conc x x') (hy : Conc y y') :
    Conc (cmpOp f x y) (cmpOp f x' y') := by
  simp only [cmpOp, conc_toDecimal hx, conc_toDecimal hy]
  cases toDecimal x with
  | none => exact conc_null
  | some a =>
    cases toDecimal y with
    | none => exact conc_null
    | some b => exact conc_bool _

theorem applyBinOp_simE (op : BinOp) {x x' y y' : Val} (hx : Conc x x') (hy : Conc y y') :
    SimE (applyBinOp op x y) (applyBinOp op x' y') := by
  cases op
  case eq => exact SimG.bind (equalR_simE hx hy) fun a b e => by subst e; exact SimG.pure (conc_bool _)
  case ne => exact SimG.bind (equalR_simE hx hy) fun a b e => by subst e; exact SimG.pure (conc_bool _)
  case lt => exact SimG.ok (cmpOp_conc _ hx hy)
  case le => exact SimG.ok (cmpOp_conc _ hx hy)
  case gt => exact SimG.ok (cmpOp_conc _ hx hy)
  case ge => exact SimG.ok (cmpOp_conc _ hx hy)
  all_goals exact arith_simE _ _ hx hy

theorem negateVal_conc {v v' : Val} (h : Conc v v') : Conc (negateVal v) (negateVal v') := by
  simp only [negateVal, conc_toFloat h, conc_toDecimal h]
  split
  · exact conc_num _
  · split
    · exact conc_null
    · split <;> exact conc_num _

/-! ### the eager builtins -/

/-- a definite outcome without map-ordered arrays is its own concretisation -/
theorem conc_of_sat {r : Res Val} (h : GoodR true r) : ∀ v, r = .ok v → Conc v v := by
  intro v hv
  subst hv
  exact conc_refl v h

theorem concL_one {a : Val} {l' : List Val} (h : ConcL [a] l') : ∃ a', Conc a a' ∧ l' = [a'] := by
  simp only [ConcL] at h
  obtain ⟨a', t1, ha, rfl, rfl⟩ := h
  exact ⟨a', ha, rfl⟩
theorem concL_two {a b : Val} {l' : List Val} (h : ConcL [a, b] l') :
    ∃ a' b', Conc a a' ∧ Conc b b' ∧ l' = [a', b'] := by
  simp only [ConcL] at h
  obtain ⟨a', t1, ha, ⟨b', t2, hb, rfl, rfl⟩, rfl⟩ := h
  exact ⟨a', b', ha, hb, rfl⟩
theorem concL_three {a b c : Val} {l' : List Val} (h : ConcL [a, b, c] l') :
    ∃ a' b' c', Conc a a' ∧ Conc b b' ∧ Conc c c' ∧ l' = [a', b', c'] := by
  simp only [ConcL] at h
  obtain ⟨a', t1, ha, ⟨b', t2, hb, ⟨c', t3, hc, rfl, rfl⟩, rfl⟩, rfl⟩ := h
  exact ⟨a', b', c', ha, hb, hc, rfl⟩
theorem concL_four {a b c d : Val} {l' : List Val} (h : ConcL [a, b, c, d] l') :
    ∃ a' b' c' d', Conc a a' ∧ Conc b b' ∧ Conc c c' ∧ Conc d d' ∧ l' = [a', b', c', d'] := by
  simp only [ConcL] at h
  obtain ⟨a', t1, ha, ⟨b', t2, hb, ⟨c', t3, hc, ⟨d', t4, hd, rfl, rfl⟩, rfl⟩, rfl⟩, rfl⟩ := h
  exact ⟨a', b', c', d', ha, hb, hc, hd, rfl⟩

/-! numbers -/
theorem numAbs_simE {a a' : Val} (h : Conc a a') : SimE (numAbs a) (numAbs a') :=
  SimE.of_eq (by simp only [numAbs, conc_toFloat h, conc_toDecimal h]) (conc_of_sat (numAbs_sat a))
theorem numCeil_simE {a a' : Val} (h : Conc a a') : SimE (numCeil a) (numCeil a') :=
  SimE.of_eq (by simp only [numCeil, conc_toFloat h, conc_toDecimal h]) (conc_of_sat (numCeil_sat a))
theorem numFloor_simE {a a' : Val} (h : Conc a a') : SimE (numFloor a) (numFloor a') :=
  SimE.of_eq (by simp only [numFloor, conc_toFloat h, conc_toDecimal h]) (conc_of_sat (numFloor_sat a))

/-! strings -/
theorem startsWith_simE {a a' b b' : Val} (ha : Conc a a') (hb : Conc b b') : SimE (startsWith a b) (startsWith a' b') :=
  SimE.of_eq (by simp only [startsWith, conc_strArg ha, conc_strArg hb]) (conc_of_sat (startsWith_sat a b))
theorem endsWith_simE {a a' b b' : Val} (ha : Conc a a') (hb : Conc b b') : SimE (endsWith a b) (endsWith a' b') :=
  SimE.of_eq (by simp only [endsWith, conc_strArg ha, conc_strArg hb]) (conc_of_sat (endsWith_sat a b))
theorem findFirst_simE {a a' b b' : Val} (ha : Conc a a') (hb : Conc b b') : SimE (findFirst a b) (findFirst a' b') :=
  SimE.of_eq (by simp only [findFirst, conc_strArg ha, conc_strArg hb]) (conc_of_sat (findFirst_sat a b))
theorem findLast_simE {a a' b b' : Val} (ha : Conc a a') (hb : Conc b b') : SimE (findLast a b) (findLast a' b') :=
  SimE.of_eq (by simp only [findLast, conc_strArg ha, conc_strArg hb]) (conc_of_sat (findLast_sat a b))
theorem findFrom_simE (l : Bool) {a a' b b' c c' : Val} (ha : Conc a a') (hb : Conc b b') (hc : Conc c c') :
    SimE (findFrom l a b c) (findFrom l a' b' c') :=
  SimE.of_eq (by simp only [findFrom, conc_strArg ha, conc_strArg hb, conc_intArg hc]) (conc_of_sat (findFrom_sat l a b c))
theorem findBetween_simE (l : Bool) {a a' b b' c c' d d' : Val} (ha : Conc a a') (hb : Conc b b') (hc : Conc c c')
    (hd : Conc d d') : SimE (findBetween l a b c d) (findBetween l a' b' c' d') :=
  SimE.of_eq (by simp only [findBetween, conc_strArg ha, conc_strArg hb, conc_intArg hd, conc_toInt hc, conc_toInt hd,
    conc_toDecimal hc]) (conc_of_sat (findBetween_sat l a b c d))
theorem lower_simE {a a' : Val} (h : Conc a a') : SimE (lower a) (lower a') := by
  cases a with
  | arr t xs => obtain ⟨t', xs', rfl, _⟩ := conc_arr h; exact SimG.err
  | obj kvs => obtain ⟨kvs', rfl, _⟩ := conc_obj h; exact SimG.err
  | _ => simp only [Conc] at h; subst h; exact SimE.of_eq rfl (conc_of_sat (lower_sat _))
theorem upper_simE {a a' : Val} (h : Conc a a') : SimE (upper a) (upper a') := by
  cases a with
  | arr t xs => obtain ⟨t', xs', rfl, _⟩ := conc_arr h; exact SimG.err
  | obj kvs => obtain ⟨kvs', rfl, _⟩ := conc_obj h; exact SimG.err
  | _ => simp only [Conc] at h; subst h; exact SimE.of_eq rfl (conc_of_sat (upper_sat _))

/-- a function whose first argument must be a string, otherwise an error -/
theorem strFirst_simE {F : Val → Res Val} {F' : Val → Res Val} {a a' : Val} (h : Conc a a')
    (hs : ∀ s, SimE (F (.str s)) (F' (.str s))) (he : ∀ v, strArg v = errType → ∀ r, F v ≠ .ok r) :
    SimE (F a) (F' a') := by
  cases a with
  | str s => simp only [Conc] at h; subst h; exact hs s
  | arr t xs => exact SimG.of_not_ok (he _ rfl)
  | obj kvs => exact SimG.of_not_ok (he _ rfl)
  | null => exact SimG.of_not_ok (he _ rfl)
  | bool b => exact SimG.of_not_ok (he _ rfl)
  | num n => exact SimG.of_not_ok (he _ rfl)
  | foreign k => exact SimG.of_not_ok (he _ rfl)

theorem padLeft_simE {a a' b b' c c' : Val} (ha : Conc a a') (hb : Conc b b') (hc : Conc c c') :
    SimE (padLeft a b c) (padLeft a' b' c') := by
  refine strFirst_simE (F := fun a => padLeft a b c) (F' := fun a => padLeft a b' c') ha ?_ ?_
  · intro s
    exact SimE.of_eq (by simp only [padLeft, conc_strArg hc, conc_intArg hb]) (conc_of_sat (padLeft_sat _ _ good_str))
  · intro v hv r hr
    simp only [padLeft, hv] at hr
    cases hr
theorem padRight_simE {a a' b b' c c' : Val} (ha : Conc a a') (hb : Conc b b') (hc : Conc c c') :
    SimE (padRight a b c) (padRight a' b' c') := by
  refine strFirst_simE (F := fun a => padRight a b c) (F' := fun a => padRight a b' c') ha ?_ ?_
  · intro s
    exact SimE.of_eq (by simp only [padRight, conc_strArg hc, conc_intArg hb]) (conc_of_sat (padRight_sat _ _ good_str))
  · intro v hv r hr
    simp only [padRight, hv] at hr
    cases hr
theorem padSpaceLeft_simE {a a' b b' : Val} (ha : Conc a a') (hb : Conc b b') :
    SimE (padSpaceLeft a b) (padSpaceLeft a' b') := by
  refine strFirst_simE (F := fun a => padSpaceLeft a b) (F' := fun a => padSpaceLeft a b') ha ?_ ?_
  · intro s
    exact SimE.of_eq (by simp only [padSpaceLeft, conc_intArg hb]) (conc_of_sat (padSpaceLeft_sat _ good_str))
  · intro v hv r hr
    simp only [padSpaceLeft, hv] at hr
    cases hr
theorem padSpaceRight_simE {a a' b b' : Val} (ha : Conc a a') (hb : Conc b b') :
    SimE (padSpaceRight a b) (padSpaceRight a' b') := by
  refine strFirst_simE (F := fun a => padSpaceRight a b) (F' := fun a => padSpaceRight a b') ha ?_ ?_
  · intro s
    exact SimE.of_eq (by simp only [padSpaceRight, conc_intArg hb]) (conc_of_sat (padSpaceRight_sat _ good_str))
  · intro v hv r hr
    simp only [padSpaceRight, hv] at hr
    cases hr

theorem replace_simE {a a' b b' c c' : Val} (ha : Conc a a') (hb : Conc b b') (hc : Conc c c') :
    SimE (replace a b c) (replace a' b' c') :=
  SimE.of_eq (by simp only [replace, conc_strArg ha, conc_strArg hb, conc_strArg hc]) (conc_of_sat (replace_sat a b c))
theorem replaceCount_simE {a a' b b' c c' d d' : Val} (ha : Conc a a') (hb : Conc b b') (hc : Conc c c')
    (hd : Conc d d') : SimE (replaceCount a b c d) (replaceCount a' b' c' d') :=
  SimE.of_eq (by simp only [replaceCount, conc_strArg ha, conc_strArg hb, conc_strArg hc, conc_intArg hd])
    (conc_of_sat (replaceCount_sat a b c d))
theorem split_simE {a a' b b' : Val} (ha : Conc a a') (hb : Conc b b') : SimE (split a b) (split a' b') :=
  SimE.of_eq (by simp only [split, conc_strArg ha, conc_strArg hb]) (conc_of_sat (split_sat a b))
theorem splitCount_simE {a a' b b' c c' : Val} (ha : Conc a a') (hb : Conc b b') (hc : Conc c c') :
    SimE (splitCount a b c) (splitCount a' b' c') :=
  SimE.of_eq (by simp only [splitCount, conc_strArg ha, conc_strArg hb, conc_intArg hc])
    (conc_of_sat (splitCount_sat a b c))
theorem trim_simE {a a' b b' : Val} (ha : Conc a a') (hb : Conc b b') : SimE (trim a b) (trim a' b') :=
  SimE.of_eq (by simp only [trim, conc_strArg ha, conc_strArg hb]) (conc_of_sat (trim_sat a b))
theorem trimLeft_simE {a a' b b' : Val} (ha : Conc a a') (hb : Conc b b') : SimE (trimLeft a b) (trimLeft a' b') :=
  SimE.of_eq (by simp only [trimLeft, conc_strArg ha, conc_strArg hb]) (conc_of_sat (trimLeft_sat a b))
theorem trimRight_simE {a a' b b' : Val} (ha : Conc a a') (hb : Conc b b') : SimE (trimRight a b) (trimRight a' b') :=
  SimE.of_eq (by simp only [trimRight, conc_strArg ha, conc_strArg hb]) (conc_of_sat (trimRight_sat a b))
theorem trimSpace_simE {a a' : Val} (ha : Conc a a') : SimE (trimSpace a) (trimSpace a') :=
  SimE.of_eq (by simp only [trimSpace, conc_strArg ha]) (conc_of_sat (trimSpace_sat a))
theorem trimSpaceLeft_simE {a a' : Val} (ha : Conc a a') : SimE (trimSpaceLeft a) (trimSpaceLeft a') :=
  SimE.of_eq (by simp only [trimSpaceLeft, conc_strArg ha]) (conc_of_sat (trimSpaceLeft_sat a))
theorem trimSpaceRight_simE {a a' : Val} (ha : Conc a a') : SimE (trimSpaceRight a) (trimSpaceRight a') :=
  SimE.of_eq (by simp only [trimSpaceRight, conc_strArg ha]) (conc_of_sat (trimSpaceRight_sat a))

/-! generic builtins -/
theorem length_simE {a a' : Val} (h : Conc a a') : SimE (length a) (length a') := by
  cases a with
  | arr t xs =>
    obtain ⟨t', xs', rfl, _, hp, _⟩ := conc_arr h
    simp only [length, hp.length]
    exact SimG.ok (conc_num _)
  | obj kvs =>
    obtain ⟨kvs', rfl, hf⟩ := conc_obj h
    simp only [length, concF_length hf]
    exact SimG.ok (conc_num _)
  | _ => simp only [Conc] at h; subst h; exact SimE.of_eq rfl (conc_of_sat (length_sat _))

theorem reverse_simE {a a' : Val} (h : Conc a a') : SimE (reverse a) (reverse a') := by
  cases a with
  | arr t xs =>
    obtain ⟨t', xs', rfl, _, hp, h1, h2⟩ := conc_arr h
    simp only [reverse]
    refine SimG.ok (conc_derived (fun ht => (h1 ht).1) h2 ?_ (fun ht => concL_iff.mpr (concL_iff.mp (h1 ht).2).reverse))
    obtain ⟨ys', hl, hpm⟩ := hp
    exact ⟨ys'.reverse, concL_iff.mpr (concL_iff.mp hl).reverse,
      (List.reverse_perm _).trans (hpm.trans (List.reverse_perm _).symm)⟩
  | obj kvs => obtain ⟨kvs', rfl, _⟩ := conc_obj h; exact SimG.err
  | _ => simp only [Conc] at h; subst h; exact SimE.of_eq rfl (conc_of_sat (reverse_sat (by rfl)))

theorem toArray_conc {a a' : Val} (h : Conc a a') : Conc (toArray a) (toArray a') := by
  cases a with
  | arr t xs => obtain ⟨t', xs', rfl, _⟩ := conc_arr h; exact h
  | obj kvs => obtain ⟨kvs', rfl, _⟩ := conc_obj h; exact conc_plainArr (concL_cons h concL_nil)
  | _ => simp only [Conc] at h; subst h; exact conc_plainArr (concL_cons (by simp [Conc]) concL_nil)

theorem toNumber_conc {a a' : Val} (h : Conc a a') : Conc (toNumber a) (toNumber a') := by
  cases a with
  | arr t xs => obtain ⟨t', xs', rfl, _⟩ := conc_arr h; exact conc_null
  | obj kvs => obtain ⟨kvs', rfl, _⟩ := conc_obj h; exact conc_null
  | _ => simp only [Conc] at h; subst h; exact conc_refl _ (toNumber_good _)

theorem typeName_simE {a a' : Val} (h : Conc a a') : SimE (typeName a) (typeName a') :=
  SimE.of_eq (conc_typeName h) (conc_of_sat (typeName_sat a))

/-! ### `to_string`: the JSON text does not depend on the concretisation (no map-ordered array of ≥ 2 elements) -/

mutual
theorem conc_encode : ∀ (v v' : Val), Conc v v' → v.hasEnum2 = false → Json.encode v' = Json.encode v
  | .null, v', h, _ | .bool _, v', h, _ | .str _, v', h, _ | .num _, v', h, _ | .foreign _, v', h, _ => by
    simp only [Conc] at h; subst h; rfl
  | .arr t xs, v', h, he => by
    have ⟨e1, e2⟩ := hasEnum2_arr he
    obtain ⟨t', xs', rfl, hne, hl, h1, h2⟩ := conc_arr_pos h e1
    have ih := conc_encodeL xs xs' hl e2
    cases t with
    | nil => rw [h1 (by decide)]; rfl
    | plain => rw [h1 (by decide)]; simp only [Json.encode, ih]
    | enum => rw [h2 rfl]; simp only [Json.encode, ih]
  | .obj kvs, v', h, he => by
    obtain ⟨kvs', rfl, hf⟩ := conc_obj h
    simp only [Json.encode, conc_encodeF kvs kvs' hf (by simpa [Val.hasEnum2] using he)]
theorem conc_encodeL : ∀ (xs xs' : List Val), ConcL xs xs' → Val.hasEnum2L xs = false →
    Json.encodeL xs' = Json.encodeL xs
  | [], xs', h, _ => by simp only [ConcL] at h; subst h; rfl
  | [x], xs', h, he => by
    obtain ⟨x', hx, rfl⟩ := concL_one h
    simp only [Val.hasEnum2L, Bool.or_false] at he
    simp only [Json.encodeL, conc_encode x x' hx he]
  | x :: y :: r, xs', h, he => by
    simp only [ConcL] at h
    obtain ⟨x', t1, hx, ⟨y', t2, hy, ht, rfl⟩, rfl⟩ := h
    simp only [Val.hasEnum2L, Bool.or_eq_false_iff] at he
    have ih := conc_encodeL (y :: r) (y' :: t2) (concL_cons hy ht)
      (by simp only [Val.hasEnum2L, Bool.or_eq_false_iff]; exact he.2)
    simp only [Json.encodeL, conc_encode x x' hx he.1] at ih ⊢
    rw [ih]
theorem conc_encodeF : ∀ (xs xs' : List (Bytes × Val)), ConcF xs xs' → Val.hasEnum2F xs = false →
    Json.encodeF xs' = Json.encodeF xs
  | [], xs', h, _ => by simp only [ConcF] at h; subst h; rfl
  | [(k, x)], xs', h, he => by
    simp only [ConcF] at h
    obtain ⟨x', t1, hx, rfl, rfl⟩ := h
    simp only [Val.hasEnum2F, Bool.or_false] at he
    simp only [Json.encodeF, conc_encode x x' hx he]
  | (k, x) :: (k2, y) :: r, xs', h, he => by
    simp only [ConcF] at h
    obtain ⟨x', t1, hx, ⟨y', t2, hy, ht, rfl⟩, rfl⟩ := h
    simp only [Val.hasEnum2F, Bool.or_eq_false_iff] at he
    have ih := conc_encodeF ((k2, y) :: r) ((k2, y') :: t2) (concF_cons hy ht)
      (by simp only [Val.hasEnum2F, Bool.or_eq_false_iff]; exact he.2)
    simp only [Json.encodeF, conc_encode x x' hx he.1] at ih ⊢
    rw [ih]
end

theorem toStringV_simE {a a' : Val} (h : Conc a a') : SimE (toStringV a) (toStringV a') := by
  intro v hv
  have hg' := hasEnum2_good _ (conc_good _ _ h)
  cases a with
  | str s => simp only [Conc] at h; subst h; cases hv; exact ⟨_, rfl, conc_str _⟩
  | arr t xs =>
    obtain ⟨t', xs', rfl, _⟩ := conc_arr h
    simp only [toStringV] at hv ⊢
    split at hv
    · cases hv
    · rename_i he
      rw [hg', conc_encode _ _ h (by simpa using he)]
      simp only [Bool.false_eq_true, if_false]
      split at hv
      · cases hv; exact ⟨_, rfl, conc_str _⟩
      · cases hv
      · cases hv
  | obj kvs =>
    obtain ⟨kvs', rfl, _⟩ := conc_obj h
    simp only [toStringV] at hv ⊢
    split at hv
    · cases hv
    · rename_i he
      rw [hg', conc_encode _ _ h (by simpa using he)]
      simp only [Bool.false_eq_true, if_false]
      split at hv
      · cases hv; exact ⟨_, rfl, conc_str _⟩
      · cases hv
      · cases hv
  | null | bool _ | num _ | foreign _ =>
    simp only [Conc] at h; subst h
    refine ⟨v, hv, ?_⟩
    simp only [toStringV] at hv
    split at hv
    · cases hv
    · split at hv
      · cases hv; exact conc_str _
      · cases hv
      · cases hv

/-! ### `contains`, `join` -/

theorem hasEnum2L_mem : ∀ {xs : List Val}, Val.hasEnum2L xs = false → ∀ x ∈ xs, x.hasEnum2 = false
  | [], _, _, h => by cases h
  | x :: xs, h, y, hm => by
    simp only [Val.hasEnum2L, Bool.or_eq_false_iff] at h
    rcases List.mem_cons.mp hm with rfl | hm
    · exact h.1
    · exact hasEnum2L_mem h.2 y hm

theorem any_equal_concL {b b' : Val} (hb : Conc b b') : ∀ {xs ys' : List Val}, All₂ Conc xs ys' →
    (∀ x ∈ xs, x.hasEnum2 = false) → b.hasEnum2 = false →
    ys'.any (fun xi => equal xi b') = xs.any (fun xi => equal xi b)
  | _, _, .nil, _, _ => rfl
  | _, _, .cons (a := x) (b := x') hxx t, hh, hbe => by
    simp only [List.any_cons]
    rw [conc_equal x x' b b' hxx hb (hh x (by simp)) hbe,
      any_equal_concL hb t (fun y hy => hh y (List.mem_cons_of_mem _ hy)) hbe]

theorem contains_simE {a a' b b' : Val} (ha : Conc a a') (hb : Conc b b') : SimE (contains a b) (contains a' b') := by
  cases a with
  | str s =>
    simp only [Conc] at ha; subst ha
    cases b with
    | arr t xs => obtain ⟨t', xs', rfl, _⟩ := conc_arr hb; exact SimG.ok (conc_bool _)
    | obj kvs => obtain ⟨kvs', rfl, _⟩ := conc_obj hb; exact SimG.ok (conc_bool _)
    | _ => simp only [Conc] at hb; subst hb; exact SimG.ok (conc_bool _)
  | arr t xs =>
    obtain ⟨t', xs', rfl, _, hp, _, _⟩ := conc_arr ha
    have hg := good_arr.mp (conc_good _ _ ha)
    intro v hv
    simp only [contains] at hv ⊢
    split at hv
    · cases hv
    · rename_i he
      simp only [Bool.or_eq_true, not_or, Bool.not_eq_true] at he
      cases hv
      rw [hasEnum2L_good _ hg.2, hasEnum2_good _ (conc_good _ _ hb)]
      simp only [Bool.or_self, Bool.false_eq_true, if_false]
      refine ⟨_, rfl, ?_⟩
      have : xs'.any (fun xi => equal xi b') = xs.any (fun xi => equal xi b) := by
        obtain ⟨ys', hl, hpm⟩ := hp
        have e1 : xs'.any (fun xi => equal xi b') = ys'.any (fun xi => equal xi b') := by
          apply Bool.eq_iff_iff.mpr
          simp only [List.any_eq_true]
          constructor
          · rintro ⟨x, hx, h⟩; exact ⟨x, hpm.mem_iff.mp hx, h⟩
          · rintro ⟨x, hx, h⟩; exact ⟨x, hpm.mem_iff.mpr hx, h⟩
        rw [e1]
        exact any_equal_concL hb (concL_iff.mp hl) (hasEnum2L_mem he.1) he.2
      rw [this]
      exact conc_bool _
  | obj kvs => obtain ⟨kvs', rfl, _⟩ := conc_obj ha; exact SimG.err
  | _ => simp only [Conc] at ha; subst ha; exact SimG.err

/-- an array of strings is its own concretisation -/
theorem concL_of_allStrings : ∀ {xs xs' : List Val} {ss : List Bytes}, allStrings xs = some ss → ConcL xs xs' → xs' = xs
  | [], xs', _, _, h => by simp only [ConcL] at h; exact h
  | x :: xs, xs', ss, hs, h => by
    simp only [ConcL] at h
    obtain ⟨x', t1, hx, ht, rfl⟩ := h
    cases x with
    | str s =>
      simp only [allStrings] at hs
      cases hr : allStrings xs with
      | none => rw [hr] at hs; cases hs
      | some ss' =>
        simp only [Conc] at hx; subst hx
        rw [concL_of_allStrings hr ht]
    | _ => simp [allStrings] at hs

theorem join_simE {a a' b b' : Val} (ha : Conc a a') (hb : Conc b b') : SimE (join a b) (join a' b') := by
  cases b with
  | arr t xs =>
    intro v hv
    obtain ⟨t', xs', rfl, hne, _, _, _⟩ := conc_arr hb
    cases a with
    | str s =>
      simp only [Conc] at ha; subst ha
      simp only [join] at hv ⊢
      cases hs : allStrings xs with
      | none => rw [hs] at hv; cases hv
      | some ss =>
        rw [hs] at hv
        simp only at hv
        split at hv
        · cases hv
        · rename_i he
          cases hv
          obtain ⟨t'', xs'', e, _, hl, _⟩ := conc_arr_pos hb (by simpa using he)
          cases e
          rw [concL_of_allStrings hs hl, hs]
          simp only [enum2_of_ne _ hne, Bool.false_eq_true, if_false]
          exact ⟨_, rfl, conc_str _⟩
    | arr u ys => simp only [join] at hv; cases hv
    | obj kvs => simp only [join] at hv; cases hv
    | null => simp only [join] at hv; cases hv
    | bool _ => simp only [join] at hv; cases hv
    | num _ => simp only [join] at hv; cases hv
    | foreign _ => simp only [join] at hv; cases hv
  | _ => exact SimG.of_not_ok (by intro r hr; simp only [join] at hr; cases hr)

/-! ### `sort`: a definite answer of the model is what every run computes -/

/-- the run's array for a model array all of whose elements are strings or numbers is a permutation of it -/
theorem concP_flat {xs xs' : List Val} (h : ConcP xs xs')
    (hflat : ∀ x ∈ xs, (∀ t ys, x ≠ .arr t ys) ∧ (∀ kvs, x ≠ .obj kvs)) : xs'.Perm xs := by
  obtain ⟨ys', hl, hp⟩ := h
  have : ys' = xs := by
    have hall := concL_iff.mp hl
    clear hl hp
    induction hall with
    | nil => rfl
    | @cons a b l l' hab _ ih =>
      rw [conc_flat hab (hflat a (by simp)).1 (hflat a (by simp)).2,
        ih fun y hy => hflat y (List.mem_cons_of_mem _ hy)]
  rwa [this] at hp

theorem allStrings_perm {xs xs' : List Val} {ss : List Bytes} (hs : allStrings xs = some ss) (hp : xs'.Perm xs) :
    ∃ ss' : List Bytes, xs' = ss'.map Val.str ∧ ss'.Perm ss := by
  have e := C13.allStrings_some hs
  subst e
  -- every element of xs' is a string
  have hall : ∀ x ∈ xs', ∃ s, x = .str s := by
    intro x hx
    obtain ⟨s, _, rfl⟩ := List.mem_map.mp (hp.mem_iff.mp hx)
    exact ⟨s, rfl⟩
  let unS : Val → Bytes := fun v => match v with | .str s => s | _ => []
  refine ⟨xs'.map unS, ?_, ?_⟩
  · rw [List.map_map]
    have : ∀ x ∈ xs', (Val.str ∘ unS) x = id x := by
      intro x hx
      obtain ⟨s, rfl⟩ := hall x hx
      rfl
    rw [List.map_congr_left this, List.map_id]
  · have := hp.map unS
    rwa [List.map_map, show (unS ∘ Val.str) = id from rfl, List.map_id] at this

theorem allDecimals_perm {xs xs' : List Val} {ds : List Dec} (hd : allDecimals xs = some ds) (hp : xs'.Perm xs) :
    ∃ ds', allDecimals xs' = some ds' := by
  cases h : allDecimals xs' with
  | some ds' => exact ⟨ds', rfl⟩
  | none =>
    exfalso
    -- some element of xs' is not a number, but it is an element of xs
    have : ∃ v ∈ xs', toDecimal v = none := by
      clear hp hd
      induction xs' with
      | nil => simp [allDecimals] at h
      | cons x rest ih =>
        simp only [allDecimals] at h
        cases hx : toDecimal x with
        | none => exact ⟨x, by simp, hx⟩
        | some d =>
          rw [hx] at h
          cases hr : allDecimals rest with
          | none =>
            obtain ⟨v, hv, e⟩ := ih hr
            exact ⟨v, List.mem_cons_of_mem _ hv, e⟩
          | some ds' => rw [hr] at h; cases h
    obtain ⟨v, hv, e⟩ := this
    have := C13B.toDecimal_of_allDecimals hd v (hp.mem_iff.mp hv)
    rw [e] at this
    cases this

theorem concL_map_str : ∀ ss : List Bytes, ConcL (ss.map Val.str) (ss.map Val.str)
  | [] => concL_nil
  | s :: ss => concL_cons (conc_str s) (concL_map_str ss)

theorem concL_self_nums : ∀ {l : List Val}, (∀ x ∈ l, ∃ d, toDecimal x = some d) → ConcL l l
  | [], _ => concL_nil
  | x :: l, h => by
    refine concL_cons ?_ (concL_self_nums fun y hy => h y (List.mem_cons_of_mem _ hy))
    obtain ⟨d, hd⟩ := h x (by simp)
    cases x with
    | num n => exact conc_num n
    | _ => simp [toDecimal] at hd

theorem sortArray_simE {a a' : Val} (h : Conc a a') : SimE (sortArray a) (sortArray a') := by
  intro r hr
  cases a with
  | arr t xs =>
    obtain ⟨t', xs', rfl, hne, hp, _, _⟩ := conc_arr h
    cases xs with
    | nil =>
      have : xs' = [] := List.eq_nil_of_length_eq_zero (by rw [← hp.length]; rfl)
      subst this
      simp only [sortArray] at hr ⊢
      cases hr
      exact ⟨_, rfl, h⟩
    | cons x rest =>
      by_cases hx : C13.IsStr x
      · -- strings
        obtain ⟨s, rfl⟩ := hx
        cases hs : allStrings (Val.str s :: rest) with
        | none => simp only [sortArray, hs] at hr; cases hr
        | some ss =>
          have hflat : ∀ y ∈ Val.str s :: rest, (∀ t ys, y ≠ .arr t ys) ∧ (∀ kvs, y ≠ .obj kvs) := by
            intro y hy
            rw [C13.allStrings_some hs] at hy
            obtain ⟨b, _, rfl⟩ := List.mem_map.mp hy
            exact ⟨by intros; simp, by intros; simp⟩
          have hperm := concP_flat hp hflat
          obtain ⟨ss', rfl, hpss⟩ := allStrings_perm hs hperm
          have hne1 : ss ≠ [] := by
            intro e; subst e
            have := C13.allStrings_some hs
            simp at this
          have hne2 : ss' ≠ [] := by
            intro e; subst e
            exact hne1 (List.Perm.eq_nil hpss.symm)
          rw [C13.allStrings_some hs, (C13.sortArray_strings_spec (t := t) hne1).1] at hr
          cases hr
          refine ⟨_, (C13.sortArray_strings_spec (t := t') hne2).1, ?_⟩
          have e : ss'.mergeSort C13.sle = ss.mergeSort C13.sle := by
            have hm := C13.sortArray_strings_spec (t := t') hne2
            exact C13B.sortArray_strings_unique ((List.mergeSort_perm _ _).trans hpss) hm.2.2
          rw [e]
          exact conc_plainArr (concL_map_str _)
      · -- numbers
        obtain ⟨ds, hd, -⟩ := C13.sortArray_numbers_spec hx hr
        rw [C13B.sortArray_numbers_eq hx hd] at hr
        split at hr
        · cases hr
        · rename_i ht
          cases hr
          have htf := C13B.tieFree_of_no_tie hd (by simpa using ht)
          have hnum : ∀ y ∈ x :: rest, ∃ d, toDecimal y = some d :=
            fun y hy => ⟨_, C13B.toDecimal_of_allDecimals hd y hy⟩
          have hflat : ∀ y ∈ x :: rest, (∀ t ys, y ≠ .arr t ys) ∧ (∀ kvs, y ≠ .obj kvs) := by
            intro y hy
            obtain ⟨d, hd'⟩ := hnum y hy
            constructor
            · intro t ys e; subst e; simp [toDecimal] at hd'
            · intro kvs e; subst e; simp [toDecimal] at hd'
          have hperm := concP_flat hp hflat
          cases xs' with
          | nil => exact absurd hperm.symm.eq_nil (by simp)
          | cons x' rest' =>
            have hx' : ¬ C13.IsStr x' := by
              rintro ⟨s, rfl⟩
              obtain ⟨d, hd'⟩ := hnum (Val.str s) (hperm.mem_iff.mp (by simp))
              simp [toDecimal] at hd'
            obtain ⟨ds', hd'⟩ := allDecimals_perm hd hperm
            have htf' : ∀ a ∈ x' :: rest', ∀ b ∈ x' :: rest',
                Dec.compare (C13B.valOf a) (C13B.valOf b) = 0 → a = b :=
              fun a ha b hb => htf a (hperm.mem_iff.mp ha) b (hperm.mem_iff.mp hb)
            have hnt := (C13B.sortArray_definite_iff (t := t') hx' hd').mp
              (C13B.sortArray_definite_of_tieFree hx' htf')
            rw [C13B.sortArray_numbers_eq hx' hd', hnt]
            simp only [Bool.false_eq_true, if_false]
            have e : (x' :: rest').mergeSort C13B.vle = (x :: rest).mergeSort C13B.vle :=
              C13B.sortedPerm_unique htf (C13B.sortedPerm_mergeSort _)
                ⟨(List.mergeSort_perm _ _).trans hperm, (C13B.sortedPerm_mergeSort _).2⟩
            rw [e]
            refine ⟨_, rfl, conc_plainArr (concL_self_nums fun y hy => ?_)⟩
            exact hnum y (List.mem_mergeSort.mp hy)
  | obj kvs => simp only [sortArray] at hr; cases hr
  | null => simp only [sortArray] at hr; cases hr
  | bool _ => simp only [sortArray] at hr; cases hr
  | str _ => simp only [sortArray] at hr; cases hr
  | num _ => simp only [sortArray] at hr; cases hr
  | foreign _ => simp only [sortArray] at hr; cases hr

/-! ### all covered eager builtins at once -/

/-- builtins for which the oracle theorem is proved. Not covered: `sum`, `avg` (order-independence of a decimal sum
    is an arithmetic fact about rounding that is not proved here), `max`, `min` (on a map-ordered array of numbers the
    result is the decimal of the first greatest element; equal values could have different representations) and
    `from_items`. -/
def Fn.coveredE : Fn → Bool
  | .avg | .sum | .max | .min | .fromItems => false
  | _ => true

theorem applyFn_simE (π : Oracle) (f : Fn) (hcov : Fn.coveredE f = true) {args args' : List Val}
    (h : ConcL args args') : SimE (applyFn f args) (applyFnO π f args') := by
  unfold applyFn
  split
  · obtain ⟨a', ha, rfl⟩ := concL_one h; exact numAbs_simE ha
  · cases hcov
  · obtain ⟨a', ha, rfl⟩ := concL_one h; exact numCeil_simE ha
  · obtain ⟨a', b', ha, hb, rfl⟩ := concL_two h; exact contains_simE ha hb
  · obtain ⟨a', b', ha, hb, rfl⟩ := concL_two h; exact endsWith_simE ha hb
  · obtain ⟨a', b', ha, hb, rfl⟩ := concL_two h; exact findFirst_simE ha hb
  · obtain ⟨a', b', c', d', ha, hb, hc, hd, rfl⟩ := concL_four h; exact findBetween_simE _ ha hb hc hd
  · obtain ⟨a', b', c', ha, hb, hc, rfl⟩ := concL_three h; exact findFrom_simE _ ha hb hc
  · obtain ⟨a', b', ha, hb, rfl⟩ := concL_two h; exact findLast_simE ha hb
  · obtain ⟨a', b', c', d', ha, hb, hc, hd, rfl⟩ := concL_four h; exact findBetween_simE _ ha hb hc hd
  · obtain ⟨a', b', c', ha, hb, hc, rfl⟩ := concL_three h; exact findFrom_simE _ ha hb hc
  · obtain ⟨a', ha, rfl⟩ := concL_one h; exact numFloor_simE ha
  · cases hcov
  · obtain ⟨a', ha, rfl⟩ := concL_one h; exact items_simE π ha
  · obtain ⟨a', b', ha, hb, rfl⟩ := concL_two h; exact join_simE ha hb
  · obtain ⟨a', ha, rfl⟩ := concL_one h; exact keys_simE π ha
  · obtain ⟨a', ha, rfl⟩ := concL_one h; exact length_simE ha
  · obtain ⟨a', ha, rfl⟩ := concL_one h; exact lower_simE ha
  · cases hcov
  · cases hcov
  · obtain ⟨a', b', c', ha, hb, hc, rfl⟩ := concL_three h; exact padLeft_simE ha hb hc
  · obtain ⟨a', b', c', ha, hb, hc, rfl⟩ := concL_three h; exact padRight_simE ha hb hc
  · obtain ⟨a', b', ha, hb, rfl⟩ := concL_two h; exact padSpaceLeft_simE ha hb
  · obtain ⟨a', b', ha, hb, rfl⟩ := concL_two h; exact padSpaceRight_simE ha hb
  · obtain ⟨a', b', c', ha, hb, hc, rfl⟩ := concL_three h; exact replace_simE ha hb hc
  · obtain ⟨a', b', c', d', ha, hb, hc, hd, rfl⟩ := concL_four h; exact replaceCount_simE ha hb hc hd
  · obtain ⟨a', ha, rfl⟩ := concL_one h; exact reverse_simE ha
  · obtain ⟨a', ha, rfl⟩ := concL_one h; exact sortArray_simE ha
  · obtain ⟨a', b', ha, hb, rfl⟩ := concL_two h; exact split_simE ha hb
  · obtain ⟨a', b', c', ha, hb, hc, rfl⟩ := concL_three h; exact splitCount_simE ha hb hc
  · obtain ⟨a', b', ha, hb, rfl⟩ := concL_two h; exact startsWith_simE ha hb
  · cases hcov
  · obtain ⟨a', ha, rfl⟩ := concL_one h; exact SimG.ok (toArray_conc ha)
  · obtain ⟨a', ha, rfl⟩ := concL_one h; exact SimG.ok (toNumber_conc ha)
  · obtain ⟨a', ha, rfl⟩ := concL_one h; exact toStringV_simE ha
  · obtain ⟨a', b', ha, hb, rfl⟩ := concL_two h; exact trim_simE ha hb
  · obtain ⟨a', b', ha, hb, rfl⟩ := concL_two h; exact trimLeft_simE ha hb
  · obtain ⟨a', b', ha, hb, rfl⟩ := concL_two h; exact trimRight_simE ha hb
  · obtain ⟨a', ha, rfl⟩ := concL_one h; exact trimSpace_simE ha
  · obtain ⟨a', ha, rfl⟩ := concL_one h; exact trimSpaceLeft_simE ha
  · obtain ⟨a', ha, rfl⟩ := concL_one h; exact trimSpaceRight_simE ha
  · obtain ⟨a', ha, rfl⟩ := concL_one h; exact typeName_simE ha
  · obtain ⟨a', ha, rfl⟩ := concL_one h; exact upper_simE ha
  · obtain ⟨a', ha, rfl⟩ := concL_one h; exact values_simE π ha
  · exact SimG.err

/-! ### `zip` -/

theorem zipArgs_simE : ∀ {vs vs' : List Val}, ConcL vs vs' →
    SimG (All₂ ConcL) (zipArgs vs) (zipArgs vs')
  | [], vs', h => by simp only [ConcL] at h; subst h; exact SimG.ok .nil
  | v :: rest, vs', h => by
    simp only [ConcL] at h
    obtain ⟨v', t1, hv, ht, rfl⟩ := h
    cases v with
    | arr t xs =>
      obtain ⟨t', xs', rfl, hne, _, _, _⟩ := conc_arr hv
      simp only [zipArgs]
      refine SimG.bind (zipArgs_simE ht) fun cols cols' hc => ?_
      cases he : enum2 t xs with
      | true => simp only [if_true]; exact SimG.nondet
      | false =>
        obtain ⟨t'', xs'', e, _, hl, _⟩ := conc_arr_pos hv he
        cases e
        simp only [enum2_of_ne _ hne, Bool.false_eq_true, if_false]
        exact SimG.pure (.cons hl hc)
    | obj kvs => exact SimG.errType
    | null => exact SimG.errType
    | bool _ => exact SimG.errType
    | str _ => exact SimG.errType
    | num _ => exact SimG.errType
    | foreign _ => exact SimG.errType

theorem concL_tail {xs xs' : List Val} (h : ConcL xs xs') : ConcL xs.tail xs'.tail := by
  cases xs with
  | nil => simp only [ConcL] at h; subst h; exact concL_nil
  | cons x t =>
    simp only [ConcL] at h
    obtain ⟨x', t', _, ht, rfl⟩ := h
    exact ht

theorem conc_headD {xs xs' : List Val} (h : ConcL xs xs') : Conc (xs.headD .null) (xs'.headD .null) := by
  cases xs with
  | nil => simp only [ConcL] at h; subst h; exact conc_null
  | cons x t =>
    simp only [ConcL] at h
    obtain ⟨x', t', hx, _, rfl⟩ := h
    exact hx

theorem zipRows_conc : ∀ (n : Nat) {cols cols' : List (List Val)}, All₂ ConcL cols cols' →
    ConcL (zipRows n cols) (zipRows n cols')
  | 0, _, _, _ => concL_nil
  | n + 1, cols, cols', h => by
    simp only [zipRows]
    refine concL_cons (conc_plainArr (concL_iff.mpr (h.map fun a b hab => conc_headD hab))) ?_
    exact zipRows_conc n (h.map fun a b hab => concL_tail hab)

theorem zip_count_eq : ∀ {cs cs' : List (List Val)} (m : Nat), All₂ ConcL cs cs' →
    cs'.foldl (fun m x => min m x.length) m = cs.foldl (fun m x => min m x.length) m
  | _, _, _, .nil => rfl
  | _, _, m, .cons (a := a) (b := b) hab t => by
    simp only [List.foldl_cons, ← concL_length hab]
    exact zip_count_eq _ t

end Jmes
