/-
  Property C18, fourth pass — `Gd` (Jmes/Proofs/C18ELemmas.lean: every number inside is a `json.Number` that
  `decimal128.Parse` accepts, a normalised decimal of the format, or a Go integer inside its kind) is preserved by the
  evaluator, every operator and every builtin included EXCEPT the integer-valued builtins `length`, `find_first`,
  `find_last` (`intFreeFn`): they return the `int64` of a LENGTH, and a Lean list has no upper bound on its length
  (a Go string or slice has: `len` is an `int`), so the model's `length` of a list of `2^63` elements is an
  out-of-range `int64` (`C18E.length_out_of_range`).

  The development follows Jmes/Proofs/C18BLemmas.lean (closure of the weaker `Val.Fin`) line by line; what is new is
  the number part (C18ELemmas) and that BOTH operands of an arithmetic operator must be `Gd` (`0 + y` returns `y`).
-/
import Jmes.Proofs.C18ELemmas
namespace Jmes.C18E
open Jmes Jmes.C18CR

/-! ## evaluator level: every operation of the evaluator maps `Gd` values to `Gd` values -/

theorem getD_gd {xs : List Val} (h : ∀ x ∈ xs, Gd x) (n : Nat) : Gd (xs.getD n .null) := by
  rw [List.getD_eq_getElem?_getD]
  cases hx : xs[n]? with
  | none => simp
  | some x => simp; exact h x (List.mem_of_getElem? hx)

theorem field_gd {v : Val} (k : Bytes) (h : Gd v) : Gd (field k v) := by
  unfold field
  split
  · next kvs =>
    cases hl : objLookup k kvs with
    | none => simp
    | some x => simp; exact gd_obj.mp h k x (objLookup_mem hl)
  · simp

theorem index_gd {v w : Val} {i : Int} (h : Gd v) (hw : index v i = .ok w) : Gd w := by
  cases v with
  | arr t xs =>
    simp only [index] at hw
    generalize (if i < 0 then i + (xs.length : Int) else i) = j at hw
    by_cases h1 : j < 0 ∨ j ≥ (xs.length : Int)
    · simp only [h1, if_true, Res.ok.injEq] at hw; subst hw; simp
    · simp only [h1, if_false] at hw
      by_cases h2 : enum2 t xs = true
      · simp [h2] at hw
      · simp only [h2, if_false, Res.ok.injEq, Bool.false_eq_true] at hw
        subst hw; exact getD_gd (gd_arr.mp h) _
  | _ => simp only [index, Res.ok.injEq] at hw; subst hw; simp

theorem pickStep_gd {xs : List Val} (h : ∀ x ∈ xs, Gd x) (step : Int) : ∀ (n : Nat) (start : Int),
    ∀ y ∈ pickStep xs start step n, Gd y
  | 0, _ => by simp [pickStep]
  | n + 1, start => by
    intro y hy
    simp only [pickStep, List.mem_cons] at hy
    rcases hy with rfl | hy
    · exact getD_gd h _
    · exact pickStep_gd h step n _ y hy

theorem slice_gd {v w : Val} {a b : Int} (h : Gd v) (hw : slice v a b = .ok w) : Gd w := by
  unfold slice at hw
  split at hw
  · next t xs =>
    split at hw
    · cases hw; simp [gd_arr]
    · split at hw
      · cases hw; simp [gd_arr]
      · split at hw
        · simp at hw
        · cases hw
          rw [gd_arr]
          intro x hx
          exact gd_arr.mp h x (List.mem_of_mem_drop (List.mem_of_mem_take hx))
  · split at hw <;> (cases hw; simp)
  · cases hw; simp

theorem sliceStep_gd {v w : Val} {a b s : Int} (h : Gd v) (hw : sliceStep v a b s = .ok w) : Gd w := by
  unfold sliceStep at hw
  split at hw
  · next t xs =>
    split at hw
    · cases hw; simp [gd_arr]
    · split at hw
      · simp at hw
      · cases hw
        rw [gd_arr]
        exact pickStep_gd (gd_arr.mp h) _ _ _
  · simp only at hw
    split at hw
    · cases hw; simp
    · split at hw <;> (cases hw; simp)
  · cases hw; simp

theorem pruneArray_gd {v : Val} (h : Gd v) : Gd (pruneArray v) := by
  unfold pruneArray
  split
  · next t xs =>
    split
    · rw [gd_arr]; intro x hx; exact gd_arr.mp h x (List.mem_filter.mp hx).1
    · exact h
  · simp


/-- `f` maps Gd values to Gd values -/
def GdFun (f : Val → Res Val) : Prop := ∀ x, Gd x → ∀ v, f x = .ok v → Gd v

theorem mapPrune_gd {f : Val → Res Val} (hf : GdFun f) : ∀ {xs r : List Val}, (∀ x ∈ xs, Gd x) →
    mapPrune f xs = .ok r → ∀ y ∈ r, Gd y
  | [], r, _, h => by simp [mapPrune] at h; subst h; simp
  | x :: xs, r, hx, h => by
    simp only [mapPrune, Res.bind_eq_ok, Res.pure_eq, Res.ok.injEq] at h
    obtain ⟨p, hp, rest, hrest, hr⟩ := h
    have ih := mapPrune_gd hf (fun y hy => hx y (List.mem_cons_of_mem _ hy)) hrest
    have hpn := hf x (hx x (List.mem_cons_self ..)) p hp
    subst hr
    intro y hy
    split at hy
    · exact ih y hy
    · rcases List.mem_cons.mp hy with rfl | hy
      · exact hpn
      · exact ih y hy

theorem mapAll_gd {f : Val → Res Val} (hf : GdFun f) : ∀ {xs r : List Val}, (∀ x ∈ xs, Gd x) →
    mapAll f xs = .ok r → ∀ y ∈ r, Gd y
  | [], r, _, h => by simp [mapAll] at h; subst h; simp
  | x :: xs, r, hx, h => by
    simp only [mapAll, Res.bind_eq_ok, Res.pure_eq, Res.ok.injEq] at h
    obtain ⟨p, hp, rest, hrest, hr⟩ := h
    have ih := mapAll_gd hf (fun y hy => hx y (List.mem_cons_of_mem _ hy)) hrest
    have hpn := hf x (hx x (List.mem_cons_self ..)) p hp
    subst hr
    intro y hy
    rcases List.mem_cons.mp hy with rfl | hy
    · exact hpn
    · exact ih y hy

theorem filterMapPrune_gd {c f : Val → Res Val} (hf : GdFun f) : ∀ {xs r : List Val}, (∀ x ∈ xs, Gd x) →
    filterMapPrune c f xs = .ok r → ∀ y ∈ r, Gd y
  | [], r, _, h => by simp [filterMapPrune] at h; subst h; simp
  | x :: xs, r, hx, h => by
    simp only [filterMapPrune, Res.bind_eq_ok] at h
    obtain ⟨b, hb, h⟩ := h
    have hx' : ∀ y ∈ xs, Gd y := fun y hy => hx y (List.mem_cons_of_mem _ hy)
    split at h
    · simp only [Res.bind_eq_ok, Res.pure_eq, Res.ok.injEq] at h
      obtain ⟨p, hp, rest, hrest, hr⟩ := h
      have ih := filterMapPrune_gd hf hx' hrest
      have hpn := hf x (hx x (List.mem_cons_self ..)) p hp
      subst hr
      intro y hy
      split at hy
      · exact ih y hy
      · rcases List.mem_cons.mp hy with rfl | hy
        · exact hpn
        · exact ih y hy
    · exact filterMapPrune_gd hf hx' h

theorem projectArray_gd {f : Val → Res Val} (hf : GdFun f) {v w : Val} (h : Gd v)
    (hw : projectArray f v = .ok w) : Gd w := by
  unfold projectArray at hw
  split at hw
  · next t xs =>
    rw [widen_eq_ok] at hw
    simp only [Res.bind_eq_ok, Res.pure_eq, Res.ok.injEq] at hw
    obtain ⟨r, hr, rfl⟩ := hw
    exact gd_arr.mpr (mapPrune_gd hf (gd_arr.mp h) hr)
  · cases hw; simp

theorem mapArray_gd {f : Val → Res Val} (hf : GdFun f) {v w : Val} (h : Gd v)
    (hw : mapArray f v = .ok w) : Gd w := by
  unfold mapArray at hw
  split at hw
  · next t xs =>
    rw [widen_eq_ok] at hw
    simp only [Res.bind_eq_ok, Res.pure_eq, Res.ok.injEq] at hw
    obtain ⟨r, hr, rfl⟩ := hw
    exact gd_arr.mpr (mapAll_gd hf (gd_arr.mp h) hr)
  · simp [errType] at hw

theorem filterAndProjectArray_gd {c f : Val → Res Val} (hf : GdFun f) {v w : Val} (h : Gd v)
    (hw : filterAndProjectArray c f v = .ok w) : Gd w := by
  unfold filterAndProjectArray at hw
  split at hw
  · next t xs =>
    rw [widen_eq_ok] at hw
    simp only [Res.bind_eq_ok, Res.pure_eq, Res.ok.injEq] at hw
    obtain ⟨r, hr, rfl⟩ := hw
    exact gd_arr.mpr (filterMapPrune_gd hf (gd_arr.mp h) hr)
  · cases hw; simp

theorem flattenForProject_gd : ∀ {xs : List Val}, (∀ x ∈ xs, Gd x) → ∀ y ∈ flattenForProject xs, Gd y
  | [], _ => by simp [flattenForProject]
  | x :: xs, hx => by
    have ih := flattenForProject_gd (fun y hy => hx y (List.mem_cons_of_mem _ hy))
    have h0 := hx x (List.mem_cons_self ..)
    intro y hy
    cases x with
    | arr t ys =>
      simp only [flattenForProject, List.mem_append] at hy
      rcases hy with hy | hy
      · exact gd_arr.mp h0 y hy
      · exact ih y hy
    | _ =>
      simp only [flattenForProject, List.mem_cons] at hy
      rcases hy with rfl | hy
      · exact h0
      · exact ih y hy

theorem flattenAndProjectArray_gd {f : Val → Res Val} (hf : GdFun f) {v w : Val} (h : Gd v)
    (hw : flattenAndProjectArray f v = .ok w) : Gd w := by
  unfold flattenAndProjectArray at hw
  split at hw
  · next t xs =>
    rw [widen_eq_ok] at hw
    simp only [Res.bind_eq_ok, Res.pure_eq, Res.ok.injEq] at hw
    obtain ⟨r, hr, rfl⟩ := hw
    exact gd_arr.mpr (mapPrune_gd hf (flattenForProject_gd (gd_arr.mp h)) hr)
  · cases hw; simp

theorem obj_values_gd {kvs : List (Bytes × Val)} (h : Gd (.obj kvs)) : ∀ x ∈ kvs.map Prod.snd, Gd x := by
  intro x hx
  obtain ⟨⟨k, x'⟩, hm, rfl⟩ := List.mem_map.mp hx
  exact gd_obj.mp h k x' hm

theorem projectObject_gd {f : Val → Res Val} (hf : GdFun f) {v w : Val} (h : Gd v)
    (hw : projectObject f v = .ok w) : Gd w := by
  unfold projectObject at hw
  split at hw
  · next kvs =>
    simp only at hw
    rw [widen_eq_ok] at hw
    simp only [Res.bind_eq_ok, Res.pure_eq, Res.ok.injEq] at hw
    obtain ⟨r, hr, rfl⟩ := hw
    exact gd_arr.mpr (mapPrune_gd hf (obj_values_gd h) hr)
  · cases hw; simp


/-! groups -/
def GroupsGd (gs : List (Bytes × List Val)) : Prop := ∀ k g, (k, g) ∈ gs → ∀ x ∈ g, Gd x

theorem groupInsert_gd {s : Bytes} {v : Val} (hv : Gd v) : ∀ {gs : List (Bytes × List Val)}, GroupsGd gs →
    GroupsGd (groupInsert s v gs)
  | [], _ => by
    intro k g hm x hx
    simp only [groupInsert, List.mem_singleton, Prod.mk.injEq] at hm
    obtain ⟨_, rfl⟩ := hm
    simp at hx; subst hx; exact hv
  | (k', g') :: rest, h => by
    have hrest : GroupsGd rest := fun k g hm => h k g (List.mem_cons_of_mem _ hm)
    have hhead := h k' g' (List.mem_cons_self ..)
    intro k g hm x hx
    simp only [groupInsert] at hm
    split at hm
    · rcases List.mem_cons.mp hm with e | hm
      · cases e
        rcases List.mem_append.mp hx with hx | hx
        · exact hhead x hx
        · simp at hx; subst hx; exact hv
      · exact hrest k g hm x hx
    · split at hm
      · rcases List.mem_cons.mp hm with e | hm
        · cases e; simp at hx; subst hx; exact hv
        · exact h k g hm x hx
      · rcases List.mem_cons.mp hm with e | hm
        · cases e; exact hhead x hx
        · exact groupInsert_gd hv hrest k g hm x hx

theorem groupLoop_gd {f : Val → Res Val} : ∀ {xs : List Val} {acc r : List (Bytes × List Val)},
    (∀ x ∈ xs, Gd x) → GroupsGd acc → groupLoop f xs acc = .ok r → GroupsGd r
  | [], acc, r, _, hacc, h => by simp [groupLoop] at h; subst h; exact hacc
  | x :: xs, acc, r, hx, hacc, h => by
    simp only [groupLoop, Res.bind_eq_ok] at h
    obtain ⟨rv, _, h⟩ := h
    split at h
    · exact groupLoop_gd (fun y hy => hx y (List.mem_cons_of_mem _ hy))
        (groupInsert_gd (hx x (List.mem_cons_self ..)) hacc) h
    · simp [errType] at h

theorem groupBy_gd {f : Val → Res Val} {v w : Val} (h : Gd v) (hw : groupBy f v = .ok w) : Gd w := by
  unfold groupBy at hw
  split at hw
  · next t xs =>
    split at hw
    · cases hw; simp
    · rw [widen_eq_ok] at hw
      simp only [Res.bind_eq_ok, Res.pure_eq, Res.ok.injEq] at hw
      obtain ⟨gs, hgs, rfl⟩ := hw
      have := groupLoop_gd (gd_arr.mp h) (fun _ _ hm => by simp at hm) hgs
      rw [gd_obj]
      intro k x hm
      obtain ⟨⟨k', g⟩, hm', e⟩ := List.mem_map.mp hm
      cases e
      exact gd_arr.mpr (this k' g hm')
  · simp [errType] at hw


theorem arrayPickBy_gd {better : Key → Key → Bool} {f : Val → Res Val} {v w : Val} (h : Gd v)
    (hw : arrayPickBy better f v = .ok w) : Gd w := by
  unfold arrayPickBy at hw
  split at hw
  · next t xs =>
    split at hw
    · cases hw; simp
    · next x0 rest =>
      rw [widen_eq_ok] at hw
      simp only [Res.bind_eq_ok] at hw
      obtain ⟨ks, _, hw⟩ := hw
      split at hw
      · cases hw; simp
      · next k0 krest _ =>
        split at hw
        · simp at hw
        · cases hw
          have hall := gd_arr.mp h
          rcases pickBy_mem better (rest.zip krest) x0 k0 with e | ⟨p, hp, e⟩
          · rw [e]; exact hall x0 (List.mem_cons_self ..)
          · rw [e]; exact hall p.1 (List.mem_cons_of_mem _ (List.of_mem_zip (show (p.1, p.2) ∈ rest.zip krest from hp)).1)
  · simp [errType] at hw

theorem sortArrayBy_gd {f : Val → Res Val} {v w : Val} (h : Gd v)
    (hw : sortArrayBy f v = .ok w) : Gd w := by
  unfold sortArrayBy at hw
  split at hw
  · next t xs =>
    split at hw
    · cases hw; exact h
    · rw [widen_eq_ok] at hw
      simp only [Res.bind_eq_ok] at hw
      obtain ⟨ks, _, hw⟩ := hw
      split at hw
      · simp at hw
      · cases hw
        rw [gd_arr]
        intro x hx
        simp only [sortByKeys] at hx
        obtain ⟨p, hp, rfl⟩ := List.mem_map.mp hx
        have := List.mem_mergeSort.mp hp
        exact gd_arr.mp h p.1 (List.of_mem_zip (show (p.1, p.2) ∈ xs.zip ks from this)).1
  · simp [errType] at hw

/-! objects -/
theorem objInsert_gd {k : Bytes} {v : Val} (hv : Gd v) : ∀ {acc : List (Bytes × Val)},
    (∀ k' x, (k', x) ∈ acc → Gd x) → ∀ k' x, (k', x) ∈ objInsert k v acc → Gd x
  | [], _ => by
    intro k' x hm
    simp only [objInsert, List.mem_singleton, Prod.mk.injEq] at hm
    obtain ⟨_, rfl⟩ := hm; exact hv
  | (k0, v0) :: rest, h => by
    intro k' x hm
    simp only [objInsert] at hm
    split at hm
    · rcases List.mem_cons.mp hm with e | hm
      · cases e; exact hv
      · exact h k' x (List.mem_cons_of_mem _ hm)
    · split at hm
      · rcases List.mem_cons.mp hm with e | hm
        · cases e; exact hv
        · exact h k' x hm
      · rcases List.mem_cons.mp hm with e | hm
        · cases e; exact h k0 v0 (List.mem_cons_self ..)
        · exact objInsert_gd hv (fun k'' x' hm' => h k'' x' (List.mem_cons_of_mem _ hm')) k' x hm

theorem foldl_objInsert_gd : ∀ {kvs acc : List (Bytes × Val)}, (∀ k x, (k, x) ∈ kvs → Gd x) →
    (∀ k x, (k, x) ∈ acc → Gd x) →
    ∀ k x, (k, x) ∈ kvs.foldl (fun a kv => objInsert kv.1 kv.2 a) acc → Gd x
  | [], acc, _, hacc => by simpa using hacc
  | (k0, v0) :: rest, acc, hk, hacc => by
    simp only [List.foldl_cons]
    exact foldl_objInsert_gd (fun k x hm => hk k x (List.mem_cons_of_mem _ hm))
      (objInsert_gd (hk k0 v0 (List.mem_cons_self ..)) hacc)

theorem combineUnordered_gd {acc : Res (List (Bytes × Val))} {k : Bytes} {r : Res Val} {out : List (Bytes × Val)}
    (hacc : ∀ kvs, acc = .ok kvs → ∀ k x, (k, x) ∈ kvs → Gd x) (hr : ∀ v, r = .ok v → Gd v)
    (h : combineUnordered acc k r = .ok out) : ∀ k x, (k, x) ∈ out → Gd x := by
  cases acc <;> cases r <;> simp [combineUnordered] at h
  subst h
  exact objInsert_gd (hr _ rfl) (hacc _ rfl)

/-! zip -/
theorem zipArgs_gd : ∀ {vs : List Val} {cols : List (List Val)}, (∀ v ∈ vs, Gd v) → zipArgs vs = .ok cols →
    ∀ c ∈ cols, ∀ x ∈ c, Gd x
  | [], cols, _, h => by simp [zipArgs] at h; subst h; simp
  | .arr t xs :: rest, cols, hv, h => by
    simp only [zipArgs, Res.bind_eq_ok] at h
    obtain ⟨cols', hc, h⟩ := h
    split at h
    · simp at h
    · simp only [Res.pure_eq, Res.ok.injEq] at h
      subst h
      have ih := zipArgs_gd (fun v hv' => hv v (List.mem_cons_of_mem _ hv')) hc
      intro c hc'
      rcases List.mem_cons.mp hc' with rfl | hc'
      · exact gd_arr.mp (hv _ (List.mem_cons_self ..))
      · exact ih c hc'
  | .null :: _, _, _, h => by simp [zipArgs, errType] at h
  | .bool _ :: _, _, _, h => by simp [zipArgs, errType] at h
  | .str _ :: _, _, _, h => by simp [zipArgs, errType] at h
  | .num _ :: _, _, _, h => by simp [zipArgs, errType] at h
  | .obj _ :: _, _, _, h => by simp [zipArgs, errType] at h
  | .foreign _ :: _, _, _, h => by simp [zipArgs, errType] at h

theorem zipRows_gd : ∀ (n : Nat) {cols : List (List Val)}, (∀ c ∈ cols, ∀ x ∈ c, Gd x) →
    ∀ y ∈ zipRows n cols, Gd y
  | 0, _, _ => by simp [zipRows]
  | n + 1, cols, h => by
    intro y hy
    simp only [zipRows, List.mem_cons] at hy
    rcases hy with rfl | hy
    · rw [gd_arr]
      intro x hx
      obtain ⟨c, hc, rfl⟩ := List.mem_map.mp hx
      cases c with
      | nil => simp
      | cons a c' => exact h _ hc a (List.mem_cons_self ..)
    · refine zipRows_gd n ?_ y hy
      intro c hc x hx
      obtain ⟨c0, hc0, rfl⟩ := List.mem_map.mp hc
      exact h c0 hc0 x (List.mem_of_mem_tail hx)


theorem strsToArr_gd (ss : List Bytes) : Gd (strsToArr ss) := by
  unfold strsToArr
  rw [gd_arr]
  intro x hx
  obtain ⟨s, _, rfl⟩ := List.mem_map.mp hx
  simp

theorem strVal_gd (s : String) : Gd (strVal s) := by simp [strVal]

set_option hygiene false in
/-- peel binds / matches off a hypothesis `hw : … = .ok w` and close the leaves -/
macro "gd_leaves" : tactic => `(tactic|
  (repeat' (first
     | (simp only [Res.bind_eq_ok, Res.pure_eq] at hw)
     | (obtain ⟨_, _, hw⟩ := hw)
     | (split at hw))
   all_goals (first
     | (simp [errType, errValue] at hw; done)
     | ((try simp only [Res.ok.injEq] at hw); (try subst hw);
        first | (simp; done) | (simp [gd_arr]; done) | exact strsToArr_gd _ | exact strVal_gd _ | assumption))))

theorem startsWith_gd {a b w : Val} (hw : startsWith a b = .ok w) : Gd w := by
  unfold startsWith at hw; gd_leaves
theorem endsWith_gd {a b w : Val} (hw : endsWith a b = .ok w) : Gd w := by
  unfold endsWith at hw; gd_leaves
theorem join_gd {a b w : Val} (hw : join a b = .ok w) : Gd w := by
  unfold join at hw; gd_leaves
theorem padWith_gd {l : Bool} {s : Bytes} {n : Int} {p : Bytes} {orig w : Val} (ho : Gd orig)
    (hw : padWith l s n p orig = .ok w) : Gd w := by
  unfold padWith at hw; gd_leaves
theorem padLeft_gd {a b c w : Val} (ha : Gd a) (hw : padLeft a b c = .ok w) : Gd w := by
  unfold padLeft at hw
  simp only [Res.bind_eq_ok] at hw
  obtain ⟨_, _, _, _, _, _, hw⟩ := hw
  exact padWith_gd ha hw
theorem padRight_gd {a b c w : Val} (ha : Gd a) (hw : padRight a b c = .ok w) : Gd w := by
  unfold padRight at hw
  simp only [Res.bind_eq_ok] at hw
  obtain ⟨_, _, _, _, _, _, hw⟩ := hw
  exact padWith_gd ha hw
theorem padSpaceLeft_gd {a b w : Val} (ha : Gd a) (hw : padSpaceLeft a b = .ok w) : Gd w := by
  unfold padSpaceLeft at hw
  simp only [Res.bind_eq_ok] at hw
  obtain ⟨_, _, _, _, hw⟩ := hw
  exact padWith_gd ha hw
theorem padSpaceRight_gd {a b w : Val} (ha : Gd a) (hw : padSpaceRight a b = .ok w) : Gd w := by
  unfold padSpaceRight at hw
  simp only [Res.bind_eq_ok] at hw
  obtain ⟨_, _, _, _, hw⟩ := hw
  exact padWith_gd ha hw
theorem replace_gd {a b c w : Val} (hw : replace a b c = .ok w) : Gd w := by
  unfold replace at hw; gd_leaves
theorem replaceCount_gd {a b c d w : Val} (hw : replaceCount a b c d = .ok w) : Gd w := by
  unfold replaceCount at hw; gd_leaves
theorem split_gd {a b w : Val} (hw : split a b = .ok w) : Gd w := by
  unfold split at hw; gd_leaves
theorem splitCount_gd {a b c w : Val} (hw : splitCount a b c = .ok w) : Gd w := by
  unfold splitCount at hw; gd_leaves
theorem trim_gd {a b w : Val} (hw : trim a b = .ok w) : Gd w := by
  unfold trim at hw; gd_leaves
theorem trimLeft_gd {a b w : Val} (hw : trimLeft a b = .ok w) : Gd w := by
  unfold trimLeft at hw; gd_leaves
theorem trimRight_gd {a b w : Val} (hw : trimRight a b = .ok w) : Gd w := by
  unfold trimRight at hw; gd_leaves
theorem trimSpace_gd {a w : Val} (hw : trimSpace a = .ok w) : Gd w := by
  unfold trimSpace at hw; gd_leaves
theorem trimSpaceLeft_gd {a w : Val} (hw : trimSpaceLeft a = .ok w) : Gd w := by
  unfold trimSpaceLeft at hw; gd_leaves
theorem trimSpaceRight_gd {a w : Val} (hw : trimSpaceRight a = .ok w) : Gd w := by
  unfold trimSpaceRight at hw; gd_leaves
theorem caseMap_gd {f : Nat → Option Nat} {s : Bytes} {w : Val} (hw : caseMap f s = .ok w) : Gd w := by
  unfold caseMap at hw; gd_leaves
theorem lower_gd {a w : Val} (hw : lower a = .ok w) : Gd w := by
  unfold lower at hw
  split at hw
  · exact caseMap_gd hw
  · simp [errType] at hw
theorem upper_gd {a w : Val} (hw : upper a = .ok w) : Gd w := by
  unfold upper at hw
  split at hw
  · exact caseMap_gd hw
  · simp [errType] at hw
theorem typeName_gd {a w : Val} (hw : typeName a = .ok w) : Gd w := by
  unfold typeName at hw; gd_leaves
theorem toStringV_gd {a w : Val} (hw : toStringV a = .ok w) : Gd w := by
  unfold toStringV at hw; gd_leaves
theorem contains_gd {a b w : Val} (hw : contains a b = .ok w) : Gd w := by
  unfold contains at hw; gd_leaves
theorem keys_gd {a w : Val} (hw : keys a = .ok w) : Gd w := by
  unfold keys at hw
  split at hw
  · cases hw
    rw [gd_arr]; intro x hx
    obtain ⟨_, _, rfl⟩ := List.mem_map.mp hx; simp
  · simp [errType] at hw


theorem values_gd {a w : Val} (h : Gd a) (hw : values a = .ok w) : Gd w := by
  unfold values at hw
  split at hw
  · cases hw
    rw [gd_arr]; intro x hx
    obtain ⟨⟨k, x'⟩, hm, rfl⟩ := List.mem_map.mp hx
    exact gd_obj.mp h k x' hm
  · simp [errType] at hw

theorem items_gd {a w : Val} (h : Gd a) (hw : items a = .ok w) : Gd w := by
  unfold items at hw
  split at hw
  · cases hw
    rw [gd_arr]; intro x hx
    obtain ⟨⟨k, x'⟩, hm, rfl⟩ := List.mem_map.mp hx
    rw [gd_arr]; intro y hy
    simp only [List.mem_cons, List.not_mem_nil, or_false] at hy
    rcases hy with hy | hy
    · subst hy; simp
    · subst hy; exact gd_obj.mp h k _ hm
  · simp [errType] at hw

theorem fromItemsLoop_gd : ∀ {xs : List Val} {acc r : List (Bytes × Val)}, (∀ x ∈ xs, Gd x) →
    (∀ k x, (k, x) ∈ acc → Gd x) → fromItemsLoop xs acc = .ok r → ∀ k x, (k, x) ∈ r → Gd x
  | [], acc, r, _, hacc, h => by simp [fromItemsLoop] at h; subst h; exact hacc
  | .arr t ia :: xs, acc, r, hx, hacc, h => by
    have hx' : ∀ y ∈ xs, Gd y := fun y hy => hx y (List.mem_cons_of_mem _ hy)
    have h0 := hx _ (List.mem_cons_self ..)
    simp only [fromItemsLoop] at h
    split at h
    · next k v =>
      split at h
      · simp at h
      · split at h
        · next s =>
          have hv : Gd v := gd_arr.mp h0 v (by simp)
          exact fromItemsLoop_gd hx' (objInsert_gd hv hacc) h
        · simp [errValue] at h
    · simp [errValue] at h
  | .null :: _, _, _, _, _, h => by simp [fromItemsLoop, errType] at h
  | .bool _ :: _, _, _, _, _, h => by simp [fromItemsLoop, errType] at h
  | .str _ :: _, _, _, _, _, h => by simp [fromItemsLoop, errType] at h
  | .num _ :: _, _, _, _, _, h => by simp [fromItemsLoop, errType] at h
  | .obj _ :: _, _, _, _, _, h => by simp [fromItemsLoop, errType] at h
  | .foreign _ :: _, _, _, _, _, h => by simp [fromItemsLoop, errType] at h

theorem fromItems_gd {a w : Val} (h : Gd a) (hw : fromItems a = .ok w) : Gd w := by
  unfold fromItems at hw
  split at hw
  · next t xs =>
    split at hw
    · next kvs hl =>
      split at hw
      · simp at hw
      · cases hw
        exact gd_obj.mpr (fromItemsLoop_gd (gd_arr.mp h) (by simp) hl)
    · split at hw <;> simp at hw
    · simp at hw
    · simp at hw
    · simp at hw
  · simp [errType] at hw

theorem reverse_gd {a w : Val} (h : Gd a) (hw : reverse a = .ok w) : Gd w := by
  unfold reverse at hw
  split at hw
  · cases hw; simp
  · cases hw
    rw [gd_arr]; intro x hx
    exact gd_arr.mp h x (List.mem_reverse.mp hx)
  · simp [errType] at hw

theorem toArray_gd {a : Val} (h : Gd a) : Gd (toArray a) := by
  unfold toArray
  split
  · exact h
  · rw [gd_arr]; intro x hx; simp at hx; subst hx; exact h

theorem sortArray_gd {a w : Val} (h : Gd a) (hw : sortArray a = .ok w) : Gd w := by
  unfold sortArray at hw
  split at hw
  · next t xs =>
    split at hw
    · cases hw; exact h
    · split at hw
      · cases hw
        rw [gd_arr]; intro x hx
        obtain ⟨_, _, rfl⟩ := List.mem_map.mp hx; simp
      · simp [errType] at hw
    · split at hw
      · next ds _ =>
        simp only at hw
        split at hw
        · simp at hw
        · cases hw
          rw [gd_arr]; intro x hx
          obtain ⟨p, hp, rfl⟩ := List.mem_map.mp hx
          have := List.mem_mergeSort.mp hp
          exact gd_arr.mp h p.1 (List.of_mem_zip (show (p.1, p.2) ∈ xs.zip ds from this)).1
      · simp [errType] at hw
  · simp [errType] at hw


/-- comparison and arithmetic operators on `Gd` operands give a `Gd` result -/
theorem applyBinOp_gd {op : BinOp} {x y v : Val} (hx : Gd x) (hy : Gd y) (h : applyBinOp op x y = .ok v) : Gd v := by
  cases op
  case eq | ne =>
    simp only [applyBinOp, Res.bind_eq_ok, Res.pure_eq, Res.ok.injEq] at h
    obtain ⟨_, _, rfl⟩ := h; simp
  case lt | le | gt | ge =>
    simp only [applyBinOp, less, lessOrEqual, greater, greaterOrEqual, cmpOp, Res.ok.injEq] at h
    subst h
    split
    · simp
    · split <;> simp
  case add => exact arith_gd (fun _ _ ha hb => add_nfs ha hb) h hx hy
  case sub => exact arith_gd (fun _ _ ha hb => sub_nfs ha hb) h hx hy
  case mul => exact arith_gd (fun a b _ _ => mul_nfs a b) h hx hy
  case div => exact arith_gd (fun a b _ _ => quo_nfs a b) h hx hy
  case idiv => exact arith_gd (fun a b _ _ => quoRem_fst_nfs a b) h hx hy
  case mod => exact arith_gd (fun _ b ha _ => quoRem_snd_nfs b ha) h hx hy

/-- the builtins that return a Go integer: `length`, `find_first`, `find_last` (all arities) -/
def intFreeFn : Fn → Bool
  | .length | .findFirst | .findFirstBetween | .findFirstFrom | .findLast | .findLastBetween | .findLastFrom => false
  | _ => true

/-- every builtin other than the integer-valued ones maps `Gd` arguments to a `Gd` result -/
theorem applyFn_gd {f : Fn} {args : List Val} {w : Val} (hf : intFreeFn f = true) (ha : ∀ a ∈ args, Gd a)
    (hw : applyFn f args = .ok w) : Gd w := by
  have h0 : ∀ {a : Val} {l : List Val}, args = a :: l → Gd a := fun e => ha _ (e ▸ List.mem_cons_self ..)
  unfold applyFn at hw
  split at hw
  · exact numAbs_gd (h0 rfl) hw
  · exact numAvg_gd hw
  · exact numCeil_gd (h0 rfl) hw
  · exact contains_gd hw
  · exact endsWith_gd hw
  · simp [intFreeFn] at hf
  · simp [intFreeFn] at hf
  · simp [intFreeFn] at hf
  · simp [intFreeFn] at hf
  · simp [intFreeFn] at hf
  · simp [intFreeFn] at hf
  · exact numFloor_gd (h0 rfl) hw
  · exact fromItems_gd (h0 rfl) hw
  · exact items_gd (h0 rfl) hw
  · exact join_gd hw
  · exact keys_gd hw
  · simp [intFreeFn] at hf
  · exact lower_gd hw
  · exact arrayMax_gd (h0 rfl) hw
  · exact arrayMin_gd (h0 rfl) hw
  · exact padLeft_gd (h0 rfl) hw
  · exact padRight_gd (h0 rfl) hw
  · exact padSpaceLeft_gd (h0 rfl) hw
  · exact padSpaceRight_gd (h0 rfl) hw
  · exact replace_gd hw
  · exact replaceCount_gd hw
  · exact reverse_gd (h0 rfl) hw
  · exact sortArray_gd (h0 rfl) hw
  · exact split_gd hw
  · exact splitCount_gd hw
  · exact startsWith_gd hw
  · exact numSum_gd (h0 rfl) hw
  · cases hw; exact toArray_gd (h0 rfl)
  · cases hw; exact toNumber_gd (h0 rfl)
  · exact toStringV_gd hw
  · exact trim_gd hw
  · exact trimLeft_gd hw
  · exact trimRight_gd hw
  · exact trimSpace_gd hw
  · exact trimSpaceLeft_gd hw
  · exact trimSpaceRight_gd hw
  · exact typeName_gd hw
  · exact upper_gd hw
  · exact values_gd (h0 rfl) hw
  · simp at hw


/-- every binding of the environment is Gd -/
def EnvGdP (env : Env) : Prop := ∀ k x, (k, x) ∈ env → Gd x

mutual
/-- every literal of the expression is Gd -/
def TOk : Tree → Prop
  | .lit v => Gd v
  | .current | .root | .field _ | .var _ | .index _ | .slice _ _ | .sliceStep _ _ _ => True
  | .sub l r | .binop _ l r | .and l r | .or l r | .proj l r | .sliceProj l r | .flatProj l r | .valueProj l r
  | .groupBy l r | .map l r | .maxBy l r | .minBy l r | .sortBy l r => TOk l ∧ TOk r
  | .not c | .neg c | .pos c | .prune c => TOk c
  | .filterProj l c r => TOk l ∧ TOk c ∧ TOk r
  | .call f args => intFreeFn f = true ∧ TOkL args
  | .multiList _ args | .merge args | .notNull args | .zip args => TOkL args
  | .multiHash _ kvs => TOkF kvs
  | .letIn bs body => TOkF bs ∧ TOk body
def TOkL : List Tree → Prop
  | [] => True
  | t :: ts => TOk t ∧ TOkL ts
def TOkF : List (Bytes × Tree) → Prop
  | [] => True
  | (_, t) :: rest => TOk t ∧ TOkF rest
end

theorem envGet_gd {env : Env} (h : EnvGdP env) {x : Bytes} {v : Val} (hv : env.get x = some v) : Gd v :=
  h x v (objLookup_mem hv)

mutual
/-- the reference semantics maps `Gd` inputs (document, current value, environment, literals) to `Gd` results -/
theorem seval_gd (root : Val) (hr : Gd root) : (t : Tree) → (cur : Val) → (env : Env) → TOk t → Gd cur →
    EnvGdP env → ∀ w, seval root t cur env = .ok w → Gd w
  | .lit v, cur, env, hl, hc, he, w, hw => by
    simp only [seval, Res.ok.injEq] at hw; subst hw; simpa [TOk] using hl
  | .current, cur, env, hl, hc, he, w, hw => by
    simp only [seval, Res.ok.injEq] at hw; subst hw; exact hc
  | .root, cur, env, hl, hc, he, w, hw => by
    simp only [seval, Res.ok.injEq] at hw; subst hw; exact hr
  | .field k, cur, env, hl, hc, he, w, hw => by
    simp only [seval, Res.ok.injEq] at hw; subst hw; exact field_gd k hc
  | .var x, cur, env, hl, hc, he, w, hw => by
    simp only [seval] at hw
    split at hw
    · next v hv => simp only [Res.ok.injEq] at hw; subst hw; exact envGet_gd he hv
    · simp at hw
  | .index i, cur, env, hl, hc, he, w, hw => by
    simp only [seval] at hw; exact index_gd hc hw
  | .slice a b, cur, env, hl, hc, he, w, hw => by
    simp only [seval] at hw; exact slice_gd hc hw
  | .sliceStep a b s, cur, env, hl, hc, he, w, hw => by
    simp only [seval] at hw; exact sliceStep_gd hc hw
  | .sub l r, cur, env, hl, hc, he, w, hw => by
    simp only [TOk] at hl
    simp only [seval, Res.bind_eq_ok] at hw
    obtain ⟨a, ha, hw⟩ := hw
    exact seval_gd root hr r a env hl.2 (seval_gd root hr l cur env hl.1 hc he a ha) he w hw
  | .binop op l r, cur, env, hl, hc, he, w, hw => by
    simp only [TOk] at hl
    simp only [seval, Res.bind_eq_ok] at hw
    obtain ⟨a, ha, b, hb, hw⟩ := hw
    exact applyBinOp_gd (seval_gd root hr l cur env hl.1 hc he a ha) (seval_gd root hr r cur env hl.2 hc he b hb) hw
  | .and l r, cur, env, hl, hc, he, w, hw => by
    simp only [TOk] at hl
    simp only [seval, Res.bind_eq_ok] at hw
    obtain ⟨a, ha, hw⟩ := hw
    split at hw
    · simp only [Res.pure_eq, Res.ok.injEq] at hw; subst hw; exact seval_gd root hr l cur env hl.1 hc he a ha
    · exact seval_gd root hr r cur env hl.2 hc he w hw
  | .or l r, cur, env, hl, hc, he, w, hw => by
    simp only [TOk] at hl
    simp only [seval, Res.bind_eq_ok] at hw
    obtain ⟨a, ha, hw⟩ := hw
    split at hw
    · simp only [Res.pure_eq, Res.ok.injEq] at hw; subst hw; exact seval_gd root hr l cur env hl.1 hc he a ha
    · exact seval_gd root hr r cur env hl.2 hc he w hw
  | .not c, cur, env, hl, hc, he, w, hw => by
    simp only [seval, Res.bind_eq_ok, Res.pure_eq, Res.ok.injEq] at hw
    obtain ⟨a, _, rfl⟩ := hw; simp
  | .neg c, cur, env, hl, hc, he, w, hw => by
    simp only [TOk] at hl
    simp only [seval, Res.bind_eq_ok, Res.pure_eq, Res.ok.injEq] at hw
    obtain ⟨a, ha, rfl⟩ := hw
    exact negateVal_gd (seval_gd root hr c cur env hl hc he a ha)
  | .pos c, cur, env, hl, hc, he, w, hw => by
    simp only [TOk] at hl
    simp only [seval, Res.bind_eq_ok, Res.pure_eq, Res.ok.injEq] at hw
    obtain ⟨a, ha, rfl⟩ := hw
    split
    · exact seval_gd root hr c cur env hl hc he a ha
    · simp
  | .call f args, cur, env, hl, hc, he, w, hw => by
    simp only [TOk] at hl
    simp only [seval, Res.bind_eq_ok] at hw
    obtain ⟨vs, hvs, hw⟩ := hw
    exact applyFn_gd hl.1 (sevalList_gd root hr args cur env hl.2 hc he vs hvs) hw
  | .prune l, cur, env, hl, hc, he, w, hw => by
    simp only [TOk] at hl
    simp only [seval, Res.bind_eq_ok, Res.pure_eq, Res.ok.injEq] at hw
    obtain ⟨a, ha, rfl⟩ := hw
    exact pruneArray_gd (seval_gd root hr l cur env hl hc he a ha)
  | .proj l r, cur, env, hl, hc, he, w, hw => by
    simp only [TOk] at hl
    simp only [seval, Res.bind_eq_ok] at hw
    obtain ⟨a, ha, hw⟩ := hw
    exact projectArray_gd (fun x hx v hv => seval_gd root hr r x env hl.2 hx he v hv)
      (seval_gd root hr l cur env hl.1 hc he a ha) hw
  | .sliceProj l r, cur, env, hl, hc, he, w, hw => by
    simp only [TOk] at hl
    simp only [seval, Res.bind_eq_ok] at hw
    obtain ⟨a, ha, hw⟩ := hw
    have hna := seval_gd root hr l cur env hl.1 hc he a ha
    split at hw
    · exact seval_gd root hr r _ env hl.2 hna he w hw
    · exact projectArray_gd (fun x hx v hv => seval_gd root hr r x env hl.2 hx he v hv) hna hw
  | .flatProj l r, cur, env, hl, hc, he, w, hw => by
    simp only [TOk] at hl
    simp only [seval, Res.bind_eq_ok] at hw
    obtain ⟨a, ha, hw⟩ := hw
    exact flattenAndProjectArray_gd (fun x hx v hv => seval_gd root hr r x env hl.2 hx he v hv)
      (seval_gd root hr l cur env hl.1 hc he a ha) hw
  | .filterProj l c r, cur, env, hl, hc, he, w, hw => by
    simp only [TOk] at hl
    simp only [seval, Res.bind_eq_ok] at hw
    obtain ⟨a, ha, hw⟩ := hw
    exact filterAndProjectArray_gd (fun x hx v hv => seval_gd root hr r x env hl.2.2 hx he v hv)
      (seval_gd root hr l cur env hl.1 hc he a ha) hw
  | .valueProj l r, cur, env, hl, hc, he, w, hw => by
    simp only [TOk] at hl
    simp only [seval, Res.bind_eq_ok] at hw
    obtain ⟨a, ha, hw⟩ := hw
    exact projectObject_gd (fun x hx v hv => seval_gd root hr r x env hl.2 hx he v hv)
      (seval_gd root hr l cur env hl.1 hc he a ha) hw
  | .multiList chk es, cur, env, hl, hc, he, w, hw => by
    simp only [TOk] at hl
    simp only [seval] at hw
    split at hw
    · simp only [Res.ok.injEq] at hw; subst hw; simp
    · simp only [Res.bind_eq_ok, Res.pure_eq, Res.ok.injEq] at hw
      obtain ⟨vs, hvs, rfl⟩ := hw
      exact gd_arr.mpr (sevalList_gd root hr es cur env hl hc he vs hvs)
  | .multiHash chk kvs, cur, env, hl, hc, he, w, hw => by
    simp only [TOk] at hl
    simp only [seval] at hw
    split at hw
    · simp only [Res.ok.injEq] at hw; subst hw; simp
    · simp only [Res.bind_eq_ok, Res.pure_eq, Res.ok.injEq] at hw
      obtain ⟨fs, hfs, rfl⟩ := hw
      exact gd_obj.mpr (sevalFields_gd root hr kvs cur env hl hc he fs hfs)
  | .letIn bs body, cur, env, hl, hc, he, w, hw => by
    simp only [TOk] at hl
    simp only [seval, Res.bind_eq_ok] at hw
    obtain ⟨vs, hvs, hw⟩ := hw
    have hvs' := sevalFields_gd root hr bs cur env hl.1 hc he vs hvs
    refine seval_gd root hr body cur (vs ++ env) hl.2 hc ?_ w hw
    intro k x hm
    rcases List.mem_append.mp hm with hm | hm
    · exact hvs' k x hm
    · exact he k x hm
  | .groupBy a e, cur, env, hl, hc, he, w, hw => by
    simp only [TOk] at hl
    simp only [seval, Res.bind_eq_ok] at hw
    obtain ⟨v, hv, hw⟩ := hw
    exact groupBy_gd (seval_gd root hr a cur env hl.1 hc he v hv) hw
  | .map e a, cur, env, hl, hc, he, w, hw => by
    simp only [TOk] at hl
    simp only [seval, Res.bind_eq_ok] at hw
    obtain ⟨v, hv, hw⟩ := hw
    exact mapArray_gd (fun x hx v hv => seval_gd root hr e x env hl.1 hx he v hv)
      (seval_gd root hr a cur env hl.2 hc he v hv) hw
  | .maxBy a e, cur, env, hl, hc, he, w, hw => by
    simp only [TOk] at hl
    simp only [seval, Res.bind_eq_ok] at hw
    obtain ⟨v, hv, hw⟩ := hw
    exact arrayPickBy_gd (seval_gd root hr a cur env hl.1 hc he v hv) hw
  | .minBy a e, cur, env, hl, hc, he, w, hw => by
    simp only [TOk] at hl
    simp only [seval, Res.bind_eq_ok] at hw
    obtain ⟨v, hv, hw⟩ := hw
    exact arrayPickBy_gd (seval_gd root hr a cur env hl.1 hc he v hv) hw
  | .sortBy a e, cur, env, hl, hc, he, w, hw => by
    simp only [TOk] at hl
    simp only [seval, Res.bind_eq_ok] at hw
    obtain ⟨v, hv, hw⟩ := hw
    exact sortArrayBy_gd (seval_gd root hr a cur env hl.1 hc he v hv) hw
  | .merge args, cur, env, hl, hc, he, w, hw => by
    simp only [TOk] at hl
    simp only [seval, Res.bind_eq_ok, Res.pure_eq, Res.ok.injEq] at hw
    obtain ⟨kvs, hk, rfl⟩ := hw
    exact gd_obj.mpr (sevalMerge_gd root hr args cur env [] hl hc he (by simp) kvs hk)
  | .notNull args, cur, env, hl, hc, he, w, hw => by
    simp only [TOk] at hl
    simp only [seval] at hw
    exact sevalNotNull_gd root hr args cur env hl hc he w hw
  | .zip args, cur, env, hl, hc, he, w, hw => by
    simp only [TOk] at hl
    simp only [seval, Res.bind_eq_ok] at hw
    obtain ⟨vs, hvs, cols, hcols, hw⟩ := hw
    have hcn := zipArgs_gd (sevalZip_gd root hr args cur env hl hc he vs hvs) hcols
    split at hw
    · simp only [Res.pure_eq, Res.ok.injEq] at hw; subst hw; simp [gd_arr]
    · simp only [Res.pure_eq, Res.ok.injEq] at hw; subst hw
      exact gd_arr.mpr (zipRows_gd _ hcn)
theorem sevalList_gd (root : Val) (hr : Gd root) : (ts : List Tree) → (cur : Val) → (env : Env) →
    TOkL ts → Gd cur → EnvGdP env → ∀ vs, sevalList root ts cur env = .ok vs → ∀ v ∈ vs, Gd v
  | [], cur, env, hl, hc, he, vs, hw => by
    simp only [sevalList, Res.ok.injEq] at hw; subst hw; simp
  | t :: ts, cur, env, hl, hc, he, vs, hw => by
    simp only [TOkL] at hl
    simp only [sevalList, Res.bind_eq_ok, Res.pure_eq, Res.ok.injEq] at hw
    obtain ⟨v, hv, rest, hrest, rfl⟩ := hw
    intro y hy
    rcases List.mem_cons.mp hy with rfl | hy
    · exact seval_gd root hr t cur env hl.1 hc he _ hv
    · exact sevalList_gd root hr ts cur env hl.2 hc he rest hrest y hy
theorem sevalFields_gd (root : Val) (hr : Gd root) : (fs : List (Bytes × Tree)) → (cur : Val) → (env : Env) →
    TOkF fs → Gd cur → EnvGdP env → ∀ kvs, sevalFields root fs cur env = .ok kvs →
    ∀ k x, (k, x) ∈ kvs → Gd x
  | [], cur, env, hl, hc, he, kvs, hw => by
    simp only [sevalFields, Res.ok.injEq] at hw; subst hw; simp
  | (k, t) :: rest, cur, env, hl, hc, he, kvs, hw => by
    simp only [TOkF] at hl
    simp only [sevalFields] at hw
    exact combineUnordered_gd (fun kvs' h' => sevalFields_gd root hr rest cur env hl.2 hc he kvs' h')
      (fun v hv => seval_gd root hr t cur env hl.1 hc he v hv) hw
theorem sevalMerge_gd (root : Val) (hr : Gd root) : (ts : List Tree) → (cur : Val) → (env : Env) →
    (acc : List (Bytes × Val)) → TOkL ts → Gd cur → EnvGdP env → (∀ k x, (k, x) ∈ acc → Gd x) →
    ∀ kvs, sevalMerge root ts cur env acc = .ok kvs → ∀ k x, (k, x) ∈ kvs → Gd x
  | [], cur, env, acc, hl, hc, he, hacc, kvs, hw => by
    simp only [sevalMerge, Res.ok.injEq] at hw; subst hw; exact hacc
  | t :: ts, cur, env, acc, hl, hc, he, hacc, kvs, hw => by
    simp only [TOkL] at hl
    simp only [sevalMerge, Res.bind_eq_ok] at hw
    obtain ⟨v, hv, hw⟩ := hw
    have hvn := seval_gd root hr t cur env hl.1 hc he v hv
    split at hw
    · exact sevalMerge_gd root hr ts cur env _ hl.2 hc he
        (foldl_objInsert_gd (gd_obj.mp hvn) hacc) kvs hw
    · simp [errType] at hw
theorem sevalNotNull_gd (root : Val) (hr : Gd root) : (ts : List Tree) → (cur : Val) → (env : Env) →
    TOkL ts → Gd cur → EnvGdP env → ∀ w, sevalNotNull root ts cur env = .ok w → Gd w
  | [], cur, env, hl, hc, he, w, hw => by
    simp only [sevalNotNull, Res.ok.injEq] at hw; subst hw; simp
  | t :: ts, cur, env, hl, hc, he, w, hw => by
    simp only [TOkL] at hl
    simp only [sevalNotNull, Res.bind_eq_ok] at hw
    obtain ⟨v, hv, hw⟩ := hw
    split at hw
    · exact sevalNotNull_gd root hr ts cur env hl.2 hc he w hw
    · simp only [Res.pure_eq, Res.ok.injEq] at hw; subst hw
      exact seval_gd root hr t cur env hl.1 hc he _ hv
theorem sevalZip_gd (root : Val) (hr : Gd root) : (ts : List Tree) → (cur : Val) → (env : Env) →
    TOkL ts → Gd cur → EnvGdP env → ∀ vs, sevalZip root ts cur env = .ok vs → ∀ v ∈ vs, Gd v
  | [], cur, env, hl, hc, he, vs, hw => by
    simp only [sevalZip, Res.ok.injEq] at hw; subst hw; simp
  | t :: ts, cur, env, hl, hc, he, vs, hw => by
    simp only [TOkL] at hl
    simp only [sevalZip, Res.bind_eq_ok] at hw
    obtain ⟨v, hv, hw⟩ := hw
    have hvn := seval_gd root hr t cur env hl.1 hc he v hv
    split at hw
    · simp only [Res.bind_eq_ok, Res.pure_eq, Res.ok.injEq] at hw
      obtain ⟨rest, hrest, rfl⟩ := hw
      intro y hy
      rcases List.mem_cons.mp hy with rfl | hy
      · exact hvn
      · exact sevalZip_gd root hr ts cur env hl.2 hc he rest hrest y hy
    · simp [errType] at hw
end

/-! ### from the Bool traversal `INode.all (nodeOkE)` to the literal predicate on the reference syntax -/

mutual
/-- a literal as the parser builds it (from `Json.decode` or a raw string) whose numbers `decimal128.Parse` accepts -/
def LitB : Val → Bool
  | .null => true
  | .bool _ => true
  | .str _ => true
  | .num (.jnum t) => Json.isValidNumber t && (match Dec.parse t with | .ok _ => true | _ => false)
  | .num _ => false
  | .arr _ xs => LitBL xs
  | .obj kvs => LitBF kvs
  | .foreign _ => false
def LitBL : List Val → Bool
  | [] => true
  | x :: xs => LitB x && LitBL xs
def LitBF : List (Bytes × Val) → Bool
  | [] => true
  | (_, x) :: kvs => LitB x && LitBF kvs
end

mutual
/-- such a literal is `Gd` -/
theorem litB_gd : ∀ v : Val, LitB v = true → Gd v
  | .null, _ => by simp
  | .bool _, _ => by simp
  | .str _, _ => by simp
  | .num (.jnum t), h => by
    simp only [LitB, Bool.and_eq_true] at h
    rw [gd_jnum]
    refine ⟨h.1, ?_⟩
    cases hp : Dec.parse t with
    | ok d => exact ⟨d, rfl⟩
    | «syntax» => rw [hp] at h; simp at h
    | range d => rw [hp] at h; simp at h
  | .num (.dec _), h => by simp [LitB] at h
  | .num (.int _ _), h => by simp [LitB] at h
  | .num (.f64 _), h => by simp [LitB] at h
  | .num (.f32 _), h => by simp [LitB] at h
  | .arr _ xs, h => by simp only [LitB] at h; simp only [Gd]; exact litBL_gd xs h
  | .obj kvs, h => by simp only [LitB] at h; simp only [Gd]; exact litBF_gd kvs h
  | .foreign _, h => by simp [LitB] at h
theorem litBL_gd : ∀ xs : List Val, LitBL xs = true → GdL xs
  | [], _ => by simp [GdL]
  | x :: xs, h => by
    simp only [LitBL, Bool.and_eq_true] at h
    simp only [GdL]; exact ⟨litB_gd x h.1, litBL_gd xs h.2⟩
theorem litBF_gd : ∀ kvs : List (Bytes × Val), LitBF kvs = true → GdF kvs
  | [], _ => by simp [GdF]
  | (_, x) :: kvs, h => by
    simp only [LitBF, Bool.and_eq_true] at h
    simp only [GdF]; exact ⟨litB_gd x h.1, litBF_gd kvs h.2⟩
end

/-- the node is not a call of an integer-valued builtin -/
def intFreeNode : INode → Bool
  | .call f _ => intFreeFn f
  | _ => true

/-- the per-node requirement: literals are `LitB`, no call of `length` / `find_first` / `find_last` -/
def nodeOkE (n : INode) : Bool := INode.litOk LitB n && intFreeNode n

mutual
/-- if every node is `nodeOkE` (Bool traversal), every literal of its desugaring is `Gd` -/
theorem desugar_tok : (n : INode) → n.all (nodeOkE) = true → TOk (desugar n)
  | .lit v, h => by
    simp only [INode.all, nodeOkE, INode.litOk, intFreeNode, Bool.and_true] at h
    simp only [desugar, TOk]
    exact litB_gd v h
  | .current, _ | .root, _ | .field _, _ | .variable _, _ | .flattenCurrent, _ | .indexCurrent _, _
  | .smallIndexCurrent _, _ | .objectValuesCurrent, _ | .pruneArrayCurrent, _ | .sliceCurrent _ _, _
  | .sliceStepCurrent _ _ _, _ => by simp [desugar, TOk]
  | .binop _ l r, h | .and l r, h | .or l r, h | .flattenAndProject l r, h | .pipe l r, h | .projectObject l r, h
  | .groupBy l r, h | .map l r, h | .maxBy l r, h | .minBy l r, h | .sortBy l r, h => by
    simp only [INode.all, Bool.and_eq_true] at h
    simp only [desugar, TOk]
    exact ⟨desugar_tok l h.1.2, desugar_tok r h.2⟩
  | .projectArray l r, h => by
    simp only [INode.all, Bool.and_eq_true] at h
    simp only [desugar]
    split <;> (simp only [TOk]; exact ⟨desugar_tok l h.1.2, desugar_tok r h.2⟩)
  | .filter l r, h => by
    simp only [INode.all, Bool.and_eq_true] at h
    simp only [desugar, TOk]
    exact ⟨desugar_tok l h.1.2, desugar_tok r h.2, trivial⟩
  | .filterAndProjectCurrent l r, h => by
    simp only [INode.all, Bool.and_eq_true] at h
    simp only [desugar, TOk]
    exact ⟨trivial, desugar_tok l h.1.2, desugar_tok r h.2⟩
  | .filterAndProject l f r, h => by
    simp only [INode.all, Bool.and_eq_true] at h
    simp only [desugar, TOk]
    exact ⟨desugar_tok l h.1.1.2, desugar_tok f h.1.2, desugar_tok r h.2⟩
  | .filterCurrent c, h => by
    simp only [INode.all, Bool.and_eq_true] at h
    simp only [desugar, TOk]
    exact ⟨trivial, desugar_tok c h.2, trivial⟩
  | .selectArraySingle l r, h => by
    simp only [INode.all, Bool.and_eq_true] at h
    simp only [desugar, TOk, TOkL]
    exact ⟨desugar_tok l h.1.2, desugar_tok r h.2, trivial⟩
  | .selectObjectSingle l _ r, h => by
    simp only [INode.all, Bool.and_eq_true] at h
    simp only [desugar, TOk, TOkF]
    exact ⟨desugar_tok l h.1.2, desugar_tok r h.2, trivial⟩
  | .not c, h | .negate c, h | .assertNumber c, h | .pruneArray c, h => by
    simp only [INode.all, Bool.and_eq_true] at h
    simp only [desugar, TOk]
    exact desugar_tok c h.2
  | .flatten c, h | .objectValues c, h | .index c _, h | .slice c _ _, h | .sliceStep c _ _ _, h => by
    simp only [INode.all, Bool.and_eq_true] at h
    simp only [desugar, TOk]
    exact ⟨desugar_tok c h.2, trivial⟩
  | .flattenAndProjectCurrent c, h | .projectArrayCurrent c, h | .projectObjectCurrent c, h => by
    simp only [INode.all, Bool.and_eq_true] at h
    simp only [desugar, TOk]
    exact ⟨trivial, desugar_tok c h.2⟩
  | .selectArraySingleCurrent c, h => by
    simp only [INode.all, Bool.and_eq_true] at h
    simp only [desugar, TOk, TOkL]
    exact ⟨desugar_tok c h.2, trivial⟩
  | .selectObjectSingleCurrent _ c, h => by
    simp only [INode.all, Bool.and_eq_true] at h
    simp only [desugar, TOk, TOkF]
    exact ⟨desugar_tok c h.2, trivial⟩
  | .call f args, h => by
    simp only [INode.all, Bool.and_eq_true] at h
    simp only [desugar, TOk]
    exact ⟨by simpa [nodeOkE, INode.litOk, intFreeNode] using h.1, desugarList_tok args h.2⟩
  | .selectArrayCurrent args, h | .merge args, h | .notNull args, h | .zip args, h => by
    simp only [INode.all, Bool.and_eq_true] at h
    simp only [desugar, TOk]
    exact desugarList_tok args h.2
  | .selectArray c fs, h => by
    simp only [INode.all, Bool.and_eq_true] at h
    simp only [desugar, TOk]
    exact ⟨desugar_tok c h.1.2, desugarList_tok fs h.2⟩
  | .selectObject c fs, h => by
    simp only [INode.all, Bool.and_eq_true] at h
    simp only [desugar, TOk]
    exact ⟨desugar_tok c h.1.2, desugarFields_tok fs h.2⟩
  | .selectObjectCurrent fs, h => by
    simp only [INode.all, Bool.and_eq_true] at h
    simp only [desugar, TOk]
    exact desugarFields_tok fs h.2
  | .defineVariables vars child, h => by
    simp only [INode.all, Bool.and_eq_true] at h
    simp only [desugar, TOk]
    exact ⟨desugarFields_tok vars h.1.2, desugar_tok child h.2⟩
theorem desugarList_tok : (ns : List INode) → INode.allL (nodeOkE) ns = true → TOkL (desugarList ns)
  | [], _ => by simp [desugarList, TOkL]
  | n :: ns, h => by
    simp only [INode.allL, Bool.and_eq_true] at h
    simp only [desugarList, TOkL]
    exact ⟨desugar_tok n h.1, desugarList_tok ns h.2⟩
theorem desugarFields_tok : (fs : List (Bytes × INode)) → INode.allF (nodeOkE) fs = true →
    TOkF (desugarFields fs)
  | [], _ => by simp [desugarFields, TOkF]
  | (k, n) :: rest, h => by
    simp only [INode.allF, Bool.and_eq_true] at h
    simp only [desugarFields, TOkF]
    exact ⟨desugar_tok n h.1, desugarFields_tok rest h.2⟩
end

example : TOk (desugar (.binop .add (.field [0x61]) (.lit (.num (.jnum [0x31]))))) := desugar_tok _ (by decide)
/-- the hypothesis is not vacuous: it fails for the literal `1e99999`, and for a call of `length` -/
example : INode.all nodeOkE (.not (.lit (.num (.jnum bigNum)))) = false := by decide
example : INode.all nodeOkE (.call .length [.current]) = false := by decide



end Jmes.C18E
