/-
  The parser builds literal nodes from plain values only (helper for property C18):

  * `Json.decode_plain`: what `encoding/json` decodes is plain (no nil slice, no foreign value);
  * `parse_plainLits`: every `.lit v` inside a successfully parsed expression carries a plain `v`
    (`.lit` is built only from `parseJSONLiteral`, i.e. `Json.decode`, and from raw string literals).

  The parser is a fuel-indexed mutual block in the state monad `PM`; `Post Q m` is the partial-correctness
  assertion "if `m` succeeds, its result satisfies `Q`", and `PIH fuel` bundles the thirteen statements proved
  simultaneously by induction on the fuel.
-/
import Jmes.Proofs.Invariants
namespace Jmes
open Invar

/-! ### what `encoding/json` decodes is plain -/

theorem Invar.goodL_snoc {s : Bool} {xs : List Val} {v : Val} (hx : Val.GoodL s xs = true) (hv : v.Good s = true) :
    Val.GoodL s (xs ++ [v]) = true :=
  goodL_append hx (goodL_cons.mpr ⟨hv, rfl⟩)

theorem parse_plain : ∀ fuel : Nat,
    (∀ depth s v r, Json.parseValue fuel depth s = some (v, r) → v.Good false = true) ∧
    (∀ depth s acc xs r, Val.GoodL false acc = true → Json.parseElems fuel depth s acc = some (xs, r) →
      Val.GoodL false xs = true) ∧
    (∀ depth s acc kvs r, Val.GoodF false acc = true → Json.parseMembers fuel depth s acc = some (kvs, r) →
      Val.GoodF false kvs = true)
  | 0 => ⟨by simp [Json.parseValue], by simp [Json.parseElems], by simp [Json.parseMembers]⟩
  | fuel + 1 => by
    obtain ⟨ihV, ihE, ihM⟩ := parse_plain fuel
    refine ⟨?_, ?_, ?_⟩
    · intro depth s v r h
      simp only [Json.parseValue] at h
      split at h
      · cases h
      · cases h; rfl
      · cases h; rfl
      · cases h; rfl
      · simp only [Option.map_eq_some_iff] at h
        obtain ⟨⟨b, r'⟩, _, h⟩ := h
        cases h; rfl
      · split at h
        · cases h
        · split at h
          · cases h; rfl
          · simp only [Option.map_eq_some_iff] at h
            obtain ⟨⟨xs, r'⟩, he, h⟩ := h
            cases h
            exact good_plainArr (ihE _ _ _ _ _ rfl he)
      · split at h
        · cases h
        · split at h
          · cases h; rfl
          · simp only [Option.map_eq_some_iff] at h
            obtain ⟨⟨kvs, r'⟩, he, h⟩ := h
            cases h
            exact good_obj.mpr (ihM _ _ _ _ _ rfl he)
      · split at h
        · simp only [Option.map_eq_some_iff] at h
          obtain ⟨⟨n, r'⟩, _, h⟩ := h
          cases h; rfl
        · cases h
    · intro depth s acc xs r ha h
      simp only [Json.parseElems] at h
      split at h
      · cases h
      · next v r' hv =>
        split at h
        · exact ihE _ _ _ _ _ (Invar.goodL_snoc ha (ihV _ _ _ _ hv)) h
        · cases h
          exact Invar.goodL_snoc ha (ihV _ _ _ _ hv)
        · cases h
    · intro depth s acc kvs r ha h
      simp only [Json.parseMembers] at h
      split at h
      · split at h
        · cases h
        · split at h
          · split at h
            · cases h
            · next v r2 hv =>
              split at h
              · exact ihM _ _ _ _ _ (goodF_objInsert (ihV _ _ _ _ hv) ha) h
              · cases h
                exact goodF_objInsert (ihV _ _ _ _ hv) ha
              · cases h
          · cases h
      · cases h

/-- every value decoded from JSON text is plain -/
theorem Json.decode_plain {s : Bytes} {v : Val} (h : Json.decode s = some v) : v.Plain = true := by
  simp only [Json.decode] at h
  split at h
  · next v' r hp =>
    split at h
    · cases h
      exact (parse_plain _).1 _ _ _ _ hp
    · cases h
  · cases h

/-- the literal between backticks is plain -/
theorem parseJSONLiteral_plain {s : Bytes} {v : Val} (h : parseJSONLiteral s = some v) : v.Plain = true := by
  simp only [parseJSONLiteral] at h
  split at h
  · cases h
  · exact Json.decode_plain h


namespace ParserLits
open Parser

def Post {α} (Q : α → Prop) (m : PM α) : Prop := ∀ s a s', m s = .ok (a, s') → Q a

theorem Post.pure {α} {Q : α → Prop} {a : α} (h : Q a) : Post Q (pure a : PM α) := by
  intro s b s' hb
  cases hb
  exact h

theorem PM.bind_eq {α β} (m : PM α) (f : α → PM β) (s : PState) :
    (m >>= f) s = (match m s with | .error e => .error e | .ok (a, s1) => f a s1) := by
  show (StateT.bind m f s) = _
  unfold StateT.bind
  show (Except.bind (m s) _) = _
  cases m s <;> rfl

theorem Post.bind {α β} {P : α → Prop} {Q : β → Prop} {m : PM α} {f : α → PM β}
    (hm : Post P m) (hf : ∀ a, P a → Post Q (f a)) : Post Q (m >>= f) := by
  intro s b s' hb
  rw [PM.bind_eq] at hb
  cases hr : m s with
  | error e => rw [hr] at hb; cases hb
  | ok p =>
    rw [hr] at hb
    obtain ⟨a, s1⟩ := p
    exact hf a (hm s a s1 hr) s1 b s' hb

theorem Post.fail {α} {Q : α → Prop} {e : PErr} : Post Q (Parser.fail e : PM α) := by
  intro s b s' hb
  cases hb

theorem Post.fail_bind {α β} {Q : β → Prop} {e : PErr} {f : α → PM β} : Post Q ((Parser.fail e : PM α) >>= f) :=
  Post.bind (P := fun _ => False) Post.fail (fun _ h => h.elim)

theorem Post.any {α} (m : PM α) : Post (fun _ => True) m := fun _ _ _ _ => trivial

abbrev PL (n : INode) : Prop := n.all (INode.litOk Val.Plain) = true
abbrev PLL (ns : List INode) : Prop := INode.allL (INode.litOk Val.Plain) ns = true
abbrev PLF (fs : List (Bytes × INode)) : Prop := INode.allF (INode.litOk Val.Plain) fs = true
abbrev PLO (o : Option INode) : Prop := ∀ n, o = some n → PL n


macro "pl_simp" : tactic => `(tactic| simp_all [INode.all, INode.allL, INode.allF, INode.litOk])



theorem Post.ite {α} {Q : α → Prop} {c : Prop} [Decidable c] {a b : PM α} (ha : c → Post Q a) (hb : ¬c → Post Q b) :
    Post Q (if c then a else b) := by
  by_cases h : c
  · rw [if_pos h]; exact ha h
  · rw [if_neg h]; exact hb h

theorem indexP_ok (child : Option INode) (h : PLO child) : Post (fun p => PL p.1) (indexP child) := by
  cases child with
  | none =>
    simp only [indexP]
    repeat (first
      | exact Post.fail
      | exact Post.fail_bind
      | (refine Post.bind (Post.any _) fun _ _ => ?_)
      | (refine Post.ite (fun _ => ?_) (fun _ => ?_))
      | exact Post.pure rfl)
  | some c =>
    have hc : PL c := h c rfl
    simp only [indexP]
    repeat (first
      | exact Post.fail
      | exact Post.fail_bind
      | (refine Post.bind (Post.any _) fun _ _ => ?_)
      | (refine Post.ite (fun _ => ?_) (fun _ => ?_))
      | (refine Post.pure ?_; show INode.all _ _ = true; simp only [INode.all, Bool.and_eq_true]; exact ⟨rfl, hc⟩))

theorem PLL_snoc {acc : List INode} {a : INode} (h : PLL acc) (ha : PL a) : PLL (acc ++ [a]) := by
  induction acc with
  | nil => simp only [PLL, List.nil_append, INode.allL, Bool.and_eq_true]; exact ⟨ha, trivial⟩
  | cons x xs ih =>
    simp only [PLL, INode.allL, Bool.and_eq_true, List.cons_append] at h ⊢
    exact ⟨h.1, ih h.2⟩

theorem PLF_assocInsert {k : Bytes} {v : INode} (hv : PL v) : ∀ {fs : List (Bytes × INode)}, PLF fs →
    PLF (assocInsert k v fs)
  | [], _ => by simp only [PLF, assocInsert, INode.allF, Bool.and_eq_true]; exact ⟨hv, trivial⟩
  | (k', v') :: rest, h => by
    simp only [PLF, INode.allF, Bool.and_eq_true] at h
    simp only [assocInsert]
    split
    · simp only [PLF, INode.allF, Bool.and_eq_true]; exact ⟨hv, h.2⟩
    · split
      · simp only [PLF, INode.allF, Bool.and_eq_true]; exact ⟨hv, h.1, h.2⟩
      · simp only [PLF, INode.allF, Bool.and_eq_true]; exact ⟨h.1, PLF_assocInsert hv h.2⟩

def SpecOK : ArgSpec → Prop
  | .fixed _ _ mk => ∀ args, PLL args → PL (mk args)
  | .varArg mk => ∀ args, PLL args → PL (mk args)
  | .expArg mk => ∀ a b, PL a → PL b → PL (mk a b)
  | .mapArg mk => ∀ a b, PL a → PL b → PL (mk a b)

theorem PL_call (f : Fn) {args : List INode} (h : PLL args) : PL (.call f args) := by
  simp only [PL, INode.all, Bool.and_eq_true]; exact ⟨rfl, h⟩

theorem PL_node2 {mk : INode → INode → INode} (hmk : ∀ a b, (mk a b).all (INode.litOk Val.Plain) =
    (INode.litOk Val.Plain (mk a b) && a.all (INode.litOk Val.Plain) && b.all (INode.litOk Val.Plain)))
    (hh : ∀ a b, INode.litOk Val.Plain (mk a b) = true) : ∀ a b, PL a → PL b → PL (mk a b) := by
  intro a b ha hb
  simp only [PL] at ha hb ⊢
  rw [hmk, hh, ha, hb]; rfl

theorem builtin_ok : ∀ e ∈ builtinTable, SpecOK e.2 := by
  simp only [builtinTable, List.forall_mem_cons]
  repeat' apply And.intro
  all_goals first
    | (intro args h; exact PL_call _ h)
    | (intro args h; show PL (if _ then _ else _); split <;> exact PL_call _ h)
    | (intro args h; show PL (match _ with | 2 => _ | 3 => _ | _ => _); split <;> exact PL_call _ h)
    | (intro args h; simp only [PL, INode.all, Bool.and_eq_true]; exact ⟨rfl, h⟩)
    | (intro a b ha hb; simp only [PL, INode.all, Bool.and_eq_true]; exact ⟨⟨rfl, ha⟩, hb⟩)
    | (intro a b ha hb; simp only [PL, INode.all, Bool.and_eq_true]; exact ⟨⟨rfl, hb⟩, ha⟩)
    | (intro x hx; cases hx)

theorem lookupBuiltin_ok {name : Bytes} {spec : ArgSpec} (h : lookupBuiltin name = some spec) : SpecOK spec := by
  simp only [lookupBuiltin, Option.map_eq_some_iff] at h
  obtain ⟨e, he, rfl⟩ := h
  exact builtin_ok e (List.mem_of_find?_eq_some he)

structure PIH (fuel : Nat) : Prop where
  expression : ∀ prec, Post PL (expression fuel prec)
  exprLoop : ∀ node prec, PL node → Post PL (exprLoop fuel node prec)
  filterP : Post PL (filterP fuel)
  fnArgs : ∀ mn mx acc, PLL acc → Post PLL (fnArgs fuel mn mx acc)
  fnVarArgs : ∀ acc, PLL acc → Post PLL (fnVarArgs fuel acc)
  function : Post PL (function fuel)
  letP : ∀ vars, PLF vars → Post PL (letP fuel vars)
  primaryExpression : Post PL (primaryExpression fuel)
  projection : ∀ prec, Post PLO (projection fuel prec)
  selectArray : ∀ child, PLO child → Post PL (selectArray fuel child)
  selectArrayLoop : ∀ child fields, PLO child → PLL fields → Post PL (selectArrayLoop fuel child fields)
  selectObject : ∀ child, PLO child → Post PL (selectObject fuel child)
  selectObjectLoop : ∀ child fields, PLO child → PLF fields → Post PL (selectObjectLoop fuel child fields)

theorem PLO_none : PLO none := fun _ h => by cases h
theorem PLO_some {n : INode} (h : PL n) : PLO (some n) := fun _ e => by cases e; exact h

theorem all_getD {o : Option INode} (h : ∀ n, o = some n → INode.all (INode.litOk Val.Plain) n = true) :
    INode.all (INode.litOk Val.Plain) (o.getD .current) = true := by
  cases o with
  | none => rfl
  | some n => exact h n rfl

theorem allL_snoc (p : INode → Bool) (xs : List INode) (a : INode) :
    INode.allL p (xs ++ [a]) = (INode.allL p xs && a.all p) := by
  induction xs with
  | nil => simp [INode.allL]
  | cons x xs ih => simp only [List.cons_append, INode.allL, ih, Bool.and_assoc]

theorem allF_assocInsert {k : Bytes} {v : INode} {fs : List (Bytes × INode)}
    (hv : v.all (INode.litOk Val.Plain) = true) (h : INode.allF (INode.litOk Val.Plain) fs = true) :
    INode.allF (INode.litOk Val.Plain) (assocInsert k v fs) = true :=
  PLF_assocInsert hv h

theorem PL_lit {v : Val} (h : v.Plain = true) : PL (.lit v) := by
  simp only [PL, INode.all, INode.litOk]; exact h

/-- close a `PL`/`PLL`/`PLF`/`PLO` goal from the hypotheses in scope -/
macro "pl_close" : tactic => `(tactic| first
  | assumption
  | exact PLO_none
  | exact PLO_some (by assumption)
  | rfl
  | (simp_all [PL, PLL, PLF, PLO, INode.all, INode.allL, INode.allF, INode.litOk, all_getD, allL_snoc, allF_assocInsert]; done)
  | (split <;> simp_all [PL, PLL, PLF, PLO, INode.all, INode.allL, INode.allF, INode.litOk, all_getD, allL_snoc, allF_assocInsert]; done))

theorem fixed_ok {name : Bytes} {mn mx : Nat} {mk : List INode → INode}
    (h : lookupBuiltin name = some (.fixed mn mx mk)) {args : List INode} (ha : PLL args) : PL (mk args) :=
  lookupBuiltin_ok h args ha
theorem varArg_ok {name : Bytes} {mk : List INode → INode}
    (h : lookupBuiltin name = some (.varArg mk)) {args : List INode} (ha : PLL args) : PL (mk args) :=
  lookupBuiltin_ok h args ha
theorem expArg_ok {name : Bytes} {mk : INode → INode → INode}
    (h : lookupBuiltin name = some (.expArg mk)) {a b : INode} (ha : PL a) (hb : PL b) : PL (mk a b) :=
  lookupBuiltin_ok h a b ha hb
theorem mapArg_ok {name : Bytes} {mk : INode → INode → INode}
    (h : lookupBuiltin name = some (.mapArg mk)) {a b : INode} (ha : PL a) (hb : PL b) : PL (mk a b) :=
  lookupBuiltin_ok h a b ha hb

macro "post_auto" ih:ident : tactic => `(tactic| repeat' (first
  | exact Post.fail
  | exact Post.fail_bind
  | (refine Post.bind (PIH.expression $ih _) fun _ _ => ?_)
  | (refine Post.bind (PIH.projection $ih _) fun _ _ => ?_)
  | (refine Post.bind (PIH.filterP $ih) fun _ _ => ?_)
  | (refine Post.bind (PIH.primaryExpression $ih) fun _ _ => ?_)
  | (refine Post.bind (PIH.exprLoop $ih _ _ (by pl_close)) fun _ _ => ?_)
  | (refine Post.bind (PIH.selectObject $ih _ (by pl_close)) fun _ _ => ?_)
  | (refine Post.bind (PIH.selectArray $ih _ (by pl_close)) fun _ _ => ?_)
  | (refine Post.bind (PIH.fnArgs $ih _ _ _ rfl) fun _ _ => ?_)
  | (refine Post.bind (PIH.fnVarArgs $ih _ rfl) fun _ _ => ?_)
  | (refine Post.bind (indexP_ok _ (by pl_close)) fun _ _ => ?_)
  | exact PIH.expression $ih _
  | exact PIH.function $ih
  | exact PIH.exprLoop $ih _ _ (by pl_close)
  | exact PIH.selectObject $ih _ (by pl_close)
  | exact PIH.selectArray $ih _ (by pl_close)
  | exact PIH.letP $ih _ (by pl_close)
  | exact PIH.letP $ih _ (PLF_assocInsert (by assumption) (by assumption))
  | exact PIH.fnArgs $ih _ _ _ (PLL_snoc (by assumption) (by assumption))
  | exact PIH.fnVarArgs $ih _ (PLL_snoc (by assumption) (by assumption))
  | exact PIH.selectArrayLoop $ih _ _ (by assumption) (by pl_close)
  | exact PIH.selectArrayLoop $ih _ _ (by assumption) (PLL_snoc (by assumption) (by assumption))
  | exact PIH.selectObjectLoop $ih _ _ (by assumption) (by pl_close)
  | exact PIH.selectObjectLoop $ih _ _ (by assumption) (PLF_assocInsert (by assumption) (by assumption))
  | exact Post.pure (PLL_snoc (by assumption) (by assumption))
  | exact Post.pure (PL_lit (parseJSONLiteral_plain (by assumption)))
  | exact Post.pure (fixed_ok (by assumption) (by assumption))
  | exact Post.pure (varArg_ok (by assumption) (by assumption))
  | exact Post.pure (expArg_ok (by assumption) (by assumption) (by assumption))
  | exact Post.pure (mapArg_ok (by assumption) (by assumption) (by assumption))
  | (refine Post.bind (Post.any _) fun _ _ => ?_)
  | (refine Post.ite (fun _ => ?_) (fun _ => ?_))
  | split
  | (refine Post.pure ?_; pl_close)))

theorem step_expression {fuel : Nat} (ih : PIH fuel) (prec : Nat) : Post PL (expression (fuel+1) prec) := by
  simp only [expression]
  post_auto ih

theorem step_exprLoop {fuel : Nat} (ih : PIH fuel) (node : INode) (prec : Nat) (hn : PL node) : Post PL (exprLoop (fuel+1) node prec) := by
  simp only [exprLoop]
  post_auto ih

theorem step_filterP {fuel : Nat} (ih : PIH fuel)  : Post PL (filterP (fuel+1)) := by
  simp only [filterP]
  post_auto ih

theorem step_fnArgs {fuel : Nat} (ih : PIH fuel) (mn mx : Nat) (acc : List INode) (ha : PLL acc) : Post PLL (fnArgs (fuel+1) mn mx acc) := by
  simp only [fnArgs]
  post_auto ih

theorem step_fnVarArgs {fuel : Nat} (ih : PIH fuel) (acc : List INode) (ha : PLL acc) : Post PLL (fnVarArgs (fuel+1) acc) := by
  simp only [fnVarArgs]
  post_auto ih

theorem step_function {fuel : Nat} (ih : PIH fuel)  : Post PL (function (fuel+1)) := by
  simp only [function]
  post_auto ih

theorem step_letP {fuel : Nat} (ih : PIH fuel) (vars : List (Bytes × INode)) (hv : PLF vars) : Post PL (letP (fuel+1) vars) := by
  simp only [letP]
  post_auto ih

theorem step_primaryExpression {fuel : Nat} (ih : PIH fuel)  : Post PL (primaryExpression (fuel+1)) := by
  simp only [primaryExpression]
  refine Post.bind (Post.any _) fun _ _ => ?_
  split <;> post_auto ih

theorem step_projection {fuel : Nat} (ih : PIH fuel) (prec : Nat) : Post PLO (projection (fuel+1) prec) := by
  simp only [projection]
  post_auto ih

theorem step_selectArray {fuel : Nat} (ih : PIH fuel) (child : Option INode) (hc : PLO child) : Post PL (selectArray (fuel+1) child) := by
  simp only [selectArray]
  post_auto ih

theorem step_selectArrayLoop {fuel : Nat} (ih : PIH fuel) (child : Option INode) (fields : List INode) (hc : PLO child) (hf : PLL fields) : Post PL (selectArrayLoop (fuel+1) child fields) := by
  simp only [selectArrayLoop]
  post_auto ih

theorem step_selectObject {fuel : Nat} (ih : PIH fuel) (child : Option INode) (hc : PLO child) : Post PL (selectObject (fuel+1) child) := by
  simp only [selectObject]
  post_auto ih

theorem step_selectObjectLoop {fuel : Nat} (ih : PIH fuel) (child : Option INode) (fields : List (Bytes × INode)) (hc : PLO child) (hf : PLF fields) : Post PL (selectObjectLoop (fuel+1) child fields) := by
  simp only [selectObjectLoop]
  post_auto ih

theorem pih : ∀ fuel, PIH fuel
  | 0 => by
    constructor <;> intros <;>
      simp only [expression, exprLoop, filterP, fnArgs, fnVarArgs, function, letP, primaryExpression, projection,
        selectArray, selectArrayLoop, selectObject, selectObjectLoop] <;> exact Post.fail
  | fuel + 1 =>
    have ih := pih fuel
    ⟨step_expression ih, step_exprLoop ih, step_filterP ih, step_fnArgs ih, step_fnVarArgs ih, step_function ih,
      step_letP ih, step_primaryExpression ih, step_projection ih, step_selectArray ih, step_selectArrayLoop ih,
      step_selectObject ih, step_selectObjectLoop ih⟩

/-- **every literal of a parsed expression is plain** -/
theorem parse_plainLits {expr : Bytes} {n : INode} (h : Parser.parse expr = .ok n) : n.PlainLits = true := by
  unfold Parser.parse at h
  simp only [] at h
  split at h
  · cases h
  · next st _ =>
    split at h
    · next n' s' hr =>
      cases h
      have hp : Post PL (do
          let node ← expression (fuelFor (lexAll expr).1.length) 1
          if (← currType) != .end then Parser.fail .unexpectedToken
          return node : PM INode) := by
        refine Post.bind ((pih _).expression _) fun node hn => ?_
        refine Post.bind (Post.any _) fun _ _ => ?_
        refine Post.ite (fun _ => ?_) (fun _ => ?_)
        · exact Post.fail_bind
        · exact Post.pure hn
      exact hp st n s' hr
    · cases h

/-! ### examples -/

/-- decoding `[1,null]` -/
example : (match Json.decode [0x5B, 0x31, 0x2C, 0x6E, 0x75, 0x6C, 0x6C, 0x5D] with
    | some (.arr .plain [.num (.jnum [0x31]), .null]) => true
    | _ => false) = true := by decide +kernel
example : ∀ v, Json.decode [0x5B, 0x31, 0x2C, 0x6E, 0x75, 0x6C, 0x6C, 0x5D] = some v → v.Plain = true :=
  fun _ h => Json.decode_plain h
/-- the expression `` a==`[1]` `` parses to a node with a literal -/
example : (match Parser.parse [0x61, 0x3D, 0x3D, 0x60, 0x5B, 0x31, 0x5D, 0x60] with
    | .ok n => !(n.all (fun m => match m with | .lit _ => false | _ => true))
    | _ => false) = true := by decide +kernel
example : ∀ n, Parser.parse [0x61, 0x3D, 0x3D, 0x60, 0x5B, 0x31, 0x5D, 0x60] = .ok n → n.PlainLits = true :=
  fun _ h => parse_plainLits h
/-- `Post`: a failing parser satisfies every post-condition, a returning one only those true of its result -/
example : Post (fun _ : INode => False) (Parser.fail .unexpectedToken) := Post.fail
example : ¬ Post (fun _ : INode => False) (pure .current) := fun h =>
  h ⟨⟨.end, []⟩, ⟨.end, []⟩, [], none⟩ .current _ rfl

end ParserLits
end Jmes
