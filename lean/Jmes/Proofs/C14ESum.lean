/-
  Helper for property C14, fourth round: the dyadic accounting on left-nested sums `t₀ + t₁ + … + tₙ` grows LINEARLY
  (one bit per `+`), where the accounting of `C14C` (`B · 2^adepth ≤ 53`) doubled the bits at every level.
-/
import Jmes.Proofs.C14EOp
import Jmes.Proofs.C14EGradeEval
namespace Jmes
namespace C14E
open C14 C14B C14C

/-- the left-nested sum `((t₀ + t₁) + t₂) + …` — what the parser builds for `t₀ + t₁ + t₂ + …` -/
def lsum (t0 : Tree) : List Tree → Tree
  | [] => t0
  | t :: ts => lsum (.binop .add t0 t) ts

/-- the left-nested difference/sum with arbitrary `+`/`-` signs -/
def lsumS (t0 : Tree) : List (Bool × Tree) → Tree
  | [] => t0
  | (neg, t) :: ts => lsumS (.binop (if neg then .sub else .add) t0 t) ts

/-- a summand that passes its input grade on (a field, an index, the current node, a variable, a float-free literal …) -/
def Leafy (g : Gr) (t : Tree) : Prop := grade dyGrading t g = g ∧ budget dyGrading t g = true

theorem leafy_field (g : Gr) (k : Bytes) : Leafy g (.field k) := ⟨by simp only [grade], by simp only [budget]⟩
theorem leafy_current (g : Gr) : Leafy g .current := ⟨by simp only [grade], by simp only [budget]⟩
theorem leafy_var (g : Gr) (x : Bytes) : Leafy g (.var x) := ⟨by simp only [grade], by simp only [budget]⟩
theorem leafy_lit (g : Gr) (v : Val) : Leafy g (.lit v) := ⟨by simp only [grade], by simp only [budget]⟩
theorem leafy_sub_fields (g : Gr) (k l : Bytes) : Leafy g (.sub (.field k) (.field l)) :=
  ⟨by simp only [grade], by simp only [budget, Bool.and_self]⟩

theorem okg_mono_h {h h' s : Nat} (hh : h ≤ h') (ok : Gr.OK ⟨h', s⟩) : Gr.OK ⟨h, s⟩ :=
  Gr.OK.mono (g := ⟨h, s⟩) (g' := ⟨h', s⟩) ⟨hh, Nat.le_refl _⟩ ok

/-- **linear growth**: a left-nested sum/difference of leafy summands of grade `⟨h, s⟩`, starting from an accumulator
    of grade `⟨h + k, s⟩`, has grade `⟨h + k + n, s⟩` — one bit per `+`/`-` — and is within budget as soon as that
    final grade is -/
theorem lsumS_grade_budget (g : Gr) : ∀ (ts : List (Bool × Tree)) (a : Tree) (k : Nat),
    grade dyGrading a g = ⟨g.h + k, g.s⟩ → budget dyGrading a g = true → (∀ p ∈ ts, Leafy g p.2) →
    Gr.OK ⟨g.h + k + ts.length, g.s⟩ →
    grade dyGrading (lsumS a ts) g = ⟨g.h + k + ts.length, g.s⟩ ∧ budget dyGrading (lsumS a ts) g = true
  | [], a, k, ha, hb, _, _ => by simpa [lsumS] using ⟨ha, hb⟩
  | (neg, t) :: ts, a, k, ha, hb, hl, ok => by
    have ht : Leafy g t := hl (neg, t) (List.mem_cons_self ..)
    have e : gAdd ⟨g.h + k, g.s⟩ g = ⟨g.h + (k + 1), g.s⟩ := by
      simp only [gAdd, Gr.mk.injEq]; omega
    have ok1 : Gr.OK ⟨g.h + (k + 1), g.s⟩ := by
      refine okg_mono_h ?_ ok
      simp only [List.length_cons]; omega
    have hg : grade dyGrading (.binop (if neg then .sub else .add) a t) g = ⟨g.h + (k + 1), g.s⟩ := by
      cases neg <;> (simp only [grade, ha, ht.1]; exact e)
    have hbud : budget dyGrading (.binop (if neg then .sub else .add) a t) g = true := by
      cases neg
      · simp only [budget, hb, ht.2, ha, ht.1, Bool.true_and]
        show (BinOp.isCmp .add || opOKb .add ⟨g.h + k, g.s⟩ g) = true
        simp only [opOKb, e, Bool.or_eq_true, decide_eq_true_eq]
        exact .inr ok1
      · simp only [budget, hb, ht.2, ha, ht.1, Bool.true_and]
        show (BinOp.isCmp .sub || opOKb .sub ⟨g.h + k, g.s⟩ g) = true
        simp only [opOKb, e, Bool.or_eq_true, decide_eq_true_eq]
        exact .inr ok1
    have := lsumS_grade_budget g ts (.binop (if neg then .sub else .add) a t) (k + 1) hg hbud
      (fun p h' => hl p (List.mem_cons_of_mem _ h')) (by
        simp only [List.length_cons] at ok
        rw [show g.h + (k + 1) + ts.length = g.h + k + (ts.length + 1) by omega]; exact ok)
    simp only [lsumS, List.length_cons]
    rw [show g.h + k + (ts.length + 1) = g.h + (k + 1) + ts.length by omega]
    exact this

theorem lsum_eq_lsumS (t0 : Tree) : ∀ ts : List Tree, lsum t0 ts = lsumS t0 (ts.map (fun t => (false, t)))
  | [] => rfl
  | t :: ts => by
    simp only [lsum, List.map_cons, lsumS]
    exact lsum_eq_lsumS _ ts

/-- **`t₀ ± t₁ ± … ± tₙ` on leafy summands of grade `⟨h, s⟩`: grade `⟨h + n, s⟩`, within budget as soon as
    `h + n + s ≤ 52` (and `2^(h+n)·10^s < 10^34`)** -/
theorem lsumS_linear (g : Gr) (t0 : Tree) (ts : List (Bool × Tree)) (h0 : Leafy g t0) (hl : ∀ p ∈ ts, Leafy g p.2)
    (ok : Gr.OK ⟨g.h + ts.length, g.s⟩) :
    grade dyGrading (lsumS t0 ts) g = ⟨g.h + ts.length, g.s⟩ ∧ budget dyGrading (lsumS t0 ts) g = true := by
  have := lsumS_grade_budget g ts t0 0 (by rw [h0.1]; cases g; rfl) h0.2 hl (by simpa using ok)
  simpa using this

/-- **`t₀ + t₁ + … + tₙ` on leafy summands of grade `⟨h, s⟩`: grade `⟨h + n, s⟩`, within budget iff
    `h + n + s ≤ 52` (and `2^(h+n)·10^s < 10^34`)** -/
theorem lsum_linear (g : Gr) (t0 : Tree) (ts : List Tree) (h0 : Leafy g t0) (hl : ∀ t ∈ ts, Leafy g t)
    (ok : Gr.OK ⟨g.h + ts.length, g.s⟩) :
    grade dyGrading (lsum t0 ts) g = ⟨g.h + ts.length, g.s⟩ ∧ budget dyGrading (lsum t0 ts) g = true := by
  have := lsumS_linear g t0 (ts.map (fun t => (false, t))) h0 (by
    intro p hp
    obtain ⟨t, ht, rfl⟩ := List.mem_map.mp hp
    exact hl t ht) (by simpa using ok)
  rw [lsum_eq_lsumS]
  simpa using this

-- a+b+c+d+e+f+g (7 summands, 6 additions) on floats holding integers up to 2^46: grade ⟨52, 0⟩, within budget;
-- `C14C`'s accounting needs `B · 2^6 ≤ 53`, i.e. `B = 0`
example : grade dyGrading (lsum (.field [0x61]) [.field [0x62], .field [0x63], .field [0x64], .field [0x65],
      .field [0x66], .field [0x67]]) ⟨46, 0⟩ = ⟨52, 0⟩ ∧
    budget dyGrading (lsum (.field [0x61]) [.field [0x62], .field [0x63], .field [0x64], .field [0x65],
      .field [0x66], .field [0x67]]) ⟨46, 0⟩ = true := by
  refine lsum_linear ⟨46, 0⟩ _ _ (leafy_field _ _) (fun t ht => ?_) (by decide)
  simp only [List.mem_cons, List.not_mem_nil, or_false] at ht
  rcases ht with rfl | rfl | rfl | rfl | rfl | rfl <;> exact leafy_field _ _

end C14E
end Jmes
