/-
  Helper lemmas for `Properties/C12B.lean`.

  Part 1 (G3): the *compact* text of a slice, `[a:b:c]` with `strconv.Itoa`-style decimals and no blanks, is lexed into
  the tokens of the grammar's slice form — the completeness lemmas of `Proofs/Lex.lean` need a blank or the end of the
  input after a token; here a digit run may be followed by any non-digit ASCII byte (`:` or `]`), an identifier by any
  non-identifier ASCII byte, and `[` by anything except `*`, `?`, `]`.  `parseInt64 (intToBytes i) = some i` for every
  64-bit `i`.  `LexChain` handles the fuel of `lexAll` once and for all.

  Part 2 (G3): the parser on these tokens (`parse_complete`), and the `invalidSliceStep` error for a zero step.

  Part 3 (G4): a `Post`-style induction over the parser (as in `Proofs/ParserLits.lean`): every slice node of a parsed
  expression carries 64-bit bounds and a non-zero 64-bit step.
-/
import Jmes.Properties.C04G
import Jmes.Properties.C09
import Jmes.Properties.C12
import Jmes.Proofs.ParserLits
import Jmes.Proofs.Repr
namespace Jmes.C12BL
open Jmes Jmes.Lex Jmes.Lexical Jmes.Grammar Jmes.Pratt Jmes.Parser

/-! ## Part 1. Lexing the compact text -/

/-- what may follow a digit run: nothing, or an ASCII byte that is not a digit -/
def NoDigit (rest : Bytes) : Prop := rest = [] ∨ ∃ b r, rest = b :: r ∧ b < 0x80 ∧ isDigitR b = false

/-- what may follow an identifier: nothing, or an ASCII byte that is not an identifier character -/
def NoIdChar (rest : Bytes) : Prop :=
  rest = [] ∨ ∃ b r, rest = b :: r ∧ b < 0x80 ∧ (isAlphaR b || isDigitR b) = false

theorem noDigit_nil : NoDigit [] := Or.inl rfl
theorem noDigit_colon (r : Bytes) : NoDigit (0x3A :: r) := Or.inr ⟨_, r, rfl, by decide, by decide⟩
theorem noDigit_rbracket (r : Bytes) : NoDigit (0x5D :: r) := Or.inr ⟨_, r, rfl, by decide, by decide⟩
theorem noIdChar_lbracket (r : Bytes) : NoIdChar (0x5B :: r) := Or.inr ⟨_, r, rfl, by decide, by decide⟩

/-- `complete_digits` of `Proofs/Lex.lean` with the weaker side condition -/
theorem complete_digits' {v : Bytes} (h : Digits v) {rest : Bytes} (hs : NoDigit rest) :
    lexToken (v ++ rest) = .ok (⟨.integerLiteral, v⟩, v.length) := by
  obtain ⟨hne, hall⟩ := h
  match v, hne with
  | c :: t, _ =>
    have hc : isDigitB c = true := hall c (by simp)
    have hdec : lexDecode (c :: t ++ rest) = .ok (c, 1) := lexDecode_cons_ascii (isDigitB_lt hc)
    have hsp : spanRunes isDigitR (c :: t ++ rest).length ((c :: t ++ rest).drop 1) = t.length :=
      spanRunes_complete _ (fun r h => isDigitB_lt h) rest hs t _ (by simp; omega)
        (fun b hb => hall b (by simp [hb]))
    rw [lexToken_digit hdec hc, hsp]
    have e : (c :: t ++ rest).take (1 + t.length) = c :: t := by
      rw [Nat.add_comm]; exact take_len_append (c :: t) rest
    rw [e]
    simp only [List.length_cons]
    rw [Nat.add_comm]

theorem complete_negdigits' {d : Bytes} (h : Digits d) {rest : Bytes} (hs : NoDigit rest) :
    lexToken (0x2D :: d ++ rest) = .ok (⟨.integerLiteral, 0x2D :: d⟩, (0x2D :: d).length) := by
  obtain ⟨hne, hall⟩ := h
  match d, hne with
  | c :: t, _ =>
    have hc : isDigitB c = true := hall c (by simp)
    have hc' : isDigitR c = true := hc
    have hpk : lexDecode (c :: (t ++ rest)) = .ok (c, 1) := lexDecode_cons_ascii (isDigitB_lt hc)
    have hsp : spanRunes isDigitR (0x2D :: c :: t ++ rest).length (t ++ rest) = t.length :=
      spanRunes_complete _ (fun r h => isDigitB_lt h) rest hs t _ (by simp; omega)
        (fun b hb => hall b (by simp [hb]))
    have e : (0x2D :: c :: t ++ rest).take (1 + 1 + t.length) = 0x2D :: c :: t := by
      rw [show 1 + 1 + t.length = (0x2D :: c :: t).length by simp; omega]; exact take_len_append _ rest
    simp only [lexToken, lexDecode_cons_ascii (show 0x2D < 0x80 by omega), List.cons_append, peek,
      List.drop_succ_cons, List.drop_zero, hpk, hc', if_true]
    simp only [List.cons_append] at hsp e
    rw [hsp, e]
    simp only [List.length_cons, Nat.reduceEqDiff, ↓reduceIte]
    congr 2; omega

/-- `complete_ident` of `Proofs/Lex.lean` with the weaker side condition -/
theorem complete_ident' {v : Bytes} (h : Ident v) {rest : Bytes} (hs : NoIdChar rest) :
    lexToken (v ++ rest) = .ok (⟨if v = [0x69, 0x6E] then TokenType.in
            else if v = [0x6C, 0x65, 0x74] then TokenType.let else TokenType.unquotedIdentifier, v⟩, v.length) := by
  obtain ⟨c, t, rfl, hc, ht⟩ := h
  have hdec : lexDecode (c :: t ++ rest) = .ok (c, 1) := lexDecode_cons_ascii (isIdStartB_lt hc)
  have hsp : spanRunes (fun r => isAlphaR r || isDigitR r) (c :: t ++ rest).length ((c :: t ++ rest).drop 1) = t.length :=
    spanRunes_complete _ (fun r h => isIdCharB_lt h) rest hs t _ (by simp; omega) ht
  rw [lexToken_alpha hdec hc, hsp]
  have e : (c :: t ++ rest).take (1 + t.length) = c :: t := by
    rw [Nat.add_comm]; exact take_len_append (c :: t) rest
  rw [e]
  simp only [List.length_cons]
  rw [Nat.add_comm]

theorem lex_colon (rest : Bytes) : lexToken (0x3A :: rest) = .ok (tColon, 1) := by
  simp [lexToken, lexDecode_cons_ascii, tColon]

theorem lex_rbracket (rest : Bytes) : lexToken (0x5D :: rest) = .ok (tRBracket, 1) := by
  simp [lexToken, lexDecode_cons_ascii, tRBracket]

/-- `[` followed by an ASCII byte other than `*`, `?`, `]` is the plain bracket token -/
theorem lex_lbracket {b : Nat} (r : Bytes) (hb : b < 0x80) (h1 : b ≠ 0x2A) (h2 : b ≠ 0x3F) (h3 : b ≠ 0x5D) :
    lexToken (0x5B :: b :: r) = .ok (tLBracket, 1) := by
  simp [lexToken, lexDecode_cons_ascii, peek, hb, h1, h2, h3, tLBracket]

/-! ### The canonical decimal text of a 64-bit integer -/

/-- `strconv.Itoa`: the text of an integer token -/
def decTok (i : Int) : Token := ⟨.integerLiteral, Json.intToBytes i⟩

theorem isDigit_eq (b : Nat) : Dec.isDigit b = isDigitB b := rfl

theorem natToBytes_digits (n : Nat) : Digits (Dec.natToBytes n) := by
  obtain ⟨b, ds, h1, h2, _⟩ := Dec.natToBytes_spec n
  rw [h1]
  exact ⟨by simp, fun x hx => by rw [← isDigit_eq]; exact h2 x hx⟩

theorem intToBytes_shape (i : Int) : TokShape .integerLiteral (Json.intToBytes i) := by
  unfold Json.intToBytes
  split
  · exact Or.inr ⟨_, rfl, natToBytes_digits _⟩
  · exact Or.inl (natToBytes_digits _)

/-- the decimal text of `i` followed by a non-digit is lexed as one integer token -/
theorem lex_int (i : Int) {rest : Bytes} (hs : NoDigit rest) :
    lexToken (Json.intToBytes i ++ rest) = .ok (decTok i, (Json.intToBytes i).length) := by
  rcases intToBytes_shape i with h | ⟨d, hd, h⟩
  · exact complete_digits' h hs
  · unfold decTok; rw [hd]; exact complete_negdigits' h hs

/-- the first byte of a decimal is ASCII and none of `*`, `?`, `]` -/
theorem intToBytes_head (i : Int) :
    ∃ b r, Json.intToBytes i = b :: r ∧ b < 0x80 ∧ b ≠ 0x2A ∧ b ≠ 0x3F ∧ b ≠ 0x5D := by
  rcases intToBytes_shape i with ⟨hne, hall⟩ | ⟨d, hd, _⟩
  · match hv : Json.intToBytes i, hne with
    | c :: t, _ =>
      have hc : isDigitB c = true := hall c (by rw [hv]; simp)
      have : 0x30 ≤ c ∧ c ≤ 0x39 := by simpa [isDigitB] using hc
      exact ⟨c, t, rfl, by omega, by omega, by omega, by omega⟩
  · exact ⟨0x2D, d, hd, by decide, by decide, by decide, by decide⟩

/-- `strconv.ParseInt` reads back what `strconv.Itoa` prints, for every 64-bit integer (the limits included) -/
theorem parseInt64_intToBytes (i : Int) (h1 : MinInt ≤ i) (h2 : i ≤ MaxInt) :
    parseInt64 (Json.intToBytes i) = some i := by
  obtain ⟨b, ds, hb, hd, hv⟩ := Dec.natToBytes_spec i.natAbs
  have hd' : (b :: ds).all Dec.isDigit = true := by simpa using hd
  have hb0 : b ≠ 0x2B ∧ b ≠ 0x2D := by
    have := (Dec.isDigit_iff b).mp (hd b (List.mem_cons_self ..))
    omega
  have hv' : List.foldl (fun (acc : Nat) (b : Nat) => acc * 10 + (b - 0x30)) 0 (b :: ds) = i.natAbs := hv
  unfold Json.intToBytes
  simp only [MinInt, MaxInt] at h1 h2
  by_cases hneg : i < 0
  · simp only [hneg, if_true, hb]
    unfold parseInt64
    simp only [List.isEmpty_cons, Bool.false_eq_true, if_false, hd', if_true, hv']
    rw [if_neg (by omega)]
    congr 1; omega
  · simp only [hneg, if_false, hb]
    unfold parseInt64
    split
    rename_i x neg d heq
    have hnd : neg = false ∧ d = b :: ds := by
      split at heq
      · rename_i r h; cases h; exact absurd rfl hb0.1
      · rename_i r h; cases h; exact absurd rfl hb0.2
      · cases heq; exact ⟨rfl, rfl⟩
    obtain ⟨rfl, rfl⟩ := hnd
    simp only [List.isEmpty_cons, Bool.false_eq_true, if_false, hd', if_true, hv']
    rw [if_neg (by omega)]
    congr 1; omega

example : parseInt64 (Json.intToBytes MinInt) = some MinInt := parseInt64_intToBytes _ (by decide) (by decide)
example : Json.intToBytes (-12) = [0x2D, 0x31, 0x32] := by decide

theorem intOf_decTok (i : Int) (h1 : MinInt ≤ i) (h2 : i ≤ MaxInt) : intOf (decTok i) = some i :=
  parseInt64_intToBytes i h1 h2

theorem isIntTok_decTok (i : Int) (h1 : MinInt ≤ i) (h2 : i ≤ MaxInt) : isIntTok (decTok i) = true := by
  simp only [isIntTok, intOf_decTok i h1 h2, Option.isSome_some, Bool.and_true]; rfl

/-! ### Chains of tokens without separators -/

/-- the concatenation of the token texts -/
def concatVals : List Token → Bytes
  | [] => []
  | t :: ts => t.value ++ concatVals ts

/-- every token of the list, followed by the texts of the later ones, is lexed as itself -/
def LexChain : List Token → Prop
  | [] => True
  | t :: ts => (lexToken (t.value ++ concatVals ts) = .ok (t, t.value.length) ∧ t.value ≠ []) ∧ LexChain ts

theorem lexAllAux_step {t : Token} {rest : Bytes} (hl : lexToken (t.value ++ rest) = .ok (t, t.value.length))
    (hne : t.value ≠ []) (fuel : Nat) :
    lexAllAux (fuel + 1) (t.value ++ rest) = (t :: (lexAllAux fuel rest).1, (lexAllAux fuel rest).2) := by
  have hpos : 0 < t.value.length := List.length_pos_iff.2 hne
  rw [lexAllAux]
  rw [skipWsLex_of_ok hl]
  split
  · rename_i heq; simp at heq; exact absurd heq.1 hne
  · rw [hl]
    simp only []
    rw [show max t.value.length 1 = t.value.length by omega, List.drop_left]

theorem lexAllAux_chain : ∀ (ts : List Token), LexChain ts → ∀ fuel, ts.length + 1 ≤ fuel →
    lexAllAux fuel (concatVals ts) = (ts ++ [⟨.end, []⟩], none)
  | [], _, fuel, hf => by
    match fuel, hf with
    | f + 1, _ => exact lexAllAux_nil f
  | t :: ts, h, fuel, hf => by
    obtain ⟨⟨hl, hne⟩, hts⟩ := h
    simp only [List.length_cons] at hf
    match fuel, hf with
    | f + 1, hf =>
      show lexAllAux (f + 1) (t.value ++ concatVals ts) = _
      rw [lexAllAux_step hl hne f, lexAllAux_chain ts hts f (by omega)]
      rfl

theorem length_le_concatVals : ∀ (ts : List Token), LexChain ts → ts.length ≤ (concatVals ts).length
  | [], _ => Nat.le_refl _
  | t :: ts, h => by
    have := length_le_concatVals ts h.2
    have hpos : 0 < t.value.length := List.length_pos_iff.2 h.1.2
    simp only [concatVals, List.length_cons, List.length_append]
    omega

/-- a chain is lexed into exactly its tokens -/
theorem lexAll_chain (ts : List Token) (h : LexChain ts) : lexAll (concatVals ts) = (ts ++ [endTok], none) :=
  lexAllAux_chain ts h _ (by have := length_le_concatVals ts h; omega)

/-! ### Building chains -/

/-- the first byte is ASCII and none of `*`, `?`, `]` (so a preceding `[` stays a plain bracket) -/
def HeadOK (bytes : Bytes) : Prop := ∃ b r, bytes = b :: r ∧ b < 0x80 ∧ b ≠ 0x2A ∧ b ≠ 0x3F ∧ b ≠ 0x5D

theorem headOK_colon (r : Bytes) : HeadOK (0x3A :: r) := ⟨_, r, rfl, by decide, by decide, by decide, by decide⟩
theorem headOK_int (i : Int) (r : Bytes) : HeadOK (Json.intToBytes i ++ r) := by
  obtain ⟨b, t, h, h1, h2, h3, h4⟩ := intToBytes_head i
  exact ⟨b, t ++ r, by rw [h]; rfl, h1, h2, h3, h4⟩

theorem chain_colon {ts : List Token} (h : LexChain ts) : LexChain (tColon :: ts) :=
  ⟨⟨lex_colon _, by decide⟩, h⟩
theorem chain_rbracket {ts : List Token} (h : LexChain ts) : LexChain (tRBracket :: ts) :=
  ⟨⟨lex_rbracket _, by decide⟩, h⟩
theorem chain_int (i : Int) {ts : List Token} (h : LexChain ts) (hn : NoDigit (concatVals ts)) :
    LexChain (decTok i :: ts) := by
  refine ⟨⟨lex_int i hn, ?_⟩, h⟩
  obtain ⟨b, r, hb, _⟩ := intToBytes_head i
  show Json.intToBytes i ≠ []
  rw [hb]; exact List.cons_ne_nil _ _
theorem chain_lbracket {ts : List Token} (h : LexChain ts) (hh : HeadOK (concatVals ts)) :
    LexChain (tLBracket :: ts) := by
  obtain ⟨b, r, hb, h0, h1, h2, h3⟩ := hh
  refine ⟨⟨?_, by decide⟩, h⟩
  rw [hb]
  exact lex_lbracket r h0 h1 h2 h3
/-- an identifier (not `let`, not `in`) in front of a `[` -/
theorem chain_ident {v : Bytes} (hv : Ident v) (h1 : v ≠ kwLet) (h2 : v ≠ kwIn) {ts : List Token} (h : LexChain ts)
    (hn : NoIdChar (concatVals ts)) : LexChain (⟨.unquotedIdentifier, v⟩ :: ts) := by
  refine ⟨⟨?_, ?_⟩, h⟩
  · show lexToken (v ++ concatVals ts) = _
    simp only [kwLet, kwIn] at h1 h2
    rw [complete_ident' hv hn, if_neg h2, if_neg h1]
  · obtain ⟨c, t, rfl, _⟩ := hv
    exact List.cons_ne_nil _ _

theorem concatVals_append (xs ys : List Token) : concatVals (xs ++ ys) = concatVals xs ++ concatVals ys := by
  induction xs with
  | nil => rfl
  | cons x xs ih => simp only [List.cons_append, concatVals, ih, List.append_assoc]

/-! ### The text of a slice and its tokens -/

/-- an optional decimal: nothing, or the `strconv.Itoa` text -/
def optText : Option Int → Bytes
  | none => []
  | some i => Json.intToBytes i

/-- the optional third part: nothing, or `:` and an optional decimal -/
def stepText : Option (Option Int) → Bytes
  | none => []
  | some c => 0x3A :: optText c

/-- `[` start? `:` stop? (`:` step?)? `]`, without blanks -/
def sliceText (s? e? : Option Int) (st? : Option (Option Int)) : Bytes :=
  0x5B :: (optText s? ++ 0x3A :: (optText e? ++ (stepText st? ++ [0x5D])))

/-- the tokens of that text, in the shape of the grammar's slice form -/
def sliceTokens (s? e? : Option Int) (st? : Option (Option Int)) : List Token :=
  tLBracket :: (sliceToks (s?.map decTok) (e?.map decTok) (st?.map (·.map decTok)) ++ [tRBracket])

theorem sliceTokens_chain (s? e? : Option Int) (st? : Option (Option Int)) :
    LexChain (sliceTokens s? e? st?) ∧ concatVals (sliceTokens s? e? st?) = sliceText s? e? st? := by
  rcases s? with _ | s <;> rcases e? with _ | e <;> rcases st? with _ | _ | c <;>
    simp only [sliceTokens, sliceToks, Option.map_none, Option.map_some, Option.toList_none, Option.toList_some,
      List.nil_append, List.cons_append, List.append_nil] <;>
    refine ⟨?_, ?_⟩
  all_goals first
    | (show concatVals _ = _
       simp only [concatVals, sliceText, optText, stepText, decTok, tLBracket, tRBracket, tColon, List.nil_append,
         List.cons_append, List.append_nil]
       done)
    | skip
  all_goals repeat (first
    | exact True.intro
    | exact noDigit_colon _
    | exact noDigit_rbracket _
    | exact headOK_colon _
    | exact headOK_int _ _
    | (refine chain_colon ?_)
    | (refine chain_rbracket ?_)
    | (refine chain_lbracket ?_ ?_)
    | (refine chain_int _ ?_ ?_))

/-- **the compact text of a slice is lexed into the grammar's slice tokens** -/
theorem lexAll_sliceText (s? e? : Option Int) (st? : Option (Option Int)) :
    lexAll (sliceText s? e? st?) = (sliceTokens s? e? st? ++ [endTok], none) := by
  obtain ⟨h1, h2⟩ := sliceTokens_chain s? e? st?
  rw [← h2]
  exact lexAll_chain _ h1

/-- `[-5::2]` -/
example : sliceText (some (-5)) none (some (some 2)) = [0x5B, 0x2D, 0x35, 0x3A, 0x3A, 0x32, 0x5D] := by decide
example : lexAll [0x5B, 0x2D, 0x35, 0x3A, 0x3A, 0x32, 0x5D] =
    ([tLBracket, decTok (-5), tColon, tColon, decTok 2, tRBracket, endTok], none) := by
  have h := lexAll_sliceText (some (-5)) none (some (some 2))
  rw [show sliceText (some (-5)) none (some (some 2)) = [0x5B, 0x2D, 0x35, 0x3A, 0x3A, 0x32, 0x5D] by decide] at h
  exact h

/-! ## Part 2. The parser on the slice tokens -/

open Jmes.GrammarF0 in
/-- a 64-bit integer -/
def I64 (i : Int) : Prop := MinInt ≤ i ∧ i ≤ MaxInt
def OptI64 : Option Int → Prop
  | none => True
  | some i => I64 i
def StepI64 : Option (Option Int) → Prop
  | some (some i) => I64 i
  | _ => True

/-- the step a slice text denotes: 1 when the third part or its number is absent -/
def stepOf : Option (Option Int) → Int
  | some (some c) => c
  | _ => 1

/-- the slice node in the encoding of `Properties/C12.lean` (`encStart`, `encStop`): `slice…` for step 1, else
    `sliceStep…`; `child = none` is the `…Current` form -/
def sliceNodeE (child : Option INode) (s? e? : Option Int) (step : Int) : INode :=
  if step = 1 then
    (match child with
     | none => .sliceCurrent (C12.encStart 1 s?) (C12.encStop 1 e?)
     | some l => .slice l (C12.encStart 1 s?) (C12.encStop 1 e?))
  else
    (match child with
     | none => .sliceStepCurrent (C12.encStart step s?) (C12.encStop step e?) step
     | some l => .sliceStep l (C12.encStart step s?) (C12.encStop step e?) step)

/-- the grammar's `sliceNode` is the C12 encoding -/
theorem sliceNode_eq_enc (child : Option INode) (s? e? c : Option Int) (h0 : c ≠ some 0) :
    sliceNode child s? e? c = sliceNodeE child s? e? (c.getD 1) := by
  have hstep : c.getD 1 ≠ 0 := by
    cases c with
    | none => decide
    | some v => intro h; exact h0 (by simpa using h)
  unfold sliceNode sliceNodeE
  generalize c.getD 1 = step at hstep
  have e1 : s?.getD (if step < 0 then maxInt else 0) = C12.encStart step s? := by
    cases s? with
    | some v => rfl
    | none =>
      simp only [Option.getD_none, C12.encStart]
      by_cases h : step < 0
      · rw [if_pos h, if_neg (by omega)]; rfl
      · rw [if_neg h, if_pos (by omega)]
  have e2 : e?.getD (if step < 0 then minInt else maxInt) = C12.encStop step e? := by
    cases e? with
    | some v => rfl
    | none =>
      simp only [Option.getD_none, C12.encStop]
      by_cases h : step < 0
      · rw [if_pos h, if_neg (by omega)]; rfl
      · rw [if_neg h, if_pos (by omega)]; rfl
  simp only [e1, e2]
  by_cases h1 : step = 1
  · subst h1; simp only [if_true]; rfl
  · simp only [h1, if_false]; rfl

/-- the parse tree of the slice text: `[a:b:c]` applied to the implicit current node, nothing after the bracket -/
def sliceTree (l : PTree) (s? e? : Option Int) (st? : Option (Option Int)) : PTree :=
  .slice l (s?.map decTok) (e?.map decTok) (st?.map (·.map decTok)) .icur

theorem sliceOK_dec (s? e? : Option Int) (st? : Option (Option Int)) (hs : OptI64 s?) (he : OptI64 e?)
    (hst : StepI64 st?) (h0 : st? ≠ some (some 0)) :
    sliceOK (s?.map decTok) (e?.map decTok) (st?.map (·.map decTok)) = true := by
  have a1 : optIntTok (s?.map decTok) = true := by
    cases s? with
    | none => rfl
    | some i => exact isIntTok_decTok i hs.1 hs.2
  have a2 : optIntTok (e?.map decTok) = true := by
    cases e? with
    | none => rfl
    | some i => exact isIntTok_decTok i he.1 he.2
  unfold sliceOK
  rw [a1, a2]
  rcases st? with _ | _ | c
  · rfl
  · rfl
  · have hc : I64 c := hst
    simp only [Option.map_some, Bool.true_and, isIntTok_decTok c hc.1 hc.2, intOf_decTok c hc.1 hc.2, bne_iff_ne, ne_eq,
      Option.some.injEq]
    intro h; exact h0 (by rw [h])

theorem bind_intOf_dec (o : Option Int) (h : OptI64 o) : (o.map decTok).bind intOf = o := by
  cases o with
  | none => rfl
  | some i => exact intOf_decTok i h.1 h.2

theorem bind_intOf_step (st? : Option (Option Int)) (h : StepI64 st?) :
    ((st?.map (·.map decTok)).bind fun s => s.bind intOf) = st?.bind id := by
  rcases st? with _ | _ | c
  · rfl
  · rfl
  · exact intOf_decTok c h.1 h.2

theorem stepOf_eq (st? : Option (Option Int)) : (st?.bind id).getD 1 = stepOf st? := by
  rcases st? with _ | _ | c <;> rfl

theorem step_ne (st? : Option (Option Int)) (h0 : st? ≠ some (some 0)) : st?.bind id ≠ some 0 := by
  rcases st? with _ | _ | c
  · intro h; cases h
  · intro h; cases h
  · intro h; apply h0; simp only [Option.bind_some, id, Option.some.injEq] at h; rw [h]

/-- **`[a:b:c]` compiles to the slice node in the C12 encoding**, for all optional 64-bit integers and a step other
    than 0 -/
theorem parse_sliceText (s? e? : Option Int) (st? : Option (Option Int)) (hs : OptI64 s?) (he : OptI64 e?)
    (hst : StepI64 st?) (h0 : st? ≠ some (some 0)) :
    Parser.parse (sliceText s? e? st?) = .ok (.projectArray (sliceNodeE none s? e? (stepOf st?)) .current) := by
  have hw : WellPrec (sliceTree .icur s? e? st?) := by
    show wp false (sliceTree .icur s? e? st?) = true
    simp only [sliceTree, wp, PTree.isIcur, if_true, sliceOK_dec s? e? st? hs he hst h0, Bool.true_and, Bool.true_or]
  have hf : Grammar.flatten (sliceTree .icur s? e? st?) = sliceTokens s? e? st? := by
    simp only [Grammar.flatten, sliceTree, flat, sliceTokens, List.nil_append, List.cons_append]
  have := C04G.parse_complete hw (e := sliceText s? e? st?) (by rw [hf]; exact lexAll_sliceText s? e? st?)
  rw [this]
  simp only [sliceTree, erase, optNode, PTree.isIcur, if_true, Option.getD_none, bind_intOf_dec s? hs,
    bind_intOf_dec e? he, bind_intOf_step st? hst, sliceNode_eq_enc none s? e? _ (step_ne st? h0), stepOf_eq]

/-- the prefixed form `name[a:b:c]` -/
theorem parse_field_sliceText {v : Bytes} (hv : Ident v) (h1 : v ≠ kwLet) (h2 : v ≠ kwIn)
    (s? e? : Option Int) (st? : Option (Option Int)) (hs : OptI64 s?) (he : OptI64 e?)
    (hst : StepI64 st?) (h0 : st? ≠ some (some 0)) :
    Parser.parse (v ++ sliceText s? e? st?) =
      .ok (.projectArray (sliceNodeE (some (.field v)) s? e? (stepOf st?)) .current) := by
  have hw : WellPrec (sliceTree (.atom ⟨.unquotedIdentifier, v⟩) s? e? st?) := by
    show wp false (sliceTree (.atom ⟨.unquotedIdentifier, v⟩) s? e? st?) = true
    simp only [sliceTree, wp, PTree.isIcur, sliceOK_dec s? e? st? hs he hst h0, Bool.true_and, Bool.true_or,
      Bool.false_eq_true, if_false, Bool.not_false, atomNode, Option.isSome_some, rlevel, lvlBracket, top,
      Bool.and_true]
    rfl
  have hf : Grammar.flatten (sliceTree (.atom ⟨.unquotedIdentifier, v⟩) s? e? st?) =
      ⟨.unquotedIdentifier, v⟩ :: sliceTokens s? e? st? := by
    simp only [Grammar.flatten, sliceTree, flat, sliceTokens, List.nil_append, List.cons_append]
  obtain ⟨c1, c2⟩ := sliceTokens_chain s? e? st?
  have hl : lexAll (v ++ sliceText s? e? st?) = (⟨.unquotedIdentifier, v⟩ :: sliceTokens s? e? st? ++ [endTok], none) := by
    have hc : LexChain (⟨.unquotedIdentifier, v⟩ :: sliceTokens s? e? st?) :=
      chain_ident hv h1 h2 c1 (by rw [c2]; exact noIdChar_lbracket _)
    have := lexAll_chain _ hc
    simp only [concatVals, c2] at this
    exact this
  have := C04G.parse_complete hw (e := v ++ sliceText s? e? st?) (by rw [hf]; exact hl)
  rw [this]
  simp only [sliceTree, erase, optNode, PTree.isIcur, if_true, Bool.false_eq_true, if_false, Option.getD_none,
    bind_intOf_dec s? hs, bind_intOf_dec e? he, bind_intOf_step st? hst,
    sliceNode_eq_enc _ s? e? _ (step_ne st? h0), stepOf_eq, atomNode, Option.getD_some]

/-! ### Step 0: the one slice error -/

open Jmes.GrammarF0 in
/-- `indexP` on `a? : b? : z ]` where `z` is an integer token of value 0 fails with `invalidSliceStep` -/
theorem indexP_slice_zero (child : Option INode) {a b : Option Token} {z : Token}
    (ha : optIntTok a = true) (hb : optIntTok b = true) (hz : z.type = .integerLiteral)
    (hz0 : parseInt64 z.value = some 0) (rest : List Token) :
    indexP child (stOf (sliceToks a b (some (some z)) ++ tRBracket :: rest)) = .error .invalidSliceStep := by
  rcases a with _ | a <;> rcases b with _ | b
  all_goals simp only [optIntTok, isIntTok_iff] at ha hb
  all_goals try obtain ⟨ha, ia, hia⟩ := ha
  all_goals try obtain ⟨hb, ib, hib⟩ := hb
  all_goals unfold indexP
  all_goals pm_eval_star [sliceToks, Option.toList, List.append_nil]

open Jmes.GrammarF0 in
theorem prim_slice_zero {F : Nat} {a b : Option Token} {z : Token}
    (ha : optIntTok a = true) (hb : optIntTok b = true) (hz : z.type = .integerLiteral)
    (hz0 : parseInt64 z.value = some 0) (rest : List Token) :
    primaryExpression (F + 1) (stOf (tLBracket :: (sliceToks a b (some (some z)) ++ tRBracket :: rest))) =
      .error .invalidSliceStep := by
  rw [primaryExpression.eq_2]
  have hh : ((stOf (sliceToks a b (some (some z)) ++ tRBracket :: rest)).curr.type == TokenType.integerLiteral ||
      (stOf (sliceToks a b (some (some z)) ++ tRBracket :: rest)).curr.type == TokenType.colon) = true := by
    cases a with
    | none => rfl
    | some a =>
      simp only [optIntTok, isIntTok_iff] at ha
      simp [sliceToks, ha.1]
  rw [bind_ok (get_run _)]
  simp only [stOf_curr, tLBracket_type]
  rw [bind_ok (advance_stOf _ _), bind_ok (currType_run _), if_pos hh,
    bind_err (indexP_slice_zero none ha hb hz hz0 rest)]

/-- **`[a:b:0]` is rejected with `invalidSliceStep`** -/
theorem parse_sliceText_zero (s? e? : Option Int) (hs : OptI64 s?) (he : OptI64 e?) :
    Parser.parse (sliceText s? e? (some (some 0))) = .error .invalidSliceStep := by
  have a1 : optIntTok (s?.map decTok) = true := by
    cases s? with
    | none => rfl
    | some i => exact isIntTok_decTok i hs.1 hs.2
  have a2 : optIntTok (e?.map decTok) = true := by
    cases e? with
    | none => rfl
    | some i => exact isIntTok_decTok i he.1 he.2
  rw [parse_of_lex (lexAll_sliceText s? e? (some (some 0)))]
  unfold runTop
  obtain ⟨F, hF⟩ : ∃ F, fuelFor (sliceTokens s? e? (some (some 0)) ++ [endTok]).length = F + 1 + 1 :=
    ⟨8 * (sliceTokens s? e? (some (some 0)) ++ [endTok]).length + 30, by unfold fuelFor; omega⟩
  rw [hF]
  have hp := prim_slice_zero (F := F) a1 a2 (z := decTok 0) rfl (intOf_decTok 0 (by decide) (by decide)) [endTok]
  have he' : expression (F + 1 + 1) 1 (stOf (sliceTokens s? e? (some (some 0)) ++ [endTok])) =
      .error .invalidSliceStep := by
    rw [expression_succ_run]
    have e : sliceTokens s? e? (some (some 0)) ++ [endTok] =
        tLBracket :: (sliceToks (s?.map decTok) (e?.map decTok) (some (some (decTok 0))) ++ tRBracket :: [endTok]) := by
      simp only [sliceTokens, Option.map_some, List.cons_append, List.append_assoc, List.nil_append]
    rw [e, hp]
  rw [bind_err he']

/-! ## Part 3. Every slice node of a parsed expression has 64-bit bounds and a non-zero 64-bit step

  The same `Post`-style induction over the fuel-indexed parser as `Proofs/ParserLits.lean`, for the predicate `argOk`.
  `indexP`, the only place where slice and index nodes are built, is treated through its functional mirror
  `GrammarS.startP` (`indexP_eq`), tracking the values read by `atoi`. -/

open Jmes.ParserLits

/-- a Go `int` -/
def inI (i : Int) : Bool := decide (MinInt ≤ i ∧ i ≤ MaxInt)

/-- the integers stored in a slice or index node are 64-bit; a stored step is neither 0 (rejected by the parser) nor 1
    (step 1 builds the two-argument slice node) -/
def argOk : INode → Bool
  | .slice _ a b => inI a && inI b
  | .sliceCurrent a b => inI a && inI b
  | .sliceStep _ a b s => inI a && inI b && inI s && s != 0 && s != 1
  | .sliceStepCurrent a b s => inI a && inI b && inI s && s != 0 && s != 1
  | .index _ i => inI i
  | .indexCurrent i => inI i
  | _ => true

abbrev SA (n : INode) : Prop := n.all argOk = true
abbrev SAL (ns : List INode) : Prop := INode.allL argOk ns = true
abbrev SAF (fs : List (Bytes × INode)) : Prop := INode.allF argOk fs = true
abbrev SAO (o : Option INode) : Prop := ∀ n, o = some n → SA n

theorem inI_iff (i : Int) : inI i = true ↔ MinInt ≤ i ∧ i ≤ MaxInt := by simp [inI]

theorem atoiP_ok : Post (fun i => inI i = true) GrammarS.atoiP := by
  unfold GrammarS.atoiP
  refine Post.bind (Post.any _) fun v _ => ?_
  split
  · rename_i i hi
    exact Post.pure ((inI_iff i).2 (C09.parseInt64_in_range _ _ hi))
  · exact Post.fail

theorem inI_max : inI indexP.MaxIntP = true := by decide
theorem inI_min : inI indexP.MinIntP = true := by decide
theorem inI_zero : inI 0 = true := by decide

/-- `mkSlice` of `indexP` -/
def mkSlice (child : Option INode) (a b : Int) : INode :=
  match child with
  | none => .sliceCurrent a b
  | some c => .slice c a b

theorem sliceNode_ok {child : Option INode} (hc : SAO child) {a b : Int} (ha : inI a = true) (hb : inI b = true) :
    SA (mkSlice child a b) := by
  unfold mkSlice
  cases child with
  | none => simp only [SA, INode.all, argOk, ha, hb, Bool.and_self]
  | some c =>
    have := hc c rfl
    simp only [SA, INode.all, argOk, ha, hb, Bool.and_self, Bool.true_and] at this ⊢
    exact this

theorem finishP_ok {child : Option INode} (hc : SAO child) {a b s : Int} (ha : inI a = true) (hb : inI b = true)
    (hs : inI s = true) (h0 : ¬ s = 0) : Post (fun p => SA p.1) (GrammarS.finishP child a b s) := by
  unfold GrammarS.finishP
  refine Post.bind (Post.any _) fun _ _ => ?_
  refine Post.ite (fun _ => Post.pure (sliceNode_ok hc ha hb)) (fun h1 => ?_)
  cases child with
  | none =>
    refine Post.pure ?_
    simp only [SA, INode.all, argOk, ha, hb, hs, Bool.and_self, Bool.true_and, Bool.and_eq_true, bne_iff_ne, ne_eq]
    exact ⟨h0, h1⟩
  | some c =>
    have := hc c rfl
    refine Post.pure ?_
    simp only [SA, INode.all, argOk, ha, hb, hs, Bool.and_self, Bool.true_and, Bool.and_eq_true, bne_iff_ne, ne_eq]
      at this ⊢
    exact ⟨⟨h0, h1⟩, this⟩

theorem stepP_ok {child : Option INode} (hc : SAO child) (hs he : Bool) {a b : Int} (ha : inI a = true)
    (hb : inI b = true) : Post (fun p => SA p.1) (GrammarS.stepP child hs he a b) := by
  unfold GrammarS.stepP
  refine Post.bind (Post.any _) fun _ _ => ?_
  refine Post.ite (fun _ => ?_) (fun _ => ?_)
  · refine Post.bind (Post.any _) fun _ _ => ?_
    refine Post.ite (fun _ => Post.fail_bind) (fun _ => ?_)
    refine Post.bind atoiP_ok fun step hstep => ?_
    refine Post.ite (fun _ => Post.fail_bind) (fun h0 => ?_)
    repeat (first
      | exact finishP_ok hc (by first | assumption | exact inI_max | exact inI_min)
          (by first | assumption | exact inI_max | exact inI_min) hstep h0
      | (refine Post.ite (fun _ => ?_) (fun _ => ?_)))
  · refine Post.bind (Post.any _) fun _ _ => ?_
    refine Post.ite (fun _ => ?_) (fun _ => Post.fail)
    refine Post.bind (Post.any _) fun _ _ => ?_
    exact Post.pure (sliceNode_ok hc ha hb)

theorem stopP_ok {child : Option INode} (hc : SAO child) (hs : Bool) {a : Int} (ha : inI a = true) :
    Post (fun p => SA p.1) (GrammarS.stopP child hs a) := by
  unfold GrammarS.stopP
  refine Post.bind (Post.any _) fun _ _ => ?_
  refine Post.ite (fun _ => ?_) (fun _ => ?_)
  · refine Post.bind atoiP_ok fun stop hstop => ?_
    refine Post.bind (Post.any _) fun _ _ => ?_
    refine Post.ite (fun _ => ?_) (fun _ => ?_)
    · refine Post.bind (Post.any _) fun _ _ => ?_
      exact Post.pure (sliceNode_ok hc ha hstop)
    · refine Post.ite (fun _ => ?_) (fun _ => Post.fail)
      refine Post.bind (Post.any _) fun _ _ => ?_
      exact stepP_ok hc _ _ ha hstop
  · refine Post.bind (Post.any _) fun _ _ => ?_
    refine Post.ite (fun _ => ?_) (fun _ => ?_)
    · refine Post.bind (Post.any _) fun _ _ => ?_
      exact Post.pure (sliceNode_ok hc ha inI_max)
    · refine Post.bind (Post.any _) fun _ _ => ?_
      refine Post.ite (fun _ => ?_) (fun _ => Post.fail)
      refine Post.bind (Post.any _) fun _ _ => ?_
      exact stepP_ok hc _ _ ha inI_max

theorem startP_ok {child : Option INode} (hc : SAO child) : Post (fun p => SA p.1) (GrammarS.startP child) := by
  unfold GrammarS.startP
  refine Post.bind (Post.any _) fun _ _ => ?_
  refine Post.ite (fun _ => ?_) (fun _ => ?_)
  · refine Post.bind atoiP_ok fun start hstart => ?_
    refine Post.bind (Post.any _) fun _ _ => ?_
    refine Post.ite (fun _ => ?_) (fun _ => ?_)
    · refine Post.bind (Post.any _) fun _ _ => ?_
      cases child with
      | none =>
        refine Post.ite (fun _ => ?_) (fun _ => ?_)
        · exact Post.pure rfl
        · refine Post.pure ?_
          simp only [SA, INode.all, argOk, hstart]
      | some c =>
        have := hc c rfl
        refine Post.pure ?_
        simp only [SA, INode.all, argOk, hstart, Bool.true_and] at this ⊢
        exact this
    · refine Post.ite (fun _ => ?_) (fun _ => Post.fail)
      refine Post.bind (Post.any _) fun _ _ => ?_
      exact stopP_ok hc _ hstart
  · refine Post.bind (Post.any _) fun _ _ => ?_
    refine Post.ite (fun _ => ?_) (fun _ => Post.fail)
    refine Post.bind (Post.any _) fun _ _ => ?_
    exact stopP_ok hc _ inI_zero

/-- `indexP` builds slice and index nodes from 64-bit integers only, with a step other than 0 and 1 -/
theorem sa_indexP_ok (child : Option INode) (h : SAO child) : Post (fun p => SA p.1) (indexP child) := by
  intro s a s' hs
  rw [GrammarS.indexP_eq] at hs
  exact startP_ok h s a s' hs

theorem SAL_snoc {acc : List INode} {a : INode} (h : SAL acc) (ha : SA a) : SAL (acc ++ [a]) := by
  induction acc with
  | nil => simp only [SAL, List.nil_append, INode.allL, Bool.and_eq_true]; exact ⟨ha, trivial⟩
  | cons x xs ih =>
    simp only [SAL, INode.allL, Bool.and_eq_true, List.cons_append] at h ⊢
    exact ⟨h.1, ih h.2⟩

theorem SAF_assocInsert {k : Bytes} {v : INode} (hv : SA v) : ∀ {fs : List (Bytes × INode)}, SAF fs →
    SAF (assocInsert k v fs)
  | [], _ => by simp only [SAF, assocInsert, INode.allF, Bool.and_eq_true]; exact ⟨hv, trivial⟩
  | (k', v') :: rest, h => by
    simp only [SAF, INode.allF, Bool.and_eq_true] at h
    simp only [assocInsert]
    split
    · simp only [SAF, INode.allF, Bool.and_eq_true]; exact ⟨hv, h.2⟩
    · split
      · simp only [SAF, INode.allF, Bool.and_eq_true]; exact ⟨hv, h.1, h.2⟩
      · simp only [SAF, INode.allF, Bool.and_eq_true]; exact ⟨h.1, SAF_assocInsert hv h.2⟩

def SaSpecOK : ArgSpec → Prop
  | .fixed _ _ mk => ∀ args, SAL args → SA (mk args)
  | .varArg mk => ∀ args, SAL args → SA (mk args)
  | .expArg mk => ∀ a b, SA a → SA b → SA (mk a b)
  | .mapArg mk => ∀ a b, SA a → SA b → SA (mk a b)

theorem SA_call (f : Fn) {args : List INode} (h : SAL args) : SA (.call f args) := by
  simp only [SA, INode.all, Bool.and_eq_true]; exact ⟨rfl, h⟩

theorem SA_node2 {mk : INode → INode → INode} (hmk : ∀ a b, (mk a b).all argOk =
    (argOk (mk a b) && a.all argOk && b.all argOk))
    (hh : ∀ a b, argOk (mk a b) = true) : ∀ a b, SA a → SA b → SA (mk a b) := by
  intro a b ha hb
  simp only [SA] at ha hb ⊢
  rw [hmk, hh, ha, hb]; rfl

theorem sa_builtin_ok : ∀ e ∈ builtinTable, SaSpecOK e.2 := by
  simp only [builtinTable, List.forall_mem_cons]
  repeat' apply And.intro
  all_goals first
    | (intro args h; exact SA_call _ h)
    | (intro args h; show SA (if _ then _ else _); split <;> exact SA_call _ h)
    | (intro args h; show SA (match _ with | 2 => _ | 3 => _ | _ => _); split <;> exact SA_call _ h)
    | (intro args h; simp only [SA, INode.all, Bool.and_eq_true]; exact ⟨rfl, h⟩)
    | (intro a b ha hb; simp only [SA, INode.all, Bool.and_eq_true]; exact ⟨⟨rfl, ha⟩, hb⟩)
    | (intro a b ha hb; simp only [SA, INode.all, Bool.and_eq_true]; exact ⟨⟨rfl, hb⟩, ha⟩)
    | (intro x hx; cases hx)

theorem sa_lookupBuiltin_ok {name : Bytes} {spec : ArgSpec} (h : lookupBuiltin name = some spec) : SaSpecOK spec := by
  simp only [lookupBuiltin, Option.map_eq_some_iff] at h
  obtain ⟨e, he, rfl⟩ := h
  exact sa_builtin_ok e (List.mem_of_find?_eq_some he)

structure SIH (fuel : Nat) : Prop where
  expression : ∀ prec, Post SA (expression fuel prec)
  exprLoop : ∀ node prec, SA node → Post SA (exprLoop fuel node prec)
  filterP : Post SA (filterP fuel)
  fnArgs : ∀ mn mx acc, SAL acc → Post SAL (fnArgs fuel mn mx acc)
  fnVarArgs : ∀ acc, SAL acc → Post SAL (fnVarArgs fuel acc)
  function : Post SA (function fuel)
  letP : ∀ vars, SAF vars → Post SA (letP fuel vars)
  primaryExpression : Post SA (primaryExpression fuel)
  projection : ∀ prec, Post SAO (projection fuel prec)
  selectArray : ∀ child, SAO child → Post SA (selectArray fuel child)
  selectArrayLoop : ∀ child fields, SAO child → SAL fields → Post SA (selectArrayLoop fuel child fields)
  selectObject : ∀ child, SAO child → Post SA (selectObject fuel child)
  selectObjectLoop : ∀ child fields, SAO child → SAF fields → Post SA (selectObjectLoop fuel child fields)

theorem SAO_none : SAO none := fun _ h => by cases h
theorem SAO_some {n : INode} (h : SA n) : SAO (some n) := fun _ e => by cases e; exact h

theorem sa_all_getD {o : Option INode} (h : ∀ n, o = some n → INode.all argOk n = true) :
    INode.all argOk (o.getD .current) = true := by
  cases o with
  | none => rfl
  | some n => exact h n rfl

theorem sa_allL_snoc (p : INode → Bool) (xs : List INode) (a : INode) :
    INode.allL p (xs ++ [a]) = (INode.allL p xs && a.all p) := by
  induction xs with
  | nil => simp [INode.allL]
  | cons x xs ih => simp only [List.cons_append, INode.allL, ih, Bool.and_assoc]

theorem sa_allF_assocInsert {k : Bytes} {v : INode} {fs : List (Bytes × INode)}
    (hv : v.all argOk = true) (h : INode.allF argOk fs = true) :
    INode.allF argOk (assocInsert k v fs) = true :=
  SAF_assocInsert hv h

/-- close a `SA`/`SAL`/`SAF`/`SAO` goal from the hypotheses in scope -/
macro "sa_close" : tactic => `(tactic| first
  | assumption
  | exact SAO_none
  | exact SAO_some (by assumption)
  | rfl
  | (simp_all [SA, SAL, SAF, SAO, INode.all, INode.allL, INode.allF, argOk, sa_all_getD, sa_allL_snoc, sa_allF_assocInsert]; done)
  | (split <;> simp_all [SA, SAL, SAF, SAO, INode.all, INode.allL, INode.allF, argOk, sa_all_getD, sa_allL_snoc, sa_allF_assocInsert]; done))

theorem sa_fixed_ok {name : Bytes} {mn mx : Nat} {mk : List INode → INode}
    (h : lookupBuiltin name = some (.fixed mn mx mk)) {args : List INode} (ha : SAL args) : SA (mk args) :=
  sa_lookupBuiltin_ok h args ha
theorem sa_varArg_ok {name : Bytes} {mk : List INode → INode}
    (h : lookupBuiltin name = some (.varArg mk)) {args : List INode} (ha : SAL args) : SA (mk args) :=
  sa_lookupBuiltin_ok h args ha
theorem sa_expArg_ok {name : Bytes} {mk : INode → INode → INode}
    (h : lookupBuiltin name = some (.expArg mk)) {a b : INode} (ha : SA a) (hb : SA b) : SA (mk a b) :=
  sa_lookupBuiltin_ok h a b ha hb
theorem sa_mapArg_ok {name : Bytes} {mk : INode → INode → INode}
    (h : lookupBuiltin name = some (.mapArg mk)) {a b : INode} (ha : SA a) (hb : SA b) : SA (mk a b) :=
  sa_lookupBuiltin_ok h a b ha hb

macro "sa_auto" ih:ident : tactic => `(tactic| repeat' (first
  | exact Post.fail
  | exact Post.fail_bind
  | (refine Post.bind (SIH.expression $ih _) fun _ _ => ?_)
  | (refine Post.bind (SIH.projection $ih _) fun _ _ => ?_)
  | (refine Post.bind (SIH.filterP $ih) fun _ _ => ?_)
  | (refine Post.bind (SIH.primaryExpression $ih) fun _ _ => ?_)
  | (refine Post.bind (SIH.exprLoop $ih _ _ (by sa_close)) fun _ _ => ?_)
  | (refine Post.bind (SIH.selectObject $ih _ (by sa_close)) fun _ _ => ?_)
  | (refine Post.bind (SIH.selectArray $ih _ (by sa_close)) fun _ _ => ?_)
  | (refine Post.bind (SIH.fnArgs $ih _ _ _ rfl) fun _ _ => ?_)
  | (refine Post.bind (SIH.fnVarArgs $ih _ rfl) fun _ _ => ?_)
  | (refine Post.bind (sa_indexP_ok _ (by sa_close)) fun _ _ => ?_)
  | exact SIH.expression $ih _
  | exact SIH.function $ih
  | exact SIH.exprLoop $ih _ _ (by sa_close)
  | exact SIH.selectObject $ih _ (by sa_close)
  | exact SIH.selectArray $ih _ (by sa_close)
  | exact SIH.letP $ih _ (by sa_close)
  | exact SIH.letP $ih _ (SAF_assocInsert (by assumption) (by assumption))
  | exact SIH.fnArgs $ih _ _ _ (SAL_snoc (by assumption) (by assumption))
  | exact SIH.fnVarArgs $ih _ (SAL_snoc (by assumption) (by assumption))
  | exact SIH.selectArrayLoop $ih _ _ (by assumption) (by sa_close)
  | exact SIH.selectArrayLoop $ih _ _ (by assumption) (SAL_snoc (by assumption) (by assumption))
  | exact SIH.selectObjectLoop $ih _ _ (by assumption) (by sa_close)
  | exact SIH.selectObjectLoop $ih _ _ (by assumption) (SAF_assocInsert (by assumption) (by assumption))
  | exact Post.pure (SAL_snoc (by assumption) (by assumption))
  | exact Post.pure (sa_fixed_ok (by assumption) (by assumption))
  | exact Post.pure (sa_varArg_ok (by assumption) (by assumption))
  | exact Post.pure (sa_expArg_ok (by assumption) (by assumption) (by assumption))
  | exact Post.pure (sa_mapArg_ok (by assumption) (by assumption) (by assumption))
  | (refine Post.bind (Post.any _) fun _ _ => ?_)
  | (refine Post.ite (fun _ => ?_) (fun _ => ?_))
  | split
  | (refine Post.pure ?_; sa_close)))

theorem sa_step_expression {fuel : Nat} (ih : SIH fuel) (prec : Nat) : Post SA (expression (fuel+1) prec) := by
  simp only [expression]
  sa_auto ih

theorem sa_step_exprLoop {fuel : Nat} (ih : SIH fuel) (node : INode) (prec : Nat) (hn : SA node) : Post SA (exprLoop (fuel+1) node prec) := by
  simp only [exprLoop]
  sa_auto ih

theorem sa_step_filterP {fuel : Nat} (ih : SIH fuel)  : Post SA (filterP (fuel+1)) := by
  simp only [filterP]
  sa_auto ih

theorem sa_step_fnArgs {fuel : Nat} (ih : SIH fuel) (mn mx : Nat) (acc : List INode) (ha : SAL acc) : Post SAL (fnArgs (fuel+1) mn mx acc) := by
  simp only [fnArgs]
  sa_auto ih

theorem sa_step_fnVarArgs {fuel : Nat} (ih : SIH fuel) (acc : List INode) (ha : SAL acc) : Post SAL (fnVarArgs (fuel+1) acc) := by
  simp only [fnVarArgs]
  sa_auto ih

theorem sa_step_function {fuel : Nat} (ih : SIH fuel)  : Post SA (function (fuel+1)) := by
  simp only [function]
  sa_auto ih

theorem sa_step_letP {fuel : Nat} (ih : SIH fuel) (vars : List (Bytes × INode)) (hv : SAF vars) : Post SA (letP (fuel+1) vars) := by
  simp only [letP]
  sa_auto ih

theorem sa_step_primaryExpression {fuel : Nat} (ih : SIH fuel)  : Post SA (primaryExpression (fuel+1)) := by
  simp only [primaryExpression]
  refine Post.bind (Post.any _) fun _ _ => ?_
  split <;> sa_auto ih

theorem sa_step_projection {fuel : Nat} (ih : SIH fuel) (prec : Nat) : Post SAO (projection (fuel+1) prec) := by
  simp only [projection]
  sa_auto ih

theorem sa_step_selectArray {fuel : Nat} (ih : SIH fuel) (child : Option INode) (hc : SAO child) : Post SA (selectArray (fuel+1) child) := by
  simp only [selectArray]
  sa_auto ih

theorem sa_step_selectArrayLoop {fuel : Nat} (ih : SIH fuel) (child : Option INode) (fields : List INode) (hc : SAO child) (hf : SAL fields) : Post SA (selectArrayLoop (fuel+1) child fields) := by
  simp only [selectArrayLoop]
  sa_auto ih

theorem sa_step_selectObject {fuel : Nat} (ih : SIH fuel) (child : Option INode) (hc : SAO child) : Post SA (selectObject (fuel+1) child) := by
  simp only [selectObject]
  sa_auto ih

theorem sa_step_selectObjectLoop {fuel : Nat} (ih : SIH fuel) (child : Option INode) (fields : List (Bytes × INode)) (hc : SAO child) (hf : SAF fields) : Post SA (selectObjectLoop (fuel+1) child fields) := by
  simp only [selectObjectLoop]
  sa_auto ih

theorem sih : ∀ fuel, SIH fuel
  | 0 => by
    constructor <;> intros <;>
      simp only [expression, exprLoop, filterP, fnArgs, fnVarArgs, function, letP, primaryExpression, projection,
        selectArray, selectArrayLoop, selectObject, selectObjectLoop] <;> exact Post.fail
  | fuel + 1 =>
    have ih := sih fuel
    ⟨sa_step_expression ih, sa_step_exprLoop ih, sa_step_filterP ih, sa_step_fnArgs ih, sa_step_fnVarArgs ih, sa_step_function ih,
      sa_step_letP ih, sa_step_primaryExpression ih, sa_step_projection ih, sa_step_selectArray ih, sa_step_selectArrayLoop ih,
      sa_step_selectObject ih, sa_step_selectObjectLoop ih⟩

/-- **every literal of a parsed expression is plain** -/
theorem parse_argsOk {expr : Bytes} {n : INode} (h : Parser.parse expr = .ok n) : SA n := by
  unfold Parser.parse at h
  simp only [] at h
  split at h
  · cases h
  · next st _ =>
    split at h
    · next n' s' hr =>
      cases h
      have hp : Post SA (do
          let node ← expression (fuelFor (lexAll expr).1.length) 1
          if (← currType) != .end then Parser.fail .unexpectedToken
          return node : PM INode) := by
        refine Post.bind ((sih _).expression _) fun node hn => ?_
        refine Post.bind (Post.any _) fun _ _ => ?_
        refine Post.ite (fun _ => ?_) (fun _ => ?_)
        · exact Post.fail_bind
        · exact Post.pure hn
      exact hp st n s' hr
    · cases h


/-- `INode.all` is monotone in the predicate (from `INode.all_and`) -/
theorem all_mono {p q : INode → Bool} (h : ∀ m, p m = true → q m = true) (n : INode) (hn : n.all p = true) :
    n.all q = true := by
  have e : p = fun m => p m && q m := by
    funext m
    cases hp : p m
    · rfl
    · rw [h m hp]; rfl
  rw [e, INode.all_and, Bool.and_eq_true] at hn
  exact hn.2

/-! ### examples (non-vacuity of Part 3) -/

example : argOk (.sliceStepCurrent 0 MaxInt 0) = false := by decide
example : argOk (.sliceStepCurrent 0 MaxInt (-2)) = true := by decide
example : argOk (.sliceCurrent 0 (MaxInt + 1)) = false := by decide
/-- the post-condition of `indexP` is not trivially true: it fails for a node with step 0 -/
example : ¬ SA (.projectArray (.sliceStepCurrent 0 MaxInt 0) .current) := by decide
/-- `foo[::2].bar[1:]` parses, so its slice nodes are fine -/
example : ∀ n, Parser.parse [0x66, 0x6F, 0x6F, 0x5B, 0x3A, 0x3A, 0x32, 0x5D, 0x2E, 0x62, 0x61, 0x72, 0x5B, 0x31, 0x3A, 0x5D]
    = .ok n → SA n := fun _ h => parse_argsOk h
example : (match Parser.parse
    [0x66, 0x6F, 0x6F, 0x5B, 0x3A, 0x3A, 0x32, 0x5D, 0x2E, 0x62, 0x61, 0x72, 0x5B, 0x31, 0x3A, 0x5D] with
    | .ok (.projectArray (.sliceStep (.field _) a _ c) (.projectArray (.slice (.field _) d _) .current))
      => a == 0 && c == 2 && d == 1
    | _ => false) = true := by decide +kernel
/-- `Post`-lemmas on an instance: `atoiP` on a state whose current token is `12` -/
example : GrammarS.atoiP (stOf [⟨.integerLiteral, [0x31, 0x32]⟩]) = .ok (12, stOf [⟨.integerLiteral, [0x31, 0x32]⟩]) := by
  rfl

end Jmes.C12BL

#print axioms Jmes.C12BL.parseInt64_intToBytes
#print axioms Jmes.C12BL.lexAll_sliceText
#print axioms Jmes.C12BL.parse_sliceText
#print axioms Jmes.C12BL.parse_field_sliceText
#print axioms Jmes.C12BL.parse_sliceText_zero
#print axioms Jmes.C12BL.sliceNode_eq_enc
#print axioms Jmes.C12BL.parse_argsOk
