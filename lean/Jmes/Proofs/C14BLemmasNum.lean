/-
  Helper lemmas for property C14 (second round): numbers.  The unary decimal functions respect the value, the
  numeric helpers of the evaluator map related numbers to related outcomes.
-/
import Jmes.Proofs.C14BLemmasKey
namespace Jmes

/-! ## `Dec`: negation, absolute value, ceil, floor are functions of the value -/
namespace Dec

theorem neg_cmp {d d' : Dec} (h : cmp d d' = some 0) : cmp d.neg d'.neg = some 0 := by
  cases d with
  | nan => simp [cmp_nan_left] at h
  | inf n => cases d' with
    | nan => simp [cmp] at h
    | inf m => cases n <;> cases m <;> simp [cmp, neg] at h ⊢
    | fin m c e => cases n <;> simp [cmp] at h
  | fin n c e => cases d' with
    | nan => simp [cmp] at h
    | inf m => cases m <;> simp [cmp] at h
    | fin n' c' e' =>
      simp only [cmp, Option.some.injEq, neg] at h ⊢
      exact cmpFin_neg h

theorem abs_cmp {d d' : Dec} (h : cmp d d' = some 0) : cmp d.abs d'.abs = some 0 := by
  cases d with
  | nan => simp [cmp_nan_left] at h
  | inf n => cases d' with
    | nan => simp [cmp] at h
    | inf m => simp [cmp, abs]
    | fin m c e => cases n <;> simp [cmp] at h
  | fin n c e => cases d' with
    | nan => simp [cmp] at h
    | inf m => cases m <;> simp [cmp] at h
    | fin n' c' e' =>
      simp only [cmp, Option.some.injEq, abs] at h ⊢
      have := cmpFin_abs_eq h (min e e') (by omega) (by omega)
      rw [cmpFin_eq_zero_iff]
      simp only [sval, pow10, this]

theorem isZero_cmp {d d' : Dec} (h : cmp d d' = some 0) : d.isZero = d'.isZero := by
  cases d with
  | nan => simp [cmp_nan_left] at h
  | inf n => cases d' with
    | nan => simp [cmp] at h
    | inf m => rfl
    | fin m c e => cases n <;> simp [cmp] at h
  | fin n c e => cases d' with
    | nan => simp [cmp] at h
    | inf m => cases m <;> simp [cmp] at h
    | fin n' c' e' =>
      simp only [cmp, Option.some.injEq] at h
      have := cmpFin_coeff_zero h
      by_cases hc : c = 0
      · have hc' := this.mp hc
        subst hc; subst hc'; rfl
      · have hc' : c' ≠ 0 := fun h' => hc (this.mpr h')
        cases c with
        | zero => exact absurd rfl hc
        | succ c => cases c' with
          | zero => exact absurd rfl hc'
          | succ c' => rfl

theorem neg_bounded {d : Dec} (h : d.Bounded) : d.neg.Bounded := by cases d <;> exact h
theorem abs_bounded {d : Dec} (h : d.Bounded) : d.abs.Bounded := by cases d <;> exact h

/-- `ceil` (`b = false`) and `floor` (`b = true`): round to an integer, away from zero when the sign is `b` -/
def rint (b : Bool) : Dec → Dec
  | .fin n c e =>
    if c = 0 then .fin n 0 0
    else if e ≥ 0 then normalize (.fin n c e)
    else
      if c % pow10 (-e).toNat = 0 then normalize (.fin n (c / pow10 (-e).toNat) 0)
      else if n = b then normalize (.fin n (c / pow10 (-e).toNat + 1) 0)
      else normalize (.fin n (c / pow10 (-e).toNat) 0)
  | d => d

theorem ceil_eq_rint (d : Dec) : d.ceil = rint false d := by
  cases d with
  | fin n c e =>
    simp only [ceil, rint]
    split
    · rfl
    · split
      · rfl
      · cases n <;> simp
  | _ => rfl

theorem floor_eq_rint (d : Dec) : d.floor = rint true d := by
  cases d with
  | fin n c e => simp only [floor, rint]
  | _ => rfl

theorem normalize_fin_ne_nan (n : Bool) (c : Nat) (e : Int) : normalize (.fin n c e) ≠ .nan := by
  by_cases hc : c = 0
  · subst hc; rw [normalize_zero]; simp
  · obtain ⟨c', k, h1, _, _⟩ := normalize_spec n c e hc
    rw [h1]; simp

theorem reduce_ne_nan (n : Bool) (c : Nat) (e : Int) (st : Bool) : reduce n c e st ≠ .nan := by
  rw [reduce_eq]
  by_cases h : c = 0 ∧ ¬ st
  · rw [if_pos h]; simp
  · rw [if_neg h]
    generalize (if (reduceLow (dropHigh (Nat.log2 (c + 1) + 2) c e 0 st)).2.1 < EMIN then (0, EMIN, 0, true)
        else reduceLow (dropHigh (Nat.log2 (c + 1) + 2) c e 0 st)) = r3
    unfold reduceTail
    split
    · simp
    · exact normalize_fin_ne_nan _ _ _

theorem parseFinish_ne_nan (s : PState) (n : Bool) {r : Dec} (h : parseFinish s n = .ok r) : r ≠ .nan := by
  unfold parseFinish at h
  split at h
  · cases h
  · split at h
    · cases h; simp
    · split at h
      · split at h
        · cases h; simp
        · cases h
      · simp only [] at h
        generalize ((if s.eneg = true then -(s.exp : Int) else (s.exp : Int)) - s.nfrac) = e at h
        split at h
        · cases h
        · split at h
          · cases h; simp
          · split at h
            · cases h
            · cases h; exact reduce_ne_nan _ _ _ _

theorem parseNumber_ne_nan {d : Bytes} {n s : Bool} {r : Dec} (h : parseNumber d n s = .ok r) : r ≠ .nan := by
  rw [parseNumber_eq] at h
  split at h
  · cases h
  · exact parseFinish_ne_nan _ _ h

theorem unmarshalJSON_ne_nan {s : Bytes} {r : Dec} (h : unmarshalJSON s = some r) : r ≠ .nan := by
  unfold unmarshalJSON at h
  split at h
  · cases h; simp
  · split at h
    · cases h; simp
    · simp only at h
      split at h
      · next hp => cases h; exact parseNumber_ne_nan hp
      · cases h

/-- value of `rint`: with `V = c·10^(e-m)` and `P = 10^(-m)` for any `m ≤ min e 0` -/
theorem rint_value (b n : Bool) (c : Nat) (e : Int) (hc : c ≠ 0) (m : Int) (hme : m ≤ e) (hm0 : m ≤ 0) :
    cmp (rint b (.fin n c e))
      (.fin n (c * 10 ^ (e - m).toNat / 10 ^ (-m).toNat +
        (if c * 10 ^ (e - m).toNat % 10 ^ (-m).toNat ≠ 0 ∧ n = b then 1 else 0)) 0) = some 0 := by
  have hP : 0 < 10 ^ (-m).toNat := Nat.pow_pos (by decide)
  simp only [rint, hc, if_false]
  by_cases he : e ≥ 0
  · simp only [he, if_true]
    have hsplit : (e - m).toNat = e.toNat + (-m).toNat := by omega
    have hV : c * 10 ^ (e - m).toNat = c * 10 ^ e.toNat * 10 ^ (-m).toNat := by
      rw [hsplit, Nat.pow_add, Nat.mul_assoc]
    rw [hV, Nat.mul_div_cancel _ hP, Nat.mul_mod_left]
    simp only [ne_eq, not_true_eq_false, false_and, if_false, Nat.add_zero]
    refine cmp_zero_trans (cmp_normalize ..) ?_
    simp only [cmp, Option.some.injEq]
    rw [cmpFin_eq_zero_iff_value _ _ _ _ _ _ 0 he (by omega)]
    simp [sval, pow10]
  · simp only [he, if_false, pow10]
    have hsplit : (-m).toNat = (-e).toNat + (e - m).toNat := by omega
    have hT : 0 < 10 ^ (e - m).toNat := Nat.pow_pos (by decide)
    have hPe : 10 ^ (-m).toNat = 10 ^ (-e).toNat * 10 ^ (e - m).toNat := by rw [hsplit, Nat.pow_add]
    have hq : c * 10 ^ (e - m).toNat / 10 ^ (-m).toNat = c / 10 ^ (-e).toNat := by
      rw [hPe, Nat.mul_div_mul_right _ _ hT]
    have hr : c * 10 ^ (e - m).toNat % 10 ^ (-m).toNat = c % 10 ^ (-e).toNat * 10 ^ (e - m).toNat := by
      rw [hPe, Nat.mul_mod_mul_right]
    rw [hq, hr]
    by_cases hr0 : c % 10 ^ (-e).toNat = 0
    · simp only [hr0, if_true, Nat.zero_mul, ne_eq, not_true_eq_false, false_and, if_false, Nat.add_zero]
      exact cmp_normalize ..
    · have hne : c % 10 ^ (-e).toNat * 10 ^ (e - m).toNat ≠ 0 := by
        intro h0
        rcases Nat.mul_eq_zero.mp h0 with h0 | h0
        · exact hr0 h0
        · omega
      simp only [hr0, if_false, ne_eq, hne, not_false_eq_true, true_and]
      by_cases hnb : n = b
      · simp only [hnb, if_true]; exact cmp_normalize ..
      · simp only [hnb, if_false, Nat.add_zero]; exact cmp_normalize ..

theorem rint_cmp (b : Bool) {d d' : Dec} (h : cmp d d' = some 0) : cmp (rint b d) (rint b d') = some 0 := by
  cases d with
  | nan => simp [cmp_nan_left] at h
  | inf n =>
    have := isSpecial_of_cmp_zero_left h rfl
    subst this; exact h
  | fin n c e =>
    obtain ⟨n', c', e', rfl⟩ := fin_of_cmp_zero_fin h
    simp only [cmp, Option.some.injEq] at h
    have hz := cmpFin_coeff_zero h
    by_cases hc : c = 0
    · have hc' := hz.mp hc
      subst hc; subst hc'
      simp only [rint, if_true]; exact cmp_zero_zero ..
    · have hc' : c' ≠ 0 := fun h' => hc (hz.mpr h')
      have hn := cmpFin_sign_eq h hc
      subst hn
      have hV := cmpFin_abs_eq h (min (min e e') 0) (by omega) (by omega)
      have h1 := rint_value b n c e hc (min (min e e') 0) (by omega) (by omega)
      have h2 := rint_value b n c' e' hc' (min (min e e') 0) (by omega) (by omega)
      rw [hV] at h1
      exact cmp_zero_trans h1 (cmp_zero_symm h2)

theorem rint_bounded (b : Bool) {d : Dec} (h : d.Bounded) : (rint b d).Bounded := by
  cases d with
  | nan => exact h
  | inf n => exact h
  | fin n c e =>
    simp only [rint]
    split
    · simp [Bounded]
    · next hc =>
      simp only [Bounded] at h
      have hq : c / pow10 (-e).toNat ≤ c := Nat.div_le_self _ _
      split
      · exact normalize_bounded h
      · next he =>
        have hp : 1 < pow10 (-e).toNat := by
          unfold pow10
          have : 0 < (-e).toNat := by omega
          calc 1 = 10 ^ 0 := rfl
            _ < 10 ^ (-e).toNat := Nat.pow_lt_pow_right (by decide) this
        have hq1 : c / pow10 (-e).toNat + 1 ≤ c := Nat.div_lt_self (Nat.pos_of_ne_zero hc) hp
        split
        · exact normalize_bounded (d := .fin n _ 0) (by simp only [Bounded]; omega)
        · split
          · exact normalize_bounded (d := .fin n _ 0) (by simp only [Bounded]; omega)
          · exact normalize_bounded (d := .fin n _ 0) (by simp only [Bounded]; omega)

theorem ceil_cmp {d d' : Dec} (h : cmp d d' = some 0) : cmp d.ceil d'.ceil = some 0 := by
  rw [ceil_eq_rint, ceil_eq_rint]; exact rint_cmp false h
theorem floor_cmp {d d' : Dec} (h : cmp d d' = some 0) : cmp d.floor d'.floor = some 0 := by
  rw [floor_eq_rint, floor_eq_rint]; exact rint_cmp true h
theorem ceil_bounded {d : Dec} (h : d.Bounded) : d.ceil.Bounded := by rw [ceil_eq_rint]; exact rint_bounded false h
theorem floor_bounded {d : Dec} (h : d.Bounded) : d.floor.Bounded := by rw [floor_eq_rint]; exact rint_bounded true h

end Dec

namespace C14B
open C14

section
variable {nf : Bool}

/-! ## related numbers -/

/-- what `NR` says in terms of the decimals -/
theorem NR.dec {a b : Num} (h : NR nf a b) :
    ∃ da db, toDecimal (.num a) = some da ∧ toDecimal (.num b) = some db ∧ Dec.cmp da db = some 0 ∧
      ((da.Bounded ∧ db.Bounded) ∨ a = b) := by
  obtain ⟨⟨da, db, h1, h2, h3⟩, h4, _⟩ := h
  refine ⟨da, db, h1, h2, h3, ?_⟩
  rcases h4 with ⟨oa, ob⟩ | e
  · exact .inl ⟨toDecimal_bounded oa.good h1, toDecimal_bounded ob.good h2⟩
  · exact .inr e

theorem nr_dec {d d' : Dec} (h : Dec.cmp d d' = some 0) (hb : (d.Bounded ∧ d'.Bounded) ∨ d = d') :
    NR nf (.dec d) (.dec d') := by
  refine ⟨⟨d, d', rfl, rfl, h⟩, ?_, fun _ => ⟨trivial, trivial⟩⟩
  rcases hb with ⟨b1, b2⟩ | e
  · exact .inl ⟨b1, b2⟩
  · exact .inr (by rw [e])

theorem vr_dec {d d' : Dec} (h : Dec.cmp d d' = some 0) (hb : (d.Bounded ∧ d'.Bounded) ∨ d = d') :
    VR nf (.num (.dec d)) (.num (.dec d')) := by
  simp only [VR]; exact nr_dec h hb

/-- the result of a unary decimal function that respects value and boundedness -/
theorem nr_unary (op : Dec → Dec) (hc : ∀ {d d'}, Dec.cmp d d' = some 0 → Dec.cmp (op d) (op d') = some 0)
    (hb : ∀ {d}, d.Bounded → (op d).Bounded) {a b : Num} {da db : Dec} (h : NR nf a b)
    (h1 : toDecimal (.num a) = some da) (h2 : toDecimal (.num b) = some db) : NR nf (.dec (op da)) (.dec (op db)) := by
  obtain ⟨da', db', e1, e2, h3, h4⟩ := h.dec
  rw [h1] at e1; rw [h2] at e2; cases e1; cases e2
  refine nr_dec (hc h3) ?_
  rcases h4 with ⟨b1, b2⟩ | e
  · exact .inl ⟨hb b1, hb b2⟩
  · subst e; rw [h1] at h2; cases h2; exact .inr rfl

theorem toFloat_none_of_nr {a b : Num} (h : NR true a b) : toFloat (.num a) = none ∧ toFloat (.num b) = none := by
  obtain ⟨_, _, h3⟩ := h
  obtain ⟨ha, hb⟩ := h3 rfl
  exact ⟨toFloat_none (x := .num a) (by simpa [Val.NoFloat] using ha), toFloat_none (x := .num b) (by simpa [Val.NoFloat] using hb)⟩

mutual
theorem noFloat_of_vr : ∀ (x y : Val), VR true x y → x.NoFloat ∧ y.NoFloat
  | .null, y, h => by cases y <;> simp_all [VR]
  | .bool _, y, h => by cases y <;> simp_all [VR]
  | .str _, y, h => by cases y <;> simp_all [VR]
  | .foreign _, y, h => by cases y <;> simp_all [VR]
  | .num a, y, h => by
    cases y <;> simp only [VR] at h
    simpa [Val.NoFloat] using h.2.2 rfl
  | .arr t xs, y, h => by
    cases y <;> simp only [VR] at h
    simpa [Val.NoFloat] using noFloatL_of_vrl xs _ h.2
  | .obj kvs, y, h => by
    cases y <;> simp only [VR] at h
    simpa [Val.NoFloat] using noFloatF_of_vrf kvs _ h
theorem noFloatL_of_vrl : ∀ (xs ys : List Val), VRL true xs ys → Val.NoFloatL xs ∧ Val.NoFloatL ys
  | [], ys, h => by cases ys <;> simp_all [VRL, Val.NoFloatL]
  | x :: xs, ys, h => by
    cases ys <;> simp only [VRL] at h
    have h1 := noFloat_of_vr x _ h.1
    have h2 := noFloatL_of_vrl xs _ h.2
    simp only [Val.NoFloatL]; exact ⟨⟨h1.1, h2.1⟩, h1.2, h2.2⟩
theorem noFloatF_of_vrf : ∀ (xs ys : List (Bytes × Val)), VRF true xs ys → Val.NoFloatF xs ∧ Val.NoFloatF ys
  | [], ys, h => by cases ys <;> simp_all [VRF, Val.NoFloatF]
  | (k, x) :: xs, ys, h => by
    cases ys with
    | nil => simp only [VRF] at h
    | cons p ys =>
      obtain ⟨l, y⟩ := p
      simp only [VRF] at h
      have h1 := noFloat_of_vr x _ h.2.1
      have h2 := noFloatF_of_vrf xs _ h.2.2
      simp only [Val.NoFloatF]; exact ⟨⟨h1.1, h2.1⟩, h1.2, h2.2⟩
end

theorem toFloat_none_of_vr {x y : Val} (h : VR true x y) : toFloat x = none ∧ toFloat y = none :=
  ⟨toFloat_none (noFloat_of_vr x y h).1, toFloat_none (noFloat_of_vr x y h).2⟩

theorem toDecimal_vr {x x' : Val} (h : VR nf x x') :
    (toDecimal x = none ∧ toDecimal x' = none) ∨
    ∃ d d', toDecimal x = some d ∧ toDecimal x' = some d' ∧ Dec.cmp d d' = some 0 :=
  toDecimal_equiv (vr_equiv _ _ h)

/-! ## integer and string arguments -/

theorem toInt_nr {a b : Num} (h : NR nf a b) : toInt (.num a) = toInt (.num b) := by
  rcases h.2.1 with ⟨oa, ob⟩ | e
  · exact toInt_sameValue oa.good ob.good h.1
  · rw [e]

theorem toInt_vr {x x' : Val} (h : VR nf x x') : toInt x = toInt x' := by
  cases x <;> cases x' <;> simp only [VR] at h <;> try rfl
  exact toInt_nr h

theorem intArg_vr {x x' : Val} (h : VR nf x x') : intArg x = intArg x' := by
  unfold intArg
  rw [toInt_vr h]
  rcases toDecimal_vr h with ⟨e1, e2⟩ | ⟨d, d', e1, e2, _⟩ <;> simp only [e1, e2]

theorem strArg_vr {x x' : Val} (h : VR nf x x') : strArg x = strArg x' := by
  cases x <;> cases x' <;> simp only [VR] at h <;> try rfl
  rw [h]

/-! ## unary numeric operators (decimal path) -/

/-- negation, when neither side is a float -/
theorem negateVal_vr {x x' : Val} (h : VR nf x x') (hf : toFloat x = none) (hf' : toFloat x' = none) :
    VR nf (negateVal x) (negateVal x') := by
  unfold negateVal
  rw [hf, hf']
  rcases toDecimal_vr h with ⟨e1, e2⟩ | ⟨d, d', e1, e2, e3⟩
  · simp only [e1, e2]; exact vr_null
  · simp only [e1, e2]
    cases x <;> cases x' <;> simp only [VR] at h <;> try (simp [toDecimal] at e1)
    rw [Dec.isZero_cmp e3]
    split
    · simp only [VR]; exact nr_unary id (fun h => h) (fun h => h) h e1 e2
    · simp only [VR]; exact nr_unary Dec.neg Dec.neg_cmp Dec.neg_bounded h e1 e2

theorem unaryNum_rr (op : Dec → Dec) (hc : ∀ {d d'}, Dec.cmp d d' = some 0 → Dec.cmp (op d) (op d') = some 0)
    (hb : ∀ {d}, d.Bounded → (op d).Bounded) {x x' : Val} (h : VR nf x x') :
    RR (VR nf) (match toDecimal x with | none => errType | some d => .ok (.num (.dec (op d))))
      (match toDecimal x' with | none => errType | some d => .ok (.num (.dec (op d)))) := by
  rcases toDecimal_vr h with ⟨e1, e2⟩ | ⟨d, d', e1, e2, e3⟩
  · simp only [e1, e2]; exact rr_errType
  · simp only [e1, e2]
    cases x <;> cases x' <;> simp only [VR] at h <;> try (simp [toDecimal] at e1)
    exact RR.ok' (by simp only [VR]; exact nr_unary op hc hb h e1 e2)

theorem numAbs_rr {x x' : Val} (h : VR nf x x') (hf : toFloat x = none) (hf' : toFloat x' = none) :
    RR (VR nf) (numAbs x) (numAbs x') := by
  unfold numAbs; rw [hf, hf']; exact unaryNum_rr Dec.abs Dec.abs_cmp Dec.abs_bounded h

theorem numCeil_rr {x x' : Val} (h : VR nf x x') (hf : toFloat x = none) (hf' : toFloat x' = none) :
    RR (VR nf) (numCeil x) (numCeil x') := by
  unfold numCeil; rw [hf, hf']; exact unaryNum_rr Dec.ceil Dec.ceil_cmp Dec.ceil_bounded h

theorem numFloor_rr {x x' : Val} (h : VR nf x x') (hf : toFloat x = none) (hf' : toFloat x' = none) :
    RR (VR nf) (numFloor x) (numFloor x') := by
  unfold numFloor; rw [hf, hf']; exact unaryNum_rr Dec.floor Dec.floor_cmp Dec.floor_bounded h

/-! ## comparisons, equality, `contains`, `to_number` -/

theorem equalR_rr {x x' y y' : Val} (hx : VR nf x x') (hy : VR nf y y') :
    RR (fun a b : Bool => a = b) (equalR x y) (equalR x' y') := by
  unfold equalR
  rw [hasEnum2_vr _ _ hx, hasEnum2_vr _ _ hy]
  split
  · trivial
  · exact RR.ok' (equal_congr _ _ _ _ (vr_equiv _ _ hx) (vr_equiv _ _ hy))

theorem cmpOp_vr (f : Dec → Dec → Bool)
    (hf : ∀ a a' b b', Dec.cmp a a' = some 0 → Dec.cmp b b' = some 0 → f a b = f a' b')
    {x x' y y' : Val} (hx : VR nf x x') (hy : VR nf y y') : VR nf (cmpOp f x y) (cmpOp f x' y') := by
  rw [cmpOp_congr f hf (vr_equiv _ _ hx) (vr_equiv _ _ hy)]
  unfold cmpOp
  split
  · exact vr_null
  · split
    · exact vr_null
    · exact vr_bool _

theorem any_equal_vrl {y y' : Val} (hy : VR nf y y') : ∀ {xs xs' : List Val}, VRL nf xs xs' →
    (xs.any fun xi => equal xi y) = (xs'.any fun xi => equal xi y')
  | [], [], _ => rfl
  | [], _ :: _, h => by simp [VRL] at h
  | _ :: _, [], h => by simp [VRL] at h
  | x :: xs, x' :: xs', h => by
    simp only [VRL] at h
    simp only [List.any_cons, equal_congr _ _ _ _ (vr_equiv _ _ h.1) (vr_equiv _ _ hy), any_equal_vrl hy h.2]

theorem contains_rr {x x' y y' : Val} (hx : VR nf x x') (hy : VR nf y y') :
    RR (VR nf) (contains x y) (contains x' y') := by
  cases x <;> cases x' <;> simp only [VR] at hx <;> try (simp only [contains]; exact rr_errType)
  · subst hx
    cases y <;> cases y' <;> simp only [VR] at hy <;> simp only [contains]
    all_goals first | exact RR.ok' (vr_bool _) | (subst hy; exact RR.ok' (vr_bool _))
  · next t xs u ys =>
    obtain ⟨rfl, hx⟩ := hx
    simp only [contains, hasEnum2L_vr _ _ hx, hasEnum2_vr _ _ hy]
    split
    · trivial
    · rw [any_equal_vrl hy hx]; exact RR.ok' (vr_bool _)

theorem toNumber_vr {x x' : Val} (h : VR nf x x') : VR nf (toNumber x) (toNumber x') := by
  cases x <;> cases x' <;> simp only [VR] at h <;> try (simp only [toNumber]; exact vr_null)
  · subst h
    simp only [toNumber]
    split
    · split
      · next d hd =>
        exact vr_dec (Dec.cmp_self (Dec.unmarshalJSON_ne_nan hd)) (.inr rfl)
      · exact vr_null
    · exact vr_null
  · simp only [toNumber, VR]; exact h

end
end C14B
end Jmes
