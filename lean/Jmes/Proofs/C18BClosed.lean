/-
  Property C18, helper: *closed* expressions (no free variable), syntactically, and the fact that a closed expression
  does not look at the environment it is evaluated in.

  `n.closedIn bd`: every variable reference in `n` is bound by an enclosing `let` of `n` itself or is one of `bd`.
  The bindings of a `let` are evaluated in the outer scope, its body in the scope extended by the bound names
  (this is the evaluator's rule: `ieval … (.defineVariables vars child) cur env` evaluates `vars` in `env` and `child`
  in `bs ++ env`).
-/
import Jmes.Proofs.Scope
import Jmes.Proofs.Invariants
namespace Jmes

mutual
/-- every free variable of the node is in `bd` -/
def INode.closedIn (bd : List Bytes) : INode → Bool
  | .lit _ => true
  | .current => true
  | .root => true
  | .field _ => true
  | .flattenCurrent => true
  | .indexCurrent _ => true
  | .smallIndexCurrent _ => true
  | .objectValuesCurrent => true
  | .pruneArrayCurrent => true
  | .sliceCurrent _ _ => true
  | .sliceStepCurrent _ _ _ => true
  | .variable x => bd.contains x
  | .binop _ l r => l.closedIn bd && r.closedIn bd
  | .and l r => l.closedIn bd && r.closedIn bd
  | .or l r => l.closedIn bd && r.closedIn bd
  | .not c => c.closedIn bd
  | .negate c => c.closedIn bd
  | .assertNumber c => c.closedIn bd
  | .call _ args => INode.closedInL bd args
  | .filter c f => c.closedIn bd && f.closedIn bd
  | .filterCurrent f => f.closedIn bd
  | .filterAndProject l f r => l.closedIn bd && f.closedIn bd && r.closedIn bd
  | .filterAndProjectCurrent f c => f.closedIn bd && c.closedIn bd
  | .flatten c => c.closedIn bd
  | .flattenAndProject l r => l.closedIn bd && r.closedIn bd
  | .flattenAndProjectCurrent c => c.closedIn bd
  | .index c _ => c.closedIn bd
  | .objectValues c => c.closedIn bd
  | .pipe l r => l.closedIn bd && r.closedIn bd
  | .projectArray l r => l.closedIn bd && r.closedIn bd
  | .projectArrayCurrent c => c.closedIn bd
  | .projectObject l r => l.closedIn bd && r.closedIn bd
  | .projectObjectCurrent c => c.closedIn bd
  | .pruneArray c => c.closedIn bd
  | .selectArray c fs => c.closedIn bd && INode.closedInL bd fs
  | .selectArrayCurrent fs => INode.closedInL bd fs
  | .selectArraySingle c f => c.closedIn bd && f.closedIn bd
  | .selectArraySingleCurrent f => f.closedIn bd
  | .selectObject c fs => c.closedIn bd && INode.closedInF bd fs
  | .selectObjectCurrent fs => INode.closedInF bd fs
  | .selectObjectSingle c _ f => c.closedIn bd && f.closedIn bd
  | .selectObjectSingleCurrent _ f => f.closedIn bd
  | .slice c _ _ => c.closedIn bd
  | .sliceStep c _ _ _ => c.closedIn bd
  | .groupBy a e => a.closedIn bd && e.closedIn bd
  | .map e a => e.closedIn bd && a.closedIn bd
  | .maxBy a e => a.closedIn bd && e.closedIn bd
  | .minBy a e => a.closedIn bd && e.closedIn bd
  | .sortBy a e => a.closedIn bd && e.closedIn bd
  | .merge args => INode.closedInL bd args
  | .notNull args => INode.closedInL bd args
  | .zip args => INode.closedInL bd args
  | .defineVariables vars child => INode.closedInF bd vars && child.closedIn (vars.map Prod.fst ++ bd)
def INode.closedInL (bd : List Bytes) : List INode → Bool
  | [] => true
  | n :: ns => n.closedIn bd && INode.closedInL bd ns
def INode.closedInF (bd : List Bytes) : List (Bytes × INode) → Bool
  | [] => true
  | (_, n) :: rest => n.closedIn bd && INode.closedInF bd rest
end

/-- **closed**: the expression has no free variable — every `$x` in it is bound by a `let` of the expression itself -/
def INode.Closed (n : INode) : Bool := n.closedIn []

/-- the two environments agree on the names in `bd` -/
def EnvAgree (bd : List Bytes) (env env' : Env) : Prop := ∀ y, bd.contains y = true → env.get y = env'.get y

theorem EnvAgree.extend {bd : List Bytes} {env env' : Env} (h : EnvAgree bd env env') {root cur : Val}
    {vars : List (Bytes × INode)} {e0 : Env} {bs : List (Bytes × Val)} (hx : ievalFields root vars cur e0 = .ok bs) :
    EnvAgree (vars.map Prod.fst ++ bd) (bs ++ env) (bs ++ env') := by
  intro y hy
  simp only [Env.get, objLookup_append]
  cases hl : objLookup y bs with
  | some v => rfl
  | none =>
    have hn := (ievalFields_lookup_none hx y).mp hl
    simp only [List.contains_eq_mem, List.mem_append, decide_eq_true_eq] at hy
    rcases hy with hy | hy
    · exact absurd hy hn
    · exact h y (by simpa using hy)

mutual
/-- a node whose free variables are all in `bd` evaluates alike in two environments that agree on `bd` -/
theorem ieval_closedIn (root : Val) : (n : INode) → (cur : Val) → (bd : List Bytes) → (env env' : Env) →
    n.closedIn bd = true → EnvAgree bd env env' → ieval root n cur env = ieval root n cur env'
  | .lit _, cur, bd, env, env', hc, h => by simp only [ieval]
  | .current, cur, bd, env, env', hc, h => by simp only [ieval]
  | .root, cur, bd, env, env', hc, h => by simp only [ieval]
  | .field _, cur, bd, env, env', hc, h => by simp only [ieval]
  | .flattenCurrent, cur, bd, env, env', hc, h => by simp only [ieval]
  | .indexCurrent _, cur, bd, env, env', hc, h => by simp only [ieval]
  | .smallIndexCurrent _, cur, bd, env, env', hc, h => by simp only [ieval]
  | .objectValuesCurrent, cur, bd, env, env', hc, h => by simp only [ieval]
  | .pruneArrayCurrent, cur, bd, env, env', hc, h => by simp only [ieval]
  | .sliceCurrent _ _, cur, bd, env, env', hc, h => by simp only [ieval]
  | .sliceStepCurrent _ _ _, cur, bd, env, env', hc, h => by simp only [ieval]
  | .variable y, cur, bd, env, env', hc, h => by
    simp only [INode.closedIn] at hc
    simp only [ieval, h y hc]
  | .binop _ l r, cur, bd, env, env', hc, h => by
    simp only [INode.closedIn, Bool.and_eq_true] at hc
    simp only [ieval, fun cc => ieval_closedIn root l cc bd env env' hc.1 h, fun cc => ieval_closedIn root r cc bd env env' hc.2 h]
  | .and l r, cur, bd, env, env', hc, h => by
    simp only [INode.closedIn, Bool.and_eq_true] at hc
    simp only [ieval, fun cc => ieval_closedIn root l cc bd env env' hc.1 h, fun cc => ieval_closedIn root r cc bd env env' hc.2 h]
  | .or l r, cur, bd, env, env', hc, h => by
    simp only [INode.closedIn, Bool.and_eq_true] at hc
    simp only [ieval, fun cc => ieval_closedIn root l cc bd env env' hc.1 h, fun cc => ieval_closedIn root r cc bd env env' hc.2 h]
  | .not c, cur, bd, env, env', hc, h => by
    simp only [INode.closedIn] at hc
    simp only [ieval, fun cc => ieval_closedIn root c cc bd env env' hc h]
  | .negate c, cur, bd, env, env', hc, h => by
    simp only [INode.closedIn] at hc
    simp only [ieval, fun cc => ieval_closedIn root c cc bd env env' hc h]
  | .assertNumber c, cur, bd, env, env', hc, h => by
    simp only [INode.closedIn] at hc
    simp only [ieval, fun cc => ieval_closedIn root c cc bd env env' hc h]
  | .call _ args, cur, bd, env, env', hc, h => by
    simp only [INode.closedIn] at hc
    simp only [ieval, fun cc => ievalList_closedIn root args cc bd env env' hc h]
  | .filter c f, cur, bd, env, env', hc, h => by
    simp only [INode.closedIn, Bool.and_eq_true] at hc
    simp only [ieval, fun cc => ieval_closedIn root c cc bd env env' hc.1 h, fun cc => ieval_closedIn root f cc bd env env' hc.2 h]
  | .filterCurrent f, cur, bd, env, env', hc, h => by
    simp only [INode.closedIn] at hc
    simp only [ieval, fun cc => ieval_closedIn root f cc bd env env' hc h]
  | .filterAndProject l f r, cur, bd, env, env', hc, h => by
    simp only [INode.closedIn, Bool.and_eq_true] at hc
    simp only [ieval, fun cc => ieval_closedIn root l cc bd env env' hc.1.1 h, fun cc => ieval_closedIn root f cc bd env env' hc.1.2 h, fun cc => ieval_closedIn root r cc bd env env' hc.2 h]
  | .filterAndProjectCurrent f c, cur, bd, env, env', hc, h => by
    simp only [INode.closedIn, Bool.and_eq_true] at hc
    simp only [ieval, fun cc => ieval_closedIn root f cc bd env env' hc.1 h, fun cc => ieval_closedIn root c cc bd env env' hc.2 h]
  | .flatten c, cur, bd, env, env', hc, h => by
    simp only [INode.closedIn] at hc
    simp only [ieval, fun cc => ieval_closedIn root c cc bd env env' hc h]
  | .flattenAndProject l r, cur, bd, env, env', hc, h => by
    simp only [INode.closedIn, Bool.and_eq_true] at hc
    simp only [ieval, fun cc => ieval_closedIn root l cc bd env env' hc.1 h, fun cc => ieval_closedIn root r cc bd env env' hc.2 h]
  | .flattenAndProjectCurrent c, cur, bd, env, env', hc, h => by
    simp only [INode.closedIn] at hc
    simp only [ieval, fun cc => ieval_closedIn root c cc bd env env' hc h]
  | .index c _, cur, bd, env, env', hc, h => by
    simp only [INode.closedIn] at hc
    simp only [ieval, fun cc => ieval_closedIn root c cc bd env env' hc h]
  | .objectValues c, cur, bd, env, env', hc, h => by
    simp only [INode.closedIn] at hc
    simp only [ieval, fun cc => ieval_closedIn root c cc bd env env' hc h]
  | .pipe l r, cur, bd, env, env', hc, h => by
    simp only [INode.closedIn, Bool.and_eq_true] at hc
    simp only [ieval, fun cc => ieval_closedIn root l cc bd env env' hc.1 h, fun cc => ieval_closedIn root r cc bd env env' hc.2 h]
  | .projectArray l r, cur, bd, env, env', hc, h => by
    simp only [INode.closedIn, Bool.and_eq_true] at hc
    simp only [ieval, fun cc => ieval_closedIn root l cc bd env env' hc.1 h, fun cc => ieval_closedIn root r cc bd env env' hc.2 h]
  | .projectArrayCurrent c, cur, bd, env, env', hc, h => by
    simp only [INode.closedIn] at hc
    simp only [ieval, fun cc => ieval_closedIn root c cc bd env env' hc h]
  | .projectObject l r, cur, bd, env, env', hc, h => by
    simp only [INode.closedIn, Bool.and_eq_true] at hc
    simp only [ieval, fun cc => ieval_closedIn root l cc bd env env' hc.1 h, fun cc => ieval_closedIn root r cc bd env env' hc.2 h]
  | .projectObjectCurrent c, cur, bd, env, env', hc, h => by
    simp only [INode.closedIn] at hc
    simp only [ieval, fun cc => ieval_closedIn root c cc bd env env' hc h]
  | .pruneArray c, cur, bd, env, env', hc, h => by
    simp only [INode.closedIn] at hc
    simp only [ieval, fun cc => ieval_closedIn root c cc bd env env' hc h]
  | .selectArray c fs, cur, bd, env, env', hc, h => by
    simp only [INode.closedIn, Bool.and_eq_true] at hc
    simp only [ieval, fun cc => ieval_closedIn root c cc bd env env' hc.1 h, fun cc => ievalList_closedIn root fs cc bd env env' hc.2 h]
  | .selectArrayCurrent fs, cur, bd, env, env', hc, h => by
    simp only [INode.closedIn] at hc
    simp only [ieval, fun cc => ievalList_closedIn root fs cc bd env env' hc h]
  | .selectArraySingle c f, cur, bd, env, env', hc, h => by
    simp only [INode.closedIn, Bool.and_eq_true] at hc
    simp only [ieval, fun cc => ieval_closedIn root c cc bd env env' hc.1 h, fun cc => ieval_closedIn root f cc bd env env' hc.2 h]
  | .selectArraySingleCurrent f, cur, bd, env, env', hc, h => by
    simp only [INode.closedIn] at hc
    simp only [ieval, fun cc => ieval_closedIn root f cc bd env env' hc h]
  | .selectObject c fs, cur, bd, env, env', hc, h => by
    simp only [INode.closedIn, Bool.and_eq_true] at hc
    simp only [ieval, fun cc => ieval_closedIn root c cc bd env env' hc.1 h, fun cc => ievalFields_closedIn root fs cc bd env env' hc.2 h]
  | .selectObjectCurrent fs, cur, bd, env, env', hc, h => by
    simp only [INode.closedIn] at hc
    simp only [ieval, fun cc => ievalFields_closedIn root fs cc bd env env' hc h]
  | .selectObjectSingle c _ f, cur, bd, env, env', hc, h => by
    simp only [INode.closedIn, Bool.and_eq_true] at hc
    simp only [ieval, fun cc => ieval_closedIn root c cc bd env env' hc.1 h, fun cc => ieval_closedIn root f cc bd env env' hc.2 h]
  | .selectObjectSingleCurrent _ f, cur, bd, env, env', hc, h => by
    simp only [INode.closedIn] at hc
    simp only [ieval, fun cc => ieval_closedIn root f cc bd env env' hc h]
  | .slice c _ _, cur, bd, env, env', hc, h => by
    simp only [INode.closedIn] at hc
    simp only [ieval, fun cc => ieval_closedIn root c cc bd env env' hc h]
  | .sliceStep c _ _ _, cur, bd, env, env', hc, h => by
    simp only [INode.closedIn] at hc
    simp only [ieval, fun cc => ieval_closedIn root c cc bd env env' hc h]
  | .groupBy a e, cur, bd, env, env', hc, h => by
    simp only [INode.closedIn, Bool.and_eq_true] at hc
    simp only [ieval, fun cc => ieval_closedIn root a cc bd env env' hc.1 h, fun cc => ieval_closedIn root e cc bd env env' hc.2 h]
  | .map e a, cur, bd, env, env', hc, h => by
    simp only [INode.closedIn, Bool.and_eq_true] at hc
    simp only [ieval, fun cc => ieval_closedIn root e cc bd env env' hc.1 h, fun cc => ieval_closedIn root a cc bd env env' hc.2 h]
  | .maxBy a e, cur, bd, env, env', hc, h => by
    simp only [INode.closedIn, Bool.and_eq_true] at hc
    simp only [ieval, fun cc => ieval_closedIn root a cc bd env env' hc.1 h, fun cc => ieval_closedIn root e cc bd env env' hc.2 h]
  | .minBy a e, cur, bd, env, env', hc, h => by
    simp only [INode.closedIn, Bool.and_eq_true] at hc
    simp only [ieval, fun cc => ieval_closedIn root a cc bd env env' hc.1 h, fun cc => ieval_closedIn root e cc bd env env' hc.2 h]
  | .sortBy a e, cur, bd, env, env', hc, h => by
    simp only [INode.closedIn, Bool.and_eq_true] at hc
    simp only [ieval, fun cc => ieval_closedIn root a cc bd env env' hc.1 h, fun cc => ieval_closedIn root e cc bd env env' hc.2 h]
  | .merge args, cur, bd, env, env', hc, h => by
    simp only [INode.closedIn] at hc
    simp only [ieval, fun cc acc => ievalMerge_closedIn root args cc bd env env' acc hc h]
  | .notNull args, cur, bd, env, env', hc, h => by
    simp only [INode.closedIn] at hc
    simp only [ieval, fun cc => ievalNotNull_closedIn root args cc bd env env' hc h]
  | .zip args, cur, bd, env, env', hc, h => by
    simp only [INode.closedIn] at hc
    simp only [ieval, fun cc => ievalZip_closedIn root args cc bd env env' hc h]
  | .defineVariables vars child, cur, bd, env, env', hc, h => by
    simp only [INode.closedIn, Bool.and_eq_true] at hc
    simp only [ieval, ievalFields_closedIn root vars cur bd env env' hc.1 h]
    cases hx : ievalFields root vars cur env' with
    | ok bs =>
      simp only [Res.ok_bind]
      exact ieval_closedIn root child cur _ (bs ++ env) (bs ++ env') hc.2 (h.extend hx)
    | _ => rfl
theorem ievalList_closedIn (root : Val) : (ns : List INode) → (cur : Val) → (bd : List Bytes) → (env env' : Env) →
    INode.closedInL bd ns = true → EnvAgree bd env env' → ievalList root ns cur env = ievalList root ns cur env'
  | [], cur, bd, env, env', hc, h => by simp only [ievalList]
  | n :: ns, cur, bd, env, env', hc, h => by
    simp only [INode.closedInL, Bool.and_eq_true] at hc
    simp only [ievalList, ieval_closedIn root n cur bd env env' hc.1 h, ievalList_closedIn root ns cur bd env env' hc.2 h]
theorem ievalFields_closedIn (root : Val) : (fs : List (Bytes × INode)) → (cur : Val) → (bd : List Bytes) →
    (env env' : Env) → INode.closedInF bd fs = true → EnvAgree bd env env' →
    ievalFields root fs cur env = ievalFields root fs cur env'
  | [], cur, bd, env, env', hc, h => by simp only [ievalFields]
  | (k, n) :: rest, cur, bd, env, env', hc, h => by
    simp only [INode.closedInF, Bool.and_eq_true] at hc
    simp only [ievalFields, ieval_closedIn root n cur bd env env' hc.1 h,
      ievalFields_closedIn root rest cur bd env env' hc.2 h]
theorem ievalMerge_closedIn (root : Val) : (ns : List INode) → (cur : Val) → (bd : List Bytes) → (env env' : Env) →
    (acc : List (Bytes × Val)) → INode.closedInL bd ns = true → EnvAgree bd env env' →
    ievalMerge root ns cur env acc = ievalMerge root ns cur env' acc
  | [], cur, bd, env, env', acc, hc, h => by simp only [ievalMerge]
  | n :: ns, cur, bd, env, env', acc, hc, h => by
    simp only [INode.closedInL, Bool.and_eq_true] at hc
    simp only [ievalMerge, ieval_closedIn root n cur bd env env' hc.1 h,
      fun acc => ievalMerge_closedIn root ns cur bd env env' acc hc.2 h]
theorem ievalNotNull_closedIn (root : Val) : (ns : List INode) → (cur : Val) → (bd : List Bytes) → (env env' : Env) →
    INode.closedInL bd ns = true → EnvAgree bd env env' → ievalNotNull root ns cur env = ievalNotNull root ns cur env'
  | [], cur, bd, env, env', hc, h => by simp only [ievalNotNull]
  | n :: ns, cur, bd, env, env', hc, h => by
    simp only [INode.closedInL, Bool.and_eq_true] at hc
    simp only [ievalNotNull, ieval_closedIn root n cur bd env env' hc.1 h,
      ievalNotNull_closedIn root ns cur bd env env' hc.2 h]
theorem ievalZip_closedIn (root : Val) : (ns : List INode) → (cur : Val) → (bd : List Bytes) → (env env' : Env) →
    INode.closedInL bd ns = true → EnvAgree bd env env' → ievalZip root ns cur env = ievalZip root ns cur env'
  | [], cur, bd, env, env', hc, h => by simp only [ievalZip]
  | n :: ns, cur, bd, env, env', hc, h => by
    simp only [INode.closedInL, Bool.and_eq_true] at hc
    simp only [ievalZip, ieval_closedIn root n cur bd env env' hc.1 h, ievalZip_closedIn root ns cur bd env env' hc.2 h]
end

/-- **a closed expression does not look at the environment** -/
theorem ieval_closed {n : INode} (hc : n.Closed = true) (root cur : Val) (env env' : Env) :
    ieval root n cur env = ieval root n cur env' :=
  ieval_closedIn root n cur [] env env' hc (fun y hy => by simp at hy)

/-- `let $x = a in $x.b` is closed, `$x.b` is not; a `let` does not bind inside its own binding expressions -/
example : (INode.defineVariables [([0x24, 0x78], .field [0x61])] (.pipe (.variable [0x24, 0x78]) (.field [0x62]))).Closed
    = true := by decide
example : (INode.pipe (.variable [0x24, 0x78]) (.field [0x62])).Closed = false := by decide
example : (INode.defineVariables [([0x24, 0x78], .variable [0x24, 0x78])] .current).Closed = false := by decide
example : ieval .null (.defineVariables [([0x24, 0x78], .field [0x61])] (.variable [0x24, 0x78]))
    (.obj [([0x61], .bool true)]) [([0x24, 0x78], .null)] = .ok (.bool true) := rfl
example (env : Env) : ieval .null (.defineVariables [([0x24, 0x78], .field [0x61])] (.variable [0x24, 0x78]))
    (.obj [([0x61], .bool true)]) env = .ok (.bool true) :=
  (ieval_closed (by decide) _ _ env []).trans rfl

end Jmes
