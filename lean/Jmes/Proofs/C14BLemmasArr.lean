/-
  Helper lemmas for property C14 (second round): the array / object / projection helpers of the evaluator map
  related values (`VR`) to related outcomes (`RR`).
-/
import Jmes.Proofs.C14BLemmas
namespace Jmes
namespace C14B
open C14

/-! ## generic element-wise relation on lists -/

def L2 {α β : Type} (R : α → β → Prop) : List α → List β → Prop
  | [], [] => True
  | x :: xs, y :: ys => R x y ∧ L2 R xs ys
  | _, _ => False

theorem l2_iff_zip {α β : Type} {R : α → β → Prop} {xs : List α} {ys : List β} :
    L2 R xs ys ↔ ∃ L : List (α × β), L.map Prod.fst = xs ∧ L.map Prod.snd = ys ∧ ∀ p ∈ L, R p.1 p.2 := by
  constructor
  · intro h
    induction xs generalizing ys with
    | nil => cases ys <;> simp [L2] at h; exact ⟨[], rfl, rfl, by simp⟩
    | cons x xs ih =>
      cases ys with
      | nil => simp [L2] at h
      | cons y ys =>
        simp only [L2] at h
        obtain ⟨L, l1, l2, l3⟩ := ih h.2
        refine ⟨(x, y) :: L, by simp [l1], by simp [l2], ?_⟩
        intro p hp
        rcases List.mem_cons.mp hp with rfl | hp
        · exact h.1
        · exact l3 p hp
  · rintro ⟨L, rfl, rfl, h⟩
    induction L with
    | nil => simp [L2]
    | cons p L ih =>
      simp only [List.map_cons, L2]
      exact ⟨h p (List.mem_cons_self ..), ih (fun q hq => h q (List.mem_cons_of_mem _ hq))⟩

theorem l2_length {α β : Type} {R : α → β → Prop} : ∀ {xs : List α} {ys : List β}, L2 R xs ys → xs.length = ys.length
  | [], [], _ => rfl
  | [], _ :: _, h => by simp [L2] at h
  | _ :: _, [], h => by simp [L2] at h
  | _ :: xs, _ :: ys, h => by
    simp only [L2] at h
    simp [l2_length h.2]

section
variable {nf : Bool}

theorem vrl_iff_l2 : ∀ {xs ys : List Val}, VRL nf xs ys ↔ L2 (VR nf) xs ys
  | [], [] => by simp [VRL, L2]
  | [], _ :: _ => by simp [VRL, L2]
  | _ :: _, [] => by simp [VRL, L2]
  | x :: xs, y :: ys => by simp only [VRL, L2, vrl_iff_l2 (xs := xs) (ys := ys)]

/-- `f` and `f'` map related values to related outcomes -/
def FR (nf : Bool) (f f' : Val → Res Val) : Prop := ∀ x x', VR nf x x' → RR (VR nf) (f x) (f' x')

theorem FR.id : FR nf (fun v => Res.ok v) (fun v => Res.ok v) := fun _ _ h => h

/-! ## shape-only observers -/

theorem enum2_vrl (t : ATag) {xs ys : List Val} (h : VRL nf xs ys) : enum2 t xs = enum2 t ys := by
  simp [enum2, vrl_length h]

mutual
theorem hasEnum2_vr : ∀ (x y : Val), VR nf x y → x.hasEnum2 = y.hasEnum2
  | .null, y, h => by cases y <;> simp only [VR] at h <;> rfl
  | .bool _, y, h => by cases y <;> simp only [VR] at h <;> rfl
  | .str _, y, h => by cases y <;> simp only [VR] at h <;> rfl
  | .num _, y, h => by cases y <;> simp only [VR] at h <;> rfl
  | .foreign _, y, h => by cases y <;> simp only [VR] at h <;> rfl
  | .arr t xs, y, h => by
    cases y <;> simp only [VR] at h
    obtain ⟨rfl, h⟩ := h
    simp only [Val.hasEnum2, vrl_length h, hasEnum2L_vr xs _ h]
  | .obj kvs, y, h => by
    cases y <;> simp only [VR] at h
    simp only [Val.hasEnum2, hasEnum2F_vr kvs _ h]
theorem hasEnum2L_vr : ∀ (xs ys : List Val), VRL nf xs ys → Val.hasEnum2L xs = Val.hasEnum2L ys
  | [], ys, h => by cases ys <;> simp only [VRL] at h <;> rfl
  | x :: xs, ys, h => by
    cases ys <;> simp only [VRL] at h
    simp only [Val.hasEnum2L, hasEnum2_vr x _ h.1, hasEnum2L_vr xs _ h.2]
theorem hasEnum2F_vr : ∀ (xs ys : List (Bytes × Val)), VRF nf xs ys → Val.hasEnum2F xs = Val.hasEnum2F ys
  | [], ys, h => by cases ys <;> simp only [VRF] at h <;> rfl
  | (k, x) :: xs, ys, h => by
    cases ys with
    | nil => simp only [VRF] at h
    | cons p ys =>
      obtain ⟨l, y⟩ := p
      simp only [VRF] at h
      simp only [Val.hasEnum2F, hasEnum2_vr x _ h.2.1, hasEnum2F_vr xs _ h.2.2]
end

/-! ## `widen` -/

theorem flatMap_errs_vrl {g g' : Val → List Cat} (hg : ∀ x x', VR nf x x' → g x = g' x') :
    ∀ {xs xs' : List Val}, VRL nf xs xs' → xs.flatMap g = xs'.flatMap g'
  | [], [], _ => rfl
  | [], _ :: _, h => by simp [VRL] at h
  | _ :: _, [], h => by simp [VRL] at h
  | x :: xs, x' :: xs', h => by
    simp only [VRL] at h
    simp only [List.flatMap_cons, hg x x' h.1, flatMap_errs_vrl hg h.2]

theorem any_uns_vrl {g g' : Val → Bool} (hg : ∀ x x', VR nf x x' → g x = g' x') :
    ∀ {xs xs' : List Val}, VRL nf xs xs' → xs.any g = xs'.any g'
  | [], [], _ => rfl
  | [], _ :: _, h => by simp [VRL] at h
  | _ :: _, [], h => by simp [VRL] at h
  | x :: xs, x' :: xs', h => by
    simp only [VRL] at h
    simp only [List.any_cons, hg x x' h.1, any_uns_vrl hg h.2]

theorem widen_rr {α β : Type} {R : α → β → Prop} {t : ATag} {xs xs' : List Val} {fs fs' : List (Val → Res Val)}
    {extra : List Cat} {r : Res α} {r' : Res β} (hx : VRL nf xs xs')
    (herr : ∀ x x', VR nf x x' → fs.flatMap (fun f => errsOf (f x)) = fs'.flatMap (fun f => errsOf (f x')))
    (huns : ∀ x x', VR nf x x' → fs.any (fun f => unsOf (f x)) = fs'.any (fun f => unsOf (f x')))
    (h : RR R r r') : RR R (widen t xs fs extra r) (widen t xs' fs' extra r') := by
  cases r <;> cases r' <;> simp only [RR] at h <;> simp only [widen_def] <;> try exact h
  subst h
  rw [enum2_vrl t hx, flatMap_errs_vrl herr hx, any_uns_vrl huns hx]
  split <;> (try split) <;> simp [RR]

theorem widen1_rr {α β : Type} {R : α → β → Prop} {t : ATag} {xs xs' : List Val} {f f' : Val → Res Val}
    {extra : List Cat} {r : Res α} {r' : Res β} (hx : VRL nf xs xs') (hf : FR nf f f')
    (h : RR R r r') : RR R (widen t xs [f] extra r) (widen t xs' [f'] extra r') := by
  refine widen_rr hx (fun x x' hxx => ?_) (fun x x' hxx => ?_) h
  · simp only [List.flatMap_cons, List.flatMap_nil, List.append_nil]
    exact errs_of_rr (hf x x' hxx)
  · simp only [List.any_cons, List.any_nil, Bool.or_false]
    exact uns_of_rr (hf x x' hxx)

theorem widen2_rr {α β : Type} {R : α → β → Prop} {t : ATag} {xs xs' : List Val} {c c' f f' : Val → Res Val}
    {extra : List Cat} {r : Res α} {r' : Res β} (hx : VRL nf xs xs') (hc : FR nf c c') (hf : FR nf f f')
    (h : RR R r r') : RR R (widen t xs [c, f] extra r) (widen t xs' [c', f'] extra r') := by
  refine widen_rr hx (fun x x' hxx => ?_) (fun x x' hxx => ?_) h
  · simp only [List.flatMap_cons, List.flatMap_nil, List.append_nil]
    rw [errs_of_rr (hc x x' hxx), errs_of_rr (hf x x' hxx)]
  · simp only [List.any_cons, List.any_nil, Bool.or_false]
    rw [uns_of_rr (hc x x' hxx), uns_of_rr (hf x x' hxx)]

/-! ## field, index, slices -/

theorem field_vr (k : Bytes) {v v' : Val} (h : VR nf v v') : VR nf (field k v) (field k v') := by
  cases v <;> cases v' <;> simp only [VR] at h <;> try (simp only [field]; exact vr_null)
  simp only [field]
  rcases objLookup_vrf k h with ⟨e1, e2⟩ | ⟨y, y', e1, e2, e3⟩
  · simp [e1, e2]
  · simp only [e1, e2, Option.getD_some]; exact e3

theorem index_rr {v v' : Val} (h : VR nf v v') (i : Int) : RR (VR nf) (index v i) (index v' i) := by
  cases v <;> cases v' <;> simp only [VR] at h <;> try (simp only [index]; exact RR.ok' vr_null)
  next t xs u ys =>
  obtain ⟨rfl, h⟩ := h
  simp only [index, enum2_vrl t h, vrl_length h]
  generalize (if i < 0 then i + (ys.length : Int) else i) = j
  by_cases h1 : j < 0 ∨ j ≥ (ys.length : Int)
  · simp only [h1, if_true]; exact RR.ok' vr_null
  · simp only [h1, if_false]
    split
    · trivial
    · exact RR.ok' (vrl_getD h _)

theorem pickStep_vrl {xs ys : List Val} (h : VRL nf xs ys) (step : Int) : ∀ (n : Nat) (start : Int),
    VRL nf (pickStep xs start step n) (pickStep ys start step n)
  | 0, _ => by simp [pickStep]
  | n + 1, start => by
    simp only [pickStep]
    exact vrl_cons (vrl_getD h _) (pickStep_vrl h step n _)

theorem slice_rr {v v' : Val} (h : VR nf v v') (a b : Int) : RR (VR nf) (slice v a b) (slice v' a b) := by
  cases v <;> cases v' <;> simp only [VR] at h <;> try (simp only [slice]; exact RR.ok' vr_null)
  · subst h
    exact RR.of_eq rfl (fun w hw => by
      simp only [slice] at hw
      split at hw <;> (cases hw; exact vr_str _))
  · next t xs u ys =>
    obtain ⟨rfl, h⟩ := h
    simp only [slice, enum2_vrl t h, vrl_length h]
    split
    · exact RR.ok' (vr_arr vrl_nil)
    · split
      · exact RR.ok' (vr_arr vrl_nil)
      · split
        · trivial
        · exact RR.ok' (vr_arr (vrl_take (vrl_drop h _) _))

theorem sliceStep_rr {v v' : Val} (h : VR nf v v') (a b s : Int) :
    RR (VR nf) (sliceStep v a b s) (sliceStep v' a b s) := by
  cases v <;> cases v' <;> simp only [VR] at h <;> try (simp only [sliceStep]; exact RR.ok' vr_null)
  · subst h
    exact RR.of_eq rfl (fun w hw => by
      simp only [sliceStep] at hw
      split at hw
      · cases hw; exact vr_str _
      · split at hw <;> (cases hw; exact vr_str _))
  · next t xs u ys =>
    obtain ⟨rfl, h⟩ := h
    simp only [sliceStep, enum2_vrl t h, vrl_length h]
    split
    · exact RR.ok' (vr_arr vrl_nil)
    · split
      · trivial
      · exact RR.ok' (vr_arr (pickStep_vrl h _ _ _))

/-! ## prune, flatten -/

theorem pruneArray_vr {v v' : Val} (h : VR nf v v') : VR nf (pruneArray v) (pruneArray v') := by
  cases v <;> cases v' <;> simp only [VR] at h <;> try (simp only [pruneArray]; exact vr_null)
  next t xs u ys =>
  obtain ⟨rfl, h⟩ := h
  simp only [pruneArray, vrl_any (fun x y hxy => isNull_vr hxy) h]
  split
  · exact vr_arr (vrl_filter (fun x y hxy => by rw [isNull_vr hxy]) h)
  · exact vr_arr h

theorem flattenForProject_vrl : ∀ {xs ys : List Val}, VRL nf xs ys →
    VRL nf (flattenForProject xs) (flattenForProject ys)
  | [], [], _ => by simp [flattenForProject]
  | [], _ :: _, h => by simp [VRL] at h
  | _ :: _, [], h => by simp [VRL] at h
  | x :: xs, y :: ys, h => by
    simp only [VRL] at h
    have ih := flattenForProject_vrl h.2
    have hx := h.1
    cases x <;> cases y <;> simp only [VR] at hx <;> simp only [flattenForProject]
    · exact vrl_cons vr_null ih
    · exact vrl_cons (by simp only [VR]; exact hx) ih
    · exact vrl_cons (by simp only [VR]; exact hx) ih
    · exact vrl_cons (by simp only [VR]; exact hx) ih
    · exact vrl_append hx.2 ih
    · exact vrl_cons (by simp only [VR]; exact hx) ih
    · exact vrl_cons (by simp only [VR]; exact hx) ih

theorem flattenTag_vrl (t : ATag) {xs ys : List Val} (h : VRL nf xs ys) : flattenTag t xs = flattenTag t ys := by
  unfold flattenTag
  rw [enum2_vrl t h]
  refine congrArg (fun b => if (enum2 t ys || b) = true then ATag.enum else ATag.plain) ?_
  refine vrl_any (fun x y hxy => ?_) h
  cases x <;> cases y <;> simp only [VR] at hxy <;> try rfl
  obtain ⟨rfl, hxy⟩ := hxy
  exact enum2_vrl _ hxy

/-! ## the projection loops -/

theorem mapPrune_rr {f f' : Val → Res Val} (hf : FR nf f f') : ∀ {xs xs' : List Val}, VRL nf xs xs' →
    RR (VRL nf) (mapPrune f xs) (mapPrune f' xs')
  | [], [], _ => by simp [mapPrune, RR]
  | [], _ :: _, h => by simp [VRL] at h
  | _ :: _, [], h => by simp [VRL] at h
  | x :: xs, x' :: xs', h => by
    simp only [VRL] at h
    simp only [mapPrune]
    refine RR.bind (hf x x' h.1) (fun p p' hp => RR.bind (mapPrune_rr hf h.2) (fun r r' hr => ?_))
    simp only [Res.pure_eq, RR, isNull_vr hp]
    split
    · exact hr
    · exact vrl_cons hp hr

theorem mapAll_rr {f f' : Val → Res Val} (hf : FR nf f f') : ∀ {xs xs' : List Val}, VRL nf xs xs' →
    RR (VRL nf) (mapAll f xs) (mapAll f' xs')
  | [], [], _ => by simp [mapAll, RR]
  | [], _ :: _, h => by simp [VRL] at h
  | _ :: _, [], h => by simp [VRL] at h
  | x :: xs, x' :: xs', h => by
    simp only [VRL] at h
    simp only [mapAll]
    refine RR.bind (hf x x' h.1) (fun p p' hp => RR.bind (mapAll_rr hf h.2) (fun r r' hr => ?_))
    exact vrl_cons hp hr

theorem filterMapPrune_rr {c c' f f' : Val → Res Val} (hc : FR nf c c') (hf : FR nf f f') :
    ∀ {xs xs' : List Val}, VRL nf xs xs' → RR (VRL nf) (filterMapPrune c f xs) (filterMapPrune c' f' xs')
  | [], [], _ => by simp [filterMapPrune, RR]
  | [], _ :: _, h => by simp [VRL] at h
  | _ :: _, [], h => by simp [VRL] at h
  | x :: xs, x' :: xs', h => by
    simp only [VRL] at h
    simp only [filterMapPrune]
    refine RR.bind (hc x x' h.1) (fun b b' hb => ?_)
    rw [isTrue_vr hb]
    split
    · refine RR.bind (hf x x' h.1) (fun p p' hp => RR.bind (filterMapPrune_rr hc hf h.2) (fun r r' hr => ?_))
      simp only [Res.pure_eq, RR, isNull_vr hp]
      split
      · exact hr
      · exact vrl_cons hp hr
    · exact filterMapPrune_rr hc hf h.2

theorem projectArray_rr {f f' : Val → Res Val} (hf : FR nf f f') {v v' : Val} (h : VR nf v v') :
    RR (VR nf) (projectArray f v) (projectArray f' v') := by
  cases v <;> cases v' <;> simp only [VR] at h <;> try (simp only [projectArray]; exact RR.ok' vr_null)
  next t xs u ys =>
  obtain ⟨rfl, h⟩ := h
  simp only [projectArray]
  exact widen1_rr h hf (RR.bind (mapPrune_rr hf h) (fun r r' hr => RR.ok' (vr_arr hr)))

theorem mapArray_rr {f f' : Val → Res Val} (hf : FR nf f f') {v v' : Val} (h : VR nf v v') :
    RR (VR nf) (mapArray f v) (mapArray f' v') := by
  cases v <;> cases v' <;> simp only [VR] at h <;> try (simp only [mapArray]; exact rr_errType)
  next t xs u ys =>
  obtain ⟨rfl, h⟩ := h
  simp only [mapArray]
  exact widen1_rr h hf (RR.bind (mapAll_rr hf h) (fun r r' hr => RR.ok' (vr_arr hr)))

theorem filterAndProjectArray_rr {c c' f f' : Val → Res Val} (hc : FR nf c c') (hf : FR nf f f') {v v' : Val}
    (h : VR nf v v') : RR (VR nf) (filterAndProjectArray c f v) (filterAndProjectArray c' f' v') := by
  cases v <;> cases v' <;> simp only [VR] at h <;> try (simp only [filterAndProjectArray]; exact RR.ok' vr_null)
  next t xs u ys =>
  obtain ⟨rfl, h⟩ := h
  simp only [filterAndProjectArray]
  exact widen2_rr h hc hf (RR.bind (filterMapPrune_rr hc hf h) (fun r r' hr => RR.ok' (vr_arr hr)))

theorem flattenAndProjectArray_rr {f f' : Val → Res Val} (hf : FR nf f f') {v v' : Val} (h : VR nf v v') :
    RR (VR nf) (flattenAndProjectArray f v) (flattenAndProjectArray f' v') := by
  cases v <;> cases v' <;> simp only [VR] at h <;> try (simp only [flattenAndProjectArray]; exact RR.ok' vr_null)
  next t xs u ys =>
  obtain ⟨rfl, h⟩ := h
  simp only [flattenAndProjectArray, flattenTag_vrl t h]
  have hfl := flattenForProject_vrl h
  refine widen1_rr (vrl_append hfl (vrl_cons vr_null (vrl_cons vr_null vrl_nil))) hf
    (RR.bind (mapPrune_rr hf hfl) (fun r r' hr => RR.ok' (vr_arr hr)))

theorem projectObject_rr {f f' : Val → Res Val} (hf : FR nf f f') {v v' : Val} (h : VR nf v v') :
    RR (VR nf) (projectObject f v) (projectObject f' v') := by
  cases v <;> cases v' <;> simp only [VR] at h <;> try (simp only [projectObject]; exact RR.ok' vr_null)
  next xs ys =>
  simp only [projectObject]
  exact widen1_rr (vrf_values h) hf (RR.bind (mapPrune_rr hf (vrf_values h)) (fun r r' hr => RR.ok' (vr_arr hr)))

end
end C14B
end Jmes
