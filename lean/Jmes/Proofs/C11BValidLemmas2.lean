/-
  Property C11, "valid UTF-8 in ⇒ valid UTF-8 out", continued: the `ValidLits` hypothesis of
  `Jmes.C11V.evaluate_valid` holds for every COMPILED expression, whatever bytes the expression text consists of.

  * the lexer validates the expression text as it goes, so every token value is valid UTF-8 (`lexAll_valid`);
  * the three literal decoders keep it valid: `parseStringLiteral_valid`, `parseQuotedIdentifier_valid`, and
    `Json.decode_valid` (what `encoding/json` decodes is valid for ANY input text: invalid bytes become U+FFFD);
  * the parser only moves token values into nodes (`parse_validLits`, a `Post`-style induction over the thirteen
    parser functions with the state invariant "every token in the window is valid");
  * `search_valid_any`: for valid data, every string in the result of `Search` is valid UTF-8.
-/
import Jmes.Proofs.C11BValidLemmas
import Jmes.Proofs.Lex
import Jmes.Proofs.ParserLits
namespace Jmes
namespace C11V
open Jmes.Utf8 Jmes.Literals

/-! ## splitting a valid string at an ASCII byte -/

theorem validUTF8_cons_ascii {b : Nat} (hb : b < 0x80) (s : Bytes) : validUTF8 (b :: s) = validUTF8 s := by
  simp [validUTF8, validAux, decodeRune, hb, RuneError]
  intro h; omega

/-- an ASCII prefix does not matter -/
theorem validUTF8_ascii_append : ∀ {a : Bytes}, Ascii a → ∀ c : Bytes, validUTF8 (a ++ c) = validUTF8 c
  | [], _, c => rfl
  | x :: a, h, c => by
    have ⟨hx, ha⟩ := ascii_cons.mp h
    rw [List.cons_append, validUTF8_cons_ascii hx, validUTF8_ascii_append ha]

theorem split_ascii_aux : ∀ (cs : List Nat), Scalars cs → ∀ (a c : Bytes) (b : Nat), b < 0x80 →
    encodeAll cs = a ++ b :: c → validUTF8 a = true ∧ validUTF8 c = true
  | [], _, a, c, b, _, h => by
    rw [encodeAll_nil] at h
    cases a <;> cases h
  | x :: xs, hs, a, c, b, hb, h => by
    rw [encodeAll_cons] at h
    have hx : validUTF8 (encodeRune x) = true := C11S.validUTF8_encodeRune_any x
    rcases List.append_eq_append_iff.mp h with ⟨a', ha, hr⟩ | ⟨c', hr, hc⟩
    · obtain ⟨h1, h2⟩ := split_ascii_aux xs hs.tail a' c b hb hr
      exact ⟨ha ▸ C11S.validUTF8_append hx h1, h2⟩
    · cases c' with
      | nil =>
        rw [List.append_nil] at hr
        rw [List.nil_append] at hc
        obtain ⟨_, h2⟩ := split_ascii_aux xs hs.tail [] c b hb hc.symm
        exact ⟨hr ▸ hx, h2⟩
      | cons y c'' =>
        rw [List.cons_append] at hc
        injection hc with hy hc
        subst hy
        by_cases hlt : x < 0x80
        · rw [encodeRune_ascii x hlt] at hr
          cases a with
          | nil =>
            simp only [List.nil_append, List.cons.injEq] at hr
            obtain ⟨_, rfl⟩ := hr
            rw [hc, List.nil_append]
            exact ⟨rfl, Utf8.validUTF8_encodeAll xs hs.tail⟩
          | cons a0 a' =>
            simp only [List.cons_append, List.cons.injEq] at hr
            cases a' <;> simp at hr
        · have := encodeRune_bytes_ge x (by omega) b (by rw [hr]; simp)
          omega

/-- **a valid string splits at an ASCII byte into two valid strings** (an ASCII byte is never part of a longer
    code point) -/
theorem valid_split_ascii {a c : Bytes} {b : Nat} (hb : b < 0x80) (h : validUTF8 (a ++ b :: c) = true) :
    validUTF8 a = true ∧ validUTF8 c = true := by
  obtain ⟨cs, hcs, he⟩ := (validUTF8_iff _).mp h
  exact split_ascii_aux cs hcs a c b hb he.symm

example : validUTF8 [0xC3, 0xA9] = true ∧ validUTF8 [0x68] = true :=
  valid_split_ascii (b := 0x5C) (by decide) (by decide)
/-- not so at a non-ASCII byte -/
example : validUTF8 ([0xC3] ++ 0xA9 :: []) = true ∧ validUTF8 [0xC3] = false := by decide

/-! ## raw string literals and quoted identifiers -/

theorem splitAtBackslash_some : ∀ (v acc pre post : Bytes), splitAtBackslash v acc = some (pre, post) →
    acc ++ v = pre ++ 0x5C :: post
  | [], acc, pre, post, h => by simp [splitAtBackslash] at h
  | [_], acc, pre, post, h => by simp [splitAtBackslash] at h
  | b :: c :: t, acc, pre, post, h => by
    rw [splitAtBackslash] at h
    split at h
    · next hb =>
      simp only [Option.some.injEq, Prod.mk.injEq] at h
      obtain ⟨rfl, rfl⟩ := h
      rw [hb]
    · have := splitAtBackslash_some (c :: t) (acc ++ [b]) pre post h
      rw [← this]; simp

theorem stringLiteralLoop_valid : ∀ (fuel : Nat) (post acc : Bytes), validUTF8 acc = true →
    validUTF8 post = true → validUTF8 (stringLiteralLoop fuel post acc) = true
  | 0, _, _, ha, _ => ha
  | _ + 1, [], _, ha, _ => ha
  | fuel + 1, c :: v, acc, ha, hp => by
    simp only [stringLiteralLoop]
    -- the accumulator after the escape, followed by the rest, is valid
    have key : validUTF8 ((if c = 0x27 then acc ++ [0x27] else if c = 0x5C then acc ++ [0x5C]
        else acc ++ [0x5C, c]) ++ v) = true := by
      split
      · next hc => subst hc; rw [List.append_assoc]; exact C11S.validUTF8_append ha hp
      · split
        · next hc => subst hc; rw [List.append_assoc]; exact C11S.validUTF8_append ha hp
        · have : acc ++ [0x5C, c] ++ v = (acc ++ [0x5C]) ++ (c :: v) := by simp
          rw [this]
          exact C11S.validUTF8_append (C11S.validUTF8_append ha (by decide)) hp
    generalize (if c = 0x27 then acc ++ [0x27] else if c = 0x5C then acc ++ [0x5C] else acc ++ [0x5C, c]) = acc'
      at key ⊢
    split
    · exact key
    · next pre post' hs =>
      have := splitAtBackslash_some v [] pre post' hs
      rw [List.nil_append] at this
      rw [this, ← List.append_assoc] at key
      obtain ⟨h1, h2⟩ := valid_split_ascii (by decide) key
      exact stringLiteralLoop_valid fuel post' (acc' ++ pre) h1 h2

/-- `parseStringLiteral` only removes backslashes: a valid token body gives a valid string -/
theorem parseStringLiteral_valid {s : Bytes} (h : validUTF8 (stripDelims s) = true) :
    validUTF8 (parseStringLiteral s) = true := by
  unfold parseStringLiteral
  simp only []
  split
  · exact h
  · next pre post hs =>
    have := splitAtBackslash_some _ [] pre post hs
    rw [List.nil_append] at this
    rw [this] at h
    obtain ⟨h1, h2⟩ := valid_split_ascii (by decide) h
    exact stringLiteralLoop_valid _ post pre h1 h2

/-- `'a\é'`: the backslash before a non-ASCII code point stays, the code point is not cut -/
example : parseStringLiteral [0x27, 0x61, 0x5C, 0xC3, 0xA9, 0x27] = [0x61, 0x5C, 0xC3, 0xA9] := by decide

theorem hex4_rest_valid {v v' : Bytes} {r : Nat} (h : Json.hex4 v = some (r, v')) (hv : validUTF8 v = true) :
    validUTF8 v' = true := by
  unfold Json.hex4 at h
  split at h
  · next a b c d rest =>
    split at h
    · next va vb vc vd ha hb hc hd =>
      simp only [Option.some.injEq, Prod.mk.injEq] at h
      obtain ⟨_, rfl⟩ := h
      have hlt : ∀ {x y : Nat}, Json.hexVal x = some y → x < 0x80 := by
        intro x y hxy
        unfold Json.hexVal at hxy
        split at hxy
        · omega
        · split at hxy
          · omega
          · split at hxy
            · omega
            · cases hxy
      rw [validUTF8_cons_ascii (hlt ha), validUTF8_cons_ascii (hlt hb), validUTF8_cons_ascii (hlt hc),
        validUTF8_cons_ascii (hlt hd)] at hv
      exact hv
    · cases h
  · cases h

theorem quotedLoop_succ (fuel c : Nat) (v acc : Bytes) : quotedLoop (fuel + 1) (c :: v) acc =
    (if c = 0x22 then contQ fuel v (acc ++ [0x22])
    else if c = 0x2F then contQ fuel v (acc ++ [0x2F])
    else if c = 0x5C then contQ fuel v (acc ++ [0x5C])
    else if c = 0x62 then contQ fuel v (acc ++ [0x08])
    else if c = 0x66 then contQ fuel v (acc ++ [0x0C])
    else if c = 0x6E then contQ fuel v (acc ++ [0x0A])
    else if c = 0x72 then contQ fuel v (acc ++ [0x0D])
    else if c = 0x74 then contQ fuel v (acc ++ [0x09])
    else if c = 0x75 then
      match Json.hex4 v with
      | none => none
      | some (r, v') =>
        if Json.isSurrogate r then
          match v' with
          | 0x5C :: 0x75 :: v'' =>
            (match Json.hex4 v'' with
             | none => none
             | some (r2, v3) =>
               -- FX28: not a (high, low) pair: rejected
               if Json.utf16Decode r r2 = 0xFFFD then none
               else contQ fuel v3 (acc ++ encodeRune (Json.utf16Decode r r2)))
          | _ => none
        else contQ fuel v' (acc ++ encodeRune r)
    else none) := by
  rw [quotedLoop]
  rfl

mutual
theorem contQ_valid : ∀ (fuel : Nat) (v acc out : Bytes), validUTF8 acc = true → validUTF8 v = true →
    contQ fuel v acc = some out → validUTF8 out = true
  | fuel, v, acc, out, ha, hv, h => by
    unfold contQ at h
    split at h
    · simp only [Option.some.injEq] at h
      subst h
      exact C11S.validUTF8_append ha hv
    · next pre post hs =>
      have := splitAtBackslash_some v [] pre post hs
      rw [List.nil_append] at this
      rw [this] at hv
      obtain ⟨h1, h2⟩ := valid_split_ascii (by decide) hv
      exact quotedLoop_valid fuel post (acc ++ pre) out (C11S.validUTF8_append ha h1) h2 h
  termination_by fuel => (fuel, 1)
theorem quotedLoop_valid : ∀ (fuel : Nat) (post acc out : Bytes), validUTF8 acc = true → validUTF8 post = true →
    quotedLoop fuel post acc = some out → validUTF8 out = true
  | 0, _, _, _, _, _, h => by simp [quotedLoop] at h
  | _ + 1, [], _, _, _, _, h => by simp [quotedLoop] at h
  | fuel + 1, c :: v, acc, out, ha, hp, h => by
    rw [quotedLoop_succ] at h
    have step : ∀ (x : Bytes), c < 0x80 → validUTF8 x = true → contQ fuel v (acc ++ x) = some out →
        validUTF8 out = true := fun x hc hx hh =>
      contQ_valid fuel v (acc ++ x) out (C11S.validUTF8_append ha hx) (by rwa [validUTF8_cons_ascii hc] at hp) hh
    split at h
    · exact step _ (by omega) (by decide) h
    · split at h
      · exact step _ (by omega) (by decide) h
      · split at h
        · exact step _ (by omega) (by decide) h
        · split at h
          · exact step _ (by omega) (by decide) h
          · split at h
            · exact step _ (by omega) (by decide) h
            · split at h
              · exact step _ (by omega) (by decide) h
              · split at h
                · exact step _ (by omega) (by decide) h
                · split at h
                  · exact step _ (by omega) (by decide) h
                  · split at h
                    · next hc =>
                      have hv : validUTF8 v = true := by rwa [validUTF8_cons_ascii (by omega)] at hp
                      split at h
                      · cases h
                      · next r v' hh =>
                        have hv' := hex4_rest_valid hh hv
                        split at h
                        · split at h
                          · next v'' =>
                            rw [validUTF8_cons_ascii (by omega), validUTF8_cons_ascii (by omega)] at hv'
                            split at h
                            · cases h
                            · next r2 v3 hh2 =>
                              split at h
                              · cases h
                              · exact contQ_valid fuel v3 _ out
                                  (C11S.validUTF8_append ha (C11S.validUTF8_encodeRune_any _))
                                  (hex4_rest_valid hh2 hv') h
                          · cases h
                        · exact contQ_valid fuel v' _ out
                            (C11S.validUTF8_append ha (C11S.validUTF8_encodeRune_any _)) hv' h
                    · cases h
  termination_by fuel => (fuel, 0)
end

/-- `parseQuotedIdentifier` un-escapes byte-wise between ASCII backslashes: a valid token body gives a valid name -/
theorem parseQuotedIdentifier_valid {s k : Bytes} (hs : validUTF8 (stripDelims s) = true)
    (h : parseQuotedIdentifier s = some k) : validUTF8 k = true := by
  rw [parseQuotedIdentifier_eq] at h
  split at h
  · cases h
  · exact contQ_valid _ _ [] k rfl hs h

/-- `"aéé"` is the name `aéé` -/
example : parseQuotedIdentifier [0x22, 0x61, 0x5C, 0x75, 0x30, 0x30, 0x65, 0x39, 0xC3, 0xA9, 0x22] =
    some [0x61, 0xC3, 0xA9, 0xC3, 0xA9] := by decide +kernel

/-! ## `encoding/json` decodes valid strings only, whatever the text -/

/-- the decoded body of a JSON string is valid UTF-8 for ANY input bytes: escapes are encoded code points, well-formed
    code points are copied, every other byte becomes U+FFFD -/
theorem parseStringBody_valid : ∀ (fuel : Nat) (s acc b r : Bytes), validUTF8 acc = true →
    Json.parseStringBody fuel s acc = some (b, r) → validUTF8 b = true
  | 0, _, _, _, _, _, h => by simp [Json.parseStringBody] at h
  | _ + 1, [], _, _, _, _, h => by simp [Json.parseStringBody] at h
  | fuel + 1, c :: t, acc, b, r, ha, h => by
    have ih : ∀ (s x : Bytes), validUTF8 x = true → Json.parseStringBody fuel s (acc ++ x) = some (b, r) →
        validUTF8 b = true := fun s x hx hh =>
      parseStringBody_valid fuel s (acc ++ x) b r (C11S.validUTF8_append ha hx) hh
    have hv := take_decodeRune_valid (c :: t) (by simp)
    simp only [Json.parseStringBody] at h
    generalize decodeRune (c :: t) = d at hv h
    obtain ⟨rr, sz⟩ := d
    simp only [] at hv h
    by_cases h1 : c = 34
    · rw [if_pos h1] at h; cases h; exact ha
    rw [if_neg h1] at h
    by_cases h2 : c < 32
    · rw [if_pos h2] at h; cases h
    rw [if_neg h2] at h
    by_cases h3 : c = 92
    · rw [if_pos h3] at h
      cases t with
      | nil => cases h
      | cons e t' =>
        simp only [] at h
        by_cases e1 : e = 34
        · rw [if_pos e1] at h; exact ih _ _ (by decide) h
        rw [if_neg e1] at h
        by_cases e2 : e = 92
        · rw [if_pos e2] at h; exact ih _ _ (by decide) h
        rw [if_neg e2] at h
        by_cases e3 : e = 47
        · rw [if_pos e3] at h; exact ih _ _ (by decide) h
        rw [if_neg e3] at h
        by_cases e4 : e = 98
        · rw [if_pos e4] at h; exact ih _ _ (by decide) h
        rw [if_neg e4] at h
        by_cases e5 : e = 102
        · rw [if_pos e5] at h; exact ih _ _ (by decide) h
        rw [if_neg e5] at h
        by_cases e6 : e = 110
        · rw [if_pos e6] at h; exact ih _ _ (by decide) h
        rw [if_neg e6] at h
        by_cases e7 : e = 114
        · rw [if_pos e7] at h; exact ih _ _ (by decide) h
        rw [if_neg e7] at h
        by_cases e8 : e = 116
        · rw [if_pos e8] at h; exact ih _ _ (by decide) h
        rw [if_neg e8] at h
        by_cases e9 : e = 117
        · rw [if_pos e9] at h
          cases hh : Json.hex4 t' with
          | none => rw [hh] at h; cases h
          | some p =>
            obtain ⟨r1, t''⟩ := p
            rw [hh] at h
            simp only [] at h
            by_cases hs : Json.isSurrogate r1 = true
            · rw [if_pos hs] at h
              split at h
              · split at h
                · split at h
                  · exact ih _ _ (C11S.validUTF8_encodeRune_any _) h
                  · exact ih _ _ (C11S.validUTF8_encodeRune_any _) h
                · cases h
              · exact ih _ _ (C11S.validUTF8_encodeRune_any _) h
            · rw [if_neg hs] at h
              exact ih _ _ (C11S.validUTF8_encodeRune_any _) h
        · rw [if_neg e9] at h; cases h
    rw [if_neg h3] at h
    by_cases h4 : c < 128
    · rw [if_pos h4] at h
      exact ih _ _ (Ascii.valid (ascii_cons.mpr ⟨h4, ascii_nil⟩)) h
    rw [if_neg h4] at h
    by_cases h5 : rr = RuneError ∧ sz = 1
    · rw [if_pos h5] at h
      exact ih _ _ (C11S.validUTF8_encodeRune_any _) h
    rw [if_neg h5] at h
    exact ih _ _ (hv h5) h

example : Json.parseStringBody 10 [0xFF, 0x22] [] = some ([0xEF, 0xBF, 0xBD], []) := by decide +kernel

theorem validL_snoc {xs : List Val} {v : Val} (hx : Val.ValidL xs = true) (hv : v.Valid = true) :
    Val.ValidL (xs ++ [v]) = true :=
  validL_append hx (validL_cons.mpr ⟨hv, rfl⟩)

theorem parse_valid : ∀ fuel : Nat,
    (∀ depth s v r, Json.parseValue fuel depth s = some (v, r) → v.Valid = true) ∧
    (∀ depth s acc xs r, Val.ValidL acc = true → Json.parseElems fuel depth s acc = some (xs, r) →
      Val.ValidL xs = true) ∧
    (∀ depth s acc kvs r, Val.ValidF acc = true → Json.parseMembers fuel depth s acc = some (kvs, r) →
      Val.ValidF kvs = true)
  | 0 => ⟨by simp [Json.parseValue], by simp [Json.parseElems], by simp [Json.parseMembers]⟩
  | fuel + 1 => by
    obtain ⟨ihV, ihE, ihM⟩ := parse_valid fuel
    refine ⟨?_, ?_, ?_⟩
    · intro depth s v r h
      simp only [Json.parseValue] at h
      split at h
      · cases h
      · cases h; rfl
      · cases h; rfl
      · cases h; rfl
      · simp only [Option.map_eq_some_iff] at h
        obtain ⟨⟨b, r'⟩, hb, h⟩ := h
        cases h
        exact valid_str.mpr (parseStringBody_valid _ _ _ _ _ rfl hb)
      · split at h
        · cases h
        · split at h
          · cases h; rfl
          · simp only [Option.map_eq_some_iff] at h
            obtain ⟨⟨xs, r'⟩, he, h⟩ := h
            cases h
            exact valid_anyArr (ihE _ _ _ _ _ rfl he)
      · split at h
        · cases h
        · split at h
          · cases h; rfl
          · simp only [Option.map_eq_some_iff] at h
            obtain ⟨⟨kvs, r'⟩, he, h⟩ := h
            cases h
            exact valid_obj.mpr (ihM _ _ _ _ _ rfl he)
      · split at h
        · simp only [Option.map_eq_some_iff] at h
          obtain ⟨⟨n, r'⟩, _, h⟩ := h
          cases h; rfl
        · cases h
    · intro depth s acc xs r ha h
      simp only [Json.parseElems] at h
      split at h
      · cases h
      · next v r' hv =>
        split at h
        · exact ihE _ _ _ _ _ (validL_snoc ha (ihV _ _ _ _ hv)) h
        · cases h
          exact validL_snoc ha (ihV _ _ _ _ hv)
        · cases h
    · intro depth s acc kvs r ha h
      simp only [Json.parseMembers] at h
      split at h
      · split at h
        · cases h
        · next k rk hk =>
          have hkv := parseStringBody_valid _ _ _ _ _ rfl hk
          split at h
          · split at h
            · cases h
            · next v r2 hv =>
              split at h
              · exact ihM _ _ _ _ _ (validF_objInsert hkv (ihV _ _ _ _ hv) ha) h
              · cases h
                exact validF_objInsert hkv (ihV _ _ _ _ hv) ha
              · cases h
          · cases h
      · cases h

/-- **every value decoded from JSON text is valid**, keys included, for any text -/
theorem Json.decode_valid {s : Bytes} {v : Val} (h : Json.decode s = some v) : v.Valid = true := by
  simp only [Json.decode] at h
  split at h
  · next v' r hp =>
    split at h
    · cases h
      exact (parse_valid _).1 _ _ _ _ hp
    · cases h
  · cases h

/-- the literal between backticks is a valid value -/
theorem parseJSONLiteral_valid {s : Bytes} {v : Val} (h : parseJSONLiteral s = some v) : v.Valid = true := by
  simp only [parseJSONLiteral] at h
  split at h
  · cases h
  · exact Json.decode_valid h

/-- the JSON text `"\ud800"` (a lone surrogate escape) decodes to U+FFFD -/
example : (match Json.decode [0x22, 0x5C, 0x75, 0x64, 0x38, 0x30, 0x30, 0x22] with
    | some (.str [0xEF, 0xBF, 0xBD]) => true
    | _ => false) = true := by decide +kernel

/-! ## the lexer hands out valid tokens -/

open Jmes.Lexical in
/-- the body of a delimited token (after the opening delimiter): some valid text, then the closing delimiter -/
theorem delimBody_body {d : Nat} (_hd : d < 0x80) {w : Bytes} (h : DelimBody d w) :
    ∃ body, w = body ++ [d] ∧ validUTF8 body = true := by
  induction h with
  | close => exact ⟨[], rfl, rfl⟩
  | esc c w _ _ ih =>
    obtain ⟨body, rfl, hb⟩ := ih
    refine ⟨0x5C :: (encodeRune c ++ body), by simp, ?_⟩
    rw [validUTF8_cons_ascii (by omega)]
    exact C11S.validUTF8_append (C11S.validUTF8_encodeRune_any c) hb
  | plain c w _ _ _ _ ih =>
    obtain ⟨body, rfl, hb⟩ := ih
    exact ⟨encodeRune c ++ body, by simp, C11S.validUTF8_append (C11S.validUTF8_encodeRune_any c) hb⟩

open Jmes.Lexical in
theorem delimited_strip {d : Nat} (hd : d < 0x80) {v : Bytes} (h : Delimited d v) :
    validUTF8 (stripDelims v) = true ∧ validUTF8 v = true := by
  obtain ⟨w, rfl, hw⟩ := h
  obtain ⟨body, rfl, hb⟩ := delimBody_body hd hw
  have : stripDelims (d :: (body ++ [d])) = body := stripDelims_wrap d d body
  rw [this, validUTF8_cons_ascii hd]
  exact ⟨hb, C11S.validUTF8_append hb (Ascii.valid (ascii_cons.mpr ⟨hd, ascii_nil⟩))⟩

open Jmes.Lexical in
theorem ident_ascii {v : Bytes} (h : Ident v) : Ascii v := by
  obtain ⟨c, t, rfl, hc, ht⟩ := h
  refine ascii_cons.mpr ⟨Lex.isIdStartB_lt hc, fun b hb => Lex.isIdCharB_lt (ht b hb)⟩

open Jmes.Lexical in
theorem digits_ascii {v : Bytes} (h : Digits v) : Ascii v := fun b hb => Lex.isDigitB_lt (h.2 b hb)

open Jmes.Lexical in
/-- **every token spelling of the lexical grammar is valid UTF-8** -/
theorem tokShape_valid {ty : TokenType} {v : Bytes} (h : TokShape ty v) : validUTF8 v = true := by
  cases ty <;> simp only [TokShape] at h
  all_goals first
    | exact h.elim
    | (subst h; decide)
    | (rcases h with rfl | rfl <;> decide)
    | exact (delimited_strip (by decide) h).2
    | exact (ident_ascii h.1).valid
    | (obtain ⟨w, rfl, hw⟩ := h; rw [validUTF8_cons_ascii (by omega)]; exact (ident_ascii hw).valid)
    | (rcases h with h | ⟨d, rfl, h⟩
       · exact (digits_ascii h).valid
       · rw [validUTF8_cons_ascii (by omega)]; exact (digits_ascii h).valid)

/-- what the parser needs to know about a token: the text it will un-escape or copy is valid UTF-8 -/
def TokV (t : Token) : Prop :=
  validUTF8 t.value = true ∧
  (t.type = .stringLiteral → validUTF8 (stripDelims t.value) = true) ∧
  (t.type = .quotedIdentifier → validUTF8 (stripDelims t.value) = true)

theorem tokV_end : TokV ⟨.end, []⟩ := ⟨rfl, (fun h => by cases h), (fun h => by cases h)⟩

open Jmes.Lexical in
theorem tokV_of_shape {t : Token} (h : TokShape t.type t.value) : TokV t := by
  refine ⟨tokShape_valid h, fun ht => ?_, fun ht => ?_⟩
  · rw [ht] at h; exact (delimited_strip (by decide) h).1
  · rw [ht] at h; exact (delimited_strip (by decide) h).1

theorem lexAllAux_tokV : ∀ (fuel : Nat) (s : Bytes) (ts : List Token) (e : Option LexErr),
    lexAllAux fuel s = (ts, e) → ∀ t ∈ ts, TokV t
  | 0, s, ts, e => by
    intro h t ht
    simp [lexAllAux] at h
    rw [h.1] at ht; cases ht
  | fuel + 1, s, ts, e => by
    intro h
    rw [lexAllAux] at h
    split at h
    · cases h
      intro t ht
      rw [List.mem_singleton] at ht
      subst ht
      exact tokV_end
    · split at h
      · cases h; intro t ht; cases ht
      · rename_i t n htok
        generalize hrec : lexAllAux fuel (List.drop (max n 1) (skipWsLex s.length s)) = p at h
        obtain ⟨ts', e'⟩ := p
        simp only [Prod.mk.injEq] at h
        obtain ⟨h1, h2⟩ := h
        subst h1 h2
        have ih := lexAllAux_tokV fuel _ _ _ hrec
        have g := Lex.lexToken_good htok
        intro x hx
        rcases List.mem_cons.mp hx with rfl | hx
        · exact tokV_of_shape g.shape
        · exact ih x hx

/-- **the lexer validates: every token it hands to the parser is valid UTF-8**, whatever the expression bytes -/
theorem lexAll_valid {e : Bytes} {ts : List Token} {err : Option LexErr} (h : lexAll e = (ts, err)) :
    ∀ t ∈ ts, validUTF8 t.value = true :=
  fun t ht => (lexAllAux_tokV _ _ _ _ h t ht).1

/-- an invalid byte in the expression stops the lexer: no token is produced from it -/
example : lexAll [0x61, 0x20, 0xFF] = ([⟨.unquotedIdentifier, [0x61]⟩], some .invalidRune) := by decide +kernel

/-! ## the parser: a `Post`-style induction with a state invariant -/

namespace PV
open Parser ParserLits

/-- every token in the parser's window is valid -/
def StV (s : PState) : Prop := TokV s.curr ∧ TokV s.next ∧ ∀ t ∈ s.rest, TokV t

/-- from a valid window: the window stays valid, and the result (if any) satisfies `Q` -/
def PostV {α} (Q : α → Prop) (m : PM α) : Prop := ∀ s a s', StV s → m s = .ok (a, s') → StV s' ∧ Q a

theorem PostV.pure {α} {Q : α → Prop} {a : α} (h : Q a) : PostV Q (pure a : PM α) := by
  intro s b s' hs hb
  cases hb
  exact ⟨hs, h⟩

theorem PostV.bind {α β} {P : α → Prop} {Q : β → Prop} {m : PM α} {f : α → PM β}
    (hm : PostV P m) (hf : ∀ a, P a → PostV Q (f a)) : PostV Q (m >>= f) := by
  intro s b s' hs hb
  rw [PM.bind_eq] at hb
  cases hr : m s with
  | error e => rw [hr] at hb; cases hb
  | ok p =>
    rw [hr] at hb
    obtain ⟨a, s1⟩ := p
    obtain ⟨hs1, ha⟩ := hm s a s1 hs hr
    exact hf a ha s1 b s' hs1 hb

theorem PostV.fail {α} {Q : α → Prop} {e : PErr} : PostV Q (Parser.fail e : PM α) := by
  intro s b s' _ hb
  cases hb

theorem PostV.fail_bind {α β} {Q : β → Prop} {e : PErr} {f : α → PM β} :
    PostV Q ((Parser.fail e : PM α) >>= f) :=
  PostV.bind (P := fun _ => False) PostV.fail (fun _ h => h.elim)

theorem PostV.ite {α} {Q : α → Prop} {c : Prop} [Decidable c] {a b : PM α} (ha : c → PostV Q a)
    (hb : ¬c → PostV Q b) : PostV Q (if c then a else b) := by
  by_cases h : c
  · rw [if_pos h]; exact ha h
  · rw [if_neg h]; exact hb h

theorem PostV.get : PostV StV (get : PM PState) := by
  intro s a s' hs h
  cases h
  exact ⟨hs, hs⟩
theorem PostV.currType : PostV (fun _ => True) Parser.currType := by
  intro s a s' hs h
  cases h
  exact ⟨hs, trivial⟩
theorem PostV.nextType : PostV (fun _ => True) Parser.nextType := by
  intro s a s' hs h
  cases h
  exact ⟨hs, trivial⟩
theorem PostV.currValue : PostV (fun _ => True) Parser.currValue := by
  intro s a s' hs h
  cases h
  exact ⟨hs, trivial⟩

theorem PostV.advance : PostV (fun _ => True) Parser.advance := by
  intro s a s' hs h
  obtain ⟨c, n, rest, le⟩ := s
  obtain ⟨h1, h2, h3⟩ := hs
  cases rest with
  | nil =>
    cases le with
    | none =>
      have : Parser.advance ⟨c, n, [], none⟩ = .ok ((), ⟨n, ⟨.end, []⟩, [], none⟩) := rfl
      rw [this] at h; cases h
      exact ⟨⟨h2, tokV_end, fun _ hx => by cases hx⟩, trivial⟩
    | some e =>
      have : Parser.advance ⟨c, n, [], some e⟩ = .error (.lex e) := rfl
      rw [this] at h; cases h
  | cons t r =>
    have : Parser.advance ⟨c, n, t :: r, le⟩ = .ok ((), ⟨n, t, r, le⟩) := rfl
    rw [this] at h; cases h
    exact ⟨⟨h2, h3 t (by simp), fun x hx => h3 x (by simp [hx])⟩, trivial⟩

theorem PostV.advance2 : PostV (fun _ => True) Parser.advance2 := by
  intro s a s' hs h
  obtain ⟨c, n, rest, le⟩ := s
  obtain ⟨h1, h2, h3⟩ := hs
  cases rest with
  | nil =>
    cases le with
    | none =>
      have : Parser.advance2 ⟨c, n, [], none⟩ = .ok ((), ⟨⟨.end, []⟩, ⟨.end, []⟩, [], none⟩) := rfl
      rw [this] at h; cases h
      exact ⟨⟨tokV_end, tokV_end, fun _ hx => by cases hx⟩, trivial⟩
    | some e =>
      have : Parser.advance2 ⟨c, n, [], some e⟩ = .error (.lex e) := rfl
      rw [this] at h; cases h
  | cons t r =>
    cases r with
    | nil =>
      cases le with
      | none =>
        have : Parser.advance2 ⟨c, n, [t], none⟩ = .ok ((), ⟨t, ⟨.end, []⟩, [], none⟩) := rfl
        rw [this] at h; cases h
        exact ⟨⟨h3 t (by simp), tokV_end, fun _ hx => by cases hx⟩, trivial⟩
      | some e =>
        have : Parser.advance2 ⟨c, n, [t], some e⟩ = .error (.lex e) := rfl
        rw [this] at h; cases h
    | cons t' r' =>
      have : Parser.advance2 ⟨c, n, t :: t' :: r', le⟩ = .ok ((), ⟨t, t', r', le⟩) := rfl
      rw [this] at h; cases h
      exact ⟨⟨h3 t (by simp), h3 t' (by simp), fun x hx => h3 x (by simp [hx])⟩, trivial⟩

/-! ### node predicates -/

abbrev VL (n : INode) : Prop := n.all INode.validHead = true
abbrev VLL (ns : List INode) : Prop := INode.allL INode.validHead ns = true
abbrev VLF (fs : List (Bytes × INode)) : Prop := INode.allF INode.validHead fs = true
abbrev VLO (o : Option INode) : Prop := ∀ n, o = some n → VL n
/-- the keys of the members collected so far are valid -/
def KeysV (fs : List (Bytes × INode)) : Prop := fs.all (fun kn => validUTF8 kn.1) = true

theorem VLO_none : VLO none := fun _ h => by cases h
theorem VLO_some {n : INode} (h : VL n) : VLO (some n) := fun _ e => by cases e; exact h

theorem all_getD {o : Option INode} (h : ∀ n, o = some n → INode.all INode.validHead n = true) :
    INode.all INode.validHead (o.getD .current) = true := by
  cases o with
  | none => rfl
  | some n => exact h n rfl

theorem VLL_snoc {acc : List INode} {a : INode} (h : VLL acc) (ha : VL a) : VLL (acc ++ [a]) := by
  show INode.allL _ _ = true
  rw [allL_snoc, h, ha]; rfl

theorem VLF_assocInsert {k : Bytes} {v : INode} (hv : VL v) : ∀ {fs : List (Bytes × INode)}, VLF fs →
    VLF (assocInsert k v fs)
  | [], _ => by simp only [VLF, assocInsert, INode.allF, Bool.and_eq_true]; exact ⟨hv, trivial⟩
  | (k', v') :: rest, h => by
    simp only [VLF, INode.allF, Bool.and_eq_true] at h
    simp only [assocInsert]
    split
    · simp only [VLF, INode.allF, Bool.and_eq_true]; exact ⟨hv, h.2⟩
    · split
      · simp only [VLF, INode.allF, Bool.and_eq_true]; exact ⟨hv, h.1, h.2⟩
      · simp only [VLF, INode.allF, Bool.and_eq_true]; exact ⟨h.1, VLF_assocInsert hv h.2⟩

theorem allF_assocInsert {k : Bytes} {v : INode} {fs : List (Bytes × INode)}
    (hv : v.all INode.validHead = true) (h : INode.allF INode.validHead fs = true) :
    INode.allF INode.validHead (assocInsert k v fs) = true :=
  VLF_assocInsert hv h

theorem KeysV_assocInsert {k : Bytes} {v : INode} (hk : validUTF8 k = true) : ∀ {fs : List (Bytes × INode)},
    KeysV fs → KeysV (assocInsert k v fs)
  | [], _ => by simp [KeysV, assocInsert, hk]
  | (k', v') :: rest, h => by
    simp only [KeysV, List.all_cons, Bool.and_eq_true] at h
    simp only [assocInsert]
    split
    · simp only [KeysV, List.all_cons, Bool.and_eq_true]; exact ⟨hk, h.2⟩
    · split
      · simp only [KeysV, List.all_cons, Bool.and_eq_true]; exact ⟨hk, h.1, h.2⟩
      · simp only [KeysV, List.all_cons, Bool.and_eq_true]; exact ⟨h.1, KeysV_assocInsert hk h.2⟩

theorem KeysV_nil : KeysV [] := rfl

theorem VL_lit {v : Val} (h : v.Valid = true) : VL (.lit v) := by
  simp only [VL, INode.all, INode.validHead]; exact h

theorem VL_strlit {s : PState} (hs : StV s) (ht : s.curr.type = .stringLiteral) :
    VL (.lit (.str (parseStringLiteral s.curr.value))) :=
  VL_lit (valid_str.mpr (parseStringLiteral_valid (hs.1.2.1 ht)))

theorem VL_selectObjectSingleCurrent {k : Bytes} {f : INode} (hk : validUTF8 k = true) (hf : VL f) :
    VL (.selectObjectSingleCurrent k f) := by
  simp only [VL, INode.all, INode.validHead, Bool.and_eq_true]; exact ⟨hk, hf⟩
theorem VL_selectObjectSingle {c : INode} {k : Bytes} {f : INode} (hc : VL c) (hk : validUTF8 k = true) (hf : VL f) :
    VL (.selectObjectSingle c k f) := by
  simp only [VL, INode.all, INode.validHead, Bool.and_eq_true]; exact ⟨⟨hk, hc⟩, hf⟩
theorem VL_selectObjectCurrent {fs : List (Bytes × INode)} (hk : KeysV fs) (hf : VLF fs) :
    VL (.selectObjectCurrent fs) := by
  simp only [VL, INode.all, INode.validHead, Bool.and_eq_true]; exact ⟨hk, hf⟩
theorem VL_selectObject {c : INode} {fs : List (Bytes × INode)} (hc : VL c) (hk : KeysV fs) (hf : VLF fs) :
    VL (.selectObject c fs) := by
  simp only [VL, INode.all, INode.validHead, Bool.and_eq_true]; exact ⟨⟨hk, hc⟩, hf⟩

/-- close a `VL`/`VLL`/`VLF`/`VLO` goal from the hypotheses in scope -/
macro "vl_close" : tactic => `(tactic| first
  | assumption
  | exact VLO_none
  | exact VLO_some (by assumption)
  | rfl
  | (simp_all [VL, VLL, VLF, VLO, INode.all, INode.allL, INode.allF, INode.validHead, all_getD, allL_snoc, allF_assocInsert]; done)
  | (split <;> simp_all [VL, VLL, VLF, VLO, INode.all, INode.allL, INode.allF, INode.validHead, all_getD, allL_snoc, allF_assocInsert]; done))

theorem indexP_ok (child : Option INode) (h : VLO child) : PostV (fun p => VL p.1) (indexP child) := by
  cases child with
  | none =>
    simp only [indexP]
    repeat (first
      | exact PostV.fail
      | exact PostV.fail_bind
      | (refine PostV.bind PostV.currType fun _ _ => ?_)
      | (refine PostV.bind PostV.nextType fun _ _ => ?_)
      | (refine PostV.bind PostV.currValue fun _ _ => ?_)
      | (refine PostV.bind PostV.advance fun _ _ => ?_)
      | (refine PostV.bind PostV.advance2 fun _ _ => ?_)
      | (refine PostV.bind (P := fun _ => True) ?_ fun _ _ => ?_)
      | (refine PostV.ite (fun _ => ?_) (fun _ => ?_))
      | exact PostV.pure trivial
      | exact PostV.pure rfl
      | split)
  | some c =>
    have hc : VL c := h c rfl
    simp only [indexP]
    repeat (first
      | exact PostV.fail
      | exact PostV.fail_bind
      | (refine PostV.bind PostV.currType fun _ _ => ?_)
      | (refine PostV.bind PostV.nextType fun _ _ => ?_)
      | (refine PostV.bind PostV.currValue fun _ _ => ?_)
      | (refine PostV.bind PostV.advance fun _ _ => ?_)
      | (refine PostV.bind PostV.advance2 fun _ _ => ?_)
      | (refine PostV.bind (P := fun _ => True) ?_ fun _ _ => ?_)
      | (refine PostV.ite (fun _ => ?_) (fun _ => ?_))
      | exact PostV.pure trivial
      | (refine PostV.pure ?_; show INode.all _ _ = true; simp only [INode.all, Bool.and_eq_true]; exact ⟨rfl, hc⟩)
      | split)

def SpecOK : ArgSpec → Prop
  | .fixed _ _ mk => ∀ args, VLL args → VL (mk args)
  | .varArg mk => ∀ args, VLL args → VL (mk args)
  | .expArg mk => ∀ a b, VL a → VL b → VL (mk a b)
  | .mapArg mk => ∀ a b, VL a → VL b → VL (mk a b)

theorem VL_call (f : Fn) {args : List INode} (h : VLL args) : VL (.call f args) := by
  simp only [VL, INode.all, Bool.and_eq_true]; exact ⟨rfl, h⟩

theorem builtin_ok : ∀ e ∈ builtinTable, SpecOK e.2 := by
  simp only [builtinTable, List.forall_mem_cons]
  repeat' apply And.intro
  all_goals first
    | (intro args h; exact VL_call _ h)
    | (intro args h; show VL (if _ then _ else _); split <;> exact VL_call _ h)
    | (intro args h; show VL (match _ with | 2 => _ | 3 => _ | _ => _); split <;> exact VL_call _ h)
    | (intro args h; simp only [VL, INode.all, Bool.and_eq_true]; exact ⟨rfl, h⟩)
    | (intro a b ha hb; simp only [VL, INode.all, Bool.and_eq_true]; exact ⟨⟨rfl, ha⟩, hb⟩)
    | (intro a b ha hb; simp only [VL, INode.all, Bool.and_eq_true]; exact ⟨⟨rfl, hb⟩, ha⟩)
    | (intro x hx; cases hx)

theorem lookupBuiltin_ok {name : Bytes} {spec : ArgSpec} (h : lookupBuiltin name = some spec) : SpecOK spec := by
  simp only [lookupBuiltin, Option.map_eq_some_iff] at h
  obtain ⟨e, he, rfl⟩ := h
  exact builtin_ok e (List.mem_of_find?_eq_some he)

theorem fixed_ok {name : Bytes} {mn mx : Nat} {mk : List INode → INode}
    (h : lookupBuiltin name = some (.fixed mn mx mk)) {args : List INode} (ha : VLL args) : VL (mk args) :=
  lookupBuiltin_ok h args ha
theorem varArg_ok {name : Bytes} {mk : List INode → INode}
    (h : lookupBuiltin name = some (.varArg mk)) {args : List INode} (ha : VLL args) : VL (mk args) :=
  lookupBuiltin_ok h args ha
theorem expArg_ok {name : Bytes} {mk : INode → INode → INode}
    (h : lookupBuiltin name = some (.expArg mk)) {a b : INode} (ha : VL a) (hb : VL b) : VL (mk a b) :=
  lookupBuiltin_ok h a b ha hb
theorem mapArg_ok {name : Bytes} {mk : INode → INode → INode}
    (h : lookupBuiltin name = some (.mapArg mk)) {a b : INode} (ha : VL a) (hb : VL b) : VL (mk a b) :=
  lookupBuiltin_ok h a b ha hb

structure PIH (fuel : Nat) : Prop where
  expression : ∀ prec, PostV VL (expression fuel prec)
  exprLoop : ∀ node prec, VL node → PostV VL (exprLoop fuel node prec)
  filterP : PostV VL (filterP fuel)
  fnArgs : ∀ mn mx acc, VLL acc → PostV VLL (fnArgs fuel mn mx acc)
  fnVarArgs : ∀ acc, VLL acc → PostV VLL (fnVarArgs fuel acc)
  function : PostV VL (function fuel)
  letP : ∀ vars, VLF vars → PostV VL (letP fuel vars)
  primaryExpression : PostV VL (primaryExpression fuel)
  projection : ∀ prec, PostV VLO (projection fuel prec)
  selectArray : ∀ child, VLO child → PostV VL (selectArray fuel child)
  selectArrayLoop : ∀ child fields, VLO child → VLL fields → PostV VL (selectArrayLoop fuel child fields)
  selectObject : ∀ child, VLO child → PostV VL (selectObject fuel child)
  selectObjectLoop : ∀ child fields, VLO child → VLF fields → KeysV fields →
    PostV VL (selectObjectLoop fuel child fields)

macro "postv_auto" ih:ident : tactic => `(tactic| repeat' (first
  | exact PostV.fail
  | exact PostV.fail_bind
  | (refine PostV.bind (PIH.expression $ih _) fun _ _ => ?_)
  | (refine PostV.bind (PIH.projection $ih _) fun _ _ => ?_)
  | (refine PostV.bind (PIH.filterP $ih) fun _ _ => ?_)
  | (refine PostV.bind (PIH.primaryExpression $ih) fun _ _ => ?_)
  | (refine PostV.bind (PIH.exprLoop $ih _ _ (by vl_close)) fun _ _ => ?_)
  | (refine PostV.bind (PIH.selectObject $ih _ (by vl_close)) fun _ _ => ?_)
  | (refine PostV.bind (PIH.selectArray $ih _ (by vl_close)) fun _ _ => ?_)
  | (refine PostV.bind (PIH.fnArgs $ih _ _ _ rfl) fun _ _ => ?_)
  | (refine PostV.bind (PIH.fnVarArgs $ih _ rfl) fun _ _ => ?_)
  | (refine PostV.bind (indexP_ok _ (by vl_close)) fun _ _ => ?_)
  | exact PIH.expression $ih _
  | exact PIH.function $ih
  | exact PIH.exprLoop $ih _ _ (by vl_close)
  | exact PIH.selectObject $ih _ (by vl_close)
  | exact PIH.selectArray $ih _ (by vl_close)
  | exact PIH.letP $ih _ (by vl_close)
  | exact PIH.letP $ih _ (VLF_assocInsert (by assumption) (by assumption))
  | exact PIH.fnArgs $ih _ _ _ (VLL_snoc (by assumption) (by assumption))
  | exact PIH.fnVarArgs $ih _ (VLL_snoc (by assumption) (by assumption))
  | exact PIH.selectArrayLoop $ih _ _ (by assumption) (by vl_close)
  | exact PIH.selectArrayLoop $ih _ _ (by assumption) (VLL_snoc (by assumption) (by assumption))
  | exact PIH.selectObjectLoop $ih _ _ (by assumption) rfl KeysV_nil
  | exact PIH.selectObjectLoop $ih _ _ (by assumption) (VLF_assocInsert (by assumption) (by assumption))
      (KeysV_assocInsert (by assumption) (by assumption))
  | exact PostV.pure (VLL_snoc (by assumption) (by assumption))
  | exact PostV.pure (VL_lit (parseJSONLiteral_valid (by assumption)))
  | exact PostV.pure (VL_strlit (by assumption) (by assumption))
  | exact PostV.pure (fixed_ok (by assumption) (by assumption))
  | exact PostV.pure (varArg_ok (by assumption) (by assumption))
  | exact PostV.pure (expArg_ok (by assumption) (by assumption) (by assumption))
  | exact PostV.pure (mapArg_ok (by assumption) (by assumption) (by assumption))
  | exact PostV.pure (VL_selectObjectSingleCurrent (by assumption) (by assumption))
  | exact PostV.pure (VL_selectObjectSingle (by assumption) (by assumption) (by assumption))
  | exact PostV.pure (VL_selectObjectCurrent (KeysV_assocInsert (by assumption) (by assumption))
      (VLF_assocInsert (by assumption) (by assumption)))
  | exact PostV.pure (VL_selectObject (by assumption) (KeysV_assocInsert (by assumption) (by assumption))
      (VLF_assocInsert (by assumption) (by assumption)))
  | (with_reducible refine PostV.bind PostV.get fun _ _ => ?_)
  | (with_reducible refine PostV.bind PostV.currType fun _ _ => ?_)
  | (with_reducible refine PostV.bind PostV.nextType fun _ _ => ?_)
  | (with_reducible refine PostV.bind PostV.currValue fun _ _ => ?_)
  | (with_reducible refine PostV.bind PostV.advance fun _ _ => ?_)
  | (with_reducible refine PostV.bind PostV.advance2 fun _ _ => ?_)
  | (refine PostV.ite (fun _ => ?_) (fun _ => ?_))
  | split
  | (refine PostV.pure ?_; vl_close)))

theorem step_expression {fuel : Nat} (ih : PIH fuel) (prec : Nat) : PostV VL (expression (fuel+1) prec) := by
  simp only [expression]
  postv_auto ih

theorem step_exprLoop {fuel : Nat} (ih : PIH fuel) (node : INode) (prec : Nat) (hn : VL node) :
    PostV VL (exprLoop (fuel+1) node prec) := by
  simp only [exprLoop]
  postv_auto ih

theorem step_filterP {fuel : Nat} (ih : PIH fuel) : PostV VL (filterP (fuel+1)) := by
  simp only [filterP]
  postv_auto ih

theorem step_fnArgs {fuel : Nat} (ih : PIH fuel) (mn mx : Nat) (acc : List INode) (ha : VLL acc) :
    PostV VLL (fnArgs (fuel+1) mn mx acc) := by
  simp only [fnArgs]
  postv_auto ih

theorem step_fnVarArgs {fuel : Nat} (ih : PIH fuel) (acc : List INode) (ha : VLL acc) :
    PostV VLL (fnVarArgs (fuel+1) acc) := by
  simp only [fnVarArgs]
  postv_auto ih

theorem step_function {fuel : Nat} (ih : PIH fuel) : PostV VL (function (fuel+1)) := by
  simp only [function]
  postv_auto ih

theorem step_letP {fuel : Nat} (ih : PIH fuel) (vars : List (Bytes × INode)) (hv : VLF vars) :
    PostV VL (letP (fuel+1) vars) := by
  simp only [letP]
  postv_auto ih

theorem step_primaryExpression {fuel : Nat} (ih : PIH fuel) : PostV VL (primaryExpression (fuel+1)) := by
  simp only [primaryExpression]
  refine PostV.bind PostV.get fun s hs => ?_
  split <;> postv_auto ih

theorem step_projection {fuel : Nat} (ih : PIH fuel) (prec : Nat) : PostV VLO (projection (fuel+1) prec) := by
  simp only [projection]
  postv_auto ih

theorem step_selectArray {fuel : Nat} (ih : PIH fuel) (child : Option INode) (hc : VLO child) :
    PostV VL (selectArray (fuel+1) child) := by
  simp only [selectArray]
  postv_auto ih

theorem step_selectArrayLoop {fuel : Nat} (ih : PIH fuel) (child : Option INode) (fields : List INode)
    (hc : VLO child) (hf : VLL fields) : PostV VL (selectArrayLoop (fuel+1) child fields) := by
  simp only [selectArrayLoop]
  postv_auto ih

theorem step_selectObject {fuel : Nat} (ih : PIH fuel) (child : Option INode) (hc : VLO child) :
    PostV VL (selectObject (fuel+1) child) := by
  simp only [selectObject]
  postv_auto ih

theorem step_selectObjectLoop {fuel : Nat} (ih : PIH fuel) (child : Option INode) (fields : List (Bytes × INode))
    (hc : VLO child) (hf : VLF fields) (hk : KeysV fields) : PostV VL (selectObjectLoop (fuel+1) child fields) := by
  simp only [selectObjectLoop]
  refine PostV.bind PostV.get fun s hs => ?_
  -- the key: an unquoted identifier (ASCII) or an un-escaped quoted identifier
  refine PostV.bind (P := fun k => validUTF8 k = true) ?_ fun key hkey => ?_
  · split
    · next ht =>
      split
      · exact PostV.fail
      · next k hq => exact PostV.pure (parseQuotedIdentifier_valid (hs.1.2.2 ht) hq)
    · exact PostV.pure hs.1.1
    · exact PostV.fail
  · cases child with
    | none => postv_auto ih
    | some c =>
      have hc' : VL c := hc c rfl
      postv_auto ih

theorem pih : ∀ fuel, PIH fuel
  | 0 => by
    constructor <;> intros <;>
      simp only [expression, exprLoop, filterP, fnArgs, fnVarArgs, function, letP, primaryExpression, projection,
        selectArray, selectArrayLoop, selectObject, selectObjectLoop] <;> exact PostV.fail
  | fuel + 1 =>
    have ih := pih fuel
    ⟨step_expression ih, step_exprLoop ih, step_filterP ih, step_fnArgs ih, step_fnVarArgs ih, step_function ih,
      step_letP ih, step_primaryExpression ih, step_projection ih, step_selectArray ih, step_selectArrayLoop ih,
      step_selectObject ih, step_selectObjectLoop ih⟩

end PV

/-! ## every compiled expression has valid literals -/

open Parser ParserLits PV in
/-- **the literals (and multi-select keys) of a compiled expression are valid UTF-8, for ANY expression bytes**: the
    lexer rejects ill-formed UTF-8, the un-escaping routines preserve validity, `encoding/json` replaces what is left -/
theorem parse_validLits {expr : Bytes} {n : INode} (h : Parser.parse expr = .ok n) : n.ValidLits = true := by
  unfold Parser.parse at h
  have htok : ∀ t ∈ (lexAll expr).1, TokV t := lexAllAux_tokV _ _ _ _ rfl
  generalize lexAll expr = p at h htok
  obtain ⟨ts, e⟩ := p
  simp only [] at h htok
  split at h
  · cases h
  · next st hinit =>
    have hst : StV st := by
      split at hinit
      · next t0 t1 rest =>
        cases hinit
        exact ⟨htok t0 (by simp), htok t1 (by simp), fun x hx => htok x (by simp [hx])⟩
      · next t0 =>
        split at hinit
        · cases hinit
        · cases hinit
          exact ⟨htok t0 (by simp), tokV_end, fun x hx => by cases hx⟩
      · split at hinit
        · cases hinit
        · cases hinit
          exact ⟨tokV_end, tokV_end, fun x hx => by cases hx⟩
    split at h
    · next n' s' hr =>
      cases h
      have hp : PostV VL (do
          let node ← expression (fuelFor ts.length) 1
          if (← currType) != .end then Parser.fail .unexpectedToken
          return node : PM INode) := by
        refine PostV.bind ((PV.pih _).expression _) fun node hn => ?_
        refine PostV.bind PostV.currType fun _ _ => ?_
        refine PostV.ite (fun _ => ?_) (fun _ => ?_)
        · exact PostV.fail_bind
        · exact PostV.pure hn
      exact (hp st n s' hst hr).2
    · cases h

theorem compile_validLits {expr : Bytes} {n : INode} (h : compile expr = .ok n) : n.ValidLits = true :=
  parse_validLits h

/-- **C11, valid in ⇒ valid out, with no hypothesis on the expression**: whatever bytes the expression consists of,
    if every string in the data (object keys included) is valid UTF-8, so is every string in the result. -/
theorem search_valid_any {e : Bytes} {d r : Val} (hd : d.Valid = true) (h : search e d = .ok r) : r.Valid = true :=
  search_valid hd (fun _ hp => parse_validLits hp) h

/-- … and through a compiled expression -/
theorem compiled_search_valid {e : Bytes} {n : INode} {d r : Val} (hc : compile e = .ok n) (hd : d.Valid = true)
    (h : evaluate n d = .ok r) : r.Valid = true :=
  evaluate_valid hd (compile_validLits hc) h

/-! ### examples -/

/-- ``split(@, 'ö')`` compiles to the node used in `Jmes.C11V.splitOnOe` -/
example : (match compile [0x73, 0x70, 0x6C, 0x69, 0x74, 0x28, 0x40, 0x2C, 0x20, 0x27, 0xC3, 0xB6, 0x27, 0x29] with
    | .ok (.call .split [.current, .lit (.str [0xC3, 0xB6])]) => true
    | _ => false) = true := by decide +kernel
example : ∀ n, compile [0x73, 0x70, 0x6C, 0x69, 0x74, 0x28, 0x40, 0x2C, 0x20, 0x27, 0xC3, 0xB6, 0x27, 0x29] = .ok n →
    n.ValidLits = true := fun _ h => compile_validLits h
example : ∀ r, search [0x73, 0x70, 0x6C, 0x69, 0x74, 0x28, 0x40, 0x2C, 0x20, 0x27, 0xC3, 0xB6, 0x27, 0x29]
    (.str helloWorldB) = .ok r → r.Valid = true := fun _ h => search_valid_any (by decide) h
/-- an expression with an ill-formed byte inside a raw string literal (`'\xFF'`) does not compile: there is no literal
    to worry about -/
example : (match compile [0x27, 0xFF, 0x27] with | .error _ => true | .ok _ => false) = true := by decide +kernel
/-- the JSON literal `` `"\ud800"` `` (a lone surrogate escape) compiles to the literal U+FFFD -/
example : (match compile [0x60, 0x22, 0x5C, 0x75, 0x64, 0x38, 0x30, 0x30, 0x22, 0x60] with
    | .ok (.lit (.str [0xEF, 0xBF, 0xBD])) => true
    | _ => false) = true := by decide +kernel
/-- the hypothesis on the data is still needed: `@` on an invalid string returns it -/
example : (match search [0x40] (.str [0xFF]) with | .ok (.str [0xFF]) => true | _ => false) = true := by decide +kernel

end C11V
end Jmes

#print axioms Jmes.C11V.valid_split_ascii
#print axioms Jmes.C11V.parseStringLiteral_valid
#print axioms Jmes.C11V.parseQuotedIdentifier_valid
#print axioms Jmes.C11V.Json.decode_valid
#print axioms Jmes.C11V.tokShape_valid
#print axioms Jmes.C11V.lexAll_valid
#print axioms Jmes.C11V.parse_validLits
#print axioms Jmes.C11V.search_valid_any
#print axioms Jmes.C11V.compiled_search_valid
