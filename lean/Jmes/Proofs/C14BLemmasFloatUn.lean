/-
  Helper for property C14 (second round): the unary numeric operators (`-x`, `abs`, `ceil`, `floor`) on `float64` /
  `float32` operands are exact, so their results are related to the decimal results on any other representation of
  the same value.
-/
import Jmes.Proofs.C14BLemmasArith
import Jmes.Proofs.C14BFloat
namespace Jmes

namespace Dec

theorem normalize_neg (n : Bool) (c : Nat) (e : Int) : normalize (.fin (!n) c e) = (normalize (.fin n c e)).neg := by
  simp only [normalize]
  split <;> rfl

theorem normalize_abs (n : Bool) (c : Nat) (e : Int) : normalize (.fin false c e) = (normalize (.fin n c e)).abs := by
  simp only [normalize]
  split <;> rfl

theorem reduce_neg (n : Bool) (c : Nat) (e : Int) (st : Bool) : reduce (!n) c e st = (reduce n c e st).neg := by
  rw [reduce_eq, reduce_eq]
  by_cases h : c = 0 ∧ ¬ st
  · rw [if_pos h, if_pos h]; rfl
  · rw [if_neg h, if_neg h]
    generalize (if (reduceLow (dropHigh (Nat.log2 (c + 1) + 2) c e 0 st)).2.1 < EMIN then (0, EMIN, 0, true)
        else reduceLow (dropHigh (Nat.log2 (c + 1) + 2) c e 0 st)) = r3
    unfold reduceTail
    split
    · rfl
    · exact normalize_neg _ _ _

theorem reduce_abs (n : Bool) (c : Nat) (e : Int) (st : Bool) : reduce false c e st = (reduce n c e st).abs := by
  rw [reduce_eq, reduce_eq]
  by_cases h : c = 0 ∧ ¬ st
  · rw [if_pos h, if_pos h]; rfl
  · rw [if_neg h, if_neg h]
    generalize (if (reduceLow (dropHigh (Nat.log2 (c + 1) + 2) c e 0 st)).2.1 < EMIN then (0, EMIN, 0, true)
        else reduceLow (dropHigh (Nat.log2 (c + 1) + 2) c e 0 st)) = r3
    unfold reduceTail
    split
    · rfl
    · exact normalize_abs _ _ _

end Dec

namespace F64

/-- conversion to decimal commutes with negation -/
theorem toDec_neg (f : F64) : f.neg.toDec = f.toDec.neg := by
  cases f with
  | nan => rfl
  | inf n => rfl
  | fin n m e =>
    simp only [neg, toDec, Dec.ofBinary]
    split
    · rfl
    · split
      · exact Dec.reduce_neg _ _ _ _
      · exact Dec.reduce_neg _ _ _ _

theorem toDec_abs (f : F64) : f.abs.toDec = f.toDec.abs := by
  cases f with
  | nan => rfl
  | inf n => rfl
  | fin n m e =>
    simp only [abs, toDec, Dec.ofBinary]
    split
    · rfl
    · split
      · exact Dec.reduce_abs _ _ _ _
      · exact Dec.reduce_abs _ _ _ _

end F64

namespace C14B
open C14

theorem fok_neg {f : F64} (h : FOK f) : FOK f.neg := by
  obtain ⟨⟨h1, h2, h3⟩, h4, h5⟩ := h
  cases f with
  | nan => exact ⟨⟨trivial, trivial, by simp [F64.neg]⟩, by simp [F64.neg], trivial⟩
  | inf n => exact ⟨⟨trivial, trivial, by simp [F64.neg]⟩, by simp [F64.neg], trivial⟩
  | fin n m e =>
    refine ⟨⟨h1, h2, ?_⟩, ?_, h5⟩
    · intro heq
      simp only [F64.neg, F64.fin.injEq, Bool.not_eq_false'] at heq
      exact h4 (by rw [heq.1, heq.2.1, heq.2.2])
    · intro heq
      simp only [F64.neg, F64.fin.injEq, Bool.not_eq_true'] at heq
      exact h3 (by rw [heq.1, heq.2.1, heq.2.2])

theorem fok_abs {f : F64} (h : FOK f) : FOK f.abs := by
  obtain ⟨⟨h1, h2, h3⟩, h4, h5⟩ := h
  cases f with
  | nan => exact ⟨⟨trivial, trivial, by simp [F64.abs]⟩, by simp [F64.abs], trivial⟩
  | inf n => exact ⟨⟨trivial, trivial, by simp [F64.abs]⟩, by simp [F64.abs], trivial⟩
  | fin n m e =>
    refine ⟨⟨h1, h2, ?_⟩, by simp [F64.abs], h5⟩
    intro heq
    simp only [F64.abs, F64.fin.injEq, true_and] at heq
    cases n
    · exact h3 (by rw [heq.1, heq.2])
    · exact h4 (by rw [heq.1, heq.2])

section
variable {nf : Bool}

/-- the float carried by a number, if any -/
theorem toFloat_num_cases (a : Num) :
    (∃ f, toFloat (.num a) = some f ∧ toDecimal (.num a) = some f.toDec ∧ (NumOK a → FOK f) ∧ ¬ a.NoFloat) ∨
    (toFloat (.num a) = none ∧ a.NoFloat) := by
  cases a with
  | f64 f => exact .inl ⟨f, rfl, rfl, fun h => h, by simp [Num.NoFloat]⟩
  | f32 f => exact .inl ⟨f, rfl, rfl, fun h => h, by simp [Num.NoFloat]⟩
  | jnum _ => exact .inr ⟨rfl, trivial⟩
  | dec _ => exact .inr ⟨rfl, trivial⟩
  | int _ _ => exact .inr ⟨rfl, trivial⟩

/-- the result of a unary operator with a float path `fop` and a decimal path `dop` -/
def unOp (fop : F64 → F64) (dop : Dec → Dec) (a : Num) : Option Num :=
  match toFloat (.num a) with
  | some f => some (.f64 (fop f))
  | none => (toDecimal (.num a)).map (fun d => .dec (dop d))

/-- **a unary operator whose float path is exact** (its decimal value is that of the decimal path on the converted
    operand) maps related numbers to related numbers, whatever mix of representations -/
theorem unOp_nr (fop : F64 → F64) (dop : Dec → Dec)
    (hcomm : ∀ f, FOK f → f.toDec ≠ .nan → Dec.cmp (fop f).toDec (dop f.toDec) = some 0)
    (hnn : ∀ f, f.toDec ≠ .nan → (fop f).toDec ≠ .nan)
    (hc : ∀ {d d'}, Dec.cmp d d' = some 0 → Dec.cmp (dop d) (dop d') = some 0)
    (hb : ∀ {d}, d.Bounded → (dop d).Bounded) (hf : ∀ f, FOK f → FOK (fop f))
    {a b : Num} (h : NR nf a b) : ∃ r r', unOp fop dop a = some r ∧ unOp fop dop b = some r' ∧ NR nf r r' := by
  obtain ⟨da, db, h1, h2, h3, h4⟩ := h.dec
  have hda : da ≠ .nan := Dec.ne_nan_of_cmp_left h3
  have hdb : db ≠ .nan := Dec.ne_nan_of_cmp_right h3
  -- each side: the result and its decimal
  have side : ∀ (x : Num) (dx : Dec), toDecimal (.num x) = some dx → dx ≠ .nan →
      ∃ r dr, unOp fop dop x = some r ∧ toDecimal (.num r) = some dr ∧ dr ≠ .nan ∧
        (NumOK x → Dec.cmp dr (dop dx) = some 0) ∧ (NumOK x → NumOK r) ∧ (x.NoFloat → r.NoFloat) := by
    intro x dx hx hdx
    rcases toFloat_num_cases x with ⟨f, g1, g2, g3, g4⟩ | ⟨g1, g2⟩
    · rw [hx] at g2; cases g2
      exact ⟨.f64 (fop f), (fop f).toDec, by simp [unOp, g1], rfl, hnn f hdx, fun ok => hcomm f (g3 ok) hdx,
        fun ok => hf f (g3 ok), fun hn => absurd hn g4⟩
    · have hnn' : dop dx ≠ .nan := Dec.ne_nan_of_cmp_left (hc (Dec.cmp_self hdx))
      exact ⟨.dec (dop dx), dop dx, by simp [unOp, g1, hx], rfl, hnn', fun _ => Dec.cmp_self hnn',
        fun ok => hb (toDecimal_bounded ok.good hx), fun _ => trivial⟩
  obtain ⟨r, dr, e1, e2, e3, e4, e5, e6⟩ := side a da h1 hda
  obtain ⟨r', dr', e1', e2', e3', e4', e5', e6'⟩ := side b db h2 hdb
  refine ⟨r, r', e1, e1', ?_, ?_, ?_⟩
  · rcases h.2.1 with ⟨oa, ob⟩ | e
    · exact ⟨dr, dr', e2, e2',
        Dec.cmp_zero_trans (e4 oa) (Dec.cmp_zero_trans (hc h3) (Dec.cmp_zero_symm (e4' ob)))⟩
    · subst e; rw [e1] at e1'; cases e1'; rw [e2] at e2'; cases e2'
      exact ⟨dr, dr, e2, e2, Dec.cmp_self e3⟩
  · rcases h.2.1 with ⟨oa, ob⟩ | e
    · exact .inl ⟨e5 oa, e5' ob⟩
    · subst e; rw [e1] at e1'; cases e1'; exact .inr rfl
  · intro hn
    obtain ⟨na, nb⟩ := h.2.2 hn
    exact ⟨e6 na, e6' nb⟩

theorem toDec_ne_nan_neg {f : F64} (h : f.toDec ≠ .nan) : f.neg.toDec ≠ .nan := by
  rw [F64.toDec_neg]; cases hd : f.toDec <;> simp_all [Dec.neg]

theorem toDec_ne_nan_abs {f : F64} (h : f.toDec ≠ .nan) : f.abs.toDec ≠ .nan := by
  rw [F64.toDec_abs]; cases hd : f.toDec <;> simp_all [Dec.abs]

/-! ### negation, absolute value -/

/-- the decimal path of unary minus: zero is returned as it is -/
def negD (d : Dec) : Dec := if d.isZero then d else d.neg

theorem negD_cmp {d d' : Dec} (h : Dec.cmp d d' = some 0) : Dec.cmp (negD d) (negD d') = some 0 := by
  unfold negD
  rw [Dec.isZero_cmp h]
  split
  · exact h
  · exact Dec.neg_cmp h

theorem negD_bounded {d : Dec} (h : d.Bounded) : (negD d).Bounded := by
  unfold negD; split
  · exact h
  · exact Dec.neg_bounded h

theorem cmp_negD_neg {d : Dec} (h : d ≠ .nan) : Dec.cmp d.neg (negD d) = some 0 := by
  unfold negD
  split
  · next hz =>
    cases d with
    | fin n c e =>
      cases c with
      | zero => exact Dec.cmp_zero_zero ..
      | succ c => simp [Dec.isZero] at hz
    | _ => simp [Dec.isZero] at hz
  · exact Dec.cmp_self (by cases d <;> simp_all [Dec.neg])

theorem negateVal_eq_unOp (a : Num) :
    negateVal (.num a) = (match unOp F64.neg negD a with | some r => .num r | none => .null) := by
  unfold negateVal unOp negD
  cases toFloat (.num a) with
  | some f => rfl
  | none =>
    cases toDecimal (.num a) with
    | none => rfl
    | some d => simp only [Option.map_some]; split <;> rfl

/-- **unary minus depends on the value only, floats included** -/
theorem negateVal_vr_any {x x' : Val} (h : VR nf x x') : VR nf (negateVal x) (negateVal x') := by
  cases x <;> cases x' <;> simp only [VR] at h <;> try exact vr_null
  obtain ⟨r, r', e1, e2, e3⟩ := unOp_nr F64.neg negD
    (fun f _ hf => by rw [F64.toDec_neg]; exact cmp_negD_neg hf) (fun f => toDec_ne_nan_neg) negD_cmp negD_bounded
    (fun f => fok_neg) h
  rw [negateVal_eq_unOp, negateVal_eq_unOp, e1, e2]
  simp only [VR]; exact e3

theorem numAbs_eq_unOp (a : Num) :
    numAbs (.num a) = (match unOp F64.abs Dec.abs a with | some r => .ok (.num r) | none => errType) := by
  unfold numAbs unOp
  cases toFloat (.num a) with
  | some f => rfl
  | none => cases toDecimal (.num a) <;> rfl

/-- **`abs` depends on the value only, floats included** -/
theorem numAbs_rr_any {x x' : Val} (h : VR nf x x') : RR (VR nf) (numAbs x) (numAbs x') := by
  cases x <;> cases x' <;> simp only [VR] at h <;> try exact rr_errType
  obtain ⟨r, r', e1, e2, e3⟩ := unOp_nr F64.abs Dec.abs
    (fun f _ hf => by
      rw [F64.toDec_abs]
      exact Dec.cmp_self (Dec.ne_nan_of_cmp_left (Dec.abs_cmp (Dec.cmp_self hf))))
    (fun f => toDec_ne_nan_abs) Dec.abs_cmp Dec.abs_bounded (fun f => fok_abs) h
  rw [numAbs_eq_unOp, numAbs_eq_unOp, e1, e2]
  exact RR.ok' (by simp only [VR]; exact e3)

/-! ### ceil, floor -/

/-- `math.Ceil` (`b = false`) and `math.Floor` (`b = true`) -/
def rintF (b : Bool) : F64 → F64
  | .fin n m e =>
    if e ≥ 0 ∨ m = 0 then .fin n m e
    else if n = b then F64.mk n (m / 2 ^ (-e).toNat + 1) 0 else F64.mk n (m / 2 ^ (-e).toNat) 0
  | f => f

theorem ceil_eq_rintF (f : F64) : f.ceil = rintF false f := by
  cases f with
  | fin n m e => simp only [F64.ceil, rintF]; split; · rfl
                 · cases n <;> simp
  | _ => rfl

theorem floor_eq_rintF (f : F64) : f.floor = rintF true f := by
  cases f with
  | fin n m e => simp only [F64.floor, rintF]
  | _ => rfl

theorem mk_fin_ne_nan (n : Bool) (v : Nat) (e : Int) : (F64.mk n v e).toDec ≠ .nan := by
  unfold F64.mk
  split
  · exact C14BF.toDec_fin_ne_nan _ _ _
  · exact C14BF.toDec_fin_ne_nan _ _ _

theorem rintF_ne_nan (b : Bool) {f : F64} (h : f.toDec ≠ .nan) : (rintF b f).toDec ≠ .nan := by
  cases f with
  | nan => exact h
  | inf n => exact h
  | fin n m e =>
    simp only [rintF]
    split
    · exact h
    · split <;> exact mk_fin_ne_nan _ _ _

/-- an odd significand leaves a non-zero remainder modulo `2^k`, `k ≥ 1` -/
theorem odd_mod_pow {m k : Nat} (hm : m % 2 = 1) (hk : 0 < k) : m % 2 ^ k ≠ 0 := by
  intro h
  have hd : 2 ∣ 2 ^ k := ⟨2 ^ (k - 1), by rw [← Nat.pow_succ']; congr 1; omega⟩
  have := Nat.mod_mod_of_dvd m hd
  rw [h] at this
  omega

/-- the integer the rounding produces is at most the significand -/
theorem rint_le {m k : Nat} (hm : m % 2 = 1) (hk : 0 < k) : m / 2 ^ k + 1 ≤ m := by
  have h2 : 2 ≤ 2 ^ k := by
    calc 2 = 2 ^ 1 := rfl
      _ ≤ 2 ^ k := Nat.pow_le_pow_right (by decide) hk
  have : m / 2 ^ k ≤ m / 2 := Nat.div_le_div_left h2 (by decide)
  omega

/-- the float `mk n v 0` for `v ≤ MAXSIG`, `v < 2^53` is well-formed -/
theorem fok_mk_int (n : Bool) (v : Nat) (hv : v < 2 ^ 53) : FOK (F64.mk n v 0) := by
  have h53 := F64.two53_le_MAXSIG
  by_cases hz : v = 0
  · subst hz
    simp only [F64.mk, if_true]
    refine ⟨⟨.inr ⟨rfl, rfl⟩, ⟨fun _ => by simp, fun h => absurd h (by decide)⟩, by simp⟩, by simp, by simp [F64Small]⟩
  · obtain ⟨m', k, h1, h2, h3⟩ := F64.mk_spec n v 0 hz
    rw [h1]
    have hm' : m' ≤ v := by rw [h2]; exact Nat.le_mul_of_pos_right _ (Nat.pow_pos (by decide))
    have hk : ((0 : Int) + (k : Int)).toNat = k := by omega
    have hne : ∀ s : Bool, F64.fin n m' (0 + (k : Int)) ≠ .fin s 1 63 := by
      intro s heq
      simp only [F64.fin.injEq] at heq
      obtain ⟨_, hm1, hk63⟩ := heq
      have : k = 63 := by omega
      subst this; subst hm1
      rw [h2] at hv
      exact absurd hv (by decide)
    refine ⟨⟨.inl h3, ⟨fun _ => by rw [hk, ← h2]; omega, fun h => by omega⟩, hne false⟩, hne true, ?_⟩
    simp only [F64Small]; omega

theorem fok_rintF (b : Bool) {f : F64} (h : FOK f) : FOK (rintF b f) := by
  cases f with
  | nan => exact h
  | inf n => exact h
  | fin n m e =>
    simp only [rintF]
    split
    · exact h
    · next hcond =>
      have he : e < 0 := by omega
      have hm0 : m ≠ 0 := fun h0 => hcond (.inr h0)
      obtain ⟨⟨hodd, _, _⟩, _, hsmall⟩ := h
      simp only [F64Small] at hsmall
      have hodd' : m % 2 = 1 := by
        rcases hodd with h1 | ⟨h1, _⟩
        · exact h1
        · exact absurd h1 hm0
      have hk : 0 < (-e).toNat := by omega
      have hle := rint_le hodd' hk
      split
      · exact fok_mk_int _ _ (by omega)
      · exact fok_mk_int _ _ (by omega)

/-- the decimal of the float `mk n v 0` has the value `±v` -/
theorem toDec_mk_cmp (n : Bool) (v : Nat) (hv : v ≤ Dec.MAXSIG) :
    Dec.cmp (F64.mk n v 0).toDec (Dec.normalize (.fin n v 0)) = some 0 := by
  refine Dec.cmp_zero_trans (Dec.cmp_zero_symm (F64.toDec_mk_int n v hv)) ?_
  exact Dec.cmp_zero_trans ((Dec.cmp_ofInt_fin_iff _ n v).mpr rfl) (Dec.cmp_normalize' ..)

/-- **`math.Ceil` / `math.Floor` of a float and `Decimal.Ceil` / `Floor` of its decimal have the same value** -/
theorem rintF_comm (b : Bool) {f : F64} (h : FOK f) (hn : f.toDec ≠ .nan) :
    Dec.cmp (rintF b f).toDec (Dec.rint b f.toDec) = some 0 := by
  cases f with
  | nan => exact absurd rfl hn
  | inf n => exact Dec.cmp_self (by simp [F64.toDec, rintF])
  | fin n m e =>
    obtain ⟨⟨hodd, hex, _⟩, _, _⟩ := h
    simp only [F64.DecExact] at hex
    simp only [rintF]
    by_cases hcond : e ≥ 0 ∨ m = 0
    · simp only [hcond, if_true]
      by_cases hm0 : m = 0
      · subst hm0
        simp only [F64.toDec, Dec.ofBinary, if_true, Dec.rint]
        exact Dec.cmp_zero_zero ..
      · have he : 0 ≤ e := by rcases hcond with h1 | h1; exact h1; exact absurd h1 hm0
        rw [F64.toDec_nonneg_exp n m e he (hex.1 he)]
        have hC : m * 2 ^ e.toNat ≠ 0 := Nat.mul_ne_zero hm0 (Nat.ne_of_gt (Nat.pow_pos (by decide)))
        have h1 := Dec.rint_cmp b (Dec.cmp_normalize n (m * 2 ^ e.toNat) 0)
        have h2 : Dec.rint b (.fin n (m * 2 ^ e.toNat) 0) = Dec.normalize (.fin n (m * 2 ^ e.toNat) 0) := by
          simp [Dec.rint, hC]
        rw [h2] at h1
        exact Dec.cmp_zero_symm h1
    · simp only [hcond, if_false]
      have he : e < 0 := by omega
      have hm0 : m ≠ 0 := fun h0 => hcond (.inr h0)
      have hodd' : m % 2 = 1 := by
        rcases hodd with h1 | ⟨h1, _⟩
        · exact h1
        · exact absurd h1 hm0
      obtain ⟨hx, hlo⟩ := hex.2 he
      generalize hk : (-e).toNat = k at hx
      have hkpos : 0 < k := by omega
      rw [F64.toDec_neg_exp n m e he (by rw [hk]; exact hx) hlo, hk]
      have hC : m * 5 ^ k ≠ 0 := Nat.mul_ne_zero hm0 (Nat.ne_of_gt (Nat.pow_pos (by decide)))
      have h1 := Dec.rint_cmp b (Dec.cmp_normalize n (m * 5 ^ k) e)
      have h10 : (10 : Nat) ^ k = 2 ^ k * 5 ^ k := by rw [← Nat.mul_pow]
      have h5 : 0 < 5 ^ k := Nat.pow_pos (by decide)
      have hq : m * 5 ^ k / 10 ^ k = m / 2 ^ k := by rw [h10, Nat.mul_div_mul_right _ _ h5]
      have hr : m * 5 ^ k % 10 ^ k ≠ 0 := by
        rw [h10, Nat.mul_mod_mul_right]
        exact Nat.mul_ne_zero (odd_mod_pow hodd' hkpos) (Nat.ne_of_gt h5)
      have hle : m ≤ m * 5 ^ k := Nat.le_mul_of_pos_right _ h5
      have hv := rint_le hodd' hkpos
      have h2 : Dec.rint b (.fin n (m * 5 ^ k) e) =
          if n = b then Dec.normalize (.fin n (m / 2 ^ k + 1) 0) else Dec.normalize (.fin n (m / 2 ^ k) 0) := by
        have : ¬ (e ≥ 0) := by omega
        simp only [Dec.rint, hC, if_false, this, Dec.pow10, hk, hr, hq]
      rw [h2] at h1
      refine Dec.cmp_zero_trans ?_ (Dec.cmp_zero_symm h1)
      split
      · exact toDec_mk_cmp _ _ (by omega)
      · exact toDec_mk_cmp _ _ (by omega)

theorem numCeil_eq_unOp (a : Num) :
    numCeil (.num a) = (match unOp (rintF false) (Dec.rint false) a with | some r => .ok (.num r) | none => errType) := by
  unfold numCeil unOp
  cases toFloat (.num a) with
  | some f => simp only [ceil_eq_rintF]
  | none => cases toDecimal (.num a) <;> simp only [Dec.ceil_eq_rint, Option.map_some, Option.map_none]

theorem numFloor_eq_unOp (a : Num) :
    numFloor (.num a) = (match unOp (rintF true) (Dec.rint true) a with | some r => .ok (.num r) | none => errType) := by
  unfold numFloor unOp
  cases toFloat (.num a) with
  | some f => simp only [floor_eq_rintF]
  | none => cases toDecimal (.num a) <;> simp only [Dec.floor_eq_rint, Option.map_some, Option.map_none]

/-- **`ceil` depends on the value only, floats included** -/
theorem numCeil_rr_any {x x' : Val} (h : VR nf x x') : RR (VR nf) (numCeil x) (numCeil x') := by
  cases x <;> cases x' <;> simp only [VR] at h <;> try exact rr_errType
  obtain ⟨r, r', e1, e2, e3⟩ := unOp_nr (rintF false) (Dec.rint false) (fun f => rintF_comm false)
    (fun f => rintF_ne_nan false) (Dec.rint_cmp false) (Dec.rint_bounded false) (fun f => fok_rintF false) h
  rw [numCeil_eq_unOp, numCeil_eq_unOp, e1, e2]
  exact RR.ok' (by simp only [VR]; exact e3)

/-- **`floor` depends on the value only, floats included** -/
theorem numFloor_rr_any {x x' : Val} (h : VR nf x x') : RR (VR nf) (numFloor x) (numFloor x') := by
  cases x <;> cases x' <;> simp only [VR] at h <;> try exact rr_errType
  obtain ⟨r, r', e1, e2, e3⟩ := unOp_nr (rintF true) (Dec.rint true) (fun f => rintF_comm true)
    (fun f => rintF_ne_nan true) (Dec.rint_cmp true) (Dec.rint_bounded true) (fun f => fok_rintF true) h
  rw [numFloor_eq_unOp, numFloor_eq_unOp, e1, e2]
  exact RR.ok' (by simp only [VR]; exact e3)

end
end C14B
end Jmes
