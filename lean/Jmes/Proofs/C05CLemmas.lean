/-
  Helper lemmas for Jmes/Properties/C05C.lean (property C05, third round).

  §A  a CLOSED FORM for `Dec.reduce`: for every coefficient and exponent (no sticky flag), and for every quotient
      `X / D` whose integer part exceeds `MAXSIG` (sticky flag = "the remainder is not zero"),

        reduce neg q e st = if the value overflows then ±Inf
                            else  rhe(value / 10^(e+k)) · 10^(e+k),   k = max (ndrop q) (EMIN − e)

      where `rhe` is round-half-even, `ndrop q` the least number of digits to drop for `q / 10^k ≤ MAXSIG`, and
      "overflows" is the purely arithmetical `OverflowsD`: the exact magnitude is at least `(MAXSIG + ½)·10^EMAX`.
  §B  value-invariance of the closed form (trailing zeros may be moved between coefficient and exponent).
  §C  the six operators on `Denotes` operands.
-/
import Jmes.Properties.C05B
import Jmes.Proofs.C20BLemmas
namespace Jmes.C05CLemmas
open Jmes.Dec
open Jmes.C20B (rhe ndrop ndrop_spec ndrop_unique ndrop_zero ndrop_pos div_pow_anti roundUp_iff reducePair reduce_eq_pair
  scaleUp_over scaleUp_fits rhe_zero rhe_zero_left MAXSIG_succ_div)

/-! ## A. closed form of `reduce` -/

/-- `X / M` rounded to the nearest integer, ties to even (`M > 0`) -/
def rheQ (X M : Nat) : Nat :=
  if 2 * (X % M) > M ∨ (2 * (X % M) = M ∧ (X / M) % 2 = 1) then X / M + 1 else X / M

/-- the rational `X / D`, in units of `10^k`, rounded half-even -/
def rheD (X D k : Nat) : Nat := rheQ X (10 ^ k * D)

theorem rheD_one (V k : Nat) : rheD V 1 k = rhe V k := by
  simp [rheD, rheQ, rhe]

/-- the least number of low digits to drop from the coefficient `q` at exponent `e`: the rest must be `≤ MAXSIG` and
    the exponent must reach `EMIN` -/
def kdrop (q : Nat) (e : Int) : Nat := max (ndrop q) (EMIN - e).toNat

/-- **overflow**: the exact magnitude `(X / D)·10^e` is at least `(MAXSIG + ½)·10^EMAX` — half a unit in the last place
    above the largest finite number `MAXSIG·10^EMAX`, which is where round-half-even (`MAXSIG` is odd) first rounds
    up out of the format.  Written without division. -/
def OverflowsD (X D : Nat) (e : Int) : Prop :=
  (2 * MAXSIG + 1) * D * 10 ^ (EMAX - e).toNat ≤ 2 * X * 10 ^ (e - EMAX).toNat

instance (X D : Nat) (e : Int) : Decidable (OverflowsD X D e) := by unfold OverflowsD; exact inferInstance

theorem ten_le_pow {d : Nat} (h : 1 ≤ d) : 10 ≤ 10 ^ d := by
  obtain ⟨d', rfl⟩ : ∃ d', d = d' + 1 := ⟨d - 1, by omega⟩
  have := Nat.pow_pos (n := d') (show 0 < 10 by decide)
  rw [Nat.pow_succ]; omega

theorem pow_pos10 (k : Nat) : 0 < 10 ^ k := Nat.pow_pos (by decide)

/-- what `RInvD` says: `c` is the quotient of `X` by `10^k·D`, `(dg, t)` describe the remainder -/
theorem RInvD_decomp {X D k c dg : Nat} {st : Bool} (h : RInvD X D k c dg st) :
    ∃ R t, X = c * (10 ^ k * D) + R ∧ R < 10 ^ k * D ∧ 10 * R = dg * (10 ^ k * D) + t ∧ t < 10 ^ k * D ∧ dg < 10 ∧
      (st = true ↔ t ≠ 0) := by
  obtain ⟨t, h1, h2, h3, h4⟩ := h
  have e1 : (c * 10 ^ (k + 1) + dg * 10 ^ k) * D = 10 * (c * (10 ^ k * D)) + dg * (10 ^ k * D) := by
    rw [Nat.pow_succ]; grind
  rw [e1] at h1
  generalize 10 ^ k * D = P at *
  have hub : dg * P ≤ 9 * P := Nat.mul_le_mul_right _ (by omega)
  generalize c * P = cP at *
  generalize dg * P = dP at *
  refine ⟨X - cP, t, ?_, ?_, ?_, h2, h3, h4⟩ <;> omega

theorem RInvD_div {X D k c dg : Nat} {st : Bool} (h : RInvD X D k c dg st) :
    X / (10 ^ k * D) = c ∧ X % (10 ^ k * D) = X - c * (10 ^ k * D) ∧ c * (10 ^ k * D) ≤ X ∧ X < (c + 1) * (10 ^ k * D) := by
  obtain ⟨R, t, h1, h2, _⟩ := RInvD_decomp h
  have hp : 0 < 10 ^ k * D := by omega
  have hdm := (Nat.div_mod_unique hp).mpr ⟨show R + 10 ^ k * D * c = X by rw [h1, Nat.mul_comm]; omega, h2⟩
  refine ⟨hdm.1, by rw [hdm.2]; omega, by omega, ?_⟩
  rw [Nat.add_mul, Nat.one_mul]; omega

/-- the round-half-even decision of `roundEven` is the mathematical one (for a quotient `X / D`) -/
theorem rheD_of_RInvD {X D k c dg : Nat} {st : Bool} (h : RInvD X D k c dg st) :
    rheD X D k = if RoundUp c dg st then c + 1 else c := by
  obtain ⟨R, t, h1, h2, h3, h4, h5, h6⟩ := RInvD_decomp h
  have hp : 0 < 10 ^ k * D := by omega
  have hdm := (Nat.div_mod_unique hp).mpr ⟨show R + 10 ^ k * D * c = X by rw [h1, Nat.mul_comm]; omega, h2⟩
  unfold rheD rheQ
  rw [hdm.1, hdm.2]
  have := roundUp_iff (c := c) h3 h4 h5 h6
  by_cases hup : RoundUp c dg st
  · simp only [hup, if_true, this.mp hup]
  · have hn : ¬ (2 * R > 10 ^ k * D ∨ (2 * R = 10 ^ k * D ∧ c % 2 = 1)) := fun h => hup (this.mpr h)
    simp only [hup, hn, if_false]

/-- `roundEven` on a coefficient that fits, in closed form: a carry out of `MAXSIG` drops one more digit -/
theorem roundEven_full (fuel c : Nat) (e : Int) (dg : Nat) (st : Bool) (hc : c ≤ MAXSIG) :
    roundEven (fuel + 2) c e dg st =
      if RoundUp c dg st then (if c + 1 > MAXSIG then ((MAXSIG + 1) / 10, e + 1) else (c + 1, e)) else (c, e) := by
  rw [roundEven_succ]
  by_cases hup : RoundUp c dg st
  · simp only [hup, if_true]
    by_cases hgt : c + 1 > MAXSIG
    · simp only [hgt, if_true]
      have hcM : c = MAXSIG := by omega
      subst hcM
      rw [roundEven_succ]
      have hup' : RoundUp (MAXSIG / 10) (MAXSIG % 10) (st || dg != 0) := by
        unfold RoundUp
        rw [show MAXSIG % 10 = 9 by decide]
        cases (st || dg != 0) <;> simp
      have hn : ¬ (MAXSIG / 10 + 1 > MAXSIG) := by decide
      simp only [hup', if_true, hn, if_false]
      rw [show MAXSIG / 10 + 1 = (MAXSIG + 1) / 10 by decide]
    · simp only [hgt, if_false]
  · simp only [hup, if_false]

/-- with an odd coefficient, "round up" is "the dropped part is at least half a unit" -/
theorem roundUp_MAXSIG {X D k dg : Nat} {st : Bool} (h : RInvD X D k MAXSIG dg st) :
    RoundUp MAXSIG dg st ↔ (2 * MAXSIG + 1) * (10 ^ k * D) ≤ 2 * X := by
  obtain ⟨R, t, h1, h2, h3, h4, h5, h6⟩ := RInvD_decomp h
  rw [roundUp_iff (c := MAXSIG) h3 h4 h5 h6]
  have hodd : MAXSIG % 2 = 1 := by decide
  rw [Nat.add_mul, h1]
  generalize 10 ^ k * D = P at *
  rw [show 2 * MAXSIG * P = 2 * (MAXSIG * P) by rw [Nat.mul_assoc]]
  generalize MAXSIG * P = MP at *
  constructor
  · rintro (h | ⟨h, _⟩) <;> omega
  · intro h
    by_cases h' : 2 * R = P
    · exact Or.inr ⟨h', hodd⟩
    · exact Or.inl (by omega)

/-- **overflow, decided on the state after the digits are dropped**: `c` is the integer part of `X / (10^k·D)`;
    the value overflows iff its exponent `e + k` is above `EMAX`, or equal to `EMAX` with the coefficient `MAXSIG`
    rounding up. -/
theorem overflowsD_iff {X D k c dg : Nat} {st : Bool} (e : Int) (h : RInvD X D k c dg st) (hc : c ≤ MAXSIG)
    (hbig : EMAX < e + (k : Int) → (MAXSIG + 1) / 10 ≤ c ∧ 1 ≤ k) :
    OverflowsD X D e ↔ (EMAX < e + (k : Int) ∨ (e + (k : Int) = EMAX ∧ c = MAXSIG ∧ RoundUp c dg st)) := by
  obtain ⟨_, _, hlo, hhi⟩ := RInvD_div h
  have hM : (MAXSIG + 1) / 10 * 10 = MAXSIG + 1 := by decide
  unfold OverflowsD
  rcases Int.lt_trichotomy (e + (k : Int)) EMAX with hlt | heq | hgt
  · -- below EMAX: no overflow, even with a carry
    have hR : ¬ (EMAX < e + (k : Int) ∨ (e + (k : Int) = EMAX ∧ c = MAXSIG ∧ RoundUp c dg st)) := by omega
    simp only [hR, iff_false]
    obtain ⟨d, hd, hd1⟩ : ∃ d : Nat, (EMAX - e).toNat = k + d ∧ 1 ≤ d := ⟨(EMAX - e).toNat - k, by omega, by omega⟩
    have h0 : (e - EMAX).toNat = 0 := by omega
    rw [hd, h0, Nat.pow_add, Nat.pow_zero, Nat.mul_one]
    have hT := ten_le_pow hd1
    have e1 : (2 * MAXSIG + 1) * D * (10 ^ k * 10 ^ d) = (2 * MAXSIG + 1) * (10 ^ k * D) * 10 ^ d := by
      simp only [Nat.mul_assoc, Nat.mul_left_comm, Nat.mul_comm]
    rw [e1]
    generalize 10 ^ d = T at *
    generalize 10 ^ k * D = P at *
    have h1 : (2 * MAXSIG + 1) * P * 10 ≤ (2 * MAXSIG + 1) * P * T := Nat.mul_le_mul_left _ hT
    have h2 : (c + 1) * P ≤ (MAXSIG + 1) * P := Nat.mul_le_mul_right _ (by omega)
    rw [MAXSIG_val] at *
    generalize (c + 1) * P = cP at *
    omega
  · -- exactly EMAX: overflow iff the coefficient MAXSIG rounds up
    have hk : (EMAX - e).toNat = k := by omega
    have h0 : (e - EMAX).toNat = 0 := by omega
    rw [hk, h0, Nat.pow_zero, Nat.mul_one]
    have e1 : (2 * MAXSIG + 1) * D * 10 ^ k = (2 * MAXSIG + 1) * (10 ^ k * D) := by
      simp only [Nat.mul_assoc, Nat.mul_left_comm, Nat.mul_comm]
    rw [e1]
    by_cases hcM : c = MAXSIG
    · subst hcM
      rw [← roundUp_MAXSIG h]
      constructor
      · intro hu; exact Or.inr ⟨heq, rfl, hu⟩
      · rintro (h' | ⟨_, _, hu⟩)
        · omega
        · exact hu
    · have hR : ¬ (EMAX < e + (k : Int) ∨ (e + (k : Int) = EMAX ∧ c = MAXSIG ∧ RoundUp c dg st)) := by
        rintro (h' | ⟨_, h', _⟩)
        · omega
        · exact hcM h'
      simp only [hR, iff_false]
      generalize 10 ^ k * D = P at *
      have h2 : (c + 1) * P ≤ MAXSIG * P := Nat.mul_le_mul_right _ (by omega)
      rw [Nat.add_mul, Nat.mul_assoc]
      generalize (c + 1) * P = cP at *
      generalize MAXSIG * P = MP at *
      omega
  · -- above EMAX: overflow
    simp only [hgt, true_or, iff_true]
    obtain ⟨hc1, hk1⟩ := hbig hgt
    -- X ≥ c·10^k·D ≥ (MAXSIG+1)·10^(k-1)·D
    obtain ⟨k', rfl⟩ : ∃ k', k = k' + 1 := ⟨k - 1, by omega⟩
    have hX : (MAXSIG + 1) * (10 ^ k' * D) ≤ X := by
      refine Nat.le_trans ?_ hlo
      rw [← hM, Nat.pow_succ]
      have : (MAXSIG + 1) / 10 * 10 * (10 ^ k' * D) = (MAXSIG + 1) / 10 * (10 ^ k' * 10 * D) := by
        simp only [Nat.mul_assoc, Nat.mul_left_comm, Nat.mul_comm]
      rw [this]
      exact Nat.mul_le_mul_right _ hc1
    by_cases he : EMAX ≤ e
    · have h0 : (EMAX - e).toNat = 0 := by omega
      rw [h0, Nat.pow_zero, Nat.mul_one]
      have hp := pow_pos10 (e - EMAX).toNat
      have hp' := pow_pos10 k'
      have h1 : 2 * X ≤ 2 * X * 10 ^ (e - EMAX).toNat := Nat.le_mul_of_pos_right _ hp
      have h2 : (MAXSIG + 1) * D ≤ (MAXSIG + 1) * (10 ^ k' * D) := by
        refine Nat.mul_le_mul_left _ ?_
        exact Nat.le_mul_of_pos_left _ hp'
      have e2 : (2 * MAXSIG + 1) * D ≤ 2 * ((MAXSIG + 1) * D) := by
        rw [← Nat.mul_assoc]; exact Nat.mul_le_mul_right _ (by omega)
      omega
    · obtain ⟨d, hd⟩ : ∃ d : Nat, k' = (EMAX - e).toNat + d := ⟨k' - (EMAX - e).toNat, by omega⟩
      have h0 : (e - EMAX).toNat = 0 := by omega
      rw [h0, Nat.pow_zero, Nat.mul_one]
      rw [hd, Nat.pow_add] at hX
      have hp := pow_pos10 d
      generalize 10 ^ (EMAX - e).toNat = Q at *
      have h2 : (MAXSIG + 1) * (Q * D) ≤ (MAXSIG + 1) * (Q * 10 ^ d * D) := by
        refine Nat.mul_le_mul_left _ (Nat.mul_le_mul_right _ ?_)
        exact Nat.le_mul_of_pos_right _ hp
      have e2 : (2 * MAXSIG + 1) * D * Q ≤ 2 * ((MAXSIG + 1) * (Q * D)) := by
        have : (2 * MAXSIG + 1) * D * Q = (2 * MAXSIG + 1) * (Q * D) := by
          simp only [Nat.mul_assoc, Nat.mul_left_comm, Nat.mul_comm]
        rw [this]
        have h3 := Nat.mul_le_mul_right (Q * D) (show 2 * MAXSIG + 1 ≤ 2 * (MAXSIG + 1) by omega)
        rwa [Nat.mul_assoc 2] at h3
      omega

theorem rheQ_zero {X M : Nat} (hM : 0 < M) (h : 2 * X ≤ M) : rheQ X M = 0 := by
  have hlt : X < M := by omega
  unfold rheQ
  rw [Nat.mod_eq_of_lt hlt, Nat.div_eq_of_lt hlt]
  have : ¬ (2 * X > M ∨ (2 * X = M ∧ 0 % 2 = 1)) := by omega
  simp only [this, if_false]

/-- the final step of `reduce` (`roundEven` and the overflow test) on a state that represents `X / D` -/
theorem finish_eq (neg : Bool) {X D k c dg : Nat} {st : Bool} (e : Int) (h : RInvD X D k c dg st) (hc : c ≤ MAXSIG) :
    (if (roundEven 3 c e dg st).2 > EMAX then Dec.inf neg
      else normalize (.fin neg (roundEven 3 c e dg st).1 (roundEven 3 c e dg st).2)) =
      if (EMAX < e ∨ (e = EMAX ∧ c = MAXSIG ∧ RoundUp c dg st)) then .inf neg
      else normalize (.fin neg (rheD X D k) e) := by
  rw [roundEven_full 1 c e dg st hc, rheD_of_RInvD h]
  have hsh : normalize (.fin neg (MAXSIG + 1) e) = normalize (.fin neg ((MAXSIG + 1) / 10) (e + 1)) := by
    have := normalize_shift neg ((MAXSIG + 1) / 10) 1 e
    rw [MAXSIG_succ_div] at this
    exact this
  by_cases hup : RoundUp c dg st
  · by_cases hgt : c + 1 > MAXSIG
    · have hcM : c = MAXSIG := by omega
      simp only [hup, hgt, if_true, and_true]
      by_cases he : EMAX ≤ e
      · have h1 : e + 1 > EMAX := by omega
        have h2 : EMAX < e ∨ (e = EMAX ∧ c = MAXSIG) := by omega
        simp only [h1, h2, if_true]
      · have h1 : ¬ (e + 1 > EMAX) := by omega
        have h2 : ¬ (EMAX < e ∨ (e = EMAX ∧ c = MAXSIG)) := by omega
        simp only [h1, h2, if_false]
        rw [hcM, hsh]
    · have hcM : c ≠ MAXSIG := by omega
      simp only [hup, hgt, if_true, if_false, hcM, false_and, and_false, or_false]
  · simp only [hup, if_false, and_false, or_false]

theorem reducePair_of_drop {c : Nat} {e : Int} {st : Bool} {c1 : Nat} {e1 : Int} {d1 : Nat} {s1 : Bool}
    (hdrop : dropHigh (Nat.log2 (c + 1) + 2) c e 0 st = (c1, e1, d1, s1)) :
    reducePair c e st =
      roundEven 3
        (scaleUp 40 (if (dropLow (min ((EMIN - e1).toNat + 1) 60) c1 e1 d1 s1).2.1 < EMIN then ((0 : Nat), EMIN, (0 : Nat), true)
          else dropLow (min ((EMIN - e1).toNat + 1) 60) c1 e1 d1 s1).1
          (if (dropLow (min ((EMIN - e1).toNat + 1) 60) c1 e1 d1 s1).2.1 < EMIN then ((0 : Nat), EMIN, (0 : Nat), true)
          else dropLow (min ((EMIN - e1).toNat + 1) 60) c1 e1 d1 s1).2.1).1
        (scaleUp 40 (if (dropLow (min ((EMIN - e1).toNat + 1) 60) c1 e1 d1 s1).2.1 < EMIN then ((0 : Nat), EMIN, (0 : Nat), true)
          else dropLow (min ((EMIN - e1).toNat + 1) 60) c1 e1 d1 s1).1
          (if (dropLow (min ((EMIN - e1).toNat + 1) 60) c1 e1 d1 s1).2.1 < EMIN then ((0 : Nat), EMIN, (0 : Nat), true)
          else dropLow (min ((EMIN - e1).toNat + 1) 60) c1 e1 d1 s1).2.1).2
        (if (dropLow (min ((EMIN - e1).toNat + 1) 60) c1 e1 d1 s1).2.1 < EMIN then ((0 : Nat), EMIN, (0 : Nat), true)
          else dropLow (min ((EMIN - e1).toNat + 1) 60) c1 e1 d1 s1).2.2.1
        (if (dropLow (min ((EMIN - e1).toNat + 1) 60) c1 e1 d1 s1).2.1 < EMIN then ((0 : Nat), EMIN, (0 : Nat), true)
          else dropLow (min ((EMIN - e1).toNat + 1) 60) c1 e1 d1 s1).2.2.2 := by
  unfold reducePair
  rw [hdrop]

/-- **the part of `reduce` after `dropHigh`, in closed form.**  `dropHigh` has left the state `(c1, e + k, d1, s1)`
    that represents the exact value `X / D` with `k` digits dropped. -/
theorem reduce_tail (neg : Bool) (c : Nat) (e : Int) (st : Bool) (X D k c1 : Nat) (e1 : Int) (d1 : Nat) (s1 : Bool)
    (hne : ¬ (c = 0 ∧ ¬ st = true))
    (hdrop : dropHigh (Nat.log2 (c + 1) + 2) c e 0 st = (c1, e1, d1, s1))
    (hinv : RInvD X D k c1 d1 s1) (hc1 : c1 ≤ MAXSIG) (he1 : e1 = e + (k : Int))
    (hfull : EMIN ≤ e1 → (MAXSIG < c1 * 10 ∨ e1 ≤ EMAX))
    (hbig : EMAX < e1 → (MAXSIG + 1) / 10 ≤ c1 ∧ 1 ≤ k) :
    reduce neg c e st = if OverflowsD X D e then .inf neg
      else normalize (.fin neg (rheD X D (max k (EMIN - e).toNat)) (e + ((max k (EMIN - e).toNat : Nat) : Int))) := by
  have hEE' : EMIN ≤ EMAX := by decide
  have hEm : EMIN = -6176 := rfl
  have hEx : EMAX = 6111 := rfl
  have hov := overflowsD_iff e hinv hc1 (by rw [← he1]; exact hbig)
  rw [← he1] at hov
  rw [reduce_eq_pair, if_neg hne, reducePair_of_drop hdrop]
  by_cases hreg : EMIN ≤ e1
  · -- regular: nothing more is dropped
    have hK : max k (EMIN - e).toNat = k := by omega
    rw [hK, dropLow_id _ _ _ _ _ hreg]
    have hlt : ¬ (e1 < EMIN) := by omega
    simp only [hlt, if_false]
    have hsc : scaleUp 40 c1 e1 = (c1, e1) := by
      rcases hfull hreg with h | h
      · exact scaleUp_full _ _ _ h
      · exact scaleUp_id _ _ _ h
    rw [hsc]
    simp only []
    rw [finish_eq neg e1 hinv hc1, ← he1]
    by_cases ho : OverflowsD X D e
    · simp only [ho, hov.mp ho, if_true]
    · have : ¬ (EMAX < e1 ∨ (e1 = EMAX ∧ c1 = MAXSIG ∧ RoundUp c1 d1 s1)) := fun h => ho (hov.mpr h)
      simp only [ho, this, if_false]
  · -- underflow: digits are dropped until the exponent is EMIN
    have hlow : e1 < EMIN := by omega
    have hno : ¬ OverflowsD X D e := by
      intro ho
      have := hov.mp ho
      omega
    simp only [hno, if_false]
    have hK : max k (EMIN - e).toNat = k + (EMIN - e1).toNat := by omega
    have hKe : e + ((k + (EMIN - e1).toNat : Nat) : Int) = EMIN := by omega
    rw [hK, hKe]
    have hzero : ∀ kk dg' st', RInvD X D kk 0 dg' st' → kk + 1 ≤ k + (EMIN - e1).toNat →
        rheD X D (k + (EMIN - e1).toNat) = 0 := by
      intro kk dg' st' hI hle
      have hb := RInvD_zero_bound hI hle
      obtain ⟨_, t, _, _, _, ht, _⟩ := RInvD_decomp hI
      have hD : 0 < D := by
        rcases Nat.eq_zero_or_pos D with h0 | h0
        · subst h0; simp at ht
        · exact h0
      exact rheQ_zero (Nat.mul_pos (pow_pos10 _) hD) hb
    rcases dropLow_spec (RInvD X D) (fun _ _ _ _ h => RInvD_step h) (min ((EMIN - e1).toNat + 1) 60) c1 e1 d1 s1 k
        hinv hlow with
      ⟨j, c', dg', st', h1, h2, h3, h4⟩ | ⟨h1, kk, dg', st', h2, h3⟩ | ⟨c', dg', st', h1, h2, h3, h4⟩
    · rw [h1]
      simp only [Int.lt_irrefl, if_false]
      rw [scaleUp_id _ _ _ hEE']
      simp only []
      rw [finish_eq neg EMIN h2 (by omega)]
      have : ¬ (EMAX < EMIN ∨ (EMIN = EMAX ∧ c' = MAXSIG ∧ RoundUp c' dg' st')) := by omega
      simp only [this, if_false]
      have hj : j = (EMIN - e1).toNat := by omega
      rw [hj]
    · rw [h1]
      simp only [Int.lt_irrefl, if_false]
      rw [scaleUp_id _ _ _ hEE', roundEven_id]
      simp only []
      have : ¬ (EMIN > EMAX) := by omega
      simp only [this, if_false]
      rw [hzero kk dg' st' h2 h3]
    · have hF : min ((EMIN - e1).toNat + 1) 60 = 60 := by omega
      rw [hF] at h1 h2 h3 h4
      have hc' : c' = 0 := by
        have hM : MAXSIG < 10 ^ 60 := by decide
        rcases Nat.eq_zero_or_pos c' with h0 | h0
        · exact h0
        · have : 10 ^ 60 ≤ c' * 10 ^ 60 := Nat.le_mul_of_pos_left _ h0
          omega
      subst hc'
      rw [hF, h1]
      simp only [h2, if_true]
      rw [scaleUp_id _ _ _ hEE']
      simp only []
      rw [roundEven_zero_sticky]
      simp only []
      have : ¬ (EMIN > EMAX) := by omega
      simp only [this, if_false]
      rw [hzero (k + 60) dg' st' h3 (by omega)]

/-- **closed form of `reduce` on a quotient**: `X = q·D + r`, `r < D`, the exact magnitude is `(X / D)·10^e`, its integer
    part `q` exceeds `MAXSIG` and the sticky flag says whether `r ≠ 0` (this is how `Dec.quo` calls `reduce`).  The
    result is ±Inf exactly when the value overflows; otherwise `k = kdrop q e` digits are dropped and the value is
    rounded half-even: `rheD X D k · 10^(e+k)`. -/
theorem reduce_bigD (neg : Bool) (q r D : Nat) (e : Int) (hr : r < D) (hq : MAXSIG < q) :
    reduce neg q e (r != 0) =
      if OverflowsD (q * D + r) D e then .inf neg
      else normalize (.fin neg (rheD (q * D + r) D (kdrop q e)) (e + ((kdrop q e : Nat) : Int))) := by
  have hq0 : q ≠ 0 := by rw [MAXSIG_val] at hq; omega
  have hinv : RInvD (q * D + r) D 1 (q / 10) (q % 10) (r != 0) := by
    refine ⟨10 * r, ?_, by omega, by omega, by simp; omega⟩
    have hc : q = 10 * (q / 10) + q % 10 := by omega
    generalize q / 10 = a at *
    generalize q % 10 = b at *
    subst hc
    grind
  have hfuel : q / 10 < 2 ^ (Nat.log2 (q + 1) + 1) := by
    have := lt_two_pow_fuel q
    rw [Nat.pow_succ] at this
    omega
  obtain ⟨j, c1, d1, s1, h1, h2, h3, h4, h5⟩ :=
    dropHigh_specD (q * D + r) D (Nat.log2 (q + 1) + 1) (q / 10) (e + 1) (q % 10) (r != 0) 1 hinv hfuel
  have hc1 : (MAXSIG + 1) / 10 ≤ c1 := by
    by_cases h10 : q / 10 ≤ MAXSIG
    · rw [(h4 h10).2]; rw [MAXSIG_val] at *; omega
    · exact (h5 (by omega)).2
  have hdrop : dropHigh (Nat.log2 (q + 1) + 2) q e 0 (r != 0) = (c1, e + 1 + (j : Nat), d1, s1) := by
    rw [show Nat.log2 (q + 1) + 2 = (Nat.log2 (q + 1) + 1) + 1 from rfl]
    unfold dropHigh
    simp only [hq, if_true, bne_self_eq_false, Bool.or_false]
    exact h1
  -- the number of digits dropped so far is `ndrop q`
  have hK : ndrop q = 1 + j := by
    obtain ⟨hd, _, hlo, hhi⟩ := RInvD_div h2
    have hD : 0 < D := by omega
    have hqX : q = (q * D + r) / D := by
      rw [Nat.mul_comm q D, Nat.mul_add_div hD, Nat.div_eq_of_lt hr, Nat.add_zero]
    have hqk : ∀ i, q / 10 ^ i = (q * D + r) / (10 ^ i * D) := by
      intro i
      rw [Nat.mul_comm (10 ^ i) D, ← Nat.div_div_eq_div_mul, ← hqX]
    apply ndrop_unique
    · rw [hqk, hd]; exact h3
    · intro _
      rw [show 1 + j - 1 = j by omega, hqk]
      have hp : 0 < 10 ^ j * D := Nat.mul_pos (pow_pos10 _) hD
      have : c1 * 10 ≤ (q * D + r) / (10 ^ j * D) := by
        rw [Nat.le_div_iff_mul_le hp]
        refine Nat.le_trans (Nat.le_of_eq ?_) hlo
        rw [show 1 + j = j + 1 by omega, Nat.pow_succ]
        simp only [Nat.mul_assoc, Nat.mul_left_comm, Nat.mul_comm]
      rw [MAXSIG_val] at *
      omega
  have := reduce_tail neg q e (r != 0) (q * D + r) D (1 + j) c1 (e + 1 + (j : Nat)) d1 s1 (by simp [hq0]) hdrop h2 h3
    (by omega) (fun _ => Or.inl (by rw [MAXSIG_val] at *; omega)) (fun _ => ⟨hc1, by omega⟩)
  rw [this]
  unfold kdrop
  rw [hK]

theorem RInvD_init1 (V : Nat) : RInvD V 1 0 V 0 false := ⟨0, by simp; omega⟩

/-- **closed form of `reduce` on an integer coefficient** (no sticky flag), any coefficient and any exponent:
    ±Inf exactly when `c·10^e` overflows, otherwise `c / 10^k` rounded half-even at the exponent `e + k`, where
    `k = kdrop c e` is the least number of digits whose removal leaves a coefficient `≤ MAXSIG` at an exponent `≥ EMIN`. -/
theorem reduce_closed (neg : Bool) (c : Nat) (e : Int) :
    reduce neg c e false =
      if OverflowsD c 1 e then .inf neg
      else normalize (.fin neg (rhe c (kdrop c e)) (e + ((kdrop c e : Nat) : Int))) := by
  have hEm : EMIN = -6176 := rfl
  have hEx : EMAX = 6111 := rfl
  rw [← rheD_one]
  by_cases hc : c ≤ MAXSIG
  · by_cases hc0 : c = 0
    · subst hc0
      have hno : ¬ OverflowsD 0 1 e := by
        unfold OverflowsD
        have := pow_pos10 (EMAX - e).toNat
        rw [MAXSIG_val]
        omega
      rw [if_neg hno, rheD_one, rhe_zero_left, normalize_zero]
      simp [reduce]
    · by_cases he : e ≤ EMAX
      · have := reduce_tail neg c e false c 1 0 c e 0 false (by simp [hc0]) (dropHigh_id _ _ _ _ _ hc) (RInvD_init1 c) hc
          (by simp) (fun _ => Or.inr he) (fun h => by omega)
        rw [this]
        unfold kdrop
        rw [ndrop_zero hc]
      · -- above EMAX: zeros are appended while there is room
        have hk : kdrop c e = 0 := by
          unfold kdrop; rw [ndrop_zero hc]; omega
        rw [hk, rheD_one, rhe_zero]
        obtain ⟨J, hJ, hJ1⟩ : ∃ J : Nat, e = EMAX + (J : Int) ∧ 1 ≤ J := ⟨(e - EMAX).toNat, by omega, by omega⟩
        have hov : OverflowsD c 1 e ↔ MAXSIG < c * 10 ^ J := by
          unfold OverflowsD
          have h0 : (EMAX - e).toNat = 0 := by omega
          have h1 : (e - EMAX).toNat = J := by omega
          rw [h0, h1, Nat.pow_zero, Nat.mul_one, Nat.mul_one, Nat.mul_assoc]
          generalize c * 10 ^ J = W
          omega
        by_cases hfit : c * 10 ^ J ≤ MAXSIG
        · have hno : ¬ OverflowsD c 1 e := by rw [hov]; omega
          rw [if_neg hno]
          have := reduce_hi neg c J e hc0 hfit hJ
          simpa using this
        · have hyes : OverflowsD c 1 e := by rw [hov]; omega
          rw [if_pos hyes, reduce_eq_pair, if_neg (by simp [hc0]), reducePair_of_drop (dropHigh_id _ _ _ _ _ hc)]
          rw [dropLow_id _ _ _ _ _ (by omega)]
          have hlt : ¬ (e < EMIN) := by omega
          simp only [hlt, if_false]
          have := scaleUp_over 40 J c e hc hJ (by omega)
          generalize scaleUp 40 c e = p at *
          rw [roundEven_id]
          simp only [this, if_true]
  · have := reduce_bigD neg c 0 1 e (by decide) (by omega)
    simpa using this

/-! ## B. the closed form as a function of the value -/

/-- the decimal128 rounding of the exact magnitude `(X / D)·10^e` with sign `neg`: ±Inf on overflow, else the
    half-even rounding after dropping the fewest digits that make it fit -/
def roundD (neg : Bool) (X D : Nat) (e : Int) : Dec :=
  if OverflowsD X D e then .inf neg
  else normalize (.fin neg (rheD X D (kdrop (X / D) e)) (e + ((kdrop (X / D) e : Nat) : Int)))

/-- the decimal128 rounding of the exact magnitude `c·10^e` with sign `neg` -/
def roundN (neg : Bool) (c : Nat) (e : Int) : Dec := roundD neg c 1 e

theorem roundN_eq (neg : Bool) (c : Nat) (e : Int) :
    roundN neg c e = if OverflowsD c 1 e then .inf neg
      else normalize (.fin neg (rhe c (kdrop c e)) (e + ((kdrop c e : Nat) : Int))) := by
  simp only [roundN, roundD, Nat.div_one, rheD_one]

/-- `reduce` (no sticky flag) IS the rounding function -/
theorem reduce_eq_roundN (neg : Bool) (c : Nat) (e : Int) : reduce neg c e false = roundN neg c e := by
  rw [reduce_closed, roundN_eq]

theorem reduce_eq_roundD (neg : Bool) (q r D : Nat) (e : Int) (hr : r < D) (hq : MAXSIG < q) :
    reduce neg q e (r != 0) = roundD neg (q * D + r) D e := by
  have hD : 0 < D := by omega
  have hqX : (q * D + r) / D = q := by
    rw [Nat.mul_comm q D, Nat.mul_add_div hD, Nat.div_eq_of_lt hr, Nat.add_zero]
  rw [reduce_bigD neg q r D e hr hq, roundD, hqX]

theorem not_overflows_zero (D : Nat) (e : Int) (hD : 0 < D) : ¬ OverflowsD 0 D e := by
  unfold OverflowsD
  have := pow_pos10 (EMAX - e).toNat
  have h : 0 < (2 * MAXSIG + 1) * D * 10 ^ (EMAX - e).toNat := Nat.mul_pos (Nat.mul_pos (by decide) hD) this
  omega

theorem roundN_zero (neg : Bool) (e : Int) : roundN neg 0 e = .fin neg 0 0 := by
  rw [roundN_eq, if_neg (not_overflows_zero 1 e (by decide)), rhe_zero_left, normalize_zero]

/-- the result of the rounding function is ±Inf or a finite decimal -/
theorem roundD_special (neg : Bool) (X D : Nat) (e : Int) :
    (OverflowsD X D e ∧ roundD neg X D e = .inf neg) ∨ (¬ OverflowsD X D e ∧ ∃ c' e', roundD neg X D e = .fin neg c' e') := by
  unfold roundD
  by_cases h : OverflowsD X D e
  · exact Or.inl ⟨h, by simp [h]⟩
  · refine Or.inr ⟨h, ?_⟩
    simp only [h, if_false]
    exact Dec.normalize_fin _ _ _

/-- comparing `a·10^u` with `b·10^v` only depends on `u − v` -/
theorem pow_le_iff (a b u v u' v' : Nat) (h : u + v' = u' + v) : a * 10 ^ u ≤ b * 10 ^ v ↔ a * 10 ^ u' ≤ b * 10 ^ v' := by
  have key : ∀ (a b u v w : Nat), a * 10 ^ u ≤ b * 10 ^ v ↔ a * 10 ^ (u + w) ≤ b * 10 ^ (v + w) := by
    intro a b u v w
    rw [Nat.pow_add, Nat.pow_add, ← Nat.mul_assoc, ← Nat.mul_assoc]
    exact (Nat.mul_le_mul_right_iff (pow_pos10 w)).symm
  rw [key a b u v v', key a b u' v' v, h, Nat.add_comm v v']

/-- overflow depends on the value only: zeros may be moved from the numerator into the exponent … -/
theorem overflowsD_shift (X D d : Nat) (e : Int) : OverflowsD (X * 10 ^ d) D e ↔ OverflowsD X D (e + (d : Int)) := by
  unfold OverflowsD
  rw [show 2 * (X * 10 ^ d) * 10 ^ (e - EMAX).toNat = 2 * X * 10 ^ (d + (e - EMAX).toNat) by
    rw [Nat.pow_add]; simp only [Nat.mul_assoc]]
  exact pow_le_iff _ _ _ _ _ _ (by omega)

/-- … and from the denominator -/
theorem overflowsD_shiftD (X D d : Nat) (e : Int) : OverflowsD X (D * 10 ^ d) e ↔ OverflowsD X D (e - (d : Int)) := by
  unfold OverflowsD
  rw [show (2 * MAXSIG + 1) * (D * 10 ^ d) * 10 ^ (EMAX - e).toNat = (2 * MAXSIG + 1) * D * 10 ^ (d + (EMAX - e).toNat) by
    rw [Nat.pow_add]; simp only [Nat.mul_assoc]]
  exact pow_le_iff _ _ _ _ _ _ (by omega)

/-- a common factor of numerator and denominator does not matter -/
theorem overflowsD_common (X D T : Nat) (e : Int) (hT : 0 < T) : OverflowsD (X * T) (D * T) e ↔ OverflowsD X D e := by
  unfold OverflowsD
  rw [show (2 * MAXSIG + 1) * (D * T) * 10 ^ (EMAX - e).toNat = (2 * MAXSIG + 1) * D * 10 ^ (EMAX - e).toNat * T by
      simp only [Nat.mul_assoc, Nat.mul_left_comm, Nat.mul_comm],
    show 2 * (X * T) * 10 ^ (e - EMAX).toNat = 2 * X * 10 ^ (e - EMAX).toNat * T by
      simp only [Nat.mul_assoc, Nat.mul_left_comm, Nat.mul_comm]]
  exact Nat.mul_le_mul_right_iff hT

theorem rheQ_common (X M T : Nat) (hT : 0 < T) : rheQ (X * T) (M * T) = rheQ X M := by
  unfold rheQ
  rw [Nat.mul_div_mul_right _ _ hT, Nat.mul_mod_mul_right]
  have h1 : 2 * (X % M * T) > M * T ↔ 2 * (X % M) > M := by
    rw [← Nat.mul_assoc]; exact Nat.mul_lt_mul_right hT
  have h2 : 2 * (X % M * T) = M * T ↔ 2 * (X % M) = M := by
    rw [← Nat.mul_assoc]; exact Nat.mul_right_cancel_iff hT
  simp only [h1, h2]

theorem rhe_eq_rheQ (V k : Nat) : rhe V k = rheQ V (10 ^ k) := rfl

/-- dropping at most as many digits as there are trailing zeros is exact -/
theorem rhe_mul_pow_le (c : Nat) {k d : Nat} (h : k ≤ d) : rhe (c * 10 ^ d) k = c * 10 ^ (d - k) := by
  have e1 : c * 10 ^ d = c * 10 ^ (d - k) * 10 ^ k := by
    rw [Nat.mul_assoc, ← Nat.pow_add]; congr 2; omega
  rw [e1]
  unfold rhe
  rw [Nat.mul_mod_left, Nat.mul_div_cancel _ (pow_pos10 k)]
  have := pow_pos10 k
  have hn : ¬ (2 * 0 > 10 ^ k ∨ (2 * 0 = 10 ^ k ∧ c * 10 ^ (d - k) % 2 = 1)) := by omega
  simp only [hn, if_false]

/-- dropping more digits than there are trailing zeros: the zeros do not matter -/
theorem rhe_mul_pow_ge (c : Nat) {k d : Nat} (h : d ≤ k) : rhe (c * 10 ^ d) k = rhe c (k - d) := by
  have e1 : 10 ^ k = 10 ^ (k - d) * 10 ^ d := by rw [← Nat.pow_add]; congr 1; omega
  rw [rhe_eq_rheQ, rhe_eq_rheQ, e1, rheQ_common _ _ _ (pow_pos10 d)]

theorem ndrop_mul_pow_pos {c : Nat} (d : Nat) (hb : 1 ≤ ndrop c) : ndrop (c * 10 ^ d) = ndrop c + d := by
  obtain ⟨g1, g2⟩ := ndrop_spec c
  apply ndrop_unique
  · rw [Nat.pow_add, Nat.mul_div_mul_right _ _ (pow_pos10 d)]; exact g1
  · intro _
    have : ndrop c + d - 1 = (ndrop c - 1) + d := by omega
    rw [this, Nat.pow_add, Nat.mul_div_mul_right _ _ (pow_pos10 d)]
    exact g2 hb

theorem ndrop_mul_pow_zero {c : Nat} (d : Nat) (hb : ndrop c = 0) : ndrop (c * 10 ^ d) ≤ d := by
  have hc : c ≤ MAXSIG := by have := (ndrop_spec c).1; rwa [hb, Nat.pow_zero, Nat.div_one] at this
  apply Nat.le_of_not_lt
  intro hlt
  have h1 := (ndrop_spec (c * 10 ^ d)).2 (by omega)
  have h2 := div_pow_anti (c * 10 ^ d) (show d ≤ ndrop (c * 10 ^ d) - 1 by omega)
  rw [Nat.mul_div_cancel _ (pow_pos10 d)] at h2
  omega

/-- **the rounding function depends on the value only**: trailing zeros of the coefficient may be moved into the exponent -/
theorem roundN_shift (neg : Bool) (c d : Nat) (e : Int) : roundN neg (c * 10 ^ d) e = roundN neg c (e + (d : Int)) := by
  rw [roundN_eq, roundN_eq]
  by_cases ho : OverflowsD (c * 10 ^ d) 1 e
  · rw [if_pos ho, if_pos ((overflowsD_shift c 1 d e).mp ho)]
  · rw [if_neg ho, if_neg (fun h => ho ((overflowsD_shift c 1 d e).mpr h))]
    by_cases hk : kdrop (c * 10 ^ d) e ≤ d
    · have hb : ndrop c = 0 := by
        apply Nat.eq_zero_of_not_pos
        intro hb
        have := ndrop_mul_pow_pos d hb
        unfold kdrop at hk
        omega
      have hk' : kdrop c (e + (d : Int)) = 0 := by
        unfold kdrop at hk ⊢
        omega
      rw [hk', rhe_zero, rhe_mul_pow_le c hk, normalize_shift]
      congr 2
      omega
    · have hk' : kdrop c (e + (d : Int)) = kdrop (c * 10 ^ d) e - d := by
        unfold kdrop at hk ⊢
        by_cases hb : 1 ≤ ndrop c
        · rw [ndrop_mul_pow_pos d hb]; omega
        · have := ndrop_mul_pow_zero (c := c) d (by omega)
          omega
      rw [hk', rhe_mul_pow_ge c (by omega)]
      congr 2
      omega

theorem roundD_common (neg : Bool) (X D T : Nat) (e : Int) (hT : 0 < T) : roundD neg (X * T) (D * T) e = roundD neg X D e := by
  unfold roundD
  rw [Nat.mul_div_mul_right _ _ hT]
  have hr : ∀ k, rheD (X * T) (D * T) k = rheD X D k := by
    intro k
    unfold rheD
    rw [← Nat.mul_assoc, rheQ_common _ _ _ hT]
  simp only [overflowsD_common X D T e hT, hr]

/-- a representable value is returned exactly by the rounding function -/
theorem roundN_exact (neg : Bool) (c : Nat) (e : Int) (h : Representable c e) : roundN neg c e = normalize (.fin neg c e) := by
  rw [← reduce_eq_roundN, reduce_fits neg c e h]

theorem roundN_special (neg : Bool) (c : Nat) (e : Int) :
    (OverflowsD c 1 e ∧ roundN neg c e = .inf neg) ∨ (¬ OverflowsD c 1 e ∧ ∃ c' e', roundN neg c e = .fin neg c' e') :=
  roundD_special neg c 1 e

/-! ## C. the operators on operands given by value -/

/-- `r` is the correctly rounded decimal of the integer `S` in units of `10^m` (a zero of either sign when `S = 0`) -/
def RoundRep (m : Int) (r : Dec) (S : Int) : Prop :=
  (S = 0 ∧ ∃ b, r = .fin b 0 0) ∨ (S ≠ 0 ∧ r = roundN (decide (S < 0)) S.natAbs m)

theorem roundN_sval (n : Bool) (c : Nat) (e m : Int) (hm : m ≤ e) (hc : c ≠ 0) :
    roundN (decide (sval n c e m < 0)) (sval n c e m).natAbs m = roundN n c e := by
  rw [sval_natAbs_le, sval_sign n c e m hc, roundN_shift]
  congr 1; omega

theorem add_round_at (n1 n2 : Bool) (c1 c2 : Nat) (e1 e2 m : Int) (h1 : c1 = 0 ∨ m ≤ e1) (h2 : c2 = 0 ∨ m ≤ e2)
    (hr1 : c2 = 0 → Representable c1 e1) (hr2 : c1 = 0 → Representable c2 e2)
    (S : Int) (hS : S = sval n1 c1 e1 m + sval n2 c2 e2 m) :
    RoundRep m (Dec.add (.fin n1 c1 e1) (.fin n2 c2 e2)) S := by
  show RoundRep m (addFin n1 c1 e1 n2 c2 e2) S
  by_cases hc1 : c1 = 0
  · subst hc1
    rw [sval_zero, Int.zero_add] at hS
    by_cases hc2 : c2 = 0
    · subst hc2
      rw [sval_zero] at hS
      exact Or.inl ⟨hS, n1 && n2, by simp [addFin]⟩
    · have hm : m ≤ e2 := by rcases h2 with h | h; exact absurd h hc2; exact h
      refine Or.inr ⟨by rw [hS]; exact fun h0 => hc2 ((sval_eq_zero_iff n2 c2 e2 m).mp h0), ?_⟩
      rw [hS, roundN_sval n2 c2 e2 m hm hc2, roundN_exact _ _ _ (hr2 rfl)]
      simp [addFin, hc2]
  · have hm1 : m ≤ e1 := by rcases h1 with h | h; exact absurd h hc1; exact h
    by_cases hc2 : c2 = 0
    · subst hc2
      rw [sval_zero, Int.add_zero] at hS
      refine Or.inr ⟨by rw [hS]; exact fun h0 => hc1 ((sval_eq_zero_iff n1 c1 e1 m).mp h0), ?_⟩
      rw [hS, roundN_sval n1 c1 e1 m hm1 hc1, roundN_exact _ _ _ (hr1 rfl)]
      simp [addFin, hc1]
    · have hm2 : m ≤ e2 := by rcases h2 with h | h; exact absurd h hc2; exact h
      have hem : m ≤ min e1 e2 := by omega
      have hs1 := sval_shift n1 c1 e1 (min e1 e2) m hem (by omega)
      have hs2 := sval_shift n2 c2 e2 (min e1 e2) m hem (by omega)
      generalize hT : ((10 ^ (min e1 e2 - m).toNat : Nat) : Int) = T at hs1 hs2
      have hTpos : 0 < T := by rw [← hT]; exact Int.natCast_pos.mpr (Nat.pow_pos (by decide))
      generalize hs' : sval n1 c1 e1 (min e1 e2) + sval n2 c2 e2 (min e1 e2) = s'
      have hS' : S = s' * T := by rw [hS, hs1, hs2, ← hs', Int.add_mul]
      have habs : S.natAbs = s'.natAbs * (10 ^ (min e1 e2 - m).toNat) := by
        rw [hS', Int.natAbs_mul, ← hT]; simp
      unfold addFin
      simp only [hc1, hc2, if_false]
      have := hs'
      unfold sval at this
      rw [this]
      by_cases h0 : s' = 0
      · left
        subst h0
        exact ⟨by rw [hS']; simp, false, by simp⟩
      · right
        simp only [h0, if_false]
        have hne : S ≠ 0 := by
          rw [hS']; intro h
          rcases Int.mul_eq_zero.mp h with h | h <;> omega
        refine ⟨hne, ?_⟩
        have hsgn : decide (S < 0) = decide (s' < 0) := by
          rw [hS']
          by_cases hneg : s' < 0
          · have : s' * T < 0 := Int.mul_neg_of_neg_of_pos hneg hTpos
            simp [hneg, this]
          · have : 0 ≤ s' * T := Int.mul_nonneg (by omega) (by omega)
            simp [hneg]; omega
        rw [reduce_eq_roundN, habs, roundN_shift, hsgn]
        congr 1; omega

theorem sub_round_at (n1 n2 : Bool) (c1 c2 : Nat) (e1 e2 m : Int) (h1 : c1 = 0 ∨ m ≤ e1) (h2 : c2 = 0 ∨ m ≤ e2)
    (hr1 : c2 = 0 → Representable c1 e1) (hr2 : c1 = 0 → Representable c2 e2)
    (S : Int) (hS : S = sval n1 c1 e1 m - sval n2 c2 e2 m) :
    RoundRep m (Dec.sub (.fin n1 c1 e1) (.fin n2 c2 e2)) S := by
  by_cases h00 : c1 = 0 ∧ c2 = 0
  · obtain ⟨rfl, rfl⟩ := h00
    simp only [sval_zero, Int.sub_self] at hS
    exact Or.inl ⟨hS, n1 && !n2, by simp [Dec.sub]⟩
  · have : Dec.sub (.fin n1 c1 e1) (.fin n2 c2 e2) = Dec.add (.fin n1 c1 e1) (.fin (!n2) c2 e2) := by
      simp [Dec.sub, Dec.add, h00]
    rw [this]
    exact add_round_at n1 (!n2) c1 c2 e1 e2 m h1 h2 hr1 hr2 S (by rw [hS, sval_neg]; omega)

/-- transfer of `Representable` along `Denotes` -/
theorem denotes_fits {c C : Nat} {e E : Int} (hk : c = 0 ∨ ∃ k : Nat, e = E + (k : Int) ∧ C = c * 10 ^ k)
    (hz : c = 0 ↔ C = 0) (h : Representable C E) : Representable c e := by
  rcases hk with h0 | ⟨k, he, hC⟩
  · subst h0; exact fits_zero e
  · exact (fits_of_mul_pow hC he).mp h

/-- **`+` by value**: `S` the exact sum in units of `10^m`; the result is `S·10^m` correctly rounded.
    (`hr1`, `hr2`: when one operand is zero the other one is returned as it is, so it must be a number of the format.) -/
theorem add_round_den {d1 d2 : Dec} {n1 n2 : Bool} {C1 C2 : Nat} {E1 E2 : Int} (h1 : Denotes d1 n1 C1 E1)
    (h2 : Denotes d2 n2 C2 E2) (hr1 : C2 = 0 → Representable C1 E1) (hr2 : C1 = 0 → Representable C2 E2)
    (m : Int) (hm1 : m ≤ E1) (hm2 : m ≤ E2) (S : Int)
    (hS : S = sval n1 C1 E1 m + sval n2 C2 E2 m) : RoundRep m (Dec.add d1 d2) S := by
  obtain ⟨c1, e1, rfl, hz1, hk1, hv1⟩ := h1.unpack
  obtain ⟨c2, e2, rfl, hz2, hk2, hv2⟩ := h2.unpack
  refine add_round_at n1 n2 c1 c2 e1 e2 m ?_ ?_ (fun h => denotes_fits hk1 hz1 (hr1 (hz2.mp h)))
    (fun h => denotes_fits hk2 hz2 (hr2 (hz1.mp h))) S (by rw [hS, hv1 m hm1, hv2 m hm2])
  · rcases hk1 with h | ⟨k, he, _⟩
    · exact Or.inl h
    · exact Or.inr (by omega)
  · rcases hk2 with h | ⟨k, he, _⟩
    · exact Or.inl h
    · exact Or.inr (by omega)

/-- **`-` by value** -/
theorem sub_round_den {d1 d2 : Dec} {n1 n2 : Bool} {C1 C2 : Nat} {E1 E2 : Int} (h1 : Denotes d1 n1 C1 E1)
    (h2 : Denotes d2 n2 C2 E2) (hr1 : C2 = 0 → Representable C1 E1) (hr2 : C1 = 0 → Representable C2 E2)
    (m : Int) (hm1 : m ≤ E1) (hm2 : m ≤ E2) (S : Int)
    (hS : S = sval n1 C1 E1 m - sval n2 C2 E2 m) : RoundRep m (Dec.sub d1 d2) S := by
  obtain ⟨c1, e1, rfl, hz1, hk1, hv1⟩ := h1.unpack
  obtain ⟨c2, e2, rfl, hz2, hk2, hv2⟩ := h2.unpack
  refine sub_round_at n1 n2 c1 c2 e1 e2 m ?_ ?_ (fun h => denotes_fits hk1 hz1 (hr1 (hz2.mp h)))
    (fun h => denotes_fits hk2 hz2 (hr2 (hz1.mp h))) S (by rw [hS, hv1 m hm1, hv2 m hm2])
  · rcases hk1 with h | ⟨k, he, _⟩
    · exact Or.inl h
    · exact Or.inr (by omega)
  · rcases hk2 with h | ⟨k, he, _⟩
    · exact Or.inl h
    · exact Or.inr (by omega)

/-- **`*` by value**: the exact product `C1·C2·10^(E1+E2)`, correctly rounded -/
theorem mul_round_den {d1 d2 : Dec} {n1 n2 : Bool} {C1 C2 : Nat} {E1 E2 : Int} (h1 : Denotes d1 n1 C1 E1)
    (h2 : Denotes d2 n2 C2 E2) : Dec.mul d1 d2 = roundN (n1 != n2) (C1 * C2) (E1 + E2) := by
  obtain ⟨c1, e1, rfl, hz1, hk1, _⟩ := h1.unpack
  obtain ⟨c2, e2, rfl, hz2, hk2, _⟩ := h2.unpack
  by_cases h0 : c1 = 0 ∨ c2 = 0
  · have : C1 * C2 = 0 := by
      rcases h0 with h | h
      · rw [hz1.mp h]; simp
      · rw [hz2.mp h]; simp
    rw [this, roundN_zero]
    simp [Dec.mul, h0]
  · have hc1 : c1 ≠ 0 := fun h => h0 (Or.inl h)
    have hc2 : c2 ≠ 0 := fun h => h0 (Or.inr h)
    obtain ⟨k1, he1, hC1⟩ := hk1.resolve_left hc1
    obtain ⟨k2, he2, hC2⟩ := hk2.resolve_left hc2
    have hCC : C1 * C2 = c1 * c2 * 10 ^ (k1 + k2) := by
      rw [hC1, hC2, Nat.pow_add]
      simp only [Nat.mul_assoc, Nat.mul_left_comm]
    simp only [Dec.mul, h0, if_false]
    rw [reduce_eq_roundN, hCC, roundN_shift]
    congr 1
    rw [he1, he2]; simp only [Int.natCast_add]; omega

/-- **`//` and `%` by value** (`C2 ≠ 0`): with `A`, `B` the coefficients aligned at `min E1 E2`, the truncated integer
    quotient `A / B` and the remainder `(A % B)·10^(min E1 E2)`, each correctly rounded -/
theorem quoRem_round_den {d1 d2 : Dec} {n1 n2 : Bool} {C1 C2 : Nat} {E1 E2 : Int} (h1 : Denotes d1 n1 C1 E1)
    (h2 : Denotes d2 n2 C2 E2) (hC2 : C2 ≠ 0) :
    (Dec.quoRem d1 d2).1 = roundN (n1 != n2) (aligned C1 E1 (min E1 E2) / aligned C2 E2 (min E1 E2)) 0 ∧
    (Dec.quoRem d1 d2).2 = roundN n1 (aligned C1 E1 (min E1 E2) % aligned C2 E2 (min E1 E2)) (min E1 E2) := by
  obtain ⟨c1, e1, rfl, hz1, hk1, _⟩ := h1.unpack
  obtain ⟨c2, e2, rfl, hz2, hk2, _⟩ := h2.unpack
  have hc2 : c2 ≠ 0 := fun h => hC2 (hz2.mp h)
  by_cases hc1 : c1 = 0
  · have hC1 : C1 = 0 := hz1.mp hc1
    subst hc1; subst hC1
    simp [Dec.quoRem, hc2, aligned, roundN_zero]
  · obtain ⟨k1, he1, hCC1⟩ := hk1.resolve_left hc1
    obtain ⟨k2, he2, hCC2⟩ := hk2.resolve_left hc2
    have hd : min E1 E2 ≤ min e1 e2 := by omega
    have hA : aligned C1 E1 (min E1 E2) = c1 * 10 ^ (e1 - min e1 e2).toNat * 10 ^ (min e1 e2 - min E1 E2).toNat := by
      unfold aligned
      rw [hCC1, Nat.mul_assoc, Nat.mul_assoc, ← Nat.pow_add, ← Nat.pow_add]
      congr 2; omega
    have hB : aligned C2 E2 (min E1 E2) = c2 * 10 ^ (e2 - min e1 e2).toNat * 10 ^ (min e1 e2 - min E1 E2).toNat := by
      unfold aligned
      rw [hCC2, Nat.mul_assoc, Nat.mul_assoc, ← Nat.pow_add, ← Nat.pow_add]
      congr 2; omega
    have hp : 0 < 10 ^ (min e1 e2 - min E1 E2).toNat := Nat.pow_pos (by decide)
    rw [hA, hB, Nat.mul_div_mul_right _ _ hp, Nat.mul_mod_mul_right]
    simp only [Dec.quoRem, hc1, hc2, if_false, pow10]
    refine ⟨reduce_eq_roundN _ _ _, ?_⟩
    rw [reduce_eq_roundN, roundN_shift]
    congr 1; omega

/-- **`/` by value** (both operands non-zero): the exact quotient `C1 / C2 · 10^(E1−E2)`, written as a fraction
    `C1·10^Ka / (C2·10^Kb)` at the exponent `E1 − E2 − Ka + Kb` whose integer part has more than 34 digits, correctly
    rounded (`Ka`, `Kb`: the scaling the library happens to use; it cancels out of the value) -/
theorem quo_round_den {d1 d2 : Dec} {n1 n2 : Bool} {C1 C2 : Nat} {E1 E2 : Int} (h1 : Denotes d1 n1 C1 E1)
    (h2 : Denotes d2 n2 C2 E2) (hC1 : C1 ≠ 0) (hC2 : C2 ≠ 0) :
    ∃ Ka Kb : Nat, MAXSIG < C1 * 10 ^ Ka / (C2 * 10 ^ Kb) ∧
      Dec.quo d1 d2 = roundD (n1 != n2) (C1 * 10 ^ Ka) (C2 * 10 ^ Kb) (E1 - E2 - (Ka : Int) + (Kb : Int)) := by
  obtain ⟨c1, e1, rfl, hz1, hk1, _⟩ := h1.unpack
  obtain ⟨c2, e2, rfl, hz2, hk2, _⟩ := h2.unpack
  have hc1 : c1 ≠ 0 := fun h => hC1 (hz1.mp h)
  have hc2 : c2 ≠ 0 := fun h => hC2 (hz2.mp h)
  obtain ⟨k1, he1, hCC1⟩ := hk1.resolve_left hc1
  obtain ⟨k2, he2, hCC2⟩ := hk2.resolve_left hc2
  have hT : 0 < 10 ^ (k1 + k2) := pow_pos10 _
  have eX : C1 * 10 ^ (40 + ndigits c2 + k2) = c1 * 10 ^ (40 + ndigits c2) * 10 ^ (k1 + k2) := by
    rw [hCC1, Nat.mul_assoc, Nat.mul_assoc, ← Nat.pow_add, ← Nat.pow_add]
    congr 2; omega
  have eD : C2 * 10 ^ k1 = c2 * 10 ^ (k1 + k2) := by
    rw [hCC2, Nat.mul_assoc, ← Nat.pow_add]
    congr 2; omega
  refine ⟨40 + ndigits c2 + k2, k1, ?_, ?_⟩
  · rw [eX, eD, Nat.mul_div_mul_right _ _ hT]
    exact quoFin_q_big c1 c2 hc1 hc2
  · rw [eX, eD, roundD_common _ _ _ _ _ hT]
    simp only [Dec.quo, hc1, hc2, if_false, quoFin, pow10]
    have hr : c1 * 10 ^ (40 + ndigits c2) % c2 < c2 := Nat.mod_lt _ (Nat.pos_of_ne_zero hc2)
    rw [reduce_eq_roundD _ _ _ _ _ hr (quoFin_q_big c1 c2 hc1 hc2), Nat.div_add_mod']
    congr 1
    rw [he1, he2]; simp only [Int.natCast_add]; omega

/-! ## D. what the rounding function returns: nearest, ties to even, at least 34 digits -/

/-- `rheQ X M` is within one half of `X / M` -/
theorem rheQ_close (X M : Nat) (hM : 0 < M) : 2 * X ≤ (2 * rheQ X M + 1) * M ∧ 2 * rheQ X M * M ≤ 2 * X + M := by
  have hdm := Nat.div_add_mod X M
  have hR := Nat.mod_lt X hM
  unfold rheQ
  generalize X / M = Q at *
  generalize X % M = R at *
  split
  · next h =>
    have e1 : (2 * (Q + 1) + 1) * M = 2 * (M * Q) + 3 * M := by grind
    have e2 : 2 * (Q + 1) * M = 2 * (M * Q) + 2 * M := by grind
    rw [e1, e2]
    generalize M * Q = MQ at *
    omega
  · next h =>
    have e1 : (2 * Q + 1) * M = 2 * (M * Q) + M := by grind
    have e2 : 2 * Q * M = 2 * (M * Q) := by grind
    rw [e1, e2]
    generalize M * Q = MQ at *
    omega

/-- an exact tie goes to the even neighbour -/
theorem rheQ_tie_even (X M : Nat) (h : 2 * (X % M) = M) : rheQ X M % 2 = 0 := by
  unfold rheQ
  have hn : ¬ (2 * (X % M) > M) := by omega
  by_cases hodd : X / M % 2 = 1
  · simp only [h, hodd, and_self, or_true, if_true]; omega
  · simp only [hn, hodd, and_false, or_false, if_false]; omega

theorem rheQ_bounds (X M : Nat) : X / M ≤ rheQ X M ∧ rheQ X M ≤ X / M + 1 := by
  unfold rheQ; split <;> omega

/-- an exact quotient is not changed -/
theorem rheQ_exact (X M : Nat) (hM : 0 < M) (h : X % M = 0) : rheQ X M = X / M := by
  unfold rheQ
  have : ¬ (2 * (X % M) > M ∨ (2 * (X % M) = M ∧ X / M % 2 = 1)) := by rw [h]; omega
  simp only [this, if_false]

/-- `rhe V k · 10^k` is within half a unit `10^k` of `V` -/
theorem rhe_close (V k : Nat) : Close V k (rhe V k) := by
  have := rheQ_close V (10 ^ k) (pow_pos10 k)
  rw [← rhe_eq_rheQ] at this
  unfold Close
  obtain ⟨h1, h2⟩ := this
  rw [Nat.add_mul, Nat.one_mul] at h1
  exact ⟨h1, h2⟩

theorem kdrop_spec (c : Nat) (e : Int) :
    c / 10 ^ kdrop c e ≤ MAXSIG ∧ EMIN ≤ e + ((kdrop c e : Nat) : Int) ∧
    (kdrop c e = 0 ∨ e + ((kdrop c e : Nat) : Int) = EMIN ∨
      (1 ≤ kdrop c e ∧ MAXSIG < c / 10 ^ (kdrop c e - 1) ∧ (MAXSIG + 1) / 10 ≤ c / 10 ^ kdrop c e)) := by
  obtain ⟨g1, g2⟩ := ndrop_spec c
  have hle : ndrop c ≤ kdrop c e := by unfold kdrop; omega
  refine ⟨Nat.le_trans (div_pow_anti c hle) g1, by unfold kdrop; omega, ?_⟩
  by_cases h0 : kdrop c e = 0
  · exact Or.inl h0
  · by_cases h1 : e + ((kdrop c e : Nat) : Int) = EMIN
    · exact Or.inr (Or.inl h1)
    · have hk : kdrop c e = ndrop c := by unfold kdrop at h0 h1 ⊢; omega
      have hpos : 1 ≤ ndrop c := by omega
      have h2 := g2 hpos
      refine Or.inr (Or.inr ⟨by omega, by rw [hk]; exact h2, ?_⟩)
      have h3 : c / 10 ^ (ndrop c - 1) / 10 = c / 10 ^ ndrop c := by
        rw [Nat.div_div_eq_div_mul, ← Nat.pow_succ, show (ndrop c - 1).succ = ndrop c by omega]
      rw [hk, ← h3, MAXSIG_val] at *
      omega

/-- a state of the digit-dropping loop exists for every number of dropped digits -/
theorem RInvD_exists (V k : Nat) : ∃ dg st, RInvD V 1 k (V / 10 ^ k) dg st := by
  have hp := pow_pos10 k
  have hdm := Nat.div_add_mod V (10 ^ k)
  have hR := Nat.mod_lt V hp
  have h2 := Nat.div_add_mod (10 * (V % 10 ^ k)) (10 ^ k)
  have hdg : 10 * (V % 10 ^ k) / 10 ^ k < 10 := by
    rw [Nat.div_lt_iff_lt_mul hp]; omega
  refine ⟨10 * (V % 10 ^ k) / 10 ^ k, decide (10 * (V % 10 ^ k) % 10 ^ k ≠ 0), 10 * (V % 10 ^ k) % 10 ^ k, ?_,
    by simpa using Nat.mod_lt _ hp, hdg, by simp⟩
  rw [Nat.mul_one, Nat.pow_succ]
  generalize V / 10 ^ k = Q at *
  generalize V % 10 ^ k = R at *
  generalize 10 * R / 10 ^ k = dg at *
  generalize 10 * R % 10 ^ k = t at *
  generalize 10 ^ k = P at *
  have e1 : Q * (P * 10) = 10 * (P * Q) := by grind
  have e2 : dg * P = P * dg := Nat.mul_comm _ _
  rw [e1, e2]
  generalize P * Q = PQ at *
  generalize P * dg = Pd at *
  omega

/-- **overflow, in the words of the property**: for a coefficient that needs rounding (`c > MAXSIG`), the value
    overflows iff the correctly rounded result needs an exponent above `EMAX` — `e + k` for the `k = kdrop c e` dropped
    digits, one more when the rounding carries to `MAXSIG + 1` -/
theorem overflows_iff_exponent (c : Nat) (e : Int) (hc : MAXSIG < c) :
    OverflowsD c 1 e ↔ EMAX < e + ((kdrop c e : Nat) : Int) + (if rhe c (kdrop c e) ≤ MAXSIG then 0 else 1) := by
  obtain ⟨dg, st, hinv⟩ := RInvD_exists c (kdrop c e)
  obtain ⟨k1, k2, k3⟩ := kdrop_spec c e
  have hEE : EMIN ≤ EMAX := by decide
  have hpos : 1 ≤ ndrop c := ndrop_pos hc
  have hkpos : 1 ≤ kdrop c e := by unfold kdrop; omega
  have hov := overflowsD_iff e hinv k1 (fun h => by
    rcases k3 with h0 | h0 | ⟨_, _, h0⟩
    · omega
    · omega
    · exact ⟨h0, hkpos⟩)
  have hr := rheD_of_RInvD hinv
  rw [rheD_one] at hr
  rw [hov, hr]
  by_cases hup : RoundUp (c / 10 ^ kdrop c e) dg st
  · simp only [hup, if_true, and_true]
    by_cases hM : c / 10 ^ kdrop c e = MAXSIG
    · simp only [hM, and_true]
      have h1 : ¬ (MAXSIG + 1 ≤ MAXSIG) := by omega
      simp only [h1, if_false]
      omega
    · have : c / 10 ^ kdrop c e + 1 ≤ MAXSIG := by omega
      simp only [hM, and_false, or_false, this, if_true]
      omega
  · simp only [hup, and_false, or_false, if_false, k1, if_true]
    omega

/-- overflow for a coefficient that fits: the exponent is above `EMAX` and the zeros that bring it down do not fit -/
theorem overflows_small (c : Nat) (e : Int) (hc : c ≤ MAXSIG) :
    OverflowsD c 1 e ↔ (EMAX < e ∧ MAXSIG < c * 10 ^ (e - EMAX).toNat) := by
  unfold OverflowsD
  by_cases he : EMAX < e
  · have h0 : (EMAX - e).toNat = 0 := by omega
    rw [h0, Nat.pow_zero, Nat.mul_one, Nat.mul_one, Nat.mul_assoc]
    generalize c * 10 ^ (e - EMAX).toNat = W
    simp only [he, true_and]
    omega
  · have h0 : (e - EMAX).toNat = 0 := by omega
    rw [h0, Nat.pow_zero, Nat.mul_one, Nat.mul_one]
    have := pow_pos10 (EMAX - e).toNat
    have h1 : 2 * MAXSIG + 1 ≤ (2 * MAXSIG + 1) * 10 ^ (EMAX - e).toNat := Nat.le_mul_of_pos_right _ this
    simp only [he, false_and, iff_false]
    omega

/-- a representable value does not overflow -/
theorem not_overflows_of_fits {c : Nat} {e : Int} (h : Representable c e) : ¬ OverflowsD c 1 e := by
  intro ho
  rcases roundN_special false c e with ⟨_, h1⟩ | ⟨h1, _⟩
  · rw [roundN_exact false c e h] at h1
    obtain ⟨c', e', h2⟩ := Dec.normalize_fin false c e
    rw [h2] at h1; cases h1
  · exact h1 ho

/-! ## D'. the quotient form depends on the value only -/

/-- zeros may be moved from the numerator into the exponent (integer part above `MAXSIG`) -/
theorem roundD_shift (neg : Bool) (X D d : Nat) (e : Int) (_hD : 0 < D) (hq : MAXSIG < X / D) :
    roundD neg (X * 10 ^ d) D e = roundD neg X D (e + (d : Int)) := by
  have hdiv : ∀ i, X / D / 10 ^ i = X * 10 ^ d / D / 10 ^ (i + d) := by
    intro i
    rw [Nat.div_div_eq_div_mul, Nat.div_div_eq_div_mul, Nat.pow_add, ← Nat.mul_assoc,
      Nat.mul_div_mul_right _ _ (pow_pos10 d)]
  have hb : 1 ≤ ndrop (X / D) := ndrop_pos hq
  obtain ⟨g1, g2⟩ := ndrop_spec (X / D)
  have hnd : ndrop (X * 10 ^ d / D) = ndrop (X / D) + d := by
    apply ndrop_unique
    · rw [← hdiv]; exact g1
    · intro _
      have : ndrop (X / D) + d - 1 = (ndrop (X / D) - 1) + d := by omega
      rw [this, ← hdiv]; exact g2 hb
  have hk : kdrop (X * 10 ^ d / D) e = kdrop (X / D) (e + (d : Int)) + d := by
    unfold kdrop; rw [hnd]; omega
  have hr : rheD (X * 10 ^ d) D (kdrop (X / D) (e + (d : Int)) + d) = rheD X D (kdrop (X / D) (e + (d : Int))) := by
    unfold rheD
    rw [show 10 ^ (kdrop (X / D) (e + (d : Int)) + d) * D = 10 ^ kdrop (X / D) (e + (d : Int)) * D * 10 ^ d by
      rw [Nat.pow_add]; simp only [Nat.mul_left_comm, Nat.mul_comm]]
    exact rheQ_common _ _ _ (pow_pos10 d)
  unfold roundD
  rw [hk, hr]
  simp only [overflowsD_shift X D d e]
  have : e + ((kdrop (X / D) (e + (d : Int)) + d : Nat) : Int) = e + (d : Int) + ((kdrop (X / D) (e + (d : Int)) : Nat) : Int) := by
    omega
  rw [this]

/-- **the rounded quotient depends on the value only**: any two ways of writing `(C1 / C2)·10^E` as a fraction with an
    integer part above `MAXSIG` give the same result -/
theorem roundD_rescale (neg : Bool) (C1 C2 a b a' b' : Nat) (E : Int) (hC2 : 0 < C2)
    (h : MAXSIG < C1 * 10 ^ a / (C2 * 10 ^ b)) (h' : MAXSIG < C1 * 10 ^ a' / (C2 * 10 ^ b')) :
    roundD neg (C1 * 10 ^ a) (C2 * 10 ^ b) (E - (a : Int) + (b : Int)) =
      roundD neg (C1 * 10 ^ a') (C2 * 10 ^ b') (E - (a' : Int) + (b' : Int)) := by
  have key : ∀ (a b a' b' : Nat), a + b' ≤ a' + b → MAXSIG < C1 * 10 ^ a / (C2 * 10 ^ b) →
      roundD neg (C1 * 10 ^ a) (C2 * 10 ^ b) (E - (a : Int) + (b : Int)) =
        roundD neg (C1 * 10 ^ a') (C2 * 10 ^ b') (E - (a' : Int) + (b' : Int)) := by
    intro a b a' b' hle h
    obtain ⟨d, hd⟩ : ∃ d, a' + b = a + b' + d := ⟨a' + b - (a + b'), by omega⟩
    rw [← roundD_common neg (C1 * 10 ^ a) (C2 * 10 ^ b) (10 ^ b') _ (pow_pos10 b'),
      ← roundD_common neg (C1 * 10 ^ a') (C2 * 10 ^ b') (10 ^ b) _ (pow_pos10 b)]
    have eD : C2 * 10 ^ b' * 10 ^ b = C2 * 10 ^ b * 10 ^ b' := Nat.mul_right_comm ..
    have eN : C1 * 10 ^ a' * 10 ^ b = C1 * 10 ^ a * 10 ^ b' * 10 ^ d := by
      rw [Nat.mul_assoc, Nat.mul_assoc, Nat.mul_assoc, ← Nat.pow_add, ← Nat.pow_add, ← Nat.pow_add, hd, Nat.add_assoc]
    rw [eD, eN, roundD_shift neg _ _ d _ (Nat.mul_pos (Nat.mul_pos hC2 (pow_pos10 b)) (pow_pos10 b'))
      (by rw [Nat.mul_div_mul_right _ _ (pow_pos10 b')]; exact h)]
    congr 1
    omega
  by_cases hle : a + b' ≤ a' + b
  · exact key a b a' b' hle h
  · exact (key a' b' a b (by omega) h').symm

/-! ## E. `%` never needs rounding on operands of the format -/

theorem mod_fits (c1 c2 : Nat) (e1 e2 : Int) (h1 : c1 ≤ MAXSIG) (h2 : c2 ≤ MAXSIG) (hc2 : c2 ≠ 0)
    (hl1 : EMIN ≤ e1) (hh1 : e1 ≤ EMAX) (hl2 : EMIN ≤ e2) (hh2 : e2 ≤ EMAX) :
    Representable (aligned c1 e1 (min e1 e2) % aligned c2 e2 (min e1 e2)) (min e1 e2) := by
  unfold aligned
  by_cases h : e1 ≤ e2
  · have hm : min e1 e2 = e1 := by omega
    rw [hm, Int.sub_self, Int.toNat_zero, Nat.pow_zero, Nat.mul_one]
    exact fits_of_le (Nat.le_trans (Nat.mod_le _ _) h1) hl1 hh1
  · have hm : min e1 e2 = e2 := by omega
    rw [hm, Int.sub_self, Int.toNat_zero, Nat.pow_zero, Nat.mul_one]
    have := Nat.mod_lt (c1 * 10 ^ (e1 - e2).toNat) (Nat.pos_of_ne_zero hc2)
    exact fits_of_le (by omega) hl2 hh2

/-- by value: the remainder of two representable numbers is representable (it is a multiple of the finer of the two
    units and smaller than both the divisor and — in magnitude — not larger than the dividend) -/
theorem mod_representable {C1 C2 : Nat} {E1 E2 : Int} (h1 : Representable C1 E1) (h2 : Representable C2 E2) (hC2 : C2 ≠ 0) :
    Representable (aligned C1 E1 (min E1 E2) % aligned C2 E2 (min E1 E2)) (min E1 E2) := by
  obtain ⟨c01, i1, j1, q1, hc1, lo1, hi1⟩ := h1
  obtain ⟨c02, i2, j2, q2, hc2, lo2, hi2⟩ := h2
  have hc02 : c02 ≠ 0 := by
    intro h0; subst h0
    rw [Nat.zero_mul] at q2
    rcases Nat.mul_eq_zero.mp q2 with h | h
    · exact hC2 h
    · exact absurd h (Nat.ne_of_gt (pow_pos10 i2))
  generalize hm : min E1 E2 = m
  generalize hp1 : E1 - (i1 : Int) + (j1 : Int) = p1 at lo1 hi1
  generalize hp2 : E2 - (i2 : Int) + (j2 : Int) = p2 at lo2 hi2
  generalize hμ : min m (min p1 p2) = μ
  -- everything in units of 10^μ
  have F : ∀ (C c0 i j : Nat) (E p : Int), C * 10 ^ i = c0 * 10 ^ j → E - (i : Int) + (j : Int) = p → μ ≤ p → m ≤ E → μ ≤ m →
      aligned C E m * 10 ^ (m - μ).toNat = c0 * 10 ^ (p - μ).toNat := by
    intro C c0 i j E p q hp h1 h2 h3
    unfold aligned
    rw [Nat.mul_assoc, ← Nat.pow_add]
    apply Nat.eq_of_mul_eq_mul_right (pow_pos10 i)
    rw [Nat.mul_right_comm, q, Nat.mul_assoc, Nat.mul_assoc, ← Nat.pow_add, ← Nat.pow_add]
    congr 2
    omega
  have FX := F C1 c01 i1 j1 E1 p1 q1 hp1 (by omega) (by omega) (by omega)
  have FY := F C2 c02 i2 j2 E2 p2 q2 hp2 (by omega) (by omega) (by omega)
  have hT := pow_pos10 (m - μ).toNat
  have hmod : aligned C1 E1 m % aligned C2 E2 m * 10 ^ (m - μ).toNat =
      (c01 * 10 ^ (p1 - μ).toNat) % (c02 * 10 ^ (p2 - μ).toNat) := by
    rw [← Nat.mul_mod_mul_right, FX, FY]
  by_cases hle : p1 ≤ p2
  · have e2 : c02 * 10 ^ (p2 - μ).toNat = c02 * 10 ^ (p2 - p1).toNat * 10 ^ (p1 - μ).toNat := by
      rw [Nat.mul_assoc, ← Nat.pow_add]; congr 2; omega
    rw [e2, Nat.mul_mod_mul_right] at hmod
    refine ⟨c01 % (c02 * 10 ^ (p2 - p1).toNat), (m - μ).toNat, (p1 - μ).toNat, hmod, ?_, by omega, by omega⟩
    exact Nat.le_trans (Nat.mod_le _ _) hc1
  · have e1 : c01 * 10 ^ (p1 - μ).toNat = c01 * 10 ^ (p1 - p2).toNat * 10 ^ (p2 - μ).toNat := by
      rw [Nat.mul_assoc, ← Nat.pow_add]; congr 2; omega
    rw [e1, Nat.mul_mod_mul_right] at hmod
    refine ⟨c01 * 10 ^ (p1 - p2).toNat % c02, (m - μ).toNat, (p2 - μ).toNat, hmod, ?_, by omega, by omega⟩
    have := Nat.mod_lt (c01 * 10 ^ (p1 - p2).toNat) (Nat.pos_of_ne_zero hc02)
    omega

/-! ## F. `sum` as a fold -/

theorem sumDec_inf : ∀ (xs : List Val) (b : Bool), (∀ x ∈ xs, ∃ n c e, toDecimal x = some (.fin n c e)) →
    sumDec xs (.inf b) = some (.inf b)
  | [], _, _ => rfl
  | x :: xs, b, h => by
    obtain ⟨n, c, e, hx⟩ := h x (List.mem_cons_self ..)
    simp only [sumDec, hx]
    exact sumDec_inf xs b (fun y hy => h y (List.mem_cons_of_mem _ hy))

theorem add_fin_fin_or_inf (n1 : Bool) (c1 : Nat) (e1 : Int) (n2 : Bool) (c2 : Nat) (e2 : Int) :
    (∃ b, Dec.add (.fin n1 c1 e1) (.fin n2 c2 e2) = .inf b) ∨
    (∃ n c e, Dec.add (.fin n1 c1 e1) (.fin n2 c2 e2) = .fin n c e) := by
  show (∃ b, addFin n1 c1 e1 n2 c2 e2 = .inf b) ∨ (∃ n c e, addFin n1 c1 e1 n2 c2 e2 = .fin n c e)
  unfold addFin
  simp only []
  repeat' split
  all_goals first
    | exact Or.inr ⟨_, 0, 0, rfl⟩
    | (obtain ⟨c', e', h⟩ := Dec.normalize_fin _ _ _; exact Or.inr ⟨_, c', e', h⟩)
    | (rcases Dec.reduce_fin_or_inf _ _ _ false with h | ⟨c', e', h⟩
       · exact Or.inl ⟨_, h⟩
       · exact Or.inr ⟨_, c', e', h⟩)

end Jmes.C05CLemmas
