/-
  C02 (fourth part) — helper lemmas for `Jmes/Properties/C02E.lean`.

  * `fnOfName name n`: the eager builtin a NAME denotes when called with `n` arguments, read off the parser's table
    (`Parser.builtinTable`), and `SigByName` / `ValueByName`: the signature table `C02C.Sig` and the value-range table
    `ValueOK` indexed by (name, count);
  * `call_text`: the text `name(e1,…,en)` compiles to the node `.call f [n1,…,nn]` and `search` is "evaluate the
    arguments left to right, then apply `f`";
  * `ValueOK`: the value constraints of the function specifications (integral counts, widths, positions; non-negative
    counts and widths; one-character pad), stated on the VALUE of the number (`IntValue`), and
    `applyFn_invalidValue_iff`.
-/
import Jmes.Properties.C02C
import Jmes.Properties.C14
import Jmes.Proofs.C17BLemmas
import Jmes.Proofs.C18CRoundtripEq
namespace Jmes.C02E
open Jmes Jmes.Parser Jmes.Pratt Jmes.Grammar Jmes.GrammarF0
open Jmes.C02 (JType jsonType)
open Jmes.C02C (Sig SigOK PT elems NumOK ArgOK allOK)
set_option linter.unusedSimpArgs false

/-! ## (name, count) ⟶ builtin -/

/-- **the eager builtin that `name` denotes when it is called with `n` arguments**, read off the parser's table: the
    entry must be of the fixed-arity kind, `n` within its range, and the node the entry builds a `.call f _`.
    (`find_first` with 2, 3, 4 arguments is `findFirst`, `findFirstFrom`, `findFirstBetween`, …) -/
def fnOfName (name : Bytes) (n : Nat) : Option Fn :=
  match lookupBuiltin name with
  | some (.fixed mn mx mk) =>
    if mn ≤ n ∧ n ≤ mx then
      (match mk (List.replicate n .current) with
       | .call f _ => some f
       | _ => none)
    else none
  | _ => none

/-- every fixed-arity entry of the table builds `.call f args` with an `f` that depends on the count only, and whose
    arity is that count -/
theorem fixed_mk_call : ∀ e ∈ builtinTable, ∀ mn mx mk, e.2 = .fixed mn mx mk → ∀ n, mn ≤ n → n ≤ mx →
    ∃ f, fnArity f = n ∧ ∀ ns : List INode, ns.length = n → mk ns = .call f ns := by
  simp only [builtinTable, List.forall_mem_cons]
  repeat' apply And.intro
  all_goals first
    | (intro x hx; exact absurd hx List.not_mem_nil)
    | (intro mn mx mk h; cases h; intro n h1 h2
       first
         | exact ⟨_, (by show _ = n; simp only [fnArity]; omega), fun _ _ => rfl⟩
         | (have hn : n = 1 ∨ n = 2 ∨ n = 3 ∨ n = 4 := by omega
            rcases hn with rfl | rfl | rfl | rfl <;> first
              | omega
              | exact ⟨_, rfl, fun ns hns => by simp only [hns]; rfl⟩
              | exact ⟨_, rfl, fun ns hns => by simp [hns]⟩))
    | (intro mn mx mk h; cases h)

theorem mem_of_lookup {name : Bytes} {spec : ArgSpec} (h : lookupBuiltin name = some spec) :
    (name, spec) ∈ builtinTable := by
  simp only [lookupBuiltin, Option.map_eq_some_iff] at h
  obtain ⟨e, he, h2⟩ := h
  have hm := List.mem_of_find?_eq_some he
  have hn := List.find?_some he
  simp only [beq_iff_eq] at hn
  cases e; simp only at hn h2; subst hn; subst h2; exact hm

/-- a fixed-arity builtin called with a count within its range: the node is `.call f args`, `f = fnOfName name n` -/
theorem fixed_call {name : Bytes} {mn mx : Nat} {mk : List INode → INode}
    (hl : lookupBuiltin name = some (.fixed mn mx mk)) {n : Nat} (h1 : mn ≤ n) (h2 : n ≤ mx) :
    ∃ f, fnOfName name n = some f ∧ fnArity f = n ∧ ∀ ns : List INode, ns.length = n → mk ns = .call f ns := by
  obtain ⟨f, hf, hmk⟩ := fixed_mk_call _ (mem_of_lookup hl) mn mx mk rfl n h1 h2
  refine ⟨f, ?_, hf, hmk⟩
  simp only [fnOfName, hl, h1, h2, and_self, if_true, hmk _ (List.length_replicate ..)]

/-- conversely `fnOfName name n = some f` says that `name` is a fixed-arity builtin accepting `n` arguments -/
theorem fnOfName_some {name : Bytes} {n : Nat} {f : Fn} (h : fnOfName name n = some f) :
    ∃ mn mx mk, lookupBuiltin name = some (.fixed mn mx mk) ∧ mn ≤ n ∧ n ≤ mx ∧ fnArity f = n ∧
      ∀ ns : List INode, ns.length = n → mk ns = .call f ns := by
  unfold fnOfName at h
  split at h
  · rename_i mn mx mk hl
    split at h
    · rename_i hr
      obtain ⟨f', hf', ha, hmk⟩ := fixed_call hl hr.1 hr.2
      rw [hmk _ (List.length_replicate ..)] at h
      cases h
      exact ⟨mn, mx, mk, hl, hr.1, hr.2, ha, hmk⟩
    · cases h
  · cases h

example : fnOfName (Grammar.Ex.bs "find_first") 3 = some .findFirstFrom := by decide +kernel
example : fnOfName (Grammar.Ex.bs "find_first") 5 = none := by decide +kernel
example : fnOfName (Grammar.Ex.bs "pad_left") 2 = some .padSpaceLeft := by decide +kernel
example : fnOfName (Grammar.Ex.bs "sort_by") 2 = none := by decide +kernel
example : fnOfName (Grammar.Ex.bs "nosuch") 1 = none := by decide +kernel

/-- **the signature of `name` called with `n` arguments accepts the argument values** (`C02C.Sig` through the parser
    table; `false` when `name` is not an eager builtin taking `n` arguments) -/
def SigByName (name : Bytes) (n : Nat) (vals : List Val) : Bool :=
  match fnOfName name n with
  | some f => SigOK f vals
  | none => false

/-! ## argument expressions that evaluate -/

/-- the argument expression `a` (a well-formed tree of the grammar) evaluates, on the document `d`, to the value `v` -/
structure ArgEval (d : Val) (a : PTree) (v : Val) : Prop where
  wp : WellPrec a
  val : evaluate (erase a) d = .ok v

/-- … which is to say: every text that prints `a` is an expression whose search over `d` gives `v` -/
theorem ArgEval.of_text {d : Val} {a : PTree} {v : Val} (hw : WellPrec a) {t : Bytes}
    (hl : C17B.Lexes t (Grammar.flatten a)) (hs : search t d = .ok v) : ArgEval d a v :=
  ⟨hw, by rw [← (C17B.text hw hl).2 d]; exact hs⟩

theorem ArgEval.search {d : Val} {a : PTree} {v : Val} (h : ArgEval d a v) {t : Bytes}
    (hl : C17B.Lexes t (Grammar.flatten a)) : search t d = .ok v := by
  rw [(C17B.text h.wp hl).2 d]; exact h.val

theorem eraseL_length : ∀ es : List PTree, (eraseL es).length = es.length
  | [] => rfl
  | _ :: es => by simp only [eraseL, List.length_cons, eraseL_length es]

/-- the argument expressions `args` evaluate, position by position, to the values `vals` -/
def ArgsEval (d : Val) : List PTree → List Val → Prop
  | [], [] => True
  | a :: as, v :: vs => ArgEval d a v ∧ ArgsEval d as vs
  | _, _ => False

theorem ArgsEval.length_eq {d : Val} : ∀ {args : List PTree} {vals : List Val}, ArgsEval d args vals →
    args.length = vals.length
  | [], [], _ => rfl
  | _ :: _, _ :: _, h => by simp only [List.length_cons, ArgsEval.length_eq h.2]
  | [], _ :: _, h => h.elim
  | _ :: _, [], h => h.elim

/-- the arguments evaluate position by position: the argument list evaluates to the list of values -/
theorem ievalList_args {d : Val} : ∀ {args : List PTree} {vals : List Val}, ArgsEval d args vals →
    ievalList d (eraseL args) d [] = .ok vals
  | [], [], _ => rfl
  | a :: as, v :: vs, h => by
    have := h.1.val
    simp only [evaluate] at this
    simp only [eraseL, ievalList, this, Res.ok_bind, ievalList_args h.2, Res.pure_eq]
  | [], _ :: _, h => h.elim
  | _ :: _, [], h => h.elim

theorem ArgsEval.wp {d : Val} : ∀ {args : List PTree} {vals : List Val}, ArgsEval d args vals →
    ∀ a ∈ args, WellPrec a
  | [], _, _ => fun a ha => by cases ha
  | a :: as, v :: vs, h => fun x hx => by
    rcases List.mem_cons.mp hx with rfl | hx
    · exact h.1.wp
    · exact ArgsEval.wp h.2 x hx
  | _ :: _, [], h => h.elim

/-! ## the text `name(e1,…,en)` of an eager builtin -/

/-- **`name(e1,…,en)` compiles to "evaluate the arguments left to right, then apply the builtin"**: for a name and a
    count with `fnOfName name n = some f`, and well-formed argument expressions -/
theorem call_text {name : Token} (hn : name.type = .unquotedIdentifier) {args : List PTree} {f : Fn}
    (hf : fnOfName name.value args.length = some f) (hw : ∀ a ∈ args, WellPrec a)
    {e : Bytes} (hlex : C17B.Lexes e (Grammar.flatten (.call name args))) :
    Parser.parse e = .ok (.call f (eraseL args)) ∧ fnArity f = args.length ∧
      ∀ d, search e d = evaluate (.call f (eraseL args)) d := by
  obtain ⟨mn, mx, mk, hl, h1, h2, ha, hmk⟩ := fnOfName_some hf
  have hp := C02B.fixed_in_range hn hl hw h1 h2 (e := e) hlex
  rw [hmk _ (eraseL_length args)] at hp
  exact ⟨hp, ha, C17B.search_of_parse hp⟩

/-- … hence, when the arguments evaluate to `vals`, the search is the builtin applied to `vals` -/
theorem call_text_apply {name : Token} (hn : name.type = .unquotedIdentifier) {args : List PTree} {f : Fn}
    (hf : fnOfName name.value args.length = some f) {d : Val} {vals : List Val}
    (hv : ArgsEval d args vals)
    {e : Bytes} (hlex : C17B.Lexes e (Grammar.flatten (.call name args))) :
    search e d = applyFn f vals ∧ vals.length = fnArity f := by
  obtain ⟨_, ha, hs⟩ := call_text hn hf hv.wp hlex
  refine ⟨?_, by rw [ha]; exact hv.length_eq.symm⟩
  rw [hs d]
  simp only [evaluate, ieval, ievalList_args hv, Res.ok_bind]

/-- arguments are evaluated left to right: when the arguments before `a` evaluate and `a` fails, the list fails as `a` -/
theorem ievalList_first_error {d : Val} : ∀ {pre : List PTree} {vals : List Val}, ArgsEval d pre vals →
    ∀ (a : PTree) (post : List PTree) (cs : List Cat), evaluate (erase a) d = .err cs →
    ievalList d (eraseL (pre ++ a :: post)) d [] = .err cs
  | [], [], _, a, post, cs, h => by
    simp only [evaluate] at h
    simp only [List.nil_append, eraseL, ievalList, h, Res.err_bind]
  | p :: ps, v :: vs, hv, a, post, cs, h => by
    have := hv.1.val
    simp only [evaluate] at this
    simp only [List.cons_append, eraseL, ievalList, this, Res.ok_bind, ievalList_first_error hv.2 a post cs h,
      Res.err_bind]
  | [], _ :: _, hv, _, _, _, _ => hv.elim
  | _ :: _, [], hv, _, _, _, _ => hv.elim

/-- **the first argument that fails to evaluate decides**: the call fails with that argument's error (the builtin is
    not applied, later arguments are not evaluated) -/
theorem call_text_arg_error {name : Token} (hn : name.type = .unquotedIdentifier) {pre post : List PTree} {a : PTree}
    {f : Fn} (hf : fnOfName name.value (pre ++ a :: post).length = some f) {d : Val} {vals : List Val}
    (hpre : ArgsEval d pre vals) (ha : WellPrec a) (hpost : ∀ x ∈ post, WellPrec x) {cs : List Cat}
    (herr : evaluate (erase a) d = .err cs)
    {e : Bytes} (hlex : C17B.Lexes e (Grammar.flatten (.call name (pre ++ a :: post)))) : search e d = .err cs := by
  have hw : ∀ x ∈ pre ++ a :: post, WellPrec x := by
    intro x hx
    rcases List.mem_append.mp hx with hx | hx
    · exact hpre.wp x hx
    · rcases List.mem_cons.mp hx with rfl | hx
      · exact ha
      · exact hpost x hx
  obtain ⟨_, _, hs⟩ := call_text hn hf hw hlex
  rw [hs d]
  simp only [evaluate, ieval, ievalList_first_error hpre a post cs herr, Res.err_bind]

/-! ## value constraints -/

/-- **the number `v` has the integer value `i`, within the int64 range** — a statement about the VALUE of the number
    (`Dec.cmp` compares values), whatever its Go representation: `2`, `2.0`, `2e0`, `20e-1` as `json.Number`, a
    decimal, a float, an integer of any kind -/
def IntValue (v : Val) (i : Int) : Prop :=
  ∃ d, toDecimal v = some d ∧ Dec.Int64Range i ∧ Dec.cmp (Dec.ofInt i) d = some 0

/-- an integral number (an integer position: any sign) -/
def IsInt (v : Val) : Prop := ∃ i, IntValue v i
/-- a count or width: an integral number that is not negative -/
def IsCount (v : Val) : Prop := ∃ i, IntValue v i ∧ 0 ≤ i
/-- a pad: a string of exactly one character (code point) -/
def OneChar (v : Val) : Prop := ∃ p, v = .str p ∧ runeCount p = 1

/-- representation hypothesis on an argument: a `json.Number` carries a text `decimal128.Parse` accepts
    (`C02C.NumOK`), a decimal has its coefficient within decimal128's 34 digits, an integer is within the range of
    its Go kind, a float is a value of its format (`Num.Good`: invariants of the Go types) -/
def GoodVal (v : Val) : Prop := NumOK v ∧ ∀ a, v = .num a → a.Good

theorem str_of_type {v : Val} (h : jsonType v = .string) : ∃ s, v = .str s := by
  cases v <;> first | exact ⟨_, rfl⟩ | cases h
theorem num_of_type {v : Val} (h : jsonType v = .number) : ∃ a, v = .num a := by
  cases v <;> first | exact ⟨_, rfl⟩ | cases h

/-- **`intArg` by value**: a number is accepted as the integer `i` iff its value is `i` (and `i` fits int64), and is an
    invalid value iff its value is no such integer -/
theorem intArg_number {v : Val} (hg : GoodVal v) (hn : jsonType v = .number) :
    (∃ i, intArg v = .ok i ∧ IntValue v i ∧ ∀ j, IntValue v j → j = i) ∨
    (intArg v = .err [Cat.invalidValue] ∧ ¬ IsInt v) := by
  obtain ⟨a, rfl⟩ := num_of_type hn
  obtain ⟨d, hd⟩ := (C02C.toDecimal_some_iff hg.1).mpr hn
  have hga := hg.2 a rfl
  have hb := toDecimal_bounded hga hd
  have hia := C14.intArg_num hga hd
  rcases Dec.decToInt_cases d with e | ⟨i, e⟩
  · right
    rw [e] at hia
    refine ⟨hia, ?_⟩
    rintro ⟨j, d', hd', hr, hc⟩
    rw [hd] at hd'; cases hd'
    rw [Dec.decToInt_of_value hb hr hc] at e; cases e
  · left
    rw [e] at hia
    obtain ⟨hr, hc⟩ := Dec.decToInt_int e
    refine ⟨i, hia, ⟨d, hd, hr, hc⟩, ?_⟩
    rintro j ⟨d', hd', hr', hc'⟩
    rw [hd] at hd'; cases hd'
    rw [Dec.decToInt_of_value hb hr' hc'] at e; cases e; rfl

theorem intArg_ok_iff {v : Val} (hg : GoodVal v) (hn : jsonType v = .number) (i : Int) :
    intArg v = .ok i ↔ IntValue v i := by
  rcases intArg_number hg hn with ⟨i', h1, h2, h3⟩ | ⟨h1, h2⟩
  · constructor
    · intro h; rw [h1] at h; cases h; exact h2
    · intro h; rw [h3 i h]; exact h1
  · constructor
    · intro h; rw [h1] at h; cases h
    · intro h; exact absurd ⟨i, h⟩ h2

theorem intArg_errValue_iff' {v : Val} (hg : GoodVal v) (hn : jsonType v = .number) :
    intArg v = .err [Cat.invalidValue] ↔ ¬ IsInt v := by
  rcases intArg_number hg hn with ⟨i', h1, h2, h3⟩ | ⟨h1, h2⟩
  · constructor
    · intro h; rw [h1] at h; cases h
    · intro h; exact absurd ⟨i', h2⟩ h
  · exact ⟨fun _ => h2, fun _ => h1⟩

/-- "an invalid value, or an accepted integer that fails `P`" ⟺ "not an integral number satisfying `P`" -/
theorem intArg_or {v : Val} (hg : GoodVal v) (hn : jsonType v = .number) (P : Int → Prop) :
    (intArg v = .err [Cat.invalidValue] ∨ ∃ w, intArg v = .ok w ∧ ¬ P w) ↔ ¬ ∃ i, IntValue v i ∧ P i := by
  rcases intArg_number hg hn with ⟨i', h1, h2, h3⟩ | ⟨h1, h2⟩
  · constructor
    · rintro (h | ⟨w, hw, hp⟩)
      · rw [h1] at h; cases h
      · rw [h1] at hw; cases hw
        rintro ⟨j, hj, hpj⟩; rw [h3 j hj] at hpj; exact hp hpj
    · intro h
      exact Or.inr ⟨i', h1, fun hp => h ⟨i', h2, hp⟩⟩
  · constructor
    · rintro _ ⟨j, hj, _⟩; exact h2 ⟨j, hj⟩
    · intro _; exact Or.inl h1

theorem toInt_of_intArg {v : Val} {i : Int} (h : intArg v = .ok i) : toInt v = .int i := by
  unfold intArg at h
  cases ht : toInt v <;> rw [ht] at h <;> simp only [errType] at h
  · cases h; rfl
  · split at h <;> cases h
  all_goals cases h

/-- `find_first` / `find_last` with a start position: a value error iff the position is not integral -/
theorem findFrom_errValue_iff (last : Bool) (s p : Bytes) (st : Val) :
    findFrom last (.str s) (.str p) st = .err [Cat.invalidValue] ↔ intArg st = .err [Cat.invalidValue] := by
  simp only [findFrom, strArg, Res.ok_bind, C02.bind_eq_err_iff]
  constructor
  · rintro (h | ⟨i, _, h⟩)
    · exact h
    · exfalso
      split at h
      · cases h
      · split at h <;> cases h
  · intro h; exact Or.inl h

/-- … with a start and an end position: a value error iff one of them is not integral -/
theorem findBetween_errValue_iff (last : Bool) (s p : Bytes) (st fin : Val) (h1 : GoodVal st) (h2 : GoodVal fin)
    (n1 : jsonType st = .number) (n2 : jsonType fin = .number) :
    findBetween last (.str s) (.str p) st fin = .err [Cat.invalidValue] ↔ ¬ (IsInt st ∧ IsInt fin) := by
  have tail : ∀ (i j : Int), (match startOffset s i with
      | none => (pure Val.null : Res Val)
      | some i => do
        match finishOffset s j with
        | none => pure .null
        | some j =>
          if i > j then pure .null
          else
            let w := (s.drop i).take (j - i)
            match (if last then lastIndexOf w p else indexOf w p) with
            | none => pure .null
            | some r => pure (runeIndexVal s (r + i))) ≠ .err [Cat.invalidValue] := by
    intro i j h
    repeat' (first | (cases h; done) | split at h | simp only at h)
  rcases intArg_number h1 n1 with ⟨i, hi, hiv, _⟩ | ⟨hi, hni⟩
  · have ti := toInt_of_intArg hi
    rcases intArg_number h2 n2 with ⟨j, hj, hjv, _⟩ | ⟨hj, hnj⟩
    · simp only [findBetween, strArg, Res.ok_bind, ti, hj]
      constructor
      · intro h; exact absurd h (tail i j)
      · intro h; exact absurd ⟨⟨i, hiv⟩, ⟨j, hjv⟩⟩ h
    · simp only [findBetween, strArg, Res.ok_bind, ti, hj, Res.err_bind]
      exact ⟨fun _ h => hnj h.2, fun _ => trivial⟩
  · obtain ⟨⟨d, hd⟩, ti⟩ := (C02.intArg_errValue_iff st).mp hi
    have tf : toInt fin = .notInt ∨ ∃ j, toInt fin = .int j := by
      rcases intArg_number h2 n2 with ⟨j, hj, _⟩ | ⟨hj, _⟩
      · exact Or.inr ⟨j, toInt_of_intArg hj⟩
      · exact Or.inl ((C02.intArg_errValue_iff fin).mp hj).2
    constructor
    · intro _ h; exact hni h.1
    · intro _
      rcases tf with tf | ⟨j, tf⟩ <;>
        simp only [findBetween, strArg, Res.ok_bind, ti, tf, hd, errValue, Res.err_bind]

/-- a `from_items` pair: a two-element array whose first element is a string -/
def IsPair (x : Val) : Prop := ∃ t k v, x = .arr t [k, v] ∧ jsonType k = .string

/-- **the value constraints of the function specifications**, on well-typed arguments: widths and counts are
    non-negative integers, positions are integers, a pad is one character, the items of `from_items` are
    `[string, value]` pairs; every other builtin has none -/
def ValueOK : Fn → List Val → Prop
  | .padLeft, [_, w, p] => IsCount w ∧ OneChar p
  | .padRight, [_, w, p] => IsCount w ∧ OneChar p
  | .padSpaceLeft, [_, w] => IsCount w
  | .padSpaceRight, [_, w] => IsCount w
  | .splitCount, [_, _, c] => IsCount c
  | .replaceCount, [_, _, _, c] => IsCount c
  | .findFirstFrom, [_, _, st] => IsInt st
  | .findLastFrom, [_, _, st] => IsInt st
  | .findFirstBetween, [_, _, st, fin] => IsInt st ∧ IsInt fin
  | .findLastBetween, [_, _, st, fin] => IsInt st ∧ IsInt fin
  | .fromItems, [a] => ∀ x ∈ elems a, IsPair x
  | _, _ => True

theorem sig3 {p q r : PT} {a b c : Val} (h : allOK [p, q, r] [a, b, c] = true) :
    p.ok a = true ∧ q.ok b = true ∧ r.ok c = true := by
  simpa [allOK] using h
theorem sig2 {p q : PT} {a b : Val} (h : allOK [p, q] [a, b] = true) : p.ok a = true ∧ q.ok b = true := by
  simpa [allOK] using h
theorem sig4 {p q r t : PT} {a b c d : Val} (h : allOK [p, q, r, t] [a, b, c, d] = true) :
    p.ok a = true ∧ q.ok b = true ∧ r.ok c = true ∧ t.ok d = true := by
  simpa [allOK] using h
theorem ok1 {t : JType} {v : Val} (h : (PT.oneOf [t]).ok v = true) : jsonType v = t := by
  simpa [PT.ok, eq_comm] using h

theorem isCount_iff (v : Val) : IsCount v ↔ ∃ i, IntValue v i ∧ ¬ i < 0 := by
  simp only [IsCount, Int.not_lt]

theorem pad_iff {w p : Val} {q : Bytes} (hg : GoodVal w) (hn : jsonType w = .number) (hp : p = .str q) :
    (intArg w = .err [Cat.invalidValue] ∨ ∃ i, intArg w = .ok i ∧ (i < 0 ∨ runeCount q ≠ 1)) ↔
      ¬ (IsCount w ∧ OneChar p) := by
  subst hp
  have : OneChar (.str q) ↔ runeCount q = 1 :=
    ⟨fun ⟨p, h1, h2⟩ => by cases h1; exact h2, fun h => ⟨q, rfl, h⟩⟩
  rw [this]
  by_cases hq : runeCount q = 1
  · simp only [hq, ne_eq, not_true_eq_false, or_false, and_true, isCount_iff]
    exact intArg_or hg hn (fun i => ¬ i < 0) |> fun h => by simpa using h
  · simp only [hq, ne_eq, not_false_eq_true, or_true, and_true, and_false]
    rcases intArg_number hg hn with ⟨i, h1, _⟩ | ⟨h1, _⟩
    · exact ⟨fun _ => trivial, fun _ => Or.inr ⟨i, h1⟩⟩
    · exact ⟨fun _ => trivial, fun _ => Or.inl h1⟩

theorem count_iff {w : Val} (hg : GoodVal w) (hn : jsonType w = .number) :
    (intArg w = .err [Cat.invalidValue] ∨ ∃ i, intArg w = .ok i ∧ i < 0) ↔ ¬ IsCount w := by
  rw [isCount_iff]
  have := intArg_or hg hn (fun i => ¬ i < 0)
  simpa using this

/-- **invalid-value exactly when a well-typed argument is outside the permitted range**: for every eager builtin
    except `from_items` (see `fromItems_invalidValue_iff`), every argument list of its arity that is within the
    signature -/
theorem applyFn_invalidValue_iff (f : Fn) (args : List Val) (hlen : args.length = fnArity f)
    (hg : ∀ a ∈ args, GoodVal a) (hs : SigOK f args = true) (hf : f ≠ .fromItems) :
    applyFn f args = .err [Cat.invalidValue] ↔ ¬ ValueOK f args := by
  by_cases hv : f ∈ C02B.valueFns
  · simp only [C02B.valueFns, List.mem_cons, List.not_mem_nil, or_false] at hv
    rcases hv with rfl | rfl | rfl | rfl | rfl | rfl | rfl | rfl | rfl | rfl | rfl
    · obtain ⟨a, b, c, rfl⟩ := C02C.len3 hlen
      obtain ⟨h1, h2, h3⟩ := sig3 hs
      obtain ⟨s, rfl⟩ := str_of_type (ok1 h1); obtain ⟨p, rfl⟩ := str_of_type (ok1 h2)
      show findFrom false _ _ _ = _ ↔ _
      rw [findFrom_errValue_iff, intArg_errValue_iff' (hg c (by simp)) (ok1 h3)]; rfl
    · obtain ⟨a, b, c, d, rfl⟩ := C02C.len4 hlen
      obtain ⟨h1, h2, h3, h4⟩ := sig4 hs
      obtain ⟨s, rfl⟩ := str_of_type (ok1 h1); obtain ⟨p, rfl⟩ := str_of_type (ok1 h2)
      exact findBetween_errValue_iff false s p c d (hg c (by simp)) (hg d (by simp)) (ok1 h3) (ok1 h4)
    · obtain ⟨a, b, c, rfl⟩ := C02C.len3 hlen
      obtain ⟨h1, h2, h3⟩ := sig3 hs
      obtain ⟨s, rfl⟩ := str_of_type (ok1 h1); obtain ⟨p, rfl⟩ := str_of_type (ok1 h2)
      show findFrom true _ _ _ = _ ↔ _
      rw [findFrom_errValue_iff, intArg_errValue_iff' (hg c (by simp)) (ok1 h3)]; rfl
    · obtain ⟨a, b, c, d, rfl⟩ := C02C.len4 hlen
      obtain ⟨h1, h2, h3, h4⟩ := sig4 hs
      obtain ⟨s, rfl⟩ := str_of_type (ok1 h1); obtain ⟨p, rfl⟩ := str_of_type (ok1 h2)
      exact findBetween_errValue_iff true s p c d (hg c (by simp)) (hg d (by simp)) (ok1 h3) (ok1 h4)
    · exact absurd rfl hf
    · obtain ⟨a, b, c, rfl⟩ := C02C.len3 hlen
      obtain ⟨h1, h2, h3⟩ := sig3 hs
      obtain ⟨s, rfl⟩ := str_of_type (ok1 h1); obtain ⟨p, rfl⟩ := str_of_type (ok1 h3)
      show padLeft _ _ _ = _ ↔ _
      rw [C02.padLeft_errValue_iff]
      exact pad_iff (hg b (by simp)) (ok1 h2) rfl
    · obtain ⟨a, b, c, rfl⟩ := C02C.len3 hlen
      obtain ⟨h1, h2, h3⟩ := sig3 hs
      obtain ⟨s, rfl⟩ := str_of_type (ok1 h1); obtain ⟨p, rfl⟩ := str_of_type (ok1 h3)
      show padRight _ _ _ = _ ↔ _
      rw [C02.padRight_errValue_iff]
      exact pad_iff (hg b (by simp)) (ok1 h2) rfl
    · obtain ⟨a, b, rfl⟩ := C02C.len2 hlen
      obtain ⟨h1, h2⟩ := sig2 hs
      obtain ⟨s, rfl⟩ := str_of_type (ok1 h1)
      show padSpaceLeft _ _ = _ ↔ _
      rw [C02.padSpaceLeft_errValue_iff]
      exact count_iff (hg b (by simp)) (ok1 h2)
    · obtain ⟨a, b, rfl⟩ := C02C.len2 hlen
      obtain ⟨h1, h2⟩ := sig2 hs
      obtain ⟨s, rfl⟩ := str_of_type (ok1 h1)
      show padSpaceRight _ _ = _ ↔ _
      rw [C02.padSpaceRight_errValue_iff]
      exact count_iff (hg b (by simp)) (ok1 h2)
    · obtain ⟨a, b, c, d, rfl⟩ := C02C.len4 hlen
      obtain ⟨h1, h2, h3, h4⟩ := sig4 hs
      obtain ⟨s, rfl⟩ := str_of_type (ok1 h1); obtain ⟨p, rfl⟩ := str_of_type (ok1 h2)
      obtain ⟨q, rfl⟩ := str_of_type (ok1 h3)
      show replaceCount _ _ _ _ = _ ↔ _
      rw [C02.replaceCount_errValue_iff]
      exact count_iff (hg d (by simp)) (ok1 h4)
    · obtain ⟨a, b, c, rfl⟩ := C02C.len3 hlen
      obtain ⟨h1, h2, h3⟩ := sig3 hs
      obtain ⟨s, rfl⟩ := str_of_type (ok1 h1); obtain ⟨p, rfl⟩ := str_of_type (ok1 h2)
      show splitCount _ _ _ = _ ↔ _
      rw [C02.splitCount_errValue_iff]
      exact count_iff (hg c (by simp)) (ok1 h3)
  · have h1 : applyFn f args ≠ .err [Cat.invalidValue] :=
      fun h => hv (C02B.invalidValue_only_from f args h (by simp))
    have h2 : ValueOK f args := by
      cases f <;> first | trivial | (exact absurd (by decide) hv)
    exact ⟨fun h => absurd h h1, fun h => absurd h2 h⟩

/-! ### `from_items` -/

theorem exists_first {α} (P : α → Prop) : ∀ (xs : List α), (∃ x ∈ xs, ¬ P x) →
    ∃ pre x post, xs = pre ++ x :: post ∧ (∀ y ∈ pre, P y) ∧ ¬ P x
  | [], h => by obtain ⟨_, h, _⟩ := h; cases h
  | a :: as, h => by
    by_cases ha : P a
    · have : ∃ x ∈ as, ¬ P x := by
        obtain ⟨x, hx, hp⟩ := h
        rcases List.mem_cons.mp hx with rfl | hx
        · exact absurd ha hp
        · exact ⟨x, hx, hp⟩
      obtain ⟨pre, x, post, h1, h2, h3⟩ := exists_first P as this
      refine ⟨a :: pre, x, post, by rw [h1]; rfl, ?_, h3⟩
      intro y hy
      rcases List.mem_cons.mp hy with rfl | hy
      · exact ha
      · exact h2 y hy
    · exact ⟨[], a, as, rfl, fun _ h => (nomatch h), ha⟩

/-- **`from_items`, value errors**: on an array within the signature `array[array]` (every element an array) whose
    element order is determined and none of whose elements is a map-ordered pair, invalid-value iff some element is
    not a `[string, value]` pair -/
theorem fromItems_invalidValue_iff (t : ATag) (xs : List Val) (ht : enum2 t xs = false)
    (hne : ∀ x ∈ xs, ∀ ys, x ≠ .arr .enum ys) (hs : SigOK .fromItems [.arr t xs] = true) :
    applyFn .fromItems [.arr t xs] = .err [Cat.invalidValue] ↔ ¬ ValueOK .fromItems [.arr t xs] := by
  have harr : ∀ x ∈ xs, jsonType x = .array := by
    simpa [SigOK, Sig, allOK, PT.ok, elems, jsonType] using hs
  have good : ∀ y, (∀ ys, y ≠ .arr .enum ys) → (IsPair y ↔ ∃ s v, C02.classify y = .good s v) := by
    intro y hy
    constructor
    · rintro ⟨t', k, v, rfl, hk⟩
      obtain ⟨s, rfl⟩ := str_of_type hk
      exact ⟨s, v, (C02.classify_good_iff _ s v).mpr ⟨t', rfl, fun h => hy _ (by rw [h])⟩⟩
    · rintro ⟨s, v, h⟩
      obtain ⟨t', rfl, _⟩ := (C02.classify_good_iff _ s v).mp h
      exact ⟨t', _, v, rfl, rfl⟩
  show fromItems (.arr t xs) = _ ↔ _
  rw [C02C.fromItems_err_iff t xs ht, C02.fromItemsLoop_err_iff]
  simp only [ValueOK, elems]
  constructor
  · rintro ⟨pre, x, post, rfl, _, hx⟩ hall
    rcases hx with ⟨_, h⟩ | ⟨hx, _⟩
    · cases h
    · have hp := hall x (by simp)
      obtain ⟨s, v, hg⟩ := (good x (hne x (by simp))).mp hp
      rw [hg] at hx; cases hx
  · intro hall
    have : ∃ x ∈ xs, ¬ IsPair x := by
      apply Classical.byContradiction
      intro h
      exact hall (fun x hx => Classical.byContradiction fun hp => h ⟨x, hx, hp⟩)
    obtain ⟨pre, x, post, rfl, hpre, hx⟩ := exists_first IsPair xs this
    refine ⟨pre, x, post, rfl, fun y hy => (good y (hne y (by simp [hy]))).mp (hpre y hy), Or.inr ⟨?_, trivial⟩⟩
    have hxa := harr x (by simp)
    cases hc : C02.classify x with
    | notArray => exact absurd hxa ((C02C.notArray_iff x).mp hc)
    | badPair => rfl
    | good s v => exact absurd ((good x (hne x (by simp))).mpr ⟨s, v, hc⟩) hx
    | mapOrdered =>
      exfalso
      cases x with
      | arr t' ia =>
        match ia, hc with
        | [k, v], hc =>
          by_cases he : t' = .enum
          · subst he; exact hne (.arr .enum [k, v]) (by simp) [k, v] rfl
          · simp only [C02.classify, he, if_false] at hc
            split at hc <;> cases hc
      | _ => cases hc

/-! ## unknown names, wrong counts: decided when the expression is compiled -/

/-- **an unknown function name is rejected at compile time**, whatever follows the `(` — arguments are not even
    parsed — and `Search` reports unknown-function whatever the data -/
theorem unknown_name_text {name : Token} (hn : name.type = .unquotedIdentifier)
    (hl : lookupBuiltin name.value = none) {rest : List Token} {e : Bytes}
    (hlex : lexAll e = (name :: tLParen :: rest, none)) :
    compile e = .error .unknownFunction ∧ ∀ d, search e d = .err [Cat.unknownFunction] := by
  have hp : Parser.parse e = .error .unknownFunction := by
    refine C02B.parse_error_of_expr hlex (F := 3) (C02B.expr_of_function_err hn ?_) (by decide)
    rw [function.eq_2]
    pm_eval [hl]
  exact ⟨hp, fun d => by simp only [search, hp]; rfl⟩

/-- **a fixed-arity builtin with a count outside its signature is an arity error at compile time** (and only then:
    `fnOfName` is defined exactly for the counts within the signature) -/
theorem arity_text {name : Token} (hn : name.type = .unquotedIdentifier) {mn mx : Nat} {mk : List INode → INode}
    (hl : lookupBuiltin name.value = some (.fixed mn mx mk)) {args : List PTree} (hw : ∀ a ∈ args, WellPrec a)
    {e : Bytes} (hlex : C17B.Lexes e (Grammar.flatten (.call name args))) :
    (compile e = .error .invalidFunctionCall ↔ fnOfName name.value args.length = none) ∧
    (fnOfName name.value args.length = none → ∀ d, search e d = .err [Cat.arity]) := by
  have key : fnOfName name.value args.length = none ↔ args.length < mn ∨ mx < args.length := by
    constructor
    · intro h
      by_cases h1 : mn ≤ args.length
      · by_cases h2 : args.length ≤ mx
        · obtain ⟨f, hf, _⟩ := fixed_call hl h1 h2
          rw [hf] at h; cases h
        · exact Or.inr (by omega)
      · exact Or.inl (by omega)
    · intro h
      have : ¬ (mn ≤ args.length ∧ args.length ≤ mx) := by omega
      simp only [fnOfName, hl, this, if_false]
  have hiff := C02B.fixed_arity_iff hn hl hw (e := e) hlex
  refine ⟨by rw [key]; exact hiff, fun h d => ?_⟩
  have hp := hiff.mpr (key.mp h)
  simp only [search, hp]; rfl

/-! ## the variadic builtins: `merge`, `zip`, `not_null` -/

/-- the three variadic entries of the table -/
theorem varArg_table : ∀ e ∈ builtinTable, ∀ mk, e.2 = .varArg mk →
    (e.1 = Grammar.Ex.bs "merge" ∧ mk = .merge) ∨ (e.1 = Grammar.Ex.bs "not_null" ∧ mk = .notNull) ∨
      (e.1 = Grammar.Ex.bs "zip" ∧ mk = .zip) := by
  simp only [builtinTable, List.forall_mem_cons]
  repeat' apply And.intro
  all_goals first
    | (intro x hx; exact absurd hx List.not_mem_nil)
    | (intro mk h; cases h; first
        | exact Or.inl ⟨by decide +kernel, rfl⟩
        | exact Or.inr (Or.inl ⟨by decide +kernel, rfl⟩)
        | exact Or.inr (Or.inr ⟨by decide +kernel, rfl⟩))
    | (intro mk h; cases h)

/-- **the variadic rows of the signature table**: the parameter type every argument of `merge` (object), `zip`
    (array) and `not_null` (any) must have — read off the parser table as `fnOfName` is -/
def VarSig (name : Bytes) : Option PT :=
  match lookupBuiltin name with
  | some (.varArg mk) =>
    (match mk [] with
     | .merge _ => some C02C.tObject
     | .zip _ => some (.oneOf [.array])
     | .notNull _ => some .any
     | _ => none)
  | _ => none

/-- at least one argument, each of the row's type -/
def VarSigOK (name : Bytes) (vals : List Val) : Bool :=
  match VarSig name with
  | some p => !vals.isEmpty && vals.all p.ok
  | none => false

example : VarSig [0x6D, 0x65, 0x72, 0x67, 0x65] = some C02C.tObject := rfl
example : VarSig [0x7A, 0x69, 0x70] = some (.oneOf [.array]) := rfl
example : VarSig [0x6E, 0x6F, 0x74, 0x5F, 0x6E, 0x75, 0x6C, 0x6C] = some .any := rfl
example : VarSig (Grammar.Ex.bs "abs") = none := by decide +kernel

/-- the first value that is not null, null when there is none -/
def firstNonNull : List Val → Val
  | [] => .null
  | v :: vs => if v.isNull then firstNonNull vs else v

theorem ievalNotNull_of_list (root cur : Val) (env : Env) : ∀ (ns : List INode) (vs : List Val),
    ievalList root ns cur env = .ok vs → ievalNotNull root ns cur env = .ok (firstNonNull vs)
  | [], vs, h => by
    simp only [ievalList, Res.ok.injEq] at h
    subst h; rfl
  | n :: ns, vs, h => by
    obtain ⟨v, vs', hv, hvs, rfl⟩ := (C02.ievalList_cons_ok root n ns cur env vs).mp h
    simp only [ievalNotNull, hv, Res.ok_bind, firstNonNull]
    split
    · exact ievalNotNull_of_list root cur env ns vs' hvs
    · rfl

/-- the text `name(e1,…,en)` of a variadic builtin, `n ≥ 1`, compiles to its node -/
theorem varArg_text {name : Token} (hn : name.type = .unquotedIdentifier) {mk : List INode → INode}
    (hl : lookupBuiltin name.value = some (.varArg mk)) {args : List PTree} (hw : ∀ a ∈ args, WellPrec a)
    (h1 : 1 ≤ args.length) {e : Bytes} (hlex : C17B.Lexes e (Grammar.flatten (.call name args))) :
    Parser.parse e = .ok (mk (eraseL args)) ∧ ∀ d, search e d = evaluate (mk (eraseL args)) d := by
  have hp := (C02B.varArg_arity_iff hn hl hw (e := e) hlex).2 h1
  exact ⟨hp, C17B.search_of_parse hp⟩

theorem all_false_iff {p : PT} (vals : List Val) : vals.all p.ok = false ↔ ∃ v ∈ vals, p.ok v = false := by
  simp [List.all_eq_false]

/-! ## the builtins that take an expression reference -/

/-- the text `name(a, &t)` of `sort_by`, `max_by`, `min_by`, `group_by` compiles to its node -/
theorem expArg_text {name : Token} (hn : name.type = .unquotedIdentifier) {mk : INode → INode → INode}
    (hl : lookupBuiltin name.value = some (.expArg mk)) {a t : PTree} (ha : WellPrec a) (ht : WellPrec t)
    {e : Bytes} (hlex : C17B.Lexes e (Grammar.flatten (.call name [a, .ref t]))) :
    Parser.parse e = .ok (mk (erase a) (erase t)) ∧ ∀ d, search e d = evaluate (mk (erase a) (erase t)) d := by
  have hp := (C02B.expArg_arity_iff hn hl ha (more := [.ref t])
    (fun x hx => by cases hx; exact ⟨t, rfl, ht⟩) (e := e) hlex).2 t rfl
  exact ⟨hp, C17B.search_of_parse hp⟩

/-- the text `map(&t, a)` compiles to its node -/
theorem mapArg_text {name : Token} (hn : name.type = .unquotedIdentifier) {mk : INode → INode → INode}
    (hl : lookupBuiltin name.value = some (.mapArg mk)) {a t : PTree} (ha : WellPrec a) (ht : WellPrec t)
    {e : Bytes} (hlex : C17B.Lexes e (Grammar.flatten (.call name [.ref t, a]))) :
    Parser.parse e = .ok (mk (erase t) (erase a)) ∧ ∀ d, search e d = evaluate (mk (erase t) (erase a)) d := by
  have hp := (C02B.mapArg_arity_iff hn hl ht (more := [a])
    (fun x hx => by cases hx; exact ha) (e := e) hlex).2 a rfl
  exact ⟨hp, C17B.search_of_parse hp⟩

/-! ## `to_string`: well-formed values are free of map-ordered arrays -/

mutual
theorem wf_hasEnum2 : ∀ v : Val, C18CR.WF v → v.hasEnum2 = false
  | .null, _ => rfl
  | .bool _, _ => rfl
  | .str _, _ => rfl
  | .num _, _ => rfl
  | .foreign _, _ => rfl
  | .arr .plain xs, h => by
    simp only [C18CR.WF] at h
    simp [Val.hasEnum2, wfL_hasEnum2 xs h]
  | .arr .nil _, h => by simp [C18CR.WF] at h
  | .arr .enum _, h => by simp [C18CR.WF] at h
  | .obj kvs, h => by
    simp only [C18CR.WF] at h
    simp [Val.hasEnum2, wfF_hasEnum2 kvs h]
theorem wfL_hasEnum2 : ∀ xs : List Val, C18CR.WFL xs → Val.hasEnum2L xs = false
  | [], _ => rfl
  | x :: xs, h => by
    simp only [C18CR.WFL] at h
    simp [Val.hasEnum2L, wf_hasEnum2 x h.1, wfL_hasEnum2 xs h.2]
theorem wfF_hasEnum2 : ∀ kvs : List (Bytes × Val), C18CR.WFF kvs → Val.hasEnum2F kvs = false
  | [], _ => rfl
  | (k, x) :: kvs, h => by
    simp only [C18CR.WFF] at h
    simp [Val.hasEnum2F, wf_hasEnum2 x h.2.1, wfF_hasEnum2 kvs h.2.2.2]
end

end Jmes.C02E
