/-
  Parser ⟷ grammar, part 3: soundness.  Whenever a function of the parser's mutual block succeeds on `stOf ts`, it has
  consumed a prefix of `ts` that is the printing of a well-formed `PTree` (or list of trees) whose `erase` is the node
  returned.  `Sound fuel` packages the thirteen statements; `sound` is the induction on fuel.

  `indexP` (not recursive, but long, with mutable variables) is first shown equal to a three-phase functional mirror
  (`startP` / `stopP` / `stepP`, `indexP_eq`), and inverted phase by phase.
-/
import Jmes.Proofs.GrammarF2
namespace Jmes.GrammarS
open Jmes Jmes.Parser Jmes.Pratt Jmes.Grammar Jmes.GrammarF0 Jmes.GrammarF2
set_option linter.unusedSimpArgs false

def AllCanon (ts : List Token) : Prop := ∀ t ∈ ts, Canon t

theorem AllCanon.tail {t : Token} {ts : List Token} (h : AllCanon (t :: ts)) : AllCanon ts :=
  fun x hx => h x (List.mem_cons_of_mem _ hx)
theorem AllCanon.head {t : Token} {ts : List Token} (h : AllCanon (t :: ts)) : Canon t := h t (by simp)
theorem AllCanon.right {a b : List Token} (h : AllCanon (a ++ b)) : AllCanon b :=
  fun x hx => h x (List.mem_append_right _ hx)

/-- the loop at power `lev` stops at the next token -/
def okAfter (lev : Nat) (rest : List Token) : Prop :=
  precedence (stOf rest).curr.type ≤ lev ∨ (stOf rest).curr.type = .not

theorem okAfter.mono {a b : Nat} {rest} (h : okAfter a rest) (hab : a ≤ b) : okAfter b rest :=
  h.elim (fun h => Or.inl (Nat.le_trans h hab)) Or.inr

theorem okAfter_top (rest : List Token) : okAfter top rest :=
  Or.inl (Nat.le_of_lt (levels_agree.2.2.2.2.2.2.2.2.2.2.2.2.2.2 _))

theorem okAfter_min {a b : Nat} {rest} (h1 : okAfter a rest) (h2 : okAfter b rest) : okAfter (min a b) rest := by
  rcases h1 with h1 | h1
  · rcases h2 with h2 | h2
    · exact Or.inl (Nat.le_min.2 ⟨h1, h2⟩)
    · exact Or.inr h2
  · exact Or.inr h1

theorem curr_cons {ts : List Token} {τ : TokenType} (h : (stOf ts).curr.type = τ) (hne : τ ≠ .end) :
    ∃ t ts', ts = t :: ts' ∧ t.type = τ := by
  cases ts with
  | nil => exact absurd h.symm hne
  | cons t ts' => exact ⟨t, ts', rfl, h⟩

theorem curr_canon {ts : List Token} (hC : AllCanon ts) {τ : TokenType} {v : Bytes}
    (h : (stOf ts).curr.type = τ) (hv : canonValue τ = some v) : ∃ ts', ts = ⟨τ, v⟩ :: ts' ∧ AllCanon ts' := by
  obtain ⟨t, ts', rfl, ht⟩ := curr_cons h (by intro h0; rw [h0] at hv; cases hv)
  refine ⟨ts', ?_, hC.tail⟩
  have := hC.head v (by rw [ht]; exact hv)
  obtain ⟨ty, val⟩ := t
  simp only at ht this
  rw [ht, this]



def atoiP : PM Int := do
  match parseInt64 (← currValue) with
  | some i => pure i
  | none => fail .invalidIndex

def finishP (child : Option INode) (start stop step : Int) : PM (INode × Bool) := do
  advance2
  if step = 1 then return ((match child with
    | none => .sliceCurrent start stop
    | some c => .slice c start stop), true)
  else match child with
    | none => return (.sliceStepCurrent start stop step, true)
    | some c => return (.sliceStep c start stop step, true)

def stepP (child : Option INode) (haveStart haveStop : Bool) (start stop : Int) : PM (INode × Bool) := do
  if (← currType) == .integerLiteral then
    if (← nextType) != .closeSqBrace then fail .unexpectedToken
    let step ← atoiP
    if step = 0 then fail .invalidSliceStep
    if step < 0 then
      if !haveStart then
        if !haveStop then finishP child indexP.MaxIntP indexP.MinIntP step
        else finishP child indexP.MaxIntP stop step
      else if !haveStop then finishP child start indexP.MinIntP step
      else finishP child start stop step
    else finishP child start stop step
  else if (← currType) == .closeSqBrace then do
    advance
    return ((match child with
    | none => .sliceCurrent start stop
    | some c => .slice c start stop), true)
  else fail .unexpectedToken

def stopP (child : Option INode) (haveStart : Bool) (start : Int) : PM (INode × Bool) := do
  if (← currType) == .integerLiteral then
    let stop ← atoiP
    let nt ← nextType
    if nt == .closeSqBrace then do
      advance2
      return ((match child with
        | none => .sliceCurrent start stop
        | some c => .slice c start stop), true)
    else if nt == .colon then do
      advance2
      stepP child haveStart true start stop
    else fail .unexpectedToken
  else if (← currType) == .closeSqBrace then do
    advance
    return ((match child with
        | none => .sliceCurrent start indexP.MaxIntP
        | some c => .slice c start indexP.MaxIntP), true)
  else if (← currType) == .colon then do
    advance
    stepP child haveStart false start indexP.MaxIntP
  else fail .unexpectedToken

def startP (child : Option INode) : PM (INode × Bool) := do
  if (← currType) == .integerLiteral then
    let start ← atoiP
    let nt ← nextType
    if nt == .closeSqBrace then do
      advance2
      match child with
      | none =>
        if 0 ≤ start ∧ start ≤ 255 then return (.smallIndexCurrent start.toNat, false)
        else return (.indexCurrent start, false)
      | some c => return (.index c start, false)
    else if nt == .colon then do
      advance2
      stopP child true start
    else fail .unexpectedToken
  else if (← currType) == .colon then do
    advance
    stopP child false 0
  else fail .unexpectedToken

theorem indexP_eq (child : Option INode) (s : PState) : indexP child s = startP child s := by
  unfold indexP startP stopP stepP finishP atoiP
  simp only [bind_run, ite_run, currType_run, nextType_run, currValue_run, pure_run, fail_run, beq_iff_eq, bne_iff_ne,
    ne_eq, Bool.not_true, Bool.not_false, Bool.false_eq_true, if_true, if_false, reduceCtorEq, and_true, and_false]
  rfl

theorem atoiP_run {t : Token} {ts : List Token} {r} (h : atoiP (stOf (t :: ts)) = .ok r) :
    ∃ i, parseInt64 t.value = some i ∧ r = (i, stOf (t :: ts)) := by
  unfold atoiP at h
  pm_at h []
  cases hp : parseInt64 t.value with
  | none => simp only [hp, fail_run, reduceCtorEq] at h
  | some i =>
    simp only [hp, pure_run] at h
    cases h
    exact ⟨i, rfl, rfl⟩

theorem stepP_inv {child : Option INode} {hs hp : Bool} {start stop : Int} {ts : List Token} {n pr s'}
    (hC : AllCanon ts) (hs0 : hs = false → start = 0) (hp0 : hp = false → stop = maxInt)
    (h : stepP child hs hp start stop (stOf ts) = .ok ((n, pr), s')) :
    ∃ (cs : Option Token) (rest : List Token), ts = cs.toList ++ tRBracket :: rest ∧
      (∀ s, cs = some s → isIntTok s = true ∧ intOf s ≠ some 0) ∧ pr = true ∧ s' = stOf rest ∧
      n = sliceNode child (if hs then some start else none) (if hp then some stop else none) (cs.bind intOf) := by
  unfold stepP at h
  pm_at h []
  by_cases c1 : (stOf ts).curr.type = TokenType.integerLiteral
  · simp only [c1, if_true] at h
    obtain ⟨t, ts1, rfl, ht⟩ := curr_cons c1 (by decide)
    pm_at h []
    by_cases c2 : (stOf ts1).curr.type = TokenType.closeSqBrace
    case neg => simp only [c2, not_false_eq_true, if_true, reduceCtorEq] at h
    simp only [c2, not_true_eq_false, if_false] at h
    obtain ⟨rest, rfl, hCr⟩ := curr_canon hC.tail c2 rfl
    split at h
    · rename_i i s1 heq
      obtain ⟨i', hi, hr⟩ := atoiP_run heq
      cases hr
      by_cases h0 : i = 0
      · simp only [h0, if_true, reduceCtorEq] at h
      simp only [h0, if_false] at h
      refine ⟨some t, rest, rfl, ?_, ?_⟩
      · intro s hs'
        cases hs'
        exact ⟨by simp [isIntTok, intOf, ht, hi], by simp [intOf, hi, h0]⟩
      · unfold finishP at h
        cases hs <;> cases hp <;> pm_at h [] <;> (try (have e1 := hs0 rfl; subst e1)) <;>
          (try (have e2 := hp0 rfl; subst e2)) <;> cases child <;> simp only [pure_run] at h <;>
          split at h <;> split at h <;> cases h <;>
          simp [sliceNode, intOf, hi, indexP.MaxIntP, indexP.MinIntP, maxInt, minInt, *] <;> omega
    · cases h
  · simp only [c1, if_false] at h
    by_cases c2 : (stOf ts).curr.type = TokenType.closeSqBrace
    case neg => simp only [c2, if_false, reduceCtorEq] at h
    simp only [c2, if_true] at h
    obtain ⟨rest, rfl, hCr⟩ := curr_canon hC c2 rfl
    pm_at h []
    cases h
    refine ⟨none, rest, rfl, ?_, rfl, rfl, ?_⟩
    · intro s hs'; cases hs'
    cases hs <;> cases hp <;> simp only [sliceNode, Option.bind_none, Option.getD_none, Option.getD_some, if_true,
      Bool.false_eq_true, if_false] <;> (try rw [hs0 rfl]) <;> (try rw [hp0 rfl]) <;> cases child <;>
      simp (config := {decide := true})


/-- the tokens after the first colon of a slice -/
def stopToks (b : Option Token) (c : Option (Option Token)) : List Token :=
  b.toList ++ (match c with | none => [] | some cs => tColon :: cs.toList)

theorem stopP_inv {child : Option INode} {hs : Bool} {start : Int} {ts : List Token} {n pr s'}
    (hC : AllCanon ts) (hs0 : hs = false → start = 0)
    (h : stopP child hs start (stOf ts) = .ok ((n, pr), s')) :
    ∃ (b : Option Token) (c : Option (Option Token)) (rest : List Token), ts = stopToks b c ++ tRBracket :: rest ∧
      optIntTok b = true ∧ (∀ s, c = some (some s) → isIntTok s = true ∧ intOf s ≠ some 0) ∧ pr = true ∧
      s' = stOf rest ∧
      n = sliceNode child (if hs then some start else none) (b.bind intOf) (c.bind fun s => s.bind intOf) := by
  unfold stopP at h
  pm_at h []
  by_cases c1 : (stOf ts).curr.type = TokenType.integerLiteral
  · simp only [c1, if_true] at h
    obtain ⟨t, ts1, rfl, ht⟩ := curr_cons c1 (by decide)
    split at h
    · rename_i j s1 heq
      obtain ⟨j', hj, hr⟩ := atoiP_run heq
      cases hr
      have hbt : isIntTok t = true := by simp [isIntTok, intOf, ht, hj]
      pm_at h []
      by_cases c2 : (stOf ts1).curr.type = TokenType.closeSqBrace
      · simp only [c2, if_true] at h
        obtain ⟨rest, rfl, hCr⟩ := curr_canon hC.tail c2 rfl
        pm_at h []
        cases h
        refine ⟨some t, none, rest, rfl, hbt, ?_, rfl, rfl, ?_⟩
        · intro s hs'; cases hs'
        · cases hs <;> (try (have e1 := hs0 rfl; subst e1)) <;> cases child <;>
            simp [sliceNode, intOf, hj]
      · simp only [c2, if_false] at h
        by_cases c3 : (stOf ts1).curr.type = TokenType.colon
        case neg => simp only [c3, if_false, reduceCtorEq] at h
        simp only [c3, if_true] at h
        obtain ⟨ts2, rfl, hC2⟩ := curr_canon hC.tail c3 rfl
        pm_at h []
        obtain ⟨cs, rest, rfl, hcs, rfl, rfl, rfl⟩ := stepP_inv hC2 hs0 (fun h => by cases h) h
        refine ⟨some t, some cs, rest, ?_, hbt, ?_, rfl, rfl, ?_⟩
        · simp only [stopToks, Option.toList, List.cons_append, List.nil_append, List.append_assoc]; rfl
        · intro s hs'; cases hs'; exact hcs s rfl
        · simp [intOf, hj]
    · cases h
  · simp only [c1, if_false] at h
    by_cases c2 : (stOf ts).curr.type = TokenType.closeSqBrace
    · simp only [c2, if_true] at h
      obtain ⟨rest, rfl, hCr⟩ := curr_canon hC c2 rfl
      pm_at h []
      cases h
      refine ⟨none, none, rest, rfl, rfl, ?_, rfl, rfl, ?_⟩
      · intro s hs'; cases hs'
      · cases hs <;> (try (have e1 := hs0 rfl; subst e1)) <;> cases child <;>
          simp (config := {decide := true}) [sliceNode, indexP.MaxIntP, maxInt]
    · simp only [c2, if_false] at h
      by_cases c3 : (stOf ts).curr.type = TokenType.colon
      case neg => simp only [c3, if_false, reduceCtorEq] at h
      simp only [c3, if_true] at h
      obtain ⟨ts2, rfl, hC2⟩ := curr_canon hC c3 rfl
      pm_at h []
      obtain ⟨cs, rest, rfl, hcs, rfl, rfl, rfl⟩ := stepP_inv hC2 hs0 (fun _ => rfl) h
      refine ⟨none, some cs, rest, ?_, rfl, ?_, rfl, rfl, ?_⟩
      · simp only [stopToks, Option.toList, List.cons_append, List.nil_append, List.append_assoc]; rfl
      · intro s hs'; cases hs'; exact hcs s rfl
      · simp

theorem startP_inv {child : Option INode} {ts : List Token} {n pr s'} (hC : AllCanon ts)
    (h : startP child (stOf ts) = .ok ((n, pr), s')) :
    (∃ nt i rest, ts = nt :: tRBracket :: rest ∧ isIntTok nt = true ∧ intOf nt = some i ∧ n = indexNode child i ∧
      pr = false ∧ s' = stOf rest) ∨
    (∃ a b c rest, ts = sliceToks a b c ++ tRBracket :: rest ∧ sliceOK a b c = true ∧
      n = sliceNode child (a.bind intOf) (b.bind intOf) (c.bind fun s => s.bind intOf) ∧ pr = true ∧
      s' = stOf rest) := by
  have fin : ∀ (a b : Option Token) (c : Option (Option Token)), optIntTok a = true → optIntTok b = true →
      (∀ s, c = some (some s) → isIntTok s = true ∧ intOf s ≠ some 0) → sliceOK a b c = true := by
    intro a b c ha hb hc
    simp only [sliceOK, ha, hb, Bool.and_self, Bool.true_and]
    rcases c with _ | _ | s
    · rfl
    · rfl
    · have := hc s rfl
      simp only [this.1, Bool.true_and, bne_iff_ne, ne_eq]; exact this.2
  unfold startP at h
  pm_at h []
  by_cases c1 : (stOf ts).curr.type = TokenType.integerLiteral
  · simp only [c1, if_true] at h
    obtain ⟨t, ts1, rfl, ht⟩ := curr_cons c1 (by decide)
    split at h
    · rename_i j s1 heq
      obtain ⟨j', hj, hr⟩ := atoiP_run heq
      cases hr
      have hbt : isIntTok t = true := by simp [isIntTok, intOf, ht, hj]
      pm_at h []
      by_cases c2 : (stOf ts1).curr.type = TokenType.closeSqBrace
      · simp only [c2, if_true] at h
        obtain ⟨rest, rfl, hCr⟩ := curr_canon hC.tail c2 rfl
        pm_at h []
        refine Or.inl ⟨t, j, rest, rfl, hbt, by simp [intOf, hj], ?_⟩
        cases child <;> simp only [pure_run] at h
        · split at h <;> cases h <;> simp [indexNode, *]
        · cases h; exact ⟨rfl, rfl, rfl⟩
      · simp only [c2, if_false] at h
        by_cases c3 : (stOf ts1).curr.type = TokenType.colon
        case neg => simp only [c3, if_false, reduceCtorEq] at h
        simp only [c3, if_true] at h
        obtain ⟨ts2, rfl, hC2⟩ := curr_canon hC.tail c3 rfl
        pm_at h []
        obtain ⟨b, c, rest, rfl, hb, hc, rfl, rfl, rfl⟩ := stopP_inv hC2 (fun h => by cases h) h
        refine Or.inr ⟨some t, b, c, rest, ?_, fin _ _ _ hbt hb hc, ?_, rfl, rfl⟩
        · simp only [sliceToks, stopToks, Option.toList, List.cons_append, List.nil_append, List.append_assoc]; rfl
        · simp [intOf, hj]
    · cases h
  · simp only [c1, if_false] at h
    by_cases c3 : (stOf ts).curr.type = TokenType.colon
    case neg => simp only [c3, if_false, reduceCtorEq] at h
    simp only [c3, if_true] at h
    obtain ⟨ts2, rfl, hC2⟩ := curr_canon hC c3 rfl
    pm_at h []
    obtain ⟨b, c, rest, rfl, hb, hc, rfl, rfl, rfl⟩ := stopP_inv hC2 (fun _ => rfl) h
    refine Or.inr ⟨none, b, c, rest, ?_, fin _ _ _ rfl hb hc, ?_, rfl, rfl⟩
    · simp only [sliceToks, stopToks, Option.toList, List.cons_append, List.nil_append, List.append_assoc]; rfl
    · simp

theorem indexP_inv {child : Option INode} {ts : List Token} {n pr s'} (hC : AllCanon ts)
    (h : indexP child (stOf ts) = .ok ((n, pr), s')) :
    (∃ nt i rest, ts = nt :: tRBracket :: rest ∧ isIntTok nt = true ∧ intOf nt = some i ∧ n = indexNode child i ∧
      pr = false ∧ s' = stOf rest) ∨
    (∃ a b c rest, ts = sliceToks a b c ++ tRBracket :: rest ∧ sliceOK a b c = true ∧
      n = sliceNode child (a.bind intOf) (b.bind intOf) (c.bind fun s => s.bind intOf) ∧ pr = true ∧
      s' = stOf rest) := by
  rw [indexP_eq] at h
  exact startP_inv hC h


/-- the right-hand side condition of `wp` -/
def RhsOK (rhs : PTree) : Prop := (rhs.isIcur || (wp true rhs && decide (lvlProj < llevel rhs))) = true

structure Sound (f : Nat) : Prop where
  expr : ∀ p ts n s', AllCanon ts → p < top → expression f p (stOf ts) = .ok (n, s') →
    ∃ pt rest, s' = stOf rest ∧ ts = flat false pt ++ rest ∧ wp false pt = true ∧ erase pt = n ∧ p < llevel pt ∧
      okAfter (min p (rlevel pt)) rest
  loop : ∀ b pl p ts n s', AllCanon ts → wp b pl = true → p < llevel pl → okAfter (rlevel pl) ts →
    exprLoop f (erase pl) p (stOf ts) = .ok (n, s') →
    ∃ pt mid rest, s' = stOf rest ∧ ts = mid ++ rest ∧ flat b pt = flat b pl ++ mid ∧ wp b pt = true ∧ erase pt = n ∧
      p < llevel pt ∧ okAfter (min p (rlevel pt)) rest
  prim : ∀ ts n s', AllCanon ts → primaryExpression f (stOf ts) = .ok (n, s') →
    ∃ pt rest, s' = stOf rest ∧ ts = flat false pt ++ rest ∧ wp false pt = true ∧ erase pt = n ∧ llevel pt = top ∧
      okAfter (rlevel pt) rest
  primR : ∀ ts n s', AllCanon ts → ((stOf ts).curr.type = .arrayWildcard ∨ (stOf ts).curr.type = .filter) →
    primaryExpression f (stOf ts) = .ok (n, s') →
    ∃ pt rest, s' = stOf rest ∧ ts = flat true pt ++ rest ∧ wp true pt = true ∧ erase pt = n ∧ llevel pt = top ∧
      okAfter (rlevel pt) rest
  proj : ∀ ts o s', AllCanon ts → projection f projectionPrecedence (stOf ts) = .ok (o, s') →
    ∃ rhs rest, s' = stOf rest ∧ ts = flat true rhs ++ rest ∧ RhsOK rhs ∧ o = optNode rhs (erase rhs) ∧
      okAfter lvlProj rest
  filt : ∀ ts n s', AllCanon ts → filterP f (stOf ts) = .ok (n, s') →
    ∃ c rest, s' = stOf rest ∧ ts = flat false c ++ tRBracket :: rest ∧ wp false c = true ∧ erase c = n
  sarrl : ∀ child acc ts n s', AllCanon ts → selectArrayLoop f child acc (stOf ts) = .ok (n, s') →
    ∃ es rest, s' = stOf rest ∧ es ≠ [] ∧ ts = flatSep es ++ tRBracket :: rest ∧ wpL es = true ∧
      n = listNode child (acc ++ eraseL es)
  sarr : ∀ child ts n s', AllCanon ts → selectArray f child (stOf ts) = .ok (n, s') →
    ∃ es rest, s' = stOf rest ∧ es ≠ [] ∧ ts = flatSep es ++ tRBracket :: rest ∧ wpL es = true ∧
      n = listNode child (eraseL es)
  sobjl : ∀ child ps ts n s', AllCanon ts → selectObjectLoop f child (assocOf ps) (stOf ts) = .ok (n, s') →
    ∃ kvs rest, s' = stOf rest ∧ kvs ≠ [] ∧ ts = flatKVs tColon kvs ++ tRBrace :: rest ∧ wpKVs keyOK kvs = true ∧
      n = hashNode child (ps ++ eraseKVs keyOf kvs)
  sobj : ∀ child ts n s', AllCanon ts → selectObject f child (stOf ts) = .ok (n, s') →
    ∃ kvs rest, s' = stOf rest ∧ kvs ≠ [] ∧ ts = flatKVs tColon kvs ++ tRBrace :: rest ∧ wpKVs keyOK kvs = true ∧
      n = hashNode child (eraseKVs keyOf kvs)
  args : ∀ mn mx acc ts ns s', AllCanon ts → acc.length < mx → mn ≤ mx →
    fnArgs f mn mx acc (stOf ts) = .ok (ns, s') →
    ∃ es rest, s' = stOf rest ∧ es ≠ [] ∧ ts = flatSep es ++ tRParen :: rest ∧ wpL es = true ∧
      ns = acc ++ eraseL es ∧ mn ≤ acc.length + es.length ∧ acc.length + es.length ≤ mx
  vargs : ∀ acc ts ns s', AllCanon ts → fnVarArgs f acc (stOf ts) = .ok (ns, s') →
    ∃ es rest, s' = stOf rest ∧ es ≠ [] ∧ ts = flatSep es ++ tRParen :: rest ∧ wpL es = true ∧ ns = acc ++ eraseL es
  func : ∀ name ts n s', AllCanon ts → name.type = .unquotedIdentifier →
    function f (stOf (name :: tLParen :: ts)) = .ok (n, s') →
    ∃ as rest, s' = stOf rest ∧ ts = flatSep as ++ tRParen :: rest ∧ wp false (.call name as) = true ∧
      erase (.call name as) = n
  letp : ∀ ps ts n s', AllCanon ts → letP f (assocOf ps) (stOf ts) = .ok (n, s') →
    ∃ bs body rest, s' = stOf rest ∧ bs ≠ [] ∧ ts = flatKVs tAssign bs ++ tIn :: (flat false body ++ rest) ∧
      wpKVs isVarTok bs = true ∧ wp false body = true ∧
      n = .defineVariables (assocOf (ps ++ eraseKVs Token.value bs)) (erase body) ∧ okAfter lvlLet rest

theorem sound_zero : Sound 0 := by
  constructor <;> intros <;> rename_i h <;>
    simp only [expression, exprLoop, filterP, fnArgs, fnVarArgs, function, letP, primaryExpression, projection,
      selectArray, selectArrayLoop, selectObject, selectObjectLoop] at h <;> cases h


/-- case analysis on a token type that a `match` of hypothesis `h` inspects; the branches that fail are closed -/
macro "tok_cases" h:ident e:term:max hc:ident : tactic => `(tactic|
  (generalize $hc:ident : $e = τ at $h:ident
   cases τ <;> try (pm_at $h []; done)))

theorem wp_ne_icur {b : Bool} {t : PTree} (h : wp b t = true) : t.isIcur = false := by
  cases t <;> first | rfl | (simp [wp] at h)

theorem sound_expr {f : Nat} (ih : Sound f) : ∀ p ts n s', AllCanon ts → p < top →
    expression (f + 1) p (stOf ts) = .ok (n, s') →
    ∃ pt rest, s' = stOf rest ∧ ts = flat false pt ++ rest ∧ wp false pt = true ∧ erase pt = n ∧ p < llevel pt ∧
      okAfter (min p (rlevel pt)) rest := by
  intro p ts n s' hC hp h
  rw [expression_succ_run] at h
  split at h
  · rename_i n0 s1 heq
    obtain ⟨pt0, rest0, rfl, rfl, hw0, rfl, hl0, ho0⟩ := ih.prim ts n0 s1 hC heq
    obtain ⟨pt, mid, rest, rfl, rfl, hfl, hw, rfl, hl, ho⟩ :=
      ih.loop false pt0 p rest0 n s' hC.right hw0 (by rw [hl0]; exact hp) ho0 h
    exact ⟨pt, rest, rfl, by rw [hfl, List.append_assoc], hw, rfl, hl, ho⟩
  · cases h

theorem elem_level {e : PTree} (hw : wp false e = true) : 1 < llevel e := by
  have := llevel_ge _ _ hw; omega

theorem sound_filt {f : Nat} (ih : Sound f) : ∀ ts n s', AllCanon ts → filterP (f + 1) (stOf ts) = .ok (n, s') →
    ∃ c rest, s' = stOf rest ∧ ts = flat false c ++ tRBracket :: rest ∧ wp false c = true ∧ erase c = n := by
  intro ts n s' hC h
  rw [filterP.eq_2] at h
  pm_at h []
  split at h
  · rename_i n0 s1 heq
    obtain ⟨c, rest0, rfl, rfl, hw0, rfl, _, _⟩ := ih.expr 1 ts n0 s1 hC (by decide) heq
    split at h
    · cases h
    · rename_i hc
      simp only [Decidable.not_not] at hc
      obtain ⟨rest, rfl, hC'⟩ := curr_canon hC.right hc rfl
      pm_at h []
      cases h
      exact ⟨c, rest, rfl, rfl, hw0, rfl⟩
  · cases h


theorem flatSep_cons_ne {e : PTree} {es : List PTree} (h : es ≠ []) :
    flatSep (e :: es) = flat false e ++ tComma :: flatSep es := by
  cases es with
  | nil => exact absurd rfl h
  | cons x xs => exact flatSep_cons2 e x xs

theorem flatKVs_cons_ne {sep k : Token} {e : PTree} {kvs : List (Token × PTree)} (h : kvs ≠ []) :
    flatKVs sep ((k, e) :: kvs) = k :: sep :: flat false e ++ tComma :: flatKVs sep kvs := by
  cases kvs with
  | nil => exact absurd rfl h
  | cons x xs => exact flatKVs_cons2 sep k e x xs

theorem sound_sarrl {f : Nat} (ih : Sound f) : ∀ child acc ts n s', AllCanon ts →
    selectArrayLoop (f + 1) child acc (stOf ts) = .ok (n, s') →
    ∃ es rest, s' = stOf rest ∧ es ≠ [] ∧ ts = flatSep es ++ tRBracket :: rest ∧ wpL es = true ∧
      n = listNode child (acc ++ eraseL es) := by
  intro child acc ts n s' hC h
  rw [selectArrayLoop.eq_2] at h
  pm_at h []
  split at h
  · rename_i n0 s1 heq
    obtain ⟨e, rest0, rfl, rfl, hw0, rfl, _, _⟩ := ih.expr 1 ts n0 s1 hC (by decide) heq
    tok_cases h ((stOf rest0).curr.type) hc
    case comma =>
      obtain ⟨rest1, rfl, hC1⟩ := curr_canon hC.right hc rfl
      pm_at h []
      obtain ⟨es, rest, rfl, hne, rfl, hw, rfl⟩ := ih.sarrl child _ rest1 n s' hC1 h
      refine ⟨e :: es, rest, rfl, by simp, ?_, by simp only [wpL, hw0, hw, Bool.and_self], ?_⟩
      · rw [flatSep_cons_ne hne]; simp only [List.append_assoc, List.cons_append]; rfl
      · simp only [eraseL, List.append_assoc, List.singleton_append]
    case closeSqBrace =>
      obtain ⟨rest1, rfl, hC1⟩ := curr_canon hC.right hc rfl
      pm_at h []
      refine ⟨[e], rest1, ?_, by simp, rfl, by simp only [wpL, hw0, Bool.and_self], ?_⟩
      · split at h <;> cases h <;> rfl
      · rw [eraseL, eraseL, listNode_snoc]
        split at h <;> rename_i hh <;> cases h <;> simp only [hh, if_true, if_false, Bool.false_eq_true] <;> cases child <;> rfl
  · cases h


theorem sound_sarr {f : Nat} (ih : Sound f) : ∀ child ts n s', AllCanon ts →
    selectArray (f + 1) child (stOf ts) = .ok (n, s') →
    ∃ es rest, s' = stOf rest ∧ es ≠ [] ∧ ts = flatSep es ++ tRBracket :: rest ∧ wpL es = true ∧
      n = listNode child (eraseL es) := by
  intro child ts n s' hC h
  rw [selectArray.eq_2] at h
  exact ih.sarrl child [] ts n s' hC h

theorem sound_sobj {f : Nat} (ih : Sound f) : ∀ child ts n s', AllCanon ts →
    selectObject (f + 1) child (stOf ts) = .ok (n, s') →
    ∃ kvs rest, s' = stOf rest ∧ kvs ≠ [] ∧ ts = flatKVs tColon kvs ++ tRBrace :: rest ∧ wpKVs keyOK kvs = true ∧
      n = hashNode child (eraseKVs keyOf kvs) := by
  intro child ts n s' hC h
  rw [selectObject.eq_2] at h
  exact ih.sobjl child [] ts n s' hC h

theorem sound_sobjl {f : Nat} (ih : Sound f) : ∀ child ps ts n s', AllCanon ts →
    selectObjectLoop (f + 1) child (assocOf ps) (stOf ts) = .ok (n, s') →
    ∃ kvs rest, s' = stOf rest ∧ kvs ≠ [] ∧ ts = flatKVs tColon kvs ++ tRBrace :: rest ∧ wpKVs keyOK kvs = true ∧
      n = hashNode child (ps ++ eraseKVs keyOf kvs) := by
  intro child ps ts n s' hC h
  rw [selectObjectLoop.eq_2] at h
  pm_at h []
  -- the key
  tok_cases h ((stOf ts).curr.type) hk
  case' quotedIdentifier =>
    obtain ⟨k, ts1, rfl, hk2⟩ := curr_cons hk (by decide)
    pm_at h []
    obtain ⟨kb, hq⟩ : ∃ kb, parseQuotedIdentifier k.value = some kb := by
      cases hq : parseQuotedIdentifier k.value with
      | none => simp only [hq, fail_run, reduceCtorEq] at h
      | some kb => exact ⟨kb, rfl⟩
    simp only [hq, pure_run] at h
    have hkey : keyOK k = true := by simp [keyOK, hk2, hq]
    have hkb : keyOf k = kb := by simp [keyOf, hk2, hq]
  case' unquotedIdentifier =>
    obtain ⟨k, ts1, rfl, hk2⟩ := curr_cons hk (by decide)
    pm_at h []
    obtain ⟨kb, hkv⟩ : ∃ kb, k.value = kb := ⟨_, rfl⟩
    rw [hkv] at h
    have hkey : keyOK k = true := by simp [keyOK, hk2]
    have hkb : keyOf k = kb := by simp [keyOf, hk2, hkv]
  all_goals
    by_cases hc : (stOf ts1).curr.type = TokenType.colon
    case neg => simp only [hc, not_false_eq_true, if_true, reduceCtorEq] at h
    simp only [hc, not_true_eq_false, if_false] at h
    obtain ⟨ts2, rfl, hC2⟩ := curr_canon hC.tail hc rfl
    pm_at h []
    split at h
    · rename_i n0 s1 heq
      obtain ⟨e, rest0, rfl, rfl, hw0, rfl, _, _⟩ := ih.expr 1 ts2 n0 s1 hC2 (by decide) heq
      tok_cases h ((stOf rest0).curr.type) hc
      case comma =>
        obtain ⟨rest1, rfl, hC1⟩ := curr_canon hC2.right hc rfl
        pm_at h []
        rw [← assocOf_snoc] at h
        obtain ⟨kvs, rest, rfl, hne, rfl, hw, rfl⟩ := ih.sobjl child _ rest1 n s' hC1 h
        refine ⟨(k, e) :: kvs, rest, rfl, by simp, ?_, by simp only [wpKVs, hkey, hw0, hw, Bool.and_self], ?_⟩
        · rw [flatKVs_cons_ne hne]; simp only [List.append_assoc, List.cons_append]; rfl
        · simp only [eraseKVs, hkb, List.append_assoc, List.singleton_append]
      case closeBrace =>
        obtain ⟨rest1, rfl, hC1⟩ := curr_canon hC2.right hc rfl
        pm_at h []
        refine ⟨[(k, e)], rest1, ?_, by simp, rfl, by simp only [wpKVs, hkey, hw0, Bool.and_self], ?_⟩
        · split at h <;> cases h <;> rfl
        · rw [eraseKVs, eraseKVs, hkb, hashNode_snoc]
          split at h <;> rename_i hh <;> cases h <;> simp only [hh, if_true, if_false, Bool.false_eq_true] <;>
            cases child <;> rfl
    · cases h


theorem sound_vargs {f : Nat} (ih : Sound f) : ∀ acc ts ns s', AllCanon ts →
    fnVarArgs (f + 1) acc (stOf ts) = .ok (ns, s') →
    ∃ es rest, s' = stOf rest ∧ es ≠ [] ∧ ts = flatSep es ++ tRParen :: rest ∧ wpL es = true ∧
      ns = acc ++ eraseL es := by
  intro acc ts ns s' hC h
  rw [fnVarArgs.eq_2] at h
  pm_at h []
  split at h
  · rename_i n0 s1 heq
    obtain ⟨e, rest0, rfl, rfl, hw0, rfl, _, _⟩ := ih.expr 1 ts n0 s1 hC (by decide) heq
    by_cases hc : (stOf rest0).curr.type = TokenType.comma
    · obtain ⟨rest1, rfl, hC1⟩ := curr_canon hC.right hc rfl
      pm_at h []
      obtain ⟨es, rest, rfl, hne, rfl, hw, rfl⟩ := ih.vargs _ rest1 ns s' hC1 h
      refine ⟨e :: es, rest, rfl, by simp, ?_, by simp only [wpL, hw0, hw, Bool.and_self], ?_⟩
      · rw [flatSep_cons_ne hne]; simp only [List.append_assoc, List.cons_append]; rfl
      · simp only [eraseL, List.append_assoc, List.singleton_append]
    · simp only [hc, if_false] at h
      by_cases hc2 : (stOf rest0).curr.type = TokenType.closeParen
      · obtain ⟨rest1, rfl, hC1⟩ := curr_canon hC.right hc2 rfl
        pm_at h []
        cases h
        exact ⟨[e], rest1, rfl, by simp, rfl, by simp only [wpL, hw0, Bool.and_self], rfl⟩
      · simp only [hc2, if_false, reduceCtorEq] at h
  · cases h

theorem sound_args {f : Nat} (ih : Sound f) : ∀ mn mx acc ts ns s', AllCanon ts → acc.length < mx → mn ≤ mx →
    fnArgs (f + 1) mn mx acc (stOf ts) = .ok (ns, s') →
    ∃ es rest, s' = stOf rest ∧ es ≠ [] ∧ ts = flatSep es ++ tRParen :: rest ∧ wpL es = true ∧
      ns = acc ++ eraseL es ∧ mn ≤ acc.length + es.length ∧ acc.length + es.length ≤ mx := by
  intro mn mx acc ts ns s' hC hlt hmm h
  rw [fnArgs.eq_2] at h
  pm_at h [List.length_append, List.length_singleton]
  split at h
  · rename_i n0 s1 heq
    obtain ⟨e, rest0, rfl, rfl, hw0, rfl, _, _⟩ := ih.expr 1 ts n0 s1 hC (by decide) heq
    have recur : ∀ rest1, AllCanon rest1 → acc.length + 1 < mx →
        fnArgs f mn mx (acc ++ [erase e]) (stOf rest1) = .ok (ns, s') →
        ∃ es rest, s' = stOf rest ∧ es ≠ [] ∧ flat false e ++ tComma :: rest1 = flatSep es ++ tRParen :: rest ∧
          wpL es = true ∧ ns = acc ++ eraseL es ∧ mn ≤ acc.length + es.length ∧ acc.length + es.length ≤ mx := by
      intro rest1 hC1 hlt' h
      obtain ⟨es, rest, rfl, hne, rfl, hw, rfl, h1, h2⟩ := ih.args mn mx _ rest1 ns s' hC1
        (by simpa using hlt') hmm h
      simp only [List.length_append, List.length_singleton] at h1 h2
      refine ⟨e :: es, rest, rfl, by simp, ?_, by simp only [wpL, hw0, hw, Bool.and_self], ?_, ?_, ?_⟩
      · rw [flatSep_cons_ne hne]; simp only [List.append_assoc, List.cons_append]
      · simp only [eraseL, List.append_assoc, List.singleton_append]
      · simp only [List.length_cons]; omega
      · simp only [List.length_cons]; omega
    have done : ∀ rest1, mn ≤ acc.length + 1 → ns = acc ++ [erase e] → s' = stOf rest1 →
        ∃ es rest, s' = stOf rest ∧ es ≠ [] ∧ flat false e ++ tRParen :: rest1 = flatSep es ++ tRParen :: rest ∧
          wpL es = true ∧ ns = acc ++ eraseL es ∧ mn ≤ acc.length + es.length ∧ acc.length + es.length ≤ mx := by
      intro rest1 h1 h2 h3
      exact ⟨[e], rest1, h3, by simp, rfl, by simp only [wpL, hw0, Bool.and_self], h2,
        by simpa using h1, by simp only [List.length_singleton]; omega⟩
    by_cases hmin : acc.length + 1 < mn
    · simp only [hmin, if_true] at h
      by_cases hc : (stOf rest0).curr.type = TokenType.closeParen
      · simp only [hc, if_true, reduceCtorEq] at h
      · simp only [hc, if_false] at h
        by_cases hc2 : (stOf rest0).curr.type = TokenType.comma
        · obtain ⟨rest1, rfl, hC1⟩ := curr_canon hC.right hc2 rfl
          pm_at h []
          exact recur rest1 hC1 (by omega) h
        · simp only [hc2, not_false_eq_true, if_true, reduceCtorEq] at h
    · simp only [hmin, if_false] at h
      by_cases hmax : acc.length + 1 < mx
      · simp only [hmax, if_true] at h
        by_cases hc : (stOf rest0).curr.type = TokenType.closeParen
        · obtain ⟨rest1, rfl, hC1⟩ := curr_canon hC.right hc rfl
          pm_at h []
          cases h
          exact done rest1 (by omega) rfl rfl
        · simp only [hc, if_false] at h
          by_cases hc2 : (stOf rest0).curr.type = TokenType.comma
          · obtain ⟨rest1, rfl, hC1⟩ := curr_canon hC.right hc2 rfl
            pm_at h []
            exact recur rest1 hC1 hmax h
          · simp only [hc2, not_false_eq_true, if_true, reduceCtorEq] at h
      · simp only [hmax, if_false] at h
        by_cases hc : (stOf rest0).curr.type = TokenType.comma
        · simp only [hc, if_true, reduceCtorEq] at h
        · simp only [hc, if_false] at h
          by_cases hc2 : (stOf rest0).curr.type = TokenType.closeParen
          · obtain ⟨rest1, rfl, hC1⟩ := curr_canon hC.right hc2 rfl
            pm_at h []
            cases h
            exact done rest1 (by omega) rfl rfl
          · simp only [hc2, not_false_eq_true, if_true, reduceCtorEq] at h
  · cases h


theorem sound_letp {f : Nat} (ih : Sound f) : ∀ ps ts n s', AllCanon ts →
    letP (f + 1) (assocOf ps) (stOf ts) = .ok (n, s') →
    ∃ bs body rest, s' = stOf rest ∧ bs ≠ [] ∧ ts = flatKVs tAssign bs ++ tIn :: (flat false body ++ rest) ∧
      wpKVs isVarTok bs = true ∧ wp false body = true ∧
      n = .defineVariables (assocOf (ps ++ eraseKVs Token.value bs)) (erase body) ∧ okAfter lvlLet rest := by
  intro ps ts n s' hC h
  rw [letP.eq_2] at h
  pm_at h []
  by_cases hv : (stOf ts).curr.type = TokenType.variable
  case neg => simp only [hv, not_false_eq_true, if_true, reduceCtorEq] at h
  simp only [hv, not_true_eq_false, if_false] at h
  obtain ⟨v, ts1, rfl, hv2⟩ := curr_cons hv (by decide)
  pm_at h []
  by_cases ha : (stOf ts1).curr.type = TokenType.assign
  case neg => simp only [ha, not_false_eq_true, if_true, reduceCtorEq] at h
  simp only [ha, not_true_eq_false, if_false] at h
  obtain ⟨ts2, rfl, hC2⟩ := curr_canon hC.tail ha rfl
  pm_at h []
  split at h
  · rename_i n0 s1 heq
    obtain ⟨e, rest0, rfl, rfl, hw0, rfl, _, _⟩ := ih.expr 1 ts2 n0 s1 hC2 (by decide) heq
    have hvar : isVarTok v = true := by simp [isVarTok, hv2]
    by_cases hin : (stOf rest0).curr.type = TokenType.in
    · obtain ⟨rest1, rfl, hC1⟩ := curr_canon hC2.right hin rfl
      pm_at h []
      split at h
      · rename_i n1 s2 heq2
        obtain ⟨body, rest2, rfl, rfl, hwb, rfl, _, hob⟩ := ih.expr 1 rest1 n1 s2 hC1 (by decide) heq2
        cases h
        refine ⟨[(v, e)], body, rest2, rfl, by simp, ?_, by simp only [wpKVs, hvar, hw0, Bool.and_self], hwb, ?_,
          hob.mono (Nat.min_le_left _ _)⟩
        · simp only [flatKVs, List.cons_append, List.append_assoc]; rfl
        · simp only [eraseKVs, assocOf_snoc]
      · cases h
    · simp only [hin, if_false] at h
      by_cases hc : (stOf rest0).curr.type = TokenType.comma
      case neg => simp only [hc, not_false_eq_true, if_true, reduceCtorEq] at h
      simp only [hc, not_true_eq_false, if_false] at h
      obtain ⟨rest1, rfl, hC1⟩ := curr_canon hC2.right hc rfl
      pm_at h []
      rw [← assocOf_snoc] at h
      obtain ⟨bs, body, rest, rfl, hne, rfl, hwbs, hwb, rfl, ho⟩ := ih.letp _ rest1 n s' hC1 h
      refine ⟨(v, e) :: bs, body, rest, rfl, by simp, ?_, by simp only [wpKVs, hvar, hw0, hwbs, Bool.and_self], hwb,
        ?_, ho⟩
      · rw [flatKVs_cons_ne hne]; simp only [List.append_assoc, List.cons_append]; rfl
      · simp only [eraseKVs, List.append_assoc, List.singleton_append]
  · cases h


def specRangeOK : ArgSpec → Bool
  | .fixed mn mx _ => decide (1 ≤ mn ∧ mn ≤ mx)
  | _ => true

theorem builtin_fixed_range : ∀ e ∈ builtinTable, ∀ mn mx mk, e.2 = .fixed mn mx mk → 1 ≤ mn ∧ mn ≤ mx := by
  have h : builtinTable.all (fun e => specRangeOK e.2) = true := by decide
  intro e he mn mx mk h2
  have := List.all_eq_true.1 h e he
  rw [h2] at this
  simpa [specRangeOK] using this

theorem lookup_fixed_range {name : Bytes} {mn mx : Nat} {mk} (h : lookupBuiltin name = some (.fixed mn mx mk)) :
    1 ≤ mn ∧ mn ≤ mx := by
  simp only [lookupBuiltin, Option.map_eq_some_iff] at h
  obtain ⟨e, he, h2⟩ := h
  exact builtin_fixed_range e (List.mem_of_find?_eq_some he) mn mx mk h2

theorem wpL_noref : ∀ {es : List PTree}, wpL es = true → es.all (fun e => !e.isRef) = true ∧ wpArgs es = true
  | [], _ => ⟨rfl, rfl⟩
  | e :: es, h => by
    simp only [wpL, Bool.and_eq_true] at h
    obtain ⟨h1, h2⟩ := wpL_noref h.2
    have hr : e.isRef = false := by
      cases e <;> first | rfl | (simp [wp] at h)
    refine ⟨by simp only [List.all_cons, hr, h1]; rfl, ?_⟩
    rw [wpArgs_cons, unref_of_not hr, h.1, h2]; rfl

theorem sound_func {f : Nat} (ih : Sound f) : ∀ name ts n s', AllCanon ts → name.type = .unquotedIdentifier →
    function (f + 1) (stOf (name :: tLParen :: ts)) = .ok (n, s') →
    ∃ as rest, s' = stOf rest ∧ ts = flatSep as ++ tRParen :: rest ∧ wp false (.call name as) = true ∧
      erase (.call name as) = n := by
  intro name ts n s' hC hn h
  rw [function.eq_2] at h
  pm_at h []
  cases hl : lookupBuiltin name.value with
  | none => simp only [hl, fail_run, reduceCtorEq] at h
  | some spec =>
    simp only [hl] at h
    pm_at h []
    by_cases hcp : (stOf ts).curr.type = TokenType.closeParen
    case pos => simp only [hcp, if_true, reduceCtorEq] at h
    simp only [hcp, if_false] at h
    cases spec with
    | fixed mn mx mk =>
      pm_at h []
      split at h
      · rename_i ns s1 heq
        have hr := lookup_fixed_range hl
        obtain ⟨es, rest, rfl, hne, rfl, hw, rfl, h1, h2⟩ := ih.args mn mx [] ts ns s1 hC (by simp; omega) hr.2 heq
        cases h
        have hnr := wpL_noref hw
        have hlen : 1 ≤ es.length := by cases es <;> simp at hne ⊢
        refine ⟨es, rest, rfl, rfl, ?_, ?_⟩
        · simp only [wp, Bool.not_false, Bool.true_and, hn, beq_self_eq_true, hl, argsOK, hnr.1, hnr.2,
            Bool.and_true, decide_eq_true_eq]
          simp only [List.length_nil, Nat.zero_add] at h1 h2
          exact ⟨hlen, h1, h2⟩
        · simp only [erase, hl, callNode, List.nil_append]
      · cases h
    | varArg mk =>
      pm_at h []
      split at h
      · rename_i ns s1 heq
        obtain ⟨es, rest, rfl, hne, rfl, hw, rfl⟩ := ih.vargs [] ts ns s1 hC heq
        cases h
        have hnr := wpL_noref hw
        have hlen : 1 ≤ es.length := by cases es <;> simp at hne ⊢
        refine ⟨es, rest, rfl, rfl, ?_, ?_⟩
        · simp only [wp, Bool.not_false, Bool.true_and, hn, beq_self_eq_true, hl, argsOK, hnr.1, hnr.2,
            Bool.and_true, decide_eq_true_eq]
          exact hlen
        · simp only [erase, hl, callNode, List.nil_append]
      · cases h
    | expArg mk =>
      pm_at h []
      split at h
      · rename_i n0 s1 heq
        obtain ⟨a, rest0, rfl, rfl, hwa, rfl, _, _⟩ := ih.expr 1 ts n0 s1 hC (by decide) heq
        by_cases hc1 : (stOf rest0).curr.type = TokenType.closeParen
        case pos => simp only [hc1, if_true, reduceCtorEq] at h
        simp only [hc1, if_false] at h
        by_cases hc2 : (stOf rest0).curr.type = TokenType.comma
        case neg => simp only [hc2, not_false_eq_true, if_true, reduceCtorEq] at h
        simp only [hc2, not_true_eq_false, if_false] at h
        obtain ⟨rest1, rfl, hC1⟩ := curr_canon hC.right hc2 rfl
        pm_at h []
        by_cases hc3 : (stOf rest1).curr.type = TokenType.expression
        case neg => simp only [hc3, not_false_eq_true, if_true, reduceCtorEq] at h
        simp only [hc3, not_true_eq_false, if_false] at h
        obtain ⟨rest2, rfl, hC2⟩ := curr_canon hC1 hc3 rfl
        pm_at h []
        split at h
        · rename_i n1 s2 heq2
          obtain ⟨e, rest3, rfl, rfl, hwe, rfl, _, _⟩ := ih.expr 1 rest2 n1 s2 hC2 (by decide) heq2
          by_cases hc4 : (stOf rest3).curr.type = TokenType.comma
          case pos => simp only [hc4, if_true, reduceCtorEq] at h
          simp only [hc4, if_false] at h
          by_cases hc5 : (stOf rest3).curr.type = TokenType.closeParen
          case neg => simp only [hc5, not_false_eq_true, if_true, reduceCtorEq] at h
          simp only [hc5, not_true_eq_false, if_false] at h
          obtain ⟨rest4, rfl, hC4⟩ := curr_canon hC2.right hc5 rfl
          pm_at h []
          cases h
          have hra : a.isRef = false := by cases a <;> first | rfl | (simp [wp] at hwa)
          refine ⟨[a, .ref e], rest4, rfl, ?_, ?_, ?_⟩
          · simp only [flatSep, flat, List.append_assoc, List.cons_append]; rfl
          · have h1 : wpArgs [a, .ref e] = true := by
              rw [wpArgs_cons, wpArgs_cons, unref_of_not hra]
              simp only [unref, hwa, hwe, wpArgs, Bool.and_self]
            have h2 : argsOK (.expArg mk) [a, .ref e] = true := by
              simp only [argsOK, hra, Bool.not_false, Bool.true_and]; rfl
            simp only [wp, Bool.not_false, Bool.true_and, hn, beq_self_eq_true, hl, h1, h2, Bool.and_self]
          · simp only [erase, hl, callNode, eraseL]
        · cases h
      · cases h
    | mapArg mk =>
      pm_at h []
      by_cases hc3 : (stOf ts).curr.type = TokenType.expression
      case neg => simp only [hc3, not_false_eq_true, if_true, reduceCtorEq] at h
      simp only [hc3, not_true_eq_false, if_false] at h
      obtain ⟨ts2, rfl, hC2⟩ := curr_canon hC hc3 rfl
      pm_at h []
      split at h
      · rename_i n0 s1 heq
        obtain ⟨e, rest0, rfl, rfl, hwe, rfl, _, _⟩ := ih.expr 1 ts2 n0 s1 hC2 (by decide) heq
        by_cases hc1 : (stOf rest0).curr.type = TokenType.closeParen
        case pos => simp only [hc1, if_true, reduceCtorEq] at h
        simp only [hc1, if_false] at h
        by_cases hc2 : (stOf rest0).curr.type = TokenType.comma
        case neg => simp only [hc2, not_false_eq_true, if_true, reduceCtorEq] at h
        simp only [hc2, not_true_eq_false, if_false] at h
        obtain ⟨rest1, rfl, hC1⟩ := curr_canon hC2.right hc2 rfl
        pm_at h []
        split at h
        · rename_i n1 s2 heq2
          obtain ⟨a, rest3, rfl, rfl, hwa, rfl, _, _⟩ := ih.expr 1 rest1 n1 s2 hC1 (by decide) heq2
          by_cases hc4 : (stOf rest3).curr.type = TokenType.comma
          case pos => simp only [hc4, if_true, reduceCtorEq] at h
          simp only [hc4, if_false] at h
          by_cases hc5 : (stOf rest3).curr.type = TokenType.closeParen
          case neg => simp only [hc5, not_false_eq_true, if_true, reduceCtorEq] at h
          simp only [hc5, not_true_eq_false, if_false] at h
          obtain ⟨rest4, rfl, hC4⟩ := curr_canon hC1.right hc5 rfl
          pm_at h []
          cases h
          have hra : a.isRef = false := by cases a <;> first | rfl | (simp [wp] at hwa)
          refine ⟨[.ref e, a], rest4, rfl, ?_, ?_, ?_⟩
          · simp only [flatSep, flat, List.append_assoc, List.cons_append]; rfl
          · have h1 : wpArgs [.ref e, a] = true := by
              rw [wpArgs_cons, wpArgs_cons, unref_of_not hra]
              simp only [unref, hwa, hwe, wpArgs, Bool.and_self]
            have h2 : argsOK (.mapArg mk) [.ref e, a] = true := by
              simp only [argsOK, hra, Bool.not_false, Bool.and_true]; rfl
            simp only [wp, Bool.not_false, Bool.true_and, hn, beq_self_eq_true, hl, h1, h2, Bool.and_self]
          · simp only [erase, hl, callNode, eraseL]
        · cases h
      · cases h


end Jmes.GrammarS
