/-
  Helper lemmas for C20B: the rational value of a JSON number text, and what `decimal128.Parse` (the reader behind
  `toDecimal` on a `json.Number`) makes of it — exactly the value when it fits the format, the value rounded
  half-even to the longest coefficient `≤ MAXSIG` otherwise.
-/
import Jmes.Properties.C05
import Jmes.Proofs.JsonGrammar
namespace Jmes.C20B
open Jmes.Dec Jmes.C05

/-! ## 1. Rational values `m · 10^e` as pairs `(m, e)` -/

/-- strip trailing zeros of `c`, counting them into the exponent -/
def stripZ : Nat → Nat → Int → Nat × Int
  | 0, c, e => (c, e)
  | fuel + 1, c, e => if c ≠ 0 ∧ c % 10 = 0 then stripZ fuel (c / 10) (e + 1) else (c, e)

/-- normal form of the rational `m · 10^e`: no trailing zero in `m`; zero is `(0, 0)` -/
def ratNorm (p : Int × Int) : Int × Int :=
  if p.1 = 0 then (0, 0) else
    let r := stripZ (Nat.log2 p.1.natAbs + 1) p.1.natAbs p.2
    (if p.1 < 0 then -(r.1 : Int) else (r.1 : Int), r.2)

/-- `m1 · 10^e1 = m2 · 10^e2` as rationals, stated over the integers: both written at the smaller exponent -/
def RatEq (p q : Int × Int) : Prop :=
  p.1 * (10 : Int) ^ (p.2 - min p.2 q.2).toNat = q.1 * (10 : Int) ^ (q.2 - min p.2 q.2).toNat

/-- the pair denoted by a finite decimal -/
def decRat : Dec → Int × Int
  | .fin n c e => (if n then -(c : Int) else (c : Int), e)
  | _ => (0, 0)

theorem stripZ_eq : ∀ (fuel c : Nat) (e : Int), stripZ fuel c e = stripZeros fuel c e
  | 0, _, _ => rfl
  | fuel + 1, c, e => by
    unfold stripZ stripZeros
    split
    · exact stripZ_eq fuel _ _
    · rfl

theorem ratNorm_decRat (n : Bool) (c : Nat) (e : Int) :
    ratNorm (decRat (.fin n c e)) = decRat (normalize (.fin n c e)) := by
  by_cases hc : c = 0
  · subst hc
    cases n <;> simp [ratNorm, decRat, normalize]
  · cases n with
    | false =>
      have h1 : ¬ ((c : Int) = 0) := by omega
      have h2 : ¬ ((c : Int) < 0) := by omega
      simp [ratNorm, decRat, h2, normalize, hc, stripZ_eq]
    | true =>
      simp [ratNorm, decRat, normalize, hc, stripZ_eq]

theorem decRat_ofPair (m e : Int) : decRat (.fin (decide (m < 0)) m.natAbs e) = (m, e) := by
  by_cases h : m < 0 <;> simp [decRat, h] <;> omega

theorem natCast_mul_pow (c k : Nat) : ((c * 10 ^ k : Nat) : Int) = (c : Int) * (10 : Int) ^ k := by
  rw [Int.natCast_mul, Int.natCast_pow]; rfl

/-- `RatEq` on the pairs of two finite decimals is "`Cmp` says equal" -/
theorem ratEq_iff_cmpFin (n1 : Bool) (c1 : Nat) (e1 : Int) (n2 : Bool) (c2 : Nat) (e2 : Int) :
    RatEq (decRat (.fin n1 c1 e1)) (decRat (.fin n2 c2 e2)) ↔ cmpFin n1 c1 e1 n2 c2 e2 = 0 := by
  rw [cmpFin_eq_zero_iff]
  simp only [RatEq, decRat, sval, pow10, natCast_mul_pow]
  cases n1 <;> cases n2 <;> simp [Int.neg_mul]

theorem decRat_eq_cmp {n1 : Bool} {c1 : Nat} {e1 : Int} {n2 : Bool} {c2 : Nat} {e2 : Int}
    (h : decRat (.fin n1 c1 e1) = decRat (.fin n2 c2 e2)) : cmp (.fin n1 c1 e1) (.fin n2 c2 e2) = some 0 := by
  simp only [cmp, Option.some.injEq]
  rw [← ratEq_iff_cmpFin, h]
  simp [RatEq]

theorem cmp_normalize_self (n : Bool) (c : Nat) (e : Int) :
    cmp (normalize (.fin n c e)) (.fin n c e) = some 0 := by
  obtain ⟨h1, _, c', e', h3⟩ := normalize_same_value n c e
  rw [h3] at h1 ⊢
  simp only [cmp, Option.some.injEq]
  exact (sameValue_iff_cmpFin ..).mp h1

/-- **two finite decimals compare equal iff their pairs have the same normal form** -/
theorem cmp_zero_iff_ratNorm (n1 : Bool) (c1 : Nat) (e1 : Int) (n2 : Bool) (c2 : Nat) (e2 : Int) :
    cmp (.fin n1 c1 e1) (.fin n2 c2 e2) = some 0 ↔
      ratNorm (decRat (.fin n1 c1 e1)) = ratNorm (decRat (.fin n2 c2 e2)) := by
  rw [ratNorm_decRat, ratNorm_decRat]
  constructor
  · intro h
    simp only [cmp, Option.some.injEq] at h
    rw [cmpFin_eq_zero_iff] at h
    by_cases hc1 : c1 = 0
    · have hc2 : c2 = 0 := by
        rw [hc1] at h
        have : sval n1 0 e1 (min e1 e2) = 0 := (sval_eq_zero_iff ..).mpr rfl
        rw [this] at h
        exact (sval_eq_zero_iff ..).mp h.symm
      subst hc1 hc2
      cases n1 <;> cases n2 <;> simp [normalize_zero, decRat]
    · have hc2 : c2 ≠ 0 := by
        intro hc2
        rw [hc2] at h
        have : sval n2 0 e2 (min e1 e2) = 0 := (sval_eq_zero_iff ..).mpr rfl
        rw [this] at h
        exact hc1 ((sval_eq_zero_iff ..).mp h)
      rw [← normalize_sval n1 c1 e1 (min e1 e2) (by omega) hc1, ← normalize_sval n2 c2 e2 (min e1 e2) (by omega) hc2, h]
  · intro h
    obtain ⟨_, _, a, ea, ha⟩ := normalize_same_value n1 c1 e1
    obtain ⟨_, _, b, eb, hb⟩ := normalize_same_value n2 c2 e2
    have h1 := cmp_normalize_self n1 c1 e1
    have h2 := cmp_normalize_self n2 c2 e2
    rw [ha] at h h1
    rw [hb] at h h2
    exact cmp_zero_trans (cmp_zero_symm h1) (cmp_zero_trans (decRat_eq_cmp h) h2)

/-- **the normal form is a normal form for equality of rationals**: `ratNorm p = ratNorm q` iff
    `p.1 · 10^p.2 = q.1 · 10^q.2` -/
theorem ratNorm_eq_iff (p q : Int × Int) : ratNorm p = ratNorm q ↔ RatEq p q := by
  obtain ⟨m1, e1⟩ := p
  obtain ⟨m2, e2⟩ := q
  rw [← decRat_ofPair m1 e1, ← decRat_ofPair m2 e2, ← cmp_zero_iff_ratNorm, ratEq_iff_cmpFin]
  simp [cmp]

example : ratNorm (2500, -3) = (25, -1) ∧ ratNorm (-10, -1) = (-1, 0) ∧ ratNorm (0, 7) = (0, 0) := by decide
instance (p q : Int × Int) : Decidable (RatEq p q) := by unfold RatEq; exact inferInstance
example : RatEq (10, -1) (1, 0) ∧ ¬ RatEq (1, 0) (2, 0) := by decide


/-! ## 2. The rounding rule of `reduce` -/

/-- `V / 10^k` rounded to the nearest integer, ties to even -/
def rhe (V k : Nat) : Nat :=
  if 2 * (V % 10 ^ k) > 10 ^ k ∨ (2 * (V % 10 ^ k) = 10 ^ k ∧ (V / 10 ^ k) % 2 = 1) then V / 10 ^ k + 1 else V / 10 ^ k

def dropCount : Nat → Nat → Nat
  | 0, _ => 0
  | fuel + 1, V => if V > MAXSIG then dropCount fuel (V / 10) + 1 else 0

/-- how many low digits of `V` must go for the rest to be `≤ MAXSIG` (0 when `V ≤ MAXSIG`) -/
def ndrop (V : Nat) : Nat := dropCount (Nat.log2 V + 1) V

theorem div_pow_succ (V k : Nat) : V / 10 / 10 ^ k = V / 10 ^ (k + 1) := by
  rw [Nat.div_div_eq_div_mul, Nat.pow_succ, Nat.mul_comm]

theorem dropCount_spec : ∀ (fuel V : Nat), V < 2 ^ fuel →
    V / 10 ^ dropCount fuel V ≤ MAXSIG ∧ (1 ≤ dropCount fuel V → MAXSIG < V / 10 ^ (dropCount fuel V - 1))
  | 0, V, h => by
    have : V = 0 := by simpa using h
    subst this; simp [dropCount]
  | fuel + 1, V, h => by
    unfold dropCount
    by_cases hV : V > MAXSIG
    · simp only [hV, if_true]
      have ih := dropCount_spec fuel (V / 10) (by rw [Nat.pow_succ] at h; omega)
      rw [div_pow_succ] at ih
      refine ⟨ih.1, fun _ => ?_⟩
      simp only [Nat.add_sub_cancel]
      by_cases h0 : dropCount fuel (V / 10) = 0
      · rw [h0]; simpa using hV
      · have := ih.2 (by omega)
        rw [div_pow_succ] at this
        have e : dropCount fuel (V / 10) - 1 + 1 = dropCount fuel (V / 10) := by omega
        rwa [e] at this
    · simp only [hV, if_false]
      exact ⟨by simpa using Nat.le_of_not_gt hV, fun h => by omega⟩

/-- `ndrop V` is the least `k` with `V / 10^k ≤ MAXSIG` -/
theorem ndrop_spec (V : Nat) : V / 10 ^ ndrop V ≤ MAXSIG ∧ (1 ≤ ndrop V → MAXSIG < V / 10 ^ (ndrop V - 1)) :=
  dropCount_spec _ V Nat.lt_log2_self

theorem div_pow_anti (V : Nat) {a b : Nat} (h : a ≤ b) : V / 10 ^ b ≤ V / 10 ^ a :=
  Nat.div_le_div_left (Nat.pow_le_pow_right (by decide) h) (Nat.pow_pos (by decide))

theorem ndrop_unique {V k : Nat} (h1 : V / 10 ^ k ≤ MAXSIG) (h2 : 1 ≤ k → MAXSIG < V / 10 ^ (k - 1)) : ndrop V = k := by
  obtain ⟨g1, g2⟩ := ndrop_spec V
  rcases Nat.lt_trichotomy (ndrop V) k with h | h | h
  · have := div_pow_anti V (show ndrop V ≤ k - 1 by omega)
    have := h2 (by omega)
    omega
  · exact h
  · have := div_pow_anti V (show k ≤ ndrop V - 1 by omega)
    have := g2 (by omega)
    omega

theorem ndrop_zero {V : Nat} (h : V ≤ MAXSIG) : ndrop V = 0 := ndrop_unique (by simpa using h) (by omega)

theorem ndrop_pos {V : Nat} (h : MAXSIG < V) : 1 ≤ ndrop V := by
  have := (ndrop_spec V).1
  by_cases h0 : ndrop V = 0
  · rw [h0] at this; simp at this; omega
  · omega

/-- what the invariant `RInv` says: `c` is the quotient, `(dg, t)` describe the remainder -/
theorem RInv_decomp {V k c dg : Nat} {st : Bool} (h : RInv V k c dg st) :
    ∃ r t, V = c * 10 ^ k + r ∧ r < 10 ^ k ∧ 10 * r = dg * 10 ^ k + t ∧ t < 10 ^ k ∧ dg < 10 ∧ (st = true ↔ t ≠ 0) := by
  obtain ⟨t, h1, h2, h3, h4⟩ := h
  rw [Nat.pow_succ] at h1
  have e1 : c * (10 ^ k * 10) = 10 * (c * 10 ^ k) := by grind
  rw [e1] at h1
  have hub : dg * 10 ^ k ≤ 9 * 10 ^ k := Nat.mul_le_mul_right _ (by omega)
  refine ⟨V - c * 10 ^ k, t, ?_, ?_, ?_, h2, h3, h4⟩ <;> omega

theorem RInv_div {V k c dg : Nat} {st : Bool} (h : RInv V k c dg st) : V / 10 ^ k = c := by
  obtain ⟨r, t, h1, h2, _⟩ := RInv_decomp h
  have hp : 0 < 10 ^ k := Nat.pow_pos (by decide)
  exact ((Nat.div_mod_unique hp).mpr ⟨by rw [h1, Nat.mul_comm]; omega, h2⟩).1

theorem roundUp_iff {c dg t r P : Nat} {st : Bool} (h3 : 10 * r = dg * P + t) (h4 : t < P) (h5 : dg < 10)
    (h6 : st = true ↔ t ≠ 0) : RoundUp c dg st ↔ (2 * r > P ∨ (2 * r = P ∧ c % 2 = 1)) := by
  have hd : dg = 0 ∨ dg = 1 ∨ dg = 2 ∨ dg = 3 ∨ dg = 4 ∨ dg = 5 ∨ dg = 6 ∨ dg = 7 ∨ dg = 8 ∨ dg = 9 := by omega
  cases st with
  | true =>
    have ht : t ≠ 0 := h6.mp rfl
    rcases hd with rfl | rfl | rfl | rfl | rfl | rfl | rfl | rfl | rfl | rfl <;> simp [RoundUp] <;> omega
  | false =>
    have ht : t = 0 := by
      by_cases h : t = 0
      · exact h
      · exact absurd (h6.mpr h) (by simp)
    subst ht
    rcases hd with rfl | rfl | rfl | rfl | rfl | rfl | rfl | rfl | rfl | rfl <;> simp [RoundUp] <;> omega

/-- the round-half-even decision of `roundEven` is the mathematical one -/
theorem rhe_of_RInv {V k c dg : Nat} {st : Bool} (h : RInv V k c dg st) :
    rhe V k = if RoundUp c dg st then c + 1 else c := by
  obtain ⟨r, t, h1, h2, h3, h4, h5, h6⟩ := RInv_decomp h
  have hp : 0 < 10 ^ k := Nat.pow_pos (by decide)
  have hdm := (Nat.div_mod_unique hp).mpr ⟨show r + 10 ^ k * c = V by rw [h1, Nat.mul_comm]; omega, h2⟩
  unfold rhe
  rw [hdm.1, hdm.2]
  have := roundUp_iff (c := c) h3 h4 h5 h6
  by_cases hup : RoundUp c dg st
  · simp only [hup, if_true, this.mp hup]
  · have hn : ¬ (2 * r > 10 ^ k ∨ (2 * r = 10 ^ k ∧ c % 2 = 1)) := fun h => hup (this.mpr h)
    simp only [hup, hn, if_false]

theorem MAXSIG_succ_div : (MAXSIG + 1) / 10 * 10 ^ 1 = MAXSIG + 1 := by decide

/-- `roundEven` returns the half-even rounding, re-normalised when it carries out of `MAXSIG` -/
theorem roundEven_exact {V k c dg : Nat} {st : Bool} (fuel : Nat) (e : Int) (h : RInv V k c dg st) (hc : c ≤ MAXSIG) :
    roundEven (fuel + 2) c e dg st = (if rhe V k ≤ MAXSIG then (rhe V k, e) else ((MAXSIG + 1) / 10, e + 1)) ∧
      (rhe V k ≤ MAXSIG ∨ rhe V k = MAXSIG + 1) := by
  rw [rhe_of_RInv h, roundEven_succ]
  by_cases hup : RoundUp c dg st
  · simp only [hup, if_true]
    by_cases hc1 : c + 1 ≤ MAXSIG
    · simp only [Nat.not_lt.mpr hc1, if_false, hc1, if_true, true_and]
      exact Or.inl trivial
    · have hcM : c = MAXSIG := by omega
      have hgt : c + 1 > MAXSIG := by omega
      simp only [hgt, if_true, hc1, if_false]
      have h10 : c / 10 + 1 ≤ MAXSIG := by rw [MAXSIG_val] at *; omega
      obtain ⟨c4, g1, _, _, _, g5⟩ := roundEven_nocarry fuel (e + 1) (RInv_step h) h10
      have h9 : c % 10 > 5 := by rw [hcM, MAXSIG_val]; decide
      refine ⟨?_, Or.inr (by omega)⟩
      rw [g1, g5 h9, hcM]
      congr 1
  · simp only [hup, if_false, hc, if_true, true_and]
    exact Or.inl trivial

/-- **the rounding rule of `reduce`.**  `reduce` is called with a coefficient `C > MAXSIG`, an exponent `e ≥ EMIN` and
    a sticky flag standing for a non-zero tail: the exact magnitude is `V · 10^(e-j)` with `V = C·10^j + tail`,
    `tail < 10^j`.  The result drops the `k = ndrop V` low digits of `V` (the fewest that leave a coefficient
    `≤ MAXSIG`), rounding half-even: it is `rhe V k · 10^(e-j+k)`; it is ±Inf when the exponent (one more when the
    rounding carries to `MAXSIG + 1`) exceeds `EMAX`. -/
theorem reduce_round (neg : Bool) (C : Nat) (e : Int) (St : Bool) (V j tail : Nat) (hV : V = C * 10 ^ j + tail)
    (ht : tail < 10 ^ j) (hst : St = true ↔ tail ≠ 0) (hC : MAXSIG < C) (he : EMIN ≤ e) :
    j + 1 ≤ ndrop V ∧
    reduce neg C e St =
      if e - j + (ndrop V : Nat) + (if rhe V (ndrop V) ≤ MAXSIG then 0 else 1) > EMAX then .inf neg
      else normalize (.fin neg (rhe V (ndrop V)) (e - j + (ndrop V : Nat))) := by
  have hC0 : C ≠ 0 := by rw [MAXSIG_val] at hC; omega
  have hinv : RInv V (j + 1) (C / 10) (C % 10) St := by
    refine ⟨10 * tail, ?_, by rw [Nat.pow_succ]; omega, by omega, by rw [hst]; omega⟩
    have hc : C = 10 * (C / 10) + C % 10 := by omega
    generalize C / 10 = a at *
    generalize C % 10 = b at *
    subst hc
    rw [hV]
    simp only [Nat.pow_succ]
    grind
  have hfuel : C / 10 < 2 ^ (Nat.log2 (C + 1) + 1) := by
    have := lt_two_pow_fuel C
    rw [Nat.pow_succ] at this
    omega
  obtain ⟨j2, c1, d1, s1, g1, g2, g3, g4, g5⟩ :=
    dropHigh_spec V (Nat.log2 (C + 1) + 1) (C / 10) (e + 1) (C % 10) St (j + 1) hinv hfuel
  have hc1 : (MAXSIG + 1) / 10 ≤ c1 := by
    by_cases h10 : C / 10 ≤ MAXSIG
    · rw [(g4 h10).2]; rw [MAXSIG_val] at *; omega
    · exact (g5 (by omega)).2
  -- the number of dropped digits is `ndrop V`
  have hK : ndrop V = j + 1 + j2 := by
    apply ndrop_unique
    · rw [RInv_div g2]; exact g3
    · intro _
      obtain ⟨r, t, q1, _⟩ := RInv_decomp g2
      have e1 : j + 1 + j2 - 1 = j + j2 := by omega
      have e2 : 10 ^ (j + 1 + j2) = 10 * 10 ^ (j + j2) := by
        rw [show j + 1 + j2 = (j + j2) + 1 by omega, Nat.pow_succ, Nat.mul_comm]
      rw [e1]
      have hp : 0 < 10 ^ (j + j2) := Nat.pow_pos (by decide)
      have : c1 * 10 ≤ V / 10 ^ (j + j2) := by
        rw [Nat.le_div_iff_mul_le hp, q1, e2]
        have : c1 * 10 * 10 ^ (j + j2) = c1 * (10 * 10 ^ (j + j2)) := by rw [Nat.mul_assoc]
        omega
      rw [MAXSIG_val] at *
      omega
  obtain ⟨r1, r2⟩ := roundEven_exact 1 (e + 1 + (j2 : Nat)) g2 g3
  rw [hK]
  refine ⟨by omega, ?_⟩
  unfold reduce
  simp only [hC0, false_and, if_false]
  have hdrop : dropHigh (Nat.log2 (C + 1) + 2) C e 0 St = (c1, e + 1 + (j2 : Nat), d1, s1) := by
    rw [show Nat.log2 (C + 1) + 2 = (Nat.log2 (C + 1) + 1) + 1 from rfl]
    unfold dropHigh
    simp only [hC, if_true, bne_self_eq_false, Bool.or_false]
    exact g1
  rw [hdrop]
  simp only []
  rw [dropLow_id _ _ _ _ _ (by omega)]
  simp only []
  have hlt : ¬ (e + 1 + (j2 : Int) < EMIN) := by omega
  simp only [hlt, if_false]
  rw [scaleUp_full _ _ _ (by rw [MAXSIG_val] at *; omega)]
  simp only []
  rw [r1]
  have ee : e - (j : Int) + ((j + 1 + j2 : Nat) : Int) = e + 1 + (j2 : Int) := by omega
  rw [ee]
  rcases r2 with r2 | r2
  · simp only [r2, if_true, Int.add_zero]
  · have hn : ¬ (rhe V (j + 1 + j2) ≤ MAXSIG) := by omega
    simp only [hn, if_false]
    rw [r2, ← MAXSIG_succ_div, normalize_shift]
    rfl

/-! ## 3. The scanner of `parseNumber` on digit strings of any length -/

/-- what the mantissa loop does to `(kept coefficient, sticky, number of digits dropped)` -/
def scanM : Nat × Bool × Nat → Bytes → Nat × Bool × Nat
  | p, [] => p
  | (c, st, j), b :: ds =>
    if c ≤ PFULL then scanM (c * 10 + (b - 0x30), st, j) ds else scanM (c, st || b != 0x30, j + 1) ds

/-- the digits read so far are worth `V`; `c` was kept, the last `j` digits went into the sticky flag -/
def MI (c : Nat) (st : Bool) (V j : Nat) : Prop :=
  ∃ tail, V = c * 10 ^ j + tail ∧ tail < 10 ^ j ∧ (st = true ↔ tail ≠ 0) ∧ (0 < j → PFULL < c)

theorem scanM_j : ∀ (ds : Bytes) (c : Nat) (st : Bool) (j : Nat),
    j ≤ (scanM (c, st, j) ds).2.2 ∧ (scanM (c, st, j) ds).2.2 ≤ j + ds.length
  | [], c, st, j => by simp [scanM]
  | b :: ds, c, st, j => by
    unfold scanM
    split
    · have := scanM_j ds (c * 10 + (b - 0x30)) st j
      simp only [List.length_cons]; omega
    · have := scanM_j ds c (st || b != 0x30) (j + 1)
      simp only [List.length_cons]; omega

theorem scanM_MI : ∀ (ds : Bytes) (c : Nat) (st : Bool) (j V : Nat), (∀ b ∈ ds, isDigit b = true) → MI c st V j →
    MI (scanM (c, st, j) ds).1 (scanM (c, st, j) ds).2.1 (dval V ds) (scanM (c, st, j) ds).2.2
  | [], c, st, j, V, _, h => by simpa [scanM, dval_nil] using h
  | b :: ds, c, st, j, V, hd, h => by
    have hb := (isDigit_iff b).mp (hd b (List.mem_cons_self ..))
    have hds : ∀ b' ∈ ds, isDigit b' = true := fun b' hb' => hd b' (List.mem_cons_of_mem _ hb')
    obtain ⟨tail, h1, h2, h3, h4⟩ := h
    unfold scanM
    rw [dval_cons]
    split
    · next hc =>
      have hj : j = 0 := by
        by_cases hj : j = 0
        · exact hj
        · have := h4 (by omega); omega
      subst hj
      apply scanM_MI ds _ _ _ _ hds
      refine ⟨0, ?_, by simp, by simp [h3]; simpa using h2, by omega⟩
      simp at h1 h2
      subst h2
      simp [h1]
    · next hc =>
      apply scanM_MI ds _ _ _ _ hds
      refine ⟨tail * 10 + (b - 0x30), ?_, ?_, ?_, fun _ => by omega⟩
      · rw [h1, Nat.pow_succ]; grind
      · rw [Nat.pow_succ]; omega
      · have : (b != 0x30) = true ↔ b - 0x30 ≠ 0 := by simp; omega
        cases st <;> simp_all <;> omega

/-- the mantissa loop on a digit string, whatever its length -/
theorem prun_mant_gen (sep : Bool) : ∀ (ds : Bytes) (s : Dec.PState) (j : Nat), (∀ b ∈ ds, isDigit b = true) →
    s.sawexp = false →
    prun sep s ds = some (if ds.isEmpty then s else
      { s with c := (scanM (s.c, s.sticky, j) ds).1, sticky := (scanM (s.c, s.sticky, j) ds).2.1,
               nfrac := (if s.sawdot then s.nfrac + ds.length else s.nfrac) - (((scanM (s.c, s.sticky, j) ds).2.2 - j : Nat) : Int),
               caneof := true, cansep := true, cansgn := false, sawdig := true })
  | [], s, j, _, _ => rfl
  | b :: ds, s, j, hd, hx => by
    have hb : isDigit b = true := hd b (List.mem_cons_self ..)
    have hds : ∀ b' ∈ ds, isDigit b' = true := fun b' hb' => hd b' (List.mem_cons_of_mem _ hb')
    by_cases hc : s.c ≤ PFULL
    · have hstep : pstep sep s b = some ({ s with
          c := s.c * 10 + (b - 0x30), nfrac := (if s.sawdot then s.nfrac + 1 else s.nfrac),
          caneof := true, cansep := true, cansgn := false, sawdig := true }) := by
        simp [pstep, hb, hx, hc]
      simp only [prun, hstep]
      rw [prun_mant_gen sep ds ({ s with
          c := s.c * 10 + (b - 0x30), nfrac := (if s.sawdot then s.nfrac + 1 else s.nfrac),
          caneof := true, cansep := true, cansgn := false, sawdig := true }) j hds hx]
      have hj := scanM_j ds (s.c * 10 + (b - 0x30)) s.sticky j
      cases ds with
      | nil => simp [scanM, hc]
      | cons b' ds =>
        simp only [List.isEmpty_cons, Bool.false_eq_true, if_false, List.length_cons]
        rw [show scanM (s.c, s.sticky, j) (b :: b' :: ds) = scanM (s.c * 10 + (b - 0x30), s.sticky, j) (b' :: ds) by
          rw [scanM]; simp [hc]]
        cases s.sawdot <;> simp <;> omega
    · have hstep : pstep sep s b = some ({ s with
          sticky := s.sticky || b != 0x30, nfrac := (if s.sawdot then s.nfrac else s.nfrac - 1),
          caneof := true, cansep := true, cansgn := false, sawdig := true }) := by
        simp [pstep, hb, hx, hc]
      simp only [prun, hstep]
      rw [prun_mant_gen sep ds ({ s with
          sticky := s.sticky || b != 0x30, nfrac := (if s.sawdot then s.nfrac else s.nfrac - 1),
          caneof := true, cansep := true, cansgn := false, sawdig := true }) (j + 1) hds hx]
      have hj := scanM_j ds s.c (s.sticky || b != 0x30) (j + 1)
      cases ds with
      | nil => simp [scanM, hc]; cases s.sawdot <;> simp <;> omega
      | cons b' ds =>
        simp only [List.isEmpty_cons, Bool.false_eq_true, if_false, List.length_cons]
        rw [show scanM (s.c, s.sticky, j) (b :: b' :: ds) = scanM (s.c, s.sticky || b != 0x30, j + 1) (b' :: ds) by
          rw [scanM]; simp [hc]]
        simp only [List.length_cons] at hj
        cases s.sawdot <;> simp <;> omega

theorem scanM_c_le : ∀ (ds : Bytes) (c : Nat) (st : Bool) (j : Nat), (∀ b ∈ ds, isDigit b = true) → c ≤ PFULL * 10 + 9 →
    (scanM (c, st, j) ds).1 ≤ PFULL * 10 + 9
  | [], c, st, j, _, h => by simpa [scanM] using h
  | b :: ds, c, st, j, hd, h => by
    have hb := (isDigit_iff b).mp (hd b (List.mem_cons_self ..))
    have hds : ∀ b' ∈ ds, isDigit b' = true := fun b' hb' => hd b' (List.mem_cons_of_mem _ hb')
    unfold scanM
    split
    · exact scanM_c_le ds _ _ _ hds (by omega)
    · exact scanM_c_le ds _ _ _ hds h

theorem scanM_append : ∀ (a b : Bytes) (p : Nat × Bool × Nat), scanM p (a ++ b) = scanM (scanM p a) b
  | [], b, p => rfl
  | x :: a, b, (c, st, j) => by
    simp only [List.cons_append, scanM]
    split <;> exact scanM_append a b _

/-- what the exponent loop does to `(exp, maxexp)` -/
def scanE : Nat × Bool → Bytes → Nat × Bool
  | p, [] => p
  | (x, m), b :: ds => if m || decide (x > 618) then scanE (x, true) ds else scanE (x * 10 + (b - 0x30), false) ds

theorem scanE_true : ∀ (ds : Bytes) (x : Nat), (scanE (x, true) ds).2 = true
  | [], _ => rfl
  | b :: ds, x => by simp [scanE, scanE_true ds x]

/-- an exponent field up to 6189 is read exactly; a larger one raises `maxexp` -/
theorem scanE_spec : ∀ (ds : Bytes) (x : Nat), (∀ b ∈ ds, isDigit b = true) → x ≤ 6189 →
    (dval x ds ≤ 6189 → scanE (x, false) ds = (dval x ds, false)) ∧ (6189 < dval x ds → (scanE (x, false) ds).2 = true)
  | [], x, _, hx => by simp [scanE, dval_nil]; omega
  | b :: ds, x, hd, hx => by
    have hb := (isDigit_iff b).mp (hd b (List.mem_cons_self ..))
    have hds : ∀ b' ∈ ds, isDigit b' = true := fun b' hb' => hd b' (List.mem_cons_of_mem _ hb')
    rw [dval_cons]
    have hle := le_dval ds (x * 10 + (b - 0x30))
    by_cases h618 : x > 618
    · simp only [scanE, h618, decide_true, Bool.or_true, if_true, scanE_true]
      exact ⟨fun h => by omega, fun _ => trivial⟩
    · simp only [scanE, h618, decide_false, Bool.or_false, Bool.false_eq_true, if_false]
      exact scanE_spec ds _ hds (by omega)

/-- the exponent loop on a digit string, whatever its value -/
theorem prun_exp_gen (sep : Bool) : ∀ (ds : Bytes) (s : Dec.PState), (∀ b ∈ ds, isDigit b = true) → s.sawexp = true →
    prun sep s ds = some (if ds.isEmpty then s else
      { s with exp := (scanE (s.exp, s.maxexp) ds).1, maxexp := (scanE (s.exp, s.maxexp) ds).2,
               caneof := true, cansep := true, cansgn := false, sawdig := true })
  | [], s, _, _ => rfl
  | b :: ds, s, hd, hx => by
    have hb : isDigit b = true := hd b (List.mem_cons_self ..)
    have hds : ∀ b' ∈ ds, isDigit b' = true := fun b' hb' => hd b' (List.mem_cons_of_mem _ hb')
    have hstep : pstep sep s b = some ({ s with
        maxexp := s.maxexp || decide (s.exp > 618),
        exp := if (s.maxexp || decide (s.exp > 618)) = true then s.exp else s.exp * 10 + (b - 0x30),
        caneof := true, cansep := true, cansgn := false, sawdig := true }) := by
      simp [pstep, hb, hx]
    simp only [prun, hstep]
    rw [prun_exp_gen sep ds ({ s with
        maxexp := s.maxexp || decide (s.exp > 618),
        exp := if (s.maxexp || decide (s.exp > 618)) = true then s.exp else s.exp * 10 + (b - 0x30),
        caneof := true, cansep := true, cansgn := false, sawdig := true }) hds hx]
    by_cases hm : (s.maxexp || decide (s.exp > 618)) = true
    · cases ds with
      | nil => simp [scanE, hm]
      | cons b' ds =>
        simp only [List.isEmpty_cons, Bool.false_eq_true, if_false]
        rw [show scanE (s.exp, s.maxexp) (b :: b' :: ds) = scanE (s.exp, true) (b' :: ds) by rw [scanE]; simp [hm]]
        simp [hm]
    · cases ds with
      | nil => simp [scanE, hm]
      | cons b' ds =>
        simp only [List.isEmpty_cons, Bool.false_eq_true, if_false]
        rw [show scanE (s.exp, s.maxexp) (b :: b' :: ds) = scanE (s.exp * 10 + (b - 0x30), false) (b' :: ds) by
          rw [scanE]; simp [hm]]
        simp [hm]

/-- the scanner state after the mantissa, with a sticky flag -/
def mantStateG (C : Nat) (F : Int) (D St : Bool) : Dec.PState :=
  { c := C, nfrac := F, sticky := St, caneof := true, cansep := true, sawdig := true, sawdot := D }

/-- the text of the fraction part -/
def fracText : Bytes → Bytes
  | [] => []
  | f :: fp => 0x2E :: f :: fp

theorem numText_eq (neg : Bool) (ip fp : Bytes) (ex : Option (Bool × Option Bool × Bytes)) :
    numText neg ip fp ex = (if neg then [0x2D] else []) ++
      ((ip ++ fracText fp) ++ (match ex with | none => [] | some (upper, sg, ep) => expText upper sg ep)) := by
  cases fp <;> rfl

/-- **the mantissa of any length**: the scanner state after `int[.frac]` -/
theorem mant_scan_gen (sep : Bool) (b : Nat) (ip fp : Bytes) (hd : ∀ x ∈ b :: ip, isDigit x = true)
    (hf : ∀ x ∈ fp, isDigit x = true) :
    prun sep {} ((b :: ip) ++ fracText fp) =
      some (mantStateG (scanM (0, false, 0) ((b :: ip) ++ fp)).1
        ((fp.length : Int) - ((scanM (0, false, 0) ((b :: ip) ++ fp)).2.2 : Nat)) (!fp.isEmpty)
        (scanM (0, false, 0) ((b :: ip) ++ fp)).2.1) := by
  have hint := prun_mant_gen sep (b :: ip) {} 0 hd rfl
  cases fp with
  | nil =>
    simp only [fracText, List.append_nil, hint]
    simp [mantStateG]
  | cons f fp =>
    rw [prun_append, hint]
    simp only [List.isEmpty_cons, Bool.false_eq_true, if_false, fracText]
    rw [prun_cons]
    generalize hr1 : scanM (({} : Dec.PState).c, ({} : Dec.PState).sticky, 0) (b :: ip) = r1
    have hr1' : scanM (0, false, 0) (b :: ip) = r1 := hr1
    obtain ⟨c1, st1, j1⟩ := r1
    have hdot : ∀ (C : Nat) (F : Int) (St : Bool), pstep sep
        { c := C, nfrac := F, sticky := St, caneof := true, cansep := true, sawdig := true } 0x2E =
        some { c := C, nfrac := F, sticky := St, caneof := true, sawdig := true, sawdot := true } := by
      intro C F St; simp [pstep, isDigit]
    rw [hdot]
    simp only []
    rw [prun_mant_gen sep (f :: fp) _ j1 hf rfl]
    simp only [List.isEmpty_cons, Bool.false_eq_true, if_false]
    rw [scanM_append, hr1']
    have hj1 := scanM_j (b :: ip) 0 false 0
    rw [hr1'] at hj1
    have hj2 := scanM_j (f :: fp) c1 st1 j1
    simp only [List.length_cons] at hj1 hj2
    simp [mantStateG]
    omega

/-- the exponent part `e|E [+|-] digits`, whatever the value of the digits -/
theorem prun_exp_G (sep : Bool) (C : Nat) (F : Int) (D St : Bool) (upper : Bool) (sg : Option Bool) (x : Nat) (ep : Bytes)
    (hd : ∀ y ∈ x :: ep, isDigit y = true) :
    prun sep (mantStateG C F D St) (expText upper sg (x :: ep)) =
      some ({ mantStateG C F D St with exp := (scanE (0, false) (x :: ep)).1, maxexp := (scanE (0, false) (x :: ep)).2,
                                       eneg := (sg == some true), sawexp := true }) := by
  have he : pstep sep (mantStateG C F D St) (if upper then 0x45 else 0x65) =
      some ({ mantStateG C F D St with caneof := false, cansep := false, cansgn := true, sawexp := true }) := by
    cases upper <;> simp [pstep, mantStateG, isDigit]
  simp only [expText]
  rw [prun_cons, he]
  simp only []
  rcases sg with _ | _ | _
  · simp only [List.nil_append]
    rw [prun_exp_gen sep (x :: ep) _ hd rfl]
    simp [mantStateG]
  · have hs : pstep sep ({ mantStateG C F D St with caneof := false, cansep := false, cansgn := true, sawexp := true }) 0x2B =
        some ({ mantStateG C F D St with caneof := false, cansep := false, cansgn := false, sawexp := true }) := by
      simp [pstep, mantStateG, isDigit]
    simp only [List.cons_append, List.nil_append]
    rw [prun_cons, hs]
    simp only []
    rw [prun_exp_gen sep (x :: ep) _ hd rfl]
    simp [mantStateG]
  · have hs : pstep sep ({ mantStateG C F D St with caneof := false, cansep := false, cansgn := true, sawexp := true }) 0x2D =
        some ({ mantStateG C F D St with caneof := false, cansep := false, cansgn := false, sawexp := true, eneg := true }) := by
      simp [pstep, mantStateG, isDigit]
    simp only [List.cons_append, List.nil_append]
    rw [prun_cons, hs]
    simp only []
    rw [prun_exp_gen sep (x :: ep) _ hd rfl]
    simp [mantStateG]

/-- the exponent field of the text and its sign -/
def exField : Option (Bool × Option Bool × Bytes) → Nat
  | none => 0
  | some (_, _, ep) => dval 0 ep
def exNeg : Option (Bool × Option Bool × Bytes) → Bool
  | some (_, some true, _) => true
  | _ => false

theorem numTextExp_eq (fp : Bytes) (ex : Option (Bool × Option Bool × Bytes)) :
    numTextExp fp ex = (if exNeg ex then -(exField ex : Int) else exField ex) - (fp.length : Nat) := by
  unfold numTextExp exNeg exField
  rcases ex with _ | ⟨u, _ | _ | _, ep⟩ <;> simp

/-- well-formedness of the components of a number text -/
def WF (b : Nat) (ip fp : Bytes) (ex : Option (Bool × Option Bool × Bytes)) : Prop :=
  (∀ x ∈ b :: ip, isDigit x = true) ∧ (∀ x ∈ fp, isDigit x = true) ∧
    ∀ u sg ep, ex = some (u, sg, ep) → ep ≠ [] ∧ ∀ x ∈ ep, isDigit x = true

/-- **`parseNumber` on any text of the JSON number grammar**: the scan succeeds, and the outcome is `parseFinish` of
    a state whose coefficient/sticky flag stand for the whole digit string (`MI`), at most `|digits|` of which were
    dropped -/
theorem parseNumber_scan (neg sep : Bool) (b : Nat) (ip fp : Bytes) (ex : Option (Bool × Option Bool × Bytes))
    (h : WF b ip fp ex) :
    ∃ s : Dec.PState, ∃ J : Nat, parseNumber (numText false (b :: ip) fp ex) neg sep = parseFinish s neg ∧
      s.caneof = true ∧ MI s.c s.sticky (dval 0 ((b :: ip) ++ fp)) J ∧ J ≤ (b :: ip).length + fp.length ∧
      s.nfrac = (fp.length : Int) - (J : Nat) ∧ s.eneg = exNeg ex ∧ s.c ≤ PFULL * 10 + 9 ∧
      (exField ex ≤ 6189 → s.maxexp = false ∧ s.exp = exField ex) ∧ (6189 < exField ex → s.maxexp = true) := by
  obtain ⟨hd, hf, hx⟩ := h
  have hm := mant_scan_gen sep b ip fp hd hf
  have hdf : ∀ x ∈ (b :: ip) ++ fp, isDigit x = true := by
    intro x hx'
    rcases List.mem_append.mp hx' with h | h
    · exact hd x h
    · exact hf x h
  have hMI := scanM_MI ((b :: ip) ++ fp) 0 false 0 0 hdf ⟨0, by simp, by simp, by simp, by omega⟩
  have hJ := scanM_j ((b :: ip) ++ fp) 0 false 0
  have hCb := scanM_c_le ((b :: ip) ++ fp) 0 false 0 hdf (by omega)
  generalize scanM (0, false, 0) ((b :: ip) ++ fp) = r at *
  obtain ⟨C, St, J⟩ := r
  simp only [] at hMI hJ hm hCb
  rw [parseNumber_eq, numText_eq]
  simp only [Bool.false_eq_true, if_false, List.nil_append]
  rw [prun_append, hm]
  simp only []
  cases ex with
  | none =>
    refine ⟨_, J, rfl, rfl, hMI, ?_, rfl, rfl, hCb, fun _ => ⟨rfl, rfl⟩, fun h => by simp [exField] at h⟩
    have := hJ.2; simp at this ⊢; omega
  | some t =>
    obtain ⟨u, sg, ep⟩ := t
    obtain ⟨hne, hde⟩ := hx u sg ep rfl
    cases ep with
    | nil => exact absurd rfl hne
    | cons x ep =>
      simp only []
      rw [prun_exp_G sep C _ _ St u sg x ep hde]
      have hE := scanE_spec (x :: ep) 0 hde (by omega)
      refine ⟨_, J, rfl, rfl, hMI, by have := hJ.2; simp at this ⊢; omega, rfl, ?_, hCb, ?_, ?_⟩
      · rcases sg with _ | _ | _ <;> rfl
      · intro hle
        have := hE.1 hle
        simp only [exField]
        rw [this]; exact ⟨rfl, rfl⟩
      · intro hgt; exact hE.2 hgt

/-! ## 4. What `parseNumber` returns -/

theorem normalize_fin (n : Bool) (c : Nat) (e : Int) : ∃ c' e', normalize (.fin n c e) = .fin n c' e' :=
  (normalize_same_value n c e).2.2

/-- `reduce` returns a finite value or the infinity of its sign, never NaN -/
theorem reduce_fin_or_inf (neg : Bool) (c : Nat) (e : Int) (st : Bool) :
    (∃ c' e', reduce neg c e st = .fin neg c' e') ∨ reduce neg c e st = .inf neg := by
  have hshape : ∃ p : Nat × Int, reduce neg c e st =
      if c = 0 ∧ ¬ st = true then .fin neg 0 0 else if p.2 > EMAX then .inf neg else normalize (.fin neg p.1 p.2) := by
    unfold reduce
    exact ⟨_, rfl⟩
  obtain ⟨p, hp⟩ := hshape
  rw [hp]
  split
  · exact Or.inl ⟨_, _, rfl⟩
  · split
    · exact Or.inr rfl
    · exact Or.inl (normalize_fin ..)

theorem parseFinish_fin_or_range (s : Dec.PState) (neg : Bool) (h : s.caneof = true) :
    (∃ c e, parseFinish s neg = .ok (.fin neg c e)) ∨ parseFinish s neg = .range (.inf neg) := by
  unfold parseFinish
  simp only [h, Bool.not_true, Bool.false_eq_true, if_false]
  generalize (if s.eneg then -(s.exp : Int) else s.exp) - s.nfrac = e
  by_cases hc : s.c = 0
  · simp only [hc, if_true]; exact Or.inl ⟨_, _, rfl⟩
  · simp only [hc, if_false]
    by_cases hm : s.maxexp = true
    · simp only [hm, if_true]
      by_cases hn : s.eneg = true
      · simp only [hn, if_true]; exact Or.inl ⟨_, _, rfl⟩
      · simp only [hn]; exact Or.inr rfl
    · simp only [hm]
      by_cases h1 : e > EMAX + 39
      · simp only [h1, if_true]; exact Or.inr rfl
      · simp only [h1, if_false]
        by_cases h2 : e < EMIN - 39
        · simp only [h2, if_true]; exact Or.inl ⟨_, _, rfl⟩
        · simp only [h2, if_false]
          rcases reduce_fin_or_inf neg s.c e s.sticky with ⟨c', e', hr⟩ | hr
          · rw [hr]; exact Or.inl ⟨_, _, rfl⟩
          · rw [hr]; exact Or.inr rfl

theorem MI_small {C : Nat} {St : Bool} {V J : Nat} (h : MI C St V J) (hV : V ≤ MAXSIG) : J = 0 ∧ C = V ∧ St = false := by
  obtain ⟨tail, h1, h2, h3, h4⟩ := h
  have hJ : J = 0 := by
    by_cases hJ : J = 0
    · exact hJ
    · have hc := h4 (by omega)
      have : C ≤ C * 10 ^ J := Nat.le_mul_of_pos_right _ (Nat.pow_pos (by decide))
      have := MAXSIG_le_PFULL
      omega
  subst hJ
  simp at h1 h2
  subst h2
  refine ⟨rfl, by omega, ?_⟩
  cases St <;> simp_all

theorem MI_big {C : Nat} {St : Bool} {V J : Nat} (h : MI C St V J) (hV : MAXSIG < V) : MAXSIG < C := by
  obtain ⟨tail, h1, h2, h3, h4⟩ := h
  by_cases hJ : J = 0
  · subst hJ; simp at h1 h2; omega
  · have := h4 (by omega)
    have := MAXSIG_le_PFULL
    omega

theorem MI_zero {C : Nat} {St : Bool} {V J : Nat} (h : MI C St V J) : C = 0 ↔ V = 0 := by
  obtain ⟨tail, h1, h2, h3, h4⟩ := h
  constructor
  · intro hc
    subst hc
    have : J = 0 := by
      by_cases hJ : J = 0
      · exact hJ
      · have := h4 (by omega); omega
    subst this
    simp at h1 h2; omega
  · intro hv
    subst hv
    have hp : 0 < 10 ^ J := Nat.pow_pos (by decide)
    rcases Nat.eq_zero_or_pos C with h | h
    · exact h
    · have : 10 ^ J ≤ C * 10 ^ J := Nat.le_mul_of_pos_left _ h
      omega

theorem rhe_zero (V : Nat) : rhe V 0 = V := by simp [rhe, Nat.mod_one]

/-- `Parse` of a signed text is `parseNumber` of the unsigned one -/
theorem parse_numText (neg : Bool) (b : Nat) (ip fp : Bytes) (ex : Option (Bool × Option Bool × Bytes))
    (hb : isDigit b = true) :
    Dec.parse (numText neg (b :: ip) fp ex) = parseNumber (numText false (b :: ip) fp ex) neg true := by
  have h2 : numText false (b :: ip) fp ex = b :: (numText false (b :: ip) fp ex).tail := by simp [numText]
  cases neg with
  | false => rw [h2, parse_digit_head _ _ hb]
  | true =>
    have h1 : numText true (b :: ip) fp ex = 0x2D :: numText false (b :: ip) fp ex := by simp [numText]
    rw [h1, h2, parse_minus_digit_head _ _ hb]

/-- the exponent `numTextExp` seen from the final scanner state -/
theorem state_exp {s : Dec.PState} {fp : Bytes} {ex : Option (Bool × Option Bool × Bytes)} {J : Nat}
    (h5 : s.nfrac = (fp.length : Int) - (J : Nat)) (h6 : s.eneg = exNeg ex) (h7 : s.exp = exField ex) :
    (if s.eneg then -(s.exp : Int) else s.exp) - s.nfrac = numTextExp fp ex + (J : Nat) := by
  rw [numTextExp_eq, h5, h6, h7]; omega

/-- **the general rule.**  A number text `[-]int[.frac][e±x]` with digit string `V = int ++ frac`, exponent of the
    last digit `E = ±x − |frac|`, exponent field `x ≤ 6189`, no underflow (`EMIN ≤ E`): `parseNumber` returns `V`
    with its `k = ndrop V` low digits rounded away half-even, `rhe V k · 10^(E+k)` — that is `V·10^E` itself when
    `V ≤ MAXSIG` — provided the exponent stays `≤ EMAX` (one more if the rounding carries to `MAXSIG + 1`). -/
theorem parseNumber_round (neg sep : Bool) (b : Nat) (ip fp : Bytes) (ex : Option (Bool × Option Bool × Bytes))
    (h : WF b ip fp ex) (hx : exField ex ≤ 6189) (hlo : EMIN ≤ numTextExp fp ex)
    (hhi : numTextExp fp ex + (ndrop (dval 0 ((b :: ip) ++ fp)) : Nat) +
      (if rhe (dval 0 ((b :: ip) ++ fp)) (ndrop (dval 0 ((b :: ip) ++ fp))) ≤ MAXSIG then 0 else 1) ≤ EMAX) :
    parseNumber (numText false (b :: ip) fp ex) neg sep =
      .ok (normalize (.fin neg (rhe (dval 0 ((b :: ip) ++ fp)) (ndrop (dval 0 ((b :: ip) ++ fp))))
        (numTextExp fp ex + (ndrop (dval 0 ((b :: ip) ++ fp)) : Nat)))) := by
  obtain ⟨s, J, h1, h2, h3, h4, h5, h6, hcb, h7, _⟩ := parseNumber_scan neg sep b ip fp ex h
  obtain ⟨h7a, h7b⟩ := h7 hx
  have hexp := state_exp h5 h6 h7b
  generalize dval 0 ((b :: ip) ++ fp) = V at *
  rw [h1]
  by_cases hV : V ≤ MAXSIG
  · obtain ⟨rfl, hC, hSt⟩ := MI_small h3 hV
    rw [ndrop_zero hV, rhe_zero] at hhi ⊢
    simp only [hV, if_true] at hhi
    have := parseFinish_exact s neg h2 h7a hSt (by omega) (by rw [hexp]; simpa using hlo) (by rw [hexp]; simpa using hhi)
    rw [this, hexp, hC]
  · have hVb : MAXSIG < V := by omega
    have hCb := MI_big h3 hVb
    obtain ⟨tail, t1, t2, t3, _⟩ := h3
    obtain ⟨r1, r2⟩ := reduce_round neg s.c ((if s.eneg then -(s.exp : Int) else s.exp) - s.nfrac) s.sticky V J tail t1 t2 t3
      hCb (by rw [hexp]; omega)
    unfold parseFinish
    have hc0 : s.c ≠ 0 := by rw [MAXSIG_val] at hCb; omega
    simp only [h2, Bool.not_true, Bool.false_eq_true, if_false, hc0, h7a]
    rw [r2, hexp]
    have e1 : numTextExp fp ex + (J : Int) - (J : Int) = numTextExp fp ex := by omega
    rw [e1]
    have c1 : ¬ (numTextExp fp ex + (J : Int) > EMAX + 39) := by omega
    have c2 : ¬ (numTextExp fp ex + (J : Int) < EMIN - 39) := by omega
    have c3 : ¬ (numTextExp fp ex + ((ndrop V : Nat) : Int) + (if rhe V (ndrop V) ≤ MAXSIG then 0 else 1) > EMAX) := by omega
    simp only [c1, c2, c3, if_false]
    obtain ⟨c', e', hn⟩ := normalize_fin neg (rhe V (ndrop V)) (numTextExp fp ex + ((ndrop V : Nat) : Int))
    rw [hn]

/-- …and beyond `EMAX` it is a range error (for `V > MAXSIG`) -/
theorem parseNumber_overflow (neg sep : Bool) (b : Nat) (ip fp : Bytes) (ex : Option (Bool × Option Bool × Bytes))
    (h : WF b ip fp ex) (hx : exField ex ≤ 6189) (hlo : EMIN ≤ numTextExp fp ex)
    (hV : MAXSIG < dval 0 ((b :: ip) ++ fp))
    (hhi : EMAX < numTextExp fp ex + (ndrop (dval 0 ((b :: ip) ++ fp)) : Nat) +
      (if rhe (dval 0 ((b :: ip) ++ fp)) (ndrop (dval 0 ((b :: ip) ++ fp))) ≤ MAXSIG then 0 else 1)) :
    parseNumber (numText false (b :: ip) fp ex) neg sep = .range (.inf neg) := by
  obtain ⟨s, J, h1, h2, h3, h4, h5, h6, hcb, h7, _⟩ := parseNumber_scan neg sep b ip fp ex h
  obtain ⟨h7a, h7b⟩ := h7 hx
  have hexp := state_exp h5 h6 h7b
  generalize dval 0 ((b :: ip) ++ fp) = V at *
  rw [h1]
  have hCb := MI_big h3 hV
  obtain ⟨tail, t1, t2, t3, _⟩ := h3
  unfold parseFinish
  have hc0 : s.c ≠ 0 := by rw [MAXSIG_val] at hCb; omega
  simp only [h2, Bool.not_true, Bool.false_eq_true, if_false, hc0, h7a]
  rw [hexp]
  by_cases c1 : numTextExp fp ex + (J : Int) > EMAX + 39
  · simp only [c1, if_true]
  · have c2 : ¬ (numTextExp fp ex + (J : Int) < EMIN - 39) := by omega
    simp only [c1, c2, if_false]
    obtain ⟨r1, r2⟩ := reduce_round neg s.c (numTextExp fp ex + (J : Int)) s.sticky V J tail t1 t2 t3 hCb (by omega)
    rw [r2]
    have e1 : numTextExp fp ex + (J : Int) - (J : Int) = numTextExp fp ex := by omega
    rw [e1]
    have c3 : (numTextExp fp ex + ((ndrop V : Nat) : Int) + (if rhe V (ndrop V) ≤ MAXSIG then 0 else 1) > EMAX) := by omega
    simp only [c3, if_true]

/-- a zero digit string is zero whatever the exponent; a negative exponent beyond every digit is zero; an exponent
    field above 6189 is zero (negative) or a range error (positive) without looking at the digits -/
theorem parseNumber_zero (neg sep : Bool) (b : Nat) (ip fp : Bytes) (ex : Option (Bool × Option Bool × Bytes))
    (h : WF b ip fp ex)
    (hz : dval 0 ((b :: ip) ++ fp) = 0 ∨ (6189 < exField ex ∧ exNeg ex = true) ∨
      (exField ex ≤ 6189 ∧ numTextExp fp ex + (((b :: ip).length + fp.length : Nat) : Int) < EMIN - 39)) :
    parseNumber (numText false (b :: ip) fp ex) neg sep = .ok (.fin neg 0 0) := by
  obtain ⟨s, J, h1, h2, h3, h4, h5, h6, hcb, h7, h8⟩ := parseNumber_scan neg sep b ip fp ex h
  rw [h1]
  unfold parseFinish
  simp only [h2, Bool.not_true, Bool.false_eq_true, if_false]
  by_cases hc0 : s.c = 0
  · simp [hc0]
  · simp only [hc0, if_false]
    rcases hz with hz | ⟨hz1, hz2⟩ | ⟨hz1, hz2⟩
    · exact absurd ((MI_zero h3).mpr hz) hc0
    · simp [h8 hz1, h6, hz2]
    · obtain ⟨h7a, h7b⟩ := h7 hz1
      have hexp := state_exp h5 h6 h7b
      rw [hexp]
      have hE1 : EMIN = -6176 := rfl
      have hE2 : EMAX = 6111 := rfl
      have c1 : ¬ (numTextExp fp ex + (J : Int) > EMAX + 39) := by omega
      have c2 : (numTextExp fp ex + (J : Int) < EMIN - 39) := by omega
      simp only [h7a, Bool.false_eq_true, if_false, c1, c2, if_true]

theorem parseNumber_maxexp_range (neg sep : Bool) (b : Nat) (ip fp : Bytes) (ex : Option (Bool × Option Bool × Bytes))
    (h : WF b ip fp ex) (hv : dval 0 ((b :: ip) ++ fp) ≠ 0) (hx : 6189 < exField ex) (hn : exNeg ex = false) :
    parseNumber (numText false (b :: ip) fp ex) neg sep = .range (.inf neg) := by
  obtain ⟨s, J, h1, h2, h3, h4, h5, h6, hcb, h7, h8⟩ := parseNumber_scan neg sep b ip fp ex h
  rw [h1]
  unfold parseFinish
  have hc0 : s.c ≠ 0 := fun hc => hv ((MI_zero h3).mp hc)
  simp [h2, hc0, h8 hx, h6, hn]

/-- a non-zero digit string whose last digit already sits more than 39 places above `EMAX` is a range error -/
theorem parseNumber_far_overflow (neg sep : Bool) (b : Nat) (ip fp : Bytes) (ex : Option (Bool × Option Bool × Bytes))
    (h : WF b ip fp ex) (hv : dval 0 ((b :: ip) ++ fp) ≠ 0) (hx : exField ex ≤ 6189) (hhi : EMAX + 39 < numTextExp fp ex) :
    parseNumber (numText false (b :: ip) fp ex) neg sep = .range (.inf neg) := by
  obtain ⟨s, J, h1, h2, h3, h4, h5, h6, hcb, h7, h8⟩ := parseNumber_scan neg sep b ip fp ex h
  obtain ⟨h7a, h7b⟩ := h7 hx
  have hexp := state_exp h5 h6 h7b
  rw [h1]
  unfold parseFinish
  have hc0 : s.c ≠ 0 := fun hc => hv ((MI_zero h3).mp hc)
  have c1 : numTextExp fp ex + (J : Int) > EMAX + 39 := by omega
  simp only [h2, Bool.not_true, Bool.false_eq_true, if_false, hc0, h7a, hexp, c1, if_true]

/-- never a syntax error, never NaN -/
theorem parseNumber_total (neg sep : Bool) (b : Nat) (ip fp : Bytes) (ex : Option (Bool × Option Bool × Bytes))
    (h : WF b ip fp ex) :
    (∃ c e, parseNumber (numText false (b :: ip) fp ex) neg sep = .ok (.fin neg c e)) ∨
      parseNumber (numText false (b :: ip) fp ex) neg sep = .range (.inf neg) := by
  obtain ⟨s, J, h1, h2, _⟩ := parseNumber_scan neg sep b ip fp ex h
  rw [h1]
  exact parseFinish_fin_or_range s neg h2

/-! ## 5. Reading a number text: its components and its rational value -/

/-- a run of digits: `(value appended to acc, number of digits, rest)` -/
def readDigits : Nat → Bytes → Nat × Nat × Bytes
  | acc, [] => (acc, 0, [])
  | acc, b :: t =>
    if isDigit b then ((readDigits (acc * 10 + (b - 0x30)) t).1, (readDigits (acc * 10 + (b - 0x30)) t).2.1 + 1,
      (readDigits (acc * 10 + (b - 0x30)) t).2.2)
    else (acc, 0, b :: t)

/-- the components of a number text `[-] int [. frac] [(e|E) [+|-] digits]` -/
structure NumParts where
  neg : Bool       -- minus sign
  mant : Nat       -- the digit string `int ++ frac` as a number
  nfrac : Nat      -- number of fraction digits
  ndig : Nat       -- number of digits of `int ++ frac`
  eneg : Bool      -- minus sign of the exponent
  efield : Nat     -- the exponent digits as a number
  deriving DecidableEq, Repr

def stripMinus : Bytes → Bool × Bytes
  | [] => (false, [])
  | b :: r => if b = 0x2D then (true, r) else (false, b :: r)

/-- `. digits` (optional), continuing the mantissa `acc` -/
def readFrac (acc : Nat) : Bytes → Nat × Nat × Bytes
  | [] => (acc, 0, [])
  | b :: r => if b = 0x2E then readDigits acc r else (acc, 0, b :: r)

/-- `(e|E) [+|-] digits` (optional): sign and value of the exponent field -/
def readExp : Bytes → Bool × Nat
  | [] => (false, 0)
  | [_] => (false, 0)
  | _ :: s :: r =>
    if s = 0x2D then (true, (readDigits 0 r).1) else if s = 0x2B then (false, (readDigits 0 r).1)
    else (false, (readDigits 0 (s :: r)).1)

def numParts (t : Bytes) : NumParts :=
  let r1 := readDigits 0 (stripMinus t).2
  let r2 := readFrac r1.1 r1.2.2
  let ex := readExp r2.2.2
  ⟨(stripMinus t).1, r2.1, r2.2.1, r1.2.1 + r2.2.1, ex.1, ex.2⟩

/-- the number text as the pair `(m, e)`: it denotes `m · 10^e` -/
def ratRaw (t : Bytes) : Int × Int :=
  let p := numParts t
  (if p.neg then -(p.mant : Int) else (p.mant : Int), (if p.eneg then -(p.efield : Int) else (p.efield : Int)) - (p.nfrac : Int))

theorem readDigits_append : ∀ (ds : Bytes) (acc : Nat) (rest : Bytes), (∀ b ∈ ds, isDigit b = true) →
    (∀ b t, rest = b :: t → isDigit b = false) → readDigits acc (ds ++ rest) = (dval acc ds, ds.length, rest)
  | [], acc, rest, _, hr => by
    cases rest with
    | nil => rfl
    | cons b t => simp [readDigits, hr b t rfl, dval_nil]
  | d :: ds, acc, rest, hd, hr => by
    have hb : isDigit d = true := hd d (List.mem_cons_self ..)
    have ih := readDigits_append ds (acc * 10 + (d - 0x30)) rest (fun b' hb' => hd b' (List.mem_cons_of_mem _ hb')) hr
    simp only [List.cons_append, readDigits, hb, if_true, ih, dval_cons, List.length_cons]

theorem readDigits_all (ds : Bytes) (acc : Nat) (hd : ∀ b ∈ ds, isDigit b = true) :
    readDigits acc ds = (dval acc ds, ds.length, []) := by
  have := readDigits_append ds acc [] hd (by intro b t h; cases h)
  simpa using this

theorem readExp_expText (u : Bool) (sg : Option Bool) (x : Nat) (ep : Bytes) (hde : ∀ y ∈ x :: ep, isDigit y = true) :
    readExp (expText u sg (x :: ep)) = (sg == some true, dval 0 (x :: ep)) := by
  have hx := (isDigit_iff x).mp (hde x (List.mem_cons_self ..))
  rcases sg with _ | _ | _
  · have h1 : x ≠ 0x2D := by omega
    have h2 : x ≠ 0x2B := by omega
    simp [expText, readExp, h1, h2, readDigits_all _ _ hde]
  · simp [expText, readExp, readDigits_all _ _ hde]
  · simp [expText, readExp, readDigits_all _ _ hde]

theorem numParts_numText (neg : Bool) (b : Nat) (ip fp : Bytes) (ex : Option (Bool × Option Bool × Bytes))
    (h : WF b ip fp ex) :
    numParts (numText neg (b :: ip) fp ex) =
      ⟨neg, dval 0 ((b :: ip) ++ fp), fp.length, (b :: ip).length + fp.length, exNeg ex, exField ex⟩ := by
  obtain ⟨hd, hf, hx⟩ := h
  have hb := (isDigit_iff b).mp (hd b (List.mem_cons_self ..))
  have hsign : stripMinus (numText neg (b :: ip) fp ex) = (neg, numText false (b :: ip) fp ex) := by
    have hne : b ≠ 0x2D := by omega
    cases neg <;> simp [numText, stripMinus, hne]
  generalize hE : (match ex with | none => ([] : Bytes) | some (upper, sg, ep) => expText upper sg ep) = etext
  -- the exponent text does not start with a digit or a dot
  have hexhead : ∀ b' t, etext = b' :: t → isDigit b' = false ∧ b' ≠ 0x2E := by
    intro b' t he
    rw [← hE] at he
    rcases ex with _ | ⟨u, sg, ep⟩
    · cases he
    · simp only [expText, List.cons.injEq] at he
      cases u <;> simp at he <;> (obtain ⟨rfl, _⟩ := he; simp [isDigit])
  have hexval : readExp etext = (exNeg ex, exField ex) := by
    rw [← hE]
    rcases ex with _ | ⟨u, sg, ep⟩
    · rfl
    · obtain ⟨hne, hde⟩ := hx u sg ep rfl
      cases ep with
      | nil => exact absurd rfl hne
      | cons x ep =>
        simp only []
        rw [readExp_expText u sg x ep hde]
        rcases sg with _ | _ | _ <;> simp [exNeg, exField]
  have hfrac0 : ∀ acc, readFrac acc etext = (acc, 0, etext) := by
    intro acc
    cases etext with
    | nil => rfl
    | cons b' t => simp [readFrac, (hexhead b' t rfl).2]
  unfold numParts
  rw [hsign, numText_eq, hE]
  simp only [Bool.false_eq_true, if_false, List.nil_append]
  cases fp with
  | nil =>
    simp only [fracText, List.append_nil]
    rw [readDigits_append (b :: ip) 0 etext hd (fun b' t he => (hexhead b' t he).1)]
    simp only [hfrac0, hexval]
    simp
  | cons f fp =>
    simp only [fracText]
    rw [List.append_assoc, readDigits_append (b :: ip) 0 _ hd (by
      intro b' t he; simp at he; obtain ⟨rfl, _⟩ := he; simp [isDigit])]
    simp only [List.cons_append, readFrac, if_true]
    rw [show f :: (fp ++ etext) = (f :: fp) ++ etext from rfl,
      readDigits_append (f :: fp) _ etext hf (fun b' t he => (hexhead b' t he).1)]
    simp only [hexval]
    simp
    rw [show b :: (ip ++ f :: fp) = (b :: ip) ++ (f :: fp) from rfl, dval_append]

/-- every text of the JSON number grammar is `numText` of well-formed components -/
theorem jnumber_numText {t : Bytes} (h : Lexical.JNumber t) :
    ∃ neg b ip fp ex, t = numText neg (b :: ip) fp ex ∧ WF b ip fp ex := by
  obtain ⟨sg, i, f, e, rfl, hsg, hi, hf, he⟩ := h
  -- the integer part
  obtain ⟨b, ip, rfl, hdi⟩ : ∃ b ip, i = b :: ip ∧ ∀ x ∈ b :: ip, isDigit x = true := by
    rcases hi with rfl | ⟨d, ds, rfl, h1, h2, h3⟩
    · exact ⟨0x30, [], rfl, by decide⟩
    · refine ⟨d, ds, rfl, ?_⟩
      intro x hx
      rcases List.mem_cons.mp hx with rfl | hx
      · simp [isDigit]; omega
      · exact h3 x hx
  -- the fraction
  obtain ⟨fp, rfl, hdf⟩ : ∃ fp, f = fracText fp ∧ ∀ x ∈ fp, isDigit x = true := by
    rcases hf with rfl | ⟨ds, rfl, hne, hds⟩
    · exact ⟨[], rfl, by simp⟩
    · cases ds with
      | nil => exact absurd rfl hne
      | cons f fp => exact ⟨f :: fp, rfl, hds⟩
  -- the exponent
  obtain ⟨ex, rfl, hdx⟩ : ∃ ex, e = (match ex with | none => ([] : Bytes) | some (upper, sg, ep) => expText upper sg ep) ∧
      ∀ u sg ep, ex = some (u, sg, ep) → ep ≠ [] ∧ ∀ x ∈ ep, isDigit x = true := by
    rcases he with rfl | ⟨c, sg', ds, rfl, hc, hsg', hne, hds⟩
    · exact ⟨none, rfl, by simp⟩
    · refine ⟨some (decide (c = 0x45), (if sg' = [] then none else some (decide (sg' = [0x2D]))), ds), ?_, ?_⟩
      · rcases hc with rfl | rfl <;> rcases hsg' with rfl | rfl | rfl <;> simp [expText]
      · intro u s ep heq
        simp only [Option.some.injEq, Prod.mk.injEq] at heq
        obtain ⟨_, _, rfl⟩ := heq
        exact ⟨hne, hds⟩
  refine ⟨decide (sg = [0x2D]), b, ip, fp, ex, ?_, hdi, hdf, hdx⟩
  rw [numText_eq]
  rcases hsg with rfl | rfl <;> simp <;> (rcases ex with _ | ⟨u, s, ep⟩ <;> rfl)

/-! ## 6. From `Parse` to `==` -/

theorem cmp_normalize_iff (n1 : Bool) (c1 : Nat) (e1 : Int) (n2 : Bool) (c2 : Nat) (e2 : Int) :
    cmp (normalize (.fin n1 c1 e1)) (normalize (.fin n2 c2 e2)) = some 0 ↔ cmp (.fin n1 c1 e1) (.fin n2 c2 e2) = some 0 := by
  have h1 := cmp_normalize_self n1 c1 e1
  have h2 := cmp_normalize_self n2 c2 e2
  constructor
  · intro h
    exact cmp_zero_trans (cmp_zero_symm h1) (cmp_zero_trans h h2)
  · intro h
    exact cmp_zero_trans h1 (cmp_zero_trans h (cmp_zero_symm h2))

/-- rounding of the pair `(m, e)` to the format: the `ndrop |m|` low digits of `m` are rounded away half-even -/
def round34 (p : Int × Int) : Int × Int :=
  (if p.1 < 0 then -(rhe p.1.natAbs (ndrop p.1.natAbs) : Int) else (rhe p.1.natAbs (ndrop p.1.natAbs) : Int),
    p.2 + (ndrop p.1.natAbs : Nat))

theorem rhe_zero_left (k : Nat) : rhe 0 k = 0 := by
  have : 0 < 10 ^ k := Nat.pow_pos (by decide)
  simp [rhe]

theorem round34_signed (neg : Bool) (V : Nat) (E : Int) :
    round34 (if neg then -(V : Int) else (V : Int), E) = decRat (.fin neg (rhe V (ndrop V)) (E + (ndrop V : Nat))) := by
  by_cases hV : V = 0
  · subst hV
    cases neg <;> simp [round34, decRat, rhe_zero_left]
  · cases neg with
    | false =>
      have : ¬ ((V : Int) < 0) := by omega
      simp [round34, decRat, this]
    | true =>
      simp [round34, decRat, hV]

theorem round34_small {p : Int × Int} (h : p.1.natAbs ≤ MAXSIG) : round34 p = p := by
  obtain ⟨m, e⟩ := p
  simp only [round34, ndrop_zero h, rhe_zero]
  by_cases hm : m < 0 <;> simp [hm] <;> omega

theorem ratNorm_eq_zero_iff (p : Int × Int) : ratNorm p = (0, 0) ↔ p.1 = 0 := by
  have h0 : ratNorm (0, 0) = (0, 0) := by decide
  rw [← h0, ratNorm_eq_iff]
  simp only [RatEq, Int.zero_mul]
  have hp : (10 : Int) ^ (p.2 - min p.2 0).toNat ≠ 0 := Int.pow_ne_zero (by decide)
  constructor
  · intro h
    rcases Int.mul_eq_zero.mp h with h | h
    · exact h
    · exact absurd h hp
  · intro h; rw [h]; simp

theorem rhe_ndrop_eq_zero_iff (V : Nat) : rhe V (ndrop V) = 0 ↔ V = 0 := by
  constructor
  · intro h
    by_cases hV : V ≤ MAXSIG
    · rw [ndrop_zero hV, rhe_zero] at h; exact h
    · have h1 := (ndrop_spec V).2 (ndrop_pos (by omega))
      have h2 : V / 10 ^ ndrop V ≤ rhe V (ndrop V) := by unfold rhe; split <;> omega
      have h3 : V / 10 ^ (ndrop V - 1) / 10 = V / 10 ^ ndrop V := by
        have := ndrop_pos (show MAXSIG < V by omega)
        rw [Nat.div_div_eq_div_mul, ← Nat.pow_succ, show (ndrop V - 1).succ = ndrop V by omega]
      rw [MAXSIG_val] at h1
      omega
  · intro h; subst h; rw [ndrop_zero (by decide), rhe_zero]

theorem round34_fst_eq_zero_iff (p : Int × Int) : (round34 p).1 = 0 ↔ p.1 = 0 := by
  have := rhe_ndrop_eq_zero_iff p.1.natAbs
  simp only [round34]
  split <;> omega

/-! ## 7. Underflow never overflows: exponent bounds through `reduce` -/

theorem dropHigh_exp_le : ∀ (fuel c : Nat) (e : Int) (dg : Nat) (st : Bool), (dropHigh fuel c e dg st).2.1 ≤ e + fuel
  | 0, c, e, dg, st => by simp [dropHigh]
  | fuel + 1, c, e, dg, st => by
    unfold dropHigh
    split
    · have := dropHigh_exp_le fuel (c / 10) (e + 1) (c % 10) (st || dg != 0)
      omega
    · simp; omega

theorem dropLow_exp_le : ∀ (fuel c : Nat) (e : Int) (dg : Nat) (st : Bool), (dropLow fuel c e dg st).2.1 ≤ max e EMIN
  | 0, c, e, dg, st => by simp [dropLow]; omega
  | fuel + 1, c, e, dg, st => by
    unfold dropLow
    split
    · simp only []
      split
      · simp; omega
      · have := dropLow_exp_le fuel (c / 10) (e + 1) (c % 10) (st || dg != 0)
        omega
    · simp; omega

theorem scaleUp_exp_le : ∀ (fuel c : Nat) (e : Int), (scaleUp fuel c e).2 ≤ e
  | 0, c, e => by simp [scaleUp]
  | fuel + 1, c, e => by
    unfold scaleUp
    split
    · have := scaleUp_exp_le fuel (c * 10) (e - 1); omega
    · simp

theorem roundEven_exp_le : ∀ (fuel c : Nat) (e : Int) (dg : Nat) (st : Bool), (roundEven fuel c e dg st).2 ≤ e + fuel
  | 0, c, e, dg, st => by simp [roundEven]
  | fuel + 1, c, e, dg, st => by
    rw [roundEven_succ]
    split
    · split
      · have := roundEven_exp_le fuel (c / 10) (e + 1) (c % 10) (st || dg != 0); omega
      · simp; omega
    · simp; omega

/-- the coefficient/exponent pair `reduce` computes before its overflow test -/
def reducePair (c : Nat) (e : Int) (st : Bool) : Nat × Int :=
  let r1 := dropHigh (Nat.log2 (c + 1) + 2) c e 0 st
  let r2 := dropLow (min ((EMIN - r1.2.1).toNat + 1) 60) r1.1 r1.2.1 r1.2.2.1 r1.2.2.2
  let r2' : Nat × Int × Nat × Bool := if r2.2.1 < EMIN then (0, EMIN, 0, true) else r2
  let r3 := scaleUp 40 r2'.1 r2'.2.1
  roundEven 3 r3.1 r3.2 r2'.2.2.1 r2'.2.2.2

theorem reduce_eq_pair (neg : Bool) (c : Nat) (e : Int) (st : Bool) :
    reduce neg c e st = if c = 0 ∧ ¬ st = true then .fin neg 0 0 else
      if (reducePair c e st).2 > EMAX then .inf neg else normalize (.fin neg (reducePair c e st).1 (reducePair c e st).2) := by
  unfold reduce reducePair
  rfl

theorem reducePair_exp_le (c : Nat) (e : Int) (st : Bool) :
    (reducePair c e st).2 ≤ max (e + ((Nat.log2 (c + 1) + 2 : Nat) : Int)) EMIN + 3 := by
  unfold reducePair
  simp only []
  refine Int.le_trans (roundEven_exp_le ..) ?_
  have h1 := dropHigh_exp_le (Nat.log2 (c + 1) + 2) c e 0 st
  generalize dropHigh (Nat.log2 (c + 1) + 2) c e 0 st = r1 at *
  have h2 := dropLow_exp_le (min ((EMIN - r1.2.1).toNat + 1) 60) r1.1 r1.2.1 r1.2.2.1 r1.2.2.2
  generalize dropLow (min ((EMIN - r1.2.1).toNat + 1) 60) r1.1 r1.2.1 r1.2.2.1 r1.2.2.2 = r2 at *
  split
  · have := scaleUp_exp_le 40 0 EMIN
    dsimp only
    omega
  · have := scaleUp_exp_le 40 r2.1 r2.2.1
    omega

/-- `reduce` can only return ±Inf when the exponent it is given, raised by the digits it may drop, passes `EMAX` -/
theorem reduce_inf_bound (neg : Bool) (c : Nat) (e : Int) (st : Bool) (h : reduce neg c e st = .inf neg) :
    EMAX < max (e + ((Nat.log2 (c + 1) + 2 : Nat) : Int)) EMIN + 3 := by
  have hb := reducePair_exp_le c e st
  rw [reduce_eq_pair] at h
  split at h
  · cases h
  · split at h
    · omega
    · obtain ⟨c', e', hn⟩ := normalize_fin neg (reducePair c e st).1 (reducePair c e st).2
      rw [hn] at h; cases h

/-- **anything of moderate size is a number**: a text of the number grammar whose value is below `10^5900`
    (exponent of the last digit plus number of digits at most 5900), with an exponent field `≤ 6189` or negative,
    is read as a finite decimal — exactly, rounded, as a subnormal or as zero, but never as a range error -/
theorem parseNumber_moderate (neg sep : Bool) (b : Nat) (ip fp : Bytes) (ex : Option (Bool × Option Bool × Bytes))
    (h : WF b ip fp ex) (hx : exField ex ≤ 6189 ∨ exNeg ex = true)
    (hhi : numTextExp fp ex + (((b :: ip).length + fp.length : Nat) : Int) ≤ 5900) :
    ∃ c e, parseNumber (numText false (b :: ip) fp ex) neg sep = .ok (.fin neg c e) := by
  obtain ⟨s, J, h1, h2, h3, h4, h5, h6, hcb, h7, h8⟩ := parseNumber_scan neg sep b ip fp ex h
  rcases parseFinish_fin_or_range s neg h2 with hok | hr
  · rw [h1]; exact hok
  · exfalso
    unfold parseFinish at hr
    simp only [h2, Bool.not_true, Bool.false_eq_true, if_false] at hr
    by_cases hc : s.c = 0
    · simp [hc] at hr
    · simp only [hc, if_false] at hr
      by_cases hm : s.maxexp = true
      · have hgt : 6189 < exField ex := by
          by_cases hle : exField ex ≤ 6189
          · have := (h7 hle).1; rw [this] at hm; cases hm
          · omega
        have hn : exNeg ex = true := by
          rcases hx with hx | hx
          · omega
          · exact hx
        simp [hm, h6, hn] at hr
      · have hle : exField ex ≤ 6189 := by
          by_cases hle : exField ex ≤ 6189
          · exact hle
          · exact absurd (h8 (by omega)) hm
        have hexp := state_exp h5 h6 (h7 hle).2
        simp only [hm, Bool.false_eq_true, if_false, hexp] at hr
        have hE2 : EMAX = 6111 := rfl
        have hE1 : EMIN = -6176 := rfl
        have c1 : ¬ (numTextExp fp ex + (J : Int) > EMAX + 39) := by omega
        simp only [c1, if_false] at hr
        split at hr
        · cases hr
        · rcases reduce_fin_or_inf neg s.c (numTextExp fp ex + (J : Int)) s.sticky with ⟨c', e', hf⟩ | hi
          · rw [hf] at hr; cases hr
          · have hb := reduce_inf_bound neg s.c _ s.sticky hi
            have hlog : Nat.log2 (s.c + 1) < 129 := by
              rw [Nat.log2_lt (by omega)]
              have : PFULL * 10 + 9 + 1 < 2 ^ 129 := by decide
              omega
            omega

/-! ## 8. Exponents above `EMAX` with room left in the coefficient -/

theorem scaleUp_fits : ∀ (fuel d c : Nat) (e : Int), c ≠ 0 → e = EMAX + (d : Nat) → d ≤ fuel → c * 10 ^ d ≤ MAXSIG →
    scaleUp fuel c e = (c * 10 ^ d, EMAX)
  | fuel, 0, c, e, _, he, _, _ => by
    have : ¬ (e > EMAX) := by omega
    cases fuel with
    | zero => simp [scaleUp]; omega
    | succ fuel => unfold scaleUp; simp [this]; omega
  | 0, d + 1, c, e, _, _, hf, _ => by omega
  | fuel + 1, d + 1, c, e, hc, he, hf, hm => by
    have hp : 0 < 10 ^ d := Nat.pow_pos (by decide)
    have e1 : c * 10 ^ (d + 1) = c * 10 * 10 ^ d := by rw [Nat.pow_succ]; grind
    have h10 : c * 10 ≤ MAXSIG := by
      have : c * 10 ≤ c * 10 * 10 ^ d := Nat.le_mul_of_pos_right _ hp
      omega
    unfold scaleUp
    have hgt : e > EMAX := by omega
    simp only [hgt, h10, hc, ne_eq, not_false_eq_true, and_self, if_true]
    rw [scaleUp_fits fuel d (c * 10) (e - 1) (by omega) (by omega) (by omega) (by omega), e1]

theorem scaleUp_over : ∀ (fuel d c : Nat) (e : Int), c ≤ MAXSIG → e = EMAX + (d : Nat) → MAXSIG < c * 10 ^ d →
    EMAX < (scaleUp fuel c e).2
  | 0, d, c, e, hc, he, hm => by
    have : d ≠ 0 := by intro h; subst h; simp at hm; omega
    simp [scaleUp]; omega
  | fuel + 1, d, c, e, hc, he, hm => by
    have hd : d ≠ 0 := by intro h; subst h; simp at hm; omega
    unfold scaleUp
    split
    · next hcond =>
      obtain ⟨d', rfl⟩ : ∃ d', d = d' + 1 := ⟨d - 1, by omega⟩
      have e1 : c * 10 ^ (d' + 1) = c * 10 * 10 ^ d' := by rw [Nat.pow_succ]; grind
      exact scaleUp_over fuel d' (c * 10) (e - 1) hcond.2.1 (by omega) (by omega)
    · simp; omega

/-- `reduce` on a coefficient that fits, at an exponent above `EMAX`: zeros are appended while there is room -/
theorem reduce_high (neg : Bool) (c : Nat) (e : Int) (hc0 : c ≠ 0) (hc : c ≤ MAXSIG) (he : EMAX < e) (he' : e ≤ EMAX + 39) :
    reduce neg c e false =
      if c * 10 ^ (e - EMAX).toNat ≤ MAXSIG then normalize (.fin neg c e) else .inf neg := by
  have hE1 : EMIN = -6176 := rfl
  have hE2 : EMAX = 6111 := rfl
  unfold reduce
  simp only [hc0, false_and, if_false]
  rw [dropHigh_id _ _ _ _ _ hc]
  simp only []
  rw [dropLow_id _ _ _ _ _ (by omega)]
  simp only []
  have h1 : ¬ (e < EMIN) := by omega
  simp only [h1, if_false]
  by_cases hfit : c * 10 ^ (e - EMAX).toNat ≤ MAXSIG
  · rw [scaleUp_fits 40 (e - EMAX).toNat c e hc0 (by omega) (by omega) hfit]
    simp only []
    rw [roundEven_id]
    simp only [hfit, if_true]
    have h2 : ¬ (EMAX > EMAX) := by omega
    simp only [h2, if_false]
    rw [normalize_shift]
    congr 2; omega
  · have := scaleUp_over 40 (e - EMAX).toNat c e hc (by omega) (by omega)
    generalize scaleUp 40 c e = r at *
    rw [roundEven_id]
    simp only [hfit, if_false, this, if_true]

/-- number texts with a digit string `≤ MAXSIG` whose last digit sits above `EMAX`: still exact when the zeros fit -/
theorem parseNumber_high (neg sep : Bool) (b : Nat) (ip fp : Bytes) (ex : Option (Bool × Option Bool × Bytes))
    (h : WF b ip fp ex) (hx : exField ex ≤ 6189) (hV : dval 0 ((b :: ip) ++ fp) ≤ MAXSIG)
    (hv0 : dval 0 ((b :: ip) ++ fp) ≠ 0) (hE : EMAX < numTextExp fp ex) :
    parseNumber (numText false (b :: ip) fp ex) neg sep =
      if dval 0 ((b :: ip) ++ fp) * 10 ^ (numTextExp fp ex - EMAX).toNat ≤ MAXSIG then
        .ok (normalize (.fin neg (dval 0 ((b :: ip) ++ fp)) (numTextExp fp ex)))
      else .range (.inf neg) := by
  obtain ⟨s, J, h1, h2, h3, h4, h5, h6, hcb, h7, _⟩ := parseNumber_scan neg sep b ip fp ex h
  obtain ⟨h7a, h7b⟩ := h7 hx
  have hexp := state_exp h5 h6 h7b
  generalize dval 0 ((b :: ip) ++ fp) = V at *
  obtain ⟨rfl, hC, hSt⟩ := MI_small h3 hV
  rw [h1]
  unfold parseFinish
  simp only [h2, Bool.not_true, Bool.false_eq_true, if_false, hC, hv0, h7a, hexp, hSt]
  simp only [Int.natCast_zero, Int.add_zero]
  have hE1 : EMIN = -6176 := rfl
  have hE2 : EMAX = 6111 := rfl
  by_cases c1 : numTextExp fp ex > EMAX + 39
  · simp only [c1, if_true]
    have : ¬ (V * 10 ^ (numTextExp fp ex - EMAX).toNat ≤ MAXSIG) := by
      intro hle
      have h40 : 10 ^ 40 ≤ 10 ^ (numTextExp fp ex - EMAX).toNat := Nat.pow_le_pow_right (by decide) (by omega)
      have : 10 ^ (numTextExp fp ex - EMAX).toNat ≤ V * 10 ^ (numTextExp fp ex - EMAX).toNat :=
        Nat.le_mul_of_pos_left _ (by omega)
      have : ¬ (10 ^ 40 ≤ MAXSIG) := by decide
      omega
    simp only [this, if_false]
  · have c2 : ¬ (numTextExp fp ex < EMIN - 39) := by omega
    simp only [c1, c2, if_false]
    rw [reduce_high neg V _ hv0 hV hE (by omega)]
    by_cases hfit : V * 10 ^ (numTextExp fp ex - EMAX).toNat ≤ MAXSIG
    · simp only [hfit, if_true]
      obtain ⟨c', e', hn⟩ := normalize_fin neg V (numTextExp fp ex)
      rw [hn]
    · simp only [hfit, if_false]

end Jmes.C20B
