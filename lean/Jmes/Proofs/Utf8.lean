/-
  Helper lemmas on the UTF-8 codec of `Jmes.Basic.Bytes` and the rune-walking helpers of the model
  (`dropRunes`, `runesLen`, `dropLastRunes`, `walkFwd`, `walkBwd`, `reverseRunes`, `runePieces`).
  Specification side: a string is a list of code points `cs` (all scalar values), its bytes `encodeAll cs`.
-/
import Jmes.Model.Functions
namespace Jmes.Utf8
open Jmes

/-- all code points of the list are Unicode scalar values -/
def Scalars (cs : List Nat) : Prop := ∀ c ∈ cs, isScalar c = true

theorem Scalars.nil : Scalars [] := by intro c h; cases h
theorem Scalars.cons {c cs} (hc : isScalar c = true) (h : Scalars cs) : Scalars (c :: cs) := by
  intro x hx; cases hx with
  | head => exact hc
  | tail _ hx => exact h x hx
theorem Scalars.head {c cs} (h : Scalars (c :: cs)) : isScalar c = true := h c (List.mem_cons_self)
theorem Scalars.tail {c cs} (h : Scalars (c :: cs)) : Scalars cs := fun x hx => h x (List.mem_cons_of_mem _ hx)
theorem Scalars.append {as bs} (ha : Scalars as) (hb : Scalars bs) : Scalars (as ++ bs) := by
  intro x hx; rcases List.mem_append.1 hx with h | h
  · exact ha x h
  · exact hb x h
theorem Scalars.left {as bs} (h : Scalars (as ++ bs)) : Scalars as :=
  fun x hx => h x (List.mem_append_left _ hx)
theorem Scalars.right {as bs} (h : Scalars (as ++ bs)) : Scalars bs :=
  fun x hx => h x (List.mem_append_right _ hx)
theorem Scalars.reverse {cs} (h : Scalars cs) : Scalars cs.reverse :=
  fun x hx => h x (List.mem_reverse.1 hx)
theorem Scalars.drop {cs} (h : Scalars cs) (k : Nat) : Scalars (cs.drop k) :=
  fun x hx => h x (List.mem_of_mem_drop hx)
theorem Scalars.take {cs} (h : Scalars cs) (k : Nat) : Scalars (cs.take k) :=
  fun x hx => h x (List.mem_of_mem_take hx)
theorem Scalars.replicate {p} (hp : isScalar p = true) (n : Nat) : Scalars (List.replicate n p) := by
  intro x hx; rw [(List.mem_replicate.1 hx).2]; exact hp

theorem isScalar_iff (c : Nat) : isScalar c = true ↔ (c < 0xD800 ∨ (0xDFFF < c ∧ c ≤ 0x10FFFF)) := by
  unfold isScalar MaxRune; simp

theorem isScalar_runeError : isScalar RuneError = true := by decide

/-! ### the codec, one rune -/

theorem encodeRune_length_pos (c : Nat) : 1 ≤ (encodeRune c).length := by
  unfold encodeRune; split
  · simp
  · split
    · simp
    · split
      · simp
      · split <;> simp

theorem encodeRune_ne_nil (c : Nat) : encodeRune c ≠ [] := by
  intro h; have := encodeRune_length_pos c; rw [h] at this; simp at this

theorem encodeRune_length_le (c : Nat) : (encodeRune c).length ≤ 4 := by
  unfold encodeRune; split
  · simp
  · split
    · simp
    · split
      · simp
      · split <;> simp

/-- the four shapes of an encoding -/
theorem encodeRune_cases (c : Nat) (h : isScalar c = true) :
    (c < 0x80 ∧ encodeRune c = [c]) ∨
    (0x80 ≤ c ∧ c < 0x800 ∧ encodeRune c = [0xC0 + c / 64, 0x80 + c % 64]) ∨
    (0x800 ≤ c ∧ c < 0x10000 ∧ encodeRune c = [0xE0 + c / 4096, 0x80 + (c / 64) % 64, 0x80 + c % 64]) ∨
    (0x10000 ≤ c ∧ c ≤ 0x10FFFF ∧
      encodeRune c = [0xF0 + c / 262144, 0x80 + (c / 4096) % 64, 0x80 + (c / 64) % 64, 0x80 + c % 64]) := by
  have hs := (isScalar_iff c).1 h
  unfold encodeRune
  by_cases h1 : c < 0x80
  · left; simp [h1]
  · by_cases h2 : c < 0x800
    · right; left; simp [h1, h2]; omega
    · by_cases h3 : c < 0x10000
      · right; right; left; simp [h1, h2, h3, h]; omega
      · right; right; right; simp [h1, h2, h3, h]; omega

theorem decodeRune_encodeRune (c : Nat) (h : isScalar c = true) (rest : Bytes) :
    decodeRune (encodeRune c ++ rest) = (c, (encodeRune c).length) := by
  have hs := (isScalar_iff c).1 h
  rcases encodeRune_cases c h with ⟨h1, he⟩ | ⟨h1, h2, he⟩ | ⟨h1, h2, he⟩ | ⟨h1, h2, he⟩
  · rw [he]; simp [decodeRune, h1]
  · rw [he]
    have a1 : ¬ (0xC0 + c / 64 < 0x80) := by omega
    have a2 : 0xC2 ≤ 0xC0 + c / 64 ∧ 0xC0 + c / 64 ≤ 0xDF := by omega
    have a3 : isCont (0x80 + c % 64) = true := by simp [isCont]; omega
    have a4 : (0xC0 + c / 64 - 0xC0) * 64 + (0x80 + c % 64 - 0x80) = c := by omega
    simp only [List.cons_append, List.nil_append, decodeRune, a1, a2, a3, a4, if_true, if_false,
      and_self, List.length_cons, List.length_nil]
  · rw [he]
    have a1 : ¬ (0xE0 + c / 4096 < 0x80) := by omega
    have a2 : ¬ (0xC2 ≤ 0xE0 + c / 4096 ∧ 0xE0 + c / 4096 ≤ 0xDF) := by omega
    have a3 : 0xE0 ≤ 0xE0 + c / 4096 ∧ 0xE0 + c / 4096 ≤ 0xEF := by omega
    have a4 : isCont (0x80 + c % 64) = true := by simp [isCont]; omega
    have a5 : (if 0xE0 + c / 4096 = 0xE0 then 0xA0 else 0x80) ≤ 0x80 + c / 64 % 64 := by
      split <;> omega
    have a6 : 0x80 + c / 64 % 64 ≤ (if 0xE0 + c / 4096 = 0xED then 0x9F else 0xBF) := by
      split <;> omega
    have a7 : (0xE0 + c / 4096 - 0xE0) * 4096 + (0x80 + c / 64 % 64 - 0x80) * 64 + (0x80 + c % 64 - 0x80) = c := by
      omega
    simp only [List.cons_append, List.nil_append, decodeRune, a1, a2, a3, a4, a5, a6, a7, if_true, if_false,
      and_self, List.length_cons, List.length_nil]
  · rw [he]
    have a1 : ¬ (0xF0 + c / 262144 < 0x80) := by omega
    have a2 : ¬ (0xC2 ≤ 0xF0 + c / 262144 ∧ 0xF0 + c / 262144 ≤ 0xDF) := by omega
    have a3 : ¬ (0xE0 ≤ 0xF0 + c / 262144 ∧ 0xF0 + c / 262144 ≤ 0xEF) := by omega
    have a3' : 0xF0 ≤ 0xF0 + c / 262144 ∧ 0xF0 + c / 262144 ≤ 0xF4 := by omega
    have a4 : isCont (0x80 + c % 64) = true := by simp [isCont]; omega
    have a4' : isCont (0x80 + c / 64 % 64) = true := by simp [isCont]; omega
    have a5 : (if 0xF0 + c / 262144 = 0xF0 then 0x90 else 0x80) ≤ 0x80 + c / 4096 % 64 := by
      split <;> omega
    have a6 : 0x80 + c / 4096 % 64 ≤ (if 0xF0 + c / 262144 = 0xF4 then 0x8F else 0xBF) := by
      split <;> omega
    have a7 : (0xF0 + c / 262144 - 0xF0) * 262144 + (0x80 + c / 4096 % 64 - 0x80) * 4096
        + (0x80 + c / 64 % 64 - 0x80) * 64 + (0x80 + c % 64 - 0x80) = c := by
      omega
    simp only [List.cons_append, List.nil_append, decodeRune, a1, a2, a3, a3', a4, a4', a5, a6, a7, if_true,
      if_false, and_self, List.length_cons, List.length_nil]


theorem isCont_iff (b : Nat) : isCont b = true ↔ (0x80 ≤ b ∧ b ≤ 0xBF) := by
  unfold isCont; simp

/-- a successful decoding step yields a scalar value whose encoding is exactly the bytes consumed -/
theorem decodeRune_valid (s : Bytes) (hne : s ≠ [])
    (h : ¬ ((decodeRune s).1 = RuneError ∧ (decodeRune s).2 = 1)) :
    isScalar (decodeRune s).1 = true ∧ s = encodeRune (decodeRune s).1 ++ s.drop (decodeRune s).2
      ∧ (decodeRune s).2 = (encodeRune (decodeRune s).1).length := by
  match s, hne with
  | b0 :: rest, _ =>
  by_cases c1 : b0 < 0x80
  · have e : decodeRune (b0 :: rest) = (b0, 1) := by simp [decodeRune, c1]
    rw [e]; simp [encodeRune, c1, isScalar_iff]; omega
  · by_cases c2 : 0xC2 ≤ b0 ∧ b0 ≤ 0xDF
    · match rest with
      | [] => exfalso; apply h; simp [decodeRune, c1, c2]
      | b1 :: r =>
        by_cases k : isCont b1 = true
        · have e : decodeRune (b0 :: b1 :: r) = ((b0 - 0xC0) * 64 + (b1 - 0x80), 2) := by
            simp [decodeRune, c1, c2, k]
          rw [e]
          have k' := (isCont_iff b1).1 k
          generalize hx : (b0 - 0xC0) * 64 + (b1 - 0x80) = x
          have hs : isScalar x = true := (isScalar_iff _).2 (by omega)
          refine ⟨hs, ?_⟩
          rcases encodeRune_cases x hs with ⟨h1, he⟩ | ⟨h1, h2, he⟩ | ⟨h1, h2, he⟩ | ⟨h1, h2, he⟩
          · omega
          · rw [he]; simp; omega
          · omega
          · omega
        · exfalso; apply h; simp [decodeRune, c1, c2, k]
    · by_cases c3 : 0xE0 ≤ b0 ∧ b0 ≤ 0xEF
      · match rest with
        | [] => exfalso; apply h; simp [decodeRune, c1, c2, c3]
        | [_] => exfalso; apply h; simp [decodeRune, c1, c2, c3]
        | b1 :: b2 :: r =>
          by_cases k : (if b0 = 0xE0 then 0xA0 else 0x80) ≤ b1 ∧ b1 ≤ (if b0 = 0xED then 0x9F else 0xBF)
              ∧ isCont b2 = true
          · have e : decodeRune (b0 :: b1 :: b2 :: r)
                = ((b0 - 0xE0) * 4096 + (b1 - 0x80) * 64 + (b2 - 0x80), 3) := by
              simp [decodeRune, c1, c2, c3, k]
            rw [e]
            obtain ⟨k1, k2, k3⟩ := k
            have k3' := (isCont_iff b2).1 k3
            have k1' : 0x80 ≤ b1 ∧ (b0 = 0xE0 → 0xA0 ≤ b1) := by split at k1 <;> omega
            have k2' : b1 ≤ 0xBF ∧ (b0 = 0xED → b1 ≤ 0x9F) := by split at k2 <;> omega
            generalize hx : (b0 - 0xE0) * 4096 + (b1 - 0x80) * 64 + (b2 - 0x80) = x
            have hs : isScalar x = true := (isScalar_iff _).2 (by omega)
            refine ⟨hs, ?_⟩
            rcases encodeRune_cases x hs with ⟨h1, he⟩ | ⟨h1, h2, he⟩ | ⟨h1, h2, he⟩ | ⟨h1, h2, he⟩
            · omega
            · omega
            · rw [he]; simp; omega
            · omega
          · exfalso; apply h; simp [decodeRune, c1, c2, c3, k]
      · by_cases c4 : 0xF0 ≤ b0 ∧ b0 ≤ 0xF4
        · match rest with
          | [] => exfalso; apply h; simp [decodeRune, c1, c2, c3, c4]
          | [_] => exfalso; apply h; simp [decodeRune, c1, c2, c3, c4]
          | [_, _] => exfalso; apply h; simp [decodeRune, c1, c2, c3, c4]
          | b1 :: b2 :: b3 :: r =>
            by_cases k : (if b0 = 0xF0 then 0x90 else 0x80) ≤ b1 ∧ b1 ≤ (if b0 = 0xF4 then 0x8F else 0xBF)
                ∧ isCont b2 = true ∧ isCont b3 = true
            · have e : decodeRune (b0 :: b1 :: b2 :: b3 :: r)
                  = ((b0 - 0xF0) * 262144 + (b1 - 0x80) * 4096 + (b2 - 0x80) * 64 + (b3 - 0x80), 4) := by
                simp [decodeRune, c1, c2, c3, c4, k]
              rw [e]
              obtain ⟨k1, k2, k3, k4⟩ := k
              have k3' := (isCont_iff b2).1 k3
              have k4' := (isCont_iff b3).1 k4
              have k1' : 0x80 ≤ b1 ∧ (b0 = 0xF0 → 0x90 ≤ b1) := by split at k1 <;> omega
              have k2' : b1 ≤ 0xBF ∧ (b0 = 0xF4 → b1 ≤ 0x8F) := by split at k2 <;> omega
              generalize hx : (b0 - 0xF0) * 262144 + (b1 - 0x80) * 4096 + (b2 - 0x80) * 64 + (b3 - 0x80) = x
              have hs : isScalar x = true := (isScalar_iff _).2 (by omega)
              refine ⟨hs, ?_⟩
              rcases encodeRune_cases x hs with ⟨h1, he⟩ | ⟨h1, h2, he⟩ | ⟨h1, h2, he⟩ | ⟨h1, h2, he⟩
              · omega
              · omega
              · omega
              · rw [he]; simp; omega
            · exfalso; apply h; simp [decodeRune, c1, c2, c3, c4, k]
        · exfalso; apply h; simp [decodeRune, c1, c2, c3, c4]

/-! ### whole strings -/

theorem encodeAll_nil : encodeAll [] = [] := rfl
theorem encodeAll_cons (c : Nat) (cs : List Nat) : encodeAll (c :: cs) = encodeRune c ++ encodeAll cs := by
  simp [encodeAll]
theorem encodeAll_append (as bs : List Nat) : encodeAll (as ++ bs) = encodeAll as ++ encodeAll bs := by
  simp [encodeAll]
theorem encodeAll_singleton (c : Nat) : encodeAll [c] = encodeRune c := by simp [encodeAll]

theorem encodeAll_eq_nil (cs : List Nat) : encodeAll cs = [] ↔ cs = [] := by
  cases cs with
  | nil => simp [encodeAll]
  | cons c cs =>
    rw [encodeAll_cons]; simp [encodeRune_ne_nil]

theorem length_le_encodeAll (cs : List Nat) : cs.length ≤ (encodeAll cs).length := by
  induction cs with
  | nil => simp [encodeAll]
  | cons c cs ih =>
    rw [encodeAll_cons]; have := encodeRune_length_pos c
    simp only [List.length_cons, List.length_append]; omega

theorem decodeRune_cons (c : Nat) (cs : List Nat) (h : isScalar c = true) :
    decodeRune (encodeAll (c :: cs)) = (c, (encodeRune c).length) := by
  rw [encodeAll_cons]; exact decodeRune_encodeRune c h _

theorem drop_cons (c : Nat) (cs : List Nat) :
    (encodeAll (c :: cs)).drop (encodeRune c).length = encodeAll cs := by
  rw [encodeAll_cons]; exact List.drop_left

theorem take_cons (c : Nat) (cs : List Nat) :
    (encodeAll (c :: cs)).take (encodeRune c).length = encodeRune c := by
  rw [encodeAll_cons]; exact List.take_left

theorem encodeAll_cons_ne_nil (c : Nat) (cs : List Nat) : encodeAll (c :: cs) ≠ [] := by
  rw [encodeAll_cons]; simp [encodeRune_ne_nil]

theorem decodeAllAux_succ (fuel : Nat) (s : Bytes) (h : s ≠ []) :
    decodeAllAux (fuel + 1) s = (decodeRune s).1 :: decodeAllAux fuel (s.drop (decodeRune s).2) := by
  cases s with
  | nil => exact absurd rfl h
  | cons b bs => rfl

theorem decodeAllAux_nil (fuel : Nat) : decodeAllAux fuel [] = [] := by cases fuel <;> rfl

theorem decodeAllAux_encodeAll (cs : List Nat) (h : Scalars cs) :
    ∀ fuel, (encodeAll cs).length ≤ fuel → decodeAllAux fuel (encodeAll cs) = cs := by
  induction cs with
  | nil => intro fuel _; exact decodeAllAux_nil fuel
  | cons c cs ih =>
    intro fuel hf
    have hl : (encodeAll (c :: cs)).length = (encodeRune c).length + (encodeAll cs).length := by
      rw [encodeAll_cons, List.length_append]
    have := encodeRune_length_pos c
    match fuel, hf with
    | 0, hf => exfalso; omega
    | f + 1, hf =>
      rw [decodeAllAux_succ _ _ (encodeAll_cons_ne_nil c cs), decodeRune_cons c cs h.head]
      simp only [drop_cons]
      rw [ih h.tail f (by omega)]

theorem decodeAll_encodeAll (cs : List Nat) (h : Scalars cs) : decodeAll (encodeAll cs) = cs :=
  decodeAllAux_encodeAll cs h _ (Nat.le_refl _)

theorem runeCount_encodeAll (cs : List Nat) (h : Scalars cs) : runeCount (encodeAll cs) = cs.length := by
  unfold runeCount; rw [decodeAll_encodeAll cs h]

theorem validAux_succ (fuel : Nat) (s : Bytes) (h : s ≠ []) :
    validAux (fuel + 1) s =
      (if (decodeRune s).1 = RuneError ∧ (decodeRune s).2 = 1 then false
       else validAux fuel (s.drop (decodeRune s).2)) := by
  cases s with
  | nil => exact absurd rfl h
  | cons b bs => rfl

theorem validAux_nil (fuel : Nat) : validAux fuel [] = true := by cases fuel <;> rfl

theorem validAux_encodeAll (cs : List Nat) (h : Scalars cs) :
    ∀ fuel, (encodeAll cs).length ≤ fuel → validAux fuel (encodeAll cs) = true := by
  induction cs with
  | nil => intro fuel _; exact validAux_nil fuel
  | cons c cs ih =>
    intro fuel hf
    have hl : (encodeAll (c :: cs)).length = (encodeRune c).length + (encodeAll cs).length := by
      rw [encodeAll_cons, List.length_append]
    have := encodeRune_length_pos c
    match fuel, hf with
    | 0, hf => exfalso; omega
    | f + 1, hf =>
      rw [validAux_succ _ _ (encodeAll_cons_ne_nil c cs), decodeRune_cons c cs h.head]
      simp only [drop_cons]
      rw [ih h.tail f (by omega)]
      have hne : ¬ (c = RuneError ∧ (encodeRune c).length = 1) := by
        intro ⟨h1, h2⟩; subst h1; revert h2; decide
      simp [hne]

theorem validUTF8_encodeAll (cs : List Nat) (h : Scalars cs) : validUTF8 (encodeAll cs) = true :=
  validAux_encodeAll cs h _ (Nat.le_refl _)

theorem validAux_decode (fuel : Nat) : ∀ s : Bytes, validAux fuel s = true →
    Scalars (decodeAllAux fuel s) ∧ s = encodeAll (decodeAllAux fuel s) := by
  induction fuel with
  | zero =>
    intro s h
    cases s with
    | nil => exact ⟨Scalars.nil, rfl⟩
    | cons b bs => simp [validAux] at h
  | succ f ih =>
    intro s h
    by_cases hne : s = []
    · subst hne; exact ⟨Scalars.nil, rfl⟩
    · rw [validAux_succ f s hne] at h
      by_cases he : (decodeRune s).1 = RuneError ∧ (decodeRune s).2 = 1
      · rw [if_pos he] at h; cases h
      · rw [if_neg he] at h
        obtain ⟨h1, h2, _⟩ := decodeRune_valid s hne he
        obtain ⟨i1, i2⟩ := ih _ h
        rw [decodeAllAux_succ f s hne]
        refine ⟨Scalars.cons h1 i1, ?_⟩
        rw [encodeAll_cons, ← i2]; exact h2

/-- every valid UTF-8 string is the encoding of its code points, all scalar values -/
theorem validUTF8_decode (bs : Bytes) (h : validUTF8 bs = true) :
    Scalars (decodeAll bs) ∧ bs = encodeAll (decodeAll bs) := validAux_decode _ bs h

theorem validUTF8_iff (bs : Bytes) : validUTF8 bs = true ↔ ∃ cs, Scalars cs ∧ bs = encodeAll cs := by
  constructor
  · intro h; exact ⟨decodeAll bs, validUTF8_decode bs h⟩
  · rintro ⟨cs, h, rfl⟩; exact validUTF8_encodeAll cs h

/-! ### the last rune -/

theorem getD_append_back (pre l : List Nat) (k : Nat) (hk : k ≤ l.length) (d : Nat) :
    (pre ++ l).getD ((pre ++ l).length - k) d = l.getD (l.length - k) d := by
  have e : (pre ++ l).length - k = pre.length + (l.length - k) := by
    rw [List.length_append]; omega
  rw [e, List.getD_eq_getElem?_getD, List.getD_eq_getElem?_getD, List.getElem?_append_right (by omega)]
  congr 2; omega

theorem drop_append_back (pre l : List Nat) (k : Nat) (hk : k ≤ l.length) :
    (pre ++ l).drop ((pre ++ l).length - k) = l.drop (l.length - k) := by
  have e : (pre ++ l).length - k = pre.length + (l.length - k) := by
    rw [List.length_append]; omega
  rw [e, List.drop_append]; simp

theorem dlr1 (s : Bytes) (h1 : 1 ≤ s.length) (hl : s.getD (s.length - 1) 0 < 0x80) :
    decodeLastRune s = (s.getD (s.length - 1) 0, 1) := by
  unfold decodeLastRune
  have : s.length ≠ 0 := by omega
  simp only [this, hl, if_true, if_false]

theorem dlr2 (s : Bytes) (r : Nat) (h2 : 2 ≤ s.length) (hl : ¬ s.getD (s.length - 1) 0 < 0x80)
    (hs : runeStart (s.getD (s.length - 2) 0) = true)
    (hd : decodeRune (s.drop (s.length - 2)) = (r, 2)) : decodeLastRune s = (r, 2) := by
  unfold decodeLastRune
  have : s.length ≠ 0 := by omega
  have e : ¬ (s.length - 2 + 2 ≠ s.length) := by omega
  simp only [this, hl, h2, hs, hd, e, and_self, if_true, if_false]

theorem dlr3 (s : Bytes) (r : Nat) (h3 : 3 ≤ s.length) (hl : ¬ s.getD (s.length - 1) 0 < 0x80)
    (hs2 : runeStart (s.getD (s.length - 2) 0) = false)
    (hs : runeStart (s.getD (s.length - 3) 0) = true)
    (hd : decodeRune (s.drop (s.length - 3)) = (r, 3)) : decodeLastRune s = (r, 3) := by
  unfold decodeLastRune
  have : s.length ≠ 0 := by omega
  have e : ¬ (s.length - 3 + 3 ≠ s.length) := by omega
  simp only [this, hl, h3, hs2, hs, hd, e, and_self, and_false, if_true, if_false, Bool.false_eq_true]

theorem dlr4 (s : Bytes) (r : Nat) (h4 : 4 ≤ s.length) (hl : ¬ s.getD (s.length - 1) 0 < 0x80)
    (hs2 : runeStart (s.getD (s.length - 2) 0) = false)
    (hs3 : runeStart (s.getD (s.length - 3) 0) = false)
    (hs : runeStart (s.getD (s.length - 4) 0) = true)
    (hd : decodeRune (s.drop (s.length - 4)) = (r, 4)) : decodeLastRune s = (r, 4) := by
  unfold decodeLastRune
  have : s.length ≠ 0 := by omega
  have e : ¬ (s.length - 4 + 4 ≠ s.length) := by omega
  simp only [this, hl, h4, hs2, hs3, hs, hd, e, and_self, and_false, if_true, if_false,
    Bool.false_eq_true]

theorem runeStart_iff (b : Nat) : runeStart b = true ↔ ¬ (0x80 ≤ b ∧ b ≤ 0xBF) := by
  unfold runeStart; simp [isCont_iff]; omega

theorem runeStart_false_iff (b : Nat) : runeStart b = false ↔ (0x80 ≤ b ∧ b ≤ 0xBF) := by
  unfold runeStart; simp [isCont_iff]

theorem decodeLastRune_append (pre : Bytes) (c : Nat) (h : isScalar c = true) :
    decodeLastRune (pre ++ encodeRune c) = (c, (encodeRune c).length) := by
  have hd := decodeRune_encodeRune c h []
  rw [List.append_nil] at hd
  have hs := (isScalar_iff c).1 h
  rcases encodeRune_cases c h with ⟨h1, he⟩ | ⟨h1, h2, he⟩ | ⟨h1, h2, he⟩ | ⟨h1, h2, he⟩
  · rw [he] at hd ⊢
    have g1 := getD_append_back pre [c] 1 (by simp) 0
    have := dlr1 (pre ++ [c]) (by simp) (by rw [g1]; simpa using h1)
    rw [this, g1]; simp
  · rw [he] at hd ⊢
    have g1 := getD_append_back pre [0xC0 + c / 64, 0x80 + c % 64] 1 (by simp) 0
    have g2 := getD_append_back pre [0xC0 + c / 64, 0x80 + c % 64] 2 (by simp) 0
    have d2 := drop_append_back pre [0xC0 + c / 64, 0x80 + c % 64] 2 (by simp)
    exact dlr2 _ c (by simp) (by rw [g1]; simp) (by rw [g2, runeStart_iff]; simp; omega)
      (by rw [d2]; simpa using hd)
  · rw [he] at hd ⊢
    have g1 := getD_append_back pre [0xE0 + c / 4096, 0x80 + (c / 64) % 64, 0x80 + c % 64] 1 (by simp) 0
    have g2 := getD_append_back pre [0xE0 + c / 4096, 0x80 + (c / 64) % 64, 0x80 + c % 64] 2 (by simp) 0
    have g3 := getD_append_back pre [0xE0 + c / 4096, 0x80 + (c / 64) % 64, 0x80 + c % 64] 3 (by simp) 0
    have d3 := drop_append_back pre [0xE0 + c / 4096, 0x80 + (c / 64) % 64, 0x80 + c % 64] 3 (by simp)
    exact dlr3 _ c (by simp) (by rw [g1]; simp) (by rw [g2, runeStart_false_iff]; simp; omega)
      (by rw [g3, runeStart_iff]; simp; omega) (by rw [d3]; simpa using hd)
  · rw [he] at hd ⊢
    have g1 := getD_append_back pre
      [0xF0 + c / 262144, 0x80 + (c / 4096) % 64, 0x80 + (c / 64) % 64, 0x80 + c % 64] 1 (by simp) 0
    have g2 := getD_append_back pre
      [0xF0 + c / 262144, 0x80 + (c / 4096) % 64, 0x80 + (c / 64) % 64, 0x80 + c % 64] 2 (by simp) 0
    have g3 := getD_append_back pre
      [0xF0 + c / 262144, 0x80 + (c / 4096) % 64, 0x80 + (c / 64) % 64, 0x80 + c % 64] 3 (by simp) 0
    have g4 := getD_append_back pre
      [0xF0 + c / 262144, 0x80 + (c / 4096) % 64, 0x80 + (c / 64) % 64, 0x80 + c % 64] 4 (by simp) 0
    have d4 := drop_append_back pre
      [0xF0 + c / 262144, 0x80 + (c / 4096) % 64, 0x80 + (c / 64) % 64, 0x80 + c % 64] 4 (by simp)
    exact dlr4 _ c (by simp) (by rw [g1]; simp) (by rw [g2, runeStart_false_iff]; simp; omega)
      (by rw [g3, runeStart_false_iff]; simp; omega)
      (by rw [g4, runeStart_iff]; simp; omega) (by rw [d4]; simpa using hd)

/-! ### walking forwards: `dropRunes`, `runesLen`, `walkFwd`, `runePieces` -/

theorem dropRunes_succ (n : Nat) (s : Bytes) (h : s ≠ []) :
    dropRunes (n + 1) s = dropRunes n (s.drop (decodeRune s).2) := by
  cases s with
  | nil => exact absurd rfl h
  | cons b bs => rfl

theorem dropRunes_nil (n : Nat) : dropRunes n [] = [] := by cases n <;> rfl

theorem dropRunes_encodeAll (k : Nat) : ∀ cs : List Nat, Scalars cs →
    dropRunes k (encodeAll cs) = encodeAll (cs.drop k) := by
  induction k with
  | zero => intro cs _; rfl
  | succ k ih =>
    intro cs h
    cases cs with
    | nil => exact dropRunes_nil _
    | cons c cs =>
      rw [dropRunes_succ _ _ (encodeAll_cons_ne_nil c cs), decodeRune_cons c cs h.head]
      simp only [drop_cons, List.drop_succ_cons]
      exact ih cs h.tail

theorem runesLen_succ (n : Nat) (s : Bytes) (h : s ≠ []) :
    runesLen (n + 1) s = (decodeRune s).2 + runesLen n (s.drop (decodeRune s).2) := by
  cases s with
  | nil => exact absurd rfl h
  | cons b bs => rfl

theorem runesLen_nil (n : Nat) : runesLen n [] = 0 := by cases n <;> rfl

theorem runesLen_encodeAll (k : Nat) : ∀ cs : List Nat, Scalars cs →
    runesLen k (encodeAll cs) = (encodeAll (cs.take k)).length := by
  induction k with
  | zero => intro cs _; rfl
  | succ k ih =>
    intro cs h
    cases cs with
    | nil => exact runesLen_nil _
    | cons c cs =>
      rw [runesLen_succ _ _ (encodeAll_cons_ne_nil c cs), decodeRune_cons c cs h.head]
      simp only [drop_cons, List.take_succ_cons]
      rw [ih cs h.tail, encodeAll_cons, List.length_append]

theorem encodeAll_take_drop (k : Nat) (cs : List Nat) :
    encodeAll cs = encodeAll (cs.take k) ++ encodeAll (cs.drop k) := by
  rw [← encodeAll_append, List.take_append_drop]

theorem take_runesLen_encodeAll (k : Nat) (cs : List Nat) (h : Scalars cs) :
    (encodeAll cs).take (runesLen k (encodeAll cs)) = encodeAll (cs.take k) := by
  rw [runesLen_encodeAll k cs h]
  conv => lhs; arg 2; rw [encodeAll_take_drop k cs]
  exact List.take_left

theorem encodeAll_range_succ (f : Nat → Nat) (n : Nat) :
    encodeAll ((List.range (n + 1)).map f)
      = encodeRune (f 0) ++ encodeAll ((List.range n).map (fun i => f (i + 1))) := by
  rw [List.range_succ_eq_map, List.map_cons, encodeAll_cons, List.map_map]; rfl

theorem walkFwd_succ (step n : Nat) (s : Bytes) :
    walkFwd step (n + 1) s
      = encodeRune (decodeRune s).1 ++ walkFwd step n (dropRunes (step - 1) (s.drop (decodeRune s).2)) := rfl

/-- the forward walk visits the code points `0, step, 2·step, …`; past the end of the string the Go loop
    decodes U+FFFD from the empty string (never reached for the counts `clampStep` computes) -/
theorem walkFwd_encodeAll (step : Nat) (hstep : 1 ≤ step) (n : Nat) : ∀ cs : List Nat, Scalars cs →
    walkFwd step n (encodeAll cs)
      = encodeAll ((List.range n).map (fun i => cs.getD (i * step) RuneError)) := by
  induction n with
  | zero => intro cs _; rfl
  | succ n ih =>
    intro cs h
    rw [walkFwd_succ, encodeAll_range_succ]
    cases cs with
    | nil =>
      have e : decodeRune (encodeAll []) = (RuneError, 0) := rfl
      rw [e]
      simp only [List.drop_zero, encodeAll_nil, dropRunes_nil]
      have := ih [] Scalars.nil
      rw [encodeAll_nil] at this
      rw [this]; simp
    | cons c cs =>
      rw [decodeRune_cons c cs h.head]
      simp only [drop_cons]
      rw [dropRunes_encodeAll _ cs h.tail, ih _ (h.tail.drop _)]
      simp only [Nat.zero_mul, List.getD_cons_zero]
      congr 2
      apply List.map_congr_left
      intro i _
      have e : (i + 1) * step = (step - 1 + i * step) + 1 := by rw [Nat.succ_mul]; omega
      rw [e, List.getD_eq_getElem?_getD, List.getD_eq_getElem?_getD, List.getElem?_drop,
        List.getElem?_cons_succ]

theorem runePiecesAux_succ (fuel : Nat) (s : Bytes) (h : s ≠ []) :
    runePiecesAux (fuel + 1) s = s.take (decodeRune s).2 :: runePiecesAux fuel (s.drop (decodeRune s).2) := by
  cases s with
  | nil => exact absurd rfl h
  | cons b bs => rfl

theorem runePiecesAux_nil (fuel : Nat) : runePiecesAux fuel [] = [] := by cases fuel <;> rfl

theorem runePiecesAux_encodeAll (cs : List Nat) (h : Scalars cs) :
    ∀ fuel, cs.length ≤ fuel → runePiecesAux fuel (encodeAll cs) = cs.map encodeRune := by
  induction cs with
  | nil => intro fuel _; exact runePiecesAux_nil fuel
  | cons c cs ih =>
    intro fuel hf
    match fuel, hf with
    | f + 1, hf =>
      rw [runePiecesAux_succ _ _ (encodeAll_cons_ne_nil c cs), decodeRune_cons c cs h.head]
      simp only [drop_cons, take_cons, List.map_cons]
      rw [ih h.tail f (by simpa using hf)]

theorem runePieces_encodeAll (cs : List Nat) (h : Scalars cs) :
    runePieces (encodeAll cs) = cs.map encodeRune :=
  runePiecesAux_encodeAll cs h _ (length_le_encodeAll cs)

/-! ### walking backwards: `reverseRunes`, `dropLastRunes`, `walkBwd` -/

theorem encodeAll_reverse_cons (c : Nat) (rs : List Nat) :
    encodeAll (c :: rs).reverse = encodeAll rs.reverse ++ encodeRune c := by
  rw [List.reverse_cons, encodeAll_append, encodeAll_singleton]

theorem encodeAll_reverse_cons_ne_nil (c : Nat) (rs : List Nat) : encodeAll (c :: rs).reverse ≠ [] := by
  rw [encodeAll_reverse_cons]; simp [encodeRune_ne_nil]

theorem decodeLastRune_snoc (c : Nat) (rs : List Nat) (h : isScalar c = true) :
    decodeLastRune (encodeAll (c :: rs).reverse) = (c, (encodeRune c).length) := by
  rw [encodeAll_reverse_cons]; exact decodeLastRune_append _ c h

theorem take_snoc (c : Nat) (rs : List Nat) :
    (encodeAll (c :: rs).reverse).take ((encodeAll (c :: rs).reverse).length - (encodeRune c).length)
      = encodeAll rs.reverse := by
  rw [encodeAll_reverse_cons, List.length_append, Nat.add_sub_cancel]; exact List.take_left

theorem reverseRunes_succ (fuel : Nat) (s : Bytes) (h : s ≠ []) :
    reverseRunes (fuel + 1) s
      = encodeRune (decodeLastRune s).1 ++ reverseRunes fuel (s.take (s.length - (decodeLastRune s).2)) := by
  cases s with
  | nil => exact absurd rfl h
  | cons b bs => rfl

theorem reverseRunes_nil (fuel : Nat) : reverseRunes fuel [] = [] := by cases fuel <;> rfl

theorem reverseRunes_encodeAll (rs : List Nat) (h : Scalars rs) :
    ∀ fuel, rs.length ≤ fuel → reverseRunes fuel (encodeAll rs.reverse) = encodeAll rs := by
  induction rs with
  | nil => intro fuel _; exact reverseRunes_nil fuel
  | cons c rs ih =>
    intro fuel hf
    match fuel, hf with
    | f + 1, hf =>
      rw [reverseRunes_succ _ _ (encodeAll_reverse_cons_ne_nil c rs), decodeLastRune_snoc c rs h.head]
      simp only [take_snoc]
      rw [ih h.tail f (by simpa using hf), encodeAll_cons]

theorem dropLastRunes_succ (n : Nat) (s : Bytes) (h : s ≠ []) :
    dropLastRunes (n + 1) s = dropLastRunes n (s.take (s.length - (decodeLastRune s).2)) := by
  cases s with
  | nil => exact absurd rfl h
  | cons b bs => rfl

theorem dropLastRunes_nil (n : Nat) : dropLastRunes n [] = [] := by cases n <;> rfl

theorem dropLastRunes_encodeAll (k : Nat) : ∀ rs : List Nat, Scalars rs →
    dropLastRunes k (encodeAll rs.reverse) = encodeAll (rs.drop k).reverse := by
  induction k with
  | zero => intro rs _; rfl
  | succ k ih =>
    intro rs h
    cases rs with
    | nil => exact dropLastRunes_nil _
    | cons c rs =>
      rw [dropLastRunes_succ _ _ (encodeAll_reverse_cons_ne_nil c rs), decodeLastRune_snoc c rs h.head]
      simp only [take_snoc, List.drop_succ_cons]
      exact ih rs h.tail

theorem walkBwd_succ (step n : Nat) (s : Bytes) :
    walkBwd step (n + 1) s
      = encodeRune (decodeLastRune s).1
        ++ walkBwd step n (dropLastRunes (step - 1) (s.take (s.length - (decodeLastRune s).2))) := rfl

/-- the backward walk visits the code points of the reversed string at `0, step, 2·step, …` -/
theorem walkBwd_encodeAll (step : Nat) (hstep : 1 ≤ step) (n : Nat) : ∀ rs : List Nat, Scalars rs →
    walkBwd step n (encodeAll rs.reverse)
      = encodeAll ((List.range n).map (fun i => rs.getD (i * step) RuneError)) := by
  induction n with
  | zero => intro rs _; rfl
  | succ n ih =>
    intro rs h
    rw [walkBwd_succ, encodeAll_range_succ]
    cases rs with
    | nil =>
      have e : decodeLastRune (encodeAll [].reverse) = (RuneError, 0) := rfl
      rw [e]
      have e2 : encodeAll ([] : List Nat).reverse = [] := rfl
      simp only [e2, List.take_nil, dropLastRunes_nil]
      have := ih [] Scalars.nil
      rw [e2] at this
      rw [this]; simp
    | cons c rs =>
      rw [decodeLastRune_snoc c rs h.head]
      simp only [take_snoc]
      rw [dropLastRunes_encodeAll _ rs h.tail, ih _ (h.tail.drop _)]
      simp only [Nat.zero_mul, List.getD_cons_zero]
      congr 2
      apply List.map_congr_left
      intro i _
      have e : (i + 1) * step = (step - 1 + i * step) + 1 := by rw [Nat.succ_mul]; omega
      rw [e, List.getD_eq_getElem?_getD, List.getD_eq_getElem?_getD, List.getElem?_drop,
        List.getElem?_cons_succ]

/-! ### the index arithmetic of `clampStep` -/

theorem count_min (c : Int) (hc : 0 < c) (hlt : c < 2 ^ 63) :
    (if Int.tmod c (-2 ^ 63) > 0 then Int.tdiv c (-2 ^ 63) + 1 else Int.tdiv c (-2 ^ 63)) = 1 := by
  have h1 : Int.tdiv c (2 ^ 63) = 0 := Int.tdiv_eq_zero_of_lt (by omega) hlt
  have h2 : Int.tmod c (2 ^ 63) = c := Int.tmod_eq_of_lt (by omega) hlt
  rw [Int.tdiv_neg, Int.tmod_neg, h1, h2]
  simp [hc]
theorem wrap64_min : wrap64 (-2 ^ 63 * -1) = -2 ^ 63 := by decide

theorem getD_drop (cs : List Nat) (k j d : Nat) : (cs.drop k).getD j d = cs.getD (k + j) d := by
  rw [List.getD_eq_getElem?_getD, List.getD_eq_getElem?_getD, List.getElem?_drop]

theorem count_bound (c s i : Int) (hc : 0 < c) (hs : 0 < s) (_hi0 : 0 ≤ i)
    (hi : i < (if Int.tmod c s > 0 then Int.tdiv c s + 1 else Int.tdiv c s)) : i * s < c := by
  have e : s * Int.tdiv c s + Int.tmod c s = c := Int.mul_tdiv_add_tmod c s
  have m0 : 0 ≤ Int.tmod c s := Int.tmod_nonneg s (by omega)
  generalize Int.tdiv c s = q at *
  generalize Int.tmod c s = m at *
  have ec : s * q = q * s := Int.mul_comm _ _
  by_cases hm : m > 0
  · rw [if_pos hm] at hi
    have : i * s ≤ q * s := Int.mul_le_mul_of_nonneg_right (by omega) (by omega)
    omega
  · rw [if_neg hm] at hi
    have : i * s ≤ (q - 1) * s := Int.mul_le_mul_of_nonneg_right (by omega) (by omega)
    rw [Int.sub_mul] at this
    omega

theorem wrap64_neg (step : Int) (h1 : -2 ^ 63 < step) (h2 : step < 0) : wrap64 (step * -1) = -step := by
  unfold wrap64; omega

theorem clampStep_inRange (l start stop step a n : Int) (hl : 0 ≤ l) (hs : step ≠ 0)
    (hmin : -2 ^ 63 < step ∨ (step = -2 ^ 63 ∧ l < 2 ^ 63)) (h : clampStep l start stop step = some (a, n)) :
    0 ≤ a ∧ a < l ∧ ∀ i : Int, 0 ≤ i → i < n → 0 ≤ a + i * step ∧ a + i * step < l := by
  unfold clampStep at h
  by_cases hpos : step > 0
  · simp only [hpos, if_true] at h
    split at h
    · cases h
    · rename_i a' ha'
      split at h
      · cases h
      · rename_i b' hb'
        split at h
        · cases h
        · rename_i hab
          injection h with h; injection h with h1 h2
          subst h1
          have fa : 0 ≤ a' := by
            split at ha'
            · split at ha' <;> (injection ha' with ha'; omega)
            · split at ha'
              · cases ha'
              · injection ha' with ha'; omega
          have fb : b' ≤ l := by
            split at hb'
            · split at hb'
              · cases hb'
              · injection hb' with hb'; omega
            · split at hb' <;> (injection hb' with hb'; omega)
          refine ⟨fa, by omega, ?_⟩
          intro i hi0 hi
          rw [← h2] at hi
          have := count_bound (b' - a') step i (by omega) hpos hi0 hi
          have : 0 ≤ i * step := Int.mul_nonneg hi0 (by omega)
          omega
  · simp only [hpos, if_false] at h
    have hneg : step < 0 := by omega
    generalize hw : wrap64 (step * -1) = s at h
    split at h
    · cases h
    · rename_i a' ha'
      split at h
      · cases h
      · rename_i b' hb'
        split at h
        · cases h
        · rename_i hab
          injection h with h; injection h with h1 h2
          subst h1
          have fa : a' < l := by
            split at ha'
            · split at ha'
              · cases ha'
              · injection ha' with ha'; omega
            · split at ha' <;> (injection ha' with ha'; omega)
          have fb : -1 ≤ b' := by
            split at hb'
            · split at hb' <;> (injection hb' with hb'; omega)
            · split at hb'
              · cases hb'
              · injection hb' with hb'; omega
          refine ⟨by omega, fa, ?_⟩
          intro i hi0 hi
          rw [← h2] at hi
          rcases hmin with hmin | ⟨hmin, hlen⟩
          · rw [wrap64_neg step hmin hneg] at hw
            subst hw
            have := count_bound (a' - b') (-step) i (by omega) (by omega) hi0 hi
            rw [Int.mul_neg] at this
            have : 0 ≤ i * (-step) := Int.mul_nonneg hi0 (by omega)
            rw [Int.mul_neg] at this
            omega
          · subst hmin
            rw [wrap64_min] at hw
            subst hw
            rw [count_min (a' - b') (by omega) (by omega)] at hi
            have : i = 0 := by omega
            subst this
            omega



/-! ### byte order = code point order -/

theorem bytesLt_cons_lt (a b : Nat) (x y : Bytes) (h : a < b) : bytesLt (a :: x) (b :: y) = true := by
  simp [bytesLt, h]

theorem bytesLt_cons_eq (a : Nat) (x y : Bytes) : bytesLt (a :: x) (a :: y) = bytesLt x y := by
  simp [bytesLt]

theorem bytesLt_append_left (x y z : Bytes) : bytesLt (x ++ y) (x ++ z) = bytesLt y z := by
  induction x with
  | nil => rfl
  | cons a x ih => rw [List.cons_append, List.cons_append, bytesLt_cons_eq, ih]

theorem bytesLt_asymm : ∀ x y : Bytes, bytesLt x y = true → bytesLt y x = false
  | [], [], h => by simp [bytesLt] at h
  | [], _ :: _, _ => by simp [bytesLt]
  | _ :: _, [], h => by simp [bytesLt] at h
  | a :: x, b :: y, h => by
    by_cases h1 : a < b
    · have : ¬ b < a := by omega
      simp [bytesLt, this, h1]
    · by_cases h2 : a > b
      · simp [bytesLt, h1, h2] at h
      · have : a = b := by omega
        subst this
        rw [bytesLt_cons_eq] at h ⊢
        exact bytesLt_asymm x y h

theorem bytesLt_cons_le (a b : Nat) (x y : Bytes) (h : a ≤ b) (hxy : a = b → bytesLt x y = true) :
    bytesLt (a :: x) (b :: y) = true := by
  by_cases h1 : a < b
  · exact bytesLt_cons_lt a b x y h1
  · have : a = b := by omega
    subst this; rw [bytesLt_cons_eq]; exact hxy rfl

/-- the encoding is strictly monotone for the bytewise order, whatever follows -/
theorem bytesLt_encodeRune (a b : Nat) (ha : isScalar a = true) (hb : isScalar b = true) (h : a < b)
    (y z : Bytes) : bytesLt (encodeRune a ++ y) (encodeRune b ++ z) = true := by
  rcases encodeRune_cases a ha with ⟨a1, ea⟩ | ⟨a1, a2, ea⟩ | ⟨a1, a2, ea⟩ | ⟨a1, a2, ea⟩ <;>
  rcases encodeRune_cases b hb with ⟨b1, eb⟩ | ⟨b1, b2, eb⟩ | ⟨b1, b2, eb⟩ | ⟨b1, b2, eb⟩ <;>
  rw [ea, eb] <;> simp only [List.cons_append, List.nil_append]
  all_goals first
    | (exfalso; omega)
    | (apply bytesLt_cons_lt; omega)
    | skip
  all_goals first
    | (apply bytesLt_cons_le _ _ _ _ (by omega); intro e1; apply bytesLt_cons_lt; omega)
    | (apply bytesLt_cons_le _ _ _ _ (by omega); intro e1; apply bytesLt_cons_le _ _ _ _ (by omega); intro e2
       apply bytesLt_cons_lt; omega)
    | (apply bytesLt_cons_le _ _ _ _ (by omega); intro e1; apply bytesLt_cons_le _ _ _ _ (by omega); intro e2
       apply bytesLt_cons_le _ _ _ _ (by omega); intro e3; apply bytesLt_cons_lt; omega)

/-- lexicographic order on code point lists -/
def cpLt : List Nat → List Nat → Bool
  | [], [] => false
  | [], _ :: _ => true
  | _ :: _, [] => false
  | a :: as, b :: bs => if a < b then true else if a > b then false else cpLt as bs

theorem bytesLt_nil_encodeAll_cons (b : Nat) (bs : List Nat) : bytesLt [] (encodeAll (b :: bs)) = true := by
  cases h : encodeAll (b :: bs) with
  | nil => exact absurd h (encodeAll_cons_ne_nil b bs)
  | cons x xs => rfl

theorem bytesLt_nil_right (x : Bytes) : bytesLt x [] = false := by cases x <;> rfl

theorem bytesLt_encodeAll : ∀ as bs : List Nat, Scalars as → Scalars bs →
    bytesLt (encodeAll as) (encodeAll bs) = cpLt as bs
  | [], [], _, _ => rfl
  | [], b :: bs, _, _ => bytesLt_nil_encodeAll_cons b bs
  | a :: as, [], _, _ => bytesLt_nil_right _
  | a :: as, b :: bs, ha, hb => by
    rw [encodeAll_cons, encodeAll_cons]
    by_cases h1 : a < b
    · rw [bytesLt_encodeRune a b ha.head hb.head h1]; simp [cpLt, h1]
    · by_cases h2 : a > b
      · rw [bytesLt_asymm _ _ (bytesLt_encodeRune b a hb.head ha.head h2 _ _)]; simp [cpLt, h1, h2]
      · have : a = b := by omega
        subst this
        rw [bytesLt_append_left, bytesLt_encodeAll as bs ha.tail hb.tail]; simp [cpLt]

theorem cpLt_iff_lt : ∀ as bs : List Nat, cpLt as bs = true ↔ as < bs
  | [], [] => by simp [cpLt]
  | [], _ :: _ => by simp [cpLt]
  | _ :: _, [] => by simp [cpLt]
  | a :: as, b :: bs => by
    rw [List.cons_lt_cons_iff]
    by_cases h1 : a < b
    · simp [cpLt, h1]
    · by_cases h2 : a > b
      · have : a ≠ b := by omega
        simp [cpLt, h1, h2, this]
      · have : a = b := by omega
        subst this
        simp [cpLt, cpLt_iff_lt as bs]


/-! ### substring search: byte offsets of matches are code point boundaries -/

/-- the first byte of an encoding is a rune start, the others are continuation bytes -/
theorem encodeRune_shape (c : Nat) (h : isScalar c = true) :
    ∃ b0 t, encodeRune c = b0 :: t ∧ isCont b0 = false ∧ ∀ b ∈ t, isCont b = true := by
  have hs := (isScalar_iff c).1 h
  rcases encodeRune_cases c h with ⟨h1, he⟩ | ⟨h1, h2, he⟩ | ⟨h1, h2, he⟩ | ⟨h1, h2, he⟩
  · refine ⟨_, _, he, ?_, by simp⟩
    simp [isCont]; omega
  · refine ⟨_, _, he, ?_, ?_⟩
    · simp [isCont]; omega
    · simp [isCont_iff]; omega
  · refine ⟨_, _, he, ?_, ?_⟩
    · simp [isCont]; omega
    · simp [isCont_iff]; omega
  · refine ⟨_, _, he, ?_, ?_⟩
    · simp [isCont]; omega
    · simp [isCont_iff]; omega

theorem encodeAll_prefix {ps cs : List Nat} (h : ps <+: cs) : encodeAll ps <+: encodeAll cs := by
  obtain ⟨t, rfl⟩ := h
  rw [encodeAll_append]; exact List.prefix_append _ _

/-- prefix reflection: the encoding is a prefix code -/
theorem prefix_of_encodeAll_prefix : ∀ ps cs : List Nat, Scalars ps → Scalars cs →
    encodeAll ps <+: encodeAll cs → ps <+: cs
  | [], _, _, _, _ => List.nil_prefix
  | p :: ps, [], _, _, h => by
    rw [encodeAll_nil, List.prefix_nil] at h
    exact absurd h (encodeAll_cons_ne_nil p ps)
  | p :: ps, c :: cs, hp, hc, h => by
    obtain ⟨t, ht⟩ := h
    have d1 := decodeRune_cons c cs hc.head
    rw [← ht, encodeAll_cons, List.append_assoc, decodeRune_encodeRune p hp.head] at d1
    have e : p = c := congrArg Prod.fst d1
    subst e
    rw [encodeAll_cons, encodeAll_cons, List.append_assoc] at ht
    have ht' := List.append_cancel_left ht
    have := prefix_of_encodeAll_prefix ps cs hp.tail hc.tail ⟨t, ht'⟩
    exact (List.cons_prefix_cons).2 ⟨rfl, this⟩

theorem indexOfAux_eq (off : Nat) (s p : Bytes) :
    indexOfAux off s p = if p.isPrefixOf s then some off else
      match s with
      | [] => none
      | _ :: t => indexOfAux (off + 1) t p := by
  rw [indexOfAux.eq_def]; rfl

theorem indexOfAux_shift : ∀ (s p : List Nat) (off : Nat),
    indexOfAux off s p = (indexOfAux 0 s p).map (off + ·)
  | [], p, off => by
    rw [indexOfAux_eq off, indexOfAux_eq 0]; split <;> rfl
  | a :: t, p, off => by
    rw [indexOfAux_eq off, indexOfAux_eq 0]
    split
    · rfl
    · simp only
      rw [indexOfAux_shift t p (off + 1), indexOfAux_shift t p (0 + 1)]
      cases indexOfAux 0 t p with
      | none => rfl
      | some k => simp only [Option.map_some]; congr 1; omega

theorem indexOfAux_skip (p : Bytes) : ∀ (x y : Bytes) (off : Nat),
    (∀ j, j < x.length → p.isPrefixOf ((x ++ y).drop j) = false) →
    indexOfAux off (x ++ y) p = indexOfAux (off + x.length) y p
  | [], y, off, _ => rfl
  | a :: x, y, off, h => by
    rw [indexOfAux_eq off]
    have h0 := h 0 (by simp)
    rw [List.drop_zero] at h0
    rw [h0]
    simp only [List.cons_append, Bool.false_eq_true, if_false]
    rw [indexOfAux_skip p x y (off + 1) (fun j hj => by
      have := h (j + 1) (by simpa using hj)
      simpa using this)]
    congr 1; simp only [List.length_cons]; omega

theorem not_prefix_interior (ps : List Nat) (hps : Scalars ps) (hne : ps ≠ []) (c : Nat)
    (hc : isScalar c = true) (y : Bytes) (j : Nat) (h0 : 0 < j) (hj : j < (encodeRune c).length) :
    (encodeAll ps).isPrefixOf ((encodeRune c ++ y).drop j) = false := by
  obtain ⟨b0, t, he, _, ht⟩ := encodeRune_shape c hc
  match ps, hne with
  | q :: ps', _ =>
    obtain ⟨q0, qt, hq, hq0, _⟩ := encodeRune_shape q hps.head
    rw [he] at hj ⊢
    match j, h0 with
    | j' + 1, _ =>
      have hj' : j' < t.length := by simpa using hj
      rw [List.cons_append, List.drop_succ_cons, List.drop_append_of_le_length (by omega),
        List.drop_eq_getElem_cons hj', encodeAll_cons, hq, List.cons_append, List.cons_append,
        List.isPrefixOf_cons_cons]
      have hb : isCont t[j'] = true := ht _ (List.getElem_mem hj')
      have : (q0 == t[j']) = false := by
        apply beq_false_of_ne
        intro e; rw [e, hb] at hq0; cases hq0
      rw [this]; rfl

theorem isPrefixOf_encodeAll (ps cs : List Nat) (hps : Scalars ps) (hcs : Scalars cs) :
    (encodeAll ps).isPrefixOf (encodeAll cs) = ps.isPrefixOf cs := by
  rw [Bool.eq_iff_iff, List.isPrefixOf_iff_prefix, List.isPrefixOf_iff_prefix]
  exact ⟨prefix_of_encodeAll_prefix ps cs hps hcs, encodeAll_prefix⟩

/-- `strings.Index` on the bytes finds the byte offset of the code point position that the same search finds on
    the code points -/
theorem indexOfAux_encodeAll (ps : List Nat) (hps : Scalars ps) (hne : ps ≠ []) :
    ∀ cs : List Nat, Scalars cs → ∀ off : Nat,
    indexOfAux off (encodeAll cs) (encodeAll ps)
      = (indexOfAux 0 cs ps).map (fun k => off + (encodeAll (cs.take k)).length)
  | [], _, off => by
    have : ps.isPrefixOf [] = false := by
      cases ps with
      | nil => exact absurd rfl hne
      | cons => rfl
    rw [indexOfAux_eq off, indexOfAux_eq 0, isPrefixOf_encodeAll ps [] hps Scalars.nil, this]
    rfl
  | c :: cs, hcs, off => by
    rw [indexOfAux_eq 0 (c :: cs)]
    by_cases hp : ps.isPrefixOf (c :: cs) = true
    · rw [indexOfAux_eq off, isPrefixOf_encodeAll ps _ hps hcs, hp]
      simp [encodeAll_nil]
    · have hp' : ps.isPrefixOf (c :: cs) = false := Bool.eq_false_iff.2 hp
      rw [hp']
      simp only [Bool.false_eq_true, if_false]
      rw [encodeAll_cons, indexOfAux_skip _ _ _ off, indexOfAux_encodeAll ps hps hne cs hcs.tail,
        indexOfAux_shift cs ps (0 + 1)]
      · cases indexOfAux 0 cs ps with
        | none => rfl
        | some k =>
          simp only [Option.map_some]
          congr 1
          have : 0 + 1 + k = k + 1 := by omega
          rw [this, List.take_succ_cons, encodeAll_cons, List.length_append]; omega
      · intro j hj
        by_cases h0 : j = 0
        · subst h0
          rw [List.drop_zero, ← encodeAll_cons, isPrefixOf_encodeAll ps _ hps hcs, hp']
        · exact not_prefix_interior ps hps hne c hcs.head _ j (by omega) hj

theorem indexOfAux_le : ∀ (s p : List Nat) (off k : Nat), indexOfAux off s p = some k → k ≤ off + s.length
  | [], p, off, k, h => by
    rw [indexOfAux_eq] at h
    split at h
    · injection h with h; omega
    · cases h
  | a :: t, p, off, k, h => by
    rw [indexOfAux_eq] at h
    split at h
    · injection h with h; omega
    · have := indexOfAux_le t p (off + 1) k h
      simp only [List.length_cons]; omega

theorem indexOf_encodeAll (cs ps : List Nat) (hcs : Scalars cs) (hps : Scalars ps) (hne : ps ≠ []) :
    indexOf (encodeAll cs) (encodeAll ps)
      = (indexOf cs ps).map (fun k => (encodeAll (cs.take k)).length) := by
  unfold indexOf
  rw [indexOfAux_encodeAll ps hps hne cs hcs 0]
  cases indexOfAux 0 cs ps <;> simp

/-- the first `|encodeAll (take k cs)|` bytes of a string are its first `k` code points -/
theorem runeCount_take_boundary (cs : List Nat) (hcs : Scalars cs) (k : Nat) (hk : k ≤ cs.length) :
    runeCount ((encodeAll cs).take (encodeAll (cs.take k)).length) = k := by
  conv => lhs; arg 1; arg 2; rw [encodeAll_take_drop k cs]
  rw [List.take_left, Utf8.runeCount_encodeAll _ (hcs.take k), List.length_take]; omega


theorem isEmpty_encodeAll (cs : List Nat) (hne : cs ≠ []) : (encodeAll cs).isEmpty = false := by
  cases hs : encodeAll cs with
  | nil => exact absurd ((encodeAll_eq_nil cs).1 hs) hne
  | cons b bs => rfl

/-- what `indexOf` computes, on any lists: the least position at which `p` occurs -/
theorem indexOfAux_spec : ∀ (s p : List Nat) (off k : Nat), indexOfAux off s p = some k →
    ∃ i, k = off + i ∧ i ≤ s.length ∧ p <+: s.drop i ∧ ∀ j, j < i → ¬ p <+: s.drop j
  | [], p, off, k, h => by
    rw [indexOfAux_eq] at h
    split at h
    · rename_i hp
      injection h with h
      exact ⟨0, by omega, by simp, List.isPrefixOf_iff_prefix.1 hp, by intro j hj; omega⟩
    · cases h
  | a :: t, p, off, k, h => by
    rw [indexOfAux_eq] at h
    split at h
    · rename_i hp
      injection h with h
      exact ⟨0, by omega, by simp, List.isPrefixOf_iff_prefix.1 hp, by intro j hj; omega⟩
    · rename_i hp
      obtain ⟨i, hk, hi, hpi, hmin⟩ := indexOfAux_spec t p (off + 1) k h
      refine ⟨i + 1, by omega, by simp only [List.length_cons]; omega, by simpa using hpi, ?_⟩
      intro j hj
      match j with
      | 0 => rw [List.drop_zero]; exact fun hh => hp (List.isPrefixOf_iff_prefix.2 hh)
      | j + 1 => rw [List.drop_succ_cons]; exact hmin j (by omega)

theorem indexOfAux_none : ∀ (s p : List Nat) (off : Nat), indexOfAux off s p = none →
    ∀ j, ¬ p <+: s.drop j
  | [], p, off, h, j => by
    rw [indexOfAux_eq] at h
    split at h
    · cases h
    · rename_i hp
      rw [List.drop_nil]; exact fun hh => hp (List.isPrefixOf_iff_prefix.2 hh)
  | a :: t, p, off, h, j => by
    rw [indexOfAux_eq] at h
    split at h
    · cases h
    · rename_i hp
      match j with
      | 0 => rw [List.drop_zero]; exact fun hh => hp (List.isPrefixOf_iff_prefix.2 hh)
      | j + 1 => rw [List.drop_succ_cons]; exact indexOfAux_none t p (off + 1) h j

/-! ### `strings.LastIndex` -/

theorem lastIndexOfAux_eq (off : Nat) (s p : Bytes) (best : Option Nat) :
    lastIndexOfAux off s p best =
      match s with
      | [] => (if p.isPrefixOf s then some off else best)
      | _ :: t => lastIndexOfAux (off + 1) t p (if p.isPrefixOf s then some off else best) := by
  rw [lastIndexOfAux.eq_def]; cases s <;> rfl

def orBest (r : Option Nat) (f : Nat → Nat) (best : Option Nat) : Option Nat :=
  match r with
  | some k => some (f k)
  | none => best

theorem lastIndexOfAux_shift : ∀ (s p : List Nat) (off : Nat) (best : Option Nat),
    lastIndexOfAux off s p best = orBest (lastIndexOfAux 0 s p none) (off + ·) best
  | [], p, off, best => by
    rw [lastIndexOfAux_eq off, lastIndexOfAux_eq 0]
    simp only
    split <;> rfl
  | a :: t, p, off, best => by
    rw [lastIndexOfAux_eq off, lastIndexOfAux_eq 0]
    simp only
    rw [lastIndexOfAux_shift t p (off + 1), lastIndexOfAux_shift t p (0 + 1)]
    cases lastIndexOfAux 0 t p none with
    | some k => simp only [orBest]; congr 1; omega
    | none =>
      simp only [orBest]
      split <;> rfl

theorem lastIndexOfAux_skip (p : Bytes) : ∀ (x y : Bytes) (off : Nat) (best : Option Nat),
    (∀ j, j < x.length → p.isPrefixOf ((x ++ y).drop j) = false) →
    lastIndexOfAux off (x ++ y) p best = lastIndexOfAux (off + x.length) y p best
  | [], y, off, best, _ => rfl
  | a :: x, y, off, best, h => by
    rw [lastIndexOfAux_eq off]
    have h0 := h 0 (by simp)
    rw [List.drop_zero] at h0
    simp only [List.cons_append] at h0 ⊢
    simp only [h0, Bool.false_eq_true, if_false]
    rw [lastIndexOfAux_skip p x y (off + 1) best (fun j hj => by
      have := h (j + 1) (by simpa using hj)
      simpa using this)]
    congr 1; simp only [List.length_cons]; omega

/-- skipping one whole code point: only its first byte can start a match -/
theorem lastIndexOfAux_skip_rune (ps : List Nat) (hps : Scalars ps) (hne : ps ≠ []) (c : Nat)
    (hc : isScalar c = true) (y : Bytes) (off : Nat) (best : Option Nat) :
    lastIndexOfAux off (encodeRune c ++ y) (encodeAll ps) best
      = lastIndexOfAux (off + (encodeRune c).length) y (encodeAll ps)
          (if (encodeAll ps).isPrefixOf (encodeRune c ++ y) then some off else best) := by
  have hint := not_prefix_interior ps hps hne c hc y
  cases he : encodeRune c with
  | nil => exact absurd he (encodeRune_ne_nil c)
  | cons b0 t =>
    rw [he] at hint
    rw [lastIndexOfAux_eq off]
    simp only [List.cons_append]
    rw [lastIndexOfAux_skip _ t y (off + 1) _ (fun j hj => by
      have := hint (j + 1) (by omega) (by simpa using hj)
      simpa using this)]
    congr 1; simp only [List.length_cons]; omega

theorem lastIndexOfAux_encodeAll (ps : List Nat) (hps : Scalars ps) (hne : ps ≠ []) :
    ∀ cs : List Nat, Scalars cs → ∀ (off : Nat) (best : Option Nat),
    lastIndexOfAux off (encodeAll cs) (encodeAll ps) best
      = orBest (lastIndexOfAux 0 cs ps none) (fun k => off + (encodeAll (cs.take k)).length) best
  | [], _, off, best => by
    have : ps.isPrefixOf [] = false := by
      cases ps with
      | nil => exact absurd rfl hne
      | cons => rfl
    rw [lastIndexOfAux_eq off, lastIndexOfAux_eq 0, isPrefixOf_encodeAll ps [] hps Scalars.nil]
    simp only [encodeAll_nil, this]
    rfl
  | c :: cs, hcs, off, best => by
    rw [lastIndexOfAux_eq 0 (c :: cs)]
    simp only
    rw [encodeAll_cons, lastIndexOfAux_skip_rune ps hps hne c hcs.head, ← encodeAll_cons,
      isPrefixOf_encodeAll ps _ hps hcs, lastIndexOfAux_encodeAll ps hps hne cs hcs.tail,
      lastIndexOfAux_shift cs ps (0 + 1)]
    cases lastIndexOfAux 0 cs ps none with
    | some k =>
      simp only [orBest]
      congr 1
      have : 0 + 1 + k = k + 1 := by omega
      rw [this, List.take_succ_cons, encodeAll_cons, List.length_append]; omega
    | none =>
      simp only [orBest]
      split <;> simp [encodeAll_nil]

theorem lastIndexOfAux_le : ∀ (s p : List Nat) (off : Nat) (best : Option Nat) (k : Nat),
    lastIndexOfAux off s p best = some k → best = some k ∨ k ≤ off + s.length
  | [], p, off, best, k, h => by
    rw [lastIndexOfAux_eq] at h
    simp only at h
    split at h
    · injection h with h; right; omega
    · left; exact h
  | a :: t, p, off, best, k, h => by
    rw [lastIndexOfAux_eq] at h
    simp only at h
    rcases lastIndexOfAux_le t p (off + 1) _ k h with h1 | h1
    · split at h1
      · injection h1 with h1; right; omega
      · left; exact h1
    · right; simp only [List.length_cons]; omega

theorem lastIndexOf_encodeAll (cs ps : List Nat) (hcs : Scalars cs) (hps : Scalars ps) (hne : ps ≠ []) :
    lastIndexOf (encodeAll cs) (encodeAll ps)
      = (lastIndexOf cs ps).map (fun k => (encodeAll (cs.take k)).length) := by
  unfold lastIndexOf
  rw [lastIndexOfAux_encodeAll ps hps hne cs hcs 0 none]
  cases lastIndexOfAux 0 cs ps none <;> simp [orBest]

/-! ### `start` / `finish` offsets of the `find_*` functions -/

theorem runeOffset_succ (i : Nat) (s : Bytes) (acc : Nat) (h : s ≠ []) :
    runeOffset (i + 1) s acc = runeOffset i (s.drop (decodeRune s).2) (acc + (decodeRune s).2) := by
  cases s with
  | nil => exact absurd rfl h
  | cons b bs => rfl

theorem runeOffset_encodeAll (i : Nat) : ∀ (cs : List Nat) (acc : Nat), Scalars cs →
    runeOffset i (encodeAll cs) acc
      = if i ≤ cs.length then some (acc + (encodeAll (cs.take i)).length) else none := by
  induction i with
  | zero => intro cs acc _; simp [runeOffset, encodeAll_nil]
  | succ i ih =>
    intro cs acc h
    cases cs with
    | nil => simp [runeOffset, encodeAll_nil]
    | cons c cs =>
      rw [runeOffset_succ _ _ _ (encodeAll_cons_ne_nil c cs), decodeRune_cons c cs h.head]
      simp only [drop_cons]
      rw [ih cs _ h.tail]
      simp only [List.length_cons, Nat.add_le_add_iff_right, List.take_succ_cons, encodeAll_cons,
        List.length_append, Nat.add_assoc]

/-- the `start` argument of `find_first` / `find_last` is a code point position -/
theorem startOffset_encodeAll (cs : List Nat) (h : Scalars cs) (i : Int) :
    startOffset (encodeAll cs) i =
      if i < 0 then some 0
      else if i ≤ cs.length then some (encodeAll (cs.take i.toNat)).length
      else none := by
  unfold startOffset
  by_cases h0 : i < 0
  · simp [h0]
  · simp only [h0, if_false]
    have hl := length_le_encodeAll cs
    by_cases h1 : i > ((encodeAll cs).length : Int)
    · have : ¬ i ≤ (cs.length : Int) := by omega
      simp [h1, this]
    · simp only [h1, if_false]
      rw [runeOffset_encodeAll _ cs 0 h]
      by_cases h2 : i ≤ (cs.length : Int)
      · have : i.toNat ≤ cs.length := by omega
        simp [h2, this]
      · have : ¬ i.toNat ≤ cs.length := by omega
        simp [h2, this]

/-- the `finish` argument is a code point position, clamped to the end of the string -/
theorem finishOffset_encodeAll (cs : List Nat) (h : Scalars cs) (j : Int) :
    finishOffset (encodeAll cs) j =
      if j < 0 then none else some (encodeAll (cs.take j.toNat)).length := by
  unfold finishOffset
  by_cases h0 : j < 0
  · simp [h0]
  · simp only [h0, if_false]
    have hl := length_le_encodeAll cs
    by_cases h1 : j > ((encodeAll cs).length : Int)
    · have : cs.length ≤ j.toNat := by omega
      simp [h1, List.take_of_length_le this]
    · simp only [h1, if_false]
      rw [runeOffset_encodeAll _ cs 0 h]
      by_cases h2 : j.toNat ≤ cs.length
      · simp [h2]
      · have : cs.length ≤ j.toNat := by omega
        simp [h2, List.take_of_length_le this]

theorem findFrom_str (last : Bool) (s p : Bytes) (i : Int) :
    findFrom last (.str s) (.str p) (.num (.int .i64 i)) =
      match startOffset s i with
      | none => .ok .null
      | some off =>
        match (if last then lastIndexOf (s.drop off) p else indexOf (s.drop off) p) with
        | none => .ok .null
        | some r => .ok (runeIndexVal s (r + off)) := rfl

theorem drop_boundary (cs : List Nat) (k : Nat) :
    (encodeAll cs).drop (encodeAll (cs.take k)).length = encodeAll (cs.drop k) := by
  conv => lhs; arg 2; rw [encodeAll_take_drop k cs]
  exact List.drop_left

theorem runeIndexVal_boundary (cs : List Nat) (hcs : Scalars cs) (k r : Nat) (hk : k + r ≤ cs.length) :
    runeIndexVal (encodeAll cs) ((encodeAll ((cs.drop k).take r)).length + (encodeAll (cs.take k)).length)
      = .num (.int .i64 ((r + k : Nat) : Int)) := by
  have e : (encodeAll ((cs.drop k).take r)).length + (encodeAll (cs.take k)).length
      = (encodeAll (cs.take (k + r))).length := by
    rw [List.take_add, encodeAll_append, List.length_append]; omega
  unfold runeIndexVal
  rw [e, runeCount_take_boundary cs hcs (k + r) hk, Nat.add_comm]

theorem startOffset_encodeAll' (cs : List Nat) (h : Scalars cs) (i : Int) :
    startOffset (encodeAll cs) i =
      if i > cs.length then none else some (encodeAll (cs.take i.toNat)).length := by
  rw [startOffset_encodeAll cs h]
  by_cases h0 : i < 0
  · have : ¬ i > (cs.length : Int) := by omega
    have e : i.toNat = 0 := by omega
    simp [h0, this, e, encodeAll_nil]
  · by_cases h1 : i ≤ (cs.length : Int)
    · have : ¬ i > (cs.length : Int) := by omega
      simp [h0, h1, this]
    · have : i > (cs.length : Int) := by omega
      simp [h0, h1, this]

theorem indexOf_le (s p : List Nat) (k : Nat) (h : indexOf s p = some k) : k ≤ s.length := by
  have := indexOfAux_le s p 0 k h; omega

theorem lastIndexOf_le (s p : List Nat) (k : Nat) (h : lastIndexOf s p = some k) : k ≤ s.length := by
  rcases lastIndexOfAux_le s p 0 none k h with h1 | h1
  · cases h1
  · omega



theorem findBetween_str (last : Bool) (s p : Bytes) (i j : Int) :
    findBetween last (.str s) (.str p) (.num (.int .i64 i)) (.num (.int .i64 j)) =
      match startOffset s i with
      | none => .ok .null
      | some a =>
        match finishOffset s j with
        | none => .ok .null
        | some b =>
          if a > b then .ok .null
          else
            match (if last then lastIndexOf ((s.drop a).take (b - a)) p
                   else indexOf ((s.drop a).take (b - a)) p) with
            | none => .ok .null
            | some r => .ok (runeIndexVal s (r + a)) := by
  unfold findBetween
  simp only [strArg, intArg, toInt, bind, Res.bind, pure]
  cases startOffset s i with
  | none => rfl
  | some a =>
    simp only
    cases finishOffset s j with
    | none => rfl
    | some b => rfl

theorem take_boundary_len_mono (cs : List Nat) (a b : Nat) (h : a ≤ b) :
    (encodeAll (cs.take a)).length + (encodeAll ((cs.drop a).take (b - a))).length
      = (encodeAll (cs.take b)).length := by
  have : b = a + (b - a) := by omega
  conv => rhs; rw [this, List.take_add, encodeAll_append, List.length_append]

theorem take_boundary_len_strict (cs : List Nat) (a b : Nat) (h : b < a) (ha : a ≤ cs.length) :
    (encodeAll (cs.take b)).length < (encodeAll (cs.take a)).length := by
  have e := take_boundary_len_mono cs b a (by omega)
  have : ((cs.drop b).take (a - b)).length ≤ (encodeAll ((cs.drop b).take (a - b))).length :=
    length_le_encodeAll _
  rw [List.length_take, List.length_drop] at this
  omega

theorem window_boundary (cs : List Nat) (a b : Nat) (h : a ≤ b) :
    ((encodeAll cs).drop (encodeAll (cs.take a)).length).take
        ((encodeAll (cs.take b)).length - (encodeAll (cs.take a)).length)
      = encodeAll ((cs.drop a).take (b - a)) := by
  rw [drop_boundary, ← take_boundary_len_mono cs a b h, Nat.add_sub_cancel_left]
  conv => lhs; arg 2; rw [encodeAll_take_drop (b - a) (cs.drop a)]
  exact List.take_left

theorem finishOffset_encodeAll' (cs : List Nat) (h : Scalars cs) (j : Int) :
    finishOffset (encodeAll cs) j =
      if j < 0 then none else some (encodeAll (cs.take (min j.toNat cs.length))).length := by
  rw [finishOffset_encodeAll cs h]
  have e : cs.take (min j.toNat cs.length) = cs.take j.toNat := by
    by_cases h1 : j.toNat ≤ cs.length
    · rw [Nat.min_eq_left h1]
    · have h2 : cs.length ≤ j.toNat := by omega
      rw [Nat.min_eq_right h2, List.take_of_length_le h2, List.take_of_length_le (Nat.le_refl _)]
  rw [e]

/-- what `lastIndexOf` computes, on any lists: the greatest position at which `p` occurs -/
theorem lastIndexOfAux_spec : ∀ (s p : List Nat) (off : Nat) (best : Option Nat) (k : Nat),
    lastIndexOfAux off s p best = some k →
    (best = some k ∧ ∀ j, j ≤ s.length → ¬ p <+: s.drop j) ∨
    (∃ i, k = off + i ∧ i ≤ s.length ∧ p <+: s.drop i ∧ ∀ j, i < j → j ≤ s.length → ¬ p <+: s.drop j)
  | [], p, off, best, k, h => by
    rw [lastIndexOfAux_eq] at h
    simp only at h
    split at h
    · rename_i hp
      injection h with h
      exact Or.inr ⟨0, by omega, by simp, List.isPrefixOf_iff_prefix.1 hp,
        by intro j h1 h2; simp only [List.length_nil] at h2; omega⟩
    · rename_i hp
      refine Or.inl ⟨h, ?_⟩
      intro j _
      rw [List.drop_nil]; exact fun hh => hp (List.isPrefixOf_iff_prefix.2 hh)
  | a :: t, p, off, best, k, h => by
    rw [lastIndexOfAux_eq] at h
    simp only at h
    rcases lastIndexOfAux_spec t p (off + 1) _ k h with ⟨hb, hno⟩ | ⟨i, hk, hi, hpi, hmax⟩
    · split at hb
      · rename_i hp
        injection hb with hb
        refine Or.inr ⟨0, by omega, by simp, List.isPrefixOf_iff_prefix.1 hp, ?_⟩
        intro j h1 h2
        match j, h1 with
        | j + 1, _ =>
          rw [List.drop_succ_cons]
          exact hno j (by simpa using h2)
      · rename_i hp
        refine Or.inl ⟨hb, ?_⟩
        intro j h2
        match j with
        | 0 => rw [List.drop_zero]; exact fun hh => hp (List.isPrefixOf_iff_prefix.2 hh)
        | j + 1 =>
          rw [List.drop_succ_cons]
          exact hno j (by simpa using h2)
    · refine Or.inr ⟨i + 1, by omega, by simp only [List.length_cons]; omega, by simpa using hpi, ?_⟩
      intro j h1 h2
      match j, h1 with
      | j + 1, h1 =>
        rw [List.drop_succ_cons]
        exact hmax j (by omega) (by simpa using h2)


end Jmes.Utf8
