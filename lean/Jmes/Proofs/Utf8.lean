/-
  Helper lemmas on the UTF-8 codec of `Jmes.Basic.Bytes` and the rune-walking helpers of the model
  (`dropRunes`, `runesLen`, `dropLastRunes`, `walkFwd`, `walkBwd`, `reverseRunes`, `runePieces`).
  Specification side: a string is a list of code points `cs` (all scalar values), its bytes `encodeAll cs`.
-/
import Jmes.Model.Functions
namespace Jmes.Utf8
open Jmes

/-- all code points of the list are Unicode scalar values -/
def Scalars (cs : List Nat) : Prop := ∀ c ∈ cs, isScalar c = true

theorem Scalars.nil : Scalars [] := by intro c h; cases h
theorem Scalars.cons {c cs} (hc : isScalar c = true) (h : Scalars cs) : Scalars (c :: cs) := by
  intro x hx; cases hx with
  | head => exact hc
  | tail _ hx => exact h x hx
theorem Scalars.head {c cs} (h : Scalars (c :: cs)) : isScalar c = true := h c (List.mem_cons_self)
theorem Scalars.tail {c cs} (h : Scalars (c :: cs)) : Scalars cs := fun x hx => h x (List.mem_cons_of_mem _ hx)
theorem Scalars.append {as bs} (ha : Scalars as) (hb : Scalars bs) : Scalars (as ++ bs) := by
  intro x hx; rcases List.mem_append.1 hx with h | h
  · exact ha x h
  · exact hb x h
theorem Scalars.left {as bs} (h : Scalars (as ++ bs)) : Scalars as :=
  fun x hx => h x (List.mem_append_left _ hx)
theorem Scalars.right {as bs} (h : Scalars (as ++ bs)) : Scalars bs :=
  fun x hx => h x (List.mem_append_right _ hx)
theorem Scalars.reverse {cs} (h : Scalars cs) : Scalars cs.reverse :=
  fun x hx => h x (List.mem_reverse.1 hx)
theorem Scalars.drop {cs} (h : Scalars cs) (k : Nat) : Scalars (cs.drop k) :=
  fun x hx => h x (List.mem_of_mem_drop hx)
theorem Scalars.take {cs} (h : Scalars cs) (k : Nat) : Scalars (cs.take k) :=
  fun x hx => h x (List.mem_of_mem_take hx)
theorem Scalars.replicate {p} (hp : isScalar p = true) (n : Nat) : Scalars (List.replicate n p) := by
  intro x hx; rw [(List.mem_replicate.1 hx).2]; exact hp

theorem isScalar_iff (c : Nat) : isScalar c = true ↔ (c < 0xD800 ∨ (0xDFFF < c ∧ c ≤ 0x10FFFF)) := by
  simp only [isScalar, MaxRune, Bool.or_eq_true, Bool.and_eq_true, decide_eq_true_eq]

theorem isScalar_runeError : isScalar RuneError = true := by decide

/-! ### the codec, one rune -/

theorem encodeRune_length_pos (c : Nat) : 1 ≤ (encodeRune c).length := by
  unfold encodeRune; split
  · simp
  · split
    · simp
    · split
      · simp
      · split <;> simp

theorem encodeRune_ne_nil (c : Nat) : encodeRune c ≠ [] := by
  intro h; have := encodeRune_length_pos c; rw [h] at this; simp at this

theorem encodeRune_length_le (c : Nat) : (encodeRune c).length ≤ 4 := by
  unfold encodeRune; split
  · simp
  · split
    · simp
    · split
      · simp
      · split <;> simp

/-- the four shapes of an encoding -/
theorem encodeRune_cases (c : Nat) (h : isScalar c = true) :
    (c < 0x80 ∧ encodeRune c = [c]) ∨
    (0x80 ≤ c ∧ c < 0x800 ∧ encodeRune c = [0xC0 + c / 64, 0x80 + c % 64]) ∨
    (0x800 ≤ c ∧ c < 0x10000 ∧ encodeRune c = [0xE0 + c / 4096, 0x80 + (c / 64) % 64, 0x80 + c % 64]) ∨
    (0x10000 ≤ c ∧ c ≤ 0x10FFFF ∧
      encodeRune c = [0xF0 + c / 262144, 0x80 + (c / 4096) % 64, 0x80 + (c / 64) % 64, 0x80 + c % 64]) := by
  have hs := (isScalar_iff c).1 h
  unfold encodeRune
  by_cases h1 : c < 0x80
  · left; simp [h1]
  · by_cases h2 : c < 0x800
    · right; left; simp [h1, h2]; omega
    · by_cases h3 : c < 0x10000
      · right; right; left; simp [h1, h2, h3, h]; omega
      · right; right; right; simp [h1, h2, h3, h]; omega

theorem decodeRune_encodeRune (c : Nat) (h : isScalar c = true) (rest : Bytes) :
    decodeRune (encodeRune c ++ rest) = (c, (encodeRune c).length) := by
  have hs := (isScalar_iff c).1 h
  rcases encodeRune_cases c h with ⟨h1, he⟩ | ⟨h1, h2, he⟩ | ⟨h1, h2, he⟩ | ⟨h1, h2, he⟩
  · rw [he]; simp [decodeRune, h1]
  · rw [he]
    have a1 : ¬ (0xC0 + c / 64 < 0x80) := by omega
    have a2 : 0xC2 ≤ 0xC0 + c / 64 ∧ 0xC0 + c / 64 ≤ 0xDF := by omega
    have a3 : isCont (0x80 + c % 64) = true := by simp [isCont]; omega
    have a4 : (0xC0 + c / 64 - 0xC0) * 64 + (0x80 + c % 64 - 0x80) = c := by omega
    simp only [List.cons_append, List.nil_append, decodeRune, a1, a2, a3, a4, if_true, if_false,
      and_self, List.length_cons, List.length_nil]
  · rw [he]
    have a1 : ¬ (0xE0 + c / 4096 < 0x80) := by omega
    have a2 : ¬ (0xC2 ≤ 0xE0 + c / 4096 ∧ 0xE0 + c / 4096 ≤ 0xDF) := by omega
    have a3 : 0xE0 ≤ 0xE0 + c / 4096 ∧ 0xE0 + c / 4096 ≤ 0xEF := by omega
    have a4 : isCont (0x80 + c % 64) = true := by simp [isCont]; omega
    have a5 : (if 0xE0 + c / 4096 = 0xE0 then 0xA0 else 0x80) ≤ 0x80 + c / 64 % 64 := by
      split <;> omega
    have a6 : 0x80 + c / 64 % 64 ≤ (if 0xE0 + c / 4096 = 0xED then 0x9F else 0xBF) := by
      split <;> omega
    have a7 : (0xE0 + c / 4096 - 0xE0) * 4096 + (0x80 + c / 64 % 64 - 0x80) * 64 + (0x80 + c % 64 - 0x80) = c := by
      omega
    simp only [List.cons_append, List.nil_append, decodeRune, a1, a2, a3, a4, a5, a6, a7, if_true, if_false,
      and_self, List.length_cons, List.length_nil]
  · rw [he]
    have a1 : ¬ (0xF0 + c / 262144 < 0x80) := by omega
    have a2 : ¬ (0xC2 ≤ 0xF0 + c / 262144 ∧ 0xF0 + c / 262144 ≤ 0xDF) := by omega
    have a3 : ¬ (0xE0 ≤ 0xF0 + c / 262144 ∧ 0xF0 + c / 262144 ≤ 0xEF) := by omega
    have a3' : 0xF0 ≤ 0xF0 + c / 262144 ∧ 0xF0 + c / 262144 ≤ 0xF4 := by omega
    have a4 : isCont (0x80 + c % 64) = true := by simp [isCont]; omega
    have a4' : isCont (0x80 + c / 64 % 64) = true := by simp [isCont]; omega
    have a5 : (if 0xF0 + c / 262144 = 0xF0 then 0x90 else 0x80) ≤ 0x80 + c / 4096 % 64 := by
      split <;> omega
    have a6 : 0x80 + c / 4096 % 64 ≤ (if 0xF0 + c / 262144 = 0xF4 then 0x8F else 0xBF) := by
      split <;> omega
    have a7 : (0xF0 + c / 262144 - 0xF0) * 262144 + (0x80 + c / 4096 % 64 - 0x80) * 4096
        + (0x80 + c / 64 % 64 - 0x80) * 64 + (0x80 + c % 64 - 0x80) = c := by
      omega
    simp only [List.cons_append, List.nil_append, decodeRune, a1, a2, a3, a3', a4, a4', a5, a6, a7, if_true,
      if_false, and_self, List.length_cons, List.length_nil]

end Jmes.Utf8
