/-
  Helper lemmas for C13E (fourth wave for C13):
   * the trees / tokens / nodes of `name(E)` and `name(E, &K)` for an ARBITRARY first argument `E`;
   * a total description of `keysOf` when every key evaluation succeeds (strings / numbers / mixed);
   * the classification "all strings / all numbers / mixed" of an array and what `sort`, `max`, `min` answer on each
     class (in particular: an error exactly on the mixed class).
-/
import Jmes.Properties.C13C
namespace Jmes.C13E
open Jmes Jmes.C13 Jmes.Parser Jmes.Grammar Jmes.C17B Jmes.Grammar.Ex Jmes.C13C

/-! ## trees of `name(E)` and `name(E, &K)` -/

/-- `name(E)` -/
def call1 (name : Token) (E : PTree) : PTree := .call name [E]

/-- `name(E, &K)` -/
def call2 (name : Token) (E K : PTree) : PTree := .call name [E, .ref K]

/-- the tokens of `name(E)` -/
def toks1 (name : Token) (E : PTree) : List Token :=
  name :: tLParen :: (Grammar.flatten E ++ [tRParen])

/-- the tokens of `name(E, &K)` -/
def toks2 (name : Token) (E K : PTree) : List Token :=
  name :: tLParen :: (Grammar.flatten E ++ tComma :: tAmp :: (Grammar.flatten K ++ [tRParen]))

theorem flatten_call1 (name : Token) (E : PTree) : Grammar.flatten (call1 name E) = toks1 name E := by
  simp [call1, toks1, Grammar.flatten, flat, flatSep]

theorem flatten_call2 (name : Token) (E K : PTree) : Grammar.flatten (call2 name E K) = toks2 name E K := by
  simp [call2, toks2, Grammar.flatten, flat, flatSep]

/-- a well-formed tree is not a `&`-reference -/
theorem not_isRef {E : PTree} (hE : WellPrec E) : E.isRef = false := by
  cases E <;> first | rfl | (exact absurd hE (by simp [WellPrec, wp]))

theorem wpArgs_cons {E : PTree} (hE : WellPrec E) (rest : List PTree) : wpArgs (E :: rest) = wpArgs rest := by
  have hE' : wp false E = true := hE
  cases E <;> first | (simp only [wpArgs, hE', Bool.true_and]; done) | (exact absurd hE (by simp [WellPrec, wp]))

theorem wp_call1 {name : Token} {mk : List INode → INode} (hn : name.type = .unquotedIdentifier)
    (hl : lookupBuiltin name.value = some (.fixed 1 1 mk)) {E : PTree} (hE : WellPrec E) :
    WellPrec (call1 name E) := by
  show wp false (.call name [E]) = true
  simp only [wp, hn, hl, argsOK, wpArgs_cons hE, wpArgs, not_isRef hE, List.all_cons, List.all_nil, List.length_cons,
    List.length_nil]
  simp

theorem wp_call2 {name : Token} {mk : INode → INode → INode} (hn : name.type = .unquotedIdentifier)
    (hl : lookupBuiltin name.value = some (.expArg mk)) {E K : PTree} (hE : WellPrec E) (hK : WellPrec K) :
    WellPrec (call2 name E K) := by
  have hK' : wp false K = true := hK
  show wp false (.call name [E, .ref K]) = true
  have hr : (PTree.ref K).isRef = true := rfl
  simp only [wp, hn, hl, argsOK, wpArgs_cons hE, wpArgs, not_isRef hE, hK', hr]
  simp

theorem erase_call1 {name : Token} {mk : List INode → INode}
    (hl : lookupBuiltin name.value = some (.fixed 1 1 mk)) (E : PTree) :
    erase (call1 name E) = mk [erase E] := by
  simp only [call1, erase, hl, eraseL, callNode]

theorem erase_call2 {name : Token} {mk : INode → INode → INode}
    (hl : lookupBuiltin name.value = some (.expArg mk)) (E K : PTree) :
    erase (call2 name E K) = mk (erase E) (erase K) := by
  simp only [call2, erase, hl, eraseL, callNode]

/-- **`name(E)` on text** for a one-argument builtin -/
theorem call1_text {name : Token} {mk : List INode → INode} (hn : name.type = .unquotedIdentifier)
    (hl : lookupBuiltin name.value = some (.fixed 1 1 mk)) {E : PTree} (hE : WellPrec E) {e : Bytes}
    (hlex : Lexes e (toks1 name E)) :
    Parser.parse e = .ok (mk [erase E]) ∧ ∀ d, search e d = evaluate (mk [erase E]) d := by
  have h := text (wp_call1 hn hl hE) (hlex.congr (flatten_call1 name E).symm)
  rw [erase_call1 hl E] at h
  exact h

/-- **`name(E, &K)` on text** for a builtin that takes an expression reference second -/
theorem call2_text {name : Token} {mk : INode → INode → INode} (hn : name.type = .unquotedIdentifier)
    (hl : lookupBuiltin name.value = some (.expArg mk)) {E K : PTree} (hE : WellPrec E) (hK : WellPrec K) {e : Bytes}
    (hlex : Lexes e (toks2 name E K)) :
    Parser.parse e = .ok (mk (erase E) (erase K)) ∧ ∀ d, search e d = evaluate (mk (erase E) (erase K)) d := by
  have h := text (wp_call2 hn hl hE hK) (hlex.congr (flatten_call2 name E K).symm)
  rw [erase_call2 hl E K] at h
  exact h

/-- evaluation of a one-argument builtin call -/
theorem evaluate_callN (f : Fn) (n : INode) (d : Val) :
    evaluate (callN f [n]) d = (evaluate n d >>= fun v => applyFn f [v]) := by
  simp only [evaluate_eq, callN, ieval, ievalList]
  cases ieval d n d [] <;> rfl

/-! ## the three classes of an array -/

/-- neither all strings nor all numbers: what `sort` / `max` / `min` reject -/
def Mixed (xs : List Val) : Prop := allStrings xs = none ∧ allDecimals xs = none

instance (xs : List Val) : Decidable (Mixed xs) := inferInstanceAs (Decidable (_ ∧ _))

theorem allDecimals_str (s : Bytes) (rest : List Val) : allDecimals (.str s :: rest) = none := by
  simp [allDecimals, toDecimal]

theorem allStrings_not_str {x : Val} (hx : ¬ IsStr x) (rest : List Val) : allStrings (x :: rest) = none := by
  cases x <;> first | rfl | exact absurd ⟨_, rfl⟩ hx

theorem not_isStr_of_allDecimals {x : Val} {rest : List Val} {ds : List Dec}
    (hd : allDecimals (x :: rest) = some ds) : ¬ IsStr x := by
  rintro ⟨s, rfl⟩
  rw [allDecimals_str] at hd
  cases hd

/-- an array of strings and of numbers at once is empty -/
theorem strings_and_decimals {xs : List Val} {ss : List Bytes} {ds : List Dec} (h1 : allStrings xs = some ss)
    (h2 : allDecimals xs = some ds) : xs = [] := by
  cases xs with
  | nil => rfl
  | cons x rest =>
    have := not_isStr_of_allDecimals h2
    rw [allStrings_not_str this] at h1
    cases h1

/-- a mixed array in the words of C13: a string first and a non-string later, or a non-string first and a non-number
    somewhere -/
theorem mixed_iff {x : Val} {rest : List Val} :
    Mixed (x :: rest) ↔ (IsStr x ∧ ∃ v ∈ rest, ¬ IsStr v) ∨ (¬ IsStr x ∧ ∃ v ∈ x :: rest, toDecimal v = none) := by
  constructor
  · rintro ⟨h1, h2⟩
    by_cases hx : IsStr x
    · left
      refine ⟨hx, ?_⟩
      obtain ⟨s, rfl⟩ := hx
      apply Classical.byContradiction
      intro hn
      have hall : ∀ v ∈ rest, IsStr v := by
        intro v hv
        apply Classical.byContradiction
        intro h
        exact hn ⟨v, hv, h⟩
      have : ∀ (l : List Val), (∀ v ∈ l, IsStr v) → allStrings l ≠ none := by
        intro l
        induction l with
        | nil => intro _ h; cases h
        | cons a l ih =>
          intro hl
          obtain ⟨s', rfl⟩ := hl a (by simp)
          have := ih (fun v hv => hl v (by simp [hv]))
          simp only [allStrings]
          cases h : allStrings l with
          | none => exact absurd h this
          | some _ => simp
      exact this (.str s :: rest) (by
        intro v hv
        rcases List.mem_cons.mp hv with rfl | hv
        · exact ⟨_, rfl⟩
        · exact hall v hv) h1
    · right
      refine ⟨hx, ?_⟩
      apply Classical.byContradiction
      intro hn
      have hall : ∀ v ∈ x :: rest, toDecimal v ≠ none := by
        intro v hv h
        exact hn ⟨v, hv, h⟩
      have : ∀ (l : List Val), (∀ v ∈ l, toDecimal v ≠ none) → allDecimals l ≠ none := by
        intro l
        induction l with
        | nil => intro _ h; cases h
        | cons a l ih =>
          intro hl
          have ha := hl a (by simp)
          have := ih (fun v hv => hl v (by simp [hv]))
          simp only [allDecimals]
          cases h1 : toDecimal a with
          | none => exact absurd h1 ha
          | some d =>
            cases h : allDecimals l with
            | none => exact absurd h this
            | some _ => simp
      exact this _ hall h2
  · rintro (⟨⟨s, rfl⟩, v, hv, hb⟩ | ⟨hx, hb⟩)
    · exact ⟨allStrings_none ⟨v, List.mem_cons_of_mem _ hv, hb⟩, allDecimals_str s rest⟩
    · exact ⟨allStrings_not_str hx rest, allDecimals_none hb⟩

theorem mixed_ne_nil {xs : List Val} (h : Mixed xs) : xs ≠ [] := by
  rintro rfl
  cases h.1

/-! ## `sort`, `max`, `min` on each class -/

theorem sortArray_mixed {t : ATag} {xs : List Val} (h : Mixed xs) : sortArray (.arr t xs) = .err [Cat.invalidType] := by
  cases xs with
  | nil => exact absurd rfl (mixed_ne_nil h)
  | cons x rest => exact sortArray_mixed_error (mixed_iff.mp h)

theorem arrayMax_mixed {t : ATag} {xs : List Val} (h : Mixed xs) : arrayMax (.arr t xs) = .err [Cat.invalidType] := by
  cases xs with
  | nil => exact absurd rfl (mixed_ne_nil h)
  | cons x rest => exact arrayMax_mixed_error (mixed_iff.mp h)

theorem arrayMin_mixed {t : ATag} {xs : List Val} (h : Mixed xs) : arrayMin (.arr t xs) = .err [Cat.invalidType] := by
  cases xs with
  | nil => exact absurd rfl (mixed_ne_nil h)
  | cons x rest => exact arrayMin_mixed_error (mixed_iff.mp h)

/-- `sort` on an array of strings or of numbers is never an error -/
theorem sortArray_not_err {t : ATag} {xs : List Val} (h : ¬ Mixed xs) (c : List Cat) :
    sortArray (.arr t xs) ≠ .err c := by
  cases xs with
  | nil => intro h; cases h
  | cons x rest =>
    cases hs : allStrings (x :: rest) with
    | some ss =>
      have e := allStrings_some hs
      rw [e, (sortArray_strings_spec (t := t) (ss := ss) (by rintro rfl; cases e)).1]
      intro h; cases h
    | none =>
      cases hd : allDecimals (x :: rest) with
      | none => exact absurd ⟨hs, hd⟩ h
      | some ds =>
        rw [C13B.sortArray_numbers_eq (not_isStr_of_allDecimals hd) hd]
        split <;> (intro h; cases h)

theorem allDecimals_cons_ne_nil {x : Val} {rest : List Val} {ds : List Dec}
    (hd : allDecimals (x :: rest) = some ds) : ∃ d ds', ds = d :: ds' := by
  have := C13B.decimals_eq_map hd
  exact ⟨_, _, this⟩

theorem arrayMax_not_err {t : ATag} {xs : List Val} (h : ¬ Mixed xs) (c : List Cat) :
    arrayMax (.arr t xs) ≠ .err c := by
  cases xs with
  | nil => intro h; cases h
  | cons x rest =>
    cases hs : allStrings (x :: rest) with
    | some ss =>
      have e := allStrings_some hs
      obtain ⟨_, _, m, _, h2, _⟩ := arrayMax_strings_spec (t := t) (ss := ss) (by rintro rfl; cases e)
      rw [e, h2]
      intro h; cases h
    | none =>
      cases hd : allDecimals (x :: rest) with
      | none => exact absurd ⟨hs, hd⟩ h
      | some ds =>
        obtain ⟨d, ds', rfl⟩ := allDecimals_cons_ne_nil hd
        rw [arrayMax_numbers_eq (not_isStr_of_allDecimals hd), hd]
        simp only
        split <;> (intro h; cases h)

theorem arrayMin_not_err {t : ATag} {xs : List Val} (h : ¬ Mixed xs) (c : List Cat) :
    arrayMin (.arr t xs) ≠ .err c := by
  cases xs with
  | nil => intro h; cases h
  | cons x rest =>
    cases hs : allStrings (x :: rest) with
    | some ss =>
      have e := allStrings_some hs
      obtain ⟨_, _, m, _, h2, _⟩ := arrayMin_strings_spec (t := t) (ss := ss) (by rintro rfl; cases e)
      rw [e, h2]
      intro h; cases h
    | none =>
      cases hd : allDecimals (x :: rest) with
      | none => exact absurd ⟨hs, hd⟩ h
      | some ds =>
        obtain ⟨d, ds', rfl⟩ := allDecimals_cons_ne_nil hd
        rw [arrayMin_numbers_eq (not_isStr_of_allDecimals hd), hd]
        simp only
        split <;> (intro h; cases h)

/-! ## `keysOf` when every key evaluation succeeds -/

section Keys
variable {f : Val → Res Val} {g : Val → Val}

theorem keysFrom_strs : ∀ {xs : List Val} {ss : List Bytes}, (∀ x ∈ xs, f x = .ok (g x)) →
    allStrings (xs.map g) = some ss → keysFrom f true xs = .ok (ss.map Key.s)
  | [], ss, _, h => by simp only [List.map_nil, allStrings] at h; cases h; rfl
  | x :: xs, ss, hg, h => by
    simp only [List.map_cons] at h
    cases hx : g x with
    | str s =>
      rw [hx] at h
      simp only [allStrings] at h
      cases hr : allStrings (xs.map g) with
      | none => rw [hr] at h; cases h
      | some ss' =>
        rw [hr] at h; cases h
        simp only [keysFrom, hg x (by simp), hx, Res.ok_bind, if_true,
          keysFrom_strs (fun y hy => hg y (by simp [hy])) hr]
        rfl
    | _ => rw [hx] at h; cases h

theorem keysFrom_strs_none : ∀ {xs : List Val}, (∀ x ∈ xs, f x = .ok (g x)) →
    allStrings (xs.map g) = none → keysFrom f true xs = .err [Cat.invalidType]
  | [], _, h => by cases h
  | x :: xs, hg, h => by
    simp only [List.map_cons] at h
    cases hx : g x with
    | str s =>
      rw [hx] at h
      simp only [allStrings] at h
      cases hr : allStrings (xs.map g) with
      | none =>
        simp only [keysFrom, hg x (by simp), hx, Res.ok_bind, if_true,
          keysFrom_strs_none (fun y hy => hg y (by simp [hy])) hr]
        rfl
      | some ss' => rw [hr] at h; cases h
    | _ => simp only [keysFrom, hg x (by simp), hx, Res.ok_bind, if_true]; rfl

theorem keysFrom_nums : ∀ {xs : List Val} {ds : List Dec}, (∀ x ∈ xs, f x = .ok (g x)) →
    allDecimals (xs.map g) = some ds → keysFrom f false xs = .ok (ds.map Key.n)
  | [], ds, _, h => by simp only [List.map_nil, allDecimals] at h; cases h; rfl
  | x :: xs, ds, hg, h => by
    simp only [List.map_cons, allDecimals] at h
    cases hx : toDecimal (g x) with
    | none => rw [hx] at h; cases h
    | some d =>
      rw [hx] at h
      cases hr : allDecimals (xs.map g) with
      | none => rw [hr] at h; cases h
      | some ds' =>
        rw [hr] at h; cases h
        simp only [keysFrom, hg x (by simp), hx, Res.ok_bind, Bool.false_eq_true, if_false,
          keysFrom_nums (fun y hy => hg y (by simp [hy])) hr]
        rfl

theorem keysFrom_nums_none : ∀ {xs : List Val}, (∀ x ∈ xs, f x = .ok (g x)) →
    allDecimals (xs.map g) = none → keysFrom f false xs = .err [Cat.invalidType]
  | [], _, h => by cases h
  | x :: xs, hg, h => by
    simp only [List.map_cons, allDecimals] at h
    cases hx : toDecimal (g x) with
    | none => simp only [keysFrom, hg x (by simp), hx, Res.ok_bind, Bool.false_eq_true, if_false]; rfl
    | some d =>
      rw [hx] at h
      cases hr : allDecimals (xs.map g) with
      | none =>
        simp only [keysFrom, hg x (by simp), hx, Res.ok_bind, Bool.false_eq_true, if_false,
          keysFrom_nums_none (fun y hy => hg y (by simp [hy])) hr]
        rfl
      | some ds' => rw [hr] at h; cases h

/-- all keys are strings -/
theorem keysOf_strs {xs : List Val} {ss : List Bytes} (hg : ∀ x ∈ xs, f x = .ok (g x))
    (h : allStrings (xs.map g) = some ss) : keysOf f xs = .ok (ss.map Key.s) := by
  cases xs with
  | nil => simp only [List.map_nil, allStrings] at h; cases h; rfl
  | cons x xs =>
    simp only [List.map_cons] at h
    cases hx : g x with
    | str s =>
      rw [hx] at h
      simp only [allStrings] at h
      cases hr : allStrings (xs.map g) with
      | none => rw [hr] at h; cases h
      | some ss' =>
        rw [hr] at h; cases h
        simp only [keysOf, hg x (by simp), hx, Res.ok_bind, keysFrom_strs (fun y hy => hg y (by simp [hy])) hr]
        rfl
    | _ => rw [hx] at h; cases h

/-- all keys are numbers -/
theorem keysOf_nums {xs : List Val} {ds : List Dec} (hg : ∀ x ∈ xs, f x = .ok (g x))
    (h : allDecimals (xs.map g) = some ds) : keysOf f xs = .ok (ds.map Key.n) := by
  cases xs with
  | nil => simp only [List.map_nil, allDecimals] at h; cases h; rfl
  | cons x xs =>
    have hns : ¬ IsStr (g x) := not_isStr_of_allDecimals (by simpa using h)
    simp only [List.map_cons, allDecimals] at h
    cases hx : toDecimal (g x) with
    | none => rw [hx] at h; cases h
    | some d =>
      rw [hx] at h
      cases hr : allDecimals (xs.map g) with
      | none => rw [hr] at h; cases h
      | some ds' =>
        rw [hr] at h; cases h
        have hk : keysOf f (x :: xs) = (match toDecimal (g x) with
            | none => errType
            | some d => do
              let rest ← keysFrom f false xs
              pure (Key.n d :: rest)) := by
          simp only [keysOf, hg x (by simp), Res.ok_bind]
          cases hgx : g x <;> first | rfl | exact absurd ⟨_, hgx⟩ hns
        rw [hk, hx]
        simp only [keysFrom_nums (fun y hy => hg y (by simp [hy])) hr, Res.ok_bind]
        rfl

/-- the keys mix strings, numbers and other values -/
theorem keysOf_mixed {xs : List Val} (hg : ∀ x ∈ xs, f x = .ok (g x)) (h : Mixed (xs.map g)) :
    keysOf f xs = .err [Cat.invalidType] := by
  cases xs with
  | nil => exact absurd rfl (mixed_ne_nil h)
  | cons x xs =>
    obtain ⟨h1, h2⟩ := h
    simp only [List.map_cons] at h1 h2
    by_cases hs : IsStr (g x)
    · obtain ⟨s, hx⟩ := hs
      rw [hx] at h1
      simp only [allStrings] at h1
      cases hr : allStrings (xs.map g) with
      | some ss => rw [hr] at h1; cases h1
      | none =>
        simp only [keysOf, hg x (by simp), hx, Res.ok_bind, keysFrom_strs_none (fun y hy => hg y (by simp [hy])) hr]
        rfl
    · have hk : keysOf f (x :: xs) = (match toDecimal (g x) with
          | none => errType
          | some d => do
            let rest ← keysFrom f false xs
            pure (Key.n d :: rest)) := by
        simp only [keysOf, hg x (by simp), Res.ok_bind]
        cases hgx : g x <;> first | rfl | exact absurd ⟨_, hgx⟩ hs
      rw [hk]
      simp only [allDecimals] at h2
      cases hx : toDecimal (g x) with
      | none => rfl
      | some d =>
        rw [hx] at h2
        cases hr : allDecimals (xs.map g) with
        | some ds => rw [hr] at h2; cases h2
        | none =>
          simp only [keysFrom_nums_none (fun y hy => hg y (by simp [hy])) hr]
          rfl

end Keys

end Jmes.C13E
