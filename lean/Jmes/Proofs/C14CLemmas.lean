/-
  Helper lemmas for property C14, third round (`Jmes/Properties/C14C.lean`): arithmetic on floats that hold small
  integers.

  The property's proviso is "as long as all intermediate values are exactly representable in each representation".
  Here it is formalised for integers: `IntF k f` says that the float `f` holds an integer of magnitude `< 2^k` (either
  sign of zero).  For such operands `+ - * // %` are exact in binary64 as long as the result stays below `2^53`, and
  the decimal128 path computes the same integer on any other representation of the same two values.
-/
import Jmes.Properties.C14B
namespace Jmes
namespace C14C
open C14 C14B

/-! ## 1. floats holding small integers -/

/-- the float holds an integer of magnitude `< 2^k` (`F64.mk n v 0` is `(-1)^n · v`; both zeros are allowed) -/
def IntF (k : Nat) (f : F64) : Prop := ∃ (n : Bool) (v : Nat), v < 2 ^ k ∧ f = F64.mk n v 0

theorem IntF.mono {k k' : Nat} (h : k ≤ k') {f : F64} (hf : IntF k f) : IntF k' f := by
  obtain ⟨n, v, hv, rfl⟩ := hf
  exact ⟨n, v, Nat.lt_of_lt_of_le hv (Nat.pow_le_pow_right (by decide) h), rfl⟩

theorem mk_zero (n : Bool) : F64.mk n 0 0 = .fin n 0 0 := by simp [F64.mk]

theorem intVal_zero (n : Bool) : Dec.intVal n 0 = 0 := by cases n <;> simp [Dec.intVal]

theorem intVal_natAbs (n : Bool) (v : Nat) : (Dec.intVal n v).natAbs = v := by
  cases n <;> simp [Dec.intVal]

theorem intVal_neg_iff (n : Bool) (v : Nat) (hv : v ≠ 0) : decide (Dec.intVal n v < 0) = n := by
  cases n <;> simp [Dec.intVal] <;> omega

theorem intVal_not (n : Bool) (v : Nat) : Dec.intVal (!n) v = - Dec.intVal n v := by
  cases n <;> simp [Dec.intVal]

/-- a non-zero `mk n v 0` is the float of the integer `±v` -/
theorem mk_ofInt (n : Bool) (v : Nat) (hv : v ≠ 0) : F64.mk n v 0 = F64.ofInt (Dec.intVal n v) := by
  unfold F64.ofInt
  rw [intVal_natAbs, intVal_neg_iff n v hv]

theorem ofInt_eq_mk (z : Int) : F64.ofInt z = F64.mk (decide (z < 0)) z.natAbs 0 := rfl

/-- `mk` always produces a finite float with the given sign -/
theorem mk_fin (n : Bool) (v : Nat) (x : Int) : ∃ m e, F64.mk n v x = .fin n m e := by
  unfold F64.mk
  split
  · exact ⟨0, 0, rfl⟩
  · exact ⟨_, _, rfl⟩

/-- … with a non-zero significand and an exponent `≥ 0` when `v ≠ 0` -/
theorem mk_fin_pos (n : Bool) (v : Nat) (hv : v ≠ 0) : ∃ m k : Nat, F64.mk n v 0 = .fin n m (k : Int) ∧ m ≠ 0 := by
  obtain ⟨m, k, h1, h2, h3⟩ := F64.mk_spec n v 0 hv
  refine ⟨m, k, by rw [h1]; simp, by omega⟩

theorem neg_mk (n : Bool) (v : Nat) (x : Int) : (F64.mk n v x).neg = F64.mk (!n) v x := by
  unfold F64.mk
  split
  · rfl
  · rfl

theorem abs_mk (n : Bool) (v : Nat) (x : Int) : (F64.mk n v x).abs = F64.mk false v x := by
  unfold F64.mk
  split
  · rfl
  · rfl

theorem ceil_mk (n : Bool) (v : Nat) : (F64.mk n v 0).ceil = F64.mk n v 0 := by
  by_cases hv : v = 0
  · subst hv; rw [mk_zero]; simp [F64.ceil]
  · obtain ⟨m, k, h, _⟩ := mk_fin_pos n v hv
    rw [h]
    have : (k : Int) ≥ 0 := by omega
    simp [F64.ceil, this]

theorem floor_mk (n : Bool) (v : Nat) : (F64.mk n v 0).floor = F64.mk n v 0 := by
  by_cases hv : v = 0
  · subst hv; rw [mk_zero]; simp [F64.floor]
  · obtain ⟨m, k, h, _⟩ := mk_fin_pos n v hv
    rw [h]
    have : (k : Int) ≥ 0 := by omega
    simp [F64.floor, this]

theorem IntF.neg {k : Nat} {f : F64} (h : IntF k f) : IntF k f.neg := by
  obtain ⟨n, v, hv, rfl⟩ := h; exact ⟨!n, v, hv, neg_mk n v 0⟩
theorem IntF.abs {k : Nat} {f : F64} (h : IntF k f) : IntF k f.abs := by
  obtain ⟨n, v, hv, rfl⟩ := h; exact ⟨false, v, hv, abs_mk n v 0⟩
theorem IntF.ceil {k : Nat} {f : F64} (h : IntF k f) : IntF k f.ceil := by
  obtain ⟨n, v, hv, rfl⟩ := h; exact ⟨n, v, hv, ceil_mk n v⟩
theorem IntF.floor {k : Nat} {f : F64} (h : IntF k f) : IntF k f.floor := by
  obtain ⟨n, v, hv, rfl⟩ := h; exact ⟨n, v, hv, floor_mk n v⟩

/-! ### binary64 `+` on small integers -/

theorem f64_add_comm (a b : F64) : F64.add a b = F64.add b a := by
  cases a with
  | nan => cases b <;> rfl
  | inf n => cases b with
    | nan => rfl
    | inf m => simp only [F64.add]; by_cases h : n = m <;> simp [h, eq_comm]
    | fin _ _ _ => rfl
  | fin n1 m1 e1 => cases b with
    | nan => rfl
    | inf m => rfl
    | fin n2 m2 e2 =>
      simp only [F64.add, F64.addFin, Int.min_comm e1 e2]
      generalize (if n1 = true then (-1 : Int) else 1) * ((m1 * 2 ^ (e1 - min e2 e1).toNat : Nat) : Int) = A
      generalize (if n2 = true then (-1 : Int) else 1) * ((m2 * 2 ^ (e2 - min e2 e1).toNat : Nat) : Int) = B
      have hc : (m1 = 0 ∧ m2 = 0) = (m2 = 0 ∧ m1 = 0) := propext and_comm
      rw [Int.add_comm A B, Bool.and_comm n1 n2]
      simp only [hc]

/-- the sum of two floats holding integers, when it fits in 53 bits, is the float holding the exact sum -/
theorem add_mk (n1 n2 : Bool) (v1 v2 : Nat) (h : v1 + v2 < 2 ^ 53) :
    ∃ n w, F64.add (F64.mk n1 v1 0) (F64.mk n2 v2 0) = F64.mk n w 0 ∧
      Dec.intVal n w = Dec.intVal n1 v1 + Dec.intVal n2 v2 ∧ w ≤ v1 + v2 := by
  have key : ∀ (n1 n2 : Bool) (v1 v2 : Nat), v1 + v2 < 2 ^ 53 → v2 ≠ 0 →
      ∃ n w, F64.add (F64.mk n1 v1 0) (F64.mk n2 v2 0) = F64.mk n w 0 ∧
        Dec.intVal n w = Dec.intVal n1 v1 + Dec.intVal n2 v2 := by
    intro n1 n2 v1 v2 h h2
    by_cases h1 : v1 = 0
    · subst h1
      rw [mk_zero, mk_ofInt n2 v2 h2, intVal_zero, Int.zero_add]
      refine ⟨decide (Dec.intVal n2 v2 < 0), (Dec.intVal n2 v2).natAbs, ?_, F64.signed_natAbs _⟩
      cases n1
      · have := F64.add_ofInt 0 (Dec.intVal n2 v2) (by rw [Int.zero_add, intVal_natAbs]; omega)
        rw [F64.ofInt_zero, Int.zero_add] at this
        rw [this]; rfl
      · rw [f64_add_comm, F64.add_ofInt_negzero _ (by rw [intVal_natAbs]; omega)]; rfl
    · rw [mk_ofInt n1 v1 h1, mk_ofInt n2 v2 h2]
      have hb : (Dec.intVal n1 v1 + Dec.intVal n2 v2).natAbs < 2 ^ 53 := by
        have := intVal_natAbs n1 v1
        have := intVal_natAbs n2 v2
        omega
      rw [F64.add_ofInt _ _ hb]
      exact ⟨_, _, rfl, F64.signed_natAbs _⟩
  have fin : ∀ (n1 n2 : Bool) (v1 v2 : Nat), v1 + v2 < 2 ^ 53 →
      ∃ n w, F64.add (F64.mk n1 v1 0) (F64.mk n2 v2 0) = F64.mk n w 0 ∧
        Dec.intVal n w = Dec.intVal n1 v1 + Dec.intVal n2 v2 := by
    intro n1 n2 v1 v2 h
    by_cases h2 : v2 = 0
    · by_cases h1 : v1 = 0
      · subst h1; subst h2
        refine ⟨n1 && n2, 0, ?_, by simp [intVal_zero]⟩
        simp [mk_zero, F64.add, F64.addFin]
      · obtain ⟨n, w, e1, e2⟩ := key n2 n1 v2 v1 (by omega) h1
        exact ⟨n, w, by rw [f64_add_comm, e1], by rw [e2, Int.add_comm]⟩
    · exact key n1 n2 v1 v2 h h2
  obtain ⟨n, w, e1, e2⟩ := fin n1 n2 v1 v2 h
  refine ⟨n, w, e1, e2, ?_⟩
  have a1 := intVal_natAbs n w
  have a2 := intVal_natAbs n1 v1
  have a3 := intVal_natAbs n2 v2
  omega

theorem sub_mk (n1 n2 : Bool) (v1 v2 : Nat) (h : v1 + v2 < 2 ^ 53) :
    ∃ n w, F64.sub (F64.mk n1 v1 0) (F64.mk n2 v2 0) = F64.mk n w 0 ∧
      Dec.intVal n w = Dec.intVal n1 v1 - Dec.intVal n2 v2 ∧ w ≤ v1 + v2 := by
  unfold F64.sub
  rw [neg_mk]
  obtain ⟨n, w, e1, e2, e3⟩ := add_mk n1 (!n2) v1 v2 h
  exact ⟨n, w, e1, by rw [e2, intVal_not, Int.sub_eq_add_neg], e3⟩

/-! ### `*` -/

theorem intVal_mul (n1 n2 : Bool) (v1 v2 : Nat) :
    Dec.intVal (n1 != n2) (v1 * v2) = Dec.intVal n1 v1 * Dec.intVal n2 v2 := by
  cases n1 <;> cases n2 <;> simp [Dec.intVal, Int.natCast_mul, Int.neg_mul, Int.mul_neg]

theorem mul_mk (n1 n2 : Bool) (v1 v2 : Nat) (h : v1 * v2 < 2 ^ 53) :
    F64.mul (F64.mk n1 v1 0) (F64.mk n2 v2 0) = F64.mk (n1 != n2) (v1 * v2) 0 := by
  by_cases h1 : v1 = 0
  · subst h1
    obtain ⟨m, e, hm⟩ := mk_fin n2 v2 0
    rw [mk_zero, hm, Nat.zero_mul, mk_zero]
    simp [F64.mul]
  · by_cases h2 : v2 = 0
    · subst h2
      obtain ⟨m, e, hm⟩ := mk_fin n1 v1 0
      rw [mk_zero, hm, Nat.mul_zero, mk_zero]
      simp [F64.mul]
    · have h12 : v1 * v2 ≠ 0 := Nat.mul_ne_zero h1 h2
      rw [mk_ofInt n1 v1 h1, mk_ofInt n2 v2 h2, mk_ofInt _ _ h12, intVal_mul]
      refine F64.mul_ofInt _ _ ?_ ?_ ?_
      · intro e; have := intVal_natAbs n1 v1; rw [e] at this; simp at this; omega
      · intro e; have := intVal_natAbs n2 v2; rw [e] at this; simp at this; omega
      · rw [Int.natAbs_mul, intVal_natAbs, intVal_natAbs]; exact h

/-! ### `//` and `%` -/

theorem idiv_mk (n1 n2 : Bool) (v1 v2 : Nat) (h1 : v1 < 2 ^ 53) (h2 : v2 < 2 ^ 53) (hz : v2 ≠ 0) :
    (F64.div (F64.mk n1 v1 0) (F64.mk n2 v2 0)).trunc = F64.mk (n1 != n2) (v1 / v2) 0 := by
  by_cases h0 : v1 = 0
  · subst h0
    obtain ⟨m, k, hm, hm0⟩ := mk_fin_pos n2 v2 hz
    rw [mk_zero, hm, Nat.zero_div, mk_zero]
    simp [F64.div, hm0, F64.trunc]
  · rw [mk_ofInt n1 v1 h0, mk_ofInt n2 v2 hz]
    have hb0 : Dec.intVal n2 v2 ≠ 0 := by
      intro e; have := intVal_natAbs n2 v2; rw [e] at this; simp at this; omega
    rw [C14BF.trunc_div_ofInt _ _ hb0 (by rw [intVal_natAbs]; exact h1) (by rw [intVal_natAbs]; exact h2),
      intVal_natAbs, intVal_natAbs, intVal_neg_iff n1 v1 h0, intVal_neg_iff n2 v2 hz]

theorem mod_mk (n1 n2 : Bool) (v1 v2 : Nat) (hz : v2 ≠ 0) :
    F64.mod (F64.mk n1 v1 0) (F64.mk n2 v2 0) = F64.mk n1 (v1 % v2) 0 := by
  by_cases h0 : v1 = 0
  · subst h0
    obtain ⟨m, k, hm, hm0⟩ := mk_fin_pos n2 v2 hz
    rw [mk_zero, hm, Nat.zero_mod, mk_zero]
    simp [F64.mod, hm0]
  · rw [mk_ofInt n1 v1 h0, mk_ofInt n2 v2 hz]
    have hb0 : Dec.intVal n2 v2 ≠ 0 := by
      intro e; have := intVal_natAbs n2 v2; rw [e] at this; simp at this; omega
    rw [C14BF.mod_ofInt _ _ hb0, intVal_natAbs, intVal_natAbs, intVal_neg_iff n1 v1 h0]

/-- division by a zero float (of either sign) is not a number -/
theorem checkF_idiv_zero (n1 n2 : Bool) (v1 : Nat) :
    checkF (F64.div (F64.mk n1 v1 0) (F64.mk n2 0 0)).trunc = errNaN := by
  obtain ⟨m, e, hm⟩ := mk_fin n1 v1 0
  rw [mk_zero, hm]
  by_cases h : m = 0 <;> simp [F64.div, h, F64.trunc, checkF, F64.isInf, F64.isNaN]

theorem checkF_mod_zero (n1 n2 : Bool) (v1 : Nat) :
    checkF (F64.mod (F64.mk n1 v1 0) (F64.mk n2 0 0)) = errNaN := by
  obtain ⟨m, e, hm⟩ := mk_fin n1 v1 0
  rw [mk_zero, hm]
  simp [F64.mod, checkF, F64.isInf, F64.isNaN]

theorem intVal_tdiv (n1 n2 : Bool) (v1 v2 : Nat) :
    Dec.intVal (n1 != n2) (v1 / v2) = (Dec.intVal n1 v1).tdiv (Dec.intVal n2 v2) := by
  rw [C14BF.tdiv_intVal, intVal_natAbs, intVal_natAbs]
  by_cases hq : v1 / v2 = 0
  · rw [hq, intVal_zero, intVal_zero]
  · have h1 : v1 ≠ 0 := by intro e; subst e; simp at hq
    have h2 : v2 ≠ 0 := by intro e; subst e; simp at hq
    rw [intVal_neg_iff n1 v1 h1, intVal_neg_iff n2 v2 h2]

theorem intVal_tmod (n1 n2 : Bool) (v1 v2 : Nat) :
    Dec.intVal n1 (v1 % v2) = (Dec.intVal n1 v1).tmod (Dec.intVal n2 v2) := by
  rw [C14BF.tmod_intVal, intVal_natAbs, intVal_natAbs]
  by_cases hq : v1 % v2 = 0
  · rw [hq, intVal_zero, intVal_zero]
  · have h1 : v1 ≠ 0 := by intro e; subst e; simp at hq
    rw [intVal_neg_iff n1 v1 h1]

example : F64.add (F64.mk true 5 0) (F64.mk false 3 0) = F64.mk true 2 0 ∧
    F64.mul (F64.mk true 0 0) (F64.mk false 3 0) = F64.mk true 0 0 ∧
    (F64.div (F64.mk true 7 0) (F64.mk false 2 0)).trunc = F64.mk true 3 0 ∧
    F64.mod (F64.mk true 7 0) (F64.mk false 2 0) = F64.mk true 1 0 := by decide

/-! ## 2. decimals holding integers -/

/-- the decimal has the value of the integer `z` -/
def IsInt (d : Dec) (z : Int) : Prop := Dec.cmp d (Dec.ofInt z) = some 0

/-- the canonical decimal of an integer: sign, magnitude, exponent 0 -/
def canon (z : Int) : Dec := .fin (decide (z < 0)) z.natAbs 0

theorem IsInt.canon {d : Dec} {z : Int} (h : IsInt d z) : Dec.cmp d (canon z) = some 0 :=
  Dec.cmp_zero_trans h (Dec.cmp_ofInt z)

theorem isInt_of_canon {d : Dec} {z : Int} (h : Dec.cmp d (canon z) = some 0) : IsInt d z :=
  Dec.cmp_zero_trans h (Dec.cmp_zero_symm (Dec.cmp_ofInt z))

theorem isInt_fin {n : Bool} {v : Nat} {z : Int} (h : z = Dec.intVal n v) : IsInt (.fin n v 0) z :=
  Dec.cmp_zero_symm ((Dec.cmp_ofInt_fin_iff z n v).mpr h)

theorem IsInt.unique {d : Dec} {z z' : Int} (h : IsInt d z) (h' : IsInt d z') : z = z' :=
  (Dec.cmp_ofInt_ofInt_iff z z').mp (Dec.cmp_zero_trans (Dec.cmp_zero_symm h) h')

theorem IsInt.congr {d d' : Dec} {z : Int} (h : IsInt d z) (hc : Dec.cmp d d' = some 0) : IsInt d' z :=
  Dec.cmp_zero_trans (Dec.cmp_zero_symm hc) h

/-- the float `mk n v 0` converts to a decimal of value `±v` -/
theorem isInt_toDec_mk (n : Bool) (v : Nat) (hv : v < 2 ^ 53) : IsInt (F64.mk n v 0).toDec (Dec.intVal n v) :=
  Dec.cmp_zero_symm (F64.toDec_mk_int n v (by have := F64.two53_le_MAXSIG; omega))

/-- `Same a b` and `b` of the value of a finite `c`: then `a` has that value too -/
theorem same_to_cmp {a b c : Dec} (h : Dec.Same a b) (hbc : Dec.cmp b c = some 0) (hfin : c.isSpecial = false) :
    Dec.cmp a c = some 0 := by
  rcases h with ⟨_, h2⟩ | h
  · have := Dec.isSpecial_of_cmp_zero_left hbc h2
    subst this; rw [h2] at hfin; cases hfin
  · exact Dec.cmp_zero_trans h hbc

theorem fin_of_isInt {d : Dec} {z : Int} (h : IsInt d z) : ∃ n c e, d = .fin n c e :=
  Dec.fin_of_cmp_zero_fin (Dec.cmp_zero_symm h.canon)

theorem ofInt_fin (z : Int) : (Dec.ofInt z).isSpecial = false := by
  obtain ⟨n, c, e, h⟩ := Dec.fin_of_cmp_zero_fin (Dec.cmp_zero_symm (Dec.cmp_ofInt z))
  rw [h]; rfl

theorem sval00 (z : Int) : Dec.sval (decide (z < 0)) z.natAbs 0 0 = z := by
  rw [Dec.sval_signed]; simp

theorem canon_add (z1 z2 : Int) (h : (z1 + z2).natAbs ≤ Dec.MAXSIG) :
    Dec.cmp (Dec.add (canon z1) (canon z2)) (canon (z1 + z2)) = some 0 := by
  have hmin : min (0 : Int) 0 = 0 := by omega
  have hf : Dec.AddFits (canon z1) (canon z2) := by
    simp only [canon, Dec.AddFits, hmin, sval00]
    exact fits_of_lt h (by decide) (by decide)
  have := Dec.addFin_raw _ _ _ _ _ _ hf
  simp only [Dec.addRaw, hmin, sval00] at this
  exact this

theorem canon_neg (z : Int) : Dec.cmp (canon z).neg (canon (-z)) = some 0 := by
  refine Dec.cmp_zero_trans (b := Dec.ofInt (-z)) ?_ (Dec.cmp_ofInt _)
  refine Dec.cmp_zero_symm ((Dec.cmp_ofInt_fin_iff _ _ _).mpr ?_)
  unfold Dec.intVal
  by_cases hz : z < 0 <;> simp [hz] <;> omega

theorem canon_mul (z1 z2 : Int) (h : (z1 * z2).natAbs ≤ Dec.MAXSIG) :
    Dec.cmp (Dec.mul (canon z1) (canon z2)) (canon (z1 * z2)) = some 0 := by
  have hf : Dec.MulFits (canon z1) (canon z2) := by
    simp only [canon, Dec.MulFits]
    exact fits_of_lt (by rw [← Int.natAbs_mul]; exact h) (by decide) (by decide)
  refine Dec.cmp_zero_trans (Dec.mul_raw _ _ _ _ _ _ hf) ?_
  have e0 : (0 : Int) + 0 = 0 := rfl
  rw [e0]
  exact (isInt_fin (z := z1 * z2) (by rw [intVal_mul, F64.signed_natAbs, F64.signed_natAbs])).canon

/-- `+` on decimals holding integers -/
theorem isInt_add {a b : Dec} {z1 z2 : Int} (ha : IsInt a z1) (hb : IsInt b z2) (h : (z1 + z2).natAbs ≤ Dec.MAXSIG) :
    IsInt (Dec.add a b) (z1 + z2) :=
  isInt_of_canon (same_to_cmp (Dec.add_same ha.canon hb.canon) (canon_add z1 z2 h) rfl)

theorem isInt_neg {b : Dec} {z : Int} (hb : IsInt b z) : IsInt b.neg (-z) :=
  isInt_of_canon (Dec.cmp_zero_trans (Dec.neg_cmp hb.canon) (canon_neg z))

theorem isInt_sub {a b : Dec} {z1 z2 : Int} (ha : IsInt a z1) (hb : IsInt b z2) (h : (z1 - z2).natAbs ≤ Dec.MAXSIG) :
    IsInt (Dec.sub a b) (z1 - z2) := by
  rw [Dec.sub_eq_add_neg, Int.sub_eq_add_neg]
  exact isInt_add ha (isInt_neg hb) (by rw [← Int.sub_eq_add_neg]; exact h)

theorem isInt_mul {a b : Dec} {z1 z2 : Int} (ha : IsInt a z1) (hb : IsInt b z2) (h : (z1 * z2).natAbs ≤ Dec.MAXSIG) :
    IsInt (Dec.mul a b) (z1 * z2) :=
  isInt_of_canon (same_to_cmp (Dec.mul_same ha.canon hb.canon) (canon_mul z1 z2 h) rfl)

theorem isInt_idiv {a b : Dec} {z1 z2 : Int} (ha : IsInt a z1) (hb : IsInt b z2) (hz : z2 ≠ 0)
    (h : z1.natAbs ≤ Dec.MAXSIG) : IsInt (Dec.quoRem a b).1 (z1.tdiv z2) :=
  same_to_cmp (Dec.idiv_same ha hb) (C14BF.quoRem_ofInt z1 z2 hz h).1 (ofInt_fin _)

theorem isInt_mod {a b : Dec} {z1 z2 : Int} (ha : IsInt a z1) (hb : IsInt b z2) (hz : z2 ≠ 0)
    (h : z1.natAbs ≤ Dec.MAXSIG) : IsInt (Dec.quoRem a b).2 (z1.tmod z2) :=
  same_to_cmp (Dec.mod_same ha hb) (C14BF.quoRem_ofInt z1 z2 hz h).2 (ofInt_fin _)

/-- a decimal of value 0 is a finite zero -/
theorem isInt_zero_shape {b : Dec} (hb : IsInt b 0) : ∃ m e, b = .fin m 0 e := by
  obtain ⟨n, c, e, rfl⟩ := fin_of_isInt hb
  have h := hb.canon
  simp only [canon, Dec.cmp, Option.some.injEq] at h
  have := (Dec.cmpFin_coeff_zero h).mpr (by simp)
  subst this
  exact ⟨n, e, rfl⟩

theorem quoRem_zero_special {a b : Dec} (hb : IsInt b 0) :
    (Dec.quoRem a b).1.isSpecial = true ∧ (Dec.quoRem a b).2.isSpecial = true := by
  obtain ⟨m, e, rfl⟩ := isInt_zero_shape hb
  cases a with
  | nan => exact ⟨rfl, rfl⟩
  | inf n => exact ⟨rfl, rfl⟩
  | fin n c e' => by_cases hc : c = 0 <;> simp [Dec.quoRem, hc, Dec.isSpecial]

example : IsInt (Dec.add (.fin false 25 1) (.fin true 3 0)) 247 ∧ IsInt (Dec.quoRem (.fin true 70 (-1)) (.fin false 2 0)).1 (-3) := by
  constructor <;> (unfold IsInt; decide)

/-! ### the decimal results stay within the format -/

theorem add_bounded {a b : Dec} (ha : a.Bounded) (hb : b.Bounded) : (Dec.add a b).Bounded := by
  cases a with
  | nan => cases b <;> trivial
  | inf n => exact Dec.add_inf_left_bounded n b
  | fin n1 c1 e1 =>
    cases b with
    | nan => trivial
    | inf m => trivial
    | fin n2 c2 e2 =>
      simp only [Dec.add]
      unfold Dec.addFin
      split
      · split
        · simp [Dec.Bounded]
        · exact Dec.normalize_bounded hb
      · split
        · exact Dec.normalize_bounded ha
        · exact Dec.ite_bounded (Dec.fin_zero_bounded _ _) (Dec.reduce_bounded _ _ _ _)

theorem sub_bounded {a b : Dec} (ha : a.Bounded) (hb : b.Bounded) : (Dec.sub a b).Bounded := by
  rw [Dec.sub_eq_add_neg]; exact add_bounded ha (Dec.neg_bounded hb)

theorem mod_bounded {a : Dec} (b : Dec) (ha : a.Bounded) : (Dec.quoRem a b).2.Bounded := by
  cases a <;> cases b <;> simp only [Dec.quoRem] <;> first | trivial | exact Dec.normalize_bounded ha | skip
  split
  · split <;> trivial
  · split
    · simp [Dec.Bounded]
    · exact Dec.reduce_bounded _ _ _ _

end C14C
end Jmes
