/-
  Helper for property C20 (second round): the evaluator preserves "being a JSON value".

  `JV v` = `C20.JsonVal v` (no `foreign`, every number is a real number, object keys are unique) together with
  `v.NoFloat` (no binary float inside, so that the numeric functions only ever use the decimal arithmetic).
  Main results: `ieval_jv`, `evaluate_jv`, `search_jv`: on a `JV` document (current value, environment), an
  expression whose literals are `JV` evaluates — when it evaluates — to a `JV` value.

  The proof copies the structure of `Jmes/Proofs/NoFloat.lean` (`seval_nf`): one small lemma per operation of the
  evaluator, then a mutual structural recursion over the desugared tree.
-/
import Jmes.Properties.C20
import Jmes.Proofs.NoFloat
import Jmes.Proofs.DecExact
import Jmes.Proofs.Scope
import Jmes.Model.Api

namespace Jmes.C20B
open Jmes Jmes.C20 Jmes.Val

/-- a JSON value without binary floats: what a decoded JSON document is, and what the evaluator keeps -/
def JV (v : Val) : Prop := C20.JsonVal v ∧ v.NoFloat

/-- every binding of the environment is a JSON value -/
def EnvJV (env : Env) : Prop := ∀ k x, (k, x) ∈ env → JV x

/-! ## basic facts about `JV` -/

@[simp] theorem jv_null : JV .null := ⟨trivial, by simp⟩
@[simp] theorem jv_bool (b : Bool) : JV (.bool b) := ⟨trivial, by simp⟩
@[simp] theorem jv_str (s : Bytes) : JV (.str s) := ⟨trivial, by simp⟩
@[simp] theorem jv_foreign (t : Nat) : ¬ JV (.foreign t) := fun h => h.1

theorem normalize_fin_shape (n : Bool) (c : Nat) (e : Int) : ∃ n' c' e', Dec.normalize (.fin n c e) = .fin n' c' e' := by
  simp only [Dec.normalize]
  split
  · exact ⟨_, _, _, rfl⟩
  · exact ⟨_, _, _, rfl⟩

theorem normalize_fin_ne_nan (n : Bool) (c : Nat) (e : Int) : Dec.normalize (.fin n c e) ≠ .nan := by
  obtain ⟨n', c', e', h⟩ := normalize_fin_shape n c e
  rw [h]; exact fun h => Dec.noConfusion h

theorem ofInt_ne_nan (i : Int) : Dec.ofInt i ≠ .nan := by
  unfold Dec.ofInt
  split
  · exact fun h => Dec.noConfusion h
  · exact normalize_fin_ne_nan _ _ _

theorem abs_ne_nan {d : Dec} (h : d ≠ .nan) : d.abs ≠ .nan := by
  cases d <;> simp_all [Dec.abs]

theorem neg_ne_nan {d : Dec} (h : d ≠ .nan) : d.neg ≠ .nan := by
  cases d <;> simp_all [Dec.neg]

theorem ceil_ne_nan {d : Dec} (h : d ≠ .nan) : d.ceil ≠ .nan := by
  cases d with
  | nan => exact absurd rfl h
  | inf n => simp [Dec.ceil]
  | fin n c e =>
    simp only [Dec.ceil]
    repeat' split
    all_goals first | exact normalize_fin_ne_nan _ _ _ | exact fun h => Dec.noConfusion h

theorem floor_ne_nan {d : Dec} (h : d ≠ .nan) : d.floor ≠ .nan := by
  cases d with
  | nan => exact absurd rfl h
  | inf n => simp [Dec.floor]
  | fin n c e =>
    simp only [Dec.floor]
    repeat' split
    all_goals first | exact normalize_fin_ne_nan _ _ _ | exact fun h => Dec.noConfusion h

theorem ite_ne_nan {p : Prop} [Decidable p] {a b : Dec} (ha : a ≠ .nan) (hb : b ≠ .nan) :
    (if p then a else b) ≠ .nan := by split <;> assumption

theorem reduce_ne_nan (n : Bool) (c : Nat) (e : Int) (st : Bool) : Dec.reduce n c e st ≠ .nan := by
  unfold Dec.reduce
  split
  · exact fun h => Dec.noConfusion h
  · simp only
    exact ite_ne_nan (fun h => Dec.noConfusion h) (normalize_fin_ne_nan _ _ _)

theorem fin_ne_nan (n : Bool) (c : Nat) (e : Int) : Dec.fin n c e ≠ .nan := fun h => Dec.noConfusion h

/-- a successful parse result is not NaN -/
def OkNN : Dec.ParseResult → Prop
  | .ok r => r ≠ .nan
  | _ => True

theorem parseFinish_okNN (s : Dec.PState) (neg : Bool) : OkNN (Dec.parseFinish s neg) := by
  unfold Dec.parseFinish
  split
  · trivial
  · split
    · exact fin_ne_nan _ _ _
    · split
      · split
        · exact fin_ne_nan _ _ _
        · trivial
      · dsimp only
        generalize ((if s.eneg = true then -(s.exp : Int) else (s.exp : Int)) - s.nfrac) = e
        split
        · trivial
        · split
          · exact fin_ne_nan _ _ _
          · split
            · trivial
            · exact reduce_ne_nan _ _ _ _

theorem parseNumber_ne_nan {d : Bytes} {n s : Bool} {r : Dec} (h : Dec.parseNumber d n s = .ok r) : r ≠ .nan := by
  rw [Dec.parseNumber_eq] at h
  split at h
  · cases h
  · next st _ =>
    have := parseFinish_okNN st n
    rw [h] at this; exact this

theorem unmarshalJSON_ne_nan {s : Bytes} {r : Dec} (h : Dec.unmarshalJSON s = some r) : r ≠ .nan := by
  unfold Dec.unmarshalJSON at h
  split at h
  · cases h; exact fin_ne_nan _ _ _
  · split at h
    · cases h; exact fin_ne_nan _ _ _
    · simp only at h
      split at h
      · next hp => cases h; exact parseNumber_ne_nan hp
      · cases h

@[simp] theorem jv_int (k : IntKind) (i : Int) : JV (.num (.int k i)) :=
  ⟨⟨Dec.ofInt i, rfl, ofInt_ne_nan i⟩, by simp⟩

theorem jv_dec {d : Dec} (h : d ≠ .nan) : JV (.num (.dec d)) := ⟨numOk_dec h, by simp⟩

theorem jv_arr {t : ATag} {xs : List Val} : JV (.arr t xs) ↔ ∀ x ∈ xs, JV x := by
  simp only [JV, JsonVal, JsonValL_iff, noFloat_arr]
  exact ⟨fun h x hx => ⟨h.1 x hx, h.2 x hx⟩, fun h => ⟨fun x hx => (h x hx).1, fun x hx => (h x hx).2⟩⟩

theorem jv_obj {kvs : List (Bytes × Val)} :
    JV (.obj kvs) ↔ (kvs.map Prod.fst).Nodup ∧ ∀ k x, (k, x) ∈ kvs → JV x := by
  simp only [JV, JsonVal, JsonValF_iff, noFloat_obj, ObjOk]
  exact ⟨fun h => ⟨h.1.1, fun k x hx => ⟨h.1.2 k x hx, h.2 k x hx⟩⟩,
    fun h => ⟨⟨h.1, fun k x hx => (h.2 k x hx).1⟩, fun k x hx => (h.2 k x hx).2⟩⟩

@[simp] theorem jv_arr_nil (t : ATag) : JV (.arr t []) := jv_arr.mpr (by simp)
@[simp] theorem jv_obj_nil : JV (.obj []) := jv_obj.mpr (by simp)

/-- the decimal of a JSON value (if it is a number) is not NaN -/
theorem toDecimal_ne_nan {x : Val} (h : JV x) {d : Dec} (hd : toDecimal x = some d) : d ≠ .nan := by
  cases x with
  | num n =>
    obtain ⟨d', hd', hn⟩ := h.1
    rw [hd] at hd'; cases hd'; exact hn
  | _ => simp [toDecimal] at hd

theorem checkD_jv {r : Dec} {v : Val} (h : checkD r = .ok v) : JV v := by
  unfold checkD at h
  split at h
  · simp [errNaN] at h
  · split at h
    · simp [errNaN] at h
    · next hn =>
      cases h
      refine jv_dec ?_
      rintro rfl; simp [Dec.isNaN] at hn

/-! ## value level: numeric functions -/

theorem arith_result_jv {fop : F64 → F64 → F64} {dop : Dec → Dec → Dec} {x y v : Val} (h : x.NoFloat ∨ y.NoFloat)
    (hv : arith fop dop x y = .ok v) : JV v := by
  rw [arith_noFloat fop dop h] at hv
  split at hv
  · exact checkD_jv hv
  · simp [errType] at hv

theorem numAbs_result_jv {x v : Val} (h : JV x) (hv : numAbs x = .ok v) : JV v := by
  rw [numAbs_noFloat h.2] at hv
  split at hv
  · next d hd => cases hv; exact jv_dec (abs_ne_nan (toDecimal_ne_nan h hd))
  · simp [errType] at hv

theorem numCeil_result_jv {x v : Val} (h : JV x) (hv : numCeil x = .ok v) : JV v := by
  rw [numCeil_noFloat h.2] at hv
  split at hv
  · next d hd => cases hv; exact jv_dec (ceil_ne_nan (toDecimal_ne_nan h hd))
  · simp [errType] at hv

theorem numFloor_result_jv {x v : Val} (h : JV x) (hv : numFloor x = .ok v) : JV v := by
  rw [numFloor_noFloat h.2] at hv
  split at hv
  · next d hd => cases hv; exact jv_dec (floor_ne_nan (toDecimal_ne_nan h hd))
  · simp [errType] at hv

theorem negateVal_result_jv {x : Val} (h : JV x) : JV (negateVal x) := by
  rw [negateVal_noFloat h.2]
  split
  · simp
  · next d hd =>
    have := toDecimal_ne_nan h hd
    split
    · exact jv_dec this
    · exact jv_dec (neg_ne_nan this)

theorem numSum_result_jv {x v : Val} (hv : numSum x = .ok v) : JV v := by
  unfold numSum at hv
  split at hv
  · split at hv
    · simp [errType] at hv
    · split at hv
      · exact checkD_jv hv
      · simp at hv
  · simp [errType] at hv

theorem numAvg_result_jv {x v : Val} (hv : numAvg x = .ok v) : JV v := by
  unfold numAvg at hv
  split at hv
  · split at hv
    · cases hv; simp
    · split at hv
      · simp [errType] at hv
      · split at hv
        · exact checkD_jv hv
        · simp at hv
  · simp [errType] at hv

theorem toNumber_result_jv {x : Val} (h : JV x) : JV (toNumber x) := by
  unfold toNumber
  split
  · exact h
  · split
    · split
      · next d hd => exact jv_dec (unmarshalJSON_ne_nan hd)
      · simp
    · simp
  · simp

theorem allDecimals_ne_nan : ∀ {xs : List Val} {ds : List Dec}, (∀ x ∈ xs, JV x) → allDecimals xs = some ds →
    ∀ d ∈ ds, d ≠ .nan
  | [], ds, _, h => by simp [allDecimals] at h; subst h; simp
  | x :: xs, ds, hx, h => by
    simp only [allDecimals] at h
    split at h
    · cases h
    · next d hd =>
      simp only [Option.map_eq_some_iff] at h
      obtain ⟨ds', hds, rfl⟩ := h
      intro d' hd'
      rcases List.mem_cons.mp hd' with rfl | hd'
      · exact toDecimal_ne_nan (hx x (List.mem_cons_self ..)) hd
      · exact allDecimals_ne_nan (fun y hy => hx y (List.mem_cons_of_mem _ hy)) hds d' hd'

theorem maxDec_mem : ∀ (ds : List Dec) (m : Dec), maxDec m ds ∈ m :: ds
  | [], m => by simp [maxDec]
  | d :: ds, m => by
    simp only [maxDec]
    split
    · have := maxDec_mem ds d
      rcases List.mem_cons.mp this with h | h
      · rw [h]; simp
      · exact List.mem_cons_of_mem _ (List.mem_cons_of_mem _ h)
    · have := maxDec_mem ds m
      rcases List.mem_cons.mp this with h | h
      · rw [h]; simp
      · exact List.mem_cons_of_mem _ (List.mem_cons_of_mem _ h)

theorem minDec_mem : ∀ (ds : List Dec) (m : Dec), minDec m ds ∈ m :: ds
  | [], m => by simp [minDec]
  | d :: ds, m => by
    simp only [minDec]
    split
    · have := minDec_mem ds d
      rcases List.mem_cons.mp this with h | h
      · rw [h]; simp
      · exact List.mem_cons_of_mem _ (List.mem_cons_of_mem _ h)
    · have := minDec_mem ds m
      rcases List.mem_cons.mp this with h | h
      · rw [h]; simp
      · exact List.mem_cons_of_mem _ (List.mem_cons_of_mem _ h)

theorem arrayMax_result_jv {x v : Val} (h : JV x) (hv : arrayMax x = .ok v) : JV v := by
  unfold arrayMax at hv
  split at hv
  · next t xs =>
    have hall := jv_arr.mp h
    split at hv
    · cases hv; simp
    · split at hv
      · cases hv; simp
      · simp [errType] at hv
    · split at hv
      · next d ds hd =>
        split at hv
        · simp at hv
        · cases hv
          exact jv_dec (allDecimals_ne_nan hall hd _ (maxDec_mem ds d))
      · simp [errType] at hv
  · simp [errType] at hv

theorem arrayMin_result_jv {x v : Val} (h : JV x) (hv : arrayMin x = .ok v) : JV v := by
  unfold arrayMin at hv
  split at hv
  · next t xs =>
    have hall := jv_arr.mp h
    split at hv
    · cases hv; simp
    · split at hv
      · cases hv; simp
      · simp [errType] at hv
    · split at hv
      · next d ds hd =>
        split at hv
        · simp at hv
        · cases hv
          exact jv_dec (allDecimals_ne_nan hall hd _ (minDec_mem ds d))
      · simp [errType] at hv
  · simp [errType] at hv

/-! ## evaluator level: every operation of the evaluator maps JSON values to JSON values -/

theorem getD_jv {xs : List Val} (h : ∀ x ∈ xs, JV x) (n : Nat) : JV (xs.getD n .null) := by
  rw [List.getD_eq_getElem?_getD]
  cases hx : xs[n]? with
  | none => simp
  | some x => simp; exact h x (List.mem_of_getElem? hx)

theorem field_jv {v : Val} (k : Bytes) (h : JV v) : JV (field k v) := by
  unfold field
  split
  · next kvs =>
    cases hl : objLookup k kvs with
    | none => simp
    | some x => simp; exact (jv_obj.mp h).2 k x (objLookup_mem hl)
  · simp

theorem index_jv {v w : Val} {i : Int} (h : JV v) (hw : index v i = .ok w) : JV w := by
  cases v with
  | arr t xs =>
    simp only [index] at hw
    generalize (if i < 0 then i + (xs.length : Int) else i) = j at hw
    by_cases h1 : j < 0 ∨ j ≥ (xs.length : Int)
    · simp only [h1, if_true, Res.ok.injEq] at hw; subst hw; simp
    · simp only [h1, if_false] at hw
      by_cases h2 : enum2 t xs = true
      · simp [h2] at hw
      · simp only [h2, if_false, Res.ok.injEq, Bool.false_eq_true] at hw
        subst hw; exact getD_jv (jv_arr.mp h) _
  | _ => simp only [index, Res.ok.injEq] at hw; subst hw; simp

theorem pickStep_jv {xs : List Val} (h : ∀ x ∈ xs, JV x) (step : Int) : ∀ (n : Nat) (start : Int),
    ∀ y ∈ pickStep xs start step n, JV y
  | 0, _ => by simp [pickStep]
  | n + 1, start => by
    intro y hy
    simp only [pickStep, List.mem_cons] at hy
    rcases hy with rfl | hy
    · exact getD_jv h _
    · exact pickStep_jv h step n _ y hy

theorem slice_jv {v w : Val} {a b : Int} (h : JV v) (hw : slice v a b = .ok w) : JV w := by
  unfold slice at hw
  split at hw
  · next t xs =>
    split at hw
    · cases hw; simp [jv_arr]
    · split at hw
      · cases hw; simp [jv_arr]
      · split at hw
        · simp at hw
        · cases hw
          rw [jv_arr]
          intro x hx
          exact jv_arr.mp h x (List.mem_of_mem_drop (List.mem_of_mem_take hx))
  · split at hw <;> (cases hw; simp)
  · cases hw; simp

theorem sliceStep_jv {v w : Val} {a b s : Int} (h : JV v) (hw : sliceStep v a b s = .ok w) : JV w := by
  unfold sliceStep at hw
  split at hw
  · next t xs =>
    split at hw
    · cases hw; simp [jv_arr]
    · split at hw
      · simp at hw
      · cases hw
        rw [jv_arr]
        exact pickStep_jv (jv_arr.mp h) _ _ _
  · simp only at hw
    split at hw
    · cases hw; simp
    · split at hw <;> (cases hw; simp)
  · cases hw; simp

theorem pruneArray_jv {v : Val} (h : JV v) : JV (pruneArray v) := by
  unfold pruneArray
  split
  · next t xs =>
    split
    · rw [jv_arr]; intro x hx; exact jv_arr.mp h x (List.mem_filter.mp hx).1
    · exact h
  · simp


/-- `f` maps JSON values to JSON values -/
def JVfun (f : Val → Res Val) : Prop := ∀ x, JV x → ∀ v, f x = .ok v → JV v

theorem mapPrune_jv {f : Val → Res Val} (hf : JVfun f) : ∀ {xs r : List Val}, (∀ x ∈ xs, JV x) →
    mapPrune f xs = .ok r → ∀ y ∈ r, JV y
  | [], r, _, h => by simp [mapPrune] at h; subst h; simp
  | x :: xs, r, hx, h => by
    simp only [mapPrune, Res.bind_eq_ok, Res.pure_eq, Res.ok.injEq] at h
    obtain ⟨p, hp, rest, hrest, hr⟩ := h
    have ih := mapPrune_jv hf (fun y hy => hx y (List.mem_cons_of_mem _ hy)) hrest
    have hpn := hf x (hx x (List.mem_cons_self ..)) p hp
    subst hr
    intro y hy
    split at hy
    · exact ih y hy
    · rcases List.mem_cons.mp hy with rfl | hy
      · exact hpn
      · exact ih y hy

theorem mapAll_jv {f : Val → Res Val} (hf : JVfun f) : ∀ {xs r : List Val}, (∀ x ∈ xs, JV x) →
    mapAll f xs = .ok r → ∀ y ∈ r, JV y
  | [], r, _, h => by simp [mapAll] at h; subst h; simp
  | x :: xs, r, hx, h => by
    simp only [mapAll, Res.bind_eq_ok, Res.pure_eq, Res.ok.injEq] at h
    obtain ⟨p, hp, rest, hrest, hr⟩ := h
    have ih := mapAll_jv hf (fun y hy => hx y (List.mem_cons_of_mem _ hy)) hrest
    have hpn := hf x (hx x (List.mem_cons_self ..)) p hp
    subst hr
    intro y hy
    rcases List.mem_cons.mp hy with rfl | hy
    · exact hpn
    · exact ih y hy

theorem filterMapPrune_jv {c f : Val → Res Val} (hf : JVfun f) : ∀ {xs r : List Val}, (∀ x ∈ xs, JV x) →
    filterMapPrune c f xs = .ok r → ∀ y ∈ r, JV y
  | [], r, _, h => by simp [filterMapPrune] at h; subst h; simp
  | x :: xs, r, hx, h => by
    simp only [filterMapPrune, Res.bind_eq_ok] at h
    obtain ⟨b, hb, h⟩ := h
    have hx' : ∀ y ∈ xs, JV y := fun y hy => hx y (List.mem_cons_of_mem _ hy)
    split at h
    · simp only [Res.bind_eq_ok, Res.pure_eq, Res.ok.injEq] at h
      obtain ⟨p, hp, rest, hrest, hr⟩ := h
      have ih := filterMapPrune_jv hf hx' hrest
      have hpn := hf x (hx x (List.mem_cons_self ..)) p hp
      subst hr
      intro y hy
      split at hy
      · exact ih y hy
      · rcases List.mem_cons.mp hy with rfl | hy
        · exact hpn
        · exact ih y hy
    · exact filterMapPrune_jv hf hx' h

theorem projectArray_jv {f : Val → Res Val} (hf : JVfun f) {v w : Val} (h : JV v)
    (hw : projectArray f v = .ok w) : JV w := by
  unfold projectArray at hw
  split at hw
  · next t xs =>
    rw [widen_eq_ok] at hw
    simp only [Res.bind_eq_ok, Res.pure_eq, Res.ok.injEq] at hw
    obtain ⟨r, hr, rfl⟩ := hw
    exact jv_arr.mpr (mapPrune_jv hf (jv_arr.mp h) hr)
  · cases hw; simp

theorem mapArray_jv {f : Val → Res Val} (hf : JVfun f) {v w : Val} (h : JV v)
    (hw : mapArray f v = .ok w) : JV w := by
  unfold mapArray at hw
  split at hw
  · next t xs =>
    rw [widen_eq_ok] at hw
    simp only [Res.bind_eq_ok, Res.pure_eq, Res.ok.injEq] at hw
    obtain ⟨r, hr, rfl⟩ := hw
    exact jv_arr.mpr (mapAll_jv hf (jv_arr.mp h) hr)
  · simp [errType] at hw

theorem filterAndProjectArray_jv {c f : Val → Res Val} (hf : JVfun f) {v w : Val} (h : JV v)
    (hw : filterAndProjectArray c f v = .ok w) : JV w := by
  unfold filterAndProjectArray at hw
  split at hw
  · next t xs =>
    rw [widen_eq_ok] at hw
    simp only [Res.bind_eq_ok, Res.pure_eq, Res.ok.injEq] at hw
    obtain ⟨r, hr, rfl⟩ := hw
    exact jv_arr.mpr (filterMapPrune_jv hf (jv_arr.mp h) hr)
  · cases hw; simp

theorem flattenForProject_jv : ∀ {xs : List Val}, (∀ x ∈ xs, JV x) → ∀ y ∈ flattenForProject xs, JV y
  | [], _ => by simp [flattenForProject]
  | x :: xs, hx => by
    have ih := flattenForProject_jv (fun y hy => hx y (List.mem_cons_of_mem _ hy))
    have h0 := hx x (List.mem_cons_self ..)
    intro y hy
    cases x with
    | arr t ys =>
      simp only [flattenForProject, List.mem_append] at hy
      rcases hy with hy | hy
      · exact jv_arr.mp h0 y hy
      · exact ih y hy
    | _ =>
      simp only [flattenForProject, List.mem_cons] at hy
      rcases hy with rfl | hy
      · exact h0
      · exact ih y hy

theorem flattenAndProjectArray_jv {f : Val → Res Val} (hf : JVfun f) {v w : Val} (h : JV v)
    (hw : flattenAndProjectArray f v = .ok w) : JV w := by
  unfold flattenAndProjectArray at hw
  split at hw
  · next t xs =>
    rw [widen_eq_ok] at hw
    simp only [Res.bind_eq_ok, Res.pure_eq, Res.ok.injEq] at hw
    obtain ⟨r, hr, rfl⟩ := hw
    exact jv_arr.mpr (mapPrune_jv hf (flattenForProject_jv (jv_arr.mp h)) hr)
  · cases hw; simp

theorem obj_values_jv {kvs : List (Bytes × Val)} (h : JV (.obj kvs)) : ∀ x ∈ kvs.map Prod.snd, JV x := by
  intro x hx
  obtain ⟨⟨k, x'⟩, hm, rfl⟩ := List.mem_map.mp hx
  exact (jv_obj.mp h).2 k x' hm

theorem projectObject_jv {f : Val → Res Val} (hf : JVfun f) {v w : Val} (h : JV v)
    (hw : projectObject f v = .ok w) : JV w := by
  unfold projectObject at hw
  split at hw
  · next kvs =>
    simp only at hw
    rw [widen_eq_ok] at hw
    simp only [Res.bind_eq_ok, Res.pure_eq, Res.ok.injEq] at hw
    obtain ⟨r, hr, rfl⟩ := hw
    exact jv_arr.mpr (mapPrune_jv hf (obj_values_jv h) hr)
  · cases hw; simp



/-! groups -/
def GroupsJV (gs : List (Bytes × List Val)) : Prop := ∀ k g, (k, g) ∈ gs → ∀ x ∈ g, JV x

theorem groupInsert_jv {s : Bytes} {v : Val} (hv : JV v) : ∀ {gs : List (Bytes × List Val)}, GroupsJV gs →
    GroupsJV (groupInsert s v gs)
  | [], _ => by
    intro k g hm x hx
    simp only [groupInsert, List.mem_singleton, Prod.mk.injEq] at hm
    obtain ⟨_, rfl⟩ := hm
    simp at hx; subst hx; exact hv
  | (k', g') :: rest, h => by
    have hrest : GroupsJV rest := fun k g hm => h k g (List.mem_cons_of_mem _ hm)
    have hhead := h k' g' (List.mem_cons_self ..)
    intro k g hm x hx
    simp only [groupInsert] at hm
    split at hm
    · rcases List.mem_cons.mp hm with e | hm
      · cases e
        rcases List.mem_append.mp hx with hx | hx
        · exact hhead x hx
        · simp at hx; subst hx; exact hv
      · exact hrest k g hm x hx
    · split at hm
      · rcases List.mem_cons.mp hm with e | hm
        · cases e; simp at hx; subst hx; exact hv
        · exact h k g hm x hx
      · rcases List.mem_cons.mp hm with e | hm
        · cases e; exact hhead x hx
        · exact groupInsert_jv hv hrest k g hm x hx

theorem groupLoop_jv {f : Val → Res Val} : ∀ {xs : List Val} {acc r : List (Bytes × List Val)},
    (∀ x ∈ xs, JV x) → GroupsJV acc → groupLoop f xs acc = .ok r → GroupsJV r
  | [], acc, r, _, hacc, h => by simp [groupLoop] at h; subst h; exact hacc
  | x :: xs, acc, r, hx, hacc, h => by
    simp only [groupLoop, Res.bind_eq_ok] at h
    obtain ⟨rv, _, h⟩ := h
    split at h
    · exact groupLoop_jv (fun y hy => hx y (List.mem_cons_of_mem _ hy))
        (groupInsert_jv (hx x (List.mem_cons_self ..)) hacc) h
    · simp [errType] at h

/-- strictly key-sorted groups (hence duplicate-free keys) -/
def GSorted (gs : List (Bytes × List Val)) : Prop := gs.Pairwise (fun a b => bytesLt a.1 b.1 = true)

theorem pairwise_keys_nodup {α : Type} : ∀ {l : List (Bytes × α)},
    l.Pairwise (fun a b => bytesLt a.1 b.1 = true) → (l.map Prod.fst).Nodup
  | [], _ => by simp
  | p :: l, h => by
    rw [List.pairwise_cons] at h
    simp only [List.map_cons, List.nodup_cons]
    refine ⟨?_, pairwise_keys_nodup h.2⟩
    intro hm
    obtain ⟨q, hq, e⟩ := List.mem_map.mp hm
    have := h.1 q hq
    rw [e, bytesLt_irrefl] at this; cases this

theorem mem_groupInsert_key {p : Bytes × List Val} {s : Bytes} {v : Val} : ∀ {gs : List (Bytes × List Val)},
    p ∈ groupInsert s v gs → p.1 = s ∨ ∃ q ∈ gs, q.1 = p.1
  | [], h => by simp [groupInsert] at h; subst h; exact Or.inl rfl
  | (k, g) :: rest, h => by
    simp only [groupInsert] at h
    split at h
    · next e =>
      rcases List.mem_cons.mp h with h | h
      · subst h; exact Or.inl e.symm
      · exact Or.inr ⟨p, List.mem_cons_of_mem _ h, rfl⟩
    · split at h
      · rcases List.mem_cons.mp h with h | h
        · subst h; exact Or.inl rfl
        · exact Or.inr ⟨p, h, rfl⟩
      · rcases List.mem_cons.mp h with h | h
        · subst h; exact Or.inr ⟨(k, g), List.mem_cons_self .., rfl⟩
        · rcases mem_groupInsert_key h with h | ⟨q, hq, e⟩
          · exact Or.inl h
          · exact Or.inr ⟨q, List.mem_cons_of_mem _ hq, e⟩

theorem groupInsert_sorted (s : Bytes) (v : Val) : ∀ {gs : List (Bytes × List Val)}, GSorted gs →
    GSorted (groupInsert s v gs)
  | [], _ => by simp [groupInsert, GSorted]
  | (k, g) :: rest, h => by
    unfold GSorted at h ⊢
    rw [List.pairwise_cons] at h
    simp only [groupInsert]
    by_cases h1 : s = k
    · subst h1
      simp only [if_true]
      exact List.pairwise_cons.mpr ⟨h.1, h.2⟩
    · simp only [h1, if_false]
      by_cases h2 : bytesLt s k = true
      · simp only [h2, if_true]
        refine List.pairwise_cons.mpr ⟨?_, List.pairwise_cons.mpr h⟩
        intro p hp
        rcases List.mem_cons.mp hp with hp | hp
        · subst hp; exact h2
        · exact bytesLt_trans h2 (h.1 p hp)
      · simp only [h2, if_false, Bool.false_eq_true]
        refine List.pairwise_cons.mpr ⟨?_, groupInsert_sorted s v h.2⟩
        intro p hp
        rcases mem_groupInsert_key hp with hp | ⟨q, hq, e⟩
        · rw [hp]
          rcases bytesLt_total s k with h3 | h3 | h3
          · exact absurd h3 h2
          · exact absurd h3 h1
          · exact h3
        · rw [← e]; exact h.1 q hq

theorem groupLoop_sorted {f : Val → Res Val} : ∀ {xs : List Val} {acc r : List (Bytes × List Val)},
    GSorted acc → groupLoop f xs acc = .ok r → GSorted r
  | [], acc, r, hacc, h => by simp [groupLoop] at h; subst h; exact hacc
  | x :: xs, acc, r, hacc, h => by
    simp only [groupLoop, Res.bind_eq_ok] at h
    obtain ⟨rv, _, h⟩ := h
    split at h
    · exact groupLoop_sorted (groupInsert_sorted _ _ hacc) h
    · simp [errType] at h

theorem groupBy_jv {f : Val → Res Val} {v w : Val} (h : JV v) (hw : groupBy f v = .ok w) : JV w := by
  unfold groupBy at hw
  split at hw
  · next t xs =>
    split at hw
    · cases hw; simp
    · rw [widen_eq_ok] at hw
      simp only [Res.bind_eq_ok, Res.pure_eq, Res.ok.injEq] at hw
      obtain ⟨gs, hgs, rfl⟩ := hw
      have hj := groupLoop_jv (jv_arr.mp h) (fun _ _ hm => by simp at hm) hgs
      have hs : GSorted gs := groupLoop_sorted (by simp [GSorted]) hgs
      rw [jv_obj]
      refine ⟨?_, ?_⟩
      · have e : (gs.map (fun kg => (kg.1, Val.arr t.derived kg.2))).map Prod.fst = gs.map Prod.fst := by
          simp [List.map_map, Function.comp_def]
        rw [e]; exact pairwise_keys_nodup hs
      · intro k x hm
        obtain ⟨⟨k', g⟩, hm', e⟩ := List.mem_map.mp hm
        cases e
        exact jv_arr.mpr (hj k' g hm')
  · simp [errType] at hw


/-! max_by / min_by / sort_by -/
theorem arrayPickBy_jv {better : Key → Key → Bool} {f : Val → Res Val} {v w : Val} (h : JV v)
    (hw : arrayPickBy better f v = .ok w) : JV w := by
  unfold arrayPickBy at hw
  split at hw
  · next t xs =>
    split at hw
    · cases hw; simp
    · next x0 rest =>
      rw [widen_eq_ok] at hw
      simp only [Res.bind_eq_ok] at hw
      obtain ⟨ks, _, hw⟩ := hw
      split at hw
      · cases hw; simp
      · next k0 krest _ =>
        split at hw
        · simp at hw
        · cases hw
          have hall := jv_arr.mp h
          rcases pickBy_mem better (rest.zip krest) x0 k0 with e | ⟨p, hp, e⟩
          · rw [e]; exact hall x0 (List.mem_cons_self ..)
          · rw [e]; exact hall p.1 (List.mem_cons_of_mem _ (List.of_mem_zip (show (p.1, p.2) ∈ rest.zip krest from hp)).1)
  · simp [errType] at hw

theorem sortArrayBy_jv {f : Val → Res Val} {v w : Val} (h : JV v)
    (hw : sortArrayBy f v = .ok w) : JV w := by
  unfold sortArrayBy at hw
  split at hw
  · next t xs =>
    split at hw
    · cases hw; exact h
    · rw [widen_eq_ok] at hw
      simp only [Res.bind_eq_ok] at hw
      obtain ⟨ks, _, hw⟩ := hw
      split at hw
      · simp at hw
      · cases hw
        rw [jv_arr]
        intro x hx
        simp only [sortByKeys] at hx
        obtain ⟨p, hp, rfl⟩ := List.mem_map.mp hx
        have := List.mem_mergeSort.mp hp
        exact jv_arr.mp h p.1 (List.of_mem_zip (show (p.1, p.2) ∈ xs.zip ks from this)).1
  · simp [errType] at hw

/-! objects: every object accumulator of the evaluator is key-sorted (it starts empty and grows by `objInsert`),
    hence has unique keys.  NOTE `objInsert` alone does not preserve "unique keys" on an unsorted list. -/

/-- a key-sorted member list of JSON values -/
def AccJV (kvs : List (Bytes × Val)) : Prop := KeySorted kvs ∧ ∀ k x, (k, x) ∈ kvs → JV x

theorem accJV_nil : AccJV [] := ⟨by simp [KeySorted], by simp⟩

theorem accJV_obj {kvs : List (Bytes × Val)} (h : AccJV kvs) : JV (.obj kvs) :=
  jv_obj.mpr ⟨pairwise_keys_nodup h.1, h.2⟩

theorem objInsert_acc {k : Bytes} {v : Val} (hv : JV v) {acc : List (Bytes × Val)} (h : AccJV acc) :
    AccJV (objInsert k v acc) :=
  ⟨KeySorted_objInsert k v h.1, fun k' x hm => by
    rcases mem_objInsert hm with e | hm
    · cases e; exact hv
    · exact h.2 k' x hm⟩

theorem foldl_objInsert_acc : ∀ {kvs acc : List (Bytes × Val)}, (∀ k x, (k, x) ∈ kvs → JV x) → AccJV acc →
    AccJV (kvs.foldl (fun a kv => objInsert kv.1 kv.2 a) acc)
  | [], acc, _, hacc => by simpa using hacc
  | (k0, v0) :: rest, acc, hk, hacc => by
    simp only [List.foldl_cons]
    exact foldl_objInsert_acc (fun k x hm => hk k x (List.mem_cons_of_mem _ hm))
      (objInsert_acc (hk k0 v0 (List.mem_cons_self ..)) hacc)

theorem combineUnordered_acc {acc : Res (List (Bytes × Val))} {k : Bytes} {r : Res Val} {out : List (Bytes × Val)}
    (hacc : ∀ kvs, acc = .ok kvs → AccJV kvs) (hr : ∀ v, r = .ok v → JV v)
    (h : combineUnordered acc k r = .ok out) : AccJV out := by
  cases acc <;> cases r <;> simp [combineUnordered] at h
  subst h
  exact objInsert_acc (hr _ rfl) (hacc _ rfl)


/-! zip -/
theorem zipArgs_jv : ∀ {vs : List Val} {cols : List (List Val)}, (∀ v ∈ vs, JV v) → zipArgs vs = .ok cols →
    ∀ c ∈ cols, ∀ x ∈ c, JV x
  | [], cols, _, h => by simp [zipArgs] at h; subst h; simp
  | .arr t xs :: rest, cols, hv, h => by
    simp only [zipArgs, Res.bind_eq_ok] at h
    obtain ⟨cols', hc, h⟩ := h
    split at h
    · simp at h
    · simp only [Res.pure_eq, Res.ok.injEq] at h
      subst h
      have ih := zipArgs_jv (fun v hv' => hv v (List.mem_cons_of_mem _ hv')) hc
      intro c hc'
      rcases List.mem_cons.mp hc' with rfl | hc'
      · exact jv_arr.mp (hv _ (List.mem_cons_self ..))
      · exact ih c hc'
  | .null :: _, _, _, h => by simp [zipArgs, errType] at h
  | .bool _ :: _, _, _, h => by simp [zipArgs, errType] at h
  | .str _ :: _, _, _, h => by simp [zipArgs, errType] at h
  | .num _ :: _, _, _, h => by simp [zipArgs, errType] at h
  | .obj _ :: _, _, _, h => by simp [zipArgs, errType] at h
  | .foreign _ :: _, _, _, h => by simp [zipArgs, errType] at h

theorem zipRows_jv : ∀ (n : Nat) {cols : List (List Val)}, (∀ c ∈ cols, ∀ x ∈ c, JV x) →
    ∀ y ∈ zipRows n cols, JV y
  | 0, _, _ => by simp [zipRows]
  | n + 1, cols, h => by
    intro y hy
    simp only [zipRows, List.mem_cons] at hy
    rcases hy with rfl | hy
    · rw [jv_arr]
      intro x hx
      obtain ⟨c, hc, rfl⟩ := List.mem_map.mp hx
      cases c with
      | nil => simp
      | cons a c' => exact h _ hc a (List.mem_cons_self ..)
    · refine zipRows_jv n ?_ y hy
      intro c hc x hx
      obtain ⟨c0, hc0, rfl⟩ := List.mem_map.mp hc
      exact h c0 hc0 x (List.mem_of_mem_tail hx)


theorem strsToArr_jv (ss : List Bytes) : JV (strsToArr ss) := by
  unfold strsToArr
  rw [jv_arr]
  intro x hx
  obtain ⟨s, _, rfl⟩ := List.mem_map.mp hx
  simp

theorem runeIndexVal_jv (s : Bytes) (n : Nat) : JV (runeIndexVal s n) := by simp [runeIndexVal]

theorem strVal_jv (s : String) : JV (strVal s) := by simp [strVal]

set_option hygiene false in
/-- peel binds / matches off a hypothesis `hw : … = .ok w` and close the leaves -/
macro "jv_leaves" : tactic => `(tactic|
  (repeat' (first
     | (simp only [Res.bind_eq_ok, Res.pure_eq] at hw)
     | (obtain ⟨_, _, hw⟩ := hw)
     | (split at hw))
   all_goals (first
     | (simp [errType, errValue] at hw; done)
     | ((try simp only [Res.ok.injEq] at hw); (try subst hw);
        first | (simp; done) | (simp [jv_arr]; done) | exact strsToArr_jv _ | exact runeIndexVal_jv _ _ | exact strVal_jv _ | assumption))))

theorem startsWith_jv {a b w : Val} (hw : startsWith a b = .ok w) : JV w := by
  unfold startsWith at hw; jv_leaves
theorem endsWith_jv {a b w : Val} (hw : endsWith a b = .ok w) : JV w := by
  unfold endsWith at hw; jv_leaves
theorem findFirst_jv {a b w : Val} (hw : findFirst a b = .ok w) : JV w := by
  unfold findFirst at hw; jv_leaves
theorem findLast_jv {a b w : Val} (hw : findLast a b = .ok w) : JV w := by
  unfold findLast at hw; jv_leaves
theorem findFrom_jv {l : Bool} {a b c w : Val} (hw : findFrom l a b c = .ok w) : JV w := by
  unfold findFrom at hw; jv_leaves
theorem findBetween_jv {l : Bool} {a b c d w : Val} (hw : findBetween l a b c d = .ok w) : JV w := by
  unfold findBetween at hw; jv_leaves
theorem join_jv {a b w : Val} (hw : join a b = .ok w) : JV w := by
  unfold join at hw; jv_leaves
theorem padWith_jv {l : Bool} {s : Bytes} {n : Int} {p : Bytes} {orig w : Val} (ho : JV orig)
    (hw : padWith l s n p orig = .ok w) : JV w := by
  unfold padWith at hw; jv_leaves
theorem padLeft_jv {a b c w : Val} (ha : JV a) (hw : padLeft a b c = .ok w) : JV w := by
  unfold padLeft at hw
  simp only [Res.bind_eq_ok] at hw
  obtain ⟨_, _, _, _, _, _, hw⟩ := hw
  exact padWith_jv ha hw
theorem padRight_jv {a b c w : Val} (ha : JV a) (hw : padRight a b c = .ok w) : JV w := by
  unfold padRight at hw
  simp only [Res.bind_eq_ok] at hw
  obtain ⟨_, _, _, _, _, _, hw⟩ := hw
  exact padWith_jv ha hw
theorem padSpaceLeft_jv {a b w : Val} (ha : JV a) (hw : padSpaceLeft a b = .ok w) : JV w := by
  unfold padSpaceLeft at hw
  simp only [Res.bind_eq_ok] at hw
  obtain ⟨_, _, _, _, hw⟩ := hw
  exact padWith_jv ha hw
theorem padSpaceRight_jv {a b w : Val} (ha : JV a) (hw : padSpaceRight a b = .ok w) : JV w := by
  unfold padSpaceRight at hw
  simp only [Res.bind_eq_ok] at hw
  obtain ⟨_, _, _, _, hw⟩ := hw
  exact padWith_jv ha hw
theorem replace_jv {a b c w : Val} (hw : replace a b c = .ok w) : JV w := by
  unfold replace at hw; jv_leaves
theorem replaceCount_jv {a b c d w : Val} (hw : replaceCount a b c d = .ok w) : JV w := by
  unfold replaceCount at hw; jv_leaves
theorem split_jv {a b w : Val} (hw : split a b = .ok w) : JV w := by
  unfold split at hw; jv_leaves
theorem splitCount_jv {a b c w : Val} (hw : splitCount a b c = .ok w) : JV w := by
  unfold splitCount at hw; jv_leaves
theorem trim_jv {a b w : Val} (hw : trim a b = .ok w) : JV w := by
  unfold trim at hw; jv_leaves
theorem trimLeft_jv {a b w : Val} (hw : trimLeft a b = .ok w) : JV w := by
  unfold trimLeft at hw; jv_leaves
theorem trimRight_jv {a b w : Val} (hw : trimRight a b = .ok w) : JV w := by
  unfold trimRight at hw; jv_leaves
theorem trimSpace_jv {a w : Val} (hw : trimSpace a = .ok w) : JV w := by
  unfold trimSpace at hw; jv_leaves
theorem trimSpaceLeft_jv {a w : Val} (hw : trimSpaceLeft a = .ok w) : JV w := by
  unfold trimSpaceLeft at hw; jv_leaves
theorem trimSpaceRight_jv {a w : Val} (hw : trimSpaceRight a = .ok w) : JV w := by
  unfold trimSpaceRight at hw; jv_leaves
theorem caseMap_jv {f : Nat → Option Nat} {s : Bytes} {w : Val} (hw : caseMap f s = .ok w) : JV w := by
  unfold caseMap at hw; jv_leaves
theorem lower_jv {a w : Val} (hw : lower a = .ok w) : JV w := by
  unfold lower at hw
  split at hw
  · exact caseMap_jv hw
  · simp [errType] at hw
theorem upper_jv {a w : Val} (hw : upper a = .ok w) : JV w := by
  unfold upper at hw
  split at hw
  · exact caseMap_jv hw
  · simp [errType] at hw
theorem length_jv {a w : Val} (hw : length a = .ok w) : JV w := by
  unfold length at hw; jv_leaves
theorem typeName_jv {a w : Val} (hw : typeName a = .ok w) : JV w := by
  unfold typeName at hw; jv_leaves
theorem toStringV_jv {a w : Val} (hw : toStringV a = .ok w) : JV w := by
  unfold toStringV at hw; jv_leaves
theorem contains_jv {a b w : Val} (hw : contains a b = .ok w) : JV w := by
  unfold contains at hw; jv_leaves
theorem keys_jv {a w : Val} (hw : keys a = .ok w) : JV w := by
  unfold keys at hw
  split at hw
  · cases hw
    rw [jv_arr]; intro x hx
    obtain ⟨_, _, rfl⟩ := List.mem_map.mp hx; simp
  · simp [errType] at hw


theorem values_jv {a w : Val} (h : JV a) (hw : values a = .ok w) : JV w := by
  unfold values at hw
  split at hw
  · cases hw
    rw [jv_arr]; intro x hx
    obtain ⟨⟨k, x'⟩, hm, rfl⟩ := List.mem_map.mp hx
    exact (jv_obj.mp h).2 k x' hm
  · simp [errType] at hw

theorem items_jv {a w : Val} (h : JV a) (hw : items a = .ok w) : JV w := by
  unfold items at hw
  split at hw
  · cases hw
    rw [jv_arr]; intro x hx
    obtain ⟨⟨k, x'⟩, hm, rfl⟩ := List.mem_map.mp hx
    rw [jv_arr]; intro y hy
    simp only [List.mem_cons, List.not_mem_nil, or_false] at hy
    rcases hy with hy | hy
    · subst hy; simp
    · subst hy; exact (jv_obj.mp h).2 k _ hm
  · simp [errType] at hw

theorem fromItemsLoop_jv : ∀ {xs : List Val} {acc r : List (Bytes × Val)}, (∀ x ∈ xs, JV x) →
    AccJV acc → fromItemsLoop xs acc = .ok r → AccJV r
  | [], acc, r, _, hacc, h => by simp [fromItemsLoop] at h; subst h; exact hacc
  | .arr t ia :: xs, acc, r, hx, hacc, h => by
    have hx' : ∀ y ∈ xs, JV y := fun y hy => hx y (List.mem_cons_of_mem _ hy)
    have h0 := hx _ (List.mem_cons_self ..)
    simp only [fromItemsLoop] at h
    split at h
    · next k v =>
      split at h
      · simp at h
      · split at h
        · next s =>
          have hv : JV v := jv_arr.mp h0 v (by simp)
          exact fromItemsLoop_jv hx' (objInsert_acc hv hacc) h
        · simp [errValue] at h
    · simp [errValue] at h
  | .null :: _, _, _, _, _, h => by simp [fromItemsLoop, errType] at h
  | .bool _ :: _, _, _, _, _, h => by simp [fromItemsLoop, errType] at h
  | .str _ :: _, _, _, _, _, h => by simp [fromItemsLoop, errType] at h
  | .num _ :: _, _, _, _, _, h => by simp [fromItemsLoop, errType] at h
  | .obj _ :: _, _, _, _, _, h => by simp [fromItemsLoop, errType] at h
  | .foreign _ :: _, _, _, _, _, h => by simp [fromItemsLoop, errType] at h

theorem fromItems_jv {a w : Val} (h : JV a) (hw : fromItems a = .ok w) : JV w := by
  unfold fromItems at hw
  split at hw
  · next t xs =>
    split at hw
    · next kvs hl =>
      split at hw
      · simp at hw
      · cases hw
        exact accJV_obj (fromItemsLoop_jv (jv_arr.mp h) accJV_nil hl)
    · split at hw <;> simp at hw
    · simp at hw
    · simp at hw
    · simp at hw
  · simp [errType] at hw

theorem reverse_jv {a w : Val} (h : JV a) (hw : reverse a = .ok w) : JV w := by
  unfold reverse at hw
  split at hw
  · cases hw; simp
  · cases hw
    rw [jv_arr]; intro x hx
    exact jv_arr.mp h x (List.mem_reverse.mp hx)
  · simp [errType] at hw

theorem toArray_jv {a : Val} (h : JV a) : JV (toArray a) := by
  unfold toArray
  split
  · exact h
  · rw [jv_arr]; intro x hx; simp at hx; subst hx; exact h

theorem sortArray_jv {a w : Val} (h : JV a) (hw : sortArray a = .ok w) : JV w := by
  unfold sortArray at hw
  split at hw
  · next t xs =>
    split at hw
    · cases hw; exact h
    · split at hw
      · cases hw
        rw [jv_arr]; intro x hx
        obtain ⟨_, _, rfl⟩ := List.mem_map.mp hx; simp
      · simp [errType] at hw
    · split at hw
      · next ds _ =>
        simp only at hw
        split at hw
        · simp at hw
        · cases hw
          rw [jv_arr]; intro x hx
          obtain ⟨p, hp, rfl⟩ := List.mem_map.mp hx
          have := List.mem_mergeSort.mp hp
          exact jv_arr.mp h p.1 (List.of_mem_zip (show (p.1, p.2) ∈ xs.zip ds from this)).1
      · simp [errType] at hw
  · simp [errType] at hw


theorem applyBinOp_jv {op : BinOp} {x y v : Val} (hxy : x.NoFloat ∨ y.NoFloat) (h : applyBinOp op x y = .ok v) :
    JV v := by
  cases op
  case eq | ne =>
    simp only [applyBinOp, Res.bind_eq_ok, Res.pure_eq, Res.ok.injEq] at h
    obtain ⟨_, _, rfl⟩ := h; simp
  case lt | le | gt | ge =>
    simp only [applyBinOp, less, lessOrEqual, greater, greaterOrEqual, cmpOp, Res.ok.injEq] at h
    subst h
    split
    · simp
    · split <;> simp
  all_goals exact arith_result_jv hxy h

theorem applyFn_jv {f : Fn} {args : List Val} {w : Val} (ha : ∀ a ∈ args, JV a) (hw : applyFn f args = .ok w) :
    JV w := by
  have h0 : ∀ {a : Val} {l : List Val}, args = a :: l → JV a := fun e => ha _ (e ▸ List.mem_cons_self ..)
  unfold applyFn at hw
  split at hw
  · exact numAbs_result_jv (h0 rfl) hw
  · exact numAvg_result_jv hw
  · exact numCeil_result_jv (h0 rfl) hw
  · exact contains_jv hw
  · exact endsWith_jv hw
  · exact findFirst_jv hw
  · exact findBetween_jv hw
  · exact findFrom_jv hw
  · exact findLast_jv hw
  · exact findBetween_jv hw
  · exact findFrom_jv hw
  · exact numFloor_result_jv (h0 rfl) hw
  · exact fromItems_jv (h0 rfl) hw
  · exact items_jv (h0 rfl) hw
  · exact join_jv hw
  · exact keys_jv hw
  · exact length_jv hw
  · exact lower_jv hw
  · exact arrayMax_result_jv (h0 rfl) hw
  · exact arrayMin_result_jv (h0 rfl) hw
  · exact padLeft_jv (h0 rfl) hw
  · exact padRight_jv (h0 rfl) hw
  · exact padSpaceLeft_jv (h0 rfl) hw
  · exact padSpaceRight_jv (h0 rfl) hw
  · exact replace_jv hw
  · exact replaceCount_jv hw
  · exact reverse_jv (h0 rfl) hw
  · exact sortArray_jv (h0 rfl) hw
  · exact split_jv hw
  · exact splitCount_jv hw
  · exact startsWith_jv hw
  · exact numSum_result_jv hw
  · cases hw; exact toArray_jv (h0 rfl)
  · cases hw; exact toNumber_result_jv (h0 rfl)
  · exact toStringV_jv hw
  · exact trim_jv hw
  · exact trimLeft_jv hw
  · exact trimRight_jv hw
  · exact trimSpace_jv hw
  · exact trimSpaceLeft_jv hw
  · exact trimSpaceRight_jv hw
  · exact typeName_jv hw
  · exact upper_jv hw
  · exact values_jv (h0 rfl) hw
  · simp at hw

mutual
/-- every literal of the (desugared) expression is a JSON value without binary floats -/
def Tree.LitsJV : Tree → Prop
  | .lit v => JV v
  | .current | .root | .field _ | .var _ | .index _ | .slice _ _ | .sliceStep _ _ _ => True
  | .sub l r | .binop _ l r | .and l r | .or l r | .proj l r | .sliceProj l r | .flatProj l r | .valueProj l r
  | .groupBy l r | .map l r | .maxBy l r | .minBy l r | .sortBy l r => Tree.LitsJV l ∧ Tree.LitsJV r
  | .not c | .neg c | .pos c | .prune c => Tree.LitsJV c
  | .filterProj l c r => Tree.LitsJV l ∧ Tree.LitsJV c ∧ Tree.LitsJV r
  | .call _ args | .multiList _ args | .merge args | .notNull args | .zip args => Tree.LitsJVL args
  | .multiHash _ kvs => Tree.LitsJVF kvs
  | .letIn bs body => Tree.LitsJVF bs ∧ Tree.LitsJV body
def Tree.LitsJVL : List Tree → Prop
  | [] => True
  | t :: ts => Tree.LitsJV t ∧ Tree.LitsJVL ts
def Tree.LitsJVF : List (Bytes × Tree) → Prop
  | [] => True
  | (_, t) :: rest => Tree.LitsJV t ∧ Tree.LitsJVF rest
end


theorem envGet_jv {env : Env} (h : EnvJV env) {x : Bytes} {v : Val} (hv : env.get x = some v) : JV v :=
  h x v (objLookup_mem hv)

mutual
theorem seval_jv (root : Val) (hr : JV root) : (t : Tree) → (cur : Val) → (env : Env) → Tree.LitsJV t → JV cur →
    EnvJV env → ∀ w, seval root t cur env = .ok w → JV w
  | .lit v, cur, env, hl, hc, he, w, hw => by
    simp only [seval, Res.ok.injEq] at hw; subst hw; simpa [Tree.LitsJV] using hl
  | .current, cur, env, hl, hc, he, w, hw => by
    simp only [seval, Res.ok.injEq] at hw; subst hw; exact hc
  | .root, cur, env, hl, hc, he, w, hw => by
    simp only [seval, Res.ok.injEq] at hw; subst hw; exact hr
  | .field k, cur, env, hl, hc, he, w, hw => by
    simp only [seval, Res.ok.injEq] at hw; subst hw; exact field_jv k hc
  | .var x, cur, env, hl, hc, he, w, hw => by
    simp only [seval] at hw
    split at hw
    · next v hv => simp only [Res.ok.injEq] at hw; subst hw; exact envGet_jv he hv
    · simp at hw
  | .index i, cur, env, hl, hc, he, w, hw => by
    simp only [seval] at hw; exact index_jv hc hw
  | .slice a b, cur, env, hl, hc, he, w, hw => by
    simp only [seval] at hw; exact slice_jv hc hw
  | .sliceStep a b s, cur, env, hl, hc, he, w, hw => by
    simp only [seval] at hw; exact sliceStep_jv hc hw
  | .sub l r, cur, env, hl, hc, he, w, hw => by
    simp only [Tree.LitsJV] at hl
    simp only [seval, Res.bind_eq_ok] at hw
    obtain ⟨a, ha, hw⟩ := hw
    exact seval_jv root hr r a env hl.2 (seval_jv root hr l cur env hl.1 hc he a ha) he w hw
  | .binop op l r, cur, env, hl, hc, he, w, hw => by
    simp only [Tree.LitsJV] at hl
    simp only [seval, Res.bind_eq_ok] at hw
    obtain ⟨a, ha, b, hb, hw⟩ := hw
    exact applyBinOp_jv (Or.inl (seval_jv root hr l cur env hl.1 hc he a ha).2) hw
  | .and l r, cur, env, hl, hc, he, w, hw => by
    simp only [Tree.LitsJV] at hl
    simp only [seval, Res.bind_eq_ok] at hw
    obtain ⟨a, ha, hw⟩ := hw
    split at hw
    · simp only [Res.pure_eq, Res.ok.injEq] at hw; subst hw; exact seval_jv root hr l cur env hl.1 hc he a ha
    · exact seval_jv root hr r cur env hl.2 hc he w hw
  | .or l r, cur, env, hl, hc, he, w, hw => by
    simp only [Tree.LitsJV] at hl
    simp only [seval, Res.bind_eq_ok] at hw
    obtain ⟨a, ha, hw⟩ := hw
    split at hw
    · simp only [Res.pure_eq, Res.ok.injEq] at hw; subst hw; exact seval_jv root hr l cur env hl.1 hc he a ha
    · exact seval_jv root hr r cur env hl.2 hc he w hw
  | .not c, cur, env, hl, hc, he, w, hw => by
    simp only [seval, Res.bind_eq_ok, Res.pure_eq, Res.ok.injEq] at hw
    obtain ⟨a, _, rfl⟩ := hw; simp
  | .neg c, cur, env, hl, hc, he, w, hw => by
    simp only [Tree.LitsJV] at hl
    simp only [seval, Res.bind_eq_ok, Res.pure_eq, Res.ok.injEq] at hw
    obtain ⟨a, ha, rfl⟩ := hw
    exact negateVal_result_jv (seval_jv root hr c cur env hl hc he a ha)
  | .pos c, cur, env, hl, hc, he, w, hw => by
    simp only [Tree.LitsJV] at hl
    simp only [seval, Res.bind_eq_ok, Res.pure_eq, Res.ok.injEq] at hw
    obtain ⟨a, ha, rfl⟩ := hw
    split
    · exact seval_jv root hr c cur env hl hc he a ha
    · simp
  | .call f args, cur, env, hl, hc, he, w, hw => by
    simp only [Tree.LitsJV] at hl
    simp only [seval, Res.bind_eq_ok] at hw
    obtain ⟨vs, hvs, hw⟩ := hw
    exact applyFn_jv (sevalList_jv root hr args cur env hl hc he vs hvs) hw
  | .prune l, cur, env, hl, hc, he, w, hw => by
    simp only [Tree.LitsJV] at hl
    simp only [seval, Res.bind_eq_ok, Res.pure_eq, Res.ok.injEq] at hw
    obtain ⟨a, ha, rfl⟩ := hw
    exact pruneArray_jv (seval_jv root hr l cur env hl hc he a ha)
  | .proj l r, cur, env, hl, hc, he, w, hw => by
    simp only [Tree.LitsJV] at hl
    simp only [seval, Res.bind_eq_ok] at hw
    obtain ⟨a, ha, hw⟩ := hw
    exact projectArray_jv (fun x hx v hv => seval_jv root hr r x env hl.2 hx he v hv)
      (seval_jv root hr l cur env hl.1 hc he a ha) hw
  | .sliceProj l r, cur, env, hl, hc, he, w, hw => by
    simp only [Tree.LitsJV] at hl
    simp only [seval, Res.bind_eq_ok] at hw
    obtain ⟨a, ha, hw⟩ := hw
    have hna := seval_jv root hr l cur env hl.1 hc he a ha
    split at hw
    · exact seval_jv root hr r _ env hl.2 hna he w hw
    · exact projectArray_jv (fun x hx v hv => seval_jv root hr r x env hl.2 hx he v hv) hna hw
  | .flatProj l r, cur, env, hl, hc, he, w, hw => by
    simp only [Tree.LitsJV] at hl
    simp only [seval, Res.bind_eq_ok] at hw
    obtain ⟨a, ha, hw⟩ := hw
    exact flattenAndProjectArray_jv (fun x hx v hv => seval_jv root hr r x env hl.2 hx he v hv)
      (seval_jv root hr l cur env hl.1 hc he a ha) hw
  | .filterProj l c r, cur, env, hl, hc, he, w, hw => by
    simp only [Tree.LitsJV] at hl
    simp only [seval, Res.bind_eq_ok] at hw
    obtain ⟨a, ha, hw⟩ := hw
    exact filterAndProjectArray_jv (fun x hx v hv => seval_jv root hr r x env hl.2.2 hx he v hv)
      (seval_jv root hr l cur env hl.1 hc he a ha) hw
  | .valueProj l r, cur, env, hl, hc, he, w, hw => by
    simp only [Tree.LitsJV] at hl
    simp only [seval, Res.bind_eq_ok] at hw
    obtain ⟨a, ha, hw⟩ := hw
    exact projectObject_jv (fun x hx v hv => seval_jv root hr r x env hl.2 hx he v hv)
      (seval_jv root hr l cur env hl.1 hc he a ha) hw
  | .multiList chk es, cur, env, hl, hc, he, w, hw => by
    simp only [Tree.LitsJV] at hl
    simp only [seval] at hw
    split at hw
    · simp only [Res.ok.injEq] at hw; subst hw; simp
    · simp only [Res.bind_eq_ok, Res.pure_eq, Res.ok.injEq] at hw
      obtain ⟨vs, hvs, rfl⟩ := hw
      exact jv_arr.mpr (sevalList_jv root hr es cur env hl hc he vs hvs)
  | .multiHash chk kvs, cur, env, hl, hc, he, w, hw => by
    simp only [Tree.LitsJV] at hl
    simp only [seval] at hw
    split at hw
    · simp only [Res.ok.injEq] at hw; subst hw; simp
    · simp only [Res.bind_eq_ok, Res.pure_eq, Res.ok.injEq] at hw
      obtain ⟨fs, hfs, rfl⟩ := hw
      exact accJV_obj (sevalFields_jv root hr kvs cur env hl hc he fs hfs)
  | .letIn bs body, cur, env, hl, hc, he, w, hw => by
    simp only [Tree.LitsJV] at hl
    simp only [seval, Res.bind_eq_ok] at hw
    obtain ⟨vs, hvs, hw⟩ := hw
    have hvs' := sevalFields_jv root hr bs cur env hl.1 hc he vs hvs
    refine seval_jv root hr body cur (vs ++ env) hl.2 hc ?_ w hw
    intro k x hm
    rcases List.mem_append.mp hm with hm | hm
    · exact hvs'.2 k x hm
    · exact he k x hm
  | .groupBy a e, cur, env, hl, hc, he, w, hw => by
    simp only [Tree.LitsJV] at hl
    simp only [seval, Res.bind_eq_ok] at hw
    obtain ⟨v, hv, hw⟩ := hw
    exact groupBy_jv (seval_jv root hr a cur env hl.1 hc he v hv) hw
  | .map e a, cur, env, hl, hc, he, w, hw => by
    simp only [Tree.LitsJV] at hl
    simp only [seval, Res.bind_eq_ok] at hw
    obtain ⟨v, hv, hw⟩ := hw
    exact mapArray_jv (fun x hx v hv => seval_jv root hr e x env hl.1 hx he v hv)
      (seval_jv root hr a cur env hl.2 hc he v hv) hw
  | .maxBy a e, cur, env, hl, hc, he, w, hw => by
    simp only [Tree.LitsJV] at hl
    simp only [seval, Res.bind_eq_ok] at hw
    obtain ⟨v, hv, hw⟩ := hw
    exact arrayPickBy_jv (seval_jv root hr a cur env hl.1 hc he v hv) hw
  | .minBy a e, cur, env, hl, hc, he, w, hw => by
    simp only [Tree.LitsJV] at hl
    simp only [seval, Res.bind_eq_ok] at hw
    obtain ⟨v, hv, hw⟩ := hw
    exact arrayPickBy_jv (seval_jv root hr a cur env hl.1 hc he v hv) hw
  | .sortBy a e, cur, env, hl, hc, he, w, hw => by
    simp only [Tree.LitsJV] at hl
    simp only [seval, Res.bind_eq_ok] at hw
    obtain ⟨v, hv, hw⟩ := hw
    exact sortArrayBy_jv (seval_jv root hr a cur env hl.1 hc he v hv) hw
  | .merge args, cur, env, hl, hc, he, w, hw => by
    simp only [Tree.LitsJV] at hl
    simp only [seval, Res.bind_eq_ok, Res.pure_eq, Res.ok.injEq] at hw
    obtain ⟨kvs, hk, rfl⟩ := hw
    exact accJV_obj (sevalMerge_jv root hr args cur env [] hl hc he accJV_nil kvs hk)
  | .notNull args, cur, env, hl, hc, he, w, hw => by
    simp only [Tree.LitsJV] at hl
    simp only [seval] at hw
    exact sevalNotNull_jv root hr args cur env hl hc he w hw
  | .zip args, cur, env, hl, hc, he, w, hw => by
    simp only [Tree.LitsJV] at hl
    simp only [seval, Res.bind_eq_ok] at hw
    obtain ⟨vs, hvs, cols, hcols, hw⟩ := hw
    have hcn := zipArgs_jv (sevalZip_jv root hr args cur env hl hc he vs hvs) hcols
    split at hw
    · simp only [Res.pure_eq, Res.ok.injEq] at hw; subst hw; simp [jv_arr]
    · simp only [Res.pure_eq, Res.ok.injEq] at hw; subst hw
      exact jv_arr.mpr (zipRows_jv _ hcn)
theorem sevalList_jv (root : Val) (hr : JV root) : (ts : List Tree) → (cur : Val) → (env : Env) →
    Tree.LitsJVL ts → JV cur → EnvJV env → ∀ vs, sevalList root ts cur env = .ok vs → ∀ v ∈ vs, JV v
  | [], cur, env, hl, hc, he, vs, hw => by
    simp only [sevalList, Res.ok.injEq] at hw; subst hw; simp
  | t :: ts, cur, env, hl, hc, he, vs, hw => by
    simp only [Tree.LitsJVL] at hl
    simp only [sevalList, Res.bind_eq_ok, Res.pure_eq, Res.ok.injEq] at hw
    obtain ⟨v, hv, rest, hrest, rfl⟩ := hw
    intro y hy
    rcases List.mem_cons.mp hy with rfl | hy
    · exact seval_jv root hr t cur env hl.1 hc he _ hv
    · exact sevalList_jv root hr ts cur env hl.2 hc he rest hrest y hy
theorem sevalFields_jv (root : Val) (hr : JV root) : (fs : List (Bytes × Tree)) → (cur : Val) → (env : Env) →
    Tree.LitsJVF fs → JV cur → EnvJV env → ∀ kvs, sevalFields root fs cur env = .ok kvs →
    AccJV kvs
  | [], cur, env, hl, hc, he, kvs, hw => by
    simp only [sevalFields, Res.ok.injEq] at hw; subst hw; exact accJV_nil
  | (k, t) :: rest, cur, env, hl, hc, he, kvs, hw => by
    simp only [Tree.LitsJVF] at hl
    simp only [sevalFields] at hw
    exact combineUnordered_acc (fun kvs' h' => sevalFields_jv root hr rest cur env hl.2 hc he kvs' h')
      (fun v hv => seval_jv root hr t cur env hl.1 hc he v hv) hw
theorem sevalMerge_jv (root : Val) (hr : JV root) : (ts : List Tree) → (cur : Val) → (env : Env) →
    (acc : List (Bytes × Val)) → Tree.LitsJVL ts → JV cur → EnvJV env → AccJV acc →
    ∀ kvs, sevalMerge root ts cur env acc = .ok kvs → AccJV kvs
  | [], cur, env, acc, hl, hc, he, hacc, kvs, hw => by
    simp only [sevalMerge, Res.ok.injEq] at hw; subst hw; exact hacc
  | t :: ts, cur, env, acc, hl, hc, he, hacc, kvs, hw => by
    simp only [Tree.LitsJVL] at hl
    simp only [sevalMerge, Res.bind_eq_ok] at hw
    obtain ⟨v, hv, hw⟩ := hw
    have hvn := seval_jv root hr t cur env hl.1 hc he v hv
    split at hw
    · exact sevalMerge_jv root hr ts cur env _ hl.2 hc he
        (foldl_objInsert_acc (jv_obj.mp hvn).2 hacc) kvs hw
    · simp [errType] at hw
theorem sevalNotNull_jv (root : Val) (hr : JV root) : (ts : List Tree) → (cur : Val) → (env : Env) →
    Tree.LitsJVL ts → JV cur → EnvJV env → ∀ w, sevalNotNull root ts cur env = .ok w → JV w
  | [], cur, env, hl, hc, he, w, hw => by
    simp only [sevalNotNull, Res.ok.injEq] at hw; subst hw; simp
  | t :: ts, cur, env, hl, hc, he, w, hw => by
    simp only [Tree.LitsJVL] at hl
    simp only [sevalNotNull, Res.bind_eq_ok] at hw
    obtain ⟨v, hv, hw⟩ := hw
    split at hw
    · exact sevalNotNull_jv root hr ts cur env hl.2 hc he w hw
    · simp only [Res.pure_eq, Res.ok.injEq] at hw; subst hw
      exact seval_jv root hr t cur env hl.1 hc he _ hv
theorem sevalZip_jv (root : Val) (hr : JV root) : (ts : List Tree) → (cur : Val) → (env : Env) →
    Tree.LitsJVL ts → JV cur → EnvJV env → ∀ vs, sevalZip root ts cur env = .ok vs → ∀ v ∈ vs, JV v
  | [], cur, env, hl, hc, he, vs, hw => by
    simp only [sevalZip, Res.ok.injEq] at hw; subst hw; simp
  | t :: ts, cur, env, hl, hc, he, vs, hw => by
    simp only [Tree.LitsJVL] at hl
    simp only [sevalZip, Res.bind_eq_ok] at hw
    obtain ⟨v, hv, hw⟩ := hw
    have hvn := seval_jv root hr t cur env hl.1 hc he v hv
    split at hw
    · simp only [Res.bind_eq_ok, Res.pure_eq, Res.ok.injEq] at hw
      obtain ⟨rest, hrest, rfl⟩ := hw
      intro y hy
      rcases List.mem_cons.mp hy with rfl | hy
      · exact hvn
      · exact sevalZip_jv root hr ts cur env hl.2 hc he rest hrest y hy
    · simp [errType] at hw
end


/-! ### the same for the Go-shaped evaluator `ieval` over `INode` -/

mutual
/-- every literal of the expression is a JSON value without binary floats (what a JSON literal `` `…` `` or a raw
    string literal gives) -/
def INode.LitsJV : INode → Prop
  | .lit v => JV v
  | .current | .root | .field _ | .variable _ | .flattenCurrent | .indexCurrent _ | .smallIndexCurrent _
  | .objectValuesCurrent | .pruneArrayCurrent | .sliceCurrent _ _ | .sliceStepCurrent _ _ _ => True
  | .binop _ l r | .and l r | .or l r | .filter l r | .filterAndProjectCurrent l r | .flattenAndProject l r
  | .pipe l r | .projectArray l r | .projectObject l r | .selectArraySingle l r | .selectObjectSingle l _ r
  | .groupBy l r | .map l r | .maxBy l r | .minBy l r | .sortBy l r => INode.LitsJV l ∧ INode.LitsJV r
  | .not c | .negate c | .assertNumber c | .filterCurrent c | .flatten c | .flattenAndProjectCurrent c | .index c _
  | .objectValues c | .projectArrayCurrent c | .projectObjectCurrent c | .pruneArray c | .selectArraySingleCurrent c
  | .selectObjectSingleCurrent _ c | .slice c _ _ | .sliceStep c _ _ _ => INode.LitsJV c
  | .filterAndProject l f r => INode.LitsJV l ∧ INode.LitsJV f ∧ INode.LitsJV r
  | .call _ args | .selectArrayCurrent args | .merge args | .notNull args | .zip args => INode.LitsJVL args
  | .selectArray c fs => INode.LitsJV c ∧ INode.LitsJVL fs
  | .selectObject c fs => INode.LitsJV c ∧ INode.LitsJVF fs
  | .selectObjectCurrent fs => INode.LitsJVF fs
  | .defineVariables vars child => INode.LitsJVF vars ∧ INode.LitsJV child
def INode.LitsJVL : List INode → Prop
  | [] => True
  | n :: ns => INode.LitsJV n ∧ INode.LitsJVL ns
def INode.LitsJVF : List (Bytes × INode) → Prop
  | [] => True
  | (_, n) :: rest => INode.LitsJV n ∧ INode.LitsJVF rest
end

mutual
theorem desugar_litsJV : (n : INode) → INode.LitsJV n → Tree.LitsJV (desugar n)
  | .lit v, h => by simpa [desugar, INode.LitsJV, Tree.LitsJV] using h
  | .current, _ | .root, _ | .field _, _ | .variable _, _ | .flattenCurrent, _ | .indexCurrent _, _
  | .smallIndexCurrent _, _ | .objectValuesCurrent, _ | .pruneArrayCurrent, _ | .sliceCurrent _ _, _
  | .sliceStepCurrent _ _ _, _ => by simp [desugar, Tree.LitsJV]
  | .binop _ l r, h | .and l r, h | .or l r, h | .flattenAndProject l r, h | .pipe l r, h | .projectObject l r, h
  | .groupBy l r, h | .map l r, h | .maxBy l r, h | .minBy l r, h | .sortBy l r, h => by
    simp only [INode.LitsJV] at h
    simp only [desugar, Tree.LitsJV]
    exact ⟨desugar_litsJV l h.1, desugar_litsJV r h.2⟩
  | .projectArray l r, h => by
    simp only [INode.LitsJV] at h
    simp only [desugar]
    split <;> (simp only [Tree.LitsJV]; exact ⟨desugar_litsJV l h.1, desugar_litsJV r h.2⟩)
  | .filter l r, h => by
    simp only [INode.LitsJV] at h
    simp only [desugar, Tree.LitsJV]
    exact ⟨desugar_litsJV l h.1, desugar_litsJV r h.2, trivial⟩
  | .filterAndProjectCurrent l r, h => by
    simp only [INode.LitsJV] at h
    simp only [desugar, Tree.LitsJV]
    exact ⟨trivial, desugar_litsJV l h.1, desugar_litsJV r h.2⟩
  | .filterAndProject l f r, h => by
    simp only [INode.LitsJV] at h
    simp only [desugar, Tree.LitsJV]
    exact ⟨desugar_litsJV l h.1, desugar_litsJV f h.2.1, desugar_litsJV r h.2.2⟩
  | .filterCurrent c, h => by
    simp only [INode.LitsJV] at h
    simp only [desugar, Tree.LitsJV]
    exact ⟨trivial, desugar_litsJV c h, trivial⟩
  | .selectArraySingle l r, h => by
    simp only [INode.LitsJV] at h
    simp only [desugar, Tree.LitsJV, Tree.LitsJVL]
    exact ⟨desugar_litsJV l h.1, desugar_litsJV r h.2, trivial⟩
  | .selectObjectSingle l _ r, h => by
    simp only [INode.LitsJV] at h
    simp only [desugar, Tree.LitsJV, Tree.LitsJVF]
    exact ⟨desugar_litsJV l h.1, desugar_litsJV r h.2, trivial⟩
  | .not c, h | .negate c, h | .assertNumber c, h | .pruneArray c, h => by
    simp only [INode.LitsJV] at h
    simp only [desugar, Tree.LitsJV]
    exact desugar_litsJV c h
  | .flatten c, h | .objectValues c, h | .index c _, h | .slice c _ _, h | .sliceStep c _ _ _, h => by
    simp only [INode.LitsJV] at h
    simp only [desugar, Tree.LitsJV]
    exact ⟨desugar_litsJV c h, trivial⟩
  | .flattenAndProjectCurrent c, h | .projectArrayCurrent c, h | .projectObjectCurrent c, h => by
    simp only [INode.LitsJV] at h
    simp only [desugar, Tree.LitsJV]
    exact ⟨trivial, desugar_litsJV c h⟩
  | .selectArraySingleCurrent c, h => by
    simp only [INode.LitsJV] at h
    simp only [desugar, Tree.LitsJV, Tree.LitsJVL]
    exact ⟨desugar_litsJV c h, trivial⟩
  | .selectObjectSingleCurrent _ c, h => by
    simp only [INode.LitsJV] at h
    simp only [desugar, Tree.LitsJV, Tree.LitsJVF]
    exact ⟨desugar_litsJV c h, trivial⟩
  | .call _ args, h | .selectArrayCurrent args, h | .merge args, h | .notNull args, h | .zip args, h => by
    simp only [INode.LitsJV] at h
    simp only [desugar, Tree.LitsJV]
    exact desugarList_litsJV args h
  | .selectArray c fs, h => by
    simp only [INode.LitsJV] at h
    simp only [desugar, Tree.LitsJV]
    exact ⟨desugar_litsJV c h.1, desugarList_litsJV fs h.2⟩
  | .selectObject c fs, h => by
    simp only [INode.LitsJV] at h
    simp only [desugar, Tree.LitsJV]
    exact ⟨desugar_litsJV c h.1, desugarFields_litsJV fs h.2⟩
  | .selectObjectCurrent fs, h => by
    simp only [INode.LitsJV] at h
    simp only [desugar, Tree.LitsJV]
    exact desugarFields_litsJV fs h
  | .defineVariables vars child, h => by
    simp only [INode.LitsJV] at h
    simp only [desugar, Tree.LitsJV]
    exact ⟨desugarFields_litsJV vars h.1, desugar_litsJV child h.2⟩
theorem desugarList_litsJV : (ns : List INode) → INode.LitsJVL ns → Tree.LitsJVL (desugarList ns)
  | [], _ => by simp [desugarList, Tree.LitsJVL]
  | n :: ns, h => by
    simp only [INode.LitsJVL] at h
    simp only [desugarList, Tree.LitsJVL]
    exact ⟨desugar_litsJV n h.1, desugarList_litsJV ns h.2⟩
theorem desugarFields_litsJV : (fs : List (Bytes × INode)) → INode.LitsJVF fs → Tree.LitsJVF (desugarFields fs)
  | [], _ => by simp [desugarFields, Tree.LitsJVF]
  | (k, n) :: rest, h => by
    simp only [INode.LitsJVF] at h
    simp only [desugarFields, Tree.LitsJVF]
    exact ⟨desugar_litsJV n h.1, desugarFields_litsJV rest h.2⟩
end

/-- **the evaluator preserves JSON values**: on a JSON document, current value and environment, an expression whose
    literals are JSON values evaluates — when it evaluates — to a JSON value: no `foreign`, every number is a real
    number (not NaN), every object has unique keys, and no binary float appears -/
theorem ieval_jv {root : Val} (hr : JV root) {n : INode} (hl : INode.LitsJV n) {cur : Val} (hc : JV cur)
    {env : Env} (he : EnvJV env) {w : Val} (hw : ieval root n cur env = .ok w) : JV w := by
  rw [ieval_desugar] at hw
  exact seval_jv root hr (desugar n) cur env (desugar_litsJV n hl) hc he w hw

/-- the same for `Evaluate(node, data)`: the result of evaluating on a JSON document is a JSON value -/
theorem evaluate_jv {n : INode} (hl : INode.LitsJV n) {data : Val} (hd : JV data) {w : Val}
    (hw : evaluate n data = .ok w) : JV w :=
  ieval_jv hd hl hd (fun _ _ hm => by simp at hm) hw

/-- the same for `Search(expr, data)`: when the expression compiles to `n` (whose literals are JSON values), a
    successful search on a JSON document returns a JSON value -/
theorem search_jv {expr : Bytes} {n : INode} (hp : Parser.parse expr = .ok n) (hl : INode.LitsJV n) {data : Val}
    (hd : JV data) {w : Val} (hw : search expr data = .ok w) : JV w := by
  unfold search at hw
  rw [hp] at hw
  exact evaluate_jv hl hd hw

/-! ## Examples (non-vacuity) -/

namespace ClosureExamples

/-- the document `{"a": 1, "b": [true, "x"]}` of C20 is a JSON value -/
theorem jv_objAB : JV C20.objAB :=
  ⟨C20.jv_objAB, by simp [C20.objAB, C20.one, Val.NoFloat, Val.NoFloatF, Val.NoFloatL, Num.NoFloat]⟩

/-- a number read from JSON text (`json.Number` "1") and a Go `int` are JSON values; NaN, a binary float, a
    foreign Go value and an object with a repeated key are not -/
example : JV (.num (.jnum [0x31])) := ⟨⟨_, rfl, by decide⟩, by simp⟩
example : JV C20.oneInt := jv_int _ _
example : ¬ JV (.num (.dec .nan)) := by rintro ⟨⟨d, hd, hn⟩, _⟩; cases hd; exact hn rfl
example : ¬ JV (.num (.f64 default)) := fun h => Val.noFloat_f64 _ h.2
example : ¬ JV (.foreign 3) := by simp
example : ¬ JV (.obj [(C20.kA, .null), (C20.kA, .null)]) := by
  intro h; exact absurd (jv_obj.mp h).1 (by decide)

/-- `objInsert` does NOT preserve "unique keys" on an unsorted member list: inserting `a` into `[b, a]` gives
    `[a, b, a]`.  This is why the proof carries the `KeySorted` invariant for every accumulator (`AccJV`); every
    accumulator of the evaluator starts empty, so the invariant holds. -/
example : (([(C20.kB, Val.null), (C20.kA, Val.null)] : List (Bytes × Val)).map Prod.fst).Nodup ∧
    ¬ ((objInsert C20.kA Val.null [(C20.kB, Val.null), (C20.kA, Val.null)]).map Prod.fst).Nodup := by decide

/-- `a + a` on the document: the sum `2` is a JSON value -/
def exAdd : INode := .binop .add (.field C20.kA) (.field C20.kA)
example : evaluate exAdd C20.objAB = .ok C20.two := rfl
example : JV C20.two := evaluate_jv (n := exAdd) (by simp [exAdd, INode.LitsJV]) jv_objAB (w := C20.two) rfl

/-- `{b: a, a: b}` on the document: the members come out key-sorted, hence with unique keys -/
def exHash : INode := .selectObjectCurrent [(C20.kB, .field C20.kA), (C20.kA, .field C20.kB)]
def exHashOut : Val := .obj [(C20.kA, .arr .plain [.bool true, .str [0x78]]), (C20.kB, C20.one)]
example : evaluate exHash C20.objAB = .ok exHashOut := rfl
example : JV exHashOut :=
  evaluate_jv (n := exHash) (by simp [exHash, INode.LitsJV, INode.LitsJVF]) jv_objAB (w := exHashOut) rfl
/-- with a variable bound to a JSON value in the environment -/
example : JV C20.one :=
  ieval_jv (root := .null) (by simp) (n := .variable [0x78]) (by simp [INode.LitsJV]) (cur := .null) (by simp)
    (env := [([0x78], C20.one)]) (fun k x hm => by simp at hm; rw [hm.2]; exact jv_dec (by decide)) (w := C20.one) rfl
/-- a literal that is not a JSON value is excluded by `LitsJV` (and would indeed come out unchanged) -/
example : ¬ INode.LitsJV (.lit (.foreign 0)) := by simp [INode.LitsJV]
example : evaluate (.lit (.foreign 0)) .null = .ok (.foreign 0) := rfl

/-- the text `a + a` compiles to `exAdd`, so `Search("a + a", doc)` returns a JSON value -/
theorem parse_exAdd : Parser.parse [0x61, 0x20, 0x2B, 0x20, 0x61] = .ok exAdd := by
  have h : (match Parser.parse [0x61, 0x20, 0x2B, 0x20, 0x61] with
    | .ok (.binop .add (.field [0x61]) (.field [0x61])) => true
    | _ => false) = true := by decide +kernel
  split at h
  · assumption
  · cases h
example : search [0x61, 0x20, 0x2B, 0x20, 0x61] C20.objAB = .ok C20.two := by
  unfold search; rw [parse_exAdd]; rfl
example : JV C20.two :=
  search_jv parse_exAdd (by simp [exAdd, INode.LitsJV]) jv_objAB (w := C20.two) (by unfold search; rw [parse_exAdd]; rfl)

/-- per-operation lemmas on concrete values -/
example : JV (.num (.dec (Dec.fin true 3 0).abs)) := numAbs_result_jv (x := .num (.dec (.fin true 3 0))) (jv_dec (by decide)) rfl
example : Dec.unmarshalJSON [0x31] ≠ some .nan := fun h => unmarshalJSON_ne_nan h rfl
example : AccJV (objInsert C20.kA .null (objInsert C20.kB .null [])) := objInsert_acc jv_null (objInsert_acc jv_null accJV_nil)

end ClosureExamples

end Jmes.C20B

#print axioms Jmes.C20B.ieval_jv
#print axioms Jmes.C20B.evaluate_jv
#print axioms Jmes.C20B.search_jv
