/-
  C01 (fourth wave) — helpers for `Properties/C01E.lean`.

    * `SemP rule`: the reference semantics `Sem` of `Proofs/C01CSem.lean` with the null rule of multi-select as a
      PARAMETER: `rule form n = true` says "a multi-select of this form (`[…]`/`{…}` without left operand; `.[…]` at the
      start of a right-hand side; `l.[…]` with a left operand) with `n` members, evaluated on `null`, is `null`";
      `false`: "its members are evaluated on `null` like on any other value".  Every other arm is the arm of `Sem`.
        - `goRule`  : what the Go program does (known finding KF10): null, except the one-member forms without an
                      explicit left operand.  `Sem_eq_SemP_goRule : Sem t = SemP goRule t`, unconditionally.
        - `specRule`: a multi-select on `null` is `null`, whatever the form and the member count.  `SemSpec`.
        - `pipeRule`: the reading the compliance corpus suggests (pipe.json: `` `null` | [@] `` is `[null]`,
                      `` `null` | {foo: @} `` is `{"foo": null}`): only a LEFT OPERAND that is null makes a multi-select
                      null; written without one it evaluates its members on the current node, null or not.  `SemPipe`.
    * `NoMSP r1 r2 t root cur env`: the RUN of `t` on `cur` never evaluates, on a `null` current node, a multi-select on
      whose (form, member count) the rules `r1` and `r2` differ.  Defined by recursion on `t`, following the evaluation
      order of `SemP r2`.
    * `SemP_congr`: `NoMSP r1 r2 t root cur env → SemP r1 t root cur env = SemP r2 t root cur env`.
    * `noForm bad t`: the syntactic sufficient condition (no multi-select whose (form, member count) satisfies `bad`
      occurs in `t`), `noForm_NoMSP`.
-/
import Jmes.Proofs.C01CMain
import Jmes.Proofs.C17CLemmas
set_option linter.unusedSimpArgs false
namespace Jmes.C01E
open Jmes Jmes.Grammar Jmes.Spec Jmes.C01C

/-! ## The null rule as a parameter -/

/-- how a multi-select is written -/
inductive MSForm where
  /-- `[e, …]`, `{k: e, …}`: no left operand -/
  | bare
  /-- `.[e, …]`, `.{k: e, …}`, `.[*]` at the start of the right-hand side of a projection (`x[*].[e]`): the left operand
      is the element being projected -/
  | rhsDot
  /-- `l.[e, …]`, `l.{k: e, …}`, `l.[*]` with an explicit left operand -/
  | dot
  deriving DecidableEq, Repr

/-- the form of a dotted multi-select with left operand `l` -/
def formOf (l : PTree) : MSForm := if l.isIcur then .rhsDot else .dot

/-- `rule form n = true`: a multi-select of that form with `n` members is `null` on `null` -/
abbrev NullRule := MSForm → Nat → Bool

/-- the Go program (KF10): the one-member forms without an explicit left operand evaluate their member on `null` -/
def goRule : NullRule
  | .dot, _ => true
  | _, n => !(n == 1)

/-- the specification's sentence "if the left-hand side / current node is null, the multi-select is null" -/
def specRule : NullRule := fun _ _ => true

/-- the reading of the compliance corpus (pipe.json): only a left operand makes a multi-select null -/
def pipeRule : NullRule
  | .bare, _ => false
  | _, _ => true

mutual
/-- **`SemP rule t root cur env`**: `Sem` with the null rule of multi-select taken from `rule`.  Every arm is the arm of
    `Sem` (`Proofs/C01CSem.lean`) verbatim, except the condition of the five multi-select arms, marked `-- RULE`. -/
def SemP (rule : NullRule) : PTree → Val → Val → Env → Res Val
  | .icur, _, cur, _ => .ok cur
  | .atom tok, root, cur, env => atomSem tok root cur env
  | .paren t, root, cur, env => SemP rule t root cur env
  | .not t, root, cur, env => SemP rule t root cur env >>= fun a => .ok (.bool (!truthy a))
  | .neg _ t, root, cur, env => SemP rule t root cur env >>= fun a => .ok (negateVal a)
  | .pos t, root, cur, env => SemP rule t root cur env >>= fun a => .ok (if isNumber a then a else .null)
  | .bin op l r, root, cur, env =>
    (match op.type with
     | .pipe => SemP rule l root cur env >>= fun a => SemP rule r root a env
     | .or => SemP rule l root cur env >>= fun a => if truthy a then .ok a else SemP rule r root cur env
     | .and => SemP rule l root cur env >>= fun a => if truthy a then SemP rule r root cur env else .ok a
     | ty =>
       SemP rule l root cur env >>= fun a => SemP rule r root cur env >>= fun b =>
         (match orderTok ty with
          | some f => .ok (orderOp f a b)
          | none =>
            match arithOp ty with
            | some o => applyBinOp o a b
            | none => .ok a))
  | .dotId l r, root, cur, env => SemP rule l root cur env >>= fun a => SemP rule r root a env
  -- RULE
  | .dotList l es, root, cur, env =>
    SemP rule l root cur env >>= fun a =>
      if a.isNull && rule (formOf l) es.length then .ok .null
      else inOrder ((SemPL rule es root env).map (· a)) >>= fun vs => .ok (.arr .plain vs)
  -- RULE
  | .multiList es, root, cur, env =>
    if cur.isNull && rule .bare es.length then .ok .null
    else inOrder ((SemPL rule es root env).map (· cur)) >>= fun vs => .ok (.arr .plain vs)
  -- RULE
  | .dotHash l kvs, root, cur, env =>
    SemP rule l root cur env >>= fun a =>
      if a.isNull && rule (formOf l) kvs.length then .ok .null
      else anyOrder (byKey (SemPKVs rule keyOf kvs root a env)) >>= fun ms => .ok (.obj ms)
  -- RULE
  | .multiHash kvs, root, cur, env =>
    if cur.isNull && rule .bare kvs.length then .ok .null
    else anyOrder (byKey (SemPKVs rule keyOf kvs root cur env)) >>= fun ms => .ok (.obj ms)
  -- RULE: `l.[*]` is the one-member list of `*`
  | .dotStarList l, root, cur, env =>
    SemP rule l root cur env >>= fun a =>
      if a.isNull && rule (formOf l) 1 then .ok .null
      else .ok (.arr .plain [valuesOf a])
  | .index l n, root, cur, env => SemP rule l root cur env >>= fun a => C01C.indexOf a ((intOf n).getD 0)
  | .call name args, root, cur, env =>
    (match Parser.lookupBuiltin name.value with
     | some spec => callSem spec (SemPL rule args root env) cur
     | none => .ok cur)
  | .ref t, root, cur, env => SemP rule t root cur env
  | .letIn bs body, root, cur, env =>
    anyOrder (byKey (SemPKVs rule Token.value bs root cur env)) >>= fun vs => SemP rule body root cur (vs ++ env)
  | .star l rhs, root, cur, env =>
    SemP rule l root cur env >>= fun a =>
      match a with
      | .arr t xs =>
        if rhs.isIcur && !xs.any Val.isNull then .ok (.arr t xs)
        else project t xs fun x => SemP rule rhs root x env
      | _ => .ok .null
  | .ostar l rhs, root, cur, env =>
    SemP rule l root cur env >>= fun a =>
      match a with
      | .obj kvs => project .enum (kvs.map Prod.snd) fun x => SemP rule rhs root x env
      | _ => .ok .null
  | .flat l rhs, root, cur, env =>
    SemP rule l root cur env >>= fun a =>
      match a with
      | .arr t xs => flatProject t xs fun x => SemP rule rhs root x env
      | _ => .ok .null
  | .filt l c rhs, root, cur, env =>
    SemP rule l root cur env >>= fun a =>
      match a with
      | .arr t xs => filterProject t xs (fun x => SemP rule c root x env) (fun x => SemP rule rhs root x env)
      | _ => .ok .null
  | .slice l a b c rhs, root, cur, env =>
    SemP rule l root cur env >>= fun v =>
      sliceOf v (a.bind intOf) (b.bind intOf) ((c.bind fun s => s.bind intOf).getD 1) >>= fun s =>
        match s with
        | .arr t xs => project t xs fun x => SemP rule rhs root x env
        | .str _ => SemP rule rhs root s env
        | _ => .ok .null
def SemPL (rule : NullRule) : List PTree → Val → Env → List (Val → Res Val)
  | [], _, _ => []
  | e :: es, root, env => (fun x => SemP rule e root x env) :: SemPL rule es root env
def SemPKVs (rule : NullRule) (key : Token → Bytes) : List (Token × PTree) → Val → Val → Env → List (Bytes × Res Val)
  | [], _, _, _ => []
  | (k, e) :: rest, root, cur, env => (key k, SemP rule e root cur env) :: SemPKVs rule key rest root cur env
end

/-! ## The run-time predicate -/

/-- which elements a builtin hands to an expression argument: `sort_by`, `max_by`, `min_by`, `group_by`, `map` evaluate
    `&e` on the elements of their array argument; every other builtin evaluates all its arguments on the current node.
    `ps`: the predicate of each argument as a function of the current node; `fs`: the meanings of the arguments. -/
def callNoMS (spec : Parser.ArgSpec) (ps : List (Val → Prop)) (fs : List (Val → Res Val)) (cur : Val) : Prop :=
  match spec, ps, fs with
  | .expArg _, [pa, pe], [a, _] => pa cur ∧ ∀ t xs, a cur = .ok (.arr t xs) → ∀ x ∈ xs, pe x
  | .mapArg _, [pe, pa], [_, a] => pa cur ∧ ∀ t xs, a cur = .ok (.arr t xs) → ∀ x ∈ xs, pe x
  | .fixed _ _ _, ps, _ | .varArg _, ps, _ => ∀ p ∈ ps, p cur
  | _, _, _ => True

/-- a multi-select of form `f` with `n` members met on the value `a`: if `a` is null the two rules say the same about
    it; and its members satisfy `members` when they are evaluated (on a non-null `a`, or when the rule says so) -/
def msOK (r1 r2 : NullRule) (f : MSForm) (n : Nat) (a : Val) (members : Prop) : Prop :=
  (a.isNull = true → r1 f n = r2 f n) ∧ ((a.isNull && r2 f n) = false → members)

mutual
/-- **`NoMSP r1 r2 t root cur env`**: evaluating `t` on `cur` never evaluates, on a `null` current node, a multi-select
    about whose (form, member count) the rules `r1` and `r2` disagree.  The recursion follows the run of `SemP r2`: the
    right side of a pipe / dot is looked at on the VALUE of the left side, the right side of `||` (`&&`) only when the
    left side is false (true), a right-hand side of a projection on the elements that are projected, the members of a
    multi-select only when they are evaluated, `&e` on the elements of the array it is applied to.  Where the Go program
    stops at the first failing element / member / argument the predicate does not (it asks all of them): it is exact
    on runs that succeed and a sufficient condition on runs that fail. -/
def NoMSP (r1 r2 : NullRule) : PTree → Val → Val → Env → Prop
  | .icur, _, _, _ => True
  | .atom _, _, _, _ => True
  | .paren t, root, cur, env => NoMSP r1 r2 t root cur env
  | .not t, root, cur, env => NoMSP r1 r2 t root cur env
  | .neg _ t, root, cur, env => NoMSP r1 r2 t root cur env
  | .pos t, root, cur, env => NoMSP r1 r2 t root cur env
  | .bin op l r, root, cur, env =>
    NoMSP r1 r2 l root cur env ∧ ∀ a, SemP r2 l root cur env = .ok a →
      (match op.type with
       | .pipe => NoMSP r1 r2 r root a env
       | .or => truthy a = false → NoMSP r1 r2 r root cur env
       | .and => truthy a = true → NoMSP r1 r2 r root cur env
       | _ => NoMSP r1 r2 r root cur env)
  | .dotId l r, root, cur, env =>
    NoMSP r1 r2 l root cur env ∧ ∀ a, SemP r2 l root cur env = .ok a → NoMSP r1 r2 r root a env
  | .dotList l es, root, cur, env =>
    NoMSP r1 r2 l root cur env ∧ ∀ a, SemP r2 l root cur env = .ok a →
      msOK r1 r2 (formOf l) es.length a (∀ p ∈ NoMSPL r1 r2 es root env, p a)
  | .multiList es, root, cur, env => msOK r1 r2 .bare es.length cur (∀ p ∈ NoMSPL r1 r2 es root env, p cur)
  | .dotHash l kvs, root, cur, env =>
    NoMSP r1 r2 l root cur env ∧ ∀ a, SemP r2 l root cur env = .ok a →
      msOK r1 r2 (formOf l) kvs.length a (NoMSPKVs r1 r2 kvs root a env)
  | .multiHash kvs, root, cur, env => msOK r1 r2 .bare kvs.length cur (NoMSPKVs r1 r2 kvs root cur env)
  | .dotStarList l, root, cur, env =>
    NoMSP r1 r2 l root cur env ∧ ∀ a, SemP r2 l root cur env = .ok a → msOK r1 r2 (formOf l) 1 a True
  | .index l _, root, cur, env => NoMSP r1 r2 l root cur env
  | .call name args, root, cur, env =>
    (match Parser.lookupBuiltin name.value with
     | some spec => callNoMS spec (NoMSPL r1 r2 args root env) (SemPL r2 args root env) cur
     | none => True)
  | .ref t, root, cur, env => NoMSP r1 r2 t root cur env
  | .letIn bs body, root, cur, env =>
    NoMSPKVs r1 r2 bs root cur env ∧
      ∀ vs, anyOrder (byKey (SemPKVs r2 Token.value bs root cur env)) = .ok vs → NoMSP r1 r2 body root cur (vs ++ env)
  | .star l rhs, root, cur, env =>
    NoMSP r1 r2 l root cur env ∧
      ∀ t xs, SemP r2 l root cur env = .ok (.arr t xs) → ∀ x ∈ xs, NoMSP r1 r2 rhs root x env
  | .ostar l rhs, root, cur, env =>
    NoMSP r1 r2 l root cur env ∧
      ∀ kvs, SemP r2 l root cur env = .ok (.obj kvs) → ∀ x ∈ kvs.map Prod.snd, NoMSP r1 r2 rhs root x env
  -- a flatten projection over elements in unspecified order also consults its right-hand side on `null` (to name the
  -- error categories another order could have met: `flatProject`)
  | .flat l rhs, root, cur, env =>
    NoMSP r1 r2 l root cur env ∧ ∀ t xs, SemP r2 l root cur env = .ok (.arr t xs) →
      (∀ x ∈ flatOnce xs, NoMSP r1 r2 rhs root x env) ∧ (flatUnordered t xs = true → NoMSP r1 r2 rhs root .null env)
  -- a filter projection evaluates its right-hand side on the elements that pass (on all of them, to name error
  -- categories, when their order is unspecified)
  | .filt l c rhs, root, cur, env =>
    NoMSP r1 r2 l root cur env ∧ ∀ t xs, SemP r2 l root cur env = .ok (.arr t xs) →
      ∀ x ∈ xs, NoMSP r1 r2 c root x env ∧
        ((unordered t xs.length = true ∨ ∃ b, SemP r2 c root x env = .ok b ∧ truthy b = true) →
          NoMSP r1 r2 rhs root x env)
  | .slice l a b c rhs, root, cur, env =>
    NoMSP r1 r2 l root cur env ∧ ∀ v s, SemP r2 l root cur env = .ok v →
      sliceOf v (a.bind intOf) (b.bind intOf) ((c.bind fun s => s.bind intOf).getD 1) = .ok s →
        (match s with
         | .arr _ xs => ∀ x ∈ xs, NoMSP r1 r2 rhs root x env
         | .str _ => NoMSP r1 r2 rhs root s env
         | _ => True)
/-- the predicates of a list of expressions, as functions of the current node -/
def NoMSPL (r1 r2 : NullRule) : List PTree → Val → Env → List (Val → Prop)
  | [], _, _ => []
  | e :: es, root, env => (fun x => NoMSP r1 r2 e root x env) :: NoMSPL r1 r2 es root env
/-- all the members of a multi-select hash / the bindings of a `let` -/
def NoMSPKVs (r1 r2 : NullRule) : List (Token × PTree) → Val → Val → Env → Prop
  | [], _, _, _ => True
  | (_, e) :: rest, root, cur, env => NoMSP r1 r2 e root cur env ∧ NoMSPKVs r1 r2 rest root cur env
end

/-! ## Congruences: a loop consults its function on the elements only -/

theorem bind_congr_ok {α β} {r : Res α} {f g : α → Res β} (h : ∀ a, r = .ok a → f a = g a) : (r >>= f) = (r >>= g) := by
  cases r with
  | ok a => exact h a rfl
  | _ => rfl

theorem overOrders_false {α} (c1 c2 : List (Res Val)) (r : Res α) : overOrders false c1 r = overOrders false c2 r := by
  cases r <;> rfl

theorem project_congr (t : ATag) {xs : List Val} {f g : Val → Res Val} (h : ∀ x ∈ xs, f x = g x) :
    project t xs f = project t xs g := by
  simp only [project, List.map_congr_left h]

theorem flatProject_congr (t : ATag) {xs : List Val} {f g : Val → Res Val} (h : ∀ x ∈ flatOnce xs, f x = g x)
    (h0 : flatUnordered t xs = true → f .null = g .null) : flatProject t xs f = flatProject t xs g := by
  simp only [flatProject, List.map_congr_left h]
  cases hu : flatUnordered t xs
  · exact overOrders_false _ _ _
  · have : (flatOnce xs ++ [Val.null, Val.null]).map f = (flatOnce xs ++ [Val.null, Val.null]).map g := by
      apply List.map_congr_left
      intro x hx
      rcases List.mem_append.1 hx with hx | hx
      · exact h x hx
      · simp only [List.mem_cons, List.not_mem_nil, or_false, or_self] at hx
        subst hx; exact h0 hu
    rw [this]

theorem filterProject_congr (t : ATag) {xs : List Val} {c c' f g : Val → Res Val} (hc : ∀ x ∈ xs, c x = c' x)
    (h : ∀ x ∈ xs, (unordered t xs.length = true ∨ ∃ b, c' x = .ok b ∧ truthy b = true) → f x = g x) :
    filterProject t xs c f = filterProject t xs c' g := by
  have h1 : (xs.map fun x => c x >>= fun b => if truthy b then (f x >>= fun p => Res.ok (some p)) else Res.ok none) =
      (xs.map fun x => c' x >>= fun b => if truthy b then (g x >>= fun p => Res.ok (some p)) else Res.ok none) := by
    apply List.map_congr_left
    intro x hx
    rw [hc x hx]
    apply bind_congr_ok
    intro b hb
    cases htb : truthy b
    · rfl
    · simp only [if_true]; rw [h x hx (Or.inr ⟨b, hb, htb⟩)]
  simp only [filterProject, h1]
  cases hu : unordered t xs.length
  · exact overOrders_false _ _ _
  · have : (xs.flatMap fun x => [c x, f x]) = (xs.flatMap fun x => [c' x, g x]) := by
      apply C17C.flatMap_congr_mem
      intro x hx
      rw [hc x hx, h x hx (Or.inl hu)]
    rw [this]

theorem mapAll_congr {f g : Val → Res Val} : ∀ {xs : List Val}, (∀ x ∈ xs, f x = g x) → mapAll f xs = mapAll g xs
  | [], _ => rfl
  | x :: xs, h => by
    simp only [mapAll, h x List.mem_cons_self, mapAll_congr (xs := xs) fun y hy => h y (List.mem_cons_of_mem _ hy)]

theorem keysFrom_congr {f g : Val → Res Val} (b : Bool) : ∀ {xs : List Val}, (∀ x ∈ xs, f x = g x) →
    keysFrom f b xs = keysFrom g b xs
  | [], _ => rfl
  | x :: xs, h => by
    simp only [keysFrom, h x List.mem_cons_self, keysFrom_congr b (xs := xs) fun y hy => h y (List.mem_cons_of_mem _ hy)]

theorem keysOf_congr {f g : Val → Res Val} : ∀ {xs : List Val}, (∀ x ∈ xs, f x = g x) → keysOf f xs = keysOf g xs
  | [], _ => rfl
  | x :: xs, h => by
    have h' : ∀ y ∈ xs, f y = g y := fun y hy => h y (List.mem_cons_of_mem _ hy)
    simp only [keysOf, h x List.mem_cons_self, keysFrom_congr true h', keysFrom_congr false h']

theorem groupLoop_congr {f g : Val → Res Val} : ∀ {xs : List Val} (acc : List (Bytes × List Val)),
    (∀ x ∈ xs, f x = g x) → groupLoop f xs acc = groupLoop g xs acc
  | [], _, _ => rfl
  | x :: xs, acc, h => by
    have h' : ∀ y ∈ xs, f y = g y := fun y hy => h y (List.mem_cons_of_mem _ hy)
    simp only [groupLoop, h x List.mem_cons_self]
    apply Res.bind_congr
    intro rv
    cases rv <;> first | rfl | exact groupLoop_congr _ h'

theorem mapArray_congr {f g : Val → Res Val} {v : Val} (h : ∀ t xs, v = .arr t xs → ∀ x ∈ xs, f x = g x) :
    mapArray f v = mapArray g v := by
  cases v with
  | arr t xs =>
    have h' := h t xs rfl
    simp only [mapArray, mapAll_congr h', C17C.widen_congr1 t h']
  | _ => rfl

theorem sortArrayBy_congr {f g : Val → Res Val} {v : Val} (h : ∀ t xs, v = .arr t xs → ∀ x ∈ xs, f x = g x) :
    sortArrayBy f v = sortArrayBy g v := by
  cases v with
  | arr t xs =>
    have h' := h t xs rfl
    simp only [sortArrayBy, keysOf_congr h', C17C.widen_congr1 t h']
  | _ => rfl

theorem arrayPickBy_congr (better : Key → Key → Bool) {f g : Val → Res Val} {v : Val}
    (h : ∀ t xs, v = .arr t xs → ∀ x ∈ xs, f x = g x) : arrayPickBy better f v = arrayPickBy better g v := by
  cases v with
  | arr t xs =>
    have h' := h t xs rfl
    cases xs with
    | nil => rfl
    | cons x0 rest => simp only [arrayPickBy, keysOf_congr h', C17C.widen_congr1 t h']
  | _ => rfl

theorem groupBy_congr {f g : Val → Res Val} {v : Val} (h : ∀ t xs, v = .arr t xs → ∀ x ∈ xs, f x = g x) :
    groupBy f v = groupBy g v := by
  cases v with
  | arr t xs =>
    have h' := h t xs rfl
    simp only [groupBy, groupLoop_congr [] h', C17C.widen_congr1 t h']
  | _ => rfl

/-! ## `SemP r1 = SemP r2` on runs that meet no multi-select on `null` about which the rules disagree -/

section
variable (r1 r2 : NullRule) (root : Val)

/-- the two semantics agree on `t`, on every run that satisfies the predicate -/
def Ag (t : PTree) : Prop := ∀ cur env, NoMSP r1 r2 t root cur env → SemP r1 t root cur env = SemP r2 t root cur env

theorem semL_at {es : List PTree} (h : ∀ e ∈ es, Ag r1 r2 root e) (a : Val) (env : Env) :
    (∀ p ∈ NoMSPL r1 r2 es root env, p a) → (SemPL r1 es root env).map (· a) = (SemPL r2 es root env).map (· a) := by
  induction es with
  | nil => intro _; rfl
  | cons e es ih =>
    intro hp
    simp only [NoMSPL, List.mem_cons, forall_eq_or_imp] at hp
    simp only [SemPL, List.map_cons, h e List.mem_cons_self a env hp.1,
      ih (fun e he => h e (List.mem_cons_of_mem _ he)) hp.2]

theorem semKVs_at (key : Token → Bytes) {kvs : List (Token × PTree)} (h : ∀ kv ∈ kvs, Ag r1 r2 root kv.2) (a : Val) (env : Env) :
    NoMSPKVs r1 r2 kvs root a env → SemPKVs r1 key kvs root a env = SemPKVs r2 key kvs root a env := by
  induction kvs with
  | nil => intro _; rfl
  | cons kv kvs ih =>
    obtain ⟨k, e⟩ := kv
    intro hp
    simp only [NoMSPKVs] at hp
    simp only [SemPKVs, h (k, e) List.mem_cons_self a env hp.1,
      ih (fun e he => h e (List.mem_cons_of_mem _ he)) hp.2]

theorem semL_len_const {β} (c : β) (env : Env) : ∀ es : List PTree,
    (SemPL r1 es root env).map (fun _ => c) = (SemPL r2 es root env).map (fun _ => c)
  | [] => rfl
  | _ :: es => by simp only [SemPL, List.map_cons, semL_len_const c env es]

theorem ag_paren {t : PTree} (h : Ag r1 r2 root t) : Ag r1 r2 root (.paren t) := by
  intro cur env hn
  simp only [NoMSP] at hn
  simp only [SemP, h cur env hn]

theorem ag_not {t : PTree} (h : Ag r1 r2 root t) : Ag r1 r2 root (.not t) := by
  intro cur env hn
  simp only [NoMSP] at hn
  simp only [SemP, h cur env hn]

theorem ag_neg {tok : Token} {t : PTree} (h : Ag r1 r2 root t) : Ag r1 r2 root (.neg tok t) := by
  intro cur env hn
  simp only [NoMSP] at hn
  simp only [SemP, h cur env hn]

theorem ag_pos {t : PTree} (h : Ag r1 r2 root t) : Ag r1 r2 root (.pos t) := by
  intro cur env hn
  simp only [NoMSP] at hn
  simp only [SemP, h cur env hn]

theorem ag_ref {t : PTree} (h : Ag r1 r2 root t) : Ag r1 r2 root (.ref t) := by
  intro cur env hn
  simp only [NoMSP] at hn
  simp only [SemP, h cur env hn]

theorem ag_bin {op : Token} {l r : PTree} (hl : Ag r1 r2 root l) (hr : Ag r1 r2 root r) : Ag r1 r2 root (.bin op l r) := by
  intro cur env hn
  simp only [NoMSP] at hn
  obtain ⟨hn1, hn2⟩ := hn
  obtain ⟨ty, v⟩ := op
  simp only at hn2
  cases ty <;> simp only [SemP, hl cur env hn1] <;> apply bind_congr_ok <;> intro a ha <;>
    have h2 := hn2 a ha <;> simp only at h2 <;>
    first
      | exact hr a env h2
      | (cases hta : truthy a
         · first | rfl | (simp only [Bool.false_eq_true, if_false]; exact hr cur env (h2 hta))
         · first | rfl | (simp only [if_true]; exact hr cur env (h2 hta)))
      | (rw [hr cur env h2]; try rfl)

theorem ag_dotId {l r : PTree} (hl : Ag r1 r2 root l) (hr : Ag r1 r2 root r) : Ag r1 r2 root (.dotId l r) := by
  intro cur env hn
  simp only [NoMSP] at hn
  simp only [SemP, hl cur env hn.1]
  apply bind_congr_ok; intro a ha
  exact hr a env (hn.2 a ha)

/-- the multi-select step: the null test gives the same answer, and when the members are evaluated they agree -/
theorem ms_step {f : MSForm} {n : Nat} {a : Val} {members : Prop} {x y : Res Val} (h : msOK r1 r2 f n a members)
    (hxy : members → x = y) :
    (if (a.isNull && r1 f n) = true then Res.ok Val.null else x) = (if (a.isNull && r2 f n) = true then Res.ok Val.null else y) := by
  cases hnull : a.isNull
  · simp only [Bool.false_and, Bool.false_eq_true, if_false]
    exact hxy (h.2 (by simp only [hnull, Bool.false_and]))
  · rw [h.1 hnull]
    cases hr : r2 f n
    · simp only [Bool.and_false, Bool.false_eq_true, if_false]
      exact hxy (h.2 (by simp only [hr, Bool.and_false]))
    · simp only [Bool.and_self, if_true]

theorem ag_dotList {l : PTree} {es : List PTree} (hl : Ag r1 r2 root l) (hes : ∀ e ∈ es, Ag r1 r2 root e) :
    Ag r1 r2 root (.dotList l es) := by
  intro cur env hn
  simp only [NoMSP] at hn
  simp only [SemP, hl cur env hn.1]
  apply bind_congr_ok; intro a ha
  exact ms_step r1 r2 (hn.2 a ha) fun hm => by rw [semL_at r1 r2 root hes a env hm]

theorem ag_multiList {es : List PTree} (hes : ∀ e ∈ es, Ag r1 r2 root e) : Ag r1 r2 root (.multiList es) := by
  intro cur env hn
  simp only [NoMSP] at hn
  simp only [SemP]
  exact ms_step r1 r2 hn fun hm => by rw [semL_at r1 r2 root hes cur env hm]

theorem ag_dotHash {l : PTree} {kvs : List (Token × PTree)} (hl : Ag r1 r2 root l) (hes : ∀ kv ∈ kvs, Ag r1 r2 root kv.2) :
    Ag r1 r2 root (.dotHash l kvs) := by
  intro cur env hn
  simp only [NoMSP] at hn
  simp only [SemP, hl cur env hn.1]
  apply bind_congr_ok; intro a ha
  exact ms_step r1 r2 (hn.2 a ha) fun hm => by rw [semKVs_at r1 r2 root keyOf hes a env hm]

theorem ag_multiHash {kvs : List (Token × PTree)} (hes : ∀ kv ∈ kvs, Ag r1 r2 root kv.2) :
    Ag r1 r2 root (.multiHash kvs) := by
  intro cur env hn
  simp only [NoMSP] at hn
  simp only [SemP]
  exact ms_step r1 r2 hn fun hm => by rw [semKVs_at r1 r2 root keyOf hes cur env hm]

theorem ag_dotStarList {l : PTree} (hl : Ag r1 r2 root l) : Ag r1 r2 root (.dotStarList l) := by
  intro cur env hn
  simp only [NoMSP] at hn
  simp only [SemP, hl cur env hn.1]
  apply bind_congr_ok; intro a ha
  exact ms_step r1 r2 (hn.2 a ha) fun _ => rfl

theorem ag_index {l : PTree} {n : Token} (hl : Ag r1 r2 root l) : Ag r1 r2 root (.index l n) := by
  intro cur env hn
  simp only [NoMSP] at hn
  simp only [SemP, hl cur env hn]

theorem ag_letIn {bs : List (Token × PTree)} {body : PTree} (hbs : ∀ kv ∈ bs, Ag r1 r2 root kv.2) (hb : Ag r1 r2 root body) :
    Ag r1 r2 root (.letIn bs body) := by
  intro cur env hn
  simp only [NoMSP] at hn
  simp only [SemP, semKVs_at r1 r2 root Token.value hbs cur env hn.1]
  apply bind_congr_ok; intro vs hvs
  exact hb cur _ (hn.2 vs hvs)

theorem ag_star {l rhs : PTree} (hl : Ag r1 r2 root l) (hr : Ag r1 r2 root rhs) : Ag r1 r2 root (.star l rhs) := by
  intro cur env hn
  simp only [NoMSP] at hn
  simp only [SemP, hl cur env hn.1]
  apply bind_congr_ok; intro a ha
  cases a with
  | arr t xs =>
    simp only
    rw [project_congr t fun x hx => hr x env (hn.2 t xs ha x hx)]
  | _ => rfl

theorem ag_ostar {l rhs : PTree} (hl : Ag r1 r2 root l) (hr : Ag r1 r2 root rhs) : Ag r1 r2 root (.ostar l rhs) := by
  intro cur env hn
  simp only [NoMSP] at hn
  simp only [SemP, hl cur env hn.1]
  apply bind_congr_ok; intro a ha
  cases a with
  | obj kvs =>
    simp only
    rw [project_congr .enum fun x hx => hr x env (hn.2 kvs ha x hx)]
  | _ => rfl

theorem ag_flat {l rhs : PTree} (hl : Ag r1 r2 root l) (hr : Ag r1 r2 root rhs) : Ag r1 r2 root (.flat l rhs) := by
  intro cur env hn
  simp only [NoMSP] at hn
  simp only [SemP, hl cur env hn.1]
  apply bind_congr_ok; intro a ha
  cases a with
  | arr t xs =>
    simp only
    have h2 := hn.2 t xs ha
    rw [flatProject_congr t (fun x hx => hr x env (h2.1 x hx)) (fun hu => hr .null env (h2.2 hu))]
  | _ => rfl

theorem ag_filt {l c rhs : PTree} (hl : Ag r1 r2 root l) (hc : Ag r1 r2 root c) (hr : Ag r1 r2 root rhs) : Ag r1 r2 root (.filt l c rhs) := by
  intro cur env hn
  simp only [NoMSP] at hn
  simp only [SemP, hl cur env hn.1]
  apply bind_congr_ok; intro a ha
  cases a with
  | arr t xs =>
    simp only
    have h2 := hn.2 t xs ha
    rw [filterProject_congr t (fun x hx => hc x env (h2 x hx).1) (fun x hx hb => hr x env ((h2 x hx).2 hb))]
  | _ => rfl

theorem ag_slice {l rhs : PTree} {a b : Option Token} {c : Option (Option Token)} (hl : Ag r1 r2 root l) (hr : Ag r1 r2 root rhs) :
    Ag r1 r2 root (.slice l a b c rhs) := by
  intro cur env hn
  simp only [NoMSP] at hn
  simp only [SemP, hl cur env hn.1]
  apply bind_congr_ok; intro v hv
  apply bind_congr_ok; intro s hs
  have h2 := hn.2 v s hv hs
  cases s with
  | arr t xs =>
    simp only at h2 ⊢
    rw [project_congr t fun x hx => hr x env (h2 x hx)]
  | str s =>
    simp only at h2 ⊢
    exact hr _ env h2
  | _ => rfl

theorem ag_call {name : Token} {args : List PTree} (hargs : ∀ e ∈ args, Ag r1 r2 root e) : Ag r1 r2 root (.call name args) := by
  intro cur env hn
  simp only [NoMSP] at hn
  simp only [SemP]
  cases hlk : Parser.lookupBuiltin name.value with
  | none => rfl
  | some spec =>
    simp only [hlk] at hn ⊢
    cases spec with
    | fixed mn mx mk =>
      simp only [callNoMS] at hn
      simp only [callSem, semL_at r1 r2 root hargs cur env hn, semL_len_const r1 r2 root]
    | varArg mk =>
      simp only [callNoMS] at hn
      simp only [callSem, semL_at r1 r2 root hargs cur env hn, semL_len_const r1 r2 root]
    | expArg mk =>
      match args, hargs, hn with
      | [], _, _ => rfl
      | [_], _, _ => rfl
      | _ :: _ :: _ :: _, _, _ => rfl
      | [ta, te], hargs, hn =>
        simp only [NoMSPL, SemPL, callNoMS] at hn
        have ha := hargs ta List.mem_cons_self cur env hn.1
        have he := hargs te (List.mem_cons_of_mem _ List.mem_cons_self)
        simp only [SemPL, callSem, ha]
        apply bind_congr_ok; intro v hv
        have hcg : ∀ t xs, v = .arr t xs → ∀ x ∈ xs, SemP r1 te root x env = SemP r2 te root x env := by
          intro t xs hvx x hx
          exact he x env (hn.2 t xs (hvx ▸ hv) x hx)
        cases mk .current .current <;> first
          | rfl
          | exact sortArrayBy_congr hcg
          | exact arrayPickBy_congr _ hcg
          | exact groupBy_congr hcg
    | mapArg mk =>
      match args, hargs, hn with
      | [], _, _ => rfl
      | [_], _, _ => rfl
      | _ :: _ :: _ :: _, _, _ => rfl
      | [te, ta], hargs, hn =>
        simp only [NoMSPL, SemPL, callNoMS] at hn
        have ha := hargs ta (List.mem_cons_of_mem _ List.mem_cons_self) cur env hn.1
        have he := hargs te List.mem_cons_self
        simp only [SemPL, callSem, ha]
        apply bind_congr_ok; intro v hv
        exact mapArray_congr fun t xs hvx x hx => he x env (hn.2 t xs (hvx ▸ hv) x hx)

/-- **`SemP r1` and `SemP r2` agree on every run that meets, on `null`, no multi-select about which `r1` and `r2` disagree** -/
theorem SemP_congr : ∀ t : PTree, Ag r1 r2 root t := by
  apply GrammarF0.PTree.ind
  · exact fun _ _ _ => rfl
  · exact fun _ _ _ _ => rfl
  · exact fun t h => ag_paren r1 r2 root h
  · exact fun t h => ag_not r1 r2 root h
  · exact fun tok t h => ag_neg r1 r2 root h
  · exact fun t h => ag_pos r1 r2 root h
  · exact fun op l r hl hr => ag_bin r1 r2 root hl hr
  · exact fun l r hl hr => ag_dotId r1 r2 root hl hr
  · exact fun l es hl hes => ag_dotList r1 r2 root hl hes
  · exact fun l kvs hl hes => ag_dotHash r1 r2 root hl hes
  · exact fun l hl => ag_dotStarList r1 r2 root hl
  · exact fun l n hl => ag_index r1 r2 root hl
  · exact fun name args hargs => ag_call r1 r2 root hargs
  · exact fun t h => ag_ref r1 r2 root h
  · exact fun bs body hbs hb => ag_letIn r1 r2 root hbs hb
  · exact fun es hes => ag_multiList r1 r2 root hes
  · exact fun kvs hes => ag_multiHash r1 r2 root hes
  · exact fun l rhs hl hr => ag_star r1 r2 root hl hr
  · exact fun l rhs hl hr => ag_ostar r1 r2 root hl hr
  · exact fun l rhs hl hr => ag_flat r1 r2 root hl hr
  · exact fun l c rhs hl hc hr => ag_filt r1 r2 root hl hc hr
  · exact fun l a b c rhs hl hr => ag_slice r1 r2 root hl hr

end


/-! ## The syntactic sufficient condition -/

mutual
/-- **no multi-select whose (form, member count) satisfies `bad` occurs in `t`** -/
def noForm (bad : MSForm → Nat → Bool) : PTree → Bool
  | .icur => true
  | .atom _ => true
  | .paren t => noForm bad t
  | .not t => noForm bad t
  | .neg _ t => noForm bad t
  | .pos t => noForm bad t
  | .ref t => noForm bad t
  | .bin _ l r => noForm bad l && noForm bad r
  | .dotId l r => noForm bad l && noForm bad r
  | .dotList l es => noForm bad l && !bad (formOf l) es.length && noFormL bad es
  | .multiList es => !bad .bare es.length && noFormL bad es
  | .dotHash l kvs => noForm bad l && !bad (formOf l) kvs.length && noFormKVs bad kvs
  | .multiHash kvs => !bad .bare kvs.length && noFormKVs bad kvs
  | .dotStarList l => noForm bad l && !bad (formOf l) 1
  | .index l _ => noForm bad l
  | .call _ args => noFormL bad args
  | .letIn bs body => noFormKVs bad bs && noForm bad body
  | .star l rhs => noForm bad l && noForm bad rhs
  | .ostar l rhs => noForm bad l && noForm bad rhs
  | .flat l rhs => noForm bad l && noForm bad rhs
  | .filt l c rhs => noForm bad l && noForm bad c && noForm bad rhs
  | .slice l _ _ _ rhs => noForm bad l && noForm bad rhs
def noFormL (bad : MSForm → Nat → Bool) : List PTree → Bool
  | [] => true
  | e :: es => noForm bad e && noFormL bad es
def noFormKVs (bad : MSForm → Nat → Bool) : List (Token × PTree) → Bool
  | [] => true
  | (_, e) :: rest => noForm bad e && noFormKVs bad rest
end

section
variable (r1 r2 : NullRule) (bad : MSForm → Nat → Bool) (hbad : ∀ f n, bad f n = false → r1 f n = r2 f n) (root : Val)

/-- every run of `t` satisfies the predicate -/
def Al (t : PTree) : Prop := noForm bad t = true → ∀ cur env, NoMSP r1 r2 t root cur env

theorem noMSL_all {es : List PTree} (h : ∀ e ∈ es, Al r1 r2 bad root e) (env : Env) :
    noFormL bad es = true → ∀ p ∈ NoMSPL r1 r2 es root env, ∀ x, p x := by
  induction es with
  | nil => intro _ p hp; cases hp
  | cons e es ih =>
    intro hb p hp x
    simp only [noFormL, Bool.and_eq_true] at hb
    simp only [NoMSPL, List.mem_cons] at hp
    rcases hp with rfl | hp
    · exact h e List.mem_cons_self hb.1 x env
    · exact ih (fun e he => h e (List.mem_cons_of_mem _ he)) hb.2 p hp x

theorem noMSKVs_all {kvs : List (Token × PTree)} (h : ∀ kv ∈ kvs, Al r1 r2 bad root kv.2) (cur : Val) (env : Env) :
    noFormKVs bad kvs = true → NoMSPKVs r1 r2 kvs root cur env := by
  induction kvs with
  | nil => intro _; trivial
  | cons kv kvs ih =>
    obtain ⟨k, e⟩ := kv
    intro hb
    simp only [noFormKVs, Bool.and_eq_true] at hb
    exact ⟨h (k, e) List.mem_cons_self hb.1 cur env, ih (fun e he => h e (List.mem_cons_of_mem _ he)) hb.2⟩

theorem callNoMS_all (spec : Parser.ArgSpec) (ps : List (Val → Prop)) (fs : List (Val → Res Val)) (cur : Val)
    (h : ∀ p ∈ ps, ∀ x, p x) : callNoMS spec ps fs cur := by
  unfold callNoMS
  split
  · rename_i pa pe a _
    exact ⟨h pa List.mem_cons_self cur, fun _ _ _ x _ => h pe (List.mem_cons_of_mem _ List.mem_cons_self) x⟩
  · rename_i pe pa _ a
    exact ⟨h pa (List.mem_cons_of_mem _ List.mem_cons_self) cur, fun _ _ _ x _ => h pe List.mem_cons_self x⟩
  · exact fun p hp => h p hp cur
  · exact fun p hp => h p hp cur
  · trivial

include hbad in
/-- **the syntactic condition implies the run-time predicate, on every document, current node and bindings**
    (`hbad`: outside `bad` the two rules agree) -/
theorem noForm_NoMSP : ∀ t : PTree, Al r1 r2 bad root t := by
  apply GrammarF0.PTree.ind
  · exact fun _ _ _ => trivial
  · exact fun _ _ _ _ => trivial
  · intro t h hb cur env; simp only [noForm] at hb; simp only [NoMSP]; exact h hb cur env
  · intro t h hb cur env; simp only [noForm] at hb; simp only [NoMSP]; exact h hb cur env
  · intro tok t h hb cur env; simp only [noForm] at hb; simp only [NoMSP]; exact h hb cur env
  · intro t h hb cur env; simp only [noForm] at hb; simp only [NoMSP]; exact h hb cur env
  · intro op l r hl hr hb cur env
    simp only [noForm, Bool.and_eq_true] at hb
    simp only [NoMSP]
    refine ⟨hl hb.1 cur env, fun a _ => ?_⟩
    split
    · exact hr hb.2 a env
    · exact fun _ => hr hb.2 cur env
    · exact fun _ => hr hb.2 cur env
    · exact hr hb.2 cur env
  · intro l r hl hr hb cur env
    simp only [noForm, Bool.and_eq_true] at hb
    simp only [NoMSP]
    exact ⟨hl hb.1 cur env, fun a _ => hr hb.2 a env⟩
  · intro l es hl hes hb cur env
    simp only [noForm, Bool.and_eq_true, Bool.not_eq_true'] at hb
    simp only [NoMSP]
    exact ⟨hl hb.1.1 cur env, fun a _ => ⟨fun _ => hbad _ _ hb.1.2, fun _ p hp => noMSL_all r1 r2 bad root hes env hb.2 p hp a⟩⟩
  · intro l kvs hl hes hb cur env
    simp only [noForm, Bool.and_eq_true, Bool.not_eq_true'] at hb
    simp only [NoMSP]
    exact ⟨hl hb.1.1 cur env, fun a _ => ⟨fun _ => hbad _ _ hb.1.2, fun _ => noMSKVs_all r1 r2 bad root hes a env hb.2⟩⟩
  · intro l hl hb cur env
    simp only [noForm, Bool.and_eq_true, Bool.not_eq_true'] at hb
    simp only [NoMSP]
    exact ⟨hl hb.1 cur env, fun _ _ => ⟨fun _ => hbad _ _ hb.2, fun _ => trivial⟩⟩
  · intro l n hl hb cur env; simp only [noForm] at hb; simp only [NoMSP]; exact hl hb cur env
  · intro name args hargs hb cur env
    simp only [noForm] at hb
    simp only [NoMSP]
    split
    · exact callNoMS_all _ _ _ cur (noMSL_all r1 r2 bad root hargs env hb)
    · trivial
  · intro t h hb cur env; simp only [noForm] at hb; simp only [NoMSP]; exact h hb cur env
  · intro bs body hbs hb hbb cur env
    simp only [noForm, Bool.and_eq_true] at hbb
    simp only [NoMSP]
    exact ⟨noMSKVs_all r1 r2 bad root hbs cur env hbb.1, fun vs _ => hb hbb.2 cur _⟩
  · intro es hes hb cur env
    simp only [noForm, Bool.and_eq_true, Bool.not_eq_true'] at hb
    simp only [NoMSP]
    exact ⟨fun _ => hbad _ _ hb.1, fun _ p hp => noMSL_all r1 r2 bad root hes env hb.2 p hp cur⟩
  · intro kvs hes hb cur env
    simp only [noForm, Bool.and_eq_true, Bool.not_eq_true'] at hb
    simp only [NoMSP]
    exact ⟨fun _ => hbad _ _ hb.1, fun _ => noMSKVs_all r1 r2 bad root hes cur env hb.2⟩
  · intro l rhs hl hr hb cur env
    simp only [noForm, Bool.and_eq_true] at hb
    simp only [NoMSP]
    exact ⟨hl hb.1 cur env, fun _ _ _ x _ => hr hb.2 x env⟩
  · intro l rhs hl hr hb cur env
    simp only [noForm, Bool.and_eq_true] at hb
    simp only [NoMSP]
    exact ⟨hl hb.1 cur env, fun _ _ x _ => hr hb.2 x env⟩
  · intro l rhs hl hr hb cur env
    simp only [noForm, Bool.and_eq_true] at hb
    simp only [NoMSP]
    exact ⟨hl hb.1 cur env, fun _ _ _ => ⟨fun x _ => hr hb.2 x env, fun _ => hr hb.2 .null env⟩⟩
  · intro l c rhs hl hc hr hb cur env
    simp only [noForm, Bool.and_eq_true] at hb
    simp only [NoMSP]
    exact ⟨hl hb.1.1 cur env, fun _ _ _ x _ => ⟨hc hb.1.2 x env, fun _ => hr hb.2 x env⟩⟩
  · intro l a b c rhs hl hr hb cur env
    simp only [noForm, Bool.and_eq_true] at hb
    simp only [NoMSP]
    refine ⟨hl hb.1 cur env, fun v s _ _ => ?_⟩
    split
    · exact fun x _ => hr hb.2 x env
    · exact hr hb.2 _ env
    · trivial

end

/-! ## `Sem` is `SemP goRule` -/

theorem goRule_icur (n : Nat) : goRule (formOf .icur) n = !(n == 1) := rfl

theorem goRule_eq (l : PTree) (n : Nat) : goRule (formOf l) n = !(l.isIcur && n == 1) := by
  cases hi : l.isIcur <;> simp only [formOf, hi, goRule, if_true, Bool.false_eq_true, if_false, Bool.false_and,
    Bool.not_false, Bool.true_and]

section
variable (root : Val)

def Eg (t : PTree) : Prop := ∀ cur env, Sem t root cur env = SemP goRule t root cur env

theorem eg_fun {t : PTree} (h : Eg root t) (env : Env) : (fun x => Sem t root x env) = fun x => SemP goRule t root x env :=
  funext fun x => h x env

theorem semL_go {es : List PTree} (h : ∀ e ∈ es, Eg root e) (env : Env) : SemL es root env = SemPL goRule es root env := by
  induction es with
  | nil => rfl
  | cons e es ih =>
    simp only [SemL, SemPL, eg_fun root (h e List.mem_cons_self) env, ih fun e he => h e (List.mem_cons_of_mem _ he)]

theorem semKVs_go (key : Token → Bytes) {kvs : List (Token × PTree)} (h : ∀ kv ∈ kvs, Eg root kv.2) (cur : Val) (env : Env) :
    SemKVs key kvs root cur env = SemPKVs goRule key kvs root cur env := by
  induction kvs with
  | nil => rfl
  | cons kv kvs ih =>
    obtain ⟨k, e⟩ := kv
    simp only [SemKVs, SemPKVs, h (k, e) List.mem_cons_self cur env, ih fun e he => h e (List.mem_cons_of_mem _ he)]

/-- **`Sem` is the instance of `SemP` at the rule of the Go program** (every tree, every run) -/
theorem Sem_eq_SemP_goRule : ∀ t : PTree, Eg root t := by
  apply GrammarF0.PTree.ind
  · exact fun _ _ => rfl
  · exact fun _ _ _ => rfl
  · intro t h cur env; (simp only [Sem, SemP, h cur env]; try rfl)
  · intro t h cur env; (simp only [Sem, SemP, h cur env]; try rfl)
  · intro tok t h cur env; (simp only [Sem, SemP, h cur env]; try rfl)
  · intro t h cur env; (simp only [Sem, SemP, h cur env]; try rfl)
  · intro op l r hl hr cur env
    obtain ⟨ty, v⟩ := op
    cases ty <;> simp only [Sem, SemP, hl cur env, eg_fun root hr env, hr cur env] <;> rfl
  · intro l r hl hr cur env; (simp only [Sem, SemP, hl cur env, eg_fun root hr env]; try rfl)
  · intro l es hl hes cur env; (simp only [Sem, SemP, hl cur env, semL_go root hes env, goRule_eq]; try rfl)
  · intro l kvs hl hes cur env
    simp only [Sem, SemP, hl cur env, goRule_eq]
    apply Res.bind_congr; intro a
    rw [semKVs_go root keyOf hes a env]
  · intro l hl cur env
    simp only [Sem, SemP, hl cur env, goRule_eq, beq_self_eq_true, Bool.and_true]
  · intro l n hl cur env; (simp only [Sem, SemP, hl cur env]; try rfl)
  · intro name args hargs cur env; (simp only [Sem, SemP, semL_go root hargs env]; try rfl)
  · intro t h cur env; (simp only [Sem, SemP, h cur env]; try rfl)
  · intro bs body hbs hb cur env
    simp only [Sem, SemP, semKVs_go root Token.value hbs cur env]
    apply Res.bind_congr; intro vs
    exact hb cur _
  · intro es hes cur env; (simp only [Sem, SemP, semL_go root hes env, goRule]; try rfl)
  · intro kvs hes cur env; (simp only [Sem, SemP, semKVs_go root keyOf hes cur env, goRule]; try rfl)
  · intro l rhs hl hr cur env; (simp only [Sem, SemP, hl cur env, eg_fun root hr env]; try rfl)
  · intro l rhs hl hr cur env; (simp only [Sem, SemP, hl cur env, eg_fun root hr env]; try rfl)
  · intro l rhs hl hr cur env; (simp only [Sem, SemP, hl cur env, eg_fun root hr env]; try rfl)
  · intro l c rhs hl hc hr cur env; (simp only [Sem, SemP, hl cur env, eg_fun root hr env, eg_fun root hc env]; try rfl)
  · intro l a b c rhs hl hr cur env; (simp only [Sem, SemP, hl cur env, eg_fun root hr env, hr _ env]; try rfl)

end

end Jmes.C01E
