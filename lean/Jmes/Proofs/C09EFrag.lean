/-
  C09, fourth wave — a CLOSED FORM of the measure `ievalS` on a core fragment of the language.

  `isCore n`: the expression is built from `@`, fields, indexes, two-bound slices, pipes, the array / object / filter /
  flatten projections (all fused forms), `[]`, `.*`, comparisons and arithmetic whose operands are core expressions
  or literals, `&&`, `||`, `!`, unary minus.  No multi-select, no function call, no `let`/variable, no `$`, no
  three-bound slice `[a:b:c]` (on a string with invalid UTF-8 its result can have more bytes than the subject).
  For such an expression every intermediate value is no larger than the value it was computed from
  (`core_ok`), and therefore `ievalS root n cur env ≤ nsize n · 2·vsize cur`: with `ievalT_cost` (`core_cost`),
  at most `24 · (size of the expression: nodes + literals) · (size of the document)` ticks, whatever integers
  occur in it.
-/
import Jmes.Proofs.C09EEval
set_option linter.unusedSimpArgs false
set_option linter.unusedVariables false
namespace Jmes.C09E
open Jmes Jmes.C09C

/-! ## sizes of the results of the model's value functions -/

theorem outSize_widen {t : ATag} {xs : List Val} {fs : List (Val → Res Val)} {extra : List Cat} (r : Res Val) :
    outSize (widen t xs fs extra r) = outSize r := by
  cases r with
  | err cs =>
    simp only [widen]
    split
    · split <;> rfl
    · rfl
  | _ => rfl

theorem outSize_bind_le {α} (r : Res α) (f : α → Res Val) (c : Nat) (h : ∀ a, r = .ok a → outSize (f a) ≤ c) :
    outSize (r >>= f) ≤ c := by
  cases r with
  | ok a => exact h a rfl
  | _ => simp [outSize, onOk, Res.err_bind, Res.panic_bind, Res.nondet_bind, Res.unmodelled_bind]

theorem objLookup_size (k : Bytes) : ∀ kvs : List (Bytes × Val), vsize ((objLookup k kvs).getD .null) ≤ 1 + vsizeF kvs
  | [] => by simp [objLookup, vsize]
  | (k', v) :: rest => by
    have := objLookup_size k rest
    simp only [objLookup, vsizeF]
    split
    · simp only [Option.getD_some]; omega
    · omega

theorem field_size (k : Bytes) (v : Val) : vsize (field k v) ≤ vsize v := by
  cases v <;> simp only [field, vsize] <;> try omega
  exact objLookup_size k _

theorem getD_size (xs : List Val) (i : Nat) : vsize (xs.getD i .null) ≤ 1 + vsizeL xs := by
  induction xs generalizing i with
  | nil => simp [vsize]
  | cons x xs ih =>
    cases i with
    | zero => simp only [List.getD_cons_zero, vsizeL]; omega
    | succ i => have := ih i; simp only [List.getD_cons_succ, vsizeL]; omega

theorem index_size (v : Val) (i : Int) : outSize (index v i) ≤ vsize v := by
  have hp := vsize_pos v
  cases v <;> simp only [index, outSize_ok, vsize] <;> try omega
  rename_i t xs
  by_cases h1 : (if i < 0 then i + (xs.length : Int) else i) < 0 ∨ (if i < 0 then i + (xs.length : Int) else i) ≥ xs.length
  · simp only [h1, if_true, outSize_ok, vsize]; omega
  · simp only [h1, if_false]
    split
    · exact Nat.zero_le _
    · simp only [outSize_ok]; exact getD_size xs _

theorem vsizeL_take_le (n : Nat) : ∀ xs : List Val, vsizeL (xs.take n) ≤ vsizeL xs := by
  induction n with
  | zero => intro xs; simp [vsizeL]
  | succ n ih =>
    intro xs
    cases xs with
    | nil => simp [vsizeL]
    | cons x xs => have := ih xs; simp only [List.take_succ_cons, vsizeL]; omega

theorem vsizeL_drop_le (n : Nat) : ∀ xs : List Val, vsizeL (xs.drop n) ≤ vsizeL xs := by
  induction n with
  | zero => intro xs; simp
  | succ n ih =>
    intro xs
    cases xs with
    | nil => simp [vsizeL]
    | cons x xs => have := ih xs; simp only [List.drop_succ_cons, vsizeL]; omega

theorem slice_size (v : Val) (a b : Int) : outSize (slice v a b) ≤ vsize v := by
  have hp := vsize_pos v
  cases v <;> simp only [slice, outSize_ok, vsize] <;> try omega
  · rename_i s
    split
    · simp only [outSize_ok, vsize, List.length_nil]; omega
    · simp only [outSize_ok, vsize, List.length_take]
      have := C09.dropRunes_length_le (by assumption : Int).toNat s
      rename_i p q _
      have := C09.dropRunes_length_le p.toNat s
      omega
  · rename_i t xs
    split
    · simp only [outSize_ok, vsize, vsizeL]; omega
    · rename_i p q _
      split
      · simp only [outSize_ok, vsize, vsizeL]; omega
      · split
        · exact Nat.zero_le _
        · simp only [outSize_ok, vsize]
          have h1 := vsizeL_take_le (q - p).toNat (xs.drop p.toNat)
          have h2 := vsizeL_drop_le p.toNat xs
          omega

theorem mapPrune_size (f : Val → Res Val) (h : ∀ x, outSize (f x) ≤ vsize x) : ∀ (xs r : List Val),
    mapPrune f xs = .ok r → vsizeL r ≤ vsizeL xs := by
  intro xs
  induction xs with
  | nil => intro r hr; simp [mapPrune] at hr; subst hr; simp
  | cons x xs ih =>
    intro r hr
    simp only [mapPrune] at hr
    have hx := h x
    cases hf : f x with
    | ok p =>
      rw [hf] at hr hx; simp only [Res.ok_bind] at hr
      cases hm : mapPrune f xs with
      | ok rest =>
        rw [hm] at hr; simp only [Res.ok_bind, Res.pure_eq] at hr
        have := ih rest hm
        simp only [outSize_ok] at hx
        injection hr with hr; subst hr
        split <;> simp only [vsizeL] <;> omega
      | _ => rw [hm] at hr; simp [Res.err_bind, Res.panic_bind, Res.nondet_bind, Res.unmodelled_bind] at hr
    | _ => rw [hf] at hr; simp [Res.err_bind, Res.panic_bind, Res.nondet_bind, Res.unmodelled_bind] at hr

theorem projectArray_size (f : Val → Res Val) (h : ∀ x, outSize (f x) ≤ vsize x) (v : Val) :
    outSize (projectArray f v) ≤ vsize v := by
  have hp := vsize_pos v
  cases v <;> simp only [projectArray, outSize_ok, vsize] <;> try omega
  rename_i t xs
  rw [outSize_widen]
  apply outSize_bind_le
  intro r hr
  have := mapPrune_size f h xs r hr
  simp only [Res.pure_eq, outSize_ok, vsize]; omega

theorem projectObject_size (f : Val → Res Val) (h : ∀ x, outSize (f x) ≤ vsize x) (v : Val) :
    outSize (projectObject f v) ≤ vsize v := by
  have hp := vsize_pos v
  cases v <;> simp only [projectObject, outSize_ok, vsize] <;> try omega
  rename_i kvs
  rw [outSize_widen]
  apply outSize_bind_le
  intro r hr
  have := mapPrune_size f h _ r hr
  have := vsizeL_values_le kvs
  simp only [Res.pure_eq, outSize_ok, vsize]; omega

theorem filterLoop_size (c : Val → Res Val) : ∀ (xs r : List Val), filterLoop c xs = .ok r → vsizeL r ≤ vsizeL xs := by
  intro xs
  induction xs with
  | nil => intro r hr; simp [filterLoop] at hr; subst hr; simp
  | cons x xs ih =>
    intro r hr
    simp only [filterLoop] at hr
    cases hf : c x with
    | ok p =>
      rw [hf] at hr; simp only [Res.ok_bind] at hr
      cases hm : filterLoop c xs with
      | ok rest =>
        rw [hm] at hr; simp only [Res.ok_bind, Res.pure_eq] at hr
        have := ih rest hm
        injection hr with hr; subst hr
        split <;> simp only [vsizeL] <;> omega
      | _ => rw [hm] at hr; simp [Res.err_bind, Res.panic_bind, Res.nondet_bind, Res.unmodelled_bind] at hr
    | _ => rw [hf] at hr; simp [Res.err_bind, Res.panic_bind, Res.nondet_bind, Res.unmodelled_bind] at hr

theorem filterArray_size (c : Val → Res Val) (v : Val) : outSize (filterArray c v) ≤ vsize v := by
  have hp := vsize_pos v
  cases v <;> simp only [filterArray, outSize_ok, vsize] <;> try omega
  rename_i t xs
  rw [outSize_widen]
  apply outSize_bind_le
  intro r hr
  have := filterLoop_size c xs r hr
  simp only [Res.pure_eq, outSize_ok, vsize]; omega

theorem filterMapPrune_size (c f : Val → Res Val) (h : ∀ x, outSize (f x) ≤ vsize x) : ∀ (xs r : List Val),
    filterMapPrune c f xs = .ok r → vsizeL r ≤ vsizeL xs := by
  intro xs
  induction xs with
  | nil => intro r hr; simp [filterMapPrune] at hr; subst hr; simp
  | cons x xs ih =>
    intro r hr
    simp only [filterMapPrune] at hr
    have hx := h x
    cases hc : c x with
    | ok b =>
      rw [hc] at hr; simp only [Res.ok_bind] at hr
      split at hr
      · cases hf : f x with
        | ok p =>
          rw [hf] at hr hx; simp only [Res.ok_bind] at hr
          cases hm : filterMapPrune c f xs with
          | ok rest =>
            rw [hm] at hr; simp only [Res.ok_bind, Res.pure_eq] at hr
            have := ih rest hm
            simp only [outSize_ok] at hx
            injection hr with hr; subst hr
            split <;> simp only [vsizeL] <;> omega
          | _ => rw [hm] at hr; simp [Res.err_bind, Res.panic_bind, Res.nondet_bind, Res.unmodelled_bind] at hr
        | _ => rw [hf] at hr; simp [Res.err_bind, Res.panic_bind, Res.nondet_bind, Res.unmodelled_bind] at hr
      · have := ih r hr; simp only [vsizeL]; omega
    | _ => rw [hc] at hr; simp [Res.err_bind, Res.panic_bind, Res.nondet_bind, Res.unmodelled_bind] at hr

theorem filterAndProjectArray_size (c f : Val → Res Val) (h : ∀ x, outSize (f x) ≤ vsize x) (v : Val) :
    outSize (filterAndProjectArray c f v) ≤ vsize v := by
  have hp := vsize_pos v
  cases v <;> simp only [filterAndProjectArray, outSize_ok, vsize] <;> try omega
  rename_i t xs
  rw [outSize_widen]
  apply outSize_bind_le
  intro r hr
  have := filterMapPrune_size c f h xs r hr
  simp only [Res.pure_eq, outSize_ok, vsize]; omega

theorem flattenElems_size : ∀ xs : List Val, vsizeL (flattenElems xs) ≤ vsizeL xs
  | [] => by simp [flattenElems]
  | x :: xs => by
    have ih := flattenElems_size xs
    cases x <;> simp only [flattenElems, vsizeL, vsizeL_append, vsize] <;> try omega
    rename_i t ys
    have := vsizeL_filter_le (fun y => !y.isNull) ys
    omega

theorem flatten_size (v : Val) : vsize (flatten v) ≤ vsize v := by
  have hp := vsize_pos v
  cases v <;> simp only [flatten, vsize] <;> try omega
  rename_i t xs
  have := flattenElems_size xs; omega

theorem flattenForProject_size : ∀ xs : List Val, vsizeL (flattenForProject xs) ≤ vsizeL xs
  | [] => by simp [flattenForProject]
  | x :: xs => by
    have ih := flattenForProject_size xs
    cases x <;> simp only [flattenForProject, vsizeL, vsizeL_append, vsize] <;> omega

theorem flattenAndProjectArray_size (f : Val → Res Val) (h : ∀ x, outSize (f x) ≤ vsize x) (v : Val) :
    outSize (flattenAndProjectArray f v) ≤ vsize v := by
  have hp := vsize_pos v
  cases v <;> simp only [flattenAndProjectArray, outSize_ok, vsize] <;> try omega
  rename_i t xs
  rw [outSize_widen]
  apply outSize_bind_le
  intro r hr
  have := mapPrune_size f h _ r hr
  have := flattenForProject_size xs
  simp only [Res.pure_eq, outSize_ok, vsize]; omega

theorem objectValues_size (v : Val) : vsize (objectValues v) ≤ vsize v := by
  have hp := vsize_pos v
  cases v <;> simp only [objectValues, vsize] <;> try omega
  rename_i kvs
  have := vsizeL_filter_le (fun x => !x.isNull) (kvs.map Prod.snd)
  have := vsizeL_values_le kvs
  omega

theorem pruneArray_size (v : Val) : vsize (pruneArray v) ≤ vsize v := by
  have hp := vsize_pos v
  cases v <;> simp only [pruneArray, vsize] <;> try omega
  rename_i t xs
  split
  · have := vsizeL_filter_le (fun x => !x.isNull) xs; simp only [vsize]; omega
  · simp only [vsize]; omega

theorem checkF_size (r : F64) : outSize (checkF r) ≤ 1 := by
  unfold checkF
  split
  · simp [outSize, onOk, errNaN]
  · split <;> simp [outSize, onOk, errNaN, vsize, numSize]

theorem checkD_size (r : Dec) : outSize (checkD r) ≤ 1 := by
  unfold checkD
  split
  · simp [outSize, onOk, errNaN]
  · split <;> simp [outSize, onOk, errNaN, vsize, numSize]

theorem arith_size (fop : F64 → F64 → F64) (dop : Dec → Dec → Dec) (a b : Val) : outSize (arith fop dop a b) ≤ 1 := by
  unfold arith
  split
  · exact checkF_size _
  · split
    · simp [outSize, onOk, errType]
    · split
      · simp [outSize, onOk, errType]
      · exact checkD_size _

theorem cmpOp_size (f : Dec → Dec → Bool) (a b : Val) : vsize (cmpOp f a b) ≤ 1 := by
  unfold cmpOp
  split
  · simp [vsize]
  · split <;> simp [vsize]

theorem equalR_size (a b : Val) (g : Bool → Bool) : outSize (equalR a b >>= fun x => pure (Val.bool (g x))) ≤ 1 := by
  unfold equalR
  split <;> simp [outSize, onOk, Res.nondet_bind, Res.ok_bind, vsize]

theorem applyBinOp_size (op : BinOp) (a b : Val) : outSize (applyBinOp op a b) ≤ 1 := by
  cases op <;> simp only [applyBinOp, add, subtract, multiply, divide, integerDivide, modulo, less, lessOrEqual, greater,
    greaterOrEqual, outSize_ok]
  · exact arith_size _ _ a b
  · exact arith_size _ _ a b
  · exact arith_size _ _ a b
  · exact arith_size _ _ a b
  · exact arith_size _ _ a b
  · exact arith_size _ _ a b
  · exact equalR_size a b id
  · exact equalR_size a b (fun x => !x)
  · exact cmpOp_size _ a b
  · exact cmpOp_size _ a b
  · exact cmpOp_size _ a b
  · exact cmpOp_size _ a b

theorem negateVal_size (a : Val) : vsize (negateVal a) ≤ 1 := by
  unfold negateVal
  split
  · simp [vsize, numSize]
  · split
    · simp [vsize]
    · split <;> simp [vsize, numSize]

/-! ## the size of an expression, and the core fragment -/

mutual
/-- size of an expression: its number of nodes (one per member key of a multi-select hash / `let` binding as well)
    plus the sizes of its literals -/
def nsize : INode → Nat
  | .lit v => vsize v
  | .current => 1
  | .root => 1
  | .field _ => 1
  | .variable _ => 1
  | .binop _ l r => 1 + nsize l + nsize r
  | .and l r => 1 + nsize l + nsize r
  | .or l r => 1 + nsize l + nsize r
  | .not c => 1 + nsize c
  | .negate c => 1 + nsize c
  | .assertNumber c => 1 + nsize c
  | .call _ args => 1 + nsizeL args
  | .defineVariables vars child => 1 + nsizeF vars + nsize child
  | .filter c f => 1 + nsize c + nsize f
  | .filterCurrent f => 1 + nsize f
  | .filterAndProject l f r => 1 + nsize l + nsize f + nsize r
  | .filterAndProjectCurrent f c => 1 + nsize f + nsize c
  | .flatten c => 1 + nsize c
  | .flattenCurrent => 1
  | .flattenAndProject l r => 1 + nsize l + nsize r
  | .flattenAndProjectCurrent c => 1 + nsize c
  | .index c _ => 1 + nsize c
  | .indexCurrent _ => 1
  | .smallIndexCurrent _ => 1
  | .objectValues c => 1 + nsize c
  | .objectValuesCurrent => 1
  | .pipe l r => 1 + nsize l + nsize r
  | .projectArray l r => 1 + nsize l + nsize r
  | .projectArrayCurrent c => 1 + nsize c
  | .projectObject l r => 1 + nsize l + nsize r
  | .projectObjectCurrent c => 1 + nsize c
  | .pruneArray c => 1 + nsize c
  | .pruneArrayCurrent => 1
  | .selectArray c fs => 1 + nsize c + nsizeL fs
  | .selectArrayCurrent fs => 1 + nsizeL fs
  | .selectArraySingle c f => 1 + nsize c + nsize f
  | .selectArraySingleCurrent f => 1 + nsize f
  | .selectObject c fs => 1 + nsize c + nsizeF fs
  | .selectObjectCurrent fs => 1 + nsizeF fs
  | .selectObjectSingle c _ f => 1 + nsize c + nsize f
  | .selectObjectSingleCurrent _ f => 1 + nsize f
  | .slice c _ _ => 1 + nsize c
  | .sliceCurrent _ _ => 1
  | .sliceStep c _ _ _ => 1 + nsize c
  | .sliceStepCurrent _ _ _ => 1
  | .groupBy a e => 1 + nsize a + nsize e
  | .map e a => 1 + nsize e + nsize a
  | .maxBy a e => 1 + nsize a + nsize e
  | .minBy a e => 1 + nsize a + nsize e
  | .sortBy a e => 1 + nsize a + nsize e
  | .merge args => 1 + nsizeL args
  | .notNull args => 1 + nsizeL args
  | .zip args => 1 + nsizeL args
def nsizeL : List INode → Nat
  | [] => 0
  | n :: ns => nsize n + nsizeL ns
def nsizeF : List (Bytes × INode) → Nat
  | [] => 0
  | (_, n) :: rest => 1 + nsize n + nsizeF rest
end

/-- is the node a literal? -/
def isLit : INode → Bool
  | .lit _ => true
  | _ => false

/-- the core fragment: `@`, fields, indexes, two-bound slices, pipes, every projection / filter / flatten form, `.*`,
    `&&`, `||`, `!`, unary minus, and binary operators whose operands are core expressions or literals -/
def isCore : INode → Bool
  | .current => true
  | .field _ => true
  | .indexCurrent _ => true
  | .smallIndexCurrent _ => true
  | .sliceCurrent _ _ => true
  | .flattenCurrent => true
  | .objectValuesCurrent => true
  | .pruneArrayCurrent => true
  | .index c _ => isCore c
  | .slice c _ _ => isCore c
  | .flatten c => isCore c
  | .objectValues c => isCore c
  | .pruneArray c => isCore c
  | .not c => isCore c
  | .negate c => isCore c
  | .assertNumber c => isCore c
  | .filterCurrent c => isCore c
  | .flattenAndProjectCurrent c => isCore c
  | .projectArrayCurrent c => isCore c
  | .projectObjectCurrent c => isCore c
  | .pipe l r => isCore l && isCore r
  | .and l r => isCore l && isCore r
  | .or l r => isCore l && isCore r
  | .filter l r => isCore l && isCore r
  | .flattenAndProject l r => isCore l && isCore r
  | .projectArray l r => isCore l && isCore r
  | .projectObject l r => isCore l && isCore r
  | .filterAndProjectCurrent l r => isCore l && isCore r
  | .filterAndProject l f r => isCore l && isCore f && isCore r
  | .binop _ l r => (isLit l || isCore l) && (isLit r || isCore r)
  | _ => false

theorem nsize_pos (n : INode) : 1 ≤ nsize n := by
  cases n <;> simp only [nsize] <;> first | omega | exact vsize_pos _

/-! ## the closed form -/

theorem mono2 (k a b : Nat) (h : a ≤ b) : k * (2 * a) ≤ k * (2 * b) :=
  Nat.mul_le_mul_left _ (by omega)

theorem sumMap_core_le (g : Val → Nat) (k : Nat) (h : ∀ x, g x ≤ k * (2 * vsize x)) :
    ∀ xs : List Val, sumMap g xs ≤ k * (2 * vsizeL xs)
  | [] => by simp
  | x :: xs => by
    have := sumMap_core_le g k h xs
    have := h x
    simp only [sumMap_cons, vsizeL, Nat.mul_add]; omega

theorem loopS_core_le (g : Val → Nat) (k : Nat) (h : ∀ x, g x ≤ k * (2 * vsize x)) (xs : List Val) (V : Nat)
    (hV : vsizeL xs ≤ V) : loopS g xs ≤ V + k * (2 * V) := by
  have h1 := sumMap_core_le g k h xs
  have h2 := length_le_vsizeL xs
  have h3 := mono2 k _ _ hV
  simp only [loopS]; omega

theorem vsizeL_members_le (v : Val) : vsizeL (members v) ≤ vsize v := by
  cases v <;> simp only [members, vsize, vsizeL] <;> try omega
  rename_i kvs; have := vsizeL_values_le kvs; omega

theorem vsizeL_flatElems_le (v : Val) : vsizeL (flatElems v) ≤ vsize v := by
  cases v <;> simp only [flatElems, vsize, vsizeL] <;> try omega
  rename_i t xs; have := flattenForProject_size xs; omega

theorem lit_S (root : Val) (n : INode) (h : isLit n = true) (cur : Val) (env : Env) :
    ievalS root n cur env = 1 ∧ outSize (ieval root n cur env) = nsize n := by
  cases n with
  | lit v => exact ⟨by simp only [ievalS], by simp only [nsize, ieval, outSize_ok]⟩
  | _ => simp [isLit] at h


/-- what the closed form says of one node at one value -/
def CoreOK (root : Val) (n : INode) : Prop :=
  ∀ (cur : Val) (env : Env),
    outSize (ieval root n cur env) ≤ vsize cur ∧ ievalS root n cur env ≤ nsize n * (2 * vsize cur)

theorem outSize_le_of (r : Res Val) (V : Nat) (h : outSize r ≤ V) : ∀ a, r = .ok a → vsize a ≤ V := by
  intro a e; subst e; exact h

/-- a unary node `g(child)` whose value function does not grow its argument and whose own share is at most `2·size` -/
theorem core_unary (root : Val) (c : INode) (hc : CoreOK root c) (g : Val → Res Val) (own : Val → Nat)
    (hg : ∀ a, outSize (g a) ≤ vsize a) (ho : ∀ a, own a ≤ vsize a) (cur : Val) (env : Env) :
    outSize (ieval root c cur env >>= g) ≤ vsize cur ∧
    1 + ievalS root c cur env + onOk (ieval root c cur env) own ≤ (1 + nsize c) * (2 * vsize cur) := by
  obtain ⟨h1, h2⟩ := hc cur env
  have hp := vsize_pos cur
  refine ⟨?_, ?_⟩
  · apply outSize_bind_le
    intro a ha
    have := outSize_le_of _ _ h1 a ha
    have := hg a
    omega
  · have : onOk (ieval root c cur env) own ≤ vsize cur := by
      apply onOk_le_of
      intro a ha
      have := outSize_le_of _ _ h1 a ha
      have := ho a
      omega
    rw [Nat.add_mul, Nat.one_mul]; omega

/-- a node `child >>= body` whose body does not grow its argument and whose share of the measure is at most
    `size + k·2·size` -/
theorem core_bind (root : Val) (l : INode) (hl : CoreOK root l) (body : Val → Res Val) (sb : Val → Nat) (k : Nat)
    (hb : ∀ a, outSize (body a) ≤ vsize a) (hs : ∀ a, sb a ≤ vsize a + k * (2 * vsize a)) (cur : Val) (env : Env) :
    outSize (ieval root l cur env >>= body) ≤ vsize cur ∧
    1 + ievalS root l cur env + onOk (ieval root l cur env) sb
      ≤ 2 * vsize cur + nsize l * (2 * vsize cur) + k * (2 * vsize cur) := by
  obtain ⟨h1, h2⟩ := hl cur env
  have hp := vsize_pos cur
  refine ⟨?_, ?_⟩
  · apply outSize_bind_le
    intro a ha
    have := outSize_le_of _ _ h1 a ha
    have := hb a
    omega
  · have : onOk (ieval root l cur env) sb ≤ vsize cur + k * (2 * vsize cur) := by
      apply onOk_le_of
      intro a ha
      have h3 := outSize_le_of _ _ h1 a ha
      have := hs a
      have := mono2 k _ _ h3
      omega
    omega

theorem loopS_core (g : Val → Nat) (k : Nat) (h : ∀ x, g x ≤ k * (2 * vsize x)) (a : Val) :
    loopS g (elems a) ≤ vsize a + k * (2 * vsize a) :=
  loopS_core_le g k h (elems a) (vsize a) (vsizeL_elems_le a)

theorem loopS_core_members (g : Val → Nat) (k : Nat) (h : ∀ x, g x ≤ k * (2 * vsize x)) (a : Val) :
    loopS g (members a) ≤ vsize a + k * (2 * vsize a) :=
  loopS_core_le g k h (members a) (vsize a) (vsizeL_members_le a)

set_option maxRecDepth 2000 in
/-- THE CLOSED FORM on the core fragment: no intermediate value is larger than the value it is computed from, and the
    measure is at most `(nodes of the expression) · 2 · (size of the current value)` -/
theorem core_ok (root : Val) : (n : INode) → isCore n = true → CoreOK root n
  | .current, _ => fun cur env => by
    have := vsize_pos cur
    simp only [ieval, ievalS, nsize, outSize_ok]; omega
  | .field k, _ => fun cur env => by
    have := vsize_pos cur
    have := field_size k cur
    simp only [ieval, ievalS, nsize, outSize_ok]; omega
  | .indexCurrent i, _ => fun cur env => by
    have := vsize_pos cur
    have := index_size cur i
    simp only [ieval, ievalS, nsize]; omega
  | .smallIndexCurrent i, _ => fun cur env => by
    have := vsize_pos cur
    have := index_size cur i
    simp only [ieval, ievalS, nsize]; omega
  | .sliceCurrent a b, _ => fun cur env => by
    have := vsize_pos cur
    have := slice_size cur a b
    simp only [ieval, ievalS, nsize]; omega
  | .flattenCurrent, _ => fun cur env => by
    have := vsize_pos cur
    have := flatten_size cur
    simp only [ieval, ievalS, nsize, outSize_ok]; omega
  | .objectValuesCurrent, _ => fun cur env => by
    have := vsize_pos cur
    have := objectValues_size cur
    simp only [ieval, ievalS, nsize, outSize_ok]; omega
  | .pruneArrayCurrent, _ => fun cur env => by
    have := vsize_pos cur
    have := pruneArray_size cur
    simp only [ieval, ievalS, nsize, outSize_ok]; omega
  | .index c i, h => fun cur env => by
    simp only [isCore] at h
    have := core_bind root c (core_ok root c h) (fun a => index a i) (fun _ => 0) 0
      (fun a => index_size a i) (fun a => by omega) cur env
    simp only [ieval, ievalS, nsize, Nat.add_mul, Nat.one_mul]
    exact ⟨this.1, by omega⟩
  | .slice c a b, h => fun cur env => by
    simp only [isCore] at h
    have := core_bind root c (core_ok root c h) (fun v => slice v a b) vsize 0
      (fun v => slice_size v a b) (fun a => by omega) cur env
    simp only [ieval, ievalS, nsize, Nat.add_mul, Nat.one_mul]
    exact ⟨this.1, by omega⟩
  | .flatten c, h => fun cur env => by
    simp only [isCore] at h
    have := core_bind root c (core_ok root c h) (fun a => pure (flatten a)) vsize 0
      (fun a => flatten_size a) (fun a => by omega) cur env
    simp only [ieval, ievalS, nsize, Nat.add_mul, Nat.one_mul]
    exact ⟨this.1, by omega⟩
  | .objectValues c, h => fun cur env => by
    simp only [isCore] at h
    have := core_bind root c (core_ok root c h) (fun a => pure (objectValues a)) vsize 0
      (fun a => objectValues_size a) (fun a => by omega) cur env
    simp only [ieval, ievalS, nsize, Nat.add_mul, Nat.one_mul]
    exact ⟨this.1, by omega⟩
  | .pruneArray c, h => fun cur env => by
    simp only [isCore] at h
    have := core_bind root c (core_ok root c h) (fun a => pure (pruneArray a)) vsize 0
      (fun a => pruneArray_size a) (fun a => by omega) cur env
    simp only [ieval, ievalS, nsize, Nat.add_mul, Nat.one_mul]
    exact ⟨this.1, by omega⟩
  | .not c, h => fun cur env => by
    simp only [isCore] at h
    have := core_bind root c (core_ok root c h) (fun a => pure (.bool (!isTrue a))) (fun _ => 0) 0
      (fun a => vsize_pos a) (fun a => by omega) cur env
    simp only [ieval, ievalS, nsize, Nat.add_mul, Nat.one_mul]
    exact ⟨this.1, by omega⟩
  | .negate c, h => fun cur env => by
    simp only [isCore] at h
    have := core_bind root c (core_ok root c h) (fun a => pure (negateVal a)) (fun _ => 0) 0
      (fun a => Nat.le_trans (negateVal_size a) (vsize_pos a)) (fun a => by omega) cur env
    simp only [ieval, ievalS, nsize, Nat.add_mul, Nat.one_mul]
    exact ⟨this.1, by omega⟩
  | .assertNumber c, h => fun cur env => by
    simp only [isCore] at h
    have := core_bind root c (core_ok root c h) (fun a => pure (if isNumber a then a else .null)) (fun _ => 0) 0
      (fun a => by
        show vsize (if isNumber a then a else .null) ≤ vsize a
        have := vsize_pos a
        split
        · exact Nat.le_refl _
        · simp only [vsize]; exact this) (fun a => by omega) cur env
    simp only [ieval, ievalS, nsize, Nat.add_mul, Nat.one_mul]
    exact ⟨this.1, by omega⟩
  | .filterCurrent f, h => fun cur env => by
    simp only [isCore] at h
    have hf := core_ok root f h
    have hp := vsize_pos cur
    have := loopS_core (fun v => ievalS root f v env) (nsize f) (fun v => (hf v env).2) cur
    have := filterArray_size (fun v => ieval root f v env) cur
    simp only [ieval, ievalS, nsize, Nat.add_mul, Nat.one_mul]; omega
  | .projectArrayCurrent c, h => fun cur env => by
    simp only [isCore] at h
    have hc := core_ok root c h
    have hp := vsize_pos cur
    have := loopS_core (fun v => ievalS root c v env) (nsize c) (fun v => (hc v env).2) cur
    have := projectArray_size (fun v => ieval root c v env) (fun v => (hc v env).1) cur
    simp only [ieval, ievalS, nsize, Nat.add_mul, Nat.one_mul]; omega
  | .projectObjectCurrent c, h => fun cur env => by
    simp only [isCore] at h
    have hc := core_ok root c h
    have hp := vsize_pos cur
    have := loopS_core_members (fun v => ievalS root c v env) (nsize c) (fun v => (hc v env).2) cur
    have := projectObject_size (fun v => ieval root c v env) (fun v => (hc v env).1) cur
    simp only [ieval, ievalS, nsize, Nat.add_mul, Nat.one_mul]; omega
  | .flattenAndProjectCurrent c, h => fun cur env => by
    simp only [isCore] at h
    have hc := core_ok root c h
    have hp := vsize_pos cur
    have h1 := sumMap_core_le (fun v => ievalS root c v env) (nsize c) (fun v => (hc v env).2) (flatElems cur)
    have h2 := mono2 (nsize c) _ _ (vsizeL_flatElems_le cur)
    have := flattenAndProjectArray_size (fun v => ieval root c v env) (fun v => (hc v env).1) cur
    simp only [ieval, ievalS, nsize, Nat.add_mul, Nat.one_mul]; omega
  | .filterAndProjectCurrent f c, h => fun cur env => by
    simp only [isCore, Bool.and_eq_true] at h
    have hf := core_ok root f h.1
    have hc := core_ok root c h.2
    have hp := vsize_pos cur
    have h1 := loopS_core (fun v => ievalS root f v env + ievalS root c v env) (nsize f + nsize c)
      (fun v => by have := (hf v env).2; have := (hc v env).2; rw [Nat.add_mul]; omega) cur
    have h2 := filterAndProjectArray_size (fun v => ieval root f v env) (fun v => ieval root c v env)
      (fun v => (hc v env).1) cur
    simp only [ieval, ievalS, nsize, Nat.add_mul, Nat.one_mul] at h1 ⊢; omega
  | .pipe l r, h => fun cur env => by
    simp only [isCore, Bool.and_eq_true] at h
    have hr := core_ok root r h.2
    have := core_bind root l (core_ok root l h.1) (fun a => ieval root r a env) (fun a => ievalS root r a env) (nsize r)
      (fun a => (hr a env).1) (fun a => by have := (hr a env).2; omega) cur env
    simp only [ieval, ievalS, nsize, Nat.add_mul, Nat.one_mul]
    exact ⟨this.1, by omega⟩
  | .and l r, h => fun cur env => by
    simp only [isCore, Bool.and_eq_true] at h
    obtain ⟨h1, h2⟩ := core_ok root l h.1 cur env
    obtain ⟨h3, h4⟩ := core_ok root r h.2 cur env
    have hp := vsize_pos cur
    simp only [ieval, ievalS, nsize, Nat.add_mul, Nat.one_mul]
    refine ⟨?_, by omega⟩
    apply outSize_bind_le
    intro a ha
    have := outSize_le_of _ _ h1 a ha
    split
    · simpa using this
    · exact h3
  | .or l r, h => fun cur env => by
    simp only [isCore, Bool.and_eq_true] at h
    obtain ⟨h1, h2⟩ := core_ok root l h.1 cur env
    obtain ⟨h3, h4⟩ := core_ok root r h.2 cur env
    have hp := vsize_pos cur
    simp only [ieval, ievalS, nsize, Nat.add_mul, Nat.one_mul]
    refine ⟨?_, by omega⟩
    apply outSize_bind_le
    intro a ha
    have := outSize_le_of _ _ h1 a ha
    split
    · simpa using this
    · exact h3
  | .filter c f, h => fun cur env => by
    simp only [isCore, Bool.and_eq_true] at h
    have hf := core_ok root f h.2
    have := core_bind root c (core_ok root c h.1) (fun a => filterArray (fun v => ieval root f v env) a)
      (fun a => loopS (fun v => ievalS root f v env) (elems a)) (nsize f)
      (fun a => filterArray_size _ a) (fun a => loopS_core _ _ (fun v => (hf v env).2) a) cur env
    simp only [ieval, ievalS, nsize, Nat.add_mul, Nat.one_mul]
    exact ⟨this.1, by omega⟩
  | .flattenAndProject l r, h => fun cur env => by
    simp only [isCore, Bool.and_eq_true] at h
    have hr := core_ok root r h.2
    have := core_bind root l (core_ok root l h.1) (fun a => flattenAndProjectArray (fun v => ieval root r v env) a)
      (fun a => vsize a + sumMap (fun v => ievalS root r v env) (flatElems a)) (nsize r)
      (fun a => flattenAndProjectArray_size _ (fun v => (hr v env).1) a)
      (fun a => by
        have h1 := sumMap_core_le (fun v => ievalS root r v env) (nsize r) (fun v => (hr v env).2) (flatElems a)
        have h2 := mono2 (nsize r) _ _ (vsizeL_flatElems_le a)
        omega) cur env
    simp only [ieval, ievalS, nsize, Nat.add_mul, Nat.one_mul]
    exact ⟨this.1, by omega⟩
  | .projectObject l r, h => fun cur env => by
    simp only [isCore, Bool.and_eq_true] at h
    have hr := core_ok root r h.2
    have := core_bind root l (core_ok root l h.1) (fun a => projectObject (fun v => ieval root r v env) a)
      (fun a => loopS (fun v => ievalS root r v env) (members a)) (nsize r)
      (fun a => projectObject_size _ (fun v => (hr v env).1) a)
      (fun a => loopS_core_members _ _ (fun v => (hr v env).2) a) cur env
    simp only [ieval, ievalS, nsize, Nat.add_mul, Nat.one_mul]
    exact ⟨this.1, by omega⟩
  | .filterAndProject l f r, h => fun cur env => by
    simp only [isCore, Bool.and_eq_true] at h
    have hf := core_ok root f h.1.2
    have hr := core_ok root r h.2
    have := core_bind root l (core_ok root l h.1.1)
      (fun a => filterAndProjectArray (fun v => ieval root f v env) (fun v => ieval root r v env) a)
      (fun a => loopS (fun v => ievalS root f v env + ievalS root r v env) (elems a)) (nsize f + nsize r)
      (fun a => filterAndProjectArray_size _ _ (fun v => (hr v env).1) a)
      (fun a => loopS_core _ _
        (fun v => by have := (hf v env).2; have := (hr v env).2; rw [Nat.add_mul]; omega) a) cur env
    simp only [ieval, ievalS, nsize, Nat.add_mul, Nat.one_mul] at this ⊢
    exact ⟨this.1, by omega⟩
  | .projectArray l r, h => fun cur env => by
    simp only [isCore, Bool.and_eq_true] at h
    have hr := core_ok root r h.2
    have hpa : ∀ a, outSize (projectArray (fun v => ieval root r v env) a) ≤ vsize a :=
      fun a => projectArray_size _ (fun v => (hr v env).1) a
    have hls : ∀ a, loopS (fun v => ievalS root r v env) (elems a) ≤ vsize a + nsize r * (2 * vsize a) :=
      fun a => loopS_core _ _ (fun v => (hr v env).2) a
    obtain ⟨h1, h2⟩ := core_ok root l h.1 cur env
    have hp := vsize_pos cur
    simp only [ieval, ievalS, nsize, Nat.add_mul, Nat.one_mul]
    cases hl : ieval root l cur env with
    | ok a =>
      rw [hl] at h1
      simp only [outSize_ok] at h1
      have hm := mono2 (nsize r) _ _ h1
      have h3 := hpa a
      have h4 := hls a
      have h5 := hr a env
      simp only [Res.ok_bind, onOk_ok]
      cases a <;> simp only <;> first | (refine ⟨by omega, by omega⟩) | skip
      split
      · exact ⟨by omega, by omega⟩
      · exact ⟨by omega, by omega⟩
    | _ => simp only [Res.err_bind, Res.panic_bind, Res.nondet_bind, Res.unmodelled_bind, outSize, onOk]; omega
  | .binop op l r, h => fun cur env => by
    simp only [isCore, Bool.and_eq_true, Bool.or_eq_true] at h
    have hp := vsize_pos cur
    have hl : ievalS root l cur env + outSize (ieval root l cur env) ≤ vsize cur + nsize l * (2 * vsize cur) := by
      cases h.1 with
      | inl e =>
        obtain ⟨e1, e2⟩ := lit_S root l e cur env
        rw [e1, e2]
        have := Nat.le_mul_of_pos_right (nsize l) (by omega : 0 < 2 * vsize cur)
        omega
      | inr e => have := core_ok root l e cur env; omega
    have hr : ievalS root r cur env ≤ nsize r * (2 * vsize cur) := by
      cases h.2 with
      | inl e =>
        obtain ⟨e1, e2⟩ := lit_S root r e cur env
        rw [e1]
        have := Nat.le_mul_of_pos_right (nsize r) (by omega : 0 < 2 * vsize cur)
        have := nsize_pos r
        omega
      | inr e => exact (core_ok root r e cur env).2
    simp only [ieval, ievalS, nsize, Nat.add_mul, Nat.one_mul]
    refine ⟨?_, by simp only [outSize] at hl; omega⟩
    apply outSize_bind_le
    intro a _
    apply outSize_bind_le
    intro b _
    have := applyBinOp_size op a b
    omega

/-- the ticks of a core expression: at most `24 · (nodes of the expression) · (size of the current value)` -/
theorem core_cost (root : Val) (n : INode) (h : isCore n = true) (cur : Val) (env : Env) :
    (ievalT root n cur env).2 ≤ 24 * (nsize n * vsize cur) := by
  have h1 := ievalT_cost root n cur env
  have h2 := (core_ok root n h cur env).2
  have e : nsize n * (2 * vsize cur) = 2 * (nsize n * vsize cur) := Nat.mul_left_comm _ _ _
  omega

/-- a three-bound slice applied to a core expression, ALL `start stop step : Int` -/
theorem core_sliceStep_cost (root : Val) (c : INode) (h : isCore c = true) (cur : Val) (env : Env) :
    ∀ start stop step : Int,
      (ievalT root (.sliceStep c start stop step) cur env).2 ≤ 24 * ((1 + nsize c) * vsize cur) := by
  intro start stop step
  have h1 := ievalT_cost root (.sliceStep c start stop step) cur env
  obtain ⟨h2, h3⟩ := core_ok root c h cur env
  have hp := vsize_pos cur
  simp only [ievalS] at h1
  have h4 : onOk (ieval root c cur env) vsize ≤ vsize cur := h2
  have e : nsize c * (2 * vsize cur) = 2 * (nsize c * vsize cur) := Nat.mul_left_comm _ _ _
  rw [Nat.add_mul, Nat.one_mul]
  omega

end Jmes.C09E
