/-
  C11 (third wave): renaming on the expression TEXT.  A parse tree of the declarative grammar (`Spec/Grammar.lean`)
  is renamed by a substitution `σ` on its atom tokens and multi-select key tokens (`renT`); when `σ` renames each of
  these tokens consistently with `f` (`TokAll`: the node of the renamed atom is the renamed node, the renamed key
  is the renamed key), the node of the renamed tree is the renamed node: `erase (renT σ t) = renN f (erase t)`.
-/
import Jmes.Proofs.C11CEvalLemmas
import Jmes.Proofs.C17BLemmas
namespace Jmes.C11C
open Jmes Jmes.Utf8 Jmes.C11 Jmes.C11S Jmes.C11R Jmes.C11V Jmes.Invar Jmes.Grammar

/-! ## renaming a parse tree -/

mutual
/-- apply the token substitution `σ` to the atoms (identifiers, literals, …) and to the keys of multi-select hashes;
    operators, brackets, integer tokens, function names and `let` variables stay -/
def renT (σ : Token → Token) : PTree → PTree
  | .icur => .icur
  | .atom t => .atom (σ t)
  | .paren t => .paren (renT σ t)
  | .not t => .not (renT σ t)
  | .neg tok t => .neg tok (renT σ t)
  | .pos t => .pos (renT σ t)
  | .bin op l r => .bin op (renT σ l) (renT σ r)
  | .dotId l r => .dotId (renT σ l) (renT σ r)
  | .dotList l es => .dotList (renT σ l) (renTL σ es)
  | .dotHash l kvs => .dotHash (renT σ l) (renTK σ true kvs)
  | .dotStarList l => .dotStarList (renT σ l)
  | .index l n => .index (renT σ l) n
  | .call name args => .call name (renTL σ args)
  | .ref t => .ref (renT σ t)
  | .letIn bs body => .letIn (renTK σ false bs) (renT σ body)
  | .multiList es => .multiList (renTL σ es)
  | .multiHash kvs => .multiHash (renTK σ true kvs)
  | .star l rhs => .star (renT σ l) (renT σ rhs)
  | .ostar l rhs => .ostar (renT σ l) (renT σ rhs)
  | .flat l rhs => .flat (renT σ l) (renT σ rhs)
  | .filt l c rhs => .filt (renT σ l) (renT σ c) (renT σ rhs)
  | .slice l a b c rhs => .slice (renT σ l) a b c (renT σ rhs)
def renTL (σ : Token → Token) : List PTree → List PTree
  | [] => []
  | e :: es => renT σ e :: renTL σ es
def renTK (σ : Token → Token) (keys : Bool) : List (Token × PTree) → List (Token × PTree)
  | [] => []
  | (k, e) :: rest => ((if keys then σ k else k), renT σ e) :: renTK σ keys rest
end

/-- `σ` renames the atom token `t` consistently with `f`: the renamed token denotes the renamed node -/
def AtomOK (f : Nat → Nat) (σ : Token → Token) (t : Token) : Prop := atomNode (σ t) = (atomNode t).map (renN f)

/-- `σ` renames the key token `k` consistently with `f`, and the key can be renamed -/
def KeyOK (f : Nat → Nat) (σ : Token → Token) (k : Token) : Prop :=
  keyOf (σ k) = renB f (keyOf k) ∧ rnB f (keyOf k) = true

mutual
/-- every atom and every multi-select key of the tree is renamed consistently -/
def TokAll (f : Nat → Nat) (σ : Token → Token) : PTree → Prop
  | .icur => True
  | .atom t => AtomOK f σ t
  | .paren t => TokAll f σ t
  | .not t => TokAll f σ t
  | .neg _ t => TokAll f σ t
  | .pos t => TokAll f σ t
  | .bin _ l r => TokAll f σ l ∧ TokAll f σ r
  | .dotId l r => TokAll f σ l ∧ TokAll f σ r
  | .dotList l es => TokAll f σ l ∧ TokAllL f σ es
  | .dotHash l kvs => TokAll f σ l ∧ TokAllK f σ true kvs
  | .dotStarList l => TokAll f σ l
  | .index l _ => TokAll f σ l
  | .call _ args => TokAllL f σ args
  | .ref t => TokAll f σ t
  | .letIn bs body => TokAllK f σ false bs ∧ TokAll f σ body
  | .multiList es => TokAllL f σ es
  | .multiHash kvs => TokAllK f σ true kvs
  | .star l rhs => TokAll f σ l ∧ TokAll f σ rhs
  | .ostar l rhs => TokAll f σ l ∧ TokAll f σ rhs
  | .flat l rhs => TokAll f σ l ∧ TokAll f σ rhs
  | .filt l c rhs => TokAll f σ l ∧ TokAll f σ c ∧ TokAll f σ rhs
  | .slice l _ _ _ rhs => TokAll f σ l ∧ TokAll f σ rhs
def TokAllL (f : Nat → Nat) (σ : Token → Token) : List PTree → Prop
  | [] => True
  | e :: es => TokAll f σ e ∧ TokAllL f σ es
def TokAllK (f : Nat → Nat) (σ : Token → Token) (keys : Bool) : List (Token × PTree) → Prop
  | [] => True
  | (k, e) :: rest => (keys = true → KeyOK f σ k) ∧ TokAll f σ e ∧ TokAllK f σ keys rest
end

theorem isIcur_renT (σ : Token → Token) (t : PTree) : (renT σ t).isIcur = t.isIcur := by
  cases t <;> simp only [renT] <;> rfl

/-! ## the node formers commute with `renN` -/

theorem optNode_ren (f : Nat → Nat) (σ : Token → Token) (l : PTree) (n : INode) :
    optNode (renT σ l) (renN f n) = (optNode l n).map (renN f) := by
  unfold optNode; rw [isIcur_renT]; split <;> rfl

theorem subNode_ren (f : Nat → Nat) (o : Option INode) (r : INode) :
    subNode (o.map (renN f)) (renN f r) = renN f (subNode o r) := by
  cases o <;> simp only [Option.map, subNode, renN]

theorem listNode_ren (f : Nat → Nat) (o : Option INode) (fs : List INode) :
    listNode (o.map (renN f)) (renNL f fs) = renN f (listNode o fs) := by
  cases o <;> rcases fs with _ | ⟨a, _ | ⟨b, r⟩⟩ <;> simp only [Option.map, listNode, renN, renNL]

theorem indexNode_ren (f : Nat → Nat) (o : Option INode) (i : Int) :
    indexNode (o.map (renN f)) i = renN f (indexNode o i) := by
  cases o <;> simp only [Option.map, indexNode]
  · split <;> simp only [renN]
  · simp only [renN]

theorem sliceNode_ren (f : Nat → Nat) (o : Option INode) (a b c : Option Int) :
    sliceNode (o.map (renN f)) a b c = renN f (sliceNode o a b c) := by
  unfold sliceNode
  simp only
  split <;> cases o <;> simp only [Option.map, renN]

theorem starNode_ren (f : Nat → Nat) (o r : Option INode) :
    starNode (o.map (renN f)) (r.map (renN f)) = renN f (starNode o r) := by
  cases o <;> cases r <;> simp only [Option.map, starNode, renN]
theorem ostarNode_ren (f : Nat → Nat) (o r : Option INode) :
    ostarNode (o.map (renN f)) (r.map (renN f)) = renN f (ostarNode o r) := by
  cases o <;> cases r <;> simp only [Option.map, ostarNode, renN]
theorem flatNode_ren (f : Nat → Nat) (o r : Option INode) :
    flatNode (o.map (renN f)) (r.map (renN f)) = renN f (flatNode o r) := by
  cases o <;> cases r <;> simp only [Option.map, flatNode, renN]
theorem filtNode_ren (f : Nat → Nat) (o : Option INode) (c : INode) (r : Option INode) :
    filtNode (o.map (renN f)) (renN f c) (r.map (renN f)) = renN f (filtNode o c r) := by
  cases o <;> cases r <;> simp only [Option.map, filtNode, renN]

theorem binNode_ren (f : Nat → Nat) (ty : TokenType) (l r : INode) :
    binNode ty (renN f l) (renN f r) = renN f (binNode ty l r) := by
  cases ty <;> simp only [binNode, renN]

/-! ### builtin calls -/

/-- the node constructor of a builtin commutes with the renaming -/
def SpecRen (f : Nat → Nat) : Parser.ArgSpec → Prop
  | .fixed _ _ mk => ∀ args, mk (renNL f args) = renN f (mk args)
  | .varArg mk => ∀ args, mk (renNL f args) = renN f (mk args)
  | .expArg mk => ∀ a b, mk (renN f a) (renN f b) = renN f (mk a b)
  | .mapArg mk => ∀ a b, mk (renN f a) (renN f b) = renN f (mk a b)

theorem renNL_length (f : Nat → Nat) : ∀ ns : List INode, (renNL f ns).length = ns.length
  | [] => by simp only [renNL]
  | n :: ns => by simp only [renNL, List.length_cons, renNL_length f ns]

theorem builtin_ren (f : Nat → Nat) : ∀ e ∈ Parser.builtinTable, SpecRen f e.2 := by
  simp only [Parser.builtinTable, List.forall_mem_cons]
  repeat' apply And.intro
  all_goals first
    | (intro args; simp only [Parser.callN, renN]; done)
    | (intro args; simp only [renNL_length]; split <;> simp only [renN]; done)
    | (intro args; simp only [renNL_length]; rcases args.length with _ | _ | _ | _ | n <;> simp only [renN]; done)
    | (intro a b; simp only [renN]; done)
    | (intro x hx; cases hx)

theorem lookupBuiltin_ren (f : Nat → Nat) {name : Bytes} {spec : Parser.ArgSpec}
    (h : Parser.lookupBuiltin name = some spec) : SpecRen f spec := by
  simp only [Parser.lookupBuiltin, Option.map_eq_some_iff] at h
  obtain ⟨e, he, rfl⟩ := h
  exact builtin_ren f e (List.mem_of_find?_eq_some he)

theorem callNode_ren (f : Nat → Nat) {spec : Parser.ArgSpec} (h : SpecRen f spec) (ns : List INode) :
    callNode spec (renNL f ns) = renN f (callNode spec ns) := by
  cases spec with
  | fixed mn mx mk => exact h ns
  | varArg mk => exact h ns
  | expArg mk =>
    rcases ns with _ | ⟨a, _ | ⟨b, _ | ⟨c, r⟩⟩⟩ <;> simp only [renNL, callNode, renN]
    exact h a b
  | mapArg mk =>
    rcases ns with _ | ⟨a, _ | ⟨b, _ | ⟨c, r⟩⟩⟩ <;> simp only [renNL, callNode, renN]
    exact h a b

/-! ### member lists -/

/-- the keys of a member list can be renamed -/
def KeysRn (f : Nat → Nat) (ps : List (Bytes × INode)) : Prop := ∀ p ∈ ps, rnB f p.1 = true

theorem assocInsert_renK {f : Nat → Nat} (hm : Mono f) {k : Bytes} (hk : rnB f k = true) (n : INode) :
    ∀ {acc : List (Bytes × INode)}, KeysRn f acc →
      Parser.assocInsert (renB f k) (renN f n) (renNF f true acc) = renNF f true (Parser.assocInsert k n acc) ∧
      KeysRn f (Parser.assocInsert k n acc)
  | [], _ => by
    simp only [renNF, Parser.assocInsert, if_true]
    exact ⟨by first | rfl | trivial, fun p hp => by simp at hp; subst hp; exact hk⟩
  | (k', n') :: rest, h => by
    have hk' : rnB f k' = true := h (k', n') List.mem_cons_self
    have hrest : KeysRn f rest := fun p hp => h p (List.mem_cons_of_mem _ hp)
    simp only [renNF, Parser.assocInsert, if_true]
    rw [renB_lt hm hk hk']
    by_cases e : k = k'
    · subst e
      simp only [if_true, renNF]
      refine ⟨by first | rfl | trivial, fun p hp => ?_⟩
      rcases List.mem_cons.1 hp with rfl | hp
      · exact hk
      · exact hrest p hp
    · have : renB f k ≠ renB f k' := fun e' => e (renB_inj hm hk hk' e')
      simp only [e, this, if_false]
      split
      · simp only [renNF, if_true]
        refine ⟨by first | rfl | trivial, fun p hp => ?_⟩
        rcases List.mem_cons.1 hp with rfl | hp
        · exact hk
        · exact h p hp
      · obtain ⟨i1, i2⟩ := assocInsert_renK hm hk n hrest
        simp only [renNF, if_true]
        rw [i1]
        refine ⟨by first | rfl | trivial, fun p hp => ?_⟩
        rcases List.mem_cons.1 hp with rfl | hp
        · exact hk'
        · exact i2 p hp

theorem assocInsert_renV (f : Nat → Nat) (k : Bytes) (n : INode) : ∀ acc : List (Bytes × INode),
    Parser.assocInsert k (renN f n) (renNF f false acc) = renNF f false (Parser.assocInsert k n acc)
  | [] => by simp [renNF, Parser.assocInsert]
  | (k', n') :: rest => by
    simp only [renNF, Parser.assocInsert, Bool.false_eq_true, if_false]
    split
    · simp [renNF]
    · split
      · simp [renNF]
      · simp only [renNF, Bool.false_eq_true, if_false]; rw [assocInsert_renV f k n rest]

theorem foldAssoc_renK {f : Nat → Nat} (hm : Mono f) : ∀ (ps : List (Bytes × INode)) {acc : List (Bytes × INode)},
    KeysRn f ps → KeysRn f acc →
    (renNF f true ps).foldl (fun acc p => Parser.assocInsert p.1 p.2 acc) (renNF f true acc)
      = renNF f true (ps.foldl (fun acc p => Parser.assocInsert p.1 p.2 acc) acc)
  | [], _, _, _ => by simp only [renNF, List.foldl_nil]
  | (k, n) :: rest, acc, hp, ha => by
    have hk : rnB f k = true := hp (k, n) List.mem_cons_self
    obtain ⟨i1, i2⟩ := assocInsert_renK hm hk n ha
    simp only [renNF, List.foldl_cons, if_true]
    rw [i1]
    exact foldAssoc_renK hm rest (fun p h => hp p (List.mem_cons_of_mem _ h)) i2

theorem assocOf_renK {f : Nat → Nat} (hm : Mono f) (ps : List (Bytes × INode)) (hp : KeysRn f ps) :
    assocOf (renNF f true ps) = renNF f true (assocOf ps) := by
  have := foldAssoc_renK hm ps (acc := []) hp (fun _ h => by cases h)
  simpa only [renNF, assocOf] using this

theorem foldAssoc_renV (f : Nat → Nat) : ∀ (ps acc : List (Bytes × INode)),
    (renNF f false ps).foldl (fun acc p => Parser.assocInsert p.1 p.2 acc) (renNF f false acc)
      = renNF f false (ps.foldl (fun acc p => Parser.assocInsert p.1 p.2 acc) acc)
  | [], _ => by simp only [renNF, List.foldl_nil]
  | (k, n) :: rest, acc => by
    simp only [renNF, List.foldl_cons, Bool.false_eq_true, if_false]
    rw [assocInsert_renV]
    exact foldAssoc_renV f rest _

theorem assocOf_renV (f : Nat → Nat) (ps : List (Bytes × INode)) :
    assocOf (renNF f false ps) = renNF f false (assocOf ps) := by
  have := foldAssoc_renV f ps []
  simpa only [renNF, assocOf] using this

theorem hashNode_ren {f : Nat → Nat} (hm : Mono f) (o : Option INode) (ps : List (Bytes × INode))
    (hp : KeysRn f ps) : hashNode (o.map (renN f)) (renNF f true ps) = renN f (hashNode o ps) := by
  cases o <;> rcases ps with _ | ⟨⟨k, a⟩, _ | ⟨b, r⟩⟩ <;>
    simp only [Option.map, hashNode, renN, renNF, if_true] <;>
    first
      | rfl
      | (have := assocOf_renK hm _ hp; simp only [renNF, if_true] at this; rw [this])
      | (have := assocOf_renK hm [] hp; simp only [renNF] at this; rw [this])

/-! ## the node of the renamed tree -/

mutual
/-- **the node of the renamed tree is the renamed node** -/
theorem erase_renT {f : Nat → Nat} (hm : Mono f) {σ : Token → Token} :
    ∀ t : PTree, TokAll f σ t → erase (renT σ t) = renN f (erase t)
  | .icur, _ => by simp only [renT, erase, renN]
  | .atom t, h => by
    simp only [TokAll, AtomOK] at h
    simp only [renT, erase, h]
    cases atomNode t <;> simp only [Option.map, Option.getD, renN]
  | .paren t, h => by simp only [TokAll] at h; simp only [renT, erase]; exact erase_renT hm t h
  | .not t, h => by simp only [TokAll] at h; simp only [renT, erase, renN]; rw [erase_renT hm t h]
  | .neg _ t, h => by simp only [TokAll] at h; simp only [renT, erase, renN]; rw [erase_renT hm t h]
  | .pos t, h => by simp only [TokAll] at h; simp only [renT, erase, renN]; rw [erase_renT hm t h]
  | .bin op l r, h => by
    simp only [TokAll] at h
    simp only [renT, erase]
    rw [erase_renT hm l h.1, erase_renT hm r h.2, binNode_ren]
  | .dotId l r, h => by
    simp only [TokAll] at h
    simp only [renT, erase]
    rw [erase_renT hm l h.1, erase_renT hm r h.2, optNode_ren, subNode_ren]
  | .dotList l es, h => by
    simp only [TokAll] at h
    simp only [renT, erase]
    rw [erase_renT hm l h.1, eraseL_renT hm es h.2, optNode_ren, listNode_ren]
  | .dotHash l kvs, h => by
    simp only [TokAll] at h
    obtain ⟨e, hk⟩ := eraseKVs_renTK hm kvs h.2
    simp only [renT, erase]
    rw [erase_renT hm l h.1, e, optNode_ren, hashNode_ren hm _ _ hk]
  | .dotStarList l, h => by
    simp only [TokAll] at h
    simp only [renT, erase]
    rw [erase_renT hm l h, optNode_ren]
    exact listNode_ren f _ [.objectValuesCurrent]
  | .index l n, h => by
    simp only [TokAll] at h
    simp only [renT, erase]
    rw [erase_renT hm l h, optNode_ren, indexNode_ren]
  | .call name args, h => by
    simp only [TokAll] at h
    simp only [renT, erase]
    rw [eraseL_renT hm args h]
    cases hl : Parser.lookupBuiltin name.value with
    | none => simp only [renN]
    | some spec => exact callNode_ren f (lookupBuiltin_ren f hl) _
  | .ref t, h => by simp only [TokAll] at h; simp only [renT, erase]; exact erase_renT hm t h
  | .letIn bs body, h => by
    simp only [TokAll] at h
    simp only [renT, erase, renN]
    rw [erase_renT hm body h.2, eraseKVs_renTV hm bs h.1, assocOf_renV]
  | .multiList es, h => by
    simp only [TokAll] at h
    simp only [renT, erase]
    rw [eraseL_renT hm es h]
    exact listNode_ren f none _
  | .multiHash kvs, h => by
    simp only [TokAll] at h
    obtain ⟨e, hk⟩ := eraseKVs_renTK hm kvs h
    simp only [renT, erase]
    rw [e]
    exact hashNode_ren hm none _ hk
  | .star l rhs, h => by
    simp only [TokAll] at h
    simp only [renT, erase]
    rw [erase_renT hm l h.1, erase_renT hm rhs h.2, optNode_ren, optNode_ren, starNode_ren]
  | .ostar l rhs, h => by
    simp only [TokAll] at h
    simp only [renT, erase]
    rw [erase_renT hm l h.1, erase_renT hm rhs h.2, optNode_ren, optNode_ren, ostarNode_ren]
  | .flat l rhs, h => by
    simp only [TokAll] at h
    simp only [renT, erase]
    rw [erase_renT hm l h.1, erase_renT hm rhs h.2, optNode_ren, optNode_ren, flatNode_ren]
  | .filt l c rhs, h => by
    simp only [TokAll] at h
    simp only [renT, erase]
    rw [erase_renT hm l h.1, erase_renT hm c h.2.1, erase_renT hm rhs h.2.2, optNode_ren, optNode_ren, filtNode_ren]
  | .slice l a b c rhs, h => by
    simp only [TokAll] at h
    simp only [renT, erase, renN]
    rw [erase_renT hm l h.1, erase_renT hm rhs h.2, optNode_ren, optNode_ren, sliceNode_ren]
    cases optNode rhs (erase rhs) <;> simp only [Option.map, Option.getD, renN]
theorem eraseL_renT {f : Nat → Nat} (hm : Mono f) {σ : Token → Token} :
    ∀ es : List PTree, TokAllL f σ es → eraseL (renTL σ es) = renNL f (eraseL es)
  | [], _ => by simp only [renTL, eraseL, renNL]
  | e :: es, h => by
    simp only [TokAllL] at h
    simp only [renTL, eraseL, renNL]
    rw [erase_renT hm e h.1, eraseL_renT hm es h.2]
/-- members of a multi-select hash: keys renamed (and renamable) -/
theorem eraseKVs_renTK {f : Nat → Nat} (hm : Mono f) {σ : Token → Token} :
    ∀ kvs : List (Token × PTree), TokAllK f σ true kvs →
      eraseKVs keyOf (renTK σ true kvs) = renNF f true (eraseKVs keyOf kvs) ∧ KeysRn f (eraseKVs keyOf kvs)
  | [], _ => by
    simp only [renTK, eraseKVs, renNF]
    exact ⟨by first | rfl | trivial, fun _ h => by cases h⟩
  | (k, e) :: rest, h => by
    simp only [TokAllK] at h
    obtain ⟨hk1, hk2⟩ := h.1 trivial
    obtain ⟨i1, i2⟩ := eraseKVs_renTK hm rest h.2.2
    simp only [renTK, eraseKVs, renNF, if_true]
    rw [erase_renT hm e h.2.1, i1, hk1]
    refine ⟨by first | rfl | trivial, fun p hp => ?_⟩
    rcases List.mem_cons.1 hp with rfl | hp
    · exact hk2
    · exact i2 p hp
/-- bindings of `let`: variable tokens stay -/
theorem eraseKVs_renTV {f : Nat → Nat} (hm : Mono f) {σ : Token → Token} :
    ∀ kvs : List (Token × PTree), TokAllK f σ false kvs →
      eraseKVs Token.value (renTK σ false kvs) = renNF f false (eraseKVs Token.value kvs)
  | [], _ => by simp only [renTK, eraseKVs, renNF]
  | (k, e) :: rest, h => by
    simp only [TokAllK] at h
    simp only [renTK, eraseKVs, renNF, Bool.false_eq_true, if_false]
    rw [erase_renT hm e h.2.1, eraseKVs_renTV hm rest h.2.2]
end

end Jmes.C11C
