/-
  Helper lemmas for property C14, fourth round (`Jmes/Properties/C14E.lean`).

  §1  `Dec.quo` is a function of the VALUES of its operands — no exactness proviso: the correctly rounded quotient
      is computed from the exact rational `c₁/c₂ · 10^(e₁−e₂)` (C05C: `quo_round_den`, `roundD_rescale`), so two
      spellings of the same two values give literally the same decimal.
  §2  hence `/` on float-free operands and `avg` on any operands (its sum and its final division both run in
      decimal128) are congruent for `VR` without `QuoFits`.
-/
import Jmes.Properties.C14C
import Jmes.Proofs.C05CLemmas
namespace Jmes
namespace C14E
open C14 C14B C14C

/-! ## 1. the rounded quotient depends on the values only -/

/-- two finite non-zero decimals of the same value denote a common coefficient at a common exponent -/
theorem common_denotes {n n' : Bool} {c c' : Nat} {e e' : Int}
    (h : Dec.cmpFin n c e n' c' e' = 0) (hc : c ≠ 0) :
    ∃ (C : Nat) (E : Int), Dec.Denotes (.fin n c e) n C E ∧ Dec.Denotes (.fin n' c' e') n C E ∧ C ≠ 0 := by
  have hn : n = n' := Dec.cmpFin_sign_eq h hc
  subst hn
  have habs := Dec.cmpFin_abs_eq h (min e e') (Int.min_le_left _ _) (Int.min_le_right _ _)
  refine ⟨c * 10 ^ (e - min e e').toNat, min e e', ?_, ?_, ?_⟩
  · exact ⟨c, e, rfl, .inr ⟨(e - min e e').toNat, by omega, rfl⟩⟩
  · exact ⟨c', e', rfl, .inr ⟨(e' - min e e').toNat, by omega, habs⟩⟩
  · exact Nat.mul_ne_zero hc (Nat.ne_of_gt (Nat.pow_pos (by decide)))

/-- **`Quo` on two pairs of finite non-zero operands of equal values gives the same decimal**, whether or not the
    quotient is exact: the library scales the dividend by a power of ten that depends on the spelling, but the
    rounding (`roundD`) sees the exact rational only. -/
theorem quo_eq_of_cmp {n1 n1' n2 n2' : Bool} {c1 c1' c2 c2' : Nat} {e1 e1' e2 e2' : Int}
    (ha : Dec.cmpFin n1 c1 e1 n1' c1' e1' = 0) (hb : Dec.cmpFin n2 c2 e2 n2' c2' e2' = 0)
    (h1 : c1 ≠ 0) (h2 : c2 ≠ 0) :
    Dec.quo (.fin n1 c1 e1) (.fin n2 c2 e2) = Dec.quo (.fin n1' c1' e1') (.fin n2' c2' e2') := by
  obtain ⟨C1, E1, d1, d1', hC1⟩ := common_denotes ha h1
  obtain ⟨C2, E2, d2, d2', hC2⟩ := common_denotes hb h2
  obtain ⟨a, b, hq, e⟩ := C05CLemmas.quo_round_den d1 d2 hC1 hC2
  obtain ⟨a', b', hq', e'⟩ := C05CLemmas.quo_round_den d1' d2' hC1 hC2
  rw [e, e']
  exact C05CLemmas.roundD_rescale _ C1 C2 a b a' b' (E1 - E2) (Nat.pos_of_ne_zero hC2) hq hq'

/-- a decimal is `Same` as itself unless it is NaN … and NaN is `Same` as NaN -/
theorem same_refl (d : Dec) : Dec.Same d d := by
  cases d with
  | nan => exact .inl ⟨rfl, rfl⟩
  | inf n => exact .inl ⟨rfl, rfl⟩
  | fin n c e => exact .inr (Dec.cmp_self (by simp))

/-- **`Quo` respects the value of its operands — unconditionally** (compare `Dec.quo_congr`, which asks for both
    quotients to be exact) -/
theorem quo_same {a a' b b' : Dec} (ha : Dec.cmp a a' = some 0) (hb : Dec.cmp b b' = some 0) :
    Dec.Same (Dec.quo a b) (Dec.quo a' b') := by
  cases a with
  | nan => simp [Dec.cmp_nan_left] at ha
  | inf n =>
    have := Dec.isSpecial_of_cmp_zero_left ha rfl
    subst this
    cases b with
    | nan => simp [Dec.cmp_nan_left] at hb
    | inf m =>
      have := Dec.isSpecial_of_cmp_zero_left hb rfl
      subst this
      left; exact ⟨rfl, rfl⟩
    | fin m c e =>
      obtain ⟨m', c', e', rfl⟩ := Dec.fin_of_cmp_zero_fin hb
      left; exact ⟨rfl, rfl⟩
  | fin n1 c1 e1 =>
    obtain ⟨n1', c1', e1', rfl⟩ := Dec.fin_of_cmp_zero_fin ha
    cases b with
    | nan => simp [Dec.cmp_nan_left] at hb
    | inf m =>
      have := Dec.isSpecial_of_cmp_zero_left hb rfl
      subst this
      right; simp only [Dec.quo]; exact Dec.cmp_zero_zero ..
    | fin n2 c2 e2 =>
      obtain ⟨n2', c2', e2', rfl⟩ := Dec.fin_of_cmp_zero_fin hb
      simp only [Dec.cmp, Option.some.injEq] at ha hb
      have hz1 := Dec.cmpFin_coeff_zero ha
      have hz2 := Dec.cmpFin_coeff_zero hb
      by_cases h2 : c2 = 0
      · have h2' := hz2.mp h2
        subst h2; subst h2'
        left
        by_cases h1 : c1 = 0
        · have h1' := hz1.mp h1
          subst h1; subst h1'
          exact ⟨rfl, rfl⟩
        · have h1' : c1' ≠ 0 := fun h => h1 (hz1.mpr h)
          simp [Dec.quo, h1, h1', Dec.isSpecial]
      · have h2' : c2' ≠ 0 := fun h => h2 (hz2.mpr h)
        by_cases h1 : c1 = 0
        · have h1' := hz1.mp h1
          subst h1; subst h1'
          right
          simp only [Dec.quo, h2, h2', if_false, if_true]; exact Dec.cmp_zero_zero ..
        · rw [quo_eq_of_cmp ha hb h1 h2]
          exact same_refl _

-- 1/3 with the operands spelled `1`, `3` and `1.000`, `0.3e1`: the same 34-digit decimal
example : Dec.quo (.fin false 1 0) (.fin false 3 0) = Dec.quo (.fin false 1000 (-3)) (.fin false 3 0) ∧
    Dec.quo (.fin false 1 0) (.fin false 3 0) = .fin false 3333333333333333333333333333333333 (-34) := by decide

/-! ## 2. `/` and `avg` without the exactness proviso -/

section
variable {nf : Bool}

/-- **`/` on float-free operands depends on the values only** — no `QuoFits` hypothesis (compare
    `C14B.divide_rr_true`): `1/3`, `2/3`, … give the same rounded quotient on every float-free spelling -/
theorem divide_rr_true {x x' y y' : Val} (hx : VR true x x') (hy : VR true y y') :
    RR (VR true) (divide x y) (divide x' y') := by
  unfold divide
  rw [arith_noFloat _ _ (.inl (noFloat_of_vr _ _ hx).1), arith_noFloat _ _ (.inl (noFloat_of_vr _ _ hx).2)]
  rcases toDecimal_dr hx with ⟨e1, e2⟩ | ⟨d, d', e1, e2, e3⟩
  · simp only [e1, e2]; exact rr_errType
  · rcases toDecimal_dr hy with ⟨g1, g2⟩ | ⟨c, c', g1, g2, g3⟩
    · simp only [e1, e2, g1, g2]; exact rr_errType
    · simp only [e1, e2, g1, g2]
      exact checkD_rr (quo_same e3.1 g3.1) (.inl ⟨Dec.quo_bounded _ _, Dec.quo_bounded _ _⟩)

/-- `/` is congruent on float-free operands -/
theorem opCongr_div_true : OpCongr true .div := fun _ _ _ _ ha hb => divide_rr_true ha hb

/-- **every binary operator is congruent on float-free operands** -/
theorem opCongr_all_true (op : BinOp) : OpCongr true op := by
  by_cases h : op = .div
  · subst h; exact opCongr_div_true
  · exact opCongr_arith_true h

theorem enumSumOk_of_not_enum2 {t : ATag} {ys : List Val} (hy : enum2 t ys = false) : enumSumOk t ys = true := by
  cases t <;> simp only [enumSumOk]
  simp only [enum2, beq_self_eq_true, Bool.true_and, decide_eq_false_iff_not, Nat.not_le] at hy
  simp [hy]

/-- the last step of `avg` on two sums of the same value -/
theorem avg_tail_rr {r r' : Dec} (n : Nat) (h : SR r r') :
    RR (VR nf) (checkD (r.quo (Dec.ofInt (n : Int)))) (checkD (r'.quo (Dec.ofInt (n : Int)))) := by
  rcases h.1 with ⟨s1, s2⟩ | hc
  · refine checkD_rr (.inl ⟨?_, ?_⟩) (.inl ⟨Dec.quo_bounded _ _, Dec.quo_bounded _ _⟩)
    · cases r <;> simp [Dec.isSpecial] at s1 <;> cases hl : Dec.ofInt (n : Int) <;> simp [Dec.quo, Dec.isSpecial]
    · cases r' <;> simp [Dec.isSpecial] at s2 <;> cases hl : Dec.ofInt (n : Int) <;> simp [Dec.quo, Dec.isSpecial]
  · exact checkD_rr (quo_same hc (Dec.cmp_self (Dec.ofInt_ne_nan _)))
      (.inl ⟨Dec.quo_bounded _ _, Dec.quo_bounded _ _⟩)

/-- **`avg` on related arrays that are not map-ordered — floats allowed, no exactness proviso** (compare
    `C14B.numAvg_rr`): the elements are converted to decimal128 and added there, and the final division by the length
    rounds the exact quotient of two values. -/
theorem numAvg_rr {t : ATag} {xs xs' : List Val} (h : VRL nf xs xs') (ht : enum2 t xs = false) :
    RR (VR nf) (numAvg (.arr t xs)) (numAvg (.arr t xs')) := by
  have ht' : enum2 t xs' = false := by rw [← enum2_vrl t h]; exact ht
  have he : xs.isEmpty = xs'.isEmpty := by
    have := vrl_length h
    cases xs <;> cases xs' <;> simp at this <;> rfl
  simp only [numAvg, enumSumOk_of_not_enum2 ht, enumSumOk_of_not_enum2 ht', if_true, he]
  split
  · exact RR.ok' vr_null
  · rcases sumDec_sr h sr_zero with ⟨e1, e2⟩ | ⟨r, r', e1, e2, e3⟩
    · simp only [e1, e2]; exact rr_errType
    · simp only [e1, e2]
      rw [← vrl_length h]
      exact avg_tail_rr _ e3

/-- … and on arrays of whatever order: unless the model declines on either side (a map-ordered array of ≥ 2 elements
    whose sum it cannot show to be order-independent), the same -/
theorem numAvg_rn {t : ATag} {xs xs' : List Val} (h : VRL nf xs xs') :
    numAvg (.arr t xs) = .nondet ∨ numAvg (.arr t xs') = .nondet ∨
      RR (VR nf) (numAvg (.arr t xs)) (numAvg (.arr t xs')) := by
  have he : xs.isEmpty = xs'.isEmpty := by
    have := vrl_length h
    cases xs <;> cases xs' <;> simp at this <;> rfl
  simp only [numAvg, he]
  split
  · exact .inr (.inr (RR.ok' vr_null))
  · rcases sumDec_sr h sr_zero with ⟨e1, e2⟩ | ⟨r, r', e1, e2, e3⟩
    · simp only [e1, e2]; exact .inr (.inr rr_errType)
    · simp only [e1, e2]
      by_cases o1 : enumSumOk t xs = true
      · by_cases o2 : enumSumOk t xs' = true
        · simp only [o1, o2, if_true]
          rw [← vrl_length h]
          exact .inr (.inr (avg_tail_rr _ e3))
        · right; left; simp [o2]
      · left; simp [o1]

/-- `sum` likewise -/
theorem numSum_rn {t : ATag} {xs xs' : List Val} (h : VRL nf xs xs') :
    numSum (.arr t xs) = .nondet ∨ numSum (.arr t xs') = .nondet ∨
      RR (VR nf) (numSum (.arr t xs)) (numSum (.arr t xs')) := by
  simp only [numSum]
  rcases sumDec_sr h sr_zero with ⟨e1, e2⟩ | ⟨r, r', e1, e2, e3⟩
  · simp only [e1, e2]; exact .inr (.inr rr_errType)
  · simp only [e1, e2]
    by_cases o1 : enumSumOk t xs = true
    · by_cases o2 : enumSumOk t xs' = true
      · simp only [o1, o2, if_true]
        exact .inr (.inr (checkD_rr e3.1 e3.2))
      · right; left; simp [o2]
    · left; simp [o1]

end
end C14E
end Jmes
