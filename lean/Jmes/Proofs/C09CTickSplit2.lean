/-
  C09, third wave — `strings.Replace` / `strings.ReplaceAll` and the builtins `replace(value, old, new)`,
  `replace(value, old, new, count)` (string.go:744-826) in the tick-writer monad of `Jmes/Proofs/C09CTick.lean`.
  Continuation of `Jmes/Proofs/C09CTickSplit.lean` (same units: candidate offsets, loop iterations, cells reserved,
  bytes written).
-/
import Jmes.Proofs.C09CTickSplit
set_option linter.unusedSimpArgs false
set_option linter.unusedVariables false
namespace Jmes.C09C
open Jmes

/-! ## The model's `replaceAux` against one step of the Go loop -/

/-- the loop of `strings.Replace` for a non-empty `old`, as a pure recursion: `k` iterations of
    `j := Index(s[start:], old); b.WriteString(s[start:j]); b.WriteString(new); start = j + len(old)`, then
    `b.WriteString(s[start:])` -/
def replaceGo : Nat → Bytes → Bytes → Bytes → Bytes
  | 0, s, _, _ => s
  | k + 1, s, old, new => match indexOf s old with
    | none => s
    | some j => s.take j ++ new ++ replaceGo k (s.drop (j + old.length)) old new

/-- no replacement left: the model returns the string unchanged -/
theorem replaceAux_zero' (fuel : Nat) (s old new : Bytes) : replaceAux fuel s old new (some 0) = s := by
  cases fuel <;> simp [replaceAux]

/-- the fuel of `replaceAux` is irrelevant once it exceeds the length of the string (non-empty `old`) -/
theorem replaceAux_fuel' (old new : Bytes) (hp : old ≠ []) : ∀ (f1 f2 : Nat) (s : Bytes) (n : Option Nat),
    s.length < f1 → s.length < f2 → replaceAux f1 s old new n = replaceAux f2 s old new n := by
  intro f1
  induction f1 with
  | zero => intro f2 s n h; omega
  | succ f1 ih =>
    intro f2 s n h1 h2
    cases f2 with
    | zero => omega
    | succ f2 =>
      cases s with
      | nil => simp only [replaceAux]
      | cons b t =>
        simp only [replaceAux]
        split
        · rfl
        · split
          · rename_i hpre
            have h3 := C09.isPrefixOf_length_le hpre
            have h4 := C09.length_pos_of_ne_nil hp
            rw [ih f2 _ _ (by rw [List.length_drop]; omega) (by rw [List.length_drop]; omega)]
          · simp only [List.length_cons] at h1 h2
            rw [ih f2 _ _ (by omega) (by omega)]

/-- ONE STEP of the Go loop against the model: with replacements left, `replaceAux` returns `s` when `strings.Index`
    finds nothing, and otherwise `s[:j] ++ new ++ (the rest from s[j+len(old):] with one replacement less)` -/
theorem replaceAux_index (old new : Bytes) (hp : old ≠ []) (n : Option Nat) (hn : n ≠ some 0) :
    ∀ (fuel : Nat) (s : Bytes), s.length < fuel →
    replaceAux fuel s old new n = (match indexOfAux 0 s old with
      | none => s
      | some j => s.take j ++ new ++ replaceAux fuel (s.drop (j + old.length)) old new (n.map (· - 1))) := by
  intro fuel
  induction fuel with
  | zero => intro s h; omega
  | succ fuel ih =>
    intro s h
    cases s with
    | nil =>
      have e : old.isPrefixOf ([] : Bytes) = false := by cases old with
        | nil => exact absurd rfl hp
        | cons _ _ => rfl
      rw [Utf8.indexOfAux_eq, e]
      simp [replaceAux, hn]
    | cons b t =>
      rw [Utf8.indexOfAux_eq]
      cases hpre : old.isPrefixOf (b :: t)
      · have e : replaceAux (fuel + 1) (b :: t) old new n = b :: replaceAux fuel t old new n := by
          simp only [replaceAux, hn, hpre, Bool.false_eq_true, if_false]
        simp only [List.length_cons] at h
        rw [e]
        simp only [Bool.false_eq_true, if_false]
        rw [ih t (by omega), Utf8.indexOfAux_shift t old (0 + 1)]
        cases hi : indexOfAux 0 t old with
        | none => simp
        | some j =>
          simp only [Option.map_some, Nat.zero_add]
          have e1 : (b :: t).take (1 + j) = b :: t.take j := by rw [Nat.add_comm]; rfl
          have e2 : (b :: t).drop (1 + j + old.length) = t.drop (j + old.length) := by
            have : 1 + j + old.length = (j + old.length) + 1 := by omega
            rw [this]; rfl
          rw [e1, e2, replaceAux_fuel' old new hp (fuel + 1) fuel (t.drop (j + old.length)) _
              (by rw [List.length_drop]; omega) (by rw [List.length_drop]; omega)]
          simp
      · have e : replaceAux (fuel + 1) (b :: t) old new n
            = new ++ replaceAux fuel ((b :: t).drop old.length) old new (n.map (· - 1)) := by
          simp only [replaceAux, hn, hpre, if_true, if_false]
        have h3 := C09.isPrefixOf_length_le hpre
        have h4 := C09.length_pos_of_ne_nil hp
        rw [e, replaceAux_fuel' old new hp fuel (fuel + 1) ((b :: t).drop old.length) _
          (by rw [List.length_drop]; omega) (by rw [List.length_drop]; omega)]
        simp

/-- a limit that is at least the number of occurrences present changes nothing -/
theorem replaceAux_none_of_le (old new : Bytes) : ∀ (fuel : Nat) (s : Bytes) (k : Nat),
    Cost.splitTicks fuel s old none ≤ k → replaceAux fuel s old new (some k) = replaceAux fuel s old new none := by
  intro fuel
  induction fuel with
  | zero => intro s k h; rfl
  | succ fuel ih =>
    intro s k h
    cases s with
    | nil =>
      simp only [replaceAux]
      split <;> simp
    | cons b t =>
      have e' : ¬ ((none : Option Nat) = some 0) := by simp
      simp only [Cost.splitTicks, e', if_false, Option.map_none] at h
      simp only [replaceAux, e', if_false, Option.map_none]
      cases hpre : old.isPrefixOf (b :: t)
      · simp only [hpre, Bool.false_eq_true, if_false] at h ⊢
        have := ih t k h
        split
        · rename_i hk
          injection hk with hk; subst hk
          rw [← this, replaceAux_zero']
        · rw [this]
      · simp only [hpre, if_true] at h ⊢
        have hk : ¬ (some k = some 0) := by simp; omega
        simp only [hk, if_false, Option.map_some]
        rw [ih _ (k - 1) (by omega)]

/-- the Go loop run `k` times computes the model's `replaceAux` with at most `k` replacements -/
theorem replaceGo_eq (old new : Bytes) (hp : old ≠ []) : ∀ (k fuel : Nat) (s : Bytes), s.length < fuel →
    replaceGo k s old new = replaceAux fuel s old new (some k) := by
  intro k
  induction k with
  | zero => intro fuel s h; rw [replaceAux_zero']; rfl
  | succ k ih =>
    intro fuel s h
    rw [replaceAux_index old new hp (some (k + 1)) (by simp) fuel s h]
    simp only [replaceGo, indexOf]
    cases indexOfAux 0 s old with
    | none => rfl
    | some j =>
      simp only [Option.map_some, Nat.add_sub_cancel]
      rw [ih fuel _ (by rw [List.length_drop]; omega)]

/-- the count is clamped by the occurrences present -/
theorem replaceAux_clamp (s old new : Bytes) (k : Nat) :
    replaceAux (s.length + 1) s old new (some (if Cost.occurrences s old < k then Cost.occurrences s old else k))
      = replaceAux (s.length + 1) s old new (some k) := by
  split
  · unfold Cost.occurrences at *
    rw [replaceAux_none_of_le old new _ s _ (Nat.le_refl _), replaceAux_none_of_le old new _ s k (by omega)]
  · rfl

/-- exactly `occurrences` replacements are all of them: `ReplaceAll` -/
theorem replaceAux_occurrences (s old new : Bytes) :
    replaceAux (s.length + 1) s old new (some (Cost.occurrences s old)) = replaceAux (s.length + 1) s old new none := by
  unfold Cost.occurrences; exact replaceAux_none_of_le old new _ s _ (Nat.le_refl _)

/-- replacing `old` by itself changes nothing (the early exit `old == new` of `strings.Replace`) -/
theorem replaceAux_same (old : Bytes) : ∀ (fuel : Nat) (s : Bytes) (n : Option Nat),
    replaceAux fuel s old old n = s := by
  intro fuel
  induction fuel with
  | zero => intro s n; rfl
  | succ fuel ih =>
    intro s n
    cases s with
    | nil => simp only [replaceAux]; split <;> rfl
    | cons b t =>
      simp only [replaceAux]
      split
      · rfl
      · split
        · rename_i hpre
          obtain ⟨r, hr⟩ := List.isPrefixOf_iff_prefix.1 hpre
          rw [ih, ← hr, List.drop_left]
        · rw [ih]

/-- every replacement changes the length by `|new| - |old|` (`k` replacements, all of which find a match) -/
theorem replaceGo_length (old new : Bytes) : ∀ (k f : Nat) (s : Bytes), k ≤ countGo f s old →
    (replaceGo k s old new).length + k * old.length = s.length + k * new.length := by
  intro k
  induction k with
  | zero => intro f s h; simp [replaceGo]
  | succ k ih =>
    intro f s h
    cases f with
    | zero => simp [countGo] at h
    | succ f =>
      simp only [countGo] at h
      simp only [replaceGo]
      cases hi : indexOf s old with
      | none => rw [hi] at h; simp at h
      | some j =>
        rw [hi] at h
        simp only at h ⊢
        have h1 := indexOf_add_le s old j hi
        have h2 := ih f (s.drop (j + old.length)) (by omega)
        rw [List.length_drop] at h2
        simp only [List.length_append, List.length_take, Nat.add_mul, Nat.one_mul]
        omega

example : replaceGo 5 [1, 2, 1, 2, 1] [2] [7, 7] = [1, 7, 7, 1, 7, 7, 1] := by decide

/-! ## The empty `old`: one insertion in front of every code point, and one at the end -/

/-- the loop of `strings.Replace` for an EMPTY `old` from its second iteration on, as a pure recursion: `k` iterations
    of `_, wid := utf8.DecodeRuneInString(s[start:]); b.WriteString(s[start:start+wid]); b.WriteString(new)`, then
    `b.WriteString(s[start:])` -/
def replaceRunesGo : Nat → Bytes → Bytes → Bytes
  | 0, s, _ => s
  | k + 1, s, new => s.take (decodeRune s).2 ++ new ++ replaceRunesGo k (s.drop (decodeRune s).2) new

/-- every iteration inserts one `new`: the length grows by `k·|new|`, whatever the string -/
theorem replaceRunesGo_length (new : Bytes) : ∀ (k : Nat) (s : Bytes),
    (replaceRunesGo k s new).length = s.length + k * new.length := by
  intro k
  induction k with
  | zero => intro s; simp [replaceRunesGo]
  | succ k ih =>
    intro s
    have := C09.decodeRune_le s
    simp only [replaceRunesGo, List.length_append, List.length_take, List.length_drop, ih, Nat.add_mul, Nat.one_mul]
    omega

/-- no insertion left: the model returns the pieces concatenated -/
theorem replaceEmptyAux_zero' (ps : List Bytes) (new : Bytes) :
    replaceEmptyAux ps new (some 0) = ps.foldr (· ++ ·) [] := by
  cases ps <;> simp [replaceEmptyAux]

/-- inserting the empty string changes nothing (the early exit `old == new` for `old = ""`) -/
theorem replaceEmptyAux_nil : ∀ (ps : List Bytes) (n : Option Nat),
    replaceEmptyAux ps [] n = ps.foldr (· ++ ·) [] := by
  intro ps
  induction ps with
  | nil => intro n; simp [replaceEmptyAux]
  | cons p ps ih => intro n; simp only [replaceEmptyAux, ih]; split <;> simp

/-- a limit above the number of insertion points changes nothing -/
theorem replaceEmptyAux_none_of_le (new : Bytes) : ∀ (ps : List Bytes) (k : Nat), ps.length + 1 ≤ k →
    replaceEmptyAux ps new (some k) = replaceEmptyAux ps new none := by
  intro ps
  induction ps with
  | nil =>
    intro k h
    have hk : ¬ (some k = some 0) := by simp; omega
    simp [replaceEmptyAux, hk]
  | cons p ps ih =>
    intro k h
    have hk : ¬ (some k = some 0) := by simp; omega
    simp only [List.length_cons] at h
    simp only [replaceEmptyAux, hk, if_false, Option.map_some, Option.map_none]
    rw [ih (k - 1) (by omega)]
    simp

/-- the Go loop (first iteration: `new` alone; then `k ≤ runeCount s` iterations) computes the model's
    `replaceEmptyAux` with `k + 1` insertions -/
theorem replaceRunesGo_eq (new : Bytes) : ∀ (k fuel : Nat) (s : Bytes), s.length ≤ fuel → k ≤ runeCount s →
    new ++ replaceRunesGo k s new = replaceEmptyAux (runePiecesAux fuel s) new (some (k + 1)) := by
  intro k
  induction k with
  | zero =>
    intro fuel s h _
    have hj := C09.runePiecesAux_join fuel s h
    cases hps : runePiecesAux fuel s with
    | nil => rw [hps] at hj; simp only [List.foldr_nil] at hj; subst hj; simp [replaceRunesGo, replaceEmptyAux]
    | cons p ps =>
      rw [hps] at hj
      simp only [List.foldr_cons] at hj
      simp only [replaceRunesGo, replaceEmptyAux, Nat.zero_add, Option.map_some, Nat.sub_self, replaceEmptyAux_zero']
      simp [← hj]
  | succ k ih =>
    intro fuel s h hn
    have hne : s ≠ [] := by intro c; subst c; rw [C09.runeCount_nil] at hn; omega
    have hp := C09.decodeRune_pos s hne
    have hl := C09.length_pos_of_ne_nil hne
    cases fuel with
    | zero => omega
    | succ fuel =>
      rw [C09.runeCount_step s hne] at hn
      rw [Utf8.runePiecesAux_succ _ _ hne]
      have hk : ¬ (some (k + 1 + 1) = some 0) := by simp
      simp only [replaceRunesGo, replaceEmptyAux, hk, if_false, Option.map_some, Nat.add_sub_cancel]
      rw [← ih fuel _ (by rw [List.length_drop]; omega) (by omega)]
      simp

/-! ## E. `strings.Count` (both cases) and `strings.Replace` -/

/-- `strings.Count(s, substr)` (Go 1.23 strings.go:41-58): `if len(substr) == 0 { return utf8.RuneCountInString(s) + 1 }`, else the generic loop
    (`countT`) -/
def stringsCountT (s p : Bytes) : T Nat :=
  if p.length = 0 then do let l ← runeCountT s; pure (l + 1) else countT s p

/-- the body of the loop of `strings.Replace`; the state is `(i, start, b)`:
    `j := start; if len(old) == 0 { if i > 0 { _, wid := utf8.DecodeRuneInString(s[start:]); j += wid } }
     else { j += Index(s[start:], old) }; b.WriteString(s[start:j]); b.WriteString(new); start = j + len(old)`.
    Go's `Index` cannot return `-1` here because `n ≤ Count(s, old)` (it would make `s[start:j]` panic); the mirror
    leaves the loop in that case, and `replaceLoopT_sep_snd_le` shows that it does not happen. -/
def replaceBody (s old new : Bytes) (st : Nat × Nat × Bytes) : T (Ctl (Nat × Nat × Bytes)) :=
  if old.length = 0 then do
    let j := if st.1 > 0 then st.2.1 + (decodeRune (s.drop st.2.1)).2 else st.2.1
    let b ← writeT st.2.2 ((s.drop st.2.1).take (j - st.2.1))
    let b ← writeT b new
    pure (.next (st.1 + 1, j + old.length, b))
  else do
    match ← stringsIndexT (s.drop st.2.1) old with
    | none => pure (.brk st)
    | some k => do
      let j := st.2.1 + k
      let b ← writeT st.2.2 ((s.drop st.2.1).take (j - st.2.1))
      let b ← writeT b new
      pure (.next (st.1 + 1, j + old.length, b))

/-- strings.Replace (Go 1.23 strings.go:1107) `for i := 0; i < n; i++ { … }` -/
def replaceLoopT (s old new : Bytes) (n : Nat) (st : Nat × Nat × Bytes) : T (Ctl (Nat × Nat × Bytes)) :=
  forBrkT (replaceBody s old new) n st

/-- the second half of `strings.Replace` ("Apply replacements to buffer"), with the clamped `n` -/
def replaceApplyT (s old new : Bytes) (n : Nat) : T Bytes := do
  allocT (s.length + n * new.length - n * old.length)     -- `b.Grow(len(s) + n*(len(new)-len(old)))`
  let st ← replaceLoopT s old new n (0, 0, [])            -- `start := 0; for i := 0; i < n; i++ { … }`
  writeT (splitCtlSt st).2.2 (s.drop (splitCtlSt st).2.1) -- `b.WriteString(s[start:])`

/-- the clamp of `strings.Replace`: `if m := Count(s, old); … else if n < 0 || m < n { n = m }` -/
def replaceClamp (m : Nat) (n : Option Nat) : Nat :=
  match n with
  | none => m
  | some n => if m < n then m else n

/-- `strings.Replace(s, old, new, n)` (Go 1.23 strings.go:1091-1123); `n = none` is `n < 0`, i.e. `strings.ReplaceAll(s, old, new)`.
    The clamp `if … m < n { n = m }` makes `Grow` and the loop independent of the count. -/
def stringsReplaceT (s old new : Bytes) (n : Option Nat) : T Bytes :=
  if old = new ∨ n = some 0 then pure s                   -- `if old == new || n == 0 { return s }`
  else do
    let m ← stringsCountT s old                           -- `m := Count(s, old)`
    if m = 0 then pure s                                  -- `if m == 0 { return s }`
    else replaceApplyT s old new (replaceClamp m n)       -- `else if n < 0 || m < n { n = m }`, then the loop

/-! ### non-empty `old` -/

theorem replaceBody_sep (s old new : Bytes) (hp : old ≠ []) (i start : Nat) (b : Bytes) :
    replaceBody s old new (i, start, b) =
    ⟨(match indexOf (s.drop start) old with
      | none => .brk (i, start, b)
      | some k => .next (i + 1, start + k + old.length, b ++ (s.drop start).take k ++ new)),
     (match indexOf (s.drop start) old with
      | none => (s.drop start).length + 1
      | some k => k + 1 + (((s.drop start).take k).length + new.length))⟩ := by
  have h0 : ¬ old.length = 0 := by have := C09.length_pos_of_ne_nil hp; omega
  apply T.ext
  · simp only [replaceBody, h0, if_false, bind_fst, stringsIndexT_fst, mk_fst]
    cases indexOf (s.drop start) old with
    | none => rfl
    | some k => simp
  · simp only [replaceBody, h0, if_false, bind_snd, bind_fst, stringsIndexT_fst, stringsIndexT_snd, mk_snd]
    cases indexOf (s.drop start) old with
    | none => rfl
    | some k => simp

/-- what the loop and the final `b.WriteString(s[start:])` produce: the pure recursion `replaceGo` -/
theorem replaceLoopT_sep_fst (s old new : Bytes) (hp : old ≠ []) : ∀ (k i start : Nat) (b : Bytes),
    (splitCtlSt (replaceLoopT s old new k (i, start, b)).1).2.2
        ++ s.drop (splitCtlSt (replaceLoopT s old new k (i, start, b)).1).2.1
      = b ++ replaceGo k (s.drop start) old new := by
  intro k
  induction k with
  | zero => intro i start b; rfl
  | succ k ih =>
    intro i start b
    unfold replaceLoopT at ih ⊢
    rw [forBrkT_succ_fst, replaceBody_sep s old new hp, mk_fst]
    simp only [replaceGo]
    cases indexOf (s.drop start) old with
    | none => rfl
    | some j =>
      simp only
      rw [ih, List.drop_drop]
      simp [Nat.add_assoc]

/-- amortised cost of the loop when every iteration finds a match (`k ≤ Count`): one tick per iteration, plus the
    bytes the string shrinks by (candidates scanned), plus the bytes written -/
theorem replaceLoopT_sep_snd_le (s old new : Bytes) (hp : old ≠ []) : ∀ (k f i start : Nat) (b : Bytes),
    k ≤ countGo f (s.drop start) old →
    (replaceLoopT s old new k (i, start, b)).2 + b.length
        + (s.drop (splitCtlSt (replaceLoopT s old new k (i, start, b)).1).2.1).length
      ≤ k + (s.drop start).length + (splitCtlSt (replaceLoopT s old new k (i, start, b)).1).2.2.length := by
  intro k
  induction k with
  | zero => intro f i start b h; simp [replaceLoopT, forBrkT, splitCtlSt]; omega
  | succ k ih =>
    intro f i start b h
    cases f with
    | zero => simp [countGo] at h
    | succ f =>
      simp only [countGo] at h
      unfold replaceLoopT at ih ⊢
      rw [forBrkT_succ_fst, forBrkT_succ_snd, replaceBody_sep s old new hp, mk_fst, mk_snd]
      cases hi : indexOf (s.drop start) old with
      | none => rw [hi] at h; simp at h
      | some j =>
        rw [hi] at h
        simp only at h ⊢
        have h1 := indexOf_add_le _ old j hi
        have h2 := C09.length_pos_of_ne_nil hp
        have h3 := ih f (i + 1) (start + j + old.length) (b ++ (s.drop start).take j ++ new) (by
          rw [Nat.add_assoc, ← List.drop_drop]; omega)
        have h4 : (s.drop (start + j + old.length)).length = (s.drop start).length - (j + old.length) := by
          rw [Nat.add_assoc, ← List.drop_drop, List.length_drop]
        rw [h4] at h3
        simp only [List.length_append, List.length_take] at h3 ⊢
        omega

/-- non-empty `old`: the second half of `strings.Replace` writes what the pure recursion `replaceGo` yields -/
theorem replaceApplyT_sep_fst (s old new : Bytes) (hp : old ≠ []) (n : Nat) :
    (replaceApplyT s old new n).1 = replaceGo n s old new := by
  have := replaceLoopT_sep_fst s old new hp n 0 0 []
  simp only [replaceApplyT, bind_fst, writeT_fst]
  rw [this]; simp

/-- non-empty `old`, `n ≤ Count(s, old)`: `Grow` is exactly the result, the loop and the final write cost at most `n + |s|` plus the result -/
theorem replaceApplyT_sep_snd_le (s old new : Bytes) (hp : old ≠ []) (n f : Nat) (h : n ≤ countGo f s old) :
    (replaceApplyT s old new n).2 ≤ n + s.length + 2 * (replaceGo n s old new).length := by
  have h1 := replaceLoopT_sep_fst s old new hp n 0 0 []
  have h2 := replaceLoopT_sep_snd_le s old new hp n f 0 0 [] (by simpa using h)
  have h3 := replaceGo_length old new n f s h
  have h4 := congrArg List.length h1
  simp only [List.length_append, List.drop_zero, List.length_nil, Nat.zero_add, Nat.add_zero] at h2 h4
  simp only [replaceApplyT, bind_snd, bind_fst, allocT_snd, writeT_snd]
  omega

/-! ### empty `old` -/

theorem replaceBody_empty_first (s new : Bytes) (start : Nat) (b : Bytes) :
    replaceBody s [] new (0, start, b) = ⟨.next (1, start, b ++ new), new.length⟩ := by
  apply T.ext <;> simp [replaceBody]

/-- empty `old`, `i > 0`: the body decodes one code point, writes it and `new` -/
theorem replaceBody_empty_next (s new : Bytes) (i start : Nat) (b : Bytes) :
    replaceBody s [] new (i + 1, start, b) =
    ⟨.next (i + 1 + 1, start + (decodeRune (s.drop start)).2,
        b ++ (s.drop start).take (decodeRune (s.drop start)).2 ++ new),
     ((s.drop start).take (decodeRune (s.drop start)).2).length + new.length⟩ := by
  apply T.ext <;> simp [replaceBody]

/-- empty `old`, from the second iteration on: the builder and the rest of the string after `k` iterations are what the pure recursion `replaceRunesGo` yields -/
theorem replaceLoopT_empty_fst (s new : Bytes) : ∀ (k i start : Nat) (b : Bytes),
    (splitCtlSt (replaceLoopT s [] new k (i + 1, start, b)).1).2.2
        ++ s.drop (splitCtlSt (replaceLoopT s [] new k (i + 1, start, b)).1).2.1
      = b ++ replaceRunesGo k (s.drop start) new := by
  intro k
  induction k with
  | zero => intro i start b; rfl
  | succ k ih =>
    intro i start b
    unfold replaceLoopT at ih ⊢
    rw [forBrkT_succ_fst, replaceBody_empty_next, mk_fst]
    simp only [replaceRunesGo]
    rw [ih, List.drop_drop]
    simp

/-- the cost of the loop for an empty `old`: one tick per iteration plus the bytes written -/
theorem replaceLoopT_empty_snd (s new : Bytes) : ∀ (k i start : Nat) (b : Bytes),
    (replaceLoopT s [] new k (i + 1, start, b)).2 + b.length
      = k + (splitCtlSt (replaceLoopT s [] new k (i + 1, start, b)).1).2.2.length := by
  intro k
  induction k with
  | zero => intro i start b; simp [replaceLoopT, forBrkT, splitCtlSt]
  | succ k ih =>
    intro i start b
    unfold replaceLoopT at ih ⊢
    rw [forBrkT_succ_fst, forBrkT_succ_snd, replaceBody_empty_next, mk_fst, mk_snd]
    simp only
    have := ih (i + 1) (start + (decodeRune (s.drop start)).2)
      (b ++ (s.drop start).take (decodeRune (s.drop start)).2 ++ new)
    simp only [List.length_append] at this
    omega

/-- empty `old`, `k + 1` iterations: `new`, then `k` code points each followed by `new`, then the rest -/
theorem replaceApplyT_empty_fst (s new : Bytes) (k : Nat) :
    (replaceApplyT s [] new (k + 1)).1 = new ++ replaceRunesGo k s new := by
  have := replaceLoopT_empty_fst s new k 0 0 ([] ++ new)
  simp only [replaceApplyT, bind_fst, writeT_fst]
  unfold replaceLoopT at this ⊢
  rw [forBrkT_succ_fst, replaceBody_empty_first, mk_fst]
  simp only
  rw [this]; simp

/-- empty `old`: exact cost — `Grow` = result, one tick per iteration, result bytes written -/
theorem replaceApplyT_empty_snd (s new : Bytes) (k : Nat) :
    (replaceApplyT s [] new (k + 1)).2 = (k + 1) + 2 * (new ++ replaceRunesGo k s new).length := by
  have h1 := replaceLoopT_empty_fst s new k 0 0 ([] ++ new)
  have h2 := replaceLoopT_empty_snd s new k 0 0 ([] ++ new)
  have h4 := congrArg List.length h1
  have h5 := replaceRunesGo_length new k s
  simp only [List.length_append, List.drop_zero, List.length_nil, Nat.zero_add] at h2 h4
  simp only [replaceApplyT, bind_snd, bind_fst, allocT_snd, writeT_snd]
  unfold replaceLoopT at h2 h4 ⊢
  rw [forBrkT_succ_fst, forBrkT_succ_snd, replaceBody_empty_first, mk_fst, mk_snd]
  simp only [List.length_nil, Nat.mul_zero, Nat.sub_zero, List.length_append, Nat.add_mul, Nat.one_mul]
  omega

/-! ### `strings.Replace`: result and cost -/

theorem stringsCountT_sep (s p : Bytes) (hp : p ≠ []) : stringsCountT s p = countT s p := by
  have h0 : ¬ p.length = 0 := by have := C09.length_pos_of_ne_nil hp; omega
  simp only [stringsCountT, h0, if_false]

/-- `Count(s, "")` is `RuneCountInString(s) + 1` at the cost of the counting pass -/
theorem stringsCountT_empty (s : Bytes) : stringsCountT s [] = ⟨runeCount s + 1, runeCount s⟩ := by
  apply T.ext <;> simp [stringsCountT, runeCountT_fst, runeCountT_snd]

/-- the clamped count never exceeds `Count(s, old)` -/
theorem replaceClamp_le (m : Nat) (n : Option Nat) : replaceClamp m n ≤ m := by
  unfold replaceClamp
  cases n with
  | none => exact Nat.le_refl _
  | some k => simp only; split <;> omega

/-- the clamped count is positive when there is a match and the count is not `0` -/
theorem replaceClamp_pos (m : Nat) (n : Option Nat) (hm : m ≠ 0) (hn : n ≠ some 0) : 1 ≤ replaceClamp m n := by
  unfold replaceClamp
  cases n with
  | none => simp only; omega
  | some k =>
    have : k ≠ 0 := by intro c; subst c; exact hn rfl
    simp only; split <;> omega

/-- `isEmpty` means `[]` -/
theorem splitNil_of_isEmpty {s : Bytes} (h : s.isEmpty = true) : s = [] := by
  cases s with
  | nil => rfl
  | cons _ _ => cases h

/-- the early exits `old == new || n == 0` return what the model returns -/
theorem stringsReplace_exit (s old new : Bytes) (n : Option Nat) (h : old = new ∨ n = some 0) :
    stringsReplace s old new n = s := by
  unfold stringsReplace
  cases h with
  | inl h =>
    subst h
    split
    · rename_i he
      rw [splitNil_of_isEmpty he, replaceEmptyAux_nil, runePieces_join]
    · exact replaceAux_same _ _ _ _
  | inr h =>
    subst h
    split
    · rw [replaceEmptyAux_zero', runePieces_join]
    · exact replaceAux_zero' _ _ _ _

/-- the model with the count clamped as Go clamps it, non-empty `old` -/
theorem stringsReplace_sep_clamp (s old new : Bytes) (hp : old ≠ []) (n : Option Nat) :
    replaceGo (replaceClamp (Cost.occurrences s old) n) s old new = stringsReplace s old new n := by
  have he : ¬ old.isEmpty = true := fun c => hp (splitNil_of_isEmpty c)
  unfold stringsReplace
  rw [if_neg he, replaceGo_eq old new hp _ _ s (Nat.lt_succ_self _)]
  cases n with
  | none => exact replaceAux_occurrences s old new
  | some k => exact replaceAux_clamp s old new k

/-- the model with the count clamped as Go clamps it, empty `old` -/
theorem stringsReplace_empty_clamp (s new : Bytes) (n : Option Nat) (k : Nat)
    (hk : replaceClamp (runeCount s + 1) n = k + 1) :
    new ++ replaceRunesGo k s new = stringsReplace s [] new n := by
  have hl := C09.runePieces_length s
  have hc := replaceClamp_le (runeCount s + 1) n
  unfold stringsReplace
  have he : ([] : Bytes).isEmpty = true := rfl
  rw [if_pos he]
  unfold runePieces at *
  rw [replaceRunesGo_eq new k s.length s (Nat.le_refl _) (by omega), ← hk]
  cases n with
  | none =>
    simp only [replaceClamp] at hk ⊢
    exact replaceEmptyAux_none_of_le new _ _ (by omega)
  | some c =>
    simp only [replaceClamp] at hk ⊢
    split
    · rw [replaceEmptyAux_none_of_le new _ _ (by omega), replaceEmptyAux_none_of_le new _ c (by omega)]
    · rfl

/-- (1) the instrumented `strings.Replace` returns the model's `stringsReplace`, for no count and for every count -/
theorem stringsReplaceT_fst (s old new : Bytes) (n : Option Nat) :
    (stringsReplaceT s old new n).1 = stringsReplace s old new n := by
  unfold stringsReplaceT
  by_cases h0 : old = new ∨ n = some 0
  · rw [if_pos h0, stringsReplace_exit s old new n h0]; rfl
  · rw [if_neg h0]
    have hn : n ≠ some 0 := fun c => h0 (Or.inr c)
    by_cases hp : old = []
    · subst hp
      simp only [bind_fst, stringsCountT_empty, mk_fst]
      rw [if_neg (by omega)]
      have h1 := replaceClamp_pos (runeCount s + 1) n (by omega) hn
      obtain ⟨k, hk⟩ : ∃ k, replaceClamp (runeCount s + 1) n = k + 1 := ⟨_, (Nat.sub_add_cancel h1).symm⟩
      rw [hk, replaceApplyT_empty_fst, stringsReplace_empty_clamp s new n k hk]
    · simp only [bind_fst, stringsCountT_sep s old hp, countT_fst s old hp]
      rw [← stringsReplace_sep_clamp s old new hp n]
      by_cases hm : Cost.occurrences s old = 0
      · rw [if_pos hm, hm]
        have : replaceClamp 0 n = 0 := by have := replaceClamp_le 0 n; omega
        rw [this]; rfl
      · rw [if_neg hm, replaceApplyT_sep_fst s old new hp]

/-- (2) ticks `≤ 4·(|s| + |result| + 1)` for no count and for EVERY count: `Count ≤ 2·(|s|+1)`, `Grow = |result|`,
    the loop `≤ n + |s| + bytes written` with `n ≤ Count ≤ |s| + 1` after the clamp, and `|result|` bytes written -/
theorem stringsReplaceT_snd_le (s old new : Bytes) : ∀ n : Option Nat,
    (stringsReplaceT s old new n).2 ≤ 4 * (s.length + (stringsReplaceT s old new n).1.length + 1) := by
  intro n
  have hfst := stringsReplaceT_fst s old new n
  rw [hfst]
  unfold stringsReplaceT
  by_cases h0 : old = new ∨ n = some 0
  · rw [if_pos h0]; simp
  · rw [if_neg h0]
    have hn : n ≠ some 0 := fun c => h0 (Or.inr c)
    by_cases hp : old = []
    · subst hp
      simp only [bind_snd, bind_fst, stringsCountT_empty, mk_fst, mk_snd]
      rw [if_neg (by omega)]
      have h1 := replaceClamp_pos (runeCount s + 1) n (by omega) hn
      have h2 := replaceClamp_le (runeCount s + 1) n
      have h3 := C09.runeCount_le_length _ s (Nat.le_refl _)
      obtain ⟨k, hk⟩ : ∃ k, replaceClamp (runeCount s + 1) n = k + 1 := ⟨_, (Nat.sub_add_cancel h1).symm⟩
      rw [hk, replaceApplyT_empty_snd, stringsReplace_empty_clamp s new n k hk]
      omega
    · simp only [bind_snd, bind_fst, stringsCountT_sep s old hp, countT_fst s old hp]
      have h1 := countT_snd_le s old hp
      by_cases hm : Cost.occurrences s old = 0
      · rw [if_pos hm]; simp only [pure_snd]; omega
      · rw [if_neg hm]
        have h2 := replaceClamp_le (Cost.occurrences s old) n
        have h3 := C09.occurrences_le s old hp
        have h4 := replaceApplyT_sep_snd_le s old new hp (replaceClamp (Cost.occurrences s old) n) (s.length + 1)
          (by rw [countGo_eq s old hp]; exact h2)
        rw [stringsReplace_sep_clamp s old new hp n] at h4
        omega

/-- in the inputs only: the result has at most `|s| + (|s| + 1)·|new|` bytes (`C09.stringsReplace_length_le`) -/
theorem stringsReplaceT_snd_le_inputs (s old new : Bytes) : ∀ n : Option Nat,
    (stringsReplaceT s old new n).2 ≤ 4 * (2 * s.length + (s.length + 1) * new.length + 1) := by
  intro n
  have h1 := stringsReplaceT_snd_le s old new n
  rw [stringsReplaceT_fst] at h1
  have h2 := C09.stringsReplace_length_le s old new n
  omega

example : stringsReplaceT [1, 2, 1, 2, 1] [2] [7, 7] (some (2 ^ 63 - 1)) = ⟨[1, 7, 7, 1, 7, 7, 1], 9 + 7 + 12 + 1⟩ := by
  apply T.ext
  · rw [stringsReplaceT_fst]; decide
  · decide
example : stringsReplaceT [0x68, 0xC3, 0xA9] [] [0x2D] none = ⟨[0x2D, 0x68, 0x2D, 0xC3, 0xA9, 0x2D], 2 + 6 + 9⟩ := by
  decide
example : (stringsReplaceT [1, 2, 1, 2, 1] [2] [7, 7] (some (2 ^ 62))).2 ≤ 4 * (5 + 7 + 1) := by
  have := stringsReplaceT_snd_le [1, 2, 1, 2, 1] [2] [7, 7] (some (2 ^ 62))
  rw [stringsReplaceT_fst] at this
  exact this

/-! ### what the theorems say when the clamp is deleted

  `stringsReplaceNoClampT` is `strings.Replace` WITHOUT `else if n < 0 || m < n { n = m }`: `Grow` is asked for
  `len(s) + n·(len(new) - len(old))` bytes with the caller's `n`. -/

/-- `strings.Replace` without the clamp (a count is given) -/
def stringsReplaceNoClampT (s old new : Bytes) (n : Nat) : T Bytes :=
  if old = new ∨ n = 0 then pure s
  else do
    let m ← stringsCountT s old
    if m = 0 then pure s else replaceApplyT s old new n

/-- the mutant's cost grows with the magnitude of the count: no bound in the sizes of the strings exists -/
theorem stringsReplaceNoClampT_unbounded :
    ¬ ∃ c : Nat, ∀ (n : Nat), (stringsReplaceNoClampT [1] [1] [2, 2] n).2 ≤ c := by
  intro ⟨c, h⟩
  have := h (c + 1)
  have e : (stringsReplaceNoClampT [1] [1] [2, 2] (c + 1)).2
      = (stringsCountT [1] [1]).2 + (replaceApplyT [1] [1] [2, 2] (c + 1)).2 := by
    have h1 : (stringsCountT [1] [1]).1 = 1 := by decide
    simp [stringsReplaceNoClampT, h1]
  rw [e] at this
  simp only [replaceApplyT, bind_snd, allocT_snd] at this
  simp at this
  omega

/-! ## The builtins `replace(value, old, new)` and `replace(value, old, new, count)` -/

/-- `replace(value, old, new)`, all of string.go:744-770: type checks (taken from the model), then
    `strings.ReplaceAll(s, po, pn)` (string.go:769) -/
def replaceT (value old new : Val) : T (Res Val) :=
  match value, old, new with
  | .str s, .str po, .str pn => do
    let r ← stringsReplaceT s po pn none
    pure (.ok (.str r))
  | _, _, _ => pure (replace value old new)

/-- `replace(value, old, new, count)`, all of string.go:772-826: type checks and `toInt` (taken from the model,
    `intArg`), `n < 0` is an error (string.go:819), then `strings.Replace(s, po, pn, n)` (string.go:825) -/
def replaceCountT (value old new count : Val) : T (Res Val) :=
  match value, old, new, intArg count with
  | .str s, .str po, .str pn, .ok n =>
    if n < 0 then pure errValue
    else do
      let r ← stringsReplaceT s po pn (some n.toNat)
      pure (.ok (.str r))
  | _, _, _, _ => pure (replaceCount value old new count)

/-- (1) the instrumented `replace` returns exactly the model's `replace`, for ALL argument values -/
theorem replaceT_fst (value old new : Val) : (replaceT value old new).1 = replace value old new := by
  unfold replaceT
  split
  · simp only [replace, strArg, C09.ok_bind, C09.pure_ok, bind_fst, pure_fst, stringsReplaceT_fst]
  · rfl

/-- (1) the instrumented `replace` with a count returns exactly the model's `replaceCount`, for ALL argument values -/
theorem replaceCountT_fst (value old new count : Val) :
    (replaceCountT value old new count).1 = replaceCount value old new count := by
  unfold replaceCountT
  split
  · rename_i s po pn n hn
    simp only [replaceCount, strArg, hn, C09.ok_bind, C09.pure_ok]
    by_cases h1 : n < 0
    · simp [h1]
    · simp only [h1, if_false, bind_fst, pure_fst, stringsReplaceT_fst]
  · rfl

/-- (2) `replace(s, old, new)` on strings: at most `4·(|s| + |result| + 1)` ticks, and the result is a string -/
theorem replaceT_snd_le (s old new : Bytes) :
    ∃ r, (replaceT (.str s) (.str old) (.str new)).1 = .ok (.str r) ∧
      (replaceT (.str s) (.str old) (.str new)).2 ≤ 4 * (s.length + r.length + 1) := by
  refine ⟨(stringsReplaceT s old new none).1, rfl, ?_⟩
  simp only [replaceT, bind_snd, pure_snd]
  have := stringsReplaceT_snd_le s old new none
  omega

/-- (2) `replace(s, old, new, count)` on strings, ∀ count : Val — `2^62`, `2^63 - 1`, negative, a float, a
    non-number: either an error at no cost, or a string `r` at `≤ 4·(|s| + |r| + 1)` ticks.
    The count does not appear in the bound. -/
theorem replaceCountT_snd_le (s old new : Bytes) : ∀ count : Val,
    ((∃ r, (replaceCountT (.str s) (.str old) (.str new) count).1 = .ok (.str r) ∧
        (replaceCountT (.str s) (.str old) (.str new) count).2 ≤ 4 * (s.length + r.length + 1)) ∨
     ((∀ v, (replaceCountT (.str s) (.str old) (.str new) count).1 ≠ .ok v) ∧
        (replaceCountT (.str s) (.str old) (.str new) count).2 = 0)) := by
  intro count
  cases hc : intArg count with
  | ok n =>
    by_cases h1 : n < 0
    · right
      simp only [replaceCountT, hc, h1, if_true, pure_fst, pure_snd]
      exact ⟨fun v c => (by cases c), trivial⟩
    · left
      refine ⟨(stringsReplaceT s old new (some n.toNat)).1, ?_, ?_⟩
      · simp only [replaceCountT, hc, h1, if_false, bind_fst, pure_fst]
      · simp only [replaceCountT, hc, h1, if_false, bind_snd, pure_snd]
        have := stringsReplaceT_snd_le s old new (some n.toNat)
        omega
  | _ =>
    right
    simp only [replaceCountT, hc, pure_fst, pure_snd, replaceCount, strArg, C09.ok_bind]
    exact ⟨fun v c => (by cases c), trivial⟩

/-- the same in the inputs only, ∀ count : Val: `≤ 4·(2·|s| + (|s| + 1)·|new| + 1)` ticks -/
theorem replaceCountT_snd_le_inputs (s old new : Bytes) : ∀ count : Val,
    (replaceCountT (.str s) (.str old) (.str new) count).2 ≤ 4 * (2 * s.length + (s.length + 1) * new.length + 1) := by
  intro count
  cases replaceCountT_snd_le s old new count with
  | inl h =>
    obtain ⟨r, h1, h2⟩ := h
    rw [replaceCountT_fst] at h1
    cases hc : intArg count with
    | ok n =>
      simp only [replaceCount, strArg, hc, C09.ok_bind, C09.pure_ok] at h1
      split at h1
      · cases h1
      · injection h1 with h1; injection h1 with h1
        have := C09.stringsReplace_length_le s old new (some n.toNat)
        rw [h1] at this
        omega
    | _ => simp [replaceCount, strArg, hc, C09.ok_bind] at h1 <;> cases h1
  | inr h => omega

/-- the same for an integer count, spelled out: ∀ count : Int -/
theorem replaceCountT_snd_le_int (s old new : Bytes) : ∀ count : Int,
    (replaceCountT (.str s) (.str old) (.str new) (.num (.int .i64 count))).2
      ≤ 4 * (2 * s.length + (s.length + 1) * new.length + 1) :=
  fun count => replaceCountT_snd_le_inputs s old new _

example : (replaceCountT (.str [0x61, 0x62, 0x61]) (.str [0x61]) (.str [0x78, 0x79]) (.num (.int .i64 (2 ^ 63 - 1)))).1
    = .ok (.str [0x78, 0x79, 0x62, 0x78, 0x79]) := by rw [replaceCountT_fst]; rfl
example : (replaceCountT (.str [0x61, 0x62, 0x61]) (.str [0x61]) (.str [0x78, 0x79]) (.num (.int .i64 (2 ^ 62)))).2
    ≤ 4 * (2 * 3 + (3 + 1) * 2 + 1) := replaceCountT_snd_le_int _ _ _ _
example : (replaceCountT (.str [0x61]) (.str [0x61]) (.str [0x78]) (.num (.int .i64 (-(2 ^ 63))))).1 = errValue := by
  rw [replaceCountT_fst]; rfl
example : (replaceT (.str [0x61, 0x62, 0x61]) (.str []) (.str [0x2D])).1
    = .ok (.str [0x2D, 0x61, 0x2D, 0x62, 0x2D, 0x61, 0x2D]) := by rw [replaceT_fst]; rfl
example : (replaceT .null (.str []) (.str [0x2D])).1 = errType := by rw [replaceT_fst]; rfl

end Jmes.C09C
