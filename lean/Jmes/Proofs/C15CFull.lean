/-
  Helpers for Jmes/Properties/C15C.lean, part 10: the oracle theorem (value half and error half) for the LARGER class
  that also contains `sum` and `avg` — every node kind, every builtin except `max` and `min`.

  The two mutual inductions are those of `ieval_simE` (Jmes/Proofs/C15BConcMainLemmas.lean) and `ieval_errH`
  (Jmes/Proofs/C15CErrMain.lean) with the builtin step replaced by `applyFn_simF` / `applyFn_errF`, which add
  `numSum_simE`, `numAvg_simE` (Jmes/Proofs/C15CSumLemmas.lean: under the model's side condition `sumOrderFree` the sum
  is the same `Dec` in every order).
-/
import Jmes.Proofs.C15CSumLemmas
import Jmes.Proofs.C15CErrMain
set_option linter.unusedVariables false
namespace Jmes.C15C
open Jmes Invar

/-- builtins covered by the full oracle theorem: all except `max`, `min` -/
def Fn.coveredF : Fn → Bool
  | .max | .min => false
  | _ => true

theorem applyFn_simF (π : Oracle) (f : Fn) (hcov : Fn.coveredF f = true) {args args' : List Val}
    (h : ConcL args args') : SimE (applyFn f args) (applyFnO π f args') := by
  by_cases hm : Fn.coveredM f = true
  · exact applyFn_simM π f hm h
  · cases f
    case sum =>
      match args, h with
      | [], _ => exact SimG.err
      | [a], h => obtain ⟨a', ha, rfl⟩ := concL_one h; exact numSum_simE ha
      | _ :: _ :: _, _ => exact SimG.err
    case avg =>
      match args, h with
      | [], _ => exact SimG.err
      | [a], h => obtain ⟨a', ha, rfl⟩ := concL_one h; exact numAvg_simE ha
      | _ :: _ :: _, _ => exact SimG.err
    case max | min => cases hcov
    all_goals exact absurd rfl hm

theorem applyFn_errF (π : Oracle) (f : Fn) (hcov : Fn.coveredF f = true) {args args' : List Val}
    (h : ConcL args args') : ErrH (applyFn f args) (applyFnO π f args') := by
  by_cases hm : Fn.coveredM f = true
  · exact applyFn_errH π f hm h
  · cases f
    case sum => arH1 numSum_errH
    case avg => arH1 numAvg_errH
    case max | min => cases hcov
    all_goals exact absurd rfl hm

/-- constructs covered by the full oracle theorem: every node type; every builtin except `max`, `min` -/
def coveredFN : INode → Bool
  | .call f _ => Fn.coveredF f
  | _ => true

/-- per-node requirement: literals without map-ordered arrays, distinct member keys, a covered construct -/
def nodeOkF (n : INode) : Bool := INode.litOk (Val.Good true) n && INode.keysNodup n && coveredFN n

theorem nodeOkF_lit {v : Val} (h : nodeOkF (.lit v) = true) : v.Good true = true := by
  simpa [nodeOkF, INode.litOk, INode.keysNodup, coveredFN] using h
theorem nodeOkF_call {f : Fn} {args : List INode} (h : nodeOkF (.call f args) = true) : Fn.coveredF f = true := by
  simpa [nodeOkF, INode.litOk, INode.keysNodup, coveredFN] using h
theorem nodeOkF_selectObject {c : INode} {fs : List (Bytes × INode)} (h : nodeOkF (.selectObject c fs) = true) :
    (fs.map Prod.fst).Nodup := by
  simpa [nodeOkF, INode.litOk, INode.keysNodup, coveredFN] using h
theorem nodeOkF_selectObjectCurrent {fs : List (Bytes × INode)} (h : nodeOkF (.selectObjectCurrent fs) = true) :
    (fs.map Prod.fst).Nodup := by
  simpa [nodeOkF, INode.litOk, INode.keysNodup, coveredFN] using h
theorem nodeOkF_defineVariables {c : INode} {fs : List (Bytes × INode)}
    (h : nodeOkF (.defineVariables fs c) = true) : (fs.map Prod.fst).Nodup := by
  simpa [nodeOkF, INode.litOk, INode.keysNodup, coveredFN] using h

mutual
theorem ieval_simF {root root' : Val} (hroot : Conc root root') :
    ∀ (n : INode) (cur cur' : Val) (env env' : Env), n.all nodeOkF = true → Conc cur cur' → ConcF env env' →
      ∀ π : Oracle, SimE (ieval root n cur env) (ievalO π root' n cur' env')
  | .lit v, cur, cur', env, env', h, hc, hv, π => by
    simp only [INode.all] at h
    exact SimG.ok (conc_refl v (nodeOkF_lit h))
  | .current, cur, cur', env, env', h, hc, hv, π => SimG.ok hc
  | .root, cur, cur', env, env', h, hc, hv, π => SimG.ok hroot
  | .field k, cur, cur', env, env', h, hc, hv, π => SimG.ok (conc_field k hc)
  | .variable name, cur, cur', env, env', h, hc, hv, π => by
    simp only [ieval, ievalO, Env.get]
    rcases conc_objLookup name hv with ⟨h1, h2⟩ | ⟨x, x', h1, h2, hx⟩
    · rw [h1, h2]; exact SimG.err
    · rw [h1, h2]; exact SimG.ok hx
  | .binop op l r, cur, cur', env, env', h, hc, hv, π => by
    simp only [INode.all, Bool.and_eq_true] at h
    simp only [ieval, ievalO]
    exact SimG.bind (ieval_simF hroot l cur cur' env env' h.1.2 hc hv _) fun a a' ha =>
      SimG.bind (ieval_simF hroot r cur cur' env env' h.2 hc hv _) fun b b' hb => applyBinOp_simE op ha hb
  | .and l r, cur, cur', env, env', h, hc, hv, π => by
    simp only [INode.all, Bool.and_eq_true] at h
    simp only [ieval, ievalO]
    refine SimG.bind (ieval_simF hroot l cur cur' env env' h.1.2 hc hv _) fun a a' ha => ?_
    rw [conc_isTrue ha]
    cases hb : isTrue a <;> simp only [Bool.not_false, Bool.not_true, if_true, Bool.false_eq_true, if_false]
    · exact SimG.pure ha
    · exact ieval_simF hroot r cur cur' env env' h.2 hc hv _
  | .or l r, cur, cur', env, env', h, hc, hv, π => by
    simp only [INode.all, Bool.and_eq_true] at h
    simp only [ieval, ievalO]
    refine SimG.bind (ieval_simF hroot l cur cur' env env' h.1.2 hc hv _) fun a a' ha => ?_
    rw [conc_isTrue ha]
    cases hb : isTrue a <;> simp only [if_true, Bool.false_eq_true, if_false]
    · exact ieval_simF hroot r cur cur' env env' h.2 hc hv _
    · exact SimG.pure ha
  | .not c, cur, cur', env, env', h, hc, hv, π => by
    simp only [INode.all, Bool.and_eq_true] at h
    simp only [ieval, ievalO]
    refine SimG.bind (ieval_simF hroot c cur cur' env env' h.2 hc hv _) fun a a' ha => ?_
    rw [conc_isTrue ha]
    exact SimG.pure (conc_bool _)
  | .negate c, cur, cur', env, env', h, hc, hv, π => by
    simp only [INode.all, Bool.and_eq_true] at h
    simp only [ieval, ievalO]
    exact SimG.bind (ieval_simF hroot c cur cur' env env' h.2 hc hv _) fun a a' ha => SimG.pure (negateVal_conc ha)
  | .assertNumber c, cur, cur', env, env', h, hc, hv, π => by
    simp only [INode.all, Bool.and_eq_true] at h
    simp only [ieval, ievalO]
    refine SimG.bind (ieval_simF hroot c cur cur' env env' h.2 hc hv _) fun a a' ha => ?_
    rw [conc_isNumber ha]
    cases isNumber a
    · exact SimG.pure conc_null
    · exact SimG.pure ha
  | .call f args, cur, cur', env, env', h, hc, hv, π => by
    simp only [INode.all, Bool.and_eq_true] at h
    simp only [ieval, ievalO]
    exact SimG.bind (ievalList_simF hroot args cur cur' env env' h.2 hc hv _) fun vs vs' hvs =>
      applyFn_simF _ f (nodeOkF_call h.1) hvs
  | .defineVariables vars child, cur, cur', env, env', h, hc, hv, π => by
    simp only [INode.all, Bool.and_eq_true] at h
    simp only [ieval, ievalO]
    rw [ievalFields_eq_combineAll]
    refine SimG.bind (members_simE (ievalMembers_simF hroot vars cur cur' env env' h.1.2 hc hv _)
      (by rw [memberOutcomes_keys]; exact nodeOkF_defineVariables h.1.1) (Oracle.order_perm _ _)) fun bs bs' hbs =>
      ieval_simF hroot child cur cur' (bs ++ env) (bs' ++ env') h.2 hc (concF_append hbs hv) _
  | .filter c f, cur, cur', env, env', h, hc, hv, π => by
    simp only [INode.all, Bool.and_eq_true] at h
    simp only [ieval, ievalO]
    exact SimG.bind (ieval_simF hroot c cur cur' env env' h.1.2 hc hv _) fun a a' ha =>
      filterArray_simE (fun i x x' hx => ieval_simF hroot f x x' env env' h.2 hx hv _) ha
  | .filterCurrent f, cur, cur', env, env', h, hc, hv, π => by
    simp only [INode.all, Bool.and_eq_true] at h
    simp only [ieval, ievalO]
    exact filterArray_simE (fun i x x' hx => ieval_simF hroot f x x' env env' h.2 hx hv _) hc
  | .filterAndProject l f r, cur, cur', env, env', h, hc, hv, π => by
    simp only [INode.all, Bool.and_eq_true] at h
    simp only [ieval, ievalO]
    exact SimG.bind (ieval_simF hroot l cur cur' env env' h.1.1.2 hc hv _) fun a a' ha =>
      filterAndProjectArray_simE (fun i x x' hx => ieval_simF hroot f x x' env env' h.1.2 hx hv _)
        (fun i x x' hx => ieval_simF hroot r x x' env env' h.2 hx hv _) ha
  | .filterAndProjectCurrent f c, cur, cur', env, env', h, hc, hv, π => by
    simp only [INode.all, Bool.and_eq_true] at h
    simp only [ieval, ievalO]
    exact filterAndProjectArray_simE (fun i x x' hx => ieval_simF hroot f x x' env env' h.1.2 hx hv _)
        (fun i x x' hx => ieval_simF hroot c x x' env env' h.2 hx hv _) hc
  | .flatten c, cur, cur', env, env', h, hc, hv, π => by
    simp only [INode.all, Bool.and_eq_true] at h
    simp only [ieval, ievalO]
    exact SimG.bind (ieval_simF hroot c cur cur' env env' h.2 hc hv _) fun a a' ha => SimG.pure (conc_flatten ha)
  | .flattenCurrent, cur, cur', env, env', h, hc, hv, π => SimG.ok (conc_flatten hc)
  | .flattenAndProject l r, cur, cur', env, env', h, hc, hv, π => by
    simp only [INode.all, Bool.and_eq_true] at h
    simp only [ieval, ievalO]
    exact SimG.bind (ieval_simF hroot l cur cur' env env' h.1.2 hc hv _) fun a a' ha =>
      flattenAndProjectArray_simE (fun i x x' hx => ieval_simF hroot r x x' env env' h.2 hx hv _) ha
  | .flattenAndProjectCurrent c, cur, cur', env, env', h, hc, hv, π => by
    simp only [INode.all, Bool.and_eq_true] at h
    simp only [ieval, ievalO]
    exact flattenAndProjectArray_simE (fun i x x' hx => ieval_simF hroot c x x' env env' h.2 hx hv _) hc
  | .index c i, cur, cur', env, env', h, hc, hv, π => by
    simp only [INode.all, Bool.and_eq_true] at h
    simp only [ieval, ievalO]
    exact SimG.bind (ieval_simF hroot c cur cur' env env' h.2 hc hv _) fun a a' ha => index_simE ha i
  | .indexCurrent i, cur, cur', env, env', h, hc, hv, π => index_simE hc i
  | .smallIndexCurrent i, cur, cur', env, env', h, hc, hv, π => index_simE hc _
  | .objectValues c, cur, cur', env, env', h, hc, hv, π => by
    simp only [INode.all, Bool.and_eq_true] at h
    simp only [ieval, ievalO]
    exact SimG.bind (ieval_simF hroot c cur cur' env env' h.2 hc hv _) fun a a' ha =>
      SimG.pure (conc_objectValues _ ha)
  | .objectValuesCurrent, cur, cur', env, env', h, hc, hv, π => SimG.ok (conc_objectValues _ hc)
  | .pipe l r, cur, cur', env, env', h, hc, hv, π => by
    simp only [INode.all, Bool.and_eq_true] at h
    simp only [ieval, ievalO]
    exact SimG.bind (ieval_simF hroot l cur cur' env env' h.1.2 hc hv _) fun a a' ha =>
      ieval_simF hroot r a a' env env' h.2 ha hv _
  | .projectArray l r, cur, cur', env, env', h, hc, hv, π => by
    simp only [INode.all, Bool.and_eq_true] at h
    simp only [ieval, ievalO]
    refine SimG.bind (ieval_simF hroot l cur cur' env env' h.1.2 hc hv _) fun a a' ha => ?_
    cases a with
    | str s =>
      have e : a' = .str s := by simpa [Conc] using ha
      subst e
      cases hs : l.isSlice <;> simp only [if_true, Bool.false_eq_true, if_false]
      · exact projectArray_simE (fun i x x' hx => ieval_simF hroot r x x' env env' h.2 hx hv _) ha
      · exact ieval_simF hroot r _ _ env env' h.2 ha hv _
    | arr t xs =>
      obtain ⟨t', xs', rfl, _⟩ := conc_arr ha
      exact projectArray_simE (fun i x x' hx => ieval_simF hroot r x x' env env' h.2 hx hv _) ha
    | obj kvs =>
      obtain ⟨kvs', rfl, _⟩ := conc_obj ha
      exact projectArray_simE (fun i x x' hx => ieval_simF hroot r x x' env env' h.2 hx hv _) ha
    | null | bool _ | num _ | foreign _ =>
      have e := conc_flat ha (by intro t xs; simp) (by intro kvs; simp)
      subst e
      exact projectArray_simE (fun i x x' hx => ieval_simF hroot r x x' env env' h.2 hx hv _) ha
  | .projectArrayCurrent c, cur, cur', env, env', h, hc, hv, π => by
    simp only [INode.all, Bool.and_eq_true] at h
    simp only [ieval, ievalO]
    exact projectArray_simE (fun i x x' hx => ieval_simF hroot c x x' env env' h.2 hx hv _) hc
  | .projectObject l r, cur, cur', env, env', h, hc, hv, π => by
    simp only [INode.all, Bool.and_eq_true] at h
    simp only [ieval, ievalO]
    exact SimG.bind (ieval_simF hroot l cur cur' env env' h.1.2 hc hv _) fun a a' ha =>
      projectObject_simE _ (fun i x x' hx => ieval_simF hroot r x x' env env' h.2 hx hv _) ha
  | .projectObjectCurrent c, cur, cur', env, env', h, hc, hv, π => by
    simp only [INode.all, Bool.and_eq_true] at h
    simp only [ieval, ievalO]
    exact projectObject_simE _ (fun i x x' hx => ieval_simF hroot c x x' env env' h.2 hx hv _) hc
  | .pruneArray c, cur, cur', env, env', h, hc, hv, π => by
    simp only [INode.all, Bool.and_eq_true] at h
    simp only [ieval, ievalO]
    exact SimG.bind (ieval_simF hroot c cur cur' env env' h.2 hc hv _) fun a a' ha => SimG.pure (conc_pruneArray ha)
  | .pruneArrayCurrent, cur, cur', env, env', h, hc, hv, π => SimG.ok (conc_pruneArray hc)
  | .selectArray c fs, cur, cur', env, env', h, hc, hv, π => by
    simp only [INode.all, Bool.and_eq_true] at h
    simp only [ieval, ievalO]
    refine SimG.bind (ieval_simF hroot c cur cur' env env' h.1.2 hc hv _) fun a a' ha => ?_
    rw [conc_isNull ha]
    cases hn : a.isNull <;> simp only [if_true, Bool.false_eq_true, if_false]
    · exact SimG.bind (ievalList_simF hroot fs a a' env env' h.2 ha hv _) fun vs vs' hvs =>
        SimG.pure (conc_plainArr hvs)
    · exact SimG.pure conc_null
  | .selectArrayCurrent fs, cur, cur', env, env', h, hc, hv, π => by
    simp only [INode.all, Bool.and_eq_true] at h
    simp only [ieval, ievalO]
    rw [conc_isNull hc]
    cases hn : cur.isNull <;> simp only [if_true, Bool.false_eq_true, if_false]
    · exact SimG.bind (ievalList_simF hroot fs cur cur' env env' h.2 hc hv _) fun vs vs' hvs =>
        SimG.pure (conc_plainArr hvs)
    · exact SimG.ok conc_null
  | .selectArraySingle c f, cur, cur', env, env', h, hc, hv, π => by
    simp only [INode.all, Bool.and_eq_true] at h
    simp only [ieval, ievalO]
    refine SimG.bind (ieval_simF hroot c cur cur' env env' h.1.2 hc hv _) fun a a' ha => ?_
    rw [conc_isNull ha]
    cases hn : a.isNull <;> simp only [if_true, Bool.false_eq_true, if_false]
    · exact SimG.bind (ieval_simF hroot f a a' env env' h.2 ha hv _) fun v v' hv' =>
        SimG.pure (conc_plainArr (concL_cons hv' concL_nil))
    · exact SimG.pure conc_null
  | .selectArraySingleCurrent f, cur, cur', env, env', h, hc, hv, π => by
    simp only [INode.all, Bool.and_eq_true] at h
    simp only [ieval, ievalO]
    exact SimG.bind (ieval_simF hroot f cur cur' env env' h.2 hc hv _) fun v v' hv' =>
      SimG.pure (conc_plainArr (concL_cons hv' concL_nil))
  | .selectObject c fs, cur, cur', env, env', h, hc, hv, π => by
    simp only [INode.all, Bool.and_eq_true] at h
    simp only [ieval, ievalO]
    refine SimG.bind (ieval_simF hroot c cur cur' env env' h.1.2 hc hv _) fun a a' ha => ?_
    rw [conc_isNull ha]
    cases hn : a.isNull <;> simp only [if_true, Bool.false_eq_true, if_false]
    · rw [ievalFields_eq_combineAll]
      exact SimG.bind (members_simE (ievalMembers_simF hroot fs a a' env env' h.2 ha hv _)
        (by rw [memberOutcomes_keys]; exact nodeOkF_selectObject h.1.1) (Oracle.order_perm _ _)) fun kvs kvs' hk =>
        SimG.pure (conc_objOf hk)
    · exact SimG.pure conc_null
  | .selectObjectCurrent fs, cur, cur', env, env', h, hc, hv, π => by
    simp only [INode.all, Bool.and_eq_true] at h
    simp only [ieval, ievalO]
    rw [conc_isNull hc]
    cases hn : cur.isNull <;> simp only [if_true, Bool.false_eq_true, if_false]
    · rw [ievalFields_eq_combineAll]
      exact SimG.bind (members_simE (ievalMembers_simF hroot fs cur cur' env env' h.2 hc hv _)
        (by rw [memberOutcomes_keys]; exact nodeOkF_selectObjectCurrent h.1) (Oracle.order_perm _ _)) fun kvs kvs' hk =>
        SimG.pure (conc_objOf hk)
    · exact SimG.ok conc_null
  | .selectObjectSingle c k f, cur, cur', env, env', h, hc, hv, π => by
    simp only [INode.all, Bool.and_eq_true] at h
    simp only [ieval, ievalO]
    refine SimG.bind (ieval_simF hroot c cur cur' env env' h.1.2 hc hv _) fun a a' ha => ?_
    rw [conc_isNull ha]
    cases hn : a.isNull <;> simp only [if_true, Bool.false_eq_true, if_false]
    · exact SimG.bind (ieval_simF hroot f a a' env env' h.2 ha hv _) fun v v' hv' =>
        SimG.pure (conc_objOf (concF_cons hv' concF_nil))
    · exact SimG.pure conc_null
  | .selectObjectSingleCurrent k f, cur, cur', env, env', h, hc, hv, π => by
    simp only [INode.all, Bool.and_eq_true] at h
    simp only [ieval, ievalO]
    exact SimG.bind (ieval_simF hroot f cur cur' env env' h.2 hc hv _) fun v v' hv' =>
      SimG.pure (conc_objOf (concF_cons hv' concF_nil))
  | .slice c a b, cur, cur', env, env', h, hc, hv, π => by
    simp only [INode.all, Bool.and_eq_true] at h
    simp only [ieval, ievalO]
    exact SimG.bind (ieval_simF hroot c cur cur' env env' h.2 hc hv _) fun v v' hv' => slice_simE hv' a b
  | .sliceCurrent a b, cur, cur', env, env', h, hc, hv, π => slice_simE hc a b
  | .sliceStep c a b st, cur, cur', env, env', h, hc, hv, π => by
    simp only [INode.all, Bool.and_eq_true] at h
    simp only [ieval, ievalO]
    exact SimG.bind (ieval_simF hroot c cur cur' env env' h.2 hc hv _) fun v v' hv' => sliceStep_simE hv' a b st
  | .sliceStepCurrent a b st, cur, cur', env, env', h, hc, hv, π => sliceStep_simE hc a b st
  | .groupBy a e, cur, cur', env, env', h, hc, hv, π => by
    simp only [INode.all, Bool.and_eq_true] at h
    simp only [ieval, ievalO]
    exact SimG.bind (ieval_simF hroot a cur cur' env env' h.1.2 hc hv _) fun v v' hv' =>
      groupBy_simE (fun i x x' hx => ieval_simF hroot e x x' env env' h.2 hx hv _) hv'
  | .map e a, cur, cur', env, env', h, hc, hv, π => by
    simp only [INode.all, Bool.and_eq_true] at h
    simp only [ieval, ievalO]
    exact SimG.bind (ieval_simF hroot a cur cur' env env' h.2 hc hv _) fun v v' hv' =>
      mapArray_simE (fun i x x' hx => ieval_simF hroot e x x' env env' h.1.2 hx hv _) hv'
  | .maxBy a e, cur, cur', env, env', h, hc, hv, π => by
    simp only [INode.all, Bool.and_eq_true] at h
    simp only [ieval, ievalO]
    exact SimG.bind (ieval_simF hroot a cur cur' env env' h.1.2 hc hv _) fun v v' hv' =>
      arrayPickBy_simE Key.gtMax_irrefl (fun a b c => Key.gtMax_trans) (fun i x x' hx => ieval_simF hroot e x x' env env' h.2 hx hv _) hv'
  | .minBy a e, cur, cur', env, env', h, hc, hv, π => by
    simp only [INode.all, Bool.and_eq_true] at h
    simp only [ieval, ievalO]
    exact SimG.bind (ieval_simF hroot a cur cur' env env' h.1.2 hc hv _) fun v v' hv' =>
      arrayPickBy_simE Key.ltMin_irrefl (fun a b c => Key.ltMin_trans) (fun i x x' hx => ieval_simF hroot e x x' env env' h.2 hx hv _) hv'
  | .sortBy a e, cur, cur', env, env', h, hc, hv, π => by
    simp only [INode.all, Bool.and_eq_true] at h
    simp only [ieval, ievalO]
    exact SimG.bind (ieval_simF hroot a cur cur' env env' h.1.2 hc hv _) fun v v' hv' =>
      sortArrayBy_simE (fun i x x' hx => ieval_simF hroot e x x' env env' h.2 hx hv _) hv'
  | .merge args, cur, cur', env, env', h, hc, hv, π => by
    simp only [INode.all, Bool.and_eq_true] at h
    simp only [ieval, ievalO]
    exact SimG.bind (ievalMerge_simF hroot args cur cur' env env' [] [] h.2 hc hv concF_nil _) fun kvs kvs' hk =>
      SimG.pure (conc_objOf hk)
  | .notNull args, cur, cur', env, env', h, hc, hv, π => by
    simp only [INode.all, Bool.and_eq_true] at h
    simp only [ieval, ievalO]
    exact ievalNotNull_simF hroot args cur cur' env env' h.2 hc hv _
  | .zip args, cur, cur', env, env', h, hc, hv, π => by
    simp only [INode.all, Bool.and_eq_true] at h
    simp only [ieval, ievalO]
    refine SimG.bind (ievalZip_simF hroot args cur cur' env env' h.2 hc hv _) fun vs vs' hvs =>
      SimG.bind (zipArgs_simE hvs) fun cols cols' hcols => ?_
    cases hcols with
    | nil => exact SimG.pure (conc_plainArr concL_nil)
    | cons hab t =>
      simp only
      rw [zip_count_eq _ t, ← concL_length hab]
      exact SimG.pure (conc_plainArr (zipRows_conc _ (.cons hab t)))
theorem ievalList_simF {root root' : Val} (hroot : Conc root root') :
    ∀ (ns : List INode) (cur cur' : Val) (env env' : Env), INode.allL nodeOkF ns = true → Conc cur cur' →
      ConcF env env' → ∀ π : Oracle, SimG ConcL (ievalList root ns cur env) (ievalListO π root' ns cur' env')
  | [], cur, cur', env, env', h, hc, hv, π => SimG.ok concL_nil
  | n :: ns, cur, cur', env, env', h, hc, hv, π => by
    simp only [INode.allL, Bool.and_eq_true] at h
    simp only [ievalList, ievalListO]
    exact SimG.bind (ieval_simF hroot n cur cur' env env' h.1 hc hv _) fun v v' hv' =>
      SimG.bind (ievalList_simF hroot ns cur cur' env env' h.2 hc hv _) fun vs vs' hvs =>
        SimG.pure (concL_cons hv' hvs)
theorem ievalMembers_simF {root root' : Val} (hroot : Conc root root') :
    ∀ (fs : List (Bytes × INode)) (cur cur' : Val) (env env' : Env), INode.allF nodeOkF fs = true → Conc cur cur' →
      ConcF env env' → ∀ π : Oracle,
      All₂ MemberSimE (memberOutcomes root fs cur env) (ievalMembersO π root' fs cur' env')
  | [], cur, cur', env, env', h, hc, hv, π => .nil
  | (k, n) :: rest, cur, cur', env, env', h, hc, hv, π => by
    simp only [INode.allF, Bool.and_eq_true] at h
    simp only [memberOutcomes, List.map_cons, ievalMembersO]
    exact .cons ⟨rfl, ieval_simF hroot n cur cur' env env' h.1 hc hv _⟩
      (ievalMembers_simF hroot rest cur cur' env env' h.2 hc hv _)
theorem ievalMerge_simF {root root' : Val} (hroot : Conc root root') :
    ∀ (ns : List INode) (cur cur' : Val) (env env' : Env) (acc acc' : List (Bytes × Val)),
      INode.allL nodeOkF ns = true → Conc cur cur' → ConcF env env' → ConcF acc acc' →
      ∀ π : Oracle, SimG ConcF (ievalMerge root ns cur env acc) (ievalMergeO π root' ns cur' env' acc')
  | [], cur, cur', env, env', acc, acc', h, hc, hv, ha, π => SimG.ok ha
  | n :: ns, cur, cur', env, env', acc, acc', h, hc, hv, ha, π => by
    simp only [INode.allL, Bool.and_eq_true] at h
    simp only [ievalMerge, ievalMergeO]
    refine SimG.bind (ieval_simF hroot n cur cur' env env' h.1 hc hv _) fun v v' hv' => ?_
    cases v with
    | obj kvs =>
      obtain ⟨kvs', rfl, hk⟩ := conc_obj hv'
      exact ievalMerge_simF hroot ns cur cur' env env' _ _ h.2 hc hv (concF_foldInsert hk ha) _
    | _ => exact SimG.errType
theorem ievalZip_simF {root root' : Val} (hroot : Conc root root') :
    ∀ (ns : List INode) (cur cur' : Val) (env env' : Env), INode.allL nodeOkF ns = true → Conc cur cur' →
      ConcF env env' → ∀ π : Oracle, SimG ConcL (ievalZip root ns cur env) (ievalZipO π root' ns cur' env')
  | [], cur, cur', env, env', h, hc, hv, π => SimG.ok concL_nil
  | n :: ns, cur, cur', env, env', h, hc, hv, π => by
    simp only [INode.allL, Bool.and_eq_true] at h
    simp only [ievalZip, ievalZipO]
    refine SimG.bind (ieval_simF hroot n cur cur' env env' h.1 hc hv _) fun v v' hv' => ?_
    cases v with
    | arr t xs =>
      obtain ⟨t', xs', rfl, _⟩ := conc_arr hv'
      exact SimG.bind (ievalZip_simF hroot ns cur cur' env env' h.2 hc hv _) fun vs vs' hvs =>
        SimG.pure (concL_cons hv' hvs)
    | _ => exact SimG.errType
theorem ievalNotNull_simF {root root' : Val} (hroot : Conc root root') :
    ∀ (ns : List INode) (cur cur' : Val) (env env' : Env), INode.allL nodeOkF ns = true → Conc cur cur' →
      ConcF env env' → ∀ π : Oracle, SimE (ievalNotNull root ns cur env) (ievalNotNullO π root' ns cur' env')
  | [], cur, cur', env, env', h, hc, hv, π => SimG.ok conc_null
  | n :: ns, cur, cur', env, env', h, hc, hv, π => by
    simp only [INode.allL, Bool.and_eq_true] at h
    simp only [ievalNotNull, ievalNotNullO]
    refine SimG.bind (ieval_simF hroot n cur cur' env env' h.1 hc hv _) fun v v' hv' => ?_
    rw [conc_isNull hv']
    cases hn : v.isNull <;> simp only [if_true, Bool.false_eq_true, if_false]
    · exact SimG.pure hv'
    · exact ievalNotNull_simF hroot ns cur cur' env env' h.2 hc hv _
end

mutual
theorem ieval_errF {root root' : Val} (hroot : Conc root root') :
    ∀ (n : INode) (cur cur' : Val) (env env' : Env), n.all nodeOkF = true → Conc cur cur' → ConcF env env' →
      ∀ π : Oracle, ErrH (ieval root n cur env) (ievalO π root' n cur' env')
  | .lit v, cur, cur', env, env', h, hc, hv, π => .ok
  | .current, cur, cur', env, env', h, hc, hv, π => .ok
  | .root, cur, cur', env, env', h, hc, hv, π => .ok
  | .field k, cur, cur', env, env', h, hc, hv, π => .ok
  | .variable name, cur, cur', env, env', h, hc, hv, π => by
    simp only [ieval, ievalO, Env.get]
    rcases conc_objLookup name hv with ⟨h1, h2⟩ | ⟨x, x', h1, h2, hx⟩
    · rw [h1, h2]; exact .err1 _
    · rw [h1, h2]; exact .ok
  | .binop op l r, cur, cur', env, env', h, hc, hv, π => by
    simp only [INode.all, Bool.and_eq_true] at h
    simp only [ieval, ievalO]
    exact ErrH.bind (ieval_simF hroot l cur cur' env env' h.1.2 hc hv _) (ieval_errF hroot l cur cur' env env' h.1.2 hc hv _)
      fun a a' ha => ErrH.bind (ieval_simF hroot r cur cur' env env' h.2 hc hv _)
        (ieval_errF hroot r cur cur' env env' h.2 hc hv _) fun b b' hb => applyBinOp_errH op ha hb
  | .and l r, cur, cur', env, env', h, hc, hv, π => by
    simp only [INode.all, Bool.and_eq_true] at h
    simp only [ieval, ievalO]
    refine ErrH.bind (ieval_simF hroot l cur cur' env env' h.1.2 hc hv _)
      (ieval_errF hroot l cur cur' env env' h.1.2 hc hv _) fun a a' ha => ?_
    rw [conc_isTrue ha]
    cases hb : isTrue a <;> simp only [Bool.not_false, Bool.not_true, if_true, Bool.false_eq_true, if_false]
    · exact .pure
    · exact ieval_errF hroot r cur cur' env env' h.2 hc hv _
  | .or l r, cur, cur', env, env', h, hc, hv, π => by
    simp only [INode.all, Bool.and_eq_true] at h
    simp only [ieval, ievalO]
    refine ErrH.bind (ieval_simF hroot l cur cur' env env' h.1.2 hc hv _)
      (ieval_errF hroot l cur cur' env env' h.1.2 hc hv _) fun a a' ha => ?_
    rw [conc_isTrue ha]
    cases hb : isTrue a <;> simp only [if_true, Bool.false_eq_true, if_false]
    · exact ieval_errF hroot r cur cur' env env' h.2 hc hv _
    · exact .pure
  | .not c, cur, cur', env, env', h, hc, hv, π => by
    simp only [INode.all, Bool.and_eq_true] at h
    simp only [ieval, ievalO]
    exact ErrH.bind (ieval_simF hroot c cur cur' env env' h.2 hc hv _)
      (ieval_errF hroot c cur cur' env env' h.2 hc hv _) fun a a' ha => .pure
  | .negate c, cur, cur', env, env', h, hc, hv, π => by
    simp only [INode.all, Bool.and_eq_true] at h
    simp only [ieval, ievalO]
    exact ErrH.bind (ieval_simF hroot c cur cur' env env' h.2 hc hv _)
      (ieval_errF hroot c cur cur' env env' h.2 hc hv _) fun a a' ha => .pure
  | .assertNumber c, cur, cur', env, env', h, hc, hv, π => by
    simp only [INode.all, Bool.and_eq_true] at h
    simp only [ieval, ievalO]
    exact ErrH.bind (ieval_simF hroot c cur cur' env env' h.2 hc hv _)
      (ieval_errF hroot c cur cur' env env' h.2 hc hv _) fun a a' ha => .pure
  | .call f args, cur, cur', env, env', h, hc, hv, π => by
    simp only [INode.all, Bool.and_eq_true] at h
    simp only [ieval, ievalO]
    exact ErrH.bind (ievalList_simF hroot args cur cur' env env' h.2 hc hv _)
      (ievalList_errF hroot args cur cur' env env' h.2 hc hv _) fun vs vs' hvs =>
      applyFn_errF _ f (nodeOkF_call h.1) hvs
  | .defineVariables vars child, cur, cur', env, env', h, hc, hv, π => by
    simp only [INode.all, Bool.and_eq_true] at h
    simp only [ieval, ievalO]
    rw [ievalFields_eq_combineAll]
    refine ErrH.bind (members_simE (ievalMembers_simF hroot vars cur cur' env env' h.1.2 hc hv _)
      (by rw [memberOutcomes_keys]; exact nodeOkF_defineVariables h.1.1) (Oracle.order_perm _ _))
      (members_errH (ievalMembers_errF hroot vars cur cur' env env' h.1.2 hc hv _) (Oracle.order_perm _ _))
      fun bs bs' hbs => ieval_errF hroot child cur cur' (bs ++ env) (bs' ++ env') h.2 hc (concF_append hbs hv) _
  | .filter c f, cur, cur', env, env', h, hc, hv, π => by
    simp only [INode.all, Bool.and_eq_true] at h
    simp only [ieval, ievalO]
    exact ErrH.bind (ieval_simF hroot c cur cur' env env' h.1.2 hc hv _)
      (ieval_errF hroot c cur cur' env env' h.1.2 hc hv _) fun a a' ha =>
      filterArray_errH (fun i x x' hx => ieval_simF hroot f x x' env env' h.2 hx hv _)
        (fun i x x' hx => ieval_errF hroot f x x' env env' h.2 hx hv _) ha
  | .filterCurrent f, cur, cur', env, env', h, hc, hv, π => by
    simp only [INode.all, Bool.and_eq_true] at h
    simp only [ieval, ievalO]
    exact filterArray_errH (fun i x x' hx => ieval_simF hroot f x x' env env' h.2 hx hv _)
      (fun i x x' hx => ieval_errF hroot f x x' env env' h.2 hx hv _) hc
  | .filterAndProject l f r, cur, cur', env, env', h, hc, hv, π => by
    simp only [INode.all, Bool.and_eq_true] at h
    simp only [ieval, ievalO]
    exact ErrH.bind (ieval_simF hroot l cur cur' env env' h.1.1.2 hc hv _)
      (ieval_errF hroot l cur cur' env env' h.1.1.2 hc hv _) fun a a' ha =>
      filterAndProjectArray_errH (fun i x x' hx => ieval_simF hroot f x x' env env' h.1.2 hx hv _)
        (fun i x x' hx => ieval_errF hroot f x x' env env' h.1.2 hx hv _)
        (fun i x x' hx => ieval_simF hroot r x x' env env' h.2 hx hv _)
        (fun i x x' hx => ieval_errF hroot r x x' env env' h.2 hx hv _) ha
  | .filterAndProjectCurrent f c, cur, cur', env, env', h, hc, hv, π => by
    simp only [INode.all, Bool.and_eq_true] at h
    simp only [ieval, ievalO]
    exact filterAndProjectArray_errH (fun i x x' hx => ieval_simF hroot f x x' env env' h.1.2 hx hv _)
        (fun i x x' hx => ieval_errF hroot f x x' env env' h.1.2 hx hv _)
        (fun i x x' hx => ieval_simF hroot c x x' env env' h.2 hx hv _)
        (fun i x x' hx => ieval_errF hroot c x x' env env' h.2 hx hv _) hc
  | .flatten c, cur, cur', env, env', h, hc, hv, π => by
    simp only [INode.all, Bool.and_eq_true] at h
    simp only [ieval, ievalO]
    exact ErrH.bind (ieval_simF hroot c cur cur' env env' h.2 hc hv _)
      (ieval_errF hroot c cur cur' env env' h.2 hc hv _) fun a a' ha => .pure
  | .flattenCurrent, cur, cur', env, env', h, hc, hv, π => .ok
  | .flattenAndProject l r, cur, cur', env, env', h, hc, hv, π => by
    simp only [INode.all, Bool.and_eq_true] at h
    simp only [ieval, ievalO]
    exact ErrH.bind (ieval_simF hroot l cur cur' env env' h.1.2 hc hv _)
      (ieval_errF hroot l cur cur' env env' h.1.2 hc hv _) fun a a' ha =>
      flattenAndProjectArray_errH (fun i x x' hx => ieval_simF hroot r x x' env env' h.2 hx hv _)
        (fun i x x' hx => ieval_errF hroot r x x' env env' h.2 hx hv _) ha
  | .flattenAndProjectCurrent c, cur, cur', env, env', h, hc, hv, π => by
    simp only [INode.all, Bool.and_eq_true] at h
    simp only [ieval, ievalO]
    exact flattenAndProjectArray_errH (fun i x x' hx => ieval_simF hroot c x x' env env' h.2 hx hv _)
      (fun i x x' hx => ieval_errF hroot c x x' env env' h.2 hx hv _) hc
  | .index c i, cur, cur', env, env', h, hc, hv, π => by
    simp only [INode.all, Bool.and_eq_true] at h
    simp only [ieval, ievalO]
    exact ErrH.bind (ieval_simF hroot c cur cur' env env' h.2 hc hv _)
      (ieval_errF hroot c cur cur' env env' h.2 hc hv _) fun a a' ha => .of_not_err (index_noErr a i)
  | .indexCurrent i, cur, cur', env, env', h, hc, hv, π => .of_not_err (index_noErr cur i)
  | .smallIndexCurrent i, cur, cur', env, env', h, hc, hv, π => .of_not_err (index_noErr cur _)
  | .objectValues c, cur, cur', env, env', h, hc, hv, π => by
    simp only [INode.all, Bool.and_eq_true] at h
    simp only [ieval, ievalO]
    exact ErrH.bind (ieval_simF hroot c cur cur' env env' h.2 hc hv _)
      (ieval_errF hroot c cur cur' env env' h.2 hc hv _) fun a a' ha => .pure
  | .objectValuesCurrent, cur, cur', env, env', h, hc, hv, π => .ok
  | .pipe l r, cur, cur', env, env', h, hc, hv, π => by
    simp only [INode.all, Bool.and_eq_true] at h
    simp only [ieval, ievalO]
    exact ErrH.bind (ieval_simF hroot l cur cur' env env' h.1.2 hc hv _)
      (ieval_errF hroot l cur cur' env env' h.1.2 hc hv _) fun a a' ha =>
      ieval_errF hroot r a a' env env' h.2 ha hv _
  | .projectArray l r, cur, cur', env, env', h, hc, hv, π => by
    simp only [INode.all, Bool.and_eq_true] at h
    simp only [ieval, ievalO]
    refine ErrH.bind (ieval_simF hroot l cur cur' env env' h.1.2 hc hv _)
      (ieval_errF hroot l cur cur' env env' h.1.2 hc hv _) fun a a' ha => ?_
    have hproj := projectArray_errH (fun i x x' hx => ieval_simF hroot r x x' env env' h.2 hx hv (π.sub (i + 1)))
      (fun i x x' hx => ieval_errF hroot r x x' env env' h.2 hx hv (π.sub (i + 1))) ha
    cases a with
    | str s =>
      have e : a' = .str s := by simpa [Conc] using ha
      subst e
      cases hs : l.isSlice <;> simp only [if_true, Bool.false_eq_true, if_false]
      · exact hproj
      · exact ieval_errF hroot r _ _ env env' h.2 ha hv _
    | arr t xs =>
      obtain ⟨t', xs', rfl, _⟩ := conc_arr ha
      exact hproj
    | obj kvs =>
      obtain ⟨kvs', rfl, _⟩ := conc_obj ha
      exact hproj
    | null | bool _ | num _ | foreign _ =>
      have e := conc_flat ha (by intro t xs; simp) (by intro kvs; simp)
      subst e
      exact hproj
  | .projectArrayCurrent c, cur, cur', env, env', h, hc, hv, π => by
    simp only [INode.all, Bool.and_eq_true] at h
    simp only [ieval, ievalO]
    exact projectArray_errH (fun i x x' hx => ieval_simF hroot c x x' env env' h.2 hx hv _)
      (fun i x x' hx => ieval_errF hroot c x x' env env' h.2 hx hv _) hc
  | .projectObject l r, cur, cur', env, env', h, hc, hv, π => by
    simp only [INode.all, Bool.and_eq_true] at h
    simp only [ieval, ievalO]
    exact ErrH.bind (ieval_simF hroot l cur cur' env env' h.1.2 hc hv _)
      (ieval_errF hroot l cur cur' env env' h.1.2 hc hv _) fun a a' ha =>
      projectObject_errH _ (fun i x x' hx => ieval_simF hroot r x x' env env' h.2 hx hv _)
        (fun i x x' hx => ieval_errF hroot r x x' env env' h.2 hx hv _) ha
  | .projectObjectCurrent c, cur, cur', env, env', h, hc, hv, π => by
    simp only [INode.all, Bool.and_eq_true] at h
    simp only [ieval, ievalO]
    exact projectObject_errH _ (fun i x x' hx => ieval_simF hroot c x x' env env' h.2 hx hv _)
      (fun i x x' hx => ieval_errF hroot c x x' env env' h.2 hx hv _) hc
  | .pruneArray c, cur, cur', env, env', h, hc, hv, π => by
    simp only [INode.all, Bool.and_eq_true] at h
    simp only [ieval, ievalO]
    exact ErrH.bind (ieval_simF hroot c cur cur' env env' h.2 hc hv _)
      (ieval_errF hroot c cur cur' env env' h.2 hc hv _) fun a a' ha => .pure
  | .pruneArrayCurrent, cur, cur', env, env', h, hc, hv, π => .ok
  | .selectArray c fs, cur, cur', env, env', h, hc, hv, π => by
    simp only [INode.all, Bool.and_eq_true] at h
    simp only [ieval, ievalO]
    refine ErrH.bind (ieval_simF hroot c cur cur' env env' h.1.2 hc hv _)
      (ieval_errF hroot c cur cur' env env' h.1.2 hc hv _) fun a a' ha => ?_
    rw [conc_isNull ha]
    cases hn : a.isNull <;> simp only [if_true, Bool.false_eq_true, if_false]
    · exact ErrH.bind (ievalList_simF hroot fs a a' env env' h.2 ha hv _)
        (ievalList_errF hroot fs a a' env env' h.2 ha hv _) fun vs vs' hvs => .pure
    · exact .pure
  | .selectArrayCurrent fs, cur, cur', env, env', h, hc, hv, π => by
    simp only [INode.all, Bool.and_eq_true] at h
    simp only [ieval, ievalO]
    rw [conc_isNull hc]
    cases hn : cur.isNull <;> simp only [if_true, Bool.false_eq_true, if_false]
    · exact ErrH.bind (ievalList_simF hroot fs cur cur' env env' h.2 hc hv _)
        (ievalList_errF hroot fs cur cur' env env' h.2 hc hv _) fun vs vs' hvs => .pure
    · exact .ok
  | .selectArraySingle c f, cur, cur', env, env', h, hc, hv, π => by
    simp only [INode.all, Bool.and_eq_true] at h
    simp only [ieval, ievalO]
    refine ErrH.bind (ieval_simF hroot c cur cur' env env' h.1.2 hc hv _)
      (ieval_errF hroot c cur cur' env env' h.1.2 hc hv _) fun a a' ha => ?_
    rw [conc_isNull ha]
    cases hn : a.isNull <;> simp only [if_true, Bool.false_eq_true, if_false]
    · exact ErrH.bind (ieval_simF hroot f a a' env env' h.2 ha hv _)
        (ieval_errF hroot f a a' env env' h.2 ha hv _) fun v v' hv' => .pure
    · exact .pure
  | .selectArraySingleCurrent f, cur, cur', env, env', h, hc, hv, π => by
    simp only [INode.all, Bool.and_eq_true] at h
    simp only [ieval, ievalO]
    exact ErrH.bind (ieval_simF hroot f cur cur' env env' h.2 hc hv _)
      (ieval_errF hroot f cur cur' env env' h.2 hc hv _) fun v v' hv' => .pure
  | .selectObject c fs, cur, cur', env, env', h, hc, hv, π => by
    simp only [INode.all, Bool.and_eq_true] at h
    simp only [ieval, ievalO]
    refine ErrH.bind (ieval_simF hroot c cur cur' env env' h.1.2 hc hv _)
      (ieval_errF hroot c cur cur' env env' h.1.2 hc hv _) fun a a' ha => ?_
    rw [conc_isNull ha]
    cases hn : a.isNull <;> simp only [if_true, Bool.false_eq_true, if_false]
    · rw [ievalFields_eq_combineAll]
      exact ErrH.bind (members_simE (ievalMembers_simF hroot fs a a' env env' h.2 ha hv _)
        (by rw [memberOutcomes_keys]; exact nodeOkF_selectObject h.1.1) (Oracle.order_perm _ _))
        (members_errH (ievalMembers_errF hroot fs a a' env env' h.2 ha hv _) (Oracle.order_perm _ _))
        fun kvs kvs' hk => .pure
    · exact .pure
  | .selectObjectCurrent fs, cur, cur', env, env', h, hc, hv, π => by
    simp only [INode.all, Bool.and_eq_true] at h
    simp only [ieval, ievalO]
    rw [conc_isNull hc]
    cases hn : cur.isNull <;> simp only [if_true, Bool.false_eq_true, if_false]
    · rw [ievalFields_eq_combineAll]
      exact ErrH.bind (members_simE (ievalMembers_simF hroot fs cur cur' env env' h.2 hc hv _)
        (by rw [memberOutcomes_keys]; exact nodeOkF_selectObjectCurrent h.1) (Oracle.order_perm _ _))
        (members_errH (ievalMembers_errF hroot fs cur cur' env env' h.2 hc hv _) (Oracle.order_perm _ _))
        fun kvs kvs' hk => .pure
    · exact .ok
  | .selectObjectSingle c k f, cur, cur', env, env', h, hc, hv, π => by
    simp only [INode.all, Bool.and_eq_true] at h
    simp only [ieval, ievalO]
    refine ErrH.bind (ieval_simF hroot c cur cur' env env' h.1.2 hc hv _)
      (ieval_errF hroot c cur cur' env env' h.1.2 hc hv _) fun a a' ha => ?_
    rw [conc_isNull ha]
    cases hn : a.isNull <;> simp only [if_true, Bool.false_eq_true, if_false]
    · exact ErrH.bind (ieval_simF hroot f a a' env env' h.2 ha hv _)
        (ieval_errF hroot f a a' env env' h.2 ha hv _) fun v v' hv' => .pure
    · exact .pure
  | .selectObjectSingleCurrent k f, cur, cur', env, env', h, hc, hv, π => by
    simp only [INode.all, Bool.and_eq_true] at h
    simp only [ieval, ievalO]
    exact ErrH.bind (ieval_simF hroot f cur cur' env env' h.2 hc hv _)
      (ieval_errF hroot f cur cur' env env' h.2 hc hv _) fun v v' hv' => .pure
  | .slice c a b, cur, cur', env, env', h, hc, hv, π => by
    simp only [INode.all, Bool.and_eq_true] at h
    simp only [ieval, ievalO]
    exact ErrH.bind (ieval_simF hroot c cur cur' env env' h.2 hc hv _)
      (ieval_errF hroot c cur cur' env env' h.2 hc hv _) fun v v' hv' => .of_not_err (slice_noErr v a b)
  | .sliceCurrent a b, cur, cur', env, env', h, hc, hv, π => .of_not_err (slice_noErr cur a b)
  | .sliceStep c a b st, cur, cur', env, env', h, hc, hv, π => by
    simp only [INode.all, Bool.and_eq_true] at h
    simp only [ieval, ievalO]
    exact ErrH.bind (ieval_simF hroot c cur cur' env env' h.2 hc hv _)
      (ieval_errF hroot c cur cur' env env' h.2 hc hv _) fun v v' hv' => .of_not_err (sliceStep_noErr v a b st)
  | .sliceStepCurrent a b st, cur, cur', env, env', h, hc, hv, π => .of_not_err (sliceStep_noErr cur a b st)
  | .groupBy a e, cur, cur', env, env', h, hc, hv, π => by
    simp only [INode.all, Bool.and_eq_true] at h
    simp only [ieval, ievalO]
    exact ErrH.bind (ieval_simF hroot a cur cur' env env' h.1.2 hc hv _)
      (ieval_errF hroot a cur cur' env env' h.1.2 hc hv _) fun v v' hv' =>
      groupBy_errH (fun i x x' hx => ieval_simF hroot e x x' env env' h.2 hx hv _)
        (fun i x x' hx => ieval_errF hroot e x x' env env' h.2 hx hv _) hv'
  | .map e a, cur, cur', env, env', h, hc, hv, π => by
    simp only [INode.all, Bool.and_eq_true] at h
    simp only [ieval, ievalO]
    exact ErrH.bind (ieval_simF hroot a cur cur' env env' h.2 hc hv _)
      (ieval_errF hroot a cur cur' env env' h.2 hc hv _) fun v v' hv' =>
      mapArray_errH (fun i x x' hx => ieval_simF hroot e x x' env env' h.1.2 hx hv _)
        (fun i x x' hx => ieval_errF hroot e x x' env env' h.1.2 hx hv _) hv'
  | .maxBy a e, cur, cur', env, env', h, hc, hv, π => by
    simp only [INode.all, Bool.and_eq_true] at h
    simp only [ieval, ievalO]
    exact ErrH.bind (ieval_simF hroot a cur cur' env env' h.1.2 hc hv _)
      (ieval_errF hroot a cur cur' env env' h.1.2 hc hv _) fun v v' hv' =>
      arrayPickBy_errH _ (fun i x x' hx => ieval_simF hroot e x x' env env' h.2 hx hv _)
        (fun i x x' hx => ieval_errF hroot e x x' env env' h.2 hx hv _) hv'
  | .minBy a e, cur, cur', env, env', h, hc, hv, π => by
    simp only [INode.all, Bool.and_eq_true] at h
    simp only [ieval, ievalO]
    exact ErrH.bind (ieval_simF hroot a cur cur' env env' h.1.2 hc hv _)
      (ieval_errF hroot a cur cur' env env' h.1.2 hc hv _) fun v v' hv' =>
      arrayPickBy_errH _ (fun i x x' hx => ieval_simF hroot e x x' env env' h.2 hx hv _)
        (fun i x x' hx => ieval_errF hroot e x x' env env' h.2 hx hv _) hv'
  | .sortBy a e, cur, cur', env, env', h, hc, hv, π => by
    simp only [INode.all, Bool.and_eq_true] at h
    simp only [ieval, ievalO]
    exact ErrH.bind (ieval_simF hroot a cur cur' env env' h.1.2 hc hv _)
      (ieval_errF hroot a cur cur' env env' h.1.2 hc hv _) fun v v' hv' =>
      sortArrayBy_errH (fun i x x' hx => ieval_simF hroot e x x' env env' h.2 hx hv _)
        (fun i x x' hx => ieval_errF hroot e x x' env env' h.2 hx hv _) hv'
  | .merge args, cur, cur', env, env', h, hc, hv, π => by
    simp only [INode.all, Bool.and_eq_true] at h
    simp only [ieval, ievalO]
    exact ErrH.bind (ievalMerge_simF hroot args cur cur' env env' [] [] h.2 hc hv concF_nil _)
      (ievalMerge_errF hroot args cur cur' env env' [] [] h.2 hc hv concF_nil _) fun kvs kvs' hk => .pure
  | .notNull args, cur, cur', env, env', h, hc, hv, π => by
    simp only [INode.all, Bool.and_eq_true] at h
    simp only [ieval, ievalO]
    exact ievalNotNull_errF hroot args cur cur' env env' h.2 hc hv _
  | .zip args, cur, cur', env, env', h, hc, hv, π => by
    simp only [INode.all, Bool.and_eq_true] at h
    simp only [ieval, ievalO]
    refine ErrH.bind (ievalZip_simF hroot args cur cur' env env' h.2 hc hv _)
      (ievalZip_errF hroot args cur cur' env env' h.2 hc hv _) fun vs vs' hvs =>
      ErrH.bind (zipArgs_simE hvs) (zipArgs_errH hvs) fun cols cols' hcols => ?_
    cases hcols with
    | nil => exact .pure
    | cons hab t => exact .pure
theorem ievalList_errF {root root' : Val} (hroot : Conc root root') :
    ∀ (ns : List INode) (cur cur' : Val) (env env' : Env), INode.allL nodeOkF ns = true → Conc cur cur' →
      ConcF env env' → ∀ π : Oracle, ErrH (ievalList root ns cur env) (ievalListO π root' ns cur' env')
  | [], cur, cur', env, env', h, hc, hv, π => .ok
  | n :: ns, cur, cur', env, env', h, hc, hv, π => by
    simp only [INode.allL, Bool.and_eq_true] at h
    simp only [ievalList, ievalListO]
    exact ErrH.bind (ieval_simF hroot n cur cur' env env' h.1 hc hv _) (ieval_errF hroot n cur cur' env env' h.1 hc hv _)
      fun v v' hv' => ErrH.bind (ievalList_simF hroot ns cur cur' env env' h.2 hc hv _)
        (ievalList_errF hroot ns cur cur' env env' h.2 hc hv _) fun vs vs' hvs => .pure
theorem ievalMembers_errF {root root' : Val} (hroot : Conc root root') :
    ∀ (fs : List (Bytes × INode)) (cur cur' : Val) (env env' : Env), INode.allF nodeOkF fs = true → Conc cur cur' →
      ConcF env env' → ∀ π : Oracle,
      All₂ MemberSimX (memberOutcomes root fs cur env) (ievalMembersO π root' fs cur' env')
  | [], cur, cur', env, env', h, hc, hv, π => .nil
  | (k, n) :: rest, cur, cur', env, env', h, hc, hv, π => by
    simp only [INode.allF, Bool.and_eq_true] at h
    simp only [memberOutcomes, List.map_cons, ievalMembersO]
    exact .cons ⟨rfl, ieval_simF hroot n cur cur' env env' h.1 hc hv _, ieval_errF hroot n cur cur' env env' h.1 hc hv _⟩
      (ievalMembers_errF hroot rest cur cur' env env' h.2 hc hv _)
theorem ievalMerge_errF {root root' : Val} (hroot : Conc root root') :
    ∀ (ns : List INode) (cur cur' : Val) (env env' : Env) (acc acc' : List (Bytes × Val)),
      INode.allL nodeOkF ns = true → Conc cur cur' → ConcF env env' → ConcF acc acc' →
      ∀ π : Oracle, ErrH (ievalMerge root ns cur env acc) (ievalMergeO π root' ns cur' env' acc')
  | [], cur, cur', env, env', acc, acc', h, hc, hv, ha, π => .ok
  | n :: ns, cur, cur', env, env', acc, acc', h, hc, hv, ha, π => by
    simp only [INode.allL, Bool.and_eq_true] at h
    simp only [ievalMerge, ievalMergeO]
    refine ErrH.bind (ieval_simF hroot n cur cur' env env' h.1 hc hv _)
      (ieval_errF hroot n cur cur' env env' h.1 hc hv _) fun v v' hv' => ?_
    cases v with
    | obj kvs =>
      obtain ⟨kvs', rfl, hk⟩ := conc_obj hv'
      exact ievalMerge_errF hroot ns cur cur' env env' _ _ h.2 hc hv (concF_foldInsert hk ha) _
    | arr t xs => obtain ⟨t', xs', rfl, _⟩ := conc_arr hv'; exact .errType
    | null | bool _ | num _ | foreign _ | str _ => simp only [Conc] at hv'; subst hv'; exact .errType
theorem ievalZip_errF {root root' : Val} (hroot : Conc root root') :
    ∀ (ns : List INode) (cur cur' : Val) (env env' : Env), INode.allL nodeOkF ns = true → Conc cur cur' →
      ConcF env env' → ∀ π : Oracle, ErrH (ievalZip root ns cur env) (ievalZipO π root' ns cur' env')
  | [], cur, cur', env, env', h, hc, hv, π => .ok
  | n :: ns, cur, cur', env, env', h, hc, hv, π => by
    simp only [INode.allL, Bool.and_eq_true] at h
    simp only [ievalZip, ievalZipO]
    refine ErrH.bind (ieval_simF hroot n cur cur' env env' h.1 hc hv _)
      (ieval_errF hroot n cur cur' env env' h.1 hc hv _) fun v v' hv' => ?_
    cases v with
    | arr t xs =>
      obtain ⟨t', xs', rfl, _⟩ := conc_arr hv'
      exact ErrH.bind (ievalZip_simF hroot ns cur cur' env env' h.2 hc hv _)
        (ievalZip_errF hroot ns cur cur' env env' h.2 hc hv _) fun vs vs' hvs => .pure
    | obj kvs => obtain ⟨kvs', rfl, _⟩ := conc_obj hv'; exact .errType
    | null | bool _ | num _ | foreign _ | str _ => simp only [Conc] at hv'; subst hv'; exact .errType
theorem ievalNotNull_errF {root root' : Val} (hroot : Conc root root') :
    ∀ (ns : List INode) (cur cur' : Val) (env env' : Env), INode.allL nodeOkF ns = true → Conc cur cur' →
      ConcF env env' → ∀ π : Oracle, ErrH (ievalNotNull root ns cur env) (ievalNotNullO π root' ns cur' env')
  | [], cur, cur', env, env', h, hc, hv, π => .ok
  | n :: ns, cur, cur', env, env', h, hc, hv, π => by
    simp only [INode.allL, Bool.and_eq_true] at h
    simp only [ievalNotNull, ievalNotNullO]
    refine ErrH.bind (ieval_simF hroot n cur cur' env env' h.1 hc hv _)
      (ieval_errF hroot n cur cur' env env' h.1 hc hv _) fun v v' hv' => ?_
    rw [conc_isNull hv']
    cases hn : v.isNull <;> simp only [if_true, Bool.false_eq_true, if_false]
    · exact .pure
    · exact ievalNotNull_errF hroot ns cur cur' env env' h.2 hc hv _
end

end Jmes.C15C
