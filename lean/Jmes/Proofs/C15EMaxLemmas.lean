/-
  Helper lemmas for Jmes/Properties/C15E.lean, part 3: `max` / `min` over an enumerated array of numbers.
  Two runs may return decimals of equal value and different representation; the comparison operators do not see
  the difference.
-/
import Jmes.Proofs.C15EMain
import Jmes.Proofs.Equal
set_option linter.unusedVariables false
set_option linter.constructorNameAsVariable false
namespace Jmes.C15E
open Jmes Invar Jmes.C15C

/-! ## decimals of equal value are indistinguishable for the comparisons -/

theorem compare_zero_symm {a a' : Dec} (h : Dec.compare a a' = 0) : Dec.compare a' a = 0 := by
  rw [Dec.compare_antisymm a a', h]; rfl

theorem compare_congr_left {a a' : Dec} (b : Dec) (h : Dec.compare a a' = 0) :
    Dec.compare a b = Dec.compare a' b := by
  have h' := compare_zero_symm h
  have r1 := Dec.compare_range a b
  have r2 := Dec.compare_range a' b
  have s1 := Dec.compare_antisymm a b
  have s2 := Dec.compare_antisymm a' b
  by_cases c1 : Dec.compare a b ≤ 0
  · have d1 : Dec.compare a' b ≤ 0 := Dec.compare_trans (by omega) c1
    by_cases c2 : Dec.compare b a ≤ 0
    · have d2 : Dec.compare b a' ≤ 0 := Dec.compare_trans c2 (by omega)
      omega
    · have d2 : ¬ Dec.compare b a' ≤ 0 := fun x => c2 (Dec.compare_trans x (by omega))
      omega
  · have d1 : ¬ Dec.compare a' b ≤ 0 := fun x => c1 (Dec.compare_trans (by omega) x)
    omega

theorem compare_congr_right {a a' : Dec} (b : Dec) (h : Dec.compare a a' = 0) :
    Dec.compare b a = Dec.compare b a' := by
  rw [Dec.compare_antisymm a b, Dec.compare_antisymm a' b, compare_congr_left b h]

theorem isNaN_congr {a a' : Dec} (h : Dec.compare a a' = 0) : a.isNaN = a'.isNaN := by
  cases a <;> cases a' <;> first | rfl | (simp [Dec.compare] at h)

theorem equal_iff' (a b : Dec) :
    Dec.equal a b = true ↔ (a.isNaN = false ∧ b.isNaN = false ∧ Dec.compare a b = 0) := by
  cases a with
  | nan => simp [Dec.equal, Dec.cmp, Dec.isNaN]
  | inf n => cases b with
    | nan => simp [Dec.equal, Dec.cmp, Dec.isNaN]
    | inf n' => simp [Dec.equal, Dec.cmp, Dec.isNaN, Dec.compare]
    | fin n' c e => simp [Dec.equal, Dec.cmp, Dec.isNaN, Dec.compare]
  | fin n c e => cases b with
    | nan => simp [Dec.equal, Dec.cmp, Dec.isNaN]
    | inf n' => simp [Dec.equal, Dec.cmp, Dec.isNaN, Dec.compare]
    | fin n' c' e' => simp [Dec.equal, Dec.cmp, Dec.isNaN, Dec.compare]

theorem less_congr_left {a a' : Dec} (b : Dec) (h : Dec.compare a a' = 0) : Dec.less a b = Dec.less a' b := by
  rw [Bool.eq_iff_iff, Dec.less_iff, Dec.less_iff, isNaN_congr h, compare_congr_left b h]
theorem less_congr_right {a a' : Dec} (b : Dec) (h : Dec.compare a a' = 0) : Dec.less b a = Dec.less b a' := by
  rw [Bool.eq_iff_iff, Dec.less_iff, Dec.less_iff, isNaN_congr h, compare_congr_right b h]
theorem greater_congr_left {a a' : Dec} (b : Dec) (h : Dec.compare a a' = 0) :
    Dec.greater a b = Dec.greater a' b := by
  rw [Bool.eq_iff_iff, Dec.greater_iff, Dec.greater_iff, isNaN_congr h, compare_congr_left b h]
theorem greater_congr_right {a a' : Dec} (b : Dec) (h : Dec.compare a a' = 0) :
    Dec.greater b a = Dec.greater b a' := by
  rw [Bool.eq_iff_iff, Dec.greater_iff, Dec.greater_iff, isNaN_congr h, compare_congr_right b h]
theorem equal_congr_left {a a' : Dec} (b : Dec) (h : Dec.compare a a' = 0) : Dec.equal a b = Dec.equal a' b := by
  rw [Bool.eq_iff_iff, equal_iff', equal_iff', isNaN_congr h, compare_congr_left b h]
theorem equal_congr_right {a a' : Dec} (b : Dec) (h : Dec.compare a a' = 0) : Dec.equal b a = Dec.equal b a' := by
  rw [Bool.eq_iff_iff, equal_iff', equal_iff', isNaN_congr h, compare_congr_right b h]

/-! ## values -/

/-- the same value, or two decimals that compare equal (the result of `max` / `min` in two runs) -/
def NumEq (a a' : Val) : Prop := a' = a ∨ ∃ d d', a = .num (.dec d) ∧ a' = .num (.dec d') ∧ Dec.compare d d' = 0

/-- the six comparison operators -/
def isCmp : BinOp → Bool
  | .eq | .ne | .lt | .le | .gt | .ge => true
  | _ => false

theorem toDecimal_dec (d : Dec) : toDecimal (.num (.dec d)) = some d := rfl

theorem cmpOp_less_left {d d' : Dec} (b : Val) (h : Dec.compare d d' = 0) :
    less (.num (.dec d')) b = less (.num (.dec d)) b := by
  simp only [less, cmpOp, toDecimal_dec]
  cases toDecimal b with
  | none => rfl
  | some yd => simp only [less_congr_left yd h]
theorem cmpOp_greater_left {d d' : Dec} (b : Val) (h : Dec.compare d d' = 0) :
    greater (.num (.dec d')) b = greater (.num (.dec d)) b := by
  simp only [greater, cmpOp, toDecimal_dec]
  cases toDecimal b with
  | none => rfl
  | some yd => simp only [greater_congr_left yd h]
theorem cmpOp_lessEq_left {d d' : Dec} (b : Val) (h : Dec.compare d d' = 0) :
    lessOrEqual (.num (.dec d')) b = lessOrEqual (.num (.dec d)) b := by
  simp only [lessOrEqual, cmpOp, toDecimal_dec]
  cases toDecimal b with
  | none => rfl
  | some yd => simp only [Dec.lessEq, less_congr_left yd h, equal_congr_left yd h]
theorem cmpOp_greaterEq_left {d d' : Dec} (b : Val) (h : Dec.compare d d' = 0) :
    greaterOrEqual (.num (.dec d')) b = greaterOrEqual (.num (.dec d)) b := by
  simp only [greaterOrEqual, cmpOp, toDecimal_dec]
  cases toDecimal b with
  | none => rfl
  | some yd => simp only [Dec.greaterEq, greater_congr_left yd h, equal_congr_left yd h]
theorem equal_num_left {d d' : Dec} (b : Val) (h : Dec.compare d d' = 0) :
    equal (.num (.dec d')) b = equal (.num (.dec d)) b := by
  simp only [equal, toDecimal_dec]
  cases toDecimal b with
  | none => rfl
  | some yd => simp only [equal_congr_left yd h]

theorem cmpOp_less_right {d d' : Dec} (b : Val) (h : Dec.compare d d' = 0) :
    less b (.num (.dec d')) = less b (.num (.dec d)) := by
  simp only [less, cmpOp, toDecimal_dec]
  cases toDecimal b with
  | none => rfl
  | some yd => simp only [less_congr_right yd h]
theorem cmpOp_greater_right {d d' : Dec} (b : Val) (h : Dec.compare d d' = 0) :
    greater b (.num (.dec d')) = greater b (.num (.dec d)) := by
  simp only [greater, cmpOp, toDecimal_dec]
  cases toDecimal b with
  | none => rfl
  | some yd => simp only [greater_congr_right yd h]
theorem cmpOp_lessEq_right {d d' : Dec} (b : Val) (h : Dec.compare d d' = 0) :
    lessOrEqual b (.num (.dec d')) = lessOrEqual b (.num (.dec d)) := by
  simp only [lessOrEqual, cmpOp, toDecimal_dec]
  cases toDecimal b with
  | none => rfl
  | some yd => simp only [Dec.lessEq, less_congr_right yd h, equal_congr_right yd h]
theorem cmpOp_greaterEq_right {d d' : Dec} (b : Val) (h : Dec.compare d d' = 0) :
    greaterOrEqual b (.num (.dec d')) = greaterOrEqual b (.num (.dec d)) := by
  simp only [greaterOrEqual, cmpOp, toDecimal_dec]
  cases toDecimal b with
  | none => rfl
  | some yd => simp only [Dec.greaterEq, greater_congr_right yd h, equal_congr_right yd h]
theorem equal_num_right {d d' : Dec} (b : Val) (h : Dec.compare d d' = 0) :
    equal b (.num (.dec d')) = equal b (.num (.dec d)) := by
  cases b with
  | num n =>
    simp only [equal]
    cases toDecimal (.num n) with
    | none => rfl
    | some xd => simp only [toDecimal_dec, equal_congr_right xd h]
  | _ => rfl

theorem hasEnum2_num (n : Num) : (Val.num n).hasEnum2 = false := rfl

theorem equalR_num_left {d d' : Dec} (b : Val) (h : Dec.compare d d' = 0) :
    equalR (.num (.dec d')) b = equalR (.num (.dec d)) b := by
  unfold equalR
  rw [equal_num_left b h, hasEnum2_num, hasEnum2_num]
theorem equalR_num_right {d d' : Dec} (b : Val) (h : Dec.compare d d' = 0) :
    equalR b (.num (.dec d')) = equalR b (.num (.dec d)) := by
  unfold equalR
  rw [equal_num_right b h, hasEnum2_num, hasEnum2_num]

/-- **the comparison operators do not distinguish equal-valued decimals** (left operand) -/
theorem applyBinOp_numEq_left {op : BinOp} (hop : isCmp op = true) {a a' : Val} (b : Val) (h : NumEq a a') :
    applyBinOp op a' b = applyBinOp op a b := by
  rcases h with rfl | ⟨d, d', rfl, rfl, h⟩
  · rfl
  · cases op
    case eq => simp only [applyBinOp, equalR_num_left b h]
    case ne => simp only [applyBinOp, equalR_num_left b h]
    case lt => simp only [applyBinOp, cmpOp_less_left b h]
    case le => simp only [applyBinOp, cmpOp_lessEq_left b h]
    case gt => simp only [applyBinOp, cmpOp_greater_left b h]
    case ge => simp only [applyBinOp, cmpOp_greaterEq_left b h]
    all_goals exact absurd hop (by decide)

/-- … (right operand) -/
theorem applyBinOp_numEq_right {op : BinOp} (hop : isCmp op = true) {a a' : Val} (b : Val) (h : NumEq a a') :
    applyBinOp op b a' = applyBinOp op b a := by
  rcases h with rfl | ⟨d, d', rfl, rfl, h⟩
  · rfl
  · cases op
    case eq => simp only [applyBinOp, equalR_num_right b h]
    case ne => simp only [applyBinOp, equalR_num_right b h]
    case lt => simp only [applyBinOp, cmpOp_less_right b h]
    case le => simp only [applyBinOp, cmpOp_lessEq_right b h]
    case gt => simp only [applyBinOp, cmpOp_greater_right b h]
    case ge => simp only [applyBinOp, cmpOp_greaterEq_right b h]
    all_goals exact absurd hop (by decide)

/-! ## `max` / `min` of a concretised array -/

/-- `max` / `min` -/
def isExtremum : Fn → Bool
  | .max | .min => true
  | _ => false

theorem arrayMax_result {v a : Val} (h : arrayMax v = .ok a) : a = .null ∨ (∃ s, a = .str s) ∨ ∃ d, a = .num (.dec d) := by
  cases v with
  | arr t xs =>
    cases xs with
    | nil => simp only [arrayMax] at h; cases h; exact .inl rfl
    | cons x rest =>
      cases x with
      | str s =>
        simp only [arrayMax] at h
        split at h
        · cases h; exact .inr (.inl ⟨_, rfl⟩)
        · cases h
      | _ =>
        simp only [arrayMax] at h
        split at h
        · split at h
          · cases h
          · cases h; exact .inr (.inr ⟨_, rfl⟩)
        · cases h
  | _ => simp only [arrayMax] at h; cases h

theorem arrayMin_result {v a : Val} (h : arrayMin v = .ok a) : a = .null ∨ (∃ s, a = .str s) ∨ ∃ d, a = .num (.dec d) := by
  cases v with
  | arr t xs =>
    cases xs with
    | nil => simp only [arrayMin] at h; cases h; exact .inl rfl
    | cons x rest =>
      cases x with
      | str s =>
        simp only [arrayMin] at h
        split at h
        · cases h; exact .inr (.inl ⟨_, rfl⟩)
        · cases h
      | _ =>
        simp only [arrayMin] at h
        split at h
        · split at h
          · cases h
          · cases h; exact .inr (.inr ⟨_, rfl⟩)
        · cases h
  | _ => simp only [arrayMin] at h; cases h

theorem numEq_of_valEq {a a' : Val} (hv : ValEq a a')
    (hr : a = .null ∨ (∃ s, a = .str s) ∨ ∃ d, a = .num (.dec d)) : NumEq a a' := by
  rcases hv with hc | h
  · left
    rcases hr with rfl | ⟨s, rfl⟩ | ⟨d, rfl⟩ <;> simpa [Conc] using hc
  · exact .inr h

theorem good_of_result {a : Val} (hr : a = .null ∨ (∃ s, a = .str s) ∨ ∃ d, a = .num (.dec d)) :
    a.Good true = true := by
  rcases hr with rfl | ⟨s, rfl⟩ | ⟨d, rfl⟩ <;> rfl

/-- the extremum of the model's array against that of a run's array -/
theorem extremum_numEq {mx : Fn} (hmx : isExtremum mx = true) {v v' : Val} (hc : Conc v v') :
    (∀ a, applyFn mx [v] = .ok a → a.Good true = true ∧ ∃ a', applyFn mx [v'] = .ok a' ∧ NumEq a a') ∧
    ErrH (applyFn mx [v]) (applyFn mx [v']) := by
  cases mx <;> first | exact absurd hmx (by decide) | skip
  · refine ⟨fun a ha => ?_, arrayMax_errH hc⟩
    obtain ⟨a', ha', hv⟩ := arrayMax_valEq hc (r := a) ha
    exact ⟨good_of_result (arrayMax_result ha), a', ha', numEq_of_valEq hv (arrayMax_result ha)⟩
  · refine ⟨fun a ha => ?_, arrayMin_errH hc⟩
    obtain ⟨a', ha', hv⟩ := arrayMin_valEq hc (r := a) ha
    exact ⟨good_of_result (arrayMin_result ha), a', ha', numEq_of_valEq hv (arrayMin_result ha)⟩

/-- an outcome of the model against an outcome of a run, up to the representation of a decimal -/
def SimN (r r' : Res Val) : Prop :=
  (∀ a, r = .ok a → a.Good true = true ∧ ∃ a', r' = .ok a' ∧ NumEq a a') ∧ ErrH r r'

theorem extremum_simN (π : Oracle) {mx : Fn} (hmx : isExtremum mx = true) {S : Val → Prop} {r r' : Res Val}
    (h : Tri S r r') : SimN (r >>= fun v => applyFn mx [v]) (r' >>= fun v => applyFnO π mx [v]) := by
  have hne : Fn.enumerates mx = false := by cases mx <;> first | rfl | exact absurd hmx (by decide)
  obtain ⟨hd, hs, he⟩ := h
  cases r with
  | ok v =>
    obtain ⟨v', rfl, hc⟩ := hs v rfl
    simp only [Res.ok_bind, applyFnO_eq π hne]
    exact extremum_numEq hmx hc
  | err cs =>
    obtain ⟨c, hc, rfl⟩ := he cs rfl
    refine ⟨(fun a e => by cases e), ?_⟩
    intro cs' e'; cases e'; exact ⟨c, hc, rfl⟩
  | nondet => exact ⟨(fun a e => by cases e), ErrH.of_not_err (by intro a e; cases e)⟩
  | panic w => exact ⟨(fun a e => by cases e), ErrH.of_not_err (by intro a e; cases e)⟩
  | unmodelled w => exact ⟨(fun a e => by cases e), ErrH.of_not_err (by intro a e; cases e)⟩

/-- a definite outcome in strict mode has singleton error sets -/
theorem errH_self {r : Res Val} (h : GoodR true r) : ErrH r r := by
  intro cs e
  have hl : cs.length = 1 := goodR_single h cs e
  match cs, hl with
  | [c], _ => exact ⟨c, by simp, e⟩

/-- `extremum op y` -/
theorem cmp_compose_left {op : BinOp} (hop : isCmp op = true) {r r' s s' : Res Val} (h1 : SimN r r')
    (h2 : SimR s s') :
    (∀ x, (r >>= fun a => s >>= fun b => applyBinOp op a b) = .ok x →
      (r' >>= fun a => s' >>= fun b => applyBinOp op a b) = .ok x) ∧
    ErrH (r >>= fun a => s >>= fun b => applyBinOp op a b) (r' >>= fun a => s' >>= fun b => applyBinOp op a b) := by
  obtain ⟨hv, he⟩ := h1
  cases r with
  | ok a =>
    obtain ⟨hga, a', rfl, hn⟩ := hv a rfl
    cases s with
    | ok b =>
      obtain ⟨rfl, hgb⟩ := h2
      simp only [Res.ok_bind, applyBinOp_numEq_left hop b hn]
      exact ⟨fun x e => e, errH_self (applyBinOp_sat op hga hgb)⟩
    | err cs =>
      obtain ⟨c, hc, rfl⟩ := h2
      refine ⟨(fun x e => by cases e), ?_⟩
      intro cs' e'; cases e'; exact ⟨c, hc, rfl⟩
    | nondet => exact h2.elim
    | panic w => exact ⟨(fun x e => by cases e), ErrH.of_not_err (by intro a e; cases e)⟩
    | unmodelled w => exact ⟨(fun x e => by cases e), ErrH.of_not_err (by intro a e; cases e)⟩
  | err cs =>
    obtain ⟨c, hc, rfl⟩ := he cs rfl
    refine ⟨(fun x e => by cases e), ?_⟩
    intro cs' e'; cases e'; exact ⟨c, hc, rfl⟩
  | nondet => exact ⟨(fun x e => by cases e), ErrH.of_not_err (by intro a e; cases e)⟩
  | panic w => exact ⟨(fun x e => by cases e), ErrH.of_not_err (by intro a e; cases e)⟩
  | unmodelled w => exact ⟨(fun x e => by cases e), ErrH.of_not_err (by intro a e; cases e)⟩

/-- `y op extremum` -/
theorem cmp_compose_right {op : BinOp} (hop : isCmp op = true) {r r' s s' : Res Val} (h1 : SimN r r')
    (h2 : SimR s s') :
    (∀ x, (s >>= fun b => r >>= fun a => applyBinOp op b a) = .ok x →
      (s' >>= fun b => r' >>= fun a => applyBinOp op b a) = .ok x) ∧
    ErrH (s >>= fun b => r >>= fun a => applyBinOp op b a) (s' >>= fun b => r' >>= fun a => applyBinOp op b a) := by
  obtain ⟨hv, he⟩ := h1
  cases s with
  | ok b =>
    obtain ⟨rfl, hgb⟩ := h2
    cases r with
    | ok a =>
      obtain ⟨hga, a', rfl, hn⟩ := hv a rfl
      simp only [Res.ok_bind, applyBinOp_numEq_right hop b hn]
      exact ⟨fun x e => e, errH_self (applyBinOp_sat op hgb hga)⟩
    | err cs =>
      obtain ⟨c, hc, rfl⟩ := he cs rfl
      refine ⟨(fun x e => by cases e), ?_⟩
      intro cs' e'; cases e'; exact ⟨c, hc, rfl⟩
    | nondet => exact ⟨(fun x e => by cases e), ErrH.of_not_err (by intro a e; cases e)⟩
    | panic w => exact ⟨(fun x e => by cases e), ErrH.of_not_err (by intro a e; cases e)⟩
    | unmodelled w => exact ⟨(fun x e => by cases e), ErrH.of_not_err (by intro a e; cases e)⟩
  | err cs =>
    obtain ⟨c, hc, rfl⟩ := h2
    refine ⟨(fun x e => by cases e), ?_⟩
    intro cs' e'; cases e'; exact ⟨c, hc, rfl⟩
  | nondet => exact h2.elim
  | panic w => exact ⟨(fun x e => by cases e), ErrH.of_not_err (by intro a e; cases e)⟩
  | unmodelled w => exact ⟨(fun x e => by cases e), ErrH.of_not_err (by intro a e; cases e)⟩

/-! ## when the model declines for `max` / `min` over an enumerated array: only for a NaN -/

theorem allDecimals_mem : ∀ {xs : List Val} {ds : List Dec}, allDecimals xs = some ds →
    ∀ d ∈ ds, ∃ x ∈ xs, toDecimal x = some d
  | [], ds, h, d, hd => by simp only [allDecimals, Option.some.injEq] at h; subst h; cases hd
  | x :: rest, ds, h, d, hd => by
    simp only [allDecimals] at h
    cases hx : toDecimal x with
    | none => rw [hx] at h; cases h
    | some dx =>
      rw [hx] at h
      cases hr : allDecimals rest with
      | none => rw [hr] at h; cases h
      | some ds' =>
        rw [hr] at h
        simp only [Option.map_some, Option.some.injEq] at h
        subst h
        rcases List.mem_cons.mp hd with rfl | hd
        · exact ⟨x, by simp, hx⟩
        · obtain ⟨y, hy, e⟩ := allDecimals_mem hr d hd
          exact ⟨y, List.mem_cons_of_mem _ hy, e⟩

theorem nanFree_orderFree {xs : List Val} {ds : List Dec}
    (h : ∀ x ∈ xs, ∀ d, toDecimal x = some d → d.isNaN = false) (hd : allDecimals xs = some ds) :
    decsOrderFree ds = true := by
  simp only [decsOrderFree, Bool.not_eq_true', List.any_eq_false]
  intro d hm
  obtain ⟨x, hx, e⟩ := allDecimals_mem hd d hm
  simp [h x hx d e]

theorem arrayMax_enum_definite {xs : List Val} (h : ∀ x ∈ xs, ∀ d, toDecimal x = some d → d.isNaN = false) :
    arrayMax (.arr .enum xs) ≠ .nondet := by
  intro e
  cases xs with
  | nil => cases e
  | cons x rest =>
    cases hd : allDecimals (x :: rest) with
    | none =>
      cases x <;> simp only [arrayMax, hd] at e <;> (try split at e) <;> cases e
    | some ds =>
      have := nanFree_orderFree h hd
      cases x <;> simp only [arrayMax, hd] at e <;> (try split at e) <;> (try cases e)
      all_goals (rename_i heq; cases heq; simp only [this, Bool.not_true, Bool.and_false, Bool.false_eq_true,
        if_false] at e; cases e)

theorem arrayMin_enum_definite {xs : List Val} (h : ∀ x ∈ xs, ∀ d, toDecimal x = some d → d.isNaN = false) :
    arrayMin (.arr .enum xs) ≠ .nondet := by
  intro e
  cases xs with
  | nil => cases e
  | cons x rest =>
    cases hd : allDecimals (x :: rest) with
    | none =>
      cases x <;> simp only [arrayMin, hd] at e <;> (try split at e) <;> cases e
    | some ds =>
      have := nanFree_orderFree h hd
      cases x <;> simp only [arrayMin, hd] at e <;> (try split at e) <;> (try cases e)
      all_goals (rename_i heq; cases heq; simp only [this, Bool.not_true, Bool.and_false, Bool.false_eq_true,
        if_false] at e; cases e)

theorem ieval_binop (root : Val) (op : BinOp) (l r : INode) (cur : Val) (env : Env) :
    ieval root (.binop op l r) cur env =
      (ieval root l cur env >>= fun a => ieval root r cur env >>= fun b => applyBinOp op a b) := by
  simp only [ieval]

theorem ievalO_binop (π : Oracle) (root : Val) (op : BinOp) (l r : INode) (cur : Val) (env : Env) :
    ievalO π root (.binop op l r) cur env =
      (ievalO (π.sub 0) root l cur env >>= fun a => ievalO (π.sub 1) root r cur env >>= fun b =>
        applyBinOp op a b) := by
  simp only [ievalO]

theorem perm_two {α} {a b : α} {l : List α} (h : l.Perm [a, b]) : l = [a, b] ∨ l = [b, a] := by
  match l, h with
  | [x, y], h =>
    have hx : x ∈ [a, b] := h.mem_iff.mp (by simp)
    simp only [List.mem_cons, List.not_mem_nil, or_false] at hx
    rcases hx with rfl | rfl
    · have := List.perm_singleton.mp (List.Perm.cons_inv h)
      left; rw [this]
    · have h2 : [x, y].Perm [x, a] := h.trans (List.Perm.swap _ _ _)
      have := List.perm_singleton.mp (List.Perm.cons_inv h2)
      right; rw [this]
  | [], h => exact absurd h.length_eq (by simp)
  | [_], h => exact absurd h.length_eq (by simp)
  | _ :: _ :: _ :: _, h => exact absurd h.length_eq (by simp)

end Jmes.C15E
