/-
  C18 (third wave): `Decimal.MarshalJSON` followed by `decimal128.Parse` gives back a decimal of equal value
  (precisely: the normal form of the printed decimal).
-/
import Jmes.Proofs.Repr
namespace Jmes.C18CRD
open Jmes

/-! ### digits -/

theorem digitsOfAux_length_le : ∀ (fuel n : Nat) (acc : List Nat) (k : Nat), n < 10 ^ k →
    (Dec.digitsOfAux fuel n acc).length ≤ acc.length + k
  | 0, n, acc, k, _ => by simp [Dec.digitsOfAux]
  | fuel + 1, n, acc, k, h => by
    unfold Dec.digitsOfAux
    by_cases hn : n = 0
    · simp [hn]
    · simp only [hn, if_false]
      cases k with
      | zero => simp at h; omega
      | succ k =>
        have := digitsOfAux_length_le fuel (n / 10) ((0x30 + n % 10) :: acc) k (by rw [Nat.pow_succ] at h; omega)
        simp only [List.length_cons] at this
        omega

/-- a number below `10^k` has at most `k` digits -/
theorem digitsOf_length_le (n k : Nat) (h : n < 10 ^ k) : (Dec.digitsOf n).length ≤ k := by
  have := digitsOfAux_length_le (Nat.log2 n + 2) n [] k h
  simpa [Dec.digitsOf] using this

/-- `digitsOf n` for `n ≠ 0`: a non-empty run of digits of value `n` -/
theorem digitsOf_spec (n : Nat) (hn : n ≠ 0) :
    ∃ b ip, Dec.digitsOf n = b :: ip ∧ (∀ x ∈ b :: ip, Dec.isDigit x = true) ∧
      (∀ a0, Dec.dval a0 (b :: ip) = a0 * 10 ^ (ip.length + 1) + n) := by
  obtain ⟨ds, h1, h2, h3, h4⟩ := Dec.digitsOfAux_spec (Nat.log2 n + 2) n [] (Dec.lt_pow10_log2' n)
  simp only [List.append_nil] at h1
  cases ds with
  | nil => exact absurd rfl (h4 hn)
  | cons b ip => exact ⟨b, ip, h1, h2, by simpa using h3⟩

example : Dec.digitsOf 1234 = [0x31, 0x32, 0x33, 0x34] := by decide

theorem dval_zeros (acc : Nat) : ∀ j : Nat, Dec.dval acc (List.replicate j 0x30) = acc * 10 ^ j
  | 0 => by simp [Dec.dval_nil]
  | j + 1 => by
    rw [List.replicate_succ, Dec.dval_cons, dval_zeros _ j, Nat.pow_succ]
    simp only [Nat.sub_self, Nat.add_zero]
    rw [Nat.mul_assoc, Nat.mul_comm 10]

theorem digit_zeros (j : Nat) : ∀ x ∈ List.replicate j 0x30, Dec.isDigit x = true := by
  intro x hx
  rw [(List.mem_replicate.mp hx).2]; decide

theorem normalize_self (n : Bool) (c : Nat) (e : Int) (h : c % 10 ≠ 0) :
    Dec.normalize (.fin n c e) = .fin n c e := by
  have := Dec.normalize_of n c c 0 e h (by simp)
  simpa using this

/-! ### the printed text as a function of the normal form -/

/-- body of `Dec.marshalJSON` for a non-zero normalised coefficient `c` and exponent `e` -/
def fmt (neg : Bool) (c : Nat) (e : Int) : Bytes :=
  let sign : Bytes := if neg then [0x2D] else []
  let ds := Dec.digitsOf c
  let nd := ds.length
  let prec := nd - 1
  let sci : Int := e + prec
  if sci < -6 ∨ sci ≥ 20 then
    let mant := match ds with
      | [] => [0x30]
      | d0 :: rest => if rest.isEmpty then [d0] else d0 :: 0x2E :: rest
    let es : Bytes := if sci < 0 then 0x2D :: Dec.natToBytes sci.natAbs else 0x2B :: Dec.natToBytes sci.natAbs
    sign ++ mant ++ [0x65] ++ es
  else
    let dp : Int := nd + e
    if e ≥ 0 then
      sign ++ ds ++ List.replicate e.toNat 0x30
    else if dp > 0 then
      sign ++ ds.take dp.toNat ++ [0x2E] ++ ds.drop dp.toNat
    else
      sign ++ [0x30, 0x2E] ++ List.replicate (-dp).toNat 0x30 ++ ds

theorem marshalJSON_eq_fmt (neg : Bool) (c : Nat) (e : Int) (hc0 : c ≠ 0) (n' : Bool) (c' : Nat) (e' : Int)
    (hn : Dec.normalize (.fin neg c e) = .fin n' c' e') :
    Dec.marshalJSON (.fin neg c e) = some (fmt neg c' e') := by
  simp only [Dec.marshalJSON, hc0, if_false, hn, fmt]
  split
  · rfl
  · split
    · rfl
    · split <;> rfl

/-! ### `reduce` on a normalised coefficient whose exponent may exceed `EMAX` by its spare room -/

theorem scaleUp_steps : ∀ (fuel j c : Nat) (e : Int), j ≤ fuel → e = Dec.EMAX + j → c * 10 ^ j ≤ Dec.MAXSIG → c ≠ 0 →
    Dec.scaleUp fuel c e = (c * 10 ^ j, Dec.EMAX)
  | fuel, 0, c, e, _, he, _, _ => by
    rw [Dec.scaleUp_id fuel c e (by omega)]; simp; omega
  | 0, j + 1, c, e, h, _, _, _ => by omega
  | fuel + 1, j + 1, c, e, h, he, hle, hc0 => by
    unfold Dec.scaleUp
    have h1 : e > Dec.EMAX := by omega
    have h2 : c * 10 ≤ Dec.MAXSIG := by
      refine Nat.le_trans ?_ hle
      apply Nat.mul_le_mul_left
      rw [Nat.pow_succ]
      exact Nat.le_mul_of_pos_left _ (Nat.pow_pos (by decide))
    simp only [h1, h2, hc0, ne_eq, not_false_eq_true, and_self, if_true]
    rw [scaleUp_steps fuel j (c * 10) (e - 1) (by omega) (by omega)
      (by rw [Nat.mul_assoc, ← Nat.pow_succ']; exact hle) (by omega)]
    rw [Nat.mul_assoc, ← Nat.pow_succ']

/-- a normalised coefficient with `k` digits of room and exponent at most `EMAX + k` is returned unchanged -/
theorem reduce_room (neg : Bool) (c k : Nat) (e : Int) (hc0 : c % 10 ≠ 0) (hle : c * 10 ^ k ≤ Dec.MAXSIG)
    (hlo : Dec.EMIN ≤ e) (hhi : e - k ≤ Dec.EMAX) :
    Dec.reduce neg c e false = .fin neg c e := by
  have hc : c ≤ Dec.MAXSIG := Nat.le_trans (Nat.le_mul_of_pos_right _ (Nat.pow_pos (by decide))) hle
  have hne : c ≠ 0 := by intro h; subst h; simp at hc0
  by_cases he : e ≤ Dec.EMAX
  · rw [Dec.reduce_exact neg c e hc hlo he, normalize_self _ _ _ hc0]
  · have hk : k < 35 := Dec.pow10_le_MAXSIG
      (Nat.le_trans (Nat.le_mul_of_pos_left _ (Nat.pos_of_ne_zero hne)) hle)
    have hj : (e - Dec.EMAX).toNat ≤ k := by omega
    have hlej : c * 10 ^ (e - Dec.EMAX).toNat ≤ Dec.MAXSIG :=
      Nat.le_trans (Nat.mul_le_mul_left _ (Nat.pow_le_pow_right (by decide) hj)) hle
    unfold Dec.reduce
    simp only [hne, false_and, if_false]
    rw [Dec.dropHigh_id _ _ _ _ _ hc]
    simp only []
    rw [Dec.dropLow_id _ _ _ _ _ hlo]
    simp only []
    have h1 : ¬ (e < Dec.EMIN) := by omega
    simp only [h1, if_false]
    rw [scaleUp_steps 40 (e - Dec.EMAX).toNat c e (by omega) (by omega) hlej hne]
    simp only []
    rw [Dec.roundEven_id]
    simp only []
    have h2 : ¬ (Dec.EMAX > Dec.EMAX) := by omega
    simp only [h2, if_false]
    rw [Dec.normalize_of neg _ c (e - Dec.EMAX).toNat Dec.EMAX hc0 rfl]
    congr 1; omega

example : Dec.reduce false 1 6144 false = .fin false 1 6144 := by decide

/-! ### parsing the four text shapes -/

/-- an optional minus sign in front of a digit -/
theorem parse_sign (neg : Bool) (b : Nat) (rest : Bytes) (hb : Dec.isDigit b = true) :
    Dec.parse ((if neg = true then [0x2D] else []) ++ b :: rest) = Dec.parseNumber (b :: rest) neg true := by
  cases neg
  · simpa using Dec.parse_digit_head b rest hb
  · simpa using Dec.parse_minus_digit_head b rest hb

/-- shape (b): the digits followed by `j` zeros -/
theorem pn_int_zeros (neg : Bool) (b : Nat) (ip : Bytes) (c j : Nat)
    (hd : ∀ x ∈ b :: ip, Dec.isDigit x = true) (hv : Dec.dval 0 (b :: ip) = c)
    (hC : c * 10 ^ j ≤ Dec.MAXSIG) (hc0 : c % 10 ≠ 0) :
    Dec.parseNumber (b :: ip ++ List.replicate j 0x30) neg true = .ok (.fin neg c j) := by
  have hval : Dec.dval 0 (b :: (ip ++ List.replicate j 0x30)) = c * 10 ^ j := by
    rw [← List.cons_append, Dec.dval_append, hv, dval_zeros]
  have hdig : ∀ x ∈ b :: (ip ++ List.replicate j 0x30), Dec.isDigit x = true := by
    intro x hx
    rw [← List.cons_append] at hx
    rcases List.mem_append.mp hx with hx | hx
    · exact hd x hx
    · exact digit_zeros j x hx
  have hm := Dec.prun_int true b (ip ++ List.replicate j 0x30) hdig
    (by rw [hval]; exact Nat.le_trans hC Dec.MAXSIG_le_PFULL)
  rw [hval] at hm
  have := Dec.parseNumber_mant _ _ 0 false neg true hm hC (by decide) (by decide)
  rw [List.cons_append, this, Int.neg_zero, Dec.normalize_shift, normalize_self _ _ _ hc0]
  simp

/-- shapes (c), (d): integer part, dot, fraction part -/
theorem pn_frac (neg : Bool) (b : Nat) (ip : Bytes) (f : Nat) (fp : Bytes) (c : Nat)
    (hd : ∀ x ∈ b :: ip, Dec.isDigit x = true) (hf : ∀ x ∈ f :: fp, Dec.isDigit x = true)
    (hv : Dec.dval 0 ((b :: ip) ++ (f :: fp)) = c) (hC : c ≤ Dec.MAXSIG) (hc0 : c % 10 ≠ 0)
    (hlo : Dec.EMIN ≤ -(((f :: fp).length : Nat) : Int)) :
    Dec.parseNumber ((b :: ip) ++ 0x2E :: (f :: fp)) neg true = .ok (.fin neg c (-(((f :: fp).length : Nat) : Int))) := by
  have hm := Dec.prun_frac true b ip f fp hd hf (by rw [hv]; exact Nat.le_trans hC Dec.MAXSIG_le_PFULL)
  rw [hv] at hm
  have := Dec.parseNumber_mant _ _ _ true neg true hm hC hlo (by simp only [Dec.EMAX]; omega)
  rw [this, normalize_self _ _ _ hc0]

/-- shape (a): mantissa and exponent part; the exponent may exceed `EMAX` by the room `k` of the coefficient -/
theorem pn_exp (neg : Bool) (m : Bytes) (c : Nat) (F : Int) (D : Bool) (sg : Bool) (x : Nat) (ep : Bytes) (k : Nat)
    (hm : Dec.prun true {} m = some (Dec.mantState c F D))
    (hd : ∀ y ∈ x :: ep, Dec.isDigit y = true) (hle : Dec.dval 0 (x :: ep) ≤ 6189)
    (hc0 : c % 10 ≠ 0) (hroom : c * 10 ^ k ≤ Dec.MAXSIG)
    (hlo : Dec.EMIN ≤ (if sg then -(Dec.dval 0 (x :: ep) : Int) else Dec.dval 0 (x :: ep)) - F)
    (hhi : (if sg then -(Dec.dval 0 (x :: ep) : Int) else Dec.dval 0 (x :: ep)) - F - k ≤ Dec.EMAX) :
    Dec.parseNumber (m ++ Dec.expText false (some sg) (x :: ep)) neg true =
      .ok (.fin neg c ((if sg then -(Dec.dval 0 (x :: ep) : Int) else Dec.dval 0 (x :: ep)) - F)) := by
  have hne : c ≠ 0 := by intro h; subst h; simp at hc0
  have hk : k < 35 := Dec.pow10_le_MAXSIG
    (Nat.le_trans (Nat.le_mul_of_pos_left _ (Nat.pos_of_ne_zero hne)) hroom)
  rw [Dec.parseNumber_eq, Dec.prun_append, hm]
  simp only []
  rw [Dec.prun_exp true c F D false (some sg) x ep hd hle]
  simp only [Dec.parseFinish, Dec.mantState]
  have hsg : (some sg == some true) = sg := by cases sg <;> rfl
  simp only [hsg, Bool.not_true, Bool.false_eq_true, if_false, hne]
  generalize (if sg = true then -(Dec.dval 0 (x :: ep) : Int) else Dec.dval 0 (x :: ep)) - F = E at *
  have h4 : ¬ (E > Dec.EMAX + 39) := by omega
  have h5 : ¬ (E < Dec.EMIN - 39) := by omega
  simp only [h4, h5, if_false]
  rw [reduce_room neg c k E hc0 hroom hlo hhi]

/-- `fmt` once the digit string is known -/
theorem fmt_eq (neg : Bool) (c : Nat) (e : Int) (b : Nat) (ip : Bytes) (hds : Dec.digitsOf c = b :: ip) :
    fmt neg c e =
      if e + (ip.length : Int) < -6 ∨ e + (ip.length : Int) ≥ 20 then
        (if neg = true then [0x2D] else []) ++ (if ip.isEmpty then [b] else b :: 0x2E :: ip) ++ [0x65] ++
          (if e + (ip.length : Int) < 0 then 0x2D :: Dec.natToBytes (e + (ip.length : Int)).natAbs
           else 0x2B :: Dec.natToBytes (e + (ip.length : Int)).natAbs)
      else if e ≥ 0 then
        (if neg = true then [0x2D] else []) ++ (b :: ip) ++ List.replicate e.toNat 0x30
      else if ((ip.length + 1 : Nat) : Int) + e > 0 then
        (if neg = true then [0x2D] else []) ++ (b :: ip).take (((ip.length + 1 : Nat) : Int) + e).toNat ++ [0x2E] ++
          (b :: ip).drop (((ip.length + 1 : Nat) : Int) + e).toNat
      else
        (if neg = true then [0x2D] else []) ++ [0x30, 0x2E] ++
          List.replicate (-(((ip.length + 1 : Nat) : Int) + e)).toNat 0x30 ++ (b :: ip) := by
  simp only [fmt, hds, List.length_cons, Nat.add_sub_cancel]

/-- scientific shape with any scanned mantissa -/
theorem parse_sci (neg : Bool) (b : Nat) (mr : Bytes) (c : Nat) (F : Int) (D : Bool) (S : Int) (k : Nat) (e : Int)
    (hb : Dec.isDigit b = true) (hm : Dec.prun true {} (b :: mr) = some (Dec.mantState c F D))
    (hS : S.natAbs ≤ 6189) (hc0 : c % 10 ≠ 0) (hroom : c * 10 ^ k ≤ Dec.MAXSIG) (he : S - F = e)
    (hlo : Dec.EMIN ≤ e) (hhi : e - k ≤ Dec.EMAX) :
    Dec.parse ((if neg = true then [0x2D] else []) ++ (b :: mr) ++ [0x65] ++
      (if S < 0 then 0x2D :: Dec.natToBytes S.natAbs else 0x2B :: Dec.natToBytes S.natAbs)) = .ok (.fin neg c e) := by
  obtain ⟨x, ep, hnb, hxd, hxv⟩ := Dec.natToBytes_spec S.natAbs
  by_cases hS0 : S < 0
  · simp only [hS0, if_true, hnb]
    have ht : (if neg = true then [0x2D] else []) ++ (b :: mr) ++ [0x65] ++ 0x2D :: x :: ep =
        (if neg = true then [0x2D] else []) ++ b :: (mr ++ Dec.expText false (some true) (x :: ep)) := by
      simp [Dec.expText]
    rw [ht, parse_sign _ _ _ hb, ← List.cons_append]
    have := pn_exp neg (b :: mr) c F D true x ep k hm hxd (by rw [hxv]; exact hS) hc0 hroom
      (by rw [hxv]; simp only [if_true]; omega) (by rw [hxv]; simp only [if_true]; omega)
    rw [this, hxv]
    simp only [if_true]
    congr 2; omega
  · simp only [hS0, if_false, hnb]
    have ht : (if neg = true then [0x2D] else []) ++ (b :: mr) ++ [0x65] ++ 0x2B :: x :: ep =
        (if neg = true then [0x2D] else []) ++ b :: (mr ++ Dec.expText false (some false) (x :: ep)) := by
      simp [Dec.expText]
    rw [ht, parse_sign _ _ _ hb, ← List.cons_append]
    have := pn_exp neg (b :: mr) c F D false x ep k hm hxd (by rw [hxv]; exact hS) hc0 hroom
      (by rw [hxv]; simp only [Bool.false_eq_true, if_false]; omega)
      (by rw [hxv]; simp only [Bool.false_eq_true, if_false]; omega)
    rw [this, hxv]
    simp only [Bool.false_eq_true, if_false]
    congr 2; omega

theorem take_drop_cons {α} (l : List α) (n : Nat) (h0 : 0 < n) (hn : n < l.length) :
    ∃ b ip f fp, l.take n = b :: ip ∧ l.drop n = f :: fp ∧ (f :: fp).length = l.length - n := by
  have h1 : (l.take n).length = n := by rw [List.length_take]; omega
  have h2 : (l.drop n).length = l.length - n := List.length_drop
  cases ht : l.take n with
  | nil => rw [ht] at h1; simp at h1; omega
  | cons b ip =>
    cases hd : l.drop n with
    | nil => rw [hd] at h2; simp at h2; omega
    | cons f fp => exact ⟨b, ip, f, fp, rfl, rfl, by rw [← hd]; exact h2⟩

/-- **the printed text of a normalised non-zero decimal parses back to exactly that decimal**; `k` is the room of
    the coefficient (the exponent of a normal form may exceed `EMAX` by that much) -/
theorem parse_fmt (neg : Bool) (c k : Nat) (e : Int) (hc0 : c % 10 ≠ 0) (hroom : c * 10 ^ k ≤ Dec.MAXSIG)
    (hlo : Dec.EMIN ≤ e) (hhi : e - k ≤ Dec.EMAX) :
    Dec.parse (fmt neg c e) = .ok (.fin neg c e) := by
  have hc : c ≤ Dec.MAXSIG := Nat.le_trans (Nat.le_mul_of_pos_right _ (Nat.pow_pos (by decide))) hroom
  have hne : c ≠ 0 := by intro h; subst h; simp at hc0
  have hk : k < 35 := Dec.pow10_le_MAXSIG
    (Nat.le_trans (Nat.le_mul_of_pos_left _ (Nat.pos_of_ne_zero hne)) hroom)
  obtain ⟨b, ip, hds, hd, hv⟩ := digitsOf_spec c hne
  have hb : Dec.isDigit b = true := hd b (List.mem_cons_self ..)
  have hv0 : Dec.dval 0 (b :: ip) = c := by simpa using hv 0
  have hlt : c < 10 ^ (ip.length + 1) := by
    have := Dec.dval_lt (b :: ip) 0 hd
    rw [hv0] at this; simpa using this
  have hlen : ip.length + 1 ≤ 35 := by
    have h35 : Dec.MAXSIG < 10 ^ 35 := by decide
    have := digitsOf_length_le c 35 (by omega)
    rw [hds] at this; simpa using this
  rw [fmt_eq neg c e b ip hds]
  simp only [Dec.EMIN, Dec.EMAX] at hlo hhi
  by_cases hsci : e + (ip.length : Int) < -6 ∨ e + (ip.length : Int) ≥ 20
  · -- (a) scientific
    rw [if_pos hsci]
    cases hip : ip with
    | nil =>
      subst hip
      have hm := Dec.prun_int true b [] hd (by rw [hv0]; exact Nat.le_trans hc Dec.MAXSIG_le_PFULL)
      rw [hv0] at hm
      simp only [List.isEmpty_nil, if_true]
      exact parse_sci neg b [] c 0 false _ k e hb hm (by simp only [List.length_nil]; omega) hc0 hroom
        (by simp) (by simpa [Dec.EMIN] using hlo) (by simpa [Dec.EMAX] using hhi)
    | cons f fp =>
      subst hip
      have hf : ∀ x ∈ f :: fp, Dec.isDigit x = true := fun x hx => hd x (List.mem_cons_of_mem _ hx)
      have hm := Dec.prun_frac true b [] f fp (by simpa using hb) hf
        (by rw [List.singleton_append, hv0]; exact Nat.le_trans hc Dec.MAXSIG_le_PFULL)
      rw [List.singleton_append, List.singleton_append, hv0] at hm
      simp only [List.isEmpty_cons, Bool.false_eq_true, if_false]
      exact parse_sci neg b (0x2E :: f :: fp) c _ true _ k e hb hm (by simp only [List.length_cons] at hlen ⊢; omega)
        hc0 hroom (by omega) (by simpa [Dec.EMIN] using hlo) (by simpa [Dec.EMAX] using hhi)
  · rw [if_neg hsci]
    by_cases he0 : e ≥ 0
    · -- (b) integer with trailing zeros
      rw [if_pos he0]
      have hC : c * 10 ^ e.toNat ≤ Dec.MAXSIG := by
        have h1 : c * 10 ^ e.toNat < 10 ^ (ip.length + 1) * 10 ^ e.toNat :=
          Nat.mul_lt_mul_of_pos_right hlt (Nat.pow_pos (by decide))
        rw [← Nat.pow_add] at h1
        have h2 : 10 ^ (ip.length + 1 + e.toNat) ≤ 10 ^ 20 := Nat.pow_le_pow_right (by decide) (by omega)
        have h3 : 10 ^ 20 ≤ Dec.MAXSIG := by decide
        omega
      rw [List.append_assoc, List.cons_append, parse_sign _ _ _ hb, ← List.cons_append,
        pn_int_zeros neg b ip c e.toNat hd hv0 hC hc0]
      congr 2; omega
    · rw [if_neg he0]
      by_cases hdp : ((ip.length + 1 : Nat) : Int) + e > 0
      · -- (c) dot inside the digits
        rw [if_pos hdp]
        obtain ⟨b', ip', f, fp, ht, hdr, hl⟩ := take_drop_cons (b :: ip) (((ip.length + 1 : Nat) : Int) + e).toNat
          (by omega) (by simp only [List.length_cons]; omega)
        have happ : (b' :: ip') ++ (f :: fp) = b :: ip := by rw [← ht, ← hdr, List.take_append_drop]
        have hd' : ∀ x ∈ b' :: ip', Dec.isDigit x = true := fun x hx => hd x (by rw [← happ]; exact List.mem_append_left _ hx)
        have hf : ∀ x ∈ f :: fp, Dec.isDigit x = true := fun x hx => hd x (by rw [← happ]; exact List.mem_append_right _ hx)
        rw [ht, hdr]
        have ht2 : (if neg = true then [0x2D] else []) ++ b' :: ip' ++ [0x2E] ++ f :: fp =
            (if neg = true then [0x2D] else []) ++ b' :: (ip' ++ 0x2E :: f :: fp) := by simp
        rw [ht2, parse_sign _ _ _ (hd' b' (List.mem_cons_self ..)), ← List.cons_append,
          pn_frac neg b' ip' f fp c hd' hf (by rw [happ]; exact hv0) hc hc0
            (by rw [hl]; simp only [List.length_cons, Dec.EMIN]; omega)]
        rw [hl]; simp only [List.length_cons]
        congr 2; omega
      · -- (d) 0.000ddd
        rw [if_neg hdp]
        have hz : List.replicate (-(((ip.length + 1 : Nat) : Int) + e)).toNat 0x30 ++ (b :: ip) ≠ [] := by simp
        cases hfr : List.replicate (-(((ip.length + 1 : Nat) : Int) + e)).toNat 0x30 ++ (b :: ip) with
        | nil => exact absurd hfr hz
        | cons f fp =>
          have hf : ∀ x ∈ f :: fp, Dec.isDigit x = true := by
            intro x hx
            rw [← hfr] at hx
            rcases List.mem_append.mp hx with hx | hx
            · exact digit_zeros _ x hx
            · exact hd x hx
          have hval : Dec.dval 0 ([0x30] ++ (f :: fp)) = c := by
            rw [← hfr, Dec.dval_append, Dec.dval_append, dval_zeros]
            simpa [Dec.dval] using hv0
          have hlen2 : (f :: fp).length = (-(((ip.length + 1 : Nat) : Int) + e)).toNat + (ip.length + 1) := by
            rw [← hfr]; simp
          have ht2 : (if neg = true then [0x2D] else []) ++ [0x30, 0x2E] ++
              List.replicate (-(((ip.length + 1 : Nat) : Int) + e)).toNat 0x30 ++ (b :: ip) =
              (if neg = true then [0x2D] else []) ++ 0x30 :: ([] ++ 0x2E :: f :: fp) := by
            rw [← hfr]; simp
          rw [ht2, parse_sign _ _ _ (by decide), ← List.cons_append,
            pn_frac neg 0x30 [] f fp c (by simp [Dec.isDigit]) hf hval hc hc0
              (by rw [hlen2]; simp only [Dec.EMIN]; omega)]
          rw [hlen2]
          congr 2; omega

/-! ### main theorems -/

/-- the decimal prints, and the printed text parses back to a decimal of equal value -/
def DecRereads (d : Dec) : Prop :=
  ∃ b d', d.marshalJSON = some b ∧ Dec.parse b = .ok d' ∧ Dec.cmp d d' = some 0

/-- **`Parse ∘ MarshalJSON` is `normalize`**: every finite decimal of the format (coefficient ≤ MAXSIG, exponent in
    `[EMIN, EMAX]`) prints, and `decimal128.Parse` of the printed text returns exactly its normal form (trailing
    zeros of the coefficient moved into the exponent; `±0·10^e ↦ ±0·10^0`) — without error, also when the normal
    form's exponent exceeds `EMAX` (e.g. `10^33·10^6111` prints as `1e+6144`) -/
theorem marshal_parse (neg : Bool) (c : Nat) (e : Int)
    (hc : c ≤ Dec.MAXSIG) (hlo : Dec.EMIN ≤ e) (hhi : e ≤ Dec.EMAX) :
    ∃ b, (Dec.fin neg c e).marshalJSON = some b ∧ Dec.parse b = .ok (Dec.normalize (.fin neg c e)) := by
  by_cases hc0 : c = 0
  · subst hc0
    refine ⟨(if neg = true then [0x2D] else []) ++ [0x30], by simp [Dec.marshalJSON], ?_⟩
    rw [Dec.normalize_zero]
    cases neg <;> decide
  · obtain ⟨c', k, hn, hck, hc10⟩ := Dec.normalize_spec neg c e hc0
    refine ⟨fmt neg c' (e + k), marshalJSON_eq_fmt neg c e hc0 neg c' (e + k) hn, ?_⟩
    rw [hn]
    exact parse_fmt neg c' k (e + k) hc10 (by rw [← hck]; exact hc) (by omega) (by omega)

/-- the stronger form spelled out: zero prints as `0`/`-0` and reads back as `±0·10^0` -/
theorem marshal_parse_zero (neg : Bool) (e : Int) :
    ∃ b, (Dec.fin neg 0 e).marshalJSON = some b ∧ Dec.parse b = .ok (.fin neg 0 0) := by
  refine ⟨(if neg = true then [0x2D] else []) ++ [0x30], by simp [Dec.marshalJSON], ?_⟩
  cases neg <;> decide

/-- **re-reading the printed text gives a decimal of equal value** -/
theorem dec_rereads (neg : Bool) (c : Nat) (e : Int)
    (hc : c ≤ Dec.MAXSIG) (hlo : Dec.EMIN ≤ e) (hhi : e ≤ Dec.EMAX) : DecRereads (.fin neg c e) := by
  obtain ⟨b, h1, h2⟩ := marshal_parse neg c e hc hlo hhi
  exact ⟨b, _, h1, h2, Dec.cmp_normalize' neg c e⟩

/-- `MarshalJSON` is a function of the normal form (of a finite decimal) -/
theorem marshalJSON_congr {n2 : Bool} {c2 : Nat} {e2 : Int} {neg : Bool} {c : Nat} {e : Int}
    (hn : Dec.normalize (.fin n2 c2 e2) = Dec.normalize (.fin neg c e)) :
    (Dec.fin n2 c2 e2).marshalJSON = (Dec.fin neg c e).marshalJSON := by
  by_cases h2 : c2 = 0
  · subst h2
    rw [Dec.normalize_zero] at hn
    by_cases h : c = 0
    · subst h
      rw [Dec.normalize_zero] at hn
      injection hn with hn
      subst hn
      simp [Dec.marshalJSON]
    · obtain ⟨c', k, hn', _, hc10⟩ := Dec.normalize_spec neg c e h
      rw [hn'] at hn
      injection hn with _ h0 _
      subst h0; simp at hc10
  · obtain ⟨c2', k2, hn2, _, hc210⟩ := Dec.normalize_spec n2 c2 e2 h2
    by_cases h : c = 0
    · subst h
      rw [Dec.normalize_zero, hn2] at hn
      injection hn with _ h0 _
      subst h0; simp at hc210
    · obtain ⟨c', k, hn', _, _⟩ := Dec.normalize_spec neg c e h
      have hnn := hn
      rw [hn2, hn'] at hnn
      injection hnn with hnn _ _
      subst hnn
      rw [marshalJSON_eq_fmt n2 c2 e2 h2 _ _ _ hn2, marshalJSON_eq_fmt n2 c e h _ _ _ hn']
      rw [hn2, hn'] at hn
      injection hn with _ h3 h4
      rw [h3, h4]

/-- re-reading depends on the normal form only: any finite decimal (whatever its coefficient/exponent) whose normal
    form is that of a decimal of the format re-reads with equal value -/
theorem dec_rereads_of_normalize {d : Dec} {neg : Bool} {c : Nat} {e : Int}
    (hn : Dec.normalize d = Dec.normalize (.fin neg c e)) (hd : d.isSpecial = false)
    (hc : c ≤ Dec.MAXSIG) (hlo : Dec.EMIN ≤ e) (hhi : e ≤ Dec.EMAX) : DecRereads d := by
  cases d with
  | nan => cases hd
  | inf n => cases hd
  | fin n2 c2 e2 =>
    obtain ⟨b, h1, h2⟩ := marshal_parse neg c e hc hlo hhi
    refine ⟨b, _, (marshalJSON_congr hn).trans h1, h2, ?_⟩
    rw [← hn]
    exact Dec.cmp_normalize' n2 c2 e2

/-- precisely: the text of such a decimal parses to its normal form -/
theorem marshal_parse_of_normalize {d : Dec} {neg : Bool} {c : Nat} {e : Int}
    (hn : Dec.normalize d = Dec.normalize (.fin neg c e)) (hd : d.isSpecial = false)
    (hc : c ≤ Dec.MAXSIG) (hlo : Dec.EMIN ≤ e) (hhi : e ≤ Dec.EMAX) :
    ∃ b, d.marshalJSON = some b ∧ Dec.parse b = .ok (Dec.normalize d) := by
  cases d with
  | nan => cases hd
  | inf n => cases hd
  | fin n2 c2 e2 =>
    obtain ⟨b, h1, h2⟩ := marshal_parse neg c e hc hlo hhi
    exact ⟨b, (marshalJSON_congr hn).trans h1, by rw [hn]; exact h2⟩

/-! ### examples -/

-- 2.5
example : Dec.marshalJSON (.fin false 25 (-1)) = some [0x32, 0x2E, 0x35] := by decide
example : Dec.parse [0x32, 0x2E, 0x35] = .ok (.fin false 25 (-1)) := by decide
example : DecRereads (.fin false 25 (-1)) := dec_rereads _ _ _ (by decide) (by decide) (by decide)
-- 2.50 (not normalised) reads back as 2.5
example : ∃ b, (Dec.fin false 250 (-2)).marshalJSON = some b ∧ Dec.parse b = .ok (.fin false 25 (-1)) := by
  have := marshal_parse false 250 (-2) (by decide) (by decide) (by decide)
  rwa [Dec.normalize_of false 250 25 1 (-2) (by decide) (by decide)] at this
-- -0.000001234
example : Dec.marshalJSON (.fin true 1234 (-9)) =
    some [0x2D, 0x30, 0x2E, 0x30, 0x30, 0x30, 0x30, 0x30, 0x31, 0x32, 0x33, 0x34] := by decide
example : DecRereads (.fin true 1234 (-9)) := dec_rereads _ _ _ (by decide) (by decide) (by decide)
-- 1.5e+30
example : Dec.marshalJSON (.fin false 15 29) = some [0x31, 0x2E, 0x35, 0x65, 0x2B, 0x33, 0x30] := by decide
example : DecRereads (.fin false 15 29) := dec_rereads _ _ _ (by decide) (by decide) (by decide)
-- 1e6144 = 10^33 · 10^6111: the normal form 1·10^6144 has an exponent above EMAX
example : DecRereads (.fin false (10 ^ 33) 6111) := dec_rereads _ _ _ (by decide) (by decide) (by decide)
example : ∃ b, (Dec.fin false (10 ^ 33) 6111).marshalJSON = some b ∧ Dec.parse b = .ok (.fin false 1 6144) := by
  have := marshal_parse false (10 ^ 33) 6111 (by decide) (by decide) (by decide)
  rwa [Dec.normalize_of false (10 ^ 33) 1 33 6111 (by decide) (by simp)] at this
example : Dec.marshalJSON (.fin false (10 ^ 33) 6111) = some [0x31, 0x65, 0x2B, 0x36, 0x31, 0x34, 0x34] := by decide
example : Dec.parse [0x31, 0x65, 0x2B, 0x36, 0x31, 0x34, 0x34] = .ok (.fin false 1 6144) := by decide
-- zero
example : DecRereads (.fin true 0 5) := dec_rereads _ _ _ (by decide) (by decide) (by decide)
-- a decimal outside the format's exponent range but with the normal form of one inside
example : DecRereads (.fin false 10 (-6177)) :=
  dec_rereads_of_normalize (neg := false) (c := 1) (e := -6176)
    (by rw [Dec.normalize_of false 10 1 1 (-6177) (by decide) (by decide),
            Dec.normalize_of false 1 1 0 (-6176) (by decide) (by decide)]; rfl)
    rfl (by decide) (by decide) (by decide)

end Jmes.C18CRD
